/-
C18 with explicit coefficients, support file.  This is a COPY, made by a script, of the degree
calculus of ReCost.lean / ReCostExtra.lean and of the per-pattern derivations of ReSmall.lean /
ReSchemaBase.lean / ReSchema.lean, with every hidden constant made explicit.  The one change
against the originals: the bound predicates `PB`, `RP`, `Sparse`, `Dead`, `Cheap`, `Skip`,
`SparseN` (and the bundles `Val`, `Grp`, `Tail`, `QItem` built from them) are SUBTYPES
`{ c : Nat // … }` instead of existentials `∃ c, …`; hence every rule whose conclusion is one of
them is a `def` that computes its constant (the proof scripts are those of the originals, verbatim),
and the constant of a finished derivation can be evaluated (`Small.attr_PB.val` reduces to a numeral).
Everything lives in namespace `Verif.Proofs.XC`; the raw, constant-explicit lemmas of ReCost.lean
(`work_cat_munch`, `work_star_chain`, `B_*`, …) are reused from there.  Core Lean only.
-/
import Verif.Proofs.SmallMoreReSmall

set_option linter.unusedSimpArgs false

namespace Verif.Proofs.XC.SchemaRe
open Verif Verif.Re Verif.Proofs.ReCost Verif.Proofs.XC Verif.Proofs.XC.Small


/-! ### character classes -/

def cSpace : List (Nat × Nat) := [(32, 32)]
def cQuote : List (Nat × Nat) := [(39, 39)]
def cLP : List (Nat × Nat) := [(40, 40)]
def cRP : List (Nat × Nat) := [(41, 41)]
def cDol : List (Nat × Nat) := [(36, 36)]
def cBs : List (Nat × Nat) := [(92, 92)]
/-- `[^'\\]` -/
def cPlain : List (Nat × Nat) := [(0, 38), (40, 91), (93, 1114111)]
/-- key characters and the dot: what an OID (descr or numericoid) is made of -/
def cKey : List (Nat × Nat) := [(45, 46), (48, 57), (65, 90), (97, 122)]
/-- `[xX]` -/
def cXx : List (Nat × Nat) := [(88, 88), (120, 120)]
/-- `[a-zA-Z_-]` -/
def cXC : List (Nat × Nat) := [(45, 45), (65, 90), (95, 95), (97, 122)]

/-- disjointness / inclusion of concrete classes -/
macro "cls_arith" : tactic =>
  `(tactic| (intro c; simp [cSpace, cQuote, cLP, cRP, cDol, cBs, cPlain, cKey, cXx, cXC, cDigit, cD19, cDot, cAlpha,
      cAnh, cLbrace, cRbrace, Re.inCls] <;> omega))

theorem space_alpha : Disj cSpace cAlpha := by cls_arith
theorem space_digit : Disj cSpace cDigit := by cls_arith
theorem space_dot : Disj cSpace cDot := by cls_arith
theorem space_quote : Disj cSpace cQuote := by cls_arith
theorem space_lp : Disj cSpace cLP := by cls_arith
theorem space_rp : Disj cSpace cRP := by cls_arith
theorem space_key : Disj cSpace cKey := by cls_arith
theorem space_xc : Disj cSpace cXC := by cls_arith
theorem space_xx : Disj cSpace cXx := by cls_arith
theorem key_space : Disj cKey cSpace := by cls_arith
theorem key_dol : Disj cKey cDol := by cls_arith
theorem key_rp : Disj cKey cRP := by cls_arith
theorem dol_space : Disj cDol cSpace := by cls_arith
theorem rp_space : Disj cRP cSpace := by cls_arith
theorem quote_space : Disj cQuote cSpace := by cls_arith
theorem rp_dol : Disj cRP cDol := by cls_arith
theorem rp_quote : Disj cRP cQuote := by cls_arith
theorem quote_lp : Disj cQuote cLP := by cls_arith
theorem quote_anh : Disj cQuote cAnh := by cls_arith
theorem quote_bs : Disj cQuote cBs := by cls_arith
theorem quote_plain : Disj cQuote cPlain := by cls_arith
theorem bs_plain : Disj cBs cPlain := by cls_arith
theorem alpha_digit : Disj cAlpha cDigit := by cls_arith
theorem d19_sub_digit : Sub cD19 cDigit := by cls_arith
theorem digit_sub_key : Sub cDigit cKey := by cls_arith
theorem dot_sub_key : Sub cDot cKey := by cls_arith
theorem anh_sub_key : Sub cAnh cKey := by cls_arith

abbrev S : List Nat → Bool := startsIn cSpace
abbrev NS : List Nat → Bool := notStartsIn cSpace
abbrev noKey : List Nat → Bool := notStartsIn cKey

theorem contra {P Q : List Nat → Bool} (h : ∀ t, P t = true → Q t = true) : ∀ t, Q t = false → P t = false := by
  intro t hq
  cases hp : P t with
  | false => rfl
  | true => have := h t hp; simp [hq] at this

theorem _root_.Verif.Proofs.ReCost.Sub.notStartsXC {A B} (h : Sub A B) : ∀ t, notStartsIn B t = true → notStartsIn A t = true := by
  intro t ht
  have := h.starts_false t (by simpa [notStartsIn] using ht)
  simp [notStartsIn, this]

theorem noKey_starts_false {A} (h : Sub A cKey) : ∀ t, noKey t = true → startsIn A t = false := by
  intro t ht
  exact h.starts_false t (by simpa [notStartsIn] using ht)

/-! ### `WSP = [ ]*` and `SP = [ ]+` -/

def wsp : Re := .star (.cls cSpace)
def sp : Re := .cat (.cls cSpace) wsp

def wsp_PB : PB wsp 1 := PB.star_cls _
def wsp_RP : RP wsp 1 := RP.star_cls _
theorem wsp_s1 {P : List Nat → Bool} (hP : ∀ t, P t = true → S t = false) : Sparse1 wsp P := Sparse1.star_cls _ hP
theorem wsp_s1_NS : Sparse1 wsp NS := wsp_s1 notStartsIn_self_false
def wsp_skip : Skip wsp S := Skip.star (Dead.cls _)

def sp_PB : PB sp 1 := PB.cat PB.cls RP.cls wsp_PB
def sp_RP : RP sp 1 := RP.of_PB sp_PB
theorem sp_s1 {P : List Nat → Bool} (hP : ∀ t, P t = true → S t = false) : Sparse1 sp P :=
  Sparse1.cat (runs_cls_length_le _) (wsp_s1 hP)
theorem sp_s1_NS : Sparse1 sp NS := sp_s1 notStartsIn_self_false
def sp_dead : Dead sp S := Dead.cat (Dead.cls _) _

/-- spaces, then something that cannot start with a space -/
def wsp_then_PB {x : Re} {d g : Nat} (hd : Dead x NS) (hx : PB x d) (h1 : 1 ≤ g := by omega)
    (h2 : d ≤ g := by omega) : PB (.cat wsp x) g :=
  PB.cat_munch NS wsp_PB wsp_RP wsp_s1_NS.sparse (Cheap.of_Dead hd) hx
def wsp_then_RP {x : Re} {d g : Nat} (hd : Dead x NS) (hx : RP x d) (h1 : 1 ≤ g := by omega)
    (h2 : d ≤ g := by omega) : RP (.cat wsp x) g :=
  RP.cat_munch NS wsp_RP wsp_s1_NS.sparse (Cheap.of_Dead hd) hx
def wsp_then_sparse {x : Re} {P : List Nat → Bool} (hd : Dead x NS) (hx : Sparse x P) : Sparse (.cat wsp x) P :=
  Sparse.cat_munch NS wsp_s1_NS.sparse (pass_of_Dead hd _) hx
theorem wsp_then_s1 {x : Re} {P : List Nat → Bool} (hd : Dead x NS) (hx : Sparse1 x P) : Sparse1 (.cat wsp x) P :=
  Sparse1.cat_munch NS wsp_s1_NS (pass_of_Dead hd _) hx

def sp_then_PB {x : Re} {d g : Nat} (hd : Dead x NS) (hx : PB x d) (h1 : 1 ≤ g := by omega)
    (h2 : d ≤ g := by omega) : PB (.cat sp x) g :=
  PB.cat_munch NS sp_PB sp_RP sp_s1_NS.sparse (Cheap.of_Dead hd) hx
def sp_then_RP {x : Re} {d g : Nat} (hd : Dead x NS) (hx : RP x d) (h1 : 1 ≤ g := by omega)
    (h2 : d ≤ g := by omega) : RP (.cat sp x) g :=
  RP.cat_munch NS sp_RP sp_s1_NS.sparse (Cheap.of_Dead hd) hx
def sp_then_sparse {x : Re} {P : List Nat → Bool} (hd : Dead x NS) (hx : Sparse x P) : Sparse (.cat sp x) P :=
  Sparse.cat_munch NS sp_s1_NS.sparse (pass_of_Dead hd _) hx
theorem sp_then_s1 {x : Re} {P : List Nat → Bool} (hd : Dead x NS) (hx : Sparse1 x P) : Sparse1 (.cat sp x) P :=
  Sparse1.cat_munch NS sp_s1_NS (pass_of_Dead hd _) hx
def sp_then_dead (x : Re) : Dead (.cat sp x) S := Dead.cat sp_dead _

/-! ### `WSP \)` -/

def closeP : Re := .cat wsp (.cls cRP)

def closeP_PB : PB closeP 1 := PB.cat wsp_PB wsp_RP PB.cls
theorem closeP_single : Single closeP :=
  Single.cat_munch (startsIn cRP) (wsp_s1 rp_space.starts) (Fails.cls _) Single.cls
theorem closeP_fails : Fails closeP (pastIn cSpace cRP) := Fails.star_cls_cat rp_space (Fails.cls _)
def closeP_cheap : Cheap closeP S := Cheap.cat_skip wsp_skip (Cheap.of_PB0 PB.cls _)

/-! ### NUMERICOID = `NUMBER(\.NUMBER)+` (`Small.noidOid`) -/

abbrev numericoid : Re := Small.noidOid

def number_dead : Dead number (startsIn cDigit) :=
  Dead.alt (Dead.cls _) ((Dead.cat (Dead.cls cD19) _).mono d19_sub_digit.starts_false)
def numericoid_dead : Dead numericoid (startsIn cDigit) := Dead.cat number_dead _
def numericoid_dead_NS : Dead numericoid NS := numericoid_dead.mono space_digit.not_false

/-- results of `(\.NUMBER)+` at positions that are neither a digit nor a dot: only the maximal munch -/
theorem noidDotNumbers_s1 {P : List Nat → Bool} (h1 : ∀ t, P t = true → noDigit t = true)
    (h2 : ∀ t, P t = true → startsIn cDot t = false) : Sparse1 noidDotNumbers P :=
  Sparse1.cat_munch noDigit noidDotNumber_sparse1
    (pass_star_of_Dead noidDotNumber_dead digit_dot.not_false (contra h1))
    (Sparse1.star_chain (startsIn cDot) noDigit noidDotNumber_dead noidDotNumber_sparse1
      digit_dot.symm.starts_not h1 h2)

theorem numericoid_s1 {P : List Nat → Bool} (h1 : ∀ t, P t = true → noDigit t = true)
    (h2 : ∀ t, P t = true → startsIn cDot t = false) : Sparse1 numericoid P :=
  Sparse1.cat_munch noDigit number_sparse1 (pass_of_Dead noidDotNumbers_dead _) (noidDotNumbers_s1 h1 h2)

theorem numericoid_s1_noKey : Sparse1 numericoid noKey :=
  numericoid_s1 digit_sub_key.notStartsXC (noKey_starts_false dot_sub_key)

theorem S_noKey : ∀ t, S t = true → noKey t = true := space_key.starts_not

def numericoid_sparse_S : Sparse numericoid S := (numericoid_s1_noKey.mono S_noKey).sparse

/-! ### DESCR = `[a-zA-Z][a-zA-Z0-9-]*`, OID = `DESCR|NUMERICOID` -/

def descr : Re := .cat (.cls cAlpha) (.star (.cls cAnh))
def oid : Re := .alt descr numericoid

def descr_PB : PB descr 1 := PB.cat PB.cls RP.cls (PB.star_cls _)
def descr_RP : RP descr 1 := RP.of_PB descr_PB
def descr_dead : Dead descr (startsIn cAlpha) := Dead.cat (Dead.cls _) _
theorem descr_s1_noKey : Sparse1 descr noKey :=
  Sparse1.cat (runs_cls_length_le _) (Sparse1.star_cls cAnh (noKey_starts_false anh_sub_key))

def oid_PB : PB oid 2 := PB.alt descr_PB noidOid_PB
def oid_RP : RP oid 2 := RP.alt descr_RP noidOid_RP
def oid_dead : Dead oid NS :=
  Dead.alt (descr_dead.mono space_alpha.not_false) numericoid_dead_NS
theorem oid_s1 : Sparse1 oid noKey :=
  Sparse1.alt_fails (startsIn cAlpha) (startsIn cDigit) descr_s1_noKey numericoid_s1_noKey
    descr_dead.fails numericoid_dead.fails alpha_digit.starts
def oid_sparse_S : Sparse oid S := (oid_s1.mono S_noKey).sparse

/-! ### OIDS = `OID | \( WSP OID (WSP \$ WSP OID)* WSP \)` -/

/-- `WSP \$ WSP OID` -/
def dolOid : Re := .cat wsp (.cat (.cls cDol) (.cat wsp oid))
/-- `OID (WSP \$ WSP OID)*` -/
def oidList : Re := .cat oid (.star dolOid)
def oidsParen : Re := .cat (.cls cLP) (.cat wsp (.cat oidList closeP))
def oids : Re := .alt oid oidsParen

def dolTail_dead : Dead (.cat (.cls cDol) (.cat wsp oid)) (startsIn cDol) := Dead.cat (Dead.cls _) _

def dolOid_dead : Dead dolOid noKey :=
  Dead.cat_skip (wsp_skip.mono key_space.not_false) (dolTail_dead.mono key_dol.not_false)
def dolOid_PB : PB dolOid 2 :=
  PB.cat_munch (startsIn cDol) wsp_PB wsp_RP (wsp_s1 dol_space.starts).sparse (Cheap.of_Dead dolTail_dead)
    (PB.cat PB.cls RP.cls (wsp_then_PB oid_dead oid_PB (d := 2) (g := 2)) (d := 0) (e := 0) (f := 2) (g := 2))
def dolOid_RP : RP dolOid 2 := RP.of_PB dolOid_PB
theorem dolOid_s1 : Sparse1 dolOid noKey :=
  Sparse1.cat_munch (startsIn cDol) (wsp_s1 dol_space.starts) (pass_of_Dead dolTail_dead _)
    (Sparse1.cat (runs_cls_length_le _) (wsp_then_s1 oid_dead oid_s1))
theorem dolOid_fails : Fails dolOid (pastIn cSpace cDol) :=
  Fails.star_cls_cat dol_space (Fails.cat (Fails.cls cDol) _)

def dolOids_PB : PB (.star dolOid) 3 := PB.star_chain noKey dolOid_dead dolOid_s1 dolOid_PB dolOid_RP
def dolOids_RP : RP (.star dolOid) 3 := RP.star_chain noKey dolOid_dead dolOid_s1 dolOid_RP
/-- of the list's item ends, at most one reaches the closing parenthesis -/
theorem dolOids_s1 : Sparse1 (.star dolOid) (pastIn cSpace cRP) :=
  Sparse1.star_chain_fails (pastIn cSpace cDol) noKey dolOid_fails dolOid_s1
    (pastIn_notStartsIn key_space key_dol) (pastIn_notStartsIn key_space key_rp)
    (fun _ h => pastIn_disj rp_dol h)
def dolOids_sN : SparseN (.star dolOid) noKey 1 := SparseN.star_chain dolOid_dead.fails dolOid_s1

def oidList_PB : PB oidList 3 :=
  PB.cat_munch noKey oid_PB oid_RP oid_s1.sparse (Cheap.star_of_Dead dolOid_dead) dolOids_PB
def oidList_RP : RP oidList 3 :=
  RP.cat_munch noKey oid_RP oid_s1.sparse (Cheap.star_of_Dead dolOid_dead) dolOids_RP
def oidList_dead : Dead oidList NS := Dead.cat oid_dead _
theorem oidList_s1 : Sparse1 oidList (pastIn cSpace cRP) :=
  Sparse1.cat_munch noKey oid_s1
    (pass_star_of_Dead dolOid_dead (fun _ h => h) (pastIn_false_of key_space key_rp)) dolOids_s1
def oidList_sN : SparseN oidList noKey 1 :=
  SparseN.cat_munch noKey oid_s1.sparse (pass_star_of_Dead dolOid_dead (fun _ h => h) (fun _ h => h)) dolOids_sN

def oidListClose_PB : PB (.cat oidList closeP) 3 :=
  PB.cat_munchN noKey oidList_PB oidList_RP oidList_sN (closeP_cheap.mono key_space.not_false) closeP_PB
def oidListClose_few : Few (.cat oidList closeP) :=
  Few.cat_munch (pastIn cSpace cRP) oidList_s1.sparse closeP_fails closeP_single.few
def oidListClose_dead : Dead (.cat oidList closeP) NS := Dead.cat oidList_dead _

def oidsParen_PB : PB oidsParen 3 :=
  PB.cat PB.cls RP.cls (wsp_then_PB oidListClose_dead oidListClose_PB (g := 3)) (e := 0) (g := 3)
def oidsParen_few : Few oidsParen :=
  Sparse.cat RP.cls (Few.cat_munch NS wsp_s1_NS.sparse oidListClose_dead.fails oidListClose_few)
def oidsParen_dead : Dead oidsParen (startsIn cLP) := Dead.cat (Dead.cls _) _

/-! ### bundles -/

/-- a value after `SP keyword SP`: cannot start with a space; boundedly many of its results start with a space -/
structure Val (v : Re) : Type where
  dead : Dead v NS
  pb : PB v 3
  rp : RP v 3
  sparse : Sparse v S

/-- an optional top-level group -/
structure Grp (g : Re) : Type where
  pb : PB g 3
  rp : RP g 3
  sparse : Sparse g S
  skip : Skip g S

/-- the rest of the pattern -/
structure Tail (t : Re) : Type where
  cheap : Cheap t S
  pb : PB t 3

/-- `(SP x)?` -/
def optSp (x : Re) : Re := .alt (.cat sp x) .eps

def Val.grp {x : Re} (h : Val x) : Grp (optSp x) where
  pb := PB.alt (sp_then_PB h.dead h.pb (g := 3)) PB.eps
  rp := RP.alt (sp_then_RP h.dead h.rp (g := 3)) Single.eps.rp (e := 0)
  sparse := Sparse.alt (sp_then_sparse h.dead h.sparse) (Single.eps.sparse _)
  skip := Skip.opt (sp_then_dead x)

/-- `keyword SP v` -/
def Val.kwCat {v : Re} (h : Val v) (c : Nat) (cs : List Nat) (hc : inCls cSpace c = false := by decide) :
    Val (kwCat (c :: cs) (.cat sp v)) where
  dead := (Dead.kwCat c cs _).mono (disj_lit hc).not_false
  pb := PB.kwCat (sp_then_PB h.dead h.pb) _
  rp := RP.kwCat (sp_then_RP h.dead h.rp) _
  sparse := Sparse.kwCat (sp_then_sparse h.dead h.sparse) _

/-- a bare keyword -/
def Val.kw (c : Nat) (cs : List Nat) (hc : inCls cSpace c = false := by decide) : Val (kw (c :: cs)) where
  dead := (Dead.kw c cs).mono (disj_lit hc).not_false
  pb := (PB.kw _).mono
  rp := (Single.kw _).rp
  sparse := (Single.kw _).sparse _

def Val.alt {a b : Re} (ha : Val a) (hb : Val b) : Val (.alt a b) where
  dead := Dead.alt ha.dead hb.dead
  pb := PB.alt ha.pb hb.pb
  rp := RP.alt ha.rp hb.rp
  sparse := Sparse.alt ha.sparse hb.sparse

def Grp.tail {g t : Re} (hg : Grp g) (ht : Tail t) : Tail (.cat g t) where
  cheap := Cheap.cat_skip hg.skip ht.cheap
  pb := PB.cat_munch S hg.pb hg.rp hg.sparse ht.cheap ht.pb

/-- `\( WSP NUMERICOID rest` -/
def schema (t : Re) : Re := .cat (.cls cLP) (.cat wsp (.cat numericoid t))

def Tail.schema {t : Re} (ht : Tail t) : PB (schema t) 3 :=
  PB.cat PB.cls RP.cls
    (wsp_then_PB (Dead.cat numericoid_dead_NS _)
      (PB.cat_munch S noidOid_PB noidOid_RP numericoid_sparse_S ht.cheap ht.pb (g := 3)) (d := 3) (g := 3))

def oid_val : Val oid := ⟨oid_dead, oid_PB.mono, oid_RP.mono, oid_sparse_S⟩

def oids_val : Val oids where
  dead := Dead.alt oid_dead (oidsParen_dead.mono space_lp.not_false)
  pb := PB.alt oid_PB oidsParen_PB
  rp := RP.alt oid_RP oidsParen_few.rp (e := 0)
  sparse := Sparse.alt oid_sparse_S (oidsParen_few.sparse _)

/-! ### quoted items and their lists

`th r` is "one quoted item, then `r`" (the translator flattens `QDESCR (SP QDESCR)*` to
`' … ' (SP ' … ')*`, so the list is the item with a longer continuation). -/

structure QItem (th : Re → Re) : Type where
  pb : ∀ {r : Re} {d : Nat}, Cheap r (startsIn cQuote) → PB r d → 1 ≤ d → PB (th r) d
  rp : ∀ {r : Re} {e : Nat}, Cheap r (startsIn cQuote) → RP r e → 1 ≤ e → RP (th r) e
  s1 : ∀ {r : Re} {P : List Nat → Bool}, Fails r (startsIn cQuote) → Sparse1 r P → Sparse1 (th r) P
  dead : ∀ r : Re, Dead (th r) (startsIn cQuote)

/-- `'…'` -/
def qItem (th : Re → Re) : Re := th (.cls cQuote)
/-- `(SP '…')*` -/
def qMore (th : Re → Re) : Re := .star (.cat sp (qItem th))
/-- `'…' (SP '…')*` -/
def qList (th : Re → Re) : Re := th (.cat (.cls cQuote) (qMore th))
/-- `(list WSP)? \)` -/
def qBody (th : Re → Re) : Re := .cat (.alt (.cat (qList th) wsp) .eps) (.cls cRP)
/-- `\( WSP (list WSP)? \)` -/
def qParen (th : Re → Re) : Re := .cat (.cls cLP) (.cat wsp (qBody th))
/-- `'…' | \( WSP (list WSP)? \)` -/
def qVals (th : Re → Re) : Re := .alt (qItem th) (qParen th)

section
variable {th : Re → Re} (h : QItem th)
include h

def qItem_PB : PB (qItem th) 1 := h.pb (Cheap.of_PB0 PB.cls _) PB.cls.mono (Nat.le_refl _)
theorem qItem_single : Single (qItem th) := h.s1 (Fails.cls _) Single.cls
def qItem_dead_NS : Dead (qItem th) NS := (h.dead _).mono space_quote.not_false

theorem spItem_single : Single (.cat sp (qItem th)) :=
  Single.cat_munch NS sp_s1_NS (qItem_dead_NS h).fails (qItem_single h)
def spItem_PB : PB (.cat sp (qItem th)) 1 := sp_then_PB (qItem_dead_NS h) (qItem_PB h)
theorem spItem_fails : Fails (.cat sp (qItem th)) (pastIn cSpace cQuote) :=
  Fails.plus_cls_cat quote_space (h.dead _).fails

def qMore_PB : PB (qMore th) 2 := PB.star_single (spItem_single h).len (spItem_PB h)
def qMore_RP : RP (qMore th) 1 := RP.star_single (spItem_single h).len
/-- of the list's item ends, at most one reaches the closing parenthesis -/
theorem qMore_s1 : Sparse1 (qMore th) (pastIn cSpace cRP) :=
  Sparse1.star_chain_fails (pastIn cSpace cQuote) (fun _ => true) (spItem_fails h) (spItem_single h)
    (fun _ _ => rfl) (fun _ _ => rfl) (fun _ ht => pastIn_disj rp_quote ht)

omit h in
def qRest_dead : Dead (.cat (.cls cQuote) (qMore th)) (startsIn cQuote) := Dead.cat (Dead.cls _) _

def qList_PB : PB (qList th) 2 :=
  h.pb (Cheap.of_Dead qRest_dead) (PB.cat PB.cls RP.cls (qMore_PB h)) (by omega)
def qList_RP : RP (qList th) 1 :=
  h.rp (Cheap.of_Dead qRest_dead) (RP.cat RP.cls (qMore_RP h)) (by omega)
theorem qList_s1 : Sparse1 (qList th) (pastIn cSpace cRP) :=
  h.s1 qRest_dead.fails (Sparse1.cat (runs_cls_length_le _) (qMore_s1 h))

def qListWsp_PB : PB (.cat (qList th) wsp) 2 := PB.cat (qList_PB h) (qList_RP h) wsp_PB
def qListWsp_RP : RP (.cat (qList th) wsp) 2 := RP.cat (qList_RP h) wsp_RP
theorem qListWsp_s1 : Sparse1 (.cat (qList th) wsp) (startsIn cRP) := Sparse1.cat_star_cls rp_space (qList_s1 h)
def qListWsp_dead : Dead (.cat (qList th) wsp) (startsIn cQuote) := Dead.cat (h.dead _) _

theorem qOptList_s1 : Sparse1 (.alt (.cat (qList th) wsp) .eps) (startsIn cRP) := by
  apply Sparse1.alt_of_excl (qListWsp_s1 h) (Single.eps.sparse1 _)
  intro s
  cases hs : startsIn cRP s with
  | true => left; rw [(qListWsp_dead h).runs_eq (rp_quote.starts s hs)]; rfl
  | false => right; rw [runs_eps]; simp [hs]

def qBody_PB : PB (qBody th) 2 :=
  PB.cat (PB.alt (qListWsp_PB h) PB.eps (g := 2)) (RP.alt (qListWsp_RP h) Single.eps.rp (e := 0) (g := 2)) PB.cls
theorem qBody_single : Single (qBody th) :=
  Single.cat_munch (startsIn cRP) (qOptList_s1 h) (Fails.cls _) Single.cls
def qBody_dead : Dead (qBody th) NS :=
  Dead.cat_skip (Skip.opt ((qListWsp_dead h).mono space_quote.not_false)) ((Dead.cls cRP).mono space_rp.not_false)

def qParen_PB : PB (qParen th) 2 := PB.cat PB.cls RP.cls (wsp_then_PB (qBody_dead h) (qBody_PB h) (g := 2))
theorem qParen_single : Single (qParen th) :=
  Single.cat Single.cls (Single.cat_munch NS wsp_s1_NS (qBody_dead h).fails (qBody_single h))

omit h in
def qParen_dead : Dead (qParen th) (startsIn cLP) := Dead.cat (Dead.cls _) _

def qVals_PB : PB (qVals th) 2 := PB.alt (qItem_PB h) (qParen_PB h)
theorem qVals_single : Single (qVals th) :=
  Sparse1.alt_fails (startsIn cQuote) (startsIn cLP) (qItem_single h) (qParen_single h)
    (h.dead _).fails qParen_dead.fails quote_lp.starts
def qVals_dead : Dead (qVals th) NS := Dead.alt (qItem_dead_NS h) (qParen_dead.mono space_lp.not_false)

def qItem_val : Val (qItem th) :=
  ⟨qItem_dead_NS h, (qItem_PB h).mono, (qItem_single h).rp, (qItem_single h).sparse _⟩
def qVals_val : Val (qVals th) :=
  ⟨qVals_dead h, (qVals_PB h).mono, (qVals_single h).rp, (qVals_single h).sparse _⟩

end

/-! ### QDESCR = `'[a-zA-Z][a-zA-Z0-9-]*'` -/

def qdescrThen (r : Re) : Re := .cat (.cls cQuote) (.cat (.cls cAlpha) (.cat (.star (.cls cAnh)) r))

theorem anh_s1_quote : Sparse1 (.star (.cls cAnh)) (startsIn cQuote) := Sparse1.star_cls cAnh quote_anh.starts

def qdescr_item : QItem qdescrThen where
  pb := @fun r d hc hr hd =>
    PB.cat PB.cls RP.cls (PB.cat PB.cls RP.cls
      (PB.cat_munch (startsIn cQuote) (PB.star_cls _) (RP.star_cls _) anh_s1_quote.sparse hc hr (g := d))
      (e := 0) (g := d)) (e := 0) (g := d)
  rp := @fun r e hc hr he =>
    RP.cat RP.cls (RP.cat RP.cls (RP.cat_munch (startsIn cQuote) (RP.star_cls _) anh_s1_quote.sparse hc hr (g := e))
      (e := 0) (g := e)) (e := 0) (g := e)
  s1 hf hs :=
    Sparse1.cat (runs_cls_length_le _) (Sparse1.cat (runs_cls_length_le _)
      (Sparse1.cat_munch (startsIn cQuote) anh_s1_quote (hf.pass _) hs))
  dead _ := Dead.cat (Dead.cls _) _

abbrev qdescrs : Re := qVals qdescrThen
def qdescrs_val : Val qdescrs := qVals_val qdescr_item

/-! ### QDSTRING = `'(\\5[Cc]|\\27|[^'\\])+'` -/

/-- the input starts with a character of `A` followed by a character of `B` -/
def startsIn2 (A B : List (Nat × Nat)) : List Nat → Bool
  | a :: b :: _ => inCls A a && inCls B b
  | _ => false

theorem Fails.cls2 (A B : List (Nat × Nat)) (r : Re) : Fails (.cat (.cls A) (.cat (.cls B) r)) (startsIn2 A B) := by
  intro t ht
  match t, ht with
  | [], _ => rw [runs_cat, runs_cls_nil]; rfl
  | [a], _ =>
    rw [runs_cat, runs_cls_cons]
    split
    · simp [runs_cat]
    · rfl
  | a :: b :: t', ht =>
    rw [runs_cat, runs_cls_cons]
    split
    · rename_i ha
      have hb : inCls B b = false := by simpa [startsIn2, ha] using ht
      simp [runs_cat, hb]
    · rfl

def c5 : List (Nat × Nat) := [(53, 53)]
def c2 : List (Nat × Nat) := [(50, 50)]
/-- `\\5[Cc]` -/
def dsEsc5 : Re := .cat (.cls cBs) (.cat (.cls c5) (.cls [(67, 67), (99, 99)]))
/-- `\\27` -/
def dsEsc27 : Re := .cat (.cls cBs) (.cat (.cls c2) (.cls [(55, 55)]))
/-- `\\5[Cc]|\\27|[^'\\]` -/
def dsItem : Re := .alt dsEsc5 (.alt dsEsc27 (.cls cPlain))
/-- `(…)+` -/
def dsItems : Re := .cat dsItem (.star dsItem)

theorem dsEsc5_single : Single dsEsc5 := Single.cat Single.cls (Single.cat Single.cls Single.cls)
theorem dsEsc27_single : Single dsEsc27 := Single.cat Single.cls (Single.cat Single.cls Single.cls)

theorem dsItem_single : Single dsItem := by
  refine Sparse1.alt_fails (startsIn2 cBs c5) (fun t => startsIn2 cBs c2 t || startsIn cPlain t) dsEsc5_single
    (Sparse1.alt_fails (startsIn cBs) (startsIn cPlain) dsEsc27_single Single.cls
      (Fails.cat (Fails.cls _) _) (Fails.cls _) bs_plain.starts)
    (Fails.cls2 _ _ _)
    (Fails.alt ((Fails.cls2 _ _ _).mono (fun t ht => by simp at ht; exact ht.1))
      ((Fails.cls _).mono (fun t ht => by simp at ht; exact ht.2))) ?_
  intro t ht
  match t, ht with
  | a :: b :: t', ht =>
    simp [startsIn2, cBs, c5, c2, cPlain, inCls] at ht ⊢
    omega

def dsItem_PB : PB dsItem 0 := PB.of_starFree _ rfl
theorem dsItem_fails : Fails dsItem (notStartsIn cQuote) :=
  Fails.alt ((Fails.cat (Fails.cls cBs) _).mono quote_bs.not_false)
    (Fails.alt ((Fails.cat (Fails.cls cBs) _).mono quote_bs.not_false) ((Fails.cls cPlain).mono quote_plain.not_false))

def dsStar_PB : PB (.star dsItem) 1 := PB.star_single dsItem_single.len dsItem_PB
def dsStar_RP : RP (.star dsItem) 1 := RP.star_single dsItem_single.len
theorem dsStar_s1 : Sparse1 (.star dsItem) (startsIn cQuote) :=
  Sparse1.star_chain_fails (notStartsIn cQuote) (fun _ => true) dsItem_fails dsItem_single
    (fun _ _ => rfl) (fun _ _ => rfl) (fun t ht => by simp [notStartsIn, ht])

def dsItems_PB : PB dsItems 1 := PB.cat dsItem_PB dsItem_single.rp dsStar_PB (e := 0)
def dsItems_RP : RP dsItems 1 := RP.cat dsItem_single.rp dsStar_RP (e := 0)
theorem dsItems_s1 : Sparse1 dsItems (startsIn cQuote) := Sparse1.cat dsItem_single.len dsStar_s1

def qdstringThen (r : Re) : Re := .cat (.cls cQuote) (.cat dsItems r)

def qdstring_item : QItem qdstringThen where
  pb := @fun r d hc hr hd =>
    PB.cat PB.cls RP.cls (PB.cat_munch (startsIn cQuote) dsItems_PB dsItems_RP dsItems_s1.sparse hc hr (g := d))
      (e := 0) (g := d)
  rp := @fun r e hc hr he =>
    RP.cat RP.cls (RP.cat_munch (startsIn cQuote) dsItems_RP dsItems_s1.sparse hc hr (g := e)) (e := 0) (g := e)
  s1 hf hs := Sparse1.cat (runs_cls_length_le _) (Sparse1.cat_munch (startsIn cQuote) dsItems_s1 (hf.pass _) hs)
  dead _ := Dead.cat (Dead.cls _) _

abbrev qdstring : Re := qItem qdstringThen
abbrev qdstrings : Re := qVals qdstringThen
def qdstring_val : Val qdstring := qItem_val qdstring_item
def qdstrings_val : Val qdstrings := qVals_val qdstring_item

/-! ### EXTENSIONS = `(SP [xX]-[a-zA-Z_-]+ SP QDSTRINGS)*` and the end of the pattern -/

/-- `[xX]-[a-zA-Z_-]+` -/
def xstring : Re := .cat (.cls cXx) (.cat (.cls [(45, 45)]) (.cat (.cls cXC) (.star (.cls cXC))))
/-- one extension -/
def ext : Re := .cat sp (.cat xstring (.cat sp qdstrings))
def exts : Re := .star ext
/-- `EXTENSIONS WSP \)` -/
def tailEnd : Re := .cat exts closeP

def xstring_PB : PB xstring 1 :=
  PB.cat PB.cls RP.cls (PB.cat PB.cls RP.cls (PB.cat PB.cls RP.cls (PB.star_cls _) (g := 1)) (g := 1))
def xstring_RP : RP xstring 1 := RP.of_PB xstring_PB
theorem xstring_s1 : Sparse1 xstring S :=
  Sparse1.cat (runs_cls_length_le _) (Sparse1.cat (runs_cls_length_le _) (Sparse1.cat (runs_cls_length_le _)
    (Sparse1.star_cls cXC space_xc.starts)))
def xstring_dead : Dead xstring (startsIn cXx) := Dead.cat (Dead.cls _) _

def spVals_PB : PB (.cat sp qdstrings) 2 := sp_then_PB qdstrings_val.dead (qVals_PB qdstring_item)
theorem spVals_single : Single (.cat sp qdstrings) :=
  Single.cat_munch NS sp_s1_NS qdstrings_val.dead.fails (qVals_single qdstring_item)

def extBody_PB : PB (.cat xstring (.cat sp qdstrings)) 2 :=
  PB.cat_munch S xstring_PB xstring_RP xstring_s1.sparse (Cheap.of_Dead (sp_then_dead _)) spVals_PB
theorem extBody_single : Single (.cat xstring (.cat sp qdstrings)) :=
  Single.cat_munch S xstring_s1 (sp_then_dead _).fails spVals_single
def extBody_dead : Dead (.cat xstring (.cat sp qdstrings)) NS :=
  (Dead.cat xstring_dead _).mono space_xx.not_false

def ext_PB : PB ext 2 := sp_then_PB extBody_dead extBody_PB
theorem ext_single : Single ext := Single.cat_munch NS sp_s1_NS extBody_dead.fails extBody_single

def exts_PB : PB exts 3 := PB.star_single ext_single.len ext_PB
def exts_RP : RP exts 1 := RP.star_single ext_single.len
def exts_skip : Skip exts S := Skip.star (sp_then_dead _)

def tailEnd_tail : Tail tailEnd where
  cheap := Cheap.cat_skip exts_skip closeP_cheap
  pb := PB.cat exts_PB exts_RP closeP_PB


end Verif.Proofs.XC.SchemaRe
