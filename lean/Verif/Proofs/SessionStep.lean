/-
Case summaries of `sendBase` and of `step` on each family of calls.  Everything later
(invariants, C08/C09/C10/C12 helper lemmas) is derived from these summaries instead of
unfolding `step` again.
-/
import Verif.Spec.SessionSpec

namespace Verif.Proofs
open Verif
set_option linter.unusedSimpArgs false

/-! ### small facts -/

theorem role_server_of_ne_client {r : Role} (h : r ≠ .client) : r = .server := by
  cases r <;> simp_all

theorem role_client_of_ne_server {r : Role} (h : r ≠ .server) : r = .client := by
  cases r <;> simp_all

theorem mem_setInsert {x y : Int} {l : List Int} : y ∈ setInsert x l ↔ y = x ∨ y ∈ l := by
  unfold setInsert
  by_cases h : l.contains x = true
  · simp only [h, if_true]
    constructor
    · intro h'; exact Or.inr h'
    · rintro (rfl | h')
      · simpa using h
      · exact h'
  · simp only [h]
    simp [or_comm]

theorem mem_setErase {x y : Int} {l : List Int} : y ∈ setErase x l ↔ y ∈ l ∧ y ≠ x := by
  simp [setErase]

theorem setErase_nil (x : Int) : setErase x [] = [] := rfl

/-! ### `sendBase` -/

/-- the BEFORE_OPEN → OPENED transition performed by `_send` -/
def openUp (s : Sess) : Sess := if s.state = .beforeOpen then { s with state := .opened } else s

theorem openUp_state (s : Sess) :
    (openUp s).state = if s.state = .beforeOpen then .opened else s.state := by
  unfold openUp; split <;> simp_all

theorem openUp_frame (s : Sess) :
    (openUp s).role = s.role ∧ (openUp s).out = s.out ∧ (openUp s).outstanding = s.outstanding ∧
    (openUp s).searches = s.searches ∧ (openUp s).counter = s.counter ∧
    (openUp s).residue = s.residue ∧ (openUp s).regs = s.regs := by
  unfold openUp; split <;> simp

theorem openUp_eq (s : Sess) : openUp s = { s with state := (openUp s).state } := by
  unfold openUp; split <;> simp_all

theorem sendBase_cases (s : Sess) (m : Msg) :
    (sendBase s m = (s, false) ∧
        (s.state = .closed ∨ (s.state = .binding ∧ allowedWhileBinding m.op = false))) ∨
    (sendBase s m = (openUp s, false) ∧ s.state ≠ .closed ∧
        (s.state = .binding → allowedWhileBinding m.op = true) ∧
        s.role = .server ∧ m.op.isUnbind = false ∧ m.id ∉ s.outstanding) ∨
    (sendBase s m = ({ openUp s with out := s.out ++ encMsg m }, true) ∧ s.state ≠ .closed ∧
        (s.state = .binding → allowedWhileBinding m.op = true) ∧
        (s.role = .server → m.op.isUnbind = false → m.id ∈ s.outstanding)) := by
  unfold sendBase openUp
  by_cases h1 : s.state = .closed
  · simp [h1]
  · by_cases h2 : s.state = .binding ∧ allowedWhileBinding m.op = false
    · simp [h2]
    · by_cases h3 : s.state = .beforeOpen
      · by_cases h4 : s.role = .server ∧ m.op.isUnbind = false ∧ m.id ∉ s.outstanding
        · simp [h3, h4]
        · simp [h3, h4]; simpa using h4
      · by_cases h4 : s.role = .server ∧ m.op.isUnbind = false ∧ m.id ∉ s.outstanding
        · simp [h1, h2, h3, h4]; simpa using h2
        · simp [h1, h2, h3, h4]; constructor; simpa using h2; simpa using h4

/-! ### classification of calls -/

def isClientReq : Call → Bool
  | .bind .. | .search .. | .extended .. => true
  | _ => false

def isBindCall : Call → Bool
  | .bind .. => true
  | _ => false

def isSearchCall : Call → Bool
  | .search .. => true
  | _ => false

def isFinalCall : Call → Bool
  | .bindResponse .. | .extendedResponse .. | .done .. => true
  | _ => false

def isDoneCall : Call → Bool
  | .done .. => true
  | _ => false

/-- state after an accepted server response, from the state `_send` left -/
def respState (c : Call) (st : SState) : SState :=
  match c with
  | .bindResponse _ _ code _ _ _ => if code ≠ Facts.codeSaslBindInProgress then .opened else st
  | .extendedResponse _ name _ _ _ _ _ => if name == some Facts.oidNotice then .closed else st
  | _ => st

theorem isSend_cases (c : Call) (h : c.isSend = true) :
    c = .unbind ∨ isClientReq c = true ∨ c.respId.isSome = true := by
  cases c <;> simp_all [Call.isSend, isClientReq, Call.respId]

/-! ### `step` on each family of calls -/

theorem step_clientReq_wrong_role (s : Sess) (c : Call) (hc : isClientReq c = true)
    (hr : s.role = .server) : step s c = (s, .notApplicable) := by
  cases c <;> simp_all [isClientReq, step]

theorem step_serverResp_wrong_role (s : Sess) (c : Call) (hc : c.respId.isSome = true)
    (hr : s.role = .client) : step s c = (s, .notApplicable) := by
  cases c <;> simp_all [Call.respId, step]

theorem step_unbind (s : Sess) :
    (step s .unbind = (s, .ldapError) ∧ s.state = .closed) ∨
    (step s .unbind = ({ s with state := .closed, out := s.out ++ encMsg unbindMsg, outstanding := [] }, .unit)
      ∧ s.state ≠ .closed) := by
  have hu : allowedWhileBinding unbindMsg.op = true := rfl
  have hu' : unbindMsg.op.isUnbind = true := rfl
  rcases sendBase_cases s unbindMsg with ⟨h, h' | h'⟩ | ⟨h, h1, h2, h3, h4, h5⟩ | ⟨h, h1, h2, h3⟩
  · left; simp [step, h, h']
  · simp [hu] at h'
  · simp [hu'] at h4
  · right
    refine ⟨?_, h1⟩
    simp only [step, h]
    simp [(openUp_frame s)]

/-- summary of a client request call on a client session -/
theorem step_clientReq (s : Sess) (c : Call) (hc : isClientReq c = true) (hr : s.role = .client) :
    ∃ m, msgOf s c = some m ∧ m.id = s.counter ∧
      ((step s c = (s, .ldapError) ∧
          (s.state = .closed ∨ (s.state = .binding ∧ allowedWhileBinding m.op = false) ∨
            (isBindCall c = true ∧ s.outstanding ≠ []))) ∨
       (s.state ≠ .closed ∧ (s.state = .binding → allowedWhileBinding m.op = true) ∧
          (isBindCall c = true → s.outstanding = []) ∧
          step s c =
            ({ s with
                state := if isBindCall c then .binding else (openUp s).state,
                out := s.out ++ encMsg m,
                counter := s.counter + 1,
                outstanding := setInsert s.counter s.outstanding,
                searches := if isSearchCall c then setInsert s.counter s.searches else s.searches },
             .sent s.counter))) := by
  have hr' : ¬ s.role = .server := by simp [hr]
  cases c <;> simp [isClientReq] at hc
  case bind dn cred controls =>
    refine ⟨_, rfl, rfl, ?_⟩
    by_cases ho : s.outstanding = []
    · rcases sendBase_cases s ⟨s.counter, .bindReq Facts.ldapVersion dn cred, controls⟩ with
        ⟨h, h'⟩ | ⟨h, h1, h2, h3, h4, h5⟩ | ⟨h, h1, h2, h3⟩
      · left
        refine ⟨?_, ?_⟩
        · simp [step, hr, ho, clientSend, h]
        · rcases h' with h' | h'
          · exact Or.inl h'
          · exact Or.inr (Or.inl h')
      · exact absurd h3 hr'
      · right
        refine ⟨h1, h2, fun _ => ho, ?_⟩
        simp [step, hr, ho, clientSend, h, isBindCall, isSearchCall, openUp_frame s]
    · left
      refine ⟨?_, Or.inr (Or.inr ⟨rfl, ho⟩)⟩
      simp [step, hr, ho]
  case search base scope deref sl tl ty filter attrs controls =>
    refine ⟨_, rfl, rfl, ?_⟩
    rcases sendBase_cases s ⟨s.counter, .searchReq base scope deref sl tl ty
        (filter.getD (.present Facts.defaultSearchAttr)) attrs, controls⟩ with
      ⟨h, h'⟩ | ⟨h, h1, h2, h3, h4, h5⟩ | ⟨h, h1, h2, h3⟩
    · left
      refine ⟨?_, ?_⟩
      · simp [step, hr, clientSend, h]
      · rcases h' with h' | h'
        · exact Or.inl h'
        · exact Or.inr (Or.inl h')
    · exact absurd h3 hr'
    · right
      refine ⟨h1, h2, by simp [isBindCall], ?_⟩
      simp [step, hr, clientSend, h, isBindCall, isSearchCall, openUp_frame s]
  case extended name value controls =>
    refine ⟨_, rfl, rfl, ?_⟩
    rcases sendBase_cases s ⟨s.counter, .extReq name value, controls⟩ with
      ⟨h, h'⟩ | ⟨h, h1, h2, h3, h4, h5⟩ | ⟨h, h1, h2, h3⟩
    · left
      refine ⟨?_, ?_⟩
      · simp [step, hr, clientSend, h]
      · rcases h' with h' | h'
        · exact Or.inl h'
        · exact Or.inr (Or.inl h')
    · exact absurd h3 hr'
    · right
      refine ⟨h1, h2, by simp [isBindCall], ?_⟩
      simp [step, hr, clientSend, h, isBindCall, isSearchCall, openUp_frame s]

/-- the three ways `serverSend` can go, for a message that is not an unbind -/
theorem serverSend_cases (s : Sess) (m : Msg) (hr : s.role = .server) (hu : m.op.isUnbind = false) :
    (sendBase s m = (s, false) ∧
        (s.state = .closed ∨ (s.state = .binding ∧ allowedWhileBinding m.op = false))) ∨
    (sendBase s m = (openUp s, false) ∧ s.state ≠ .closed ∧
        (s.state = .binding → allowedWhileBinding m.op = true) ∧ m.id ∉ s.outstanding) ∨
    (sendBase s m = ({ openUp s with out := s.out ++ encMsg m }, true) ∧ s.state ≠ .closed ∧
        (s.state = .binding → allowedWhileBinding m.op = true) ∧ m.id ∈ s.outstanding) := by
  rcases sendBase_cases s m with h | ⟨h, h1, h2, h3, h4, h5⟩ | ⟨h, h1, h2, h3⟩
  · exact Or.inl h
  · exact Or.inr (Or.inl ⟨h, h1, h2, h5⟩)
  · exact Or.inr (Or.inr ⟨h, h1, h2, h3 hr hu⟩)

/-- summary of a server response call on a server session -/
theorem step_serverResp (s : Sess) (c : Call) (id : Int) (hc : c.respId = some id)
    (hr : s.role = .server) :
    ∃ m, msgOf s c = some m ∧ m.id = id ∧ m.op.isUnbind = false ∧
      ((step s c = (s, .ldapError) ∧
          (s.state = .closed ∨ (s.state = .binding ∧ allowedWhileBinding m.op = false))) ∨
       (step s c = (openUp s, .ldapError) ∧ s.state ≠ .closed ∧
          (s.state = .binding → allowedWhileBinding m.op = true) ∧ id ∉ s.outstanding) ∨
       (s.state ≠ .closed ∧ (s.state = .binding → allowedWhileBinding m.op = true) ∧
          id ∈ s.outstanding ∧
          step s c =
            ({ s with
                state := respState c (openUp s).state,
                out := s.out ++ encMsg m,
                outstanding := if isFinalCall c then setErase id s.outstanding else s.outstanding,
                searches := if isDoneCall c then setErase id s.searches else s.searches },
             .sent id))) := by
  cases c <;> simp [Call.respId] at hc
  case bindResponse id' sasl code mdn diag controls =>
    subst hc
    refine ⟨_, rfl, rfl, rfl, ?_⟩
    rcases serverSend_cases s ⟨id', .bindResp ⟨code, mdn, diag, some []⟩ sasl, controls⟩ hr rfl with
      ⟨h, h'⟩ | ⟨h, h1, h2, h3⟩ | ⟨h, h1, h2, h3⟩
    · left; exact ⟨by simp [step, hr, serverSend, h, mkResult], h'⟩
    · right; left; exact ⟨by simp [step, hr, serverSend, h, mkResult], h1, h2, h3⟩
    · right; right
      refine ⟨h1, h2, h3, ?_⟩
      by_cases hcode : code = Facts.codeSaslBindInProgress
      · subst hcode
        simp [step, hr, serverSend, h, respState, isFinalCall, isDoneCall, openUp_frame s, mkResult]
      · simp [step, hr, serverSend, h, respState, isFinalCall, isDoneCall, openUp_frame s, hcode, mkResult]
  case extendedResponse id' name value code mdn diag controls =>
    subst hc
    refine ⟨_, rfl, rfl, rfl, ?_⟩
    rcases serverSend_cases s ⟨id', .extResp ⟨code, mdn, diag, some []⟩ name value, controls⟩ hr rfl with
      ⟨h, h'⟩ | ⟨h, h1, h2, h3⟩ | ⟨h, h1, h2, h3⟩
    · left; exact ⟨by simp [step, hr, serverSend, h, mkResult], h'⟩
    · right; left; exact ⟨by simp [step, hr, serverSend, h, mkResult], h1, h2, h3⟩
    · right; right
      refine ⟨h1, h2, h3, ?_⟩
      by_cases hn : (name == some Facts.oidNotice) = true <;>
        simp [step, hr, serverSend, h, respState, isFinalCall, isDoneCall, openUp_frame s, hn, mkResult]
  case entry id' name attrs controls =>
    subst hc
    refine ⟨_, rfl, rfl, rfl, ?_⟩
    rcases serverSend_cases s ⟨id', .searchEntry name attrs, controls⟩ hr rfl with
      ⟨h, h'⟩ | ⟨h, h1, h2, h3⟩ | ⟨h, h1, h2, h3⟩
    · left; exact ⟨by simp [step, hr, serverSend, h, mkResult], h'⟩
    · right; left; exact ⟨by simp [step, hr, serverSend, h, mkResult], h1, h2, h3⟩
    · right; right
      refine ⟨h1, h2, h3, ?_⟩
      simp [step, hr, serverSend, h, respState, isFinalCall, isDoneCall, openUp_frame s, mkResult]
  case reference id' uris controls =>
    subst hc
    refine ⟨_, rfl, rfl, rfl, ?_⟩
    rcases serverSend_cases s ⟨id', .searchRef uris, controls⟩ hr rfl with
      ⟨h, h'⟩ | ⟨h, h1, h2, h3⟩ | ⟨h, h1, h2, h3⟩
    · left; exact ⟨by simp [step, hr, serverSend, h, mkResult], h'⟩
    · right; left; exact ⟨by simp [step, hr, serverSend, h, mkResult], h1, h2, h3⟩
    · right; right
      refine ⟨h1, h2, h3, ?_⟩
      simp [step, hr, serverSend, h, respState, isFinalCall, isDoneCall, openUp_frame s, mkResult]
  case done id' code mdn diag controls =>
    subst hc
    refine ⟨_, rfl, rfl, rfl, ?_⟩
    rcases serverSend_cases s ⟨id', .searchDone ⟨code, mdn, diag, some []⟩, controls⟩ hr rfl with
      ⟨h, h'⟩ | ⟨h, h1, h2, h3⟩ | ⟨h, h1, h2, h3⟩
    · left; exact ⟨by simp [step, hr, serverSend, h, mkResult], h'⟩
    · right; left; exact ⟨by simp [step, hr, serverSend, h, mkResult], h1, h2, h3⟩
    · right; right
      refine ⟨h1, h2, h3, ?_⟩
      simp [step, hr, serverSend, h, respState, isFinalCall, isDoneCall, openUp_frame s, mkResult]


/-! ### incoming messages -/

def opIsDone : Op → Bool
  | .searchDone .. => true
  | _ => false

/-- client state after an accepted incoming message -/
def cliState (st : SState) : Op → SState
  | .bindResp r _ => if r.code ≠ Facts.codeSaslBindInProgress then .opened else st
  | _ => st

theorem clientProcess_eq (s : Sess) (m : Msg) :
    clientProcess s m =
      if m.op.isResponse = true ∧ (m.id ∈ s.searches ∨ m.id ∈ s.outstanding) then
        some ({ s with
                state := cliState s.state m.op,
                searches := if m.id ∈ s.searches ∧ opIsDone m.op = true then setErase m.id s.searches
                            else s.searches,
                outstanding := if (m.id ∈ s.searches ∧ opIsDone m.op = false) ∨ m.id ∉ s.outstanding
                               then s.outstanding else setErase m.id s.outstanding },
              decide (¬(m.id ∈ s.searches ∧ opIsDone m.op = false) ∧ m.id ∉ s.outstanding))
      else none := by
  obtain ⟨id, op, ctl⟩ := m
  simp only [clientProcess]
  cases op
  case bindResp r sasl =>
    by_cases hc : r.code = Facts.codeSaslBindInProgress <;>
    by_cases hS : id ∈ s.searches <;> by_cases hO : id ∈ s.outstanding <;>
      simp [hc, hS, hO, Op.isResponse, opTag, Facts.responseOps, Facts.opBindResponse, opIsDone, cliState]
  all_goals
    by_cases hS : id ∈ s.searches <;> by_cases hO : id ∈ s.outstanding <;>
      simp [hS, hO, Op.isResponse, opTag, Facts.responseOps, Facts.opBindRequest, Facts.opBindResponse,
        Facts.opUnbindRequest, Facts.opSearchRequest, Facts.opSearchResultEntry, Facts.opSearchResultDone,
        Facts.opSearchResultReference, Facts.opExtendedRequest, Facts.opExtendedResponse, opIsDone, cliState]


theorem setErase_of_not_mem {x : Int} {l : List Int} (h : x ∉ l) : setErase x l = l := by
  unfold setErase
  rw [List.filter_eq_self]
  intro a ha
  have : a ≠ x := fun e => h (e ▸ ha)
  simpa using this

theorem clientProcess_isSome (s : Sess) (m : Msg) :
    (clientProcess s m).isSome = true ↔
      (m.op.isResponse = true ∧ (m.id ∈ s.searches ∨ m.id ∈ s.outstanding)) := by
  rw [clientProcess_eq]
  split <;> simp_all

def opIsBind : Op → Bool
  | .bindReq .. => true
  | _ => false

def opIsSearch : Op → Bool
  | .searchReq .. => true
  | _ => false

/-- server state after an accepted incoming message -/
def srvState (st : SState) : Op → SState
  | .bindReq .. => .binding
  | _ => if st = .beforeOpen then .opened else st

theorem serverProcess_eq (s : Sess) (m : Msg) :
    serverProcess s m =
      if m.op.isRequest = true ∧ ¬(opIsBind m.op = true ∧ s.outstanding ≠ []) then
        some { s with
                state := srvState s.state m.op,
                searches := if opIsSearch m.op then setInsert m.id s.searches else s.searches,
                outstanding := setInsert m.id s.outstanding }
      else none := by
  obtain ⟨id, op, ctl⟩ := m
  simp only [serverProcess]
  by_cases hB : s.state = .beforeOpen <;> by_cases hO : s.outstanding = [] <;> cases op <;>
    simp [hB, hO, Op.isRequest, opTag, Facts.requestOps, Facts.opBindRequest, Facts.opBindResponse,
      Facts.opUnbindRequest, Facts.opSearchRequest, Facts.opSearchResultEntry, Facts.opSearchResultDone,
      Facts.opSearchResultReference, Facts.opExtendedRequest, Facts.opExtendedResponse, opIsBind,
      opIsSearch, srvState]

def procSess : ProcResult → Sess
  | .ok s => s
  | .protoErr s _ _ => s
  | .keyErr s => s

/-- one iteration of the `for msg in incoming_msgs` loop -/
theorem processLoop_cons (s : Sess) (m : Msg) (ms : List Msg) :
    processLoop s (m :: ms) =
      if m.op.isNotice = true then .protoErr s false true
      else if m.op.isUnbind = true then .protoErr s true false
      else
        match s.role with
        | .client =>
          match clientProcess s m with
          | none => .protoErr s false false
          | some (s1, true) => .keyErr s1
          | some (s1, false) => processLoop s1 ms
        | .server =>
          match serverProcess s m with
          | none => .protoErr s false false
          | some s1 => processLoop s1 ms := by
  rfl

/-- the fields no incoming message touches -/
def SameFrame (s s' : Sess) : Prop :=
  s'.role = s.role ∧ s'.out = s.out ∧ s'.counter = s.counter ∧ s'.residue = s.residue ∧ s'.regs = s.regs

theorem SameFrame.refl (s : Sess) : SameFrame s s := ⟨rfl, rfl, rfl, rfl, rfl⟩

theorem SameFrame.trans {a b c : Sess} (h1 : SameFrame a b) (h2 : SameFrame b c) : SameFrame a c := by
  unfold SameFrame at *
  obtain ⟨a1, a2, a3, a4, a5⟩ := h1
  obtain ⟨b1, b2, b3, b4, b5⟩ := h2
  exact ⟨b1.trans a1, b2.trans a2, b3.trans a3, b4.trans a4, b5.trans a5⟩

theorem clientProcess_frame {s s' : Sess} {m : Msg} {b : Bool} (h : clientProcess s m = some (s', b)) :
    SameFrame s s' := by
  rw [clientProcess_eq] at h
  split at h
  · simp only [Option.some.injEq, Prod.mk.injEq] at h
    obtain ⟨rfl, _⟩ := h
    exact ⟨rfl, rfl, rfl, rfl, rfl⟩
  · simp at h

theorem serverProcess_frame {s s' : Sess} {m : Msg} (h : serverProcess s m = some s') :
    SameFrame s s' := by
  rw [serverProcess_eq] at h
  split at h
  · simp only [Option.some.injEq] at h
    subst h
    exact ⟨rfl, rfl, rfl, rfl, rfl⟩
  · simp at h

theorem processLoop_frame (s : Sess) (ms : List Msg) : SameFrame s (procSess (processLoop s ms)) := by
  induction ms generalizing s with
  | nil => simp [processLoop, procSess, SameFrame.refl]
  | cons m ms ih =>
    rw [processLoop_cons]
    split
    · exact SameFrame.refl s
    · split
      · exact SameFrame.refl s
      · split
        · split
          · exact SameFrame.refl s
          · next s1 h => exact clientProcess_frame h
          · next s1 h => exact (clientProcess_frame h).trans (ih s1)
        · split
          · exact SameFrame.refl s
          · next s1 h => exact (serverProcess_frame h).trans (ih s1)

/-! ### `recv` -/

theorem recv_cases (d : Nat) (s : Sess) (chunk : Bytes) :
    (s.state = .closed ∧ recv d s chunk = (s, .protocolError (notificationFor s.role false false))) ∨
    (s.state ≠ .closed ∧ ∃ e, parseLoop s.regs d (s.residue ++ chunk).length (s.residue ++ chunk) = .error e ∧
        recv d s chunk = (closeSess { s with residue := s.residue ++ chunk },
                          .protocolError (notificationFor s.role false false))) ∨
    (s.state ≠ .closed ∧ ∃ ms rest,
        parseLoop s.regs d (s.residue ++ chunk).length (s.residue ++ chunk) = .ok (ms, rest) ∧
        ((∃ s2, processLoop { s with residue := rest } ms = .ok s2 ∧ recv d s chunk = (s2, .msgs ms)) ∨
         (∃ s2 u n, processLoop { s with residue := rest } ms = .protoErr s2 u n ∧
            recv d s chunk = (closeSess s2, .protocolError (notificationFor s.role u n))) ∨
         (∃ s2, processLoop { s with residue := rest } ms = .keyErr s2 ∧
            recv d s chunk = (s2, .keyError)))) := by
  by_cases hc : s.state = .closed
  · left; exact ⟨hc, by simp [recv, hc]⟩
  · right
    cases hp : parseLoop s.regs d (s.residue ++ chunk).length (s.residue ++ chunk) with
    | error e =>
      left
      exact ⟨hc, e, rfl, by simp only [recv, hc, if_false, hp]⟩
    | ok r =>
      right
      obtain ⟨ms, rest⟩ := r
      refine ⟨hc, ms, rest, rfl, ?_⟩
      cases hl : processLoop { s with residue := rest } ms with
      | ok s2 => left; exact ⟨s2, rfl, by simp only [recv, hc, if_false, hp, hl]⟩
      | protoErr s2 u n => right; left; exact ⟨s2, u, n, rfl, by simp only [recv, hc, if_false, hp, hl]⟩
      | keyErr s2 => right; right; exact ⟨s2, rfl, by simp only [recv, hc, if_false, hp, hl]⟩

end Verif.Proofs
