/-
Tie between the schema patterns and the scanner of `Model/Schema.lean`, part 5: assembly for
`NOIDLEN_MATCH`, `OBJECT_CLASS_DESCRIPTION` and `DIT_CONTENT_RULE_DESCRIPTION`.

Core Lean only.
-/
import Verif.Model.SchemaMatch
import Verif.Spec.SchemaGroups
import Verif.Generated.Regexes
import Verif.Proofs.ReSchemaMatchGroups

set_option linter.unusedSimpArgs false
set_option linter.unusedVariables false

namespace Verif.Proofs.SchemaTie
open Verif Verif.Re Verif.Proofs.ReCost Verif.Proofs.Small Verif.Proofs.SchemaRe Verif.TiesSchema

theorem valid_of_isStr {s : List Nat} (h : IsStr s) : Valid s := h

/-- chains of `DeadKw` rules with decidable side conditions -/
macro "dead_kw" : tactic =>
  `(tactic| repeat (first
    | exact DeadKw.tail _ _ _ (by decide) (by decide)
    | refine DeadKw.optKw ?_ (by decide) (by decide)
    | refine DeadKw.optFlag ?_ (by decide) (by decide)
    | refine DeadKw.optWord3 ?_ (by decide) (by decide) (by decide) (by decide) (by decide) (by decide)))

theorem capOf_pushOpt_self (id : Nat) (o : Option (List Nat)) (c : Caps) :
    capOf id (pushOpt id o c) = o.or (capOf id c) := by
  cases o with
  | none => rfl
  | some v => rw [pushOpt, capOf_cons, if_pos rfl]; rfl

theorem capOf_pushOpt (id id' : Nat) (o : Option (List Nat)) (c : Caps) :
    capOf id (pushOpt id' o c) = if id' = id then o.or (capOf id c) else capOf id c := by
  by_cases h : id' = id
  · subst h; rw [if_pos rfl]; exact capOf_pushOpt_self _ _ _
  · rw [if_neg h]; exact capOf_pushOpt_ne h _ _

theorem capOf_tail {ide idx id : Nat} (h1 : ide ≠ id) (h2 : idx ≠ id) (e : List Nat) (xs c : Caps)
    (hxs : ∀ q ∈ xs, q.1 = idx) : capOf id ((ide, e) :: (xs ++ c)) = capOf id c := by
  rw [capOf_cons, if_neg h1]; exact capOf_append_ne h2 xs c hxs

/-! ### NOIDLEN_MATCH -/

def noidlenG : Re :=
  .cat (.group 1 numericoid) (.cat (.cls cLbrace) (.cat (.group 5 number) (.cls cRbrace)))

theorem noidlenG_eq : Regexes.schema_NOIDLEN_MATCH_g = noidlenG := rfl

theorem lbrace_digit : ∀ t, startsIn cLbrace t = true → startsIn cDigit t = false := digit_lbrace.symm.starts
theorem lbrace_dot' : ∀ t, startsIn cLbrace t = true → startsIn cDot t = false := lbrace_dot.starts

theorem noidlen_tie (s : List Nat) (hs : Valid s) :
    (matchG Regexes.schema_NOIDLEN_MATCH_g s).map
      (fun p => ((grp Regexes.schema_NOIDLEN_MATCH_groups p.2 "value").getD [],
                 (grp Regexes.schema_NOIDLEN_MATCH_groups p.2 "len").getD [])) = Schema.noidlenMatch s := by
  have hdet := DetG.cat (startsIn cLbrace) (((numericoid_det lbrace_digit lbrace_dot').toG rfl).group 1)
    (DetG.cat_top ((Det.cls cLbrace top).toG rfl)
      (DetG.cat (startsIn cRbrace) (((number_det rbrace_digit.starts).toG rfl).group 5)
        ((Det.cls cRbrace top).toG rfl) (filter_nil_of_fails (Fails.cls _) _)))
    (filter_nil_of_fails (Fails.cat (Fails.cls _) _) _)
  rw [noidlenG_eq, matchG_eq_FS, noidlenG, FS_detG hdet s [] hs]
  have g1 : gid Regexes.schema_NOIDLEN_MATCH_groups "value" = 1 := by rfl
  have g5 : gid Regexes.schema_NOIDLEN_MATCH_groups "len" = 5 := by rfl
  unfold Schema.noidlenMatch grp
  rw [g1, g5]
  cases Schema.numericoid s with
  | none => rfl
  | some r =>
    simp only [Option.map_some, Option.bind_some]
    cases r with
    | nil => rfl
    | cons c r1 =>
      simp only [clsScan_cons, cLbrace, inCls_single, Schema.LCURLY]
      by_cases hc : c = 123
      · simp only [hc, if_true, decide_true, Option.map_some, Option.bind_some]
        cases Schema.number r1 with
        | none => rfl
        | some t =>
          simp only [Option.map_some, Option.bind_some]
          cases t with
          | nil => rfl
          | cons c2 r2 =>
            simp only [clsScan_cons, cRbrace, inCls_single, Schema.RCURLY]
            by_cases h2 : c2 = 125
            · simp [h2, capOf_cons, Schema.consumed, eaten]
            · simp [h2]
      · simp [hc]

/-! ### OBJECT_CLASS_DESCRIPTION -/

def kwNAME : List Nat := [78, 65, 77, 69]
def kwDESC : List Nat := [68, 69, 83, 67]
def kwOBSOLETE : List Nat := [79, 66, 83, 79, 76, 69, 84, 69]
def kwSUP : List Nat := [83, 85, 80]
def kwMUST : List Nat := [77, 85, 83, 84]
def kwMAY : List Nat := [77, 65, 89]
def kwABSTRACT : List Nat := [65, 66, 83, 84, 82, 65, 67, 84]
def kwSTRUCTURAL : List Nat := [83, 84, 82, 85, 67, 84, 85, 82, 65, 76]
def kwAUXILIARY : List Nat := [65, 85, 88, 73, 76, 73, 65, 82, 89]

namespace OC

def k7 : Re := tailEndG 92 94
def k6 : Re := .cat (gKwG [77, 65, 89] 70 oids) k7
def k5 : Re := .cat (gKwG [77, 85, 83, 84] 47 oids) k6
def k4 : Re := .cat (gWordG 45 ocKind) k5
def k3 : Re := .cat (gKwG [83, 85, 80] 22 oids) k4
def k2 : Re := .cat (gFlagG [79, 66, 83, 79, 76, 69, 84, 69] 20) k3
def k1 : Re := .cat (gKwG [68, 69, 83, 67] 18 qdstring) k2
def k0 : Re := .cat (gKwG [78, 65, 77, 69] 6 qdescrs) k1

theorem eq : Regexes.schema_OBJECT_CLASS_DESCRIPTION_g = schemaG k0 := rfl

theorem f7 : Fails k7 SR := tailEndG_fails _ _
theorem f6 : Fails k6 SR := gKwG_fails _ _ _ f7
theorem f5 : Fails k5 SR := gKwG_fails _ _ _ f6
theorem f4 : Fails k4 SR := gWordG_fails _ _ f5
theorem f3 : Fails k3 SR := gKwG_fails _ _ _ f4
theorem f2 : Fails k2 SR := gFlagG_fails _ _ f3
theorem f1 : Fails k1 SR := gKwG_fails _ _ _ f2
theorem f0 : Fails k0 SR := gKwG_fails _ _ _ f1

theorem d1 : DeadKw k1 [78, 65, 77, 69] := by unfold k1 k2 k3 k4 k5 k6 k7 ocKind; dead_kw
theorem d2 : DeadKw k2 [68, 69, 83, 67] := by unfold k2 k3 k4 k5 k6 k7 ocKind; dead_kw
theorem d3 : DeadKw k3 [79, 66, 83, 79, 76, 69, 84, 69] := by unfold k3 k4 k5 k6 k7 ocKind; dead_kw
theorem d4 : DeadKw k4 [83, 85, 80] := by unfold k4 k5 k6 k7 ocKind; dead_kw
theorem d5a : DeadKw k5 [65, 66, 83, 84, 82, 65, 67, 84] := by unfold k5 k6 k7; dead_kw
theorem d5b : DeadKw k5 [83, 84, 82, 85, 67, 84, 85, 82, 65, 76] := by unfold k5 k6 k7; dead_kw
theorem d5c : DeadKw k5 [65, 85, 88, 73, 76, 73, 65, 82, 89] := by unfold k5 k6 k7; dead_kw
theorem d6 : DeadKw k6 [77, 85, 83, 84] := by unfold k6 k7; dead_kw
theorem d7 : DeadKw k7 [77, 65, 89] := by unfold k7; dead_kw

end OC

/-- `Schema.optWord` on the three kinds is the scanner of the alternation -/
theorem optWord_kind (s : List Nat) :
    Schema.optWord ["ABSTRACT", "STRUCTURAL", "AUXILIARY"] s =
      wordScan (word3 [65, 66, 83, 84, 82, 65, 67, 84] [83, 84, 82, 85, 67, 84, 85, 82, 65, 76]
        [65, 85, 88, 73, 76, 73, 65, 82, 89]) s := by
  unfold Schema.optWord wordScan
  cases Schema.sp1 s with
  | none => rfl
  | some r =>
    have e1 : Schema.ofString "ABSTRACT" = [65, 66, 83, 84, 82, 65, 67, 84] := by rfl
    have e2 : Schema.ofString "STRUCTURAL" = [83, 84, 82, 85, 67, 84, 85, 82, 65, 76] := by rfl
    have e3 : Schema.ofString "AUXILIARY" = [65, 85, 88, 73, 76, 73, 65, 82, 89] := by rfl
    simp only [List.find?_cons, List.find?_nil, e1, e2, e3, word3]
    cases h1 : Schema.lit [65, 66, 83, 84, 82, 65, 67, 84] r with
    | some r' =>
      have hp := List.isPrefixOf_iff_prefix.mpr (lit_ne_none (by rw [h1]; simp))
      have he := eaten_lit h1
      rw [lit_eq_some (lit_ne_none (by rw [h1]; simp))] at h1
      cases h1
      simp only [hp, Option.some_or, e1]
      rw [he]; rfl
    | none =>
      have hp : List.isPrefixOf [65, 66, 83, 84, 82, 65, 67, 84] r = false := by
        cases hb : List.isPrefixOf [65, 66, 83, 84, 82, 65, 67, 84] r with
        | false => rfl
        | true => simp [Schema.lit, hb] at h1
      simp only [hp, Option.none_or]
      cases h2 : Schema.lit [83, 84, 82, 85, 67, 84, 85, 82, 65, 76] r with
      | some r' =>
        have hp2 := List.isPrefixOf_iff_prefix.mpr (lit_ne_none (by rw [h2]; simp))
        have he := eaten_lit h2
        rw [lit_eq_some (lit_ne_none (by rw [h2]; simp))] at h2
        cases h2
        simp only [hp2, Option.some_or, e2]
        rw [he]; rfl
      | none =>
        have hp2 : List.isPrefixOf [83, 84, 82, 85, 67, 84, 85, 82, 65, 76] r = false := by
          cases hb : List.isPrefixOf [83, 84, 82, 85, 67, 84, 85, 82, 65, 76] r with
          | false => rfl
          | true => simp [Schema.lit, hb] at h2
        simp only [hp2, Option.none_or]
        cases h3 : Schema.lit [65, 85, 88, 73, 76, 73, 65, 82, 89] r with
        | some r' =>
          have hp3 := List.isPrefixOf_iff_prefix.mpr (lit_ne_none (by rw [h3]; simp))
          have he := eaten_lit h3
          rw [lit_eq_some (lit_ne_none (by rw [h3]; simp))] at h3
          cases h3
          simp only [hp3, e3]
          rw [he]; rfl
        | none =>
          have hp3 : List.isPrefixOf [65, 85, 88, 73, 76, 73, 65, 82, 89] r = false := by
            cases hb : List.isPrefixOf [65, 85, 88, 73, 76, 73, 65, 82, 89] r with
            | false => rfl
            | true => simp [Schema.lit, hb] at h3
          simp only [hp3]

theorem oids_det_SR : Det oids SR Schema.oids := oids_det sr_noKey

theorem oc_tie (s : List Nat) (hs : Valid s) :
    (matchG Regexes.schema_OBJECT_CLASS_DESCRIPTION_g s).map (fun p => ocGroups p.2) = Schema.matchOC s := by
  rw [OC.eq, matchG_eq_FS, FS_head OC.f0 s [] hs]
  unfold Schema.matchOC
  cases hh : Schema.head s with
  | none => rfl
  | some p0 =>
    obtain ⟨oidT, r0⟩ := p0
    have v0 : Valid r0 := hs.suffix (head_suffix hh)
    simp only
    -- NAME
    rw [OC.k0, FS_gKwG "NAME" 6 (by rfl) (by decide) (qdescrs_det SR) (by rfl) qdescrs_val.dead.fails OC.f1 OC.d1
      r0 _ v0]
    have v1 : Valid (Schema.optKw "NAME" (Schema.itemOrList Schema.qdescr) r0).2 :=
      v0.suffix (optKw_suffix (qdescrs_det SR).suf _ _)
    generalize Schema.optKw "NAME" (Schema.itemOrList Schema.qdescr) r0 = o1 at v1 ⊢
    obtain ⟨names, r1⟩ := o1
    simp only at v1 ⊢
    -- DESC
    rw [OC.k1, FS_gKwG "DESC" 18 (by rfl) (by decide) (qdstring_det SR) (by rfl) qdstring_val.dead.fails OC.f2 OC.d2
      r1 _ v1]
    have v2 : Valid (Schema.optKw "DESC" Schema.qdstring r1).2 := v1.suffix (optKw_suffix (qdstring_det SR).suf _ _)
    generalize Schema.optKw "DESC" Schema.qdstring r1 = o2 at v2 ⊢
    obtain ⟨desc, r2⟩ := o2
    simp only at v2 ⊢
    -- OBSOLETE
    rw [OC.k2, FS_gFlagG "OBSOLETE" 20 (by rfl) (by decide) OC.f3 OC.d3 r2 _ v2]
    have v3 : Valid (Schema.optFlag "OBSOLETE" r2).2 := v2.suffix (optFlag_suffix _ _)
    generalize Schema.optFlag "OBSOLETE" r2 = o3 at v3 ⊢
    obtain ⟨obs, r3⟩ := o3
    simp only at v3 ⊢
    -- SUP
    rw [OC.k3, FS_gKwG "SUP" 22 (by rfl) (by decide) oids_det_SR (by rfl) oids_val.dead.fails OC.f4 OC.d4 r3 _ v3]
    have v4 : Valid (Schema.optKw "SUP" Schema.oids r3).2 := v3.suffix (optKw_suffix oids_det_SR.suf _ _)
    generalize Schema.optKw "SUP" Schema.oids r3 = o4 at v4 ⊢
    obtain ⟨sup, r4⟩ := o4
    simp only at v4 ⊢
    -- kind
    rw [OC.k4, ocKind, FS_gWordG 45 (by decide) (by decide) (by decide) (by decide) (by decide) (by decide) OC.f5
      OC.d5a OC.d5b OC.d5c r4 _ v4, ← optWord_kind]
    have v5 : Valid (Schema.optWord ["ABSTRACT", "STRUCTURAL", "AUXILIARY"] r4).2 := by
      rw [optWord_kind]
      exact v4.suffix (wordScan_suffix (word3_det top (by decide) (by decide) (by decide)).suf _)
    generalize Schema.optWord ["ABSTRACT", "STRUCTURAL", "AUXILIARY"] r4 = o5 at v5 ⊢
    obtain ⟨kind, r5⟩ := o5
    simp only at v5 ⊢
    -- MUST
    rw [OC.k5, FS_gKwG "MUST" 47 (by rfl) (by decide) oids_det_SR (by rfl) oids_val.dead.fails OC.f6 OC.d6 r5 _ v5]
    have v6 : Valid (Schema.optKw "MUST" Schema.oids r5).2 := v5.suffix (optKw_suffix oids_det_SR.suf _ _)
    generalize Schema.optKw "MUST" Schema.oids r5 = o6 at v6 ⊢
    obtain ⟨must, r6⟩ := o6
    simp only at v6 ⊢
    -- MAY
    rw [OC.k6, FS_gKwG "MAY" 70 (by rfl) (by decide) oids_det_SR (by rfl) oids_val.dead.fails OC.f7 OC.d7 r6 _ v6]
    have v7 : Valid (Schema.optKw "MAY" Schema.oids r6).2 := v6.suffix (optKw_suffix oids_det_SR.suf _ _)
    generalize Schema.optKw "MAY" Schema.oids r6 = o7 at v7 ⊢
    obtain ⟨may, r7⟩ := o7
    simp only at v7 ⊢
    -- tail
    obtain ⟨xs, hxs, ht⟩ := FS_tail 92 94 r7
      (pushOpt 70 may (pushOpt 47 must (pushOpt 45 kind (pushOpt 22 sup
        (pushOpt 20 (if obs = true then some (eaten r2 r3) else none) (pushOpt 18 desc (pushOpt 6 names [(1, oidT)])))))))
      v7
    have hmap : ∀ o : Option (List Nat × Caps), o.map (fun p => ocGroups p.2) = (o.map Prod.snd).map ocGroups := by
      intro o; cases o <;> rfl
    rw [OC.k7, hmap, ht]
    cases Schema.tail r7 with
    | none => rfl
    | some extT =>
      simp only [Option.map_some, Option.some.injEq]
      have g1 : gid Regexes.schema_OBJECT_CLASS_DESCRIPTION_groups "oid" = 1 := by rfl
      have g2 : gid Regexes.schema_OBJECT_CLASS_DESCRIPTION_groups "name" = 6 := by rfl
      have g3 : gid Regexes.schema_OBJECT_CLASS_DESCRIPTION_groups "desc" = 18 := by rfl
      have g4 : gid Regexes.schema_OBJECT_CLASS_DESCRIPTION_groups "obsolete" = 20 := by rfl
      have g5 : gid Regexes.schema_OBJECT_CLASS_DESCRIPTION_groups "sup" = 22 := by rfl
      have g6 : gid Regexes.schema_OBJECT_CLASS_DESCRIPTION_groups "kind" = 45 := by rfl
      have g7 : gid Regexes.schema_OBJECT_CLASS_DESCRIPTION_groups "must" = 47 := by rfl
      have g8 : gid Regexes.schema_OBJECT_CLASS_DESCRIPTION_groups "may" = 70 := by rfl
      have g9 : gid Regexes.schema_OBJECT_CLASS_DESCRIPTION_groups "extensions" = 92 := by rfl
      simp only [ocGroups, grp, g1, g2, g3, g4, g5, g6, g7, g8, g9]
      rw [capOf_tail (id := 1) (by decide) (by decide) _ _ _ hxs, capOf_tail (id := 6) (by decide) (by decide) _ _ _ hxs,
        capOf_tail (id := 18) (by decide) (by decide) _ _ _ hxs, capOf_tail (id := 20) (by decide) (by decide) _ _ _ hxs,
        capOf_tail (id := 22) (by decide) (by decide) _ _ _ hxs, capOf_tail (id := 45) (by decide) (by decide) _ _ _ hxs,
        capOf_tail (id := 47) (by decide) (by decide) _ _ _ hxs, capOf_tail (id := 70) (by decide) (by decide) _ _ _ hxs]
      cases obs <;> simp [capOf_pushOpt, capOf_cons, capOf_nil]

/-! ### DIT_CONTENT_RULE_DESCRIPTION -/

namespace DCR

def k7 : Re := tailEndG 113 115
def k6 : Re := .cat (gKwG [78, 79, 84] 91 oids) k7
def k5 : Re := .cat (gKwG [77, 65, 89] 68 oids) k6
def k4 : Re := .cat (gKwG [77, 85, 83, 84] 45 oids) k5
def k3 : Re := .cat (gKwG [65, 85, 88] 22 oids) k4
def k2 : Re := .cat (gFlagG [79, 66, 83, 79, 76, 69, 84, 69] 20) k3
def k1 : Re := .cat (gKwG [68, 69, 83, 67] 18 qdstring) k2
def k0 : Re := .cat (gKwG [78, 65, 77, 69] 6 qdescrs) k1

theorem eq : Regexes.schema_DIT_CONTENT_RULE_DESCRIPTION_g = schemaG k0 := rfl

theorem f7 : Fails k7 SR := tailEndG_fails _ _
theorem f6 : Fails k6 SR := gKwG_fails _ _ _ f7
theorem f5 : Fails k5 SR := gKwG_fails _ _ _ f6
theorem f4 : Fails k4 SR := gKwG_fails _ _ _ f5
theorem f3 : Fails k3 SR := gKwG_fails _ _ _ f4
theorem f2 : Fails k2 SR := gFlagG_fails _ _ f3
theorem f1 : Fails k1 SR := gKwG_fails _ _ _ f2
theorem f0 : Fails k0 SR := gKwG_fails _ _ _ f1

theorem d1 : DeadKw k1 [78, 65, 77, 69] := by unfold k1 k2 k3 k4 k5 k6 k7; dead_kw
theorem d2 : DeadKw k2 [68, 69, 83, 67] := by unfold k2 k3 k4 k5 k6 k7; dead_kw
theorem d3 : DeadKw k3 [79, 66, 83, 79, 76, 69, 84, 69] := by unfold k3 k4 k5 k6 k7; dead_kw
theorem d4 : DeadKw k4 [65, 85, 88] := by unfold k4 k5 k6 k7; dead_kw
theorem d5 : DeadKw k5 [77, 85, 83, 84] := by unfold k5 k6 k7; dead_kw
theorem d6 : DeadKw k6 [77, 65, 89] := by unfold k6 k7; dead_kw
theorem d7 : DeadKw k7 [78, 79, 84] := by unfold k7; dead_kw

end DCR

theorem dcr_tie (s : List Nat) (hs : Valid s) :
    (matchG Regexes.schema_DIT_CONTENT_RULE_DESCRIPTION_g s).map (fun p => dcrGroups p.2) = Schema.matchDCR s := by
  rw [DCR.eq, matchG_eq_FS, FS_head DCR.f0 s [] hs]
  unfold Schema.matchDCR
  cases hh : Schema.head s with
  | none => rfl
  | some p0 =>
    obtain ⟨oidT, r0⟩ := p0
    have v0 : Valid r0 := hs.suffix (head_suffix hh)
    simp only
    -- NAME
    rw [DCR.k0, FS_gKwG "NAME" 6 (by rfl) (by decide) (qdescrs_det SR) (by rfl) qdescrs_val.dead.fails DCR.f1 DCR.d1
      r0 _ v0]
    have v1 : Valid (Schema.optKw "NAME" (Schema.itemOrList Schema.qdescr) r0).2 :=
      v0.suffix (optKw_suffix (qdescrs_det SR).suf _ _)
    generalize Schema.optKw "NAME" (Schema.itemOrList Schema.qdescr) r0 = o1 at v1 ⊢
    obtain ⟨names, r1⟩ := o1
    simp only at v1 ⊢
    -- DESC
    rw [DCR.k1, FS_gKwG "DESC" 18 (by rfl) (by decide) (qdstring_det SR) (by rfl) qdstring_val.dead.fails DCR.f2
      DCR.d2 r1 _ v1]
    have v2 : Valid (Schema.optKw "DESC" Schema.qdstring r1).2 := v1.suffix (optKw_suffix (qdstring_det SR).suf _ _)
    generalize Schema.optKw "DESC" Schema.qdstring r1 = o2 at v2 ⊢
    obtain ⟨desc, r2⟩ := o2
    simp only at v2 ⊢
    -- OBSOLETE
    rw [DCR.k2, FS_gFlagG "OBSOLETE" 20 (by rfl) (by decide) DCR.f3 DCR.d3 r2 _ v2]
    have v3 : Valid (Schema.optFlag "OBSOLETE" r2).2 := v2.suffix (optFlag_suffix _ _)
    generalize Schema.optFlag "OBSOLETE" r2 = o3 at v3 ⊢
    obtain ⟨obs, r3⟩ := o3
    simp only at v3 ⊢
    -- AUX
    rw [DCR.k3, FS_gKwG "AUX" 22 (by rfl) (by decide) oids_det_SR (by rfl) oids_val.dead.fails DCR.f4 DCR.d4 r3 _ v3]
    have v4 : Valid (Schema.optKw "AUX" Schema.oids r3).2 := v3.suffix (optKw_suffix oids_det_SR.suf _ _)
    generalize Schema.optKw "AUX" Schema.oids r3 = o4 at v4 ⊢
    obtain ⟨aux, r4⟩ := o4
    simp only at v4 ⊢
    -- MUST
    rw [DCR.k4, FS_gKwG "MUST" 45 (by rfl) (by decide) oids_det_SR (by rfl) oids_val.dead.fails DCR.f5 DCR.d5 r4 _ v4]
    have v5 : Valid (Schema.optKw "MUST" Schema.oids r4).2 := v4.suffix (optKw_suffix oids_det_SR.suf _ _)
    generalize Schema.optKw "MUST" Schema.oids r4 = o5 at v5 ⊢
    obtain ⟨must, r5⟩ := o5
    simp only at v5 ⊢
    -- MAY
    rw [DCR.k5, FS_gKwG "MAY" 68 (by rfl) (by decide) oids_det_SR (by rfl) oids_val.dead.fails DCR.f6 DCR.d6 r5 _ v5]
    have v6 : Valid (Schema.optKw "MAY" Schema.oids r5).2 := v5.suffix (optKw_suffix oids_det_SR.suf _ _)
    generalize Schema.optKw "MAY" Schema.oids r5 = o6 at v6 ⊢
    obtain ⟨may, r6⟩ := o6
    simp only at v6 ⊢
    -- NOT
    rw [DCR.k6, FS_gKwG "NOT" 91 (by rfl) (by decide) oids_det_SR (by rfl) oids_val.dead.fails DCR.f7 DCR.d7 r6 _ v6]
    have v7 : Valid (Schema.optKw "NOT" Schema.oids r6).2 := v6.suffix (optKw_suffix oids_det_SR.suf _ _)
    generalize Schema.optKw "NOT" Schema.oids r6 = o7 at v7 ⊢
    obtain ⟨never, r7⟩ := o7
    simp only at v7 ⊢
    -- tail
    obtain ⟨xs, hxs, ht⟩ := FS_tail 113 115 r7
      (pushOpt 91 never (pushOpt 68 may (pushOpt 45 must (pushOpt 22 aux
        (pushOpt 20 (if obs = true then some (eaten r2 r3) else none) (pushOpt 18 desc (pushOpt 6 names [(1, oidT)])))))))
      v7
    have hmap : ∀ o : Option (List Nat × Caps), o.map (fun p => dcrGroups p.2) = (o.map Prod.snd).map dcrGroups := by
      intro o; cases o <;> rfl
    rw [DCR.k7, hmap, ht]
    cases Schema.tail r7 with
    | none => rfl
    | some extT =>
      simp only [Option.map_some, Option.some.injEq]
      have g1 : gid Regexes.schema_DIT_CONTENT_RULE_DESCRIPTION_groups "oid" = 1 := by rfl
      have g2 : gid Regexes.schema_DIT_CONTENT_RULE_DESCRIPTION_groups "name" = 6 := by rfl
      have g3 : gid Regexes.schema_DIT_CONTENT_RULE_DESCRIPTION_groups "desc" = 18 := by rfl
      have g4 : gid Regexes.schema_DIT_CONTENT_RULE_DESCRIPTION_groups "obsolete" = 20 := by rfl
      have g5 : gid Regexes.schema_DIT_CONTENT_RULE_DESCRIPTION_groups "aux" = 22 := by rfl
      have g6 : gid Regexes.schema_DIT_CONTENT_RULE_DESCRIPTION_groups "must" = 45 := by rfl
      have g7 : gid Regexes.schema_DIT_CONTENT_RULE_DESCRIPTION_groups "may" = 68 := by rfl
      have g8 : gid Regexes.schema_DIT_CONTENT_RULE_DESCRIPTION_groups "not" = 91 := by rfl
      have g9 : gid Regexes.schema_DIT_CONTENT_RULE_DESCRIPTION_groups "extensions" = 113 := by rfl
      simp only [dcrGroups, grp, g1, g2, g3, g4, g5, g6, g7, g8, g9]
      rw [capOf_tail (id := 1) (by decide) (by decide) _ _ _ hxs, capOf_tail (id := 6) (by decide) (by decide) _ _ _ hxs,
        capOf_tail (id := 18) (by decide) (by decide) _ _ _ hxs, capOf_tail (id := 20) (by decide) (by decide) _ _ _ hxs,
        capOf_tail (id := 22) (by decide) (by decide) _ _ _ hxs, capOf_tail (id := 45) (by decide) (by decide) _ _ _ hxs,
        capOf_tail (id := 68) (by decide) (by decide) _ _ _ hxs, capOf_tail (id := 91) (by decide) (by decide) _ _ _ hxs]
      cases obs <;> simp [capOf_pushOpt, capOf_cons, capOf_nil]

end Verif.Proofs.SchemaTie
