/-
The public methods (`data_to_send`, `unbind`, `bind`, `extended_request`, `search_request`, `bind_response`,
`extended_response`, `search_result_entry/reference/done`, `receive`): the generated function, seen through
the abstraction `absS`, is one `step` of the model.
-/
import Verif.Proofs.SessionGenReceive

set_option linter.unusedSimpArgs false

namespace Verif.Proofs.SessionGen

open Verif Verif.PyRtS Verif.SessionGen

/-- exception class ↦ the model's outcome.  The bytes attached as `.response` are abstracted to the
    `Notification` the class of `self` determines (their exact value: `client_receive_eq`,
    `server_receive_eq`). -/
def absExc (r : Role) : Exc → Outcome
  | .ldapError => .ldapError
  | .protocolError _ none => .protocolError .none
  | .protocolError _ (some _) => .protocolError (match r with | .client => .unbind | .server => .notice)
  | .keyError => .keyError
  | .valueError => .valueError
  | .notImplementedError => .valueError      -- no translated method lets these two escape
  | .recursionError => .valueError

/-- a generated result as the model's (session, outcome) -/
def absRes {α : Type} (r : Role) (regs : Regs) (f : α → Outcome) (x : Res St α) : Sess × Outcome :=
  (absS r regs x.2, match x.1 with | .ok a => f a | .error e => absExc r e)

theorem optOrEmpty_getD {α : Type} (x : Option (List α)) : optOrEmpty x [] = x.getD [] := by
  cases x with
  | none => rfl
  | some l => cases l <;> rfl

theorem clientSend_unfold (s : Sess) (op : Op) (cs : List Control) :
    clientSend s op cs =
      (if (sendBase s ⟨s.counter, op, cs⟩).2 then
        ({ (sendBase s ⟨s.counter, op, cs⟩).1 with
            counter := (sendBase s ⟨s.counter, op, cs⟩).1.counter + 1,
            outstanding := setInsert s.counter (sendBase s ⟨s.counter, op, cs⟩).1.outstanding }, some s.counter)
       else ((sendBase s ⟨s.counter, op, cs⟩).1, none)) := rfl

theorem serverSend_unfold (s : Sess) (m : Msg) :
    serverSend s m =
      (if (sendBase s m).2 then
        (match m.op with
         | .searchEntry .. | .searchRef .. => ((sendBase s m).1, true)
         | _ => ({ (sendBase s m).1 with outstanding := setErase m.id (sendBase s m).1.outstanding }, true))
       else ((sendBase s m).1, false)) := rfl

theorem clientSend_frame (s : Sess) (op : Op) (cs : List Control) :
    (clientSend s op cs).1.role = s.role ∧ (clientSend s op cs).1.regs = s.regs := by
  have h1 := sendBase_role s ⟨s.counter, op, cs⟩
  have h2 := sendBase_regs s ⟨s.counter, op, cs⟩
  rw [clientSend_unfold]
  split <;> simp [h1, h2]

theorem serverSend_frame (s : Sess) (m : Msg) :
    (serverSend s m).1.role = s.role ∧ (serverSend s m).1.regs = s.regs := by
  have h1 := sendBase_role s m
  have h2 := sendBase_regs s m
  rw [serverSend_unfold]
  split
  · split <;> simp [h1, h2]
  · simp [h1, h2]

/-! ### `data_to_send`, `unbind` -/

theorem data_to_send_abs (r : Role) (regs : Regs) (st : St) (amount : Option Int) :
    absRes r regs .bytes (LDAPSession_data_to_send st amount) = step (absS r regs st) (.drain amount) := by
  rw [data_to_send_eq r regs]
  cases amount <;> simp [absRes, step, absS, concS]

theorem client_unbind_abs (regs : Regs) (st : St) :
    absRes .client regs (fun _ => .unit) (LDAPClient_LDAPSession_unbind st)
      = step (absS .client regs st) .unbind := by
  dsimp only [LDAPClient_LDAPSession_unbind, step, unbindMsg]
  rw [client_send_unbind regs _ _ rfl]
  have h1 := sendBase_role (absS .client regs st) ⟨0, .unbind, []⟩
  have h2 := sendBase_regs (absS .client regs st) ⟨0, .unbind, []⟩
  have e := absS_concS' st.version h1 h2
  simp only [absS_role, absS_regs] at e
  by_cases hok : (sendBase (absS .client regs st) ⟨0, .unbind, []⟩).2 = true
  · simp [hok, sendRes, absRes, absExc]
    simp [absS, concS, absState] at h1 h2 ⊢
    exact ⟨h1.symm, h2.symm⟩
  · simp [hok, sendRes, absRes, absExc, e]

theorem server_unbind_abs (regs : Regs) (st : St) :
    absRes .server regs (fun _ => .unit) (LDAPServer_LDAPSession_unbind st)
      = step (absS .server regs st) .unbind := by
  dsimp only [LDAPServer_LDAPSession_unbind, step, unbindMsg]
  rw [server_send_unbind regs _ _ rfl]
  have h1 := sendBase_role (absS .server regs st) ⟨0, .unbind, []⟩
  have h2 := sendBase_regs (absS .server regs st) ⟨0, .unbind, []⟩
  have e := absS_concS' st.version h1 h2
  simp only [absS_role, absS_regs] at e
  by_cases hok : (sendBase (absS .server regs st) ⟨0, .unbind, []⟩).2 = true
  · simp [hok, sendRes, absRes, absExc]
    simp [absS, concS, absState] at h1 h2 ⊢
    exact ⟨h1.symm, h2.symm⟩
  · simp [hok, sendRes, absRes, absExc, e]

/-! ### client requests -/

theorem client_bind_abs (regs : Regs) (st : St) (dn : Bytes) (cred : Cred) (controls : Option (List Control))
    (hv : st.version = Facts.ldapVersion) :
    absRes .client regs .sent (LDAPClient_bind st dn cred controls)
      = step (absS .client regs st) (.bind dn cred (controls.getD [])) := by
  dsimp only [LDAPClient_bind, step]
  rw [optOrEmpty_getD, hv]
  by_cases ho : st.outstanding_requests.isEmpty = true
  · simp only [ho, absS_role, absS_outstanding, ne_eq, not_true_eq_false, if_false, Bool.not_true,
      Bool.false_eq_true]
    rw [client_send_eq regs _ _ rfl]
    obtain ⟨h1, h2⟩ := clientSend_frame (absS .client regs st) (.bindReq Facts.ldapVersion dn cred) (controls.getD [])
    generalize clientSend (absS .client regs st) (.bindReq Facts.ldapVersion dn cred) (controls.getD []) = p at h1 h2 ⊢
    rcases p with ⟨⟨role, state, out, outs, srch, ctr, res, regs'⟩, _ | id⟩ <;>
      simp_all [sendResOpt, absRes, absExc, absS, concS]
  · simp [ho, absRes, absExc]

theorem client_extended_abs (regs : Regs) (st : St) (name : Bytes) (value : Option Bytes)
    (controls : Option (List Control)) :
    absRes .client regs .sent (LDAPClient_extended_request st name value controls)
      = step (absS .client regs st) (.extended name value (controls.getD [])) := by
  dsimp only [LDAPClient_extended_request, step]
  rw [optOrEmpty_getD]
  simp only [absS_role, ne_eq, not_true_eq_false, if_false]
  rw [client_send_eq regs _ _ rfl]
  obtain ⟨h1, h2⟩ := clientSend_frame (absS .client regs st) (.extReq name value) (controls.getD [])
  generalize clientSend (absS .client regs st) (.extReq name value) (controls.getD []) = p at h1 h2 ⊢
  rcases p with ⟨⟨role, state, out, outs, srch, ctr, res, regs'⟩, _ | id⟩ <;>
    simp_all [sendResOpt, absRes, absExc, absS, concS]

theorem defaultAttr_eq :
    ([111, 98, 106, 101, 99, 116, 67, 108, 97, 115, 115] : List Nat) = Facts.defaultSearchAttr := rfl

theorem client_search_abs (regs : Regs) (st : St) (base : Option Bytes) (scope deref sl tl : Int) (ty : Bool)
    (filter : Option Filter) (attrs : Option (List Bytes)) (controls : Option (List Control))
    (hs : scope ∈ SearchScope_members) (hd : deref ∈ DereferencingPolicy_members) :
    absRes .client regs .sent (LDAPClient_search_request st base scope deref sl tl ty filter attrs controls)
      = step (absS .client regs st)
          (.search (base.getD []) scope deref sl tl ty filter (attrs.getD []) (controls.getD [])) := by
  dsimp only [LDAPClient_search_request, step]
  simp only [enumOf, List.contains_eq_mem, decide_eq_true hs, decide_eq_true hd, if_true, Res.lift,
    Res.bind_ok, optOrEmpty_getD]
  simp only [absS_role, ne_eq, not_true_eq_false, if_false]
  rw [client_send_eq regs _ _ rfl]
  dsimp only
  rw [defaultAttr_eq]
  generalize hop : Op.searchReq (base.getD []) scope deref sl tl ty
    (filter.getD (Filter.present Facts.defaultSearchAttr)) (attrs.getD []) = op
  obtain ⟨h1, h2⟩ := clientSend_frame (absS .client regs st) op (controls.getD [])
  generalize clientSend (absS .client regs st) op (controls.getD []) = p at h1 h2 ⊢
  rcases p with ⟨⟨role, state, out, outs, srch, ctr, res, regs'⟩, _ | id⟩ <;>
    simp_all [sendResOpt, absRes, absExc, absS, concS, setAdd, setInsert]

/-- outside the member values `SearchScope(scope)` / `DereferencingPolicy(..)` raise `ValueError` before
    anything is touched.  The model's `step (.search ..)` has no such check: it describes calls with member
    values only. -/
theorem client_search_bad_enum (st : St) (base : Option Bytes) (scope deref sl tl : Int) (ty : Bool)
    (filter : Option Filter) (attrs : Option (List Bytes)) (controls : Option (List Control))
    (h : scope ∉ SearchScope_members ∨ deref ∉ DereferencingPolicy_members) :
    LDAPClient_search_request st base scope deref sl tl ty filter attrs controls = (.error .valueError, st) := by
  dsimp only [LDAPClient_search_request]
  by_cases hs : scope ∈ SearchScope_members
  · have hd : deref ∉ DereferencingPolicy_members := by simpa [hs] using h
    simp [enumOf, hs, hd, Res.lift]
  · simp [enumOf, hs, Res.lift]

/-! ### server responses -/

theorem server_bind_response_abs (regs : Regs) (st : St) (id : Int) (sasl : Option Bytes) (code : Int) (mdn diag : Option Bytes) (controls : Option (List Control)) :
    absRes .server regs .sent (LDAPServer_bind_response st id sasl code mdn diag controls)
      = step (absS .server regs st) (.bindResponse id sasl code (mdn.getD []) (diag.getD []) (controls.getD [])) := by
  dsimp only [LDAPServer_bind_response, step, mkResult]
  simp only [optOrEmpty_getD, absS_role, ne_eq, not_true_eq_false, if_false]
  rw [server_send_eq regs _ _ rfl]
  generalize hm : (⟨id, .bindResp ⟨code, mdn.getD [], diag.getD [], some []⟩ sasl, controls.getD []⟩ : Msg) = m
  obtain ⟨h1, h2⟩ := serverSend_frame (absS .server regs st) m
  have hid : m.id = id := by rw [← hm]
  generalize serverSend (absS .server regs st) m = p at h1 h2 ⊢
  rcases p with ⟨⟨role, state, out, outs, srch, ctr, res, regs'⟩, _ | _⟩ <;>
    simp_all [sendRes, absRes, absExc, absS, concS, setDiscard, setErase, sasl_eq, oid_eq]
  all_goals (split <;> simp_all)

theorem server_extended_response_abs (regs : Regs) (st : St) (id : Int) (name value : Option Bytes) (code : Int) (mdn diag : Option Bytes) (controls : Option (List Control)) :
    absRes .server regs .sent (LDAPServer_extended_response st id name value code mdn diag controls)
      = step (absS .server regs st) (.extendedResponse id name value code (mdn.getD []) (diag.getD []) (controls.getD [])) := by
  dsimp only [LDAPServer_extended_response, step, mkResult]
  simp only [optOrEmpty_getD, absS_role, ne_eq, not_true_eq_false, if_false]
  rw [server_send_eq regs _ _ rfl]
  generalize hm : (⟨id, .extResp ⟨code, mdn.getD [], diag.getD [], some []⟩ name value, controls.getD []⟩ : Msg) = m
  obtain ⟨h1, h2⟩ := serverSend_frame (absS .server regs st) m
  have hid : m.id = id := by rw [← hm]
  generalize serverSend (absS .server regs st) m = p at h1 h2 ⊢
  rcases p with ⟨⟨role, state, out, outs, srch, ctr, res, regs'⟩, _ | _⟩ <;>
    simp_all [sendRes, absRes, absExc, absS, concS, setDiscard, setErase, sasl_eq, oid_eq]
  all_goals (split <;> simp_all)

theorem server_search_result_entry_abs (regs : Regs) (st : St) (id : Int) (name : Bytes) (attrs : List (Bytes × List Bytes)) (controls : Option (List Control)) :
    absRes .server regs .sent (LDAPServer_search_result_entry st id name attrs controls)
      = step (absS .server regs st) (.entry id name attrs (controls.getD [])) := by
  dsimp only [LDAPServer_search_result_entry, step, mkResult]
  simp only [optOrEmpty_getD, absS_role, ne_eq, not_true_eq_false, if_false]
  rw [server_send_eq regs _ _ rfl]
  generalize hm : (⟨id, .searchEntry name attrs, controls.getD []⟩ : Msg) = m
  obtain ⟨h1, h2⟩ := serverSend_frame (absS .server regs st) m
  have hid : m.id = id := by rw [← hm]
  generalize serverSend (absS .server regs st) m = p at h1 h2 ⊢
  rcases p with ⟨⟨role, state, out, outs, srch, ctr, res, regs'⟩, _ | _⟩ <;>
    simp_all [sendRes, absRes, absExc, absS, concS, setDiscard, setErase, sasl_eq, oid_eq]

theorem server_search_result_reference_abs (regs : Regs) (st : St) (id : Int) (uris : List Bytes) (controls : Option (List Control)) :
    absRes .server regs .sent (LDAPServer_search_result_reference st id uris controls)
      = step (absS .server regs st) (.reference id uris (controls.getD [])) := by
  dsimp only [LDAPServer_search_result_reference, step, mkResult]
  simp only [optOrEmpty_getD, absS_role, ne_eq, not_true_eq_false, if_false]
  rw [server_send_eq regs _ _ rfl]
  generalize hm : (⟨id, .searchRef uris, controls.getD []⟩ : Msg) = m
  obtain ⟨h1, h2⟩ := serverSend_frame (absS .server regs st) m
  have hid : m.id = id := by rw [← hm]
  generalize serverSend (absS .server regs st) m = p at h1 h2 ⊢
  rcases p with ⟨⟨role, state, out, outs, srch, ctr, res, regs'⟩, _ | _⟩ <;>
    simp_all [sendRes, absRes, absExc, absS, concS, setDiscard, setErase, sasl_eq, oid_eq]

theorem server_search_result_done_abs (regs : Regs) (st : St) (id : Int) (code : Int) (mdn diag : Option Bytes) (controls : Option (List Control)) :
    absRes .server regs .sent (LDAPServer_search_result_done st id code mdn diag controls)
      = step (absS .server regs st) (.done id code (mdn.getD []) (diag.getD []) (controls.getD [])) := by
  dsimp only [LDAPServer_search_result_done, step, mkResult]
  simp only [optOrEmpty_getD, absS_role, ne_eq, not_true_eq_false, if_false]
  rw [server_send_eq regs _ _ rfl]
  generalize hm : (⟨id, .searchDone ⟨code, mdn.getD [], diag.getD [], some []⟩, controls.getD []⟩ : Msg) = m
  obtain ⟨h1, h2⟩ := serverSend_frame (absS .server regs st) m
  have hid : m.id = id := by rw [← hm]
  generalize serverSend (absS .server regs st) m = p at h1 h2 ⊢
  rcases p with ⟨⟨role, state, out, outs, srch, ctr, res, regs'⟩, _ | _⟩ <;>
    simp_all [sendRes, absRes, absExc, absS, concS, setDiscard, setErase, sasl_eq, oid_eq]

end Verif.Proofs.SessionGen
