/-
Ties between the hand-written scanners of the model and the translated regular expressions
(`Generated/Regexes.lean`): proofs of the statements of `Props/Ties.lean`.

Method: `anyRun r P s := (runs r s).any P` ("some run of `r` on `s` leaves a suffix accepted by the
continuation `P`").  `accepts r = anyRun r ⊤`, `anyRun (cat a b) P = anyRun a (anyRun b P)`, and a
class star followed by a continuation that rejects every string starting in the class behaves like
`dropWhile` (maximal munch; backtracking never helps).  The attribute pattern is split into named
sub-expressions (`pat_eq : Regexes.filter_ATTRIBUTE_PATTERN = pat := rfl` is what ties the proof to
the regenerated term).

Core Lean only.
-/
import Verif.Model.FilterText
import Verif.Model.Schema
import Verif.Generated.Regexes
import Verif.Generated.Facts
import Verif.Proofs.ReCost

namespace Verif.Proofs.Ties
open Verif Verif.Re Verif.Proofs.ReCost

/-! ### continuation-passing view of `runs` -/

def anyRun (r : Re) (P : List Nat → Bool) (s : List Nat) : Bool := (runs r s).any P

def top : List Nat → Bool := fun _ => true

theorem accepts_eq_anyRun (r : Re) (s : List Nat) : accepts r s = anyRun r top s := by
  unfold accepts anyRun top
  cases runs r s <;> simp

theorem anyRun_cat (a b : Re) (P : List Nat → Bool) (s : List Nat) :
    anyRun (cat a b) P s = anyRun a (anyRun b P) s := by
  unfold anyRun
  rw [runs_cat, List.any_flatMap]

theorem anyRun_alt (a b : Re) (P : List Nat → Bool) (s : List Nat) :
    anyRun (alt a b) P s = (anyRun a P s || anyRun b P s) := by
  unfold anyRun
  rw [runs_alt, List.any_append]

@[simp] theorem anyRun_cls_nil (ivs) (P : List Nat → Bool) : anyRun (cls ivs) P [] = false := by
  simp [anyRun]

theorem anyRun_cls_cons (ivs) (P : List Nat → Bool) (c : Nat) (r : List Nat) :
    anyRun (cls ivs) P (c :: r) = (inCls ivs c && P r) := by
  unfold anyRun
  rw [runs_cls_cons]
  cases inCls ivs c <;> simp

theorem anyRun_eos_top : anyRun eos top = List.isEmpty := by
  funext s
  unfold anyRun top
  rw [runs_eos]
  cases s <;> simp

theorem anyRun_eosNl_top_nil : anyRun eosNl top [] = true := by
  unfold anyRun top
  rw [runs_eosNl]
  simp

/-- maximal munch: a class star in front of a continuation that rejects everything starting in
    the class is `dropWhile` -/
theorem anyRun_star_cls (ivs) (P : List Nat → Bool) (hP : ∀ t, startsIn ivs t = true → P t = false)
    (s : List Nat) : anyRun (star (cls ivs)) P s = P (s.dropWhile (inCls ivs)) := by
  induction s with
  | nil => simp [anyRun, runs_star_cls_nil]
  | cons c r ih =>
    unfold anyRun at ih ⊢
    rw [runs_star_cls_cons, List.dropWhile_cons]
    cases h : inCls ivs c
    · simp
    · have : P (c :: r) = false := hP (c :: r) (by simpa using h)
      simp [List.any_append, ih, this]

/-- one-or-more of a class, then such a continuation -/
theorem anyRun_plus_cls (ivs) (P : List Nat → Bool) (hP : ∀ t, startsIn ivs t = true → P t = false)
    (s : List Nat) :
    anyRun (cat (cls ivs) (star (cls ivs))) P s =
      (decide ((s.dropWhile (inCls ivs)).length < s.length) && P (s.dropWhile (inCls ivs))) := by
  rw [anyRun_cat]
  cases s with
  | nil => simp
  | cons c r =>
    rw [anyRun_cls_cons, anyRun_star_cls ivs P hP, List.dropWhile_cons]
    cases h : inCls ivs c
    · simp
    · have : (r.dropWhile (inCls ivs)).length ≤ r.length := (List.dropWhile_suffix _).length_le
      have h2 : (r.dropWhile (inCls ivs)).length < (c :: r).length := by
        simp only [List.length_cons]; omega
      simp only [if_true, Bool.true_and]
      rw [decide_eq_true h2, Bool.true_and]

theorem runs_cls_cat_shorter (ivs) (b : Re) (s : List Nat) :
    ∀ t ∈ runs (cat (cls ivs) b) s, t.length < s.length := by
  intro t ht
  rw [runs_cat, List.mem_flatMap] at ht
  obtain ⟨u, hu, htu⟩ := ht
  obtain ⟨c, hs, _⟩ := mem_runs_cls hu
  have := runs_length_le htu
  subst hs
  simp; omega

/-- a star whose body always consumes: one iteration then the star again, or stop -/
theorem anyRun_star (x : Re) (P : List Nat → Bool) (s : List Nat)
    (hx : ∀ t ∈ runs x s, t.length < s.length) :
    anyRun (star x) P s = (anyRun x (anyRun (star x) P) s || P s) := by
  unfold anyRun
  rw [runs_star, List.filter_eq_self.mpr (by intro t ht; simpa using hx t ht), List.any_append,
    List.any_flatMap]
  simp

theorem anyRun_star_of_nil (x : Re) (P : List Nat → Bool) (s : List Nat) (h : runs x s = []) :
    anyRun (star x) P s = P s := by
  unfold anyRun
  rw [runs_star_of_nil h]
  simp

/-! ### the attribute pattern, by parts -/

def cAlpha : List (Nat × Nat) := [(65, 90), (97, 122)]
def cKey : List (Nat × Nat) := [(45, 45), (48, 57), (65, 90), (97, 122)]
def c0 : List (Nat × Nat) := [(48, 48)]
def c19 : List (Nat × Nat) := [(49, 57)]
def cDig : List (Nat × Nat) := [(48, 57)]
def cDotC : List (Nat × Nat) := [(46, 46)]
def cSemiC : List (Nat × Nat) := [(59, 59)]

/-- `[a-zA-Z][a-zA-Z0-9-]*` -/
def descr : Re := cat (cls cAlpha) (star (cls cKey))
/-- `0|[1-9][0-9]*` -/
def num : Re := alt (cls c0) (cat (cls c19) (star (cls cDig)))
/-- `\.number` -/
def arc : Re := cat (cls cDotC) num
/-- `number(\.number)*` -/
def oid : Re := cat num (star arc)
/-- `;[a-zA-Z0-9-]+` -/
def opt : Re := cat (cls cSemiC) (cat (cls cKey) (star (cls cKey)))
def pat : Re := cat (alt descr oid) (cat (star opt) eos)

/-- the regenerated pattern is the composition of the named parts -/
theorem pat_eq : Regexes.filter_ATTRIBUTE_PATTERN = pat := rfl

/-! ### classes vs the scanner's character tests -/

theorem inCls_key : inCls cKey = isKeyChar := by
  funext c
  rw [Bool.eq_iff_iff]
  simp [inCls, cKey, isKeyChar, isAlpha, isDigit, cHyphen]
  omega

theorem inCls_alpha : inCls cAlpha = isAlpha := by
  funext c
  rw [Bool.eq_iff_iff]
  simp [inCls, cAlpha, isAlpha]

theorem inCls_dig : inCls cDig = isDigit := by
  funext c
  rw [Bool.eq_iff_iff]
  simp [inCls, cDig, isDigit]

theorem inCls_c0 (c : Nat) : inCls c0 c = decide (c = 48) := by
  rw [Bool.eq_iff_iff]
  simp [inCls, c0]
  omega

theorem inCls_c19 (c : Nat) : inCls c19 c = decide (49 ≤ c ∧ c ≤ 57) := by
  rw [Bool.eq_iff_iff]
  simp [inCls, c19]

theorem inCls_dot (c : Nat) : inCls cDotC c = decide (c = cDot) := by
  by_cases h : c = cDot
  · subst h; rfl
  · rw [decide_eq_false h]
    unfold cDot at h
    simp [inCls, cDotC]
    omega

theorem inCls_semi (c : Nat) : inCls cSemiC c = decide (c = cSemi) := by
  by_cases h : c = cSemi
  · subst h; rfl
  · rw [decide_eq_false h]
    unfold cSemi at h
    simp [inCls, cSemiC]
    omega

/-! ### `(;[a-zA-Z0-9-]+)*\Z` -/

def optAcc : List Nat → Bool := anyRun (star opt) List.isEmpty

theorem optAcc_nil : optAcc [] = true := by
  simp [optAcc, anyRun, runs_star_nil]

theorem optAcc_of_ne (c : Nat) (r : List Nat) (h : c ≠ cSemi) : optAcc (c :: r) = false := by
  unfold optAcc
  rw [anyRun_star_of_nil]
  · rfl
  · rw [opt, runs_cat, runs_cls_cons, inCls_semi]
    simp [h]

theorem optAcc_key (t : List Nat) (h : startsIn cKey t = true) : optAcc t = false := by
  cases t with
  | nil => simp at h
  | cons c r =>
    apply optAcc_of_ne
    rw [startsIn_cons, inCls_key] at h
    intro hc
    subst hc
    revert h
    decide

theorem optAcc_cons (c : Nat) (r : List Nat) :
    optAcc (c :: r) =
      (decide (c = cSemi) && (decide ((r.dropWhile isKeyChar).length < r.length) &&
        optAcc (r.dropWhile isKeyChar))) := by
  have h := anyRun_star opt List.isEmpty (c :: r) (runs_cls_cat_shorter _ _ _)
  show anyRun (star opt) List.isEmpty (c :: r) = _
  rw [h]
  show (anyRun opt optAcc (c :: r) || false) = _
  rw [Bool.or_false, opt, anyRun_cat, anyRun_cls_cons, anyRun_plus_cls cKey optAcc optAcc_key,
    inCls_semi, inCls_key]

theorem optAcc_eq_scan : ∀ (n : Nat) (s : List Nat), s.length ≤ n → optAcc s = scanOptions n s := by
  intro n
  induction n with
  | zero =>
    intro s hs
    cases s with
    | nil => simp [optAcc_nil, scanOptions]
    | cons c r => simp at hs
  | succ n ih =>
    intro s hs
    cases s with
    | nil => simp [optAcc_nil, scanOptions]
    | cons c r =>
      rw [optAcc_cons, scanOptions]
      by_cases hc : c = cSemi
      · have hl : (r.dropWhile isKeyChar).length ≤ r.length := (List.dropWhile_suffix _).length_le
        simp only [List.length_cons] at hs
        rw [ih _ (by omega)]
        simp [hc]
      · simp [hc]

/-! ### `0|[1-9][0-9]*` in front of a continuation that rejects a leading digit -/

theorem anyRun_num (P : List Nat → Bool) (hP : ∀ t, startsIn cDig t = true → P t = false)
    (s : List Nat) :
    anyRun num P s = match scanNumber s with | some r' => P r' | none => false := by
  cases s with
  | nil => simp [num, anyRun_alt, anyRun_cat, scanNumber]
  | cons c r =>
    rw [num, anyRun_alt, anyRun_cat, anyRun_cls_cons, anyRun_cls_cons, anyRun_star_cls cDig P hP,
      inCls_c0, inCls_c19, inCls_dig, scanNumber]
    by_cases h0 : c = 48
    · subst h0; simp
    · by_cases h1 : 49 ≤ c ∧ c ≤ 57
      · simp [h0, h1]
      · simp [h0, h1]

theorem scanNumber_length {s r' : List Nat} (h : scanNumber s = some r') : r'.length < s.length := by
  cases s with
  | nil => simp [scanNumber] at h
  | cons c r =>
    have hl : (r.dropWhile isDigit).length ≤ r.length := (List.dropWhile_suffix _).length_le
    rw [scanNumber] at h
    split at h
    · cases h; simp
    · split at h
      · cases h; simp; omega
      · cases h

/-! ### `(\.number)*` followed by the options -/

def arcAcc : List Nat → Bool := anyRun (star arc) optAcc

theorem arcAcc_of_ne (c : Nat) (r : List Nat) (h : c ≠ cDot) : arcAcc (c :: r) = optAcc (c :: r) := by
  unfold arcAcc
  rw [anyRun_star_of_nil]
  rw [arc, runs_cat, runs_cls_cons, inCls_dot]
  simp [h]

theorem arcAcc_nil : arcAcc [] = true := by
  simp [arcAcc, anyRun, runs_star_nil, optAcc_nil]

theorem arcAcc_dig (t : List Nat) (h : startsIn cDig t = true) : arcAcc t = false := by
  cases t with
  | nil => simp at h
  | cons c r =>
    rw [startsIn_cons, inCls_dig] at h
    have h1 : c ≠ cDot := by intro hc; subst hc; revert h; decide
    have h2 : c ≠ cSemi := by intro hc; subst hc; revert h; decide
    rw [arcAcc_of_ne c r h1, optAcc_of_ne c r h2]

theorem arcAcc_dot (r : List Nat) :
    arcAcc (cDot :: r) = match scanNumber r with | some r' => arcAcc r' | none => false := by
  have h := anyRun_star arc optAcc (cDot :: r) (runs_cls_cat_shorter _ _ _)
  show anyRun (star arc) optAcc (cDot :: r) = _
  rw [h]
  show (anyRun arc arcAcc (cDot :: r) || optAcc (cDot :: r)) = _
  rw [optAcc_of_ne cDot r (by decide), Bool.or_false, arc, anyRun_cat, anyRun_cls_cons,
    anyRun_num arcAcc arcAcc_dig, inCls_dot]
  simp

theorem scanArcs_length_le : ∀ (n : Nat) (s : List Nat), (scanArcs n s).length ≤ s.length := by
  intro n
  induction n with
  | zero => intro s; simp [scanArcs]
  | succ n ih =>
    intro s
    cases s with
    | nil => simp [scanArcs]
    | cons c r =>
      rw [scanArcs]
      split
      · split
        · rename_i r' h
          have := scanNumber_length h
          have := ih r'
          simp; omega
        · exact Nat.le_refl _
      · exact Nat.le_refl _

theorem arcAcc_eq_scan : ∀ (n : Nat) (s : List Nat), s.length ≤ n → arcAcc s = optAcc (scanArcs n s) := by
  intro n
  induction n with
  | zero =>
    intro s hs
    cases s with
    | nil => simp [scanArcs, arcAcc_nil, optAcc_nil]
    | cons c r => simp at hs
  | succ n ih =>
    intro s hs
    cases s with
    | nil => simp [scanArcs, arcAcc_nil, optAcc_nil]
    | cons c r =>
      rw [scanArcs]
      by_cases hc : c = cDot
      · subst hc
        rw [arcAcc_dot, if_pos rfl]
        cases h : scanNumber r with
        | none => simp [optAcc_of_ne cDot r (by decide)]
        | some r' =>
          have := scanNumber_length h
          simp only [List.length_cons] at hs
          exact ih r' (by omega)
      · rw [if_neg hc, arcAcc_of_ne c r hc]

/-! ### the whole pattern -/

theorem tail_eq : anyRun (cat (star opt) eos) top = optAcc := by
  funext s
  rw [anyRun_cat, anyRun_eos_top]
  rfl

theorem accepts_pat (a : List Nat) :
    accepts pat a = (anyRun descr optAcc a || anyRun num arcAcc a) := by
  rw [accepts_eq_anyRun, pat, anyRun_cat, tail_eq, anyRun_alt, oid, anyRun_cat]
  rfl

theorem scanNumber_alpha (c : Nat) (r : List Nat) (h : isAlpha c = true) : scanNumber (c :: r) = none := by
  have h0 : c ≠ 48 := by intro hc; subst hc; revert h; decide
  have h1 : ¬ (49 ≤ c ∧ c ≤ 57) := by
    intro hc
    simp [isAlpha] at h
    omega
  simp [scanNumber, h0, h1]

theorem validAttr_eq_pat (a : List Nat) : validAttr a = accepts pat a := by
  rw [accepts_pat]
  cases a with
  | nil => simp [validAttr, descr, anyRun_cat, anyRun_num arcAcc arcAcc_dig, scanNumber]
  | cons c r =>
    rw [validAttr, descr, anyRun_cat, anyRun_cls_cons, anyRun_star_cls cKey optAcc optAcc_key,
      anyRun_num arcAcc arcAcc_dig, inCls_alpha, inCls_key]
    cases hA : isAlpha c
    · simp only [Bool.false_and, Bool.false_or, Bool.false_eq_true, if_false]
      cases h : scanNumber (c :: r) with
      | none => rfl
      | some r' =>
        have h1 := scanNumber_length h
        have h2 := scanArcs_length_le (c :: r).length r'
        simp only
        rw [arcAcc_eq_scan (c :: r).length r' (by omega), optAcc_eq_scan (c :: r).length _ (by omega)]
    · have hl : (r.dropWhile isKeyChar).length ≤ r.length := (List.dropWhile_suffix _).length_le
      rw [scanNumber_alpha c r hA]
      simp only [Bool.true_and, Bool.or_false, if_true]
      rw [optAcc_eq_scan (c :: r).length _ (by simp; omega)]

/-! ### the small patterns -/

def cHex : List (Nat × Nat) := [(48, 57), (65, 70), (97, 102)]

theorem inCls_hex (c : Nat) : inCls cHex c = isHex c := by
  rw [Bool.eq_iff_iff]
  simp [inCls, cHex, isHex, isDigit, or_assoc]

def cNotNl : List (Nat × Nat) := [(0, 9), (11, 255)]

theorem inCls_notNl (c : Nat) (h : c < 256) : inCls cNotNl c = (c != 10) := by
  rw [Bool.eq_iff_iff]
  simp [inCls, cNotNl]
  omega

end Verif.Proofs.Ties

namespace Verif.Proofs
open Verif Verif.Re Verif.Proofs.ReCost Verif.Proofs.Ties

theorem validAttr_eq_pattern (a : List Nat) :
    validAttr a = Re.accepts Regexes.filter_ATTRIBUTE_PATTERN a := by
  rw [pat_eq]
  exact validAttr_eq_pat a

theorem hex_eq_pattern (h1 h2 : Nat) :
    (isHex h1 && isHex h2) = Re.accepts Regexes.filter_HEX_PATTERN [h1, h2] := by
  have e : Regexes.filter_HEX_PATTERN = cat (cat (cls cHex) (cls cHex)) eosNl := rfl
  rw [e, accepts_eq_anyRun, anyRun_cat, anyRun_cat, anyRun_cls_cons, anyRun_cls_cons,
    anyRun_eosNl_top_nil, inCls_hex, inCls_hex, Bool.and_true]

/-- the finite table check behind `string_escape_class` (kernel evaluation, no axioms) -/
theorem escaped_table :
    (List.range 256).all (fun b =>
      inCls [(0, 31), (40, 42), (92, 92), (127, 255)] b == Facts.escapedBytes.contains b) = true := by
  decide +kernel

theorem string_escape_class (b : Nat) (hb : b < 256) :
    Re.accepts Regexes.filter_STRING_ESCAPE_PATTERN [b] = Facts.escapedBytes.contains b := by
  have e : Regexes.filter_STRING_ESCAPE_PATTERN = cls [(0, 31), (40, 42), (92, 92), (127, 255)] := rfl
  have h := List.all_eq_true.mp escaped_table b (List.mem_range.mpr hb)
  rw [e, accepts_eq_anyRun, anyRun_cls_cons]
  simpa [top] using h

theorem ldap_escape_match (r : List Nat) (hb : ∀ c ∈ r, c < 256) :
    Re.matchLen Regexes.filter_LDAP_ESCAPE_PATTERN (92 :: r) =
      some (1 + min 2 ((r.takeWhile (· != 10)).length)) := by
  have e : Regexes.filter_LDAP_ESCAPE_PATTERN =
      cat (cls [(92, 92)]) (alt (cat (cls cNotNl) (alt (cls cNotNl) eps)) eps) := rfl
  have h92 : inCls [(92, 92)] 92 = true := by decide
  rw [e, matchLen, runs_cat, runs_cls_cons, h92]
  simp only [if_true, List.flatMap_cons, List.flatMap_nil, List.append_nil]
  rw [runs_alt, runs_cat, runs_eps]
  match r, hb with
  | [], _ => simp
  | [a], hb =>
    have ha := inCls_notNl a (hb a (by simp))
    rw [runs_cls_cons, ha]
    by_cases h : a = 10
    · subst h; simp
    · simp [h, runs_alt]
  | a :: b :: r', hb =>
    have ha := inCls_notNl a (hb a (by simp))
    have hb' := inCls_notNl b (hb b (by simp))
    rw [runs_cls_cons, ha]
    by_cases h : a = 10
    · subst h; simp
    · by_cases h' : b = 10
      · subst h'; simp [h, runs_alt, inCls_notNl]
      · simp [h, h', runs_alt, hb']
        omega

end Verif.Proofs
