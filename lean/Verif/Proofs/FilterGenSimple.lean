/-
Tie of the generated `_unpack_simple_filter` (`Verif.FilterGen.unpack_simple_filter`) to the hand
model's `unpackSimple`.
-/
import Verif.Proofs.FilterGenHeader

namespace Verif.Proofs.FilterGen

open Verif Verif.FilterRt Verif.FilterGen
open Verif.Proofs.FilterTotal (indexOf_lt valueLen simpleBody unpackSimple_eq)

/-! ### the two scanning loops -/

theorem natCast_eq_lit (x n : Nat) : (((x : Nat) : Int) = (n : Int)) ↔ x = n := by omega

/-- `for i in range(len(current_view)): if chr(current_view[i]) == "=": equals_idx = i; break` -/
theorem for1_eq (cur : Bytes) : ∀ (n k : Nat) (e : Int), k + n = cur.length →
    unpack_simple_filter_for1 cur n (k : Int) e =
      .ok (match indexOf cEq (cur.drop k) with
        | some j => ((k + j : Nat) : Int)
        | none => e) := by
  intro n
  induction n with
  | zero =>
    intro k e hk
    have : cur.drop k = [] := List.drop_of_length_le (by omega)
    simp [unpack_simple_filter_for1, this, indexOf]
  | succ n ih =>
    intro k e hk
    have hk' : k < cur.length := by omega
    rw [unpack_simple_filter_for1, getItem_nat cur k hk']
    have hd : cur.drop k = cur.getD k 0 :: cur.drop (k + 1) := by
      rw [List.drop_eq_getElem_cons hk']; simp [List.getD_eq_getElem?_getD, hk']
    have e1 : ((k : Int) + 1) = ((k + 1 : Nat) : Int) := by omega
    simp only [bind_ok, hd, indexOf, e1]
    by_cases hc : cur.getD k 0 = cEq
    · have : ((cur.getD k 0 : Nat) : Int) = 61 := by rw [hc]; rfl
      rw [if_pos this, if_pos hc]; simp
    · have : ¬ ((cur.getD k 0 : Nat) : Int) = 61 := by
        intro h'; apply hc; have : cur.getD k 0 = 61 := by omega
        exact this
      rw [if_neg this, if_neg hc, ih (k + 1) e (by omega)]
      cases indexOf cEq (cur.drop (k + 1)) with
      | none => rfl
      | some j => simp only [Option.map_some]; congr 2; omega

/-- `for i in range(value_length): if chr(current_view[i + read]) == ")": value_length = i; break` -/
theorem for2_eq (cur : Bytes) (r : Nat) : ∀ (n k : Nat) (e : Int), r + k + n = cur.length →
    unpack_simple_filter_for2 cur (r : Int) n (k : Int) e =
      .ok (match indexOf cRParen (cur.drop (r + k)) with
        | some j => ((k + j : Nat) : Int)
        | none => e) := by
  intro n
  induction n with
  | zero =>
    intro k e hk
    have : cur.drop (r + k) = [] := List.drop_of_length_le (by omega)
    simp [unpack_simple_filter_for2, this, indexOf]
  | succ n ih =>
    intro k e hk
    have hk' : r + k < cur.length := by omega
    have e0 : ((k : Int) + (r : Int)) = ((r + k : Nat) : Int) := by omega
    rw [unpack_simple_filter_for2, e0, getItem_nat cur (r + k) hk']
    have hd : cur.drop (r + k) = cur.getD (r + k) 0 :: cur.drop (r + (k + 1)) := by
      rw [List.drop_eq_getElem_cons hk']; simp [List.getD_eq_getElem?_getD, hk', Nat.add_assoc]
    have e1 : ((k : Int) + 1) = ((k + 1 : Nat) : Int) := by omega
    simp only [bind_ok, hd, indexOf, e1]
    by_cases hc : cur.getD (r + k) 0 = cRParen
    · have : ((cur.getD (r + k) 0 : Nat) : Int) = 41 := by rw [hc]; rfl
      rw [if_pos this, if_pos hc]; simp
    · have : ¬ ((cur.getD (r + k) 0 : Nat) : Int) = 41 := by
        intro h'; apply hc; have : cur.getD (r + k) 0 = 41 := by omega
        exact this
      rw [if_neg this, if_neg hc, ih (k + 1) e (by omega)]
      cases indexOf cRParen (cur.drop (r + (k + 1))) with
      | none => rfl
      | some j => simp only [Option.map_some]; congr 2; omega

theorem for2_valueLen (cur : Bytes) (r : Nat) (hr : r ≤ cur.length) :
    unpack_simple_filter_for2 cur (r : Int) (rangeLen 0 ((cur.length : Int) - (r : Int))) 0
        ((cur.length : Int) - (r : Int))
      = .ok ((valueLen (cur.drop r) : Nat) : Int) := by
  have e1 : ((cur.length : Int) - (r : Int)) = ((cur.length - r : Nat) : Int) := by omega
  have z : (0 : Int) = ((0 : Nat) : Int) := rfl
  rw [e1, rangeLen_zero, z, for2_eq cur r (cur.length - r) 0 _ (by omega)]
  simp only [Nat.add_zero, Nat.zero_add, valueLen, List.length_drop]
  cases indexOf cRParen (cur.drop r) <;> rfl

/-! ### `_unpack_simple_filter` -/

theorem unpack_simple_filter_eq (view : Bytes) (off len : Nat) (h : off + len ≤ view.length) :
    unpack_simple_filter view (off : Int) (len : Int)
      = castRes (unpackSimple ((view.drop off).take len) off) := by
  unfold unpack_simple_filter
  simp only [slice_nat]
  have hlen := window_length view off len h
  generalize (view.drop off).take len = cur at hlen
  subst hlen
  rw [unpackSimple_eq]
  have hf1 := for1_eq cur cur.length 0 (-1) (by omega)
  simp only [List.drop_zero, Nat.zero_add] at hf1
  have z : ((0 : Nat) : Int) = 0 := rfl
  rw [z] at hf1
  simp only [len_eq, rangeLen_zero, hf1, bind_ok]
  cases hi : indexOf cEq cur with
  | none => simp
  | some eq =>
    have hlt := indexOf_lt hi
    rcases eq with _ | e
    · simp
    · have h0 : ¬ (((e + 1 : Nat) : Int) = 0) := by omega
      have hm1 : ¬ (((e + 1 : Nat) : Int) = -1) := by omega
      have hsub : (((e + 1 : Nat) : Int) - 1) = (e : Int) := by omega
      have hrd : (0 : Int) + (((e + 1 : Nat) : Int) + 1) = ((e + 2 : Nat) : Int) := by omega
      have hft : ∀ n : Nat, (some ((cur.getD e 0 : Nat) : Int) = some (n : Int)) ↔ cur.getD e 0 = n := by
        intro n; simp only [Option.some.injEq]; omega
      simp only [h0, hm1, if_false, hsub, hrd, getItem_nat cur e (by omega), bind_ok,
        for2_valueLen cur (e + 2) (by omega), Nat.add_sub_cancel, simpleBody]
      by_cases hlast : e + 1 = cur.length - 1
      · have : ((e + 1 : Nat) : Int) = (cur.length : Int) - 1 := by omega
        rw [if_pos this, if_pos hlast]; rfl
      · have : ¬ ((e + 1 : Nat) : Int) = (cur.length : Int) - 1 := by omega
        rw [if_neg this, if_neg hlast]
        simp only [slice_nat]
        generalize hvl : valueLen (cur.drop (e + 2)) = vl
        generalize hraw : (cur.drop (e + 2)).take vl = raw
        generalize cur.getD e 0 = ft
        have k58 : (some ((ft : Nat) : Int) = some (58 : Int)) ↔ ft = 58 := by
          simp only [Option.some.injEq]; omega
        have k62 : (some ((ft : Nat) : Int) = some (62 : Int)) ↔ ft = 62 := by
          simp only [Option.some.injEq]; omega
        have k60 : (some ((ft : Nat) : Int) = some (60 : Int)) ↔ ft = 60 := by
          simp only [Option.some.injEq]; omega
        have k126 : (some ((ft : Nat) : Int) = some (126 : Int)) ↔ ft = 126 := by
          simp only [Option.some.injEq]; omega
        have e1 : (((e + 1 : Nat) : Int) = 1) ↔ e = 0 := by omega
        have hva : ∀ a : Bytes, (validAttr a = true) ∨ (validAttr a = false) := by
          intro a; cases validAttr a <;> simp
        have hpos : ((off : Int) + ((e + 2 : Nat) : Int)) = ((off + (e + 1 + 1) : Nat) : Int) := by omega
        have hrd' : (((e + 2 : Nat) : Int) + (vl : Int)) = ((e + 1 + 1 + vl : Nat) : Int) := by omega
        simp only [k58, k62, k60, k126, e1, cColon, cGt, cLt, cTilde, cStar, hpos, hrd',
          unpack_filter_value_eq, unpack_filter_extensible_header_eq, ne_eq]
        by_cases ht : ft = 58 ∨ ft = 62 ∨ ft = 60 ∨ ft = 126
        · simp only [ht, if_true, true_and, true_or]
          have e11 : (e + 1 = 1) ↔ e = 0 := by omega
          simp only [e11]
          by_cases he : e = 0
          · simp [he]
          · simp only [he, if_false, bind_ok, Option.isSome_some, true_or, if_true, sliceTo_nat]
            have hm : ∀ n : Nat, n ≠ ft → ¬ (some ((ft : Nat) : Int) = some (n : Int)) := by
              intro n hn; simp only [Option.some.injEq]; omega
            rcases hva (cur.take e) with hv | hv
            · rcases hu : unescape (raw.length + 1) raw with _ | v
              · simp [hv, orSyntax]
              · simp only [hv, orSyntax, bind_ok, k58, k62, k60, k126]
                by_cases h58 : ft = 58
                · subst h58
                  rcases extHeader (List.take e cur) with _ | ⟨a, d, r⟩ <;> simp
                · by_cases h62 : ft = 62
                  · subst h62; simp
                  · by_cases h60 : ft = 60
                    · subst h60; simp
                    · have h126 : ft = 126 := by omega
                      subst h126; simp
            · by_cases h58 : ft = 58
              · subst h58
                rcases hu : unescape (raw.length + 1) raw with _ | v
                · simp [hv, orSyntax]
                · simp only [hv, orSyntax, bind_ok, k58]
                  rcases extHeader (List.take e cur) with _ | ⟨a, d, r⟩ <;> simp
              · have i58 : ¬ ((ft : Nat) : Int) = 58 := by omega
                simp [hv, h58, i58]
        · have n58 : ¬ ft = 58 := fun h => ht (Or.inl h)
          have ht3 : ¬ (ft = 62 ∨ ft = 60 ∨ ft = 126) := fun h => ht (Or.inr h)
          simp only [ht, ht3, if_false, false_and, false_or, bind_ok, n58, not_false_eq_true, true_and, sliceTo_nat]
          rcases hva (cur.take (e + 1)) with hv | hv
          · simp only [hv, Option.isSome_none, Bool.false_eq_true, false_or]
            by_cases hs : 42 ∈ raw
            · have hc : raw.contains 42 = true := by simpa using hs
              simp only [hs, not_true_eq_false, if_false, bind_ok, hc]
              by_cases hr : raw = [42]
              · simp [hr]
              · simp only [hr, if_false, unpack_filter_substrings_value_eq raw _ _ hs, if_true]
                rcases substringsValue raw with _ | ⟨i, a, f⟩ <;> simp [orSyntax]
            · have hc : raw.contains 42 = false := by simpa using hs
              have hr : ¬ raw = [42] := by intro h; apply hs; rw [h]; simp
              simp only [hs, not_false_eq_true, if_true, hc]
              rcases hu : unescape (raw.length + 1) raw with _ | v
              · simp [orSyntax]
              · have n62 : ¬ ft = 62 := fun h => ht3 (Or.inl h)
                have n60 : ¬ ft = 60 := fun h => ht3 (Or.inr (Or.inl h))
                have n126 : ¬ ft = 126 := fun h => ht3 (Or.inr (Or.inr h))
                simp [orSyntax, hr, n62, n60, n126]
          · simp [hv]

end Verif.Proofs.FilterGen
