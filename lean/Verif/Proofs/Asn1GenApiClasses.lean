/-
Tie proofs for the methods of `ASN1Reader` and `ASN1Writer` (generated text: `Generated/Asn1Gen.lean`,
state records `ASN1Reader = ⟨view⟩`, `ASN1Writer = ⟨data, tag, parent⟩`).  Statements:
`Props/TiesAsn1Api.lean`.
-/
import Verif.Proofs.Asn1GenApi
import Verif.Props.TiesAsn1More

namespace Verif.Proofs.Asn1Gen

open Verif Verif.PyRt Verif.Asn1Gen

/-! ### `ASN1Reader` -/

/-- the model's "(value, remaining bytes)" as the method's "(value, reader state afterwards)" -/
def readerOf {α : Type} (r : α × List Nat) : α × ASN1Reader := (r.1, ⟨r.2⟩)

/-- `val, consumed = _read_x(self._view, ..); self._view = self._view[consumed:]; return val`:
    the state afterwards is the model's remainder -/
theorem reader_advance {α : Type} (bs : List Nat) (x : Except Err (α × List Nat))
    (hx : ∀ a rest, x = .ok (a, rest) → rest = bs.drop (bs.length - rest.length)) :
    (x.map (consumedOfV bs) >>= fun r => match r with
      | (val, consumed) => Except.ok (val, ({ view := sliceFrom bs consumed } : ASN1Reader)))
      = x.map readerOf := by
  cases x with
  | error err => rfl
  | ok r =>
    obtain ⟨a, rest⟩ := r
    simp only [Except.map, bind_ok, consumedOfV, sliceFrom_nat, readerOf]
    rw [← hx a rest rfl]

theorem reader_read_boolean_of (fuel : Nat) (bs : List Nat) (tag : Option ASN1Tag) (header : Option ASN1Header)
    (e : Option Tag) (h : read_asn1_boolean fuel bs tag header = (readBool e bs).map (consumedOfV bs)) :
    ASN1Reader_read_boolean fuel ⟨bs⟩ tag header = (readBool e bs).map readerOf := by
  simp only [ASN1Reader_read_boolean, h]
  exact reader_advance bs _ (fun a rest hr => (readBool_rest e bs a rest hr).1)

theorem reader_read_integer_of (fuel : Nat) (bs : List Nat) (tag : Option ASN1Tag) (header : Option ASN1Header)
    (e : Option Tag) (h : read_asn1_integer fuel bs tag header = (readInt e bs).map (consumedOfV bs)) :
    ASN1Reader_read_integer fuel ⟨bs⟩ tag header = (readInt e bs).map readerOf := by
  simp only [ASN1Reader_read_integer, h]
  exact reader_advance bs _ (fun a rest hr => (readInt_rest e bs a rest hr).1)

theorem reader_read_octet_string_of (fuel : Nat) (bs : List Nat) (tag : Option ASN1Tag)
    (header : Option ASN1Header) (e : Option Tag)
    (h : read_asn1_octet_string fuel bs tag header = (readTLV e bs).map (consumedOf bs)) :
    ASN1Reader_read_octet_string fuel ⟨bs⟩ tag header = (readOctets e bs).map readerOf := by
  simp only [ASN1Reader_read_octet_string, h, consumedOf_eq_V, readOctets]
  exact reader_advance bs _ (fun a rest hr => (readTLV_rest e bs a rest hr).1)

/-- `read_enumerated`: the integer is read as by `readInt`, then `enum_type(val)` is applied -/
theorem reader_read_enumerated_of (fuel : Nat) (bs : List Nat) (enum_type : Int → Except Err Int)
    (tag : Option ASN1Tag) (header : Option ASN1Header) (e : Option Tag)
    (h : read_asn1_enumerated fuel bs tag header = (readInt e bs).map (consumedOfV bs)) :
    ASN1Reader_read_enumerated fuel ⟨bs⟩ enum_type tag header
      = (readInt e bs >>= fun r => (enum_type r.1).map (fun v => (v, (⟨r.2⟩ : ASN1Reader)))) := by
  simp only [ASN1Reader_read_enumerated, h]
  cases hr : readInt e bs with
  | error err => rfl
  | ok r =>
    obtain ⟨a, rest⟩ := r
    have := (readInt_rest e bs a rest hr).1
    simp only [Except.map, bind_ok, consumedOfV, sliceFrom_nat]
    rw [← this]
    cases enum_type a <;> rfl

/-- `read_sequence` / `read_set`: (reader over the content, state afterwards) -/
def readerPair (r : List Nat × List Nat) : ASN1Reader × ASN1Reader := (⟨r.1⟩, ⟨r.2⟩)

theorem reader_pair_advance (bs : List Nat) (e : Option Tag) :
    ((readTLV e bs).map (consumedOfV bs) >>= fun r => match r with
      | (new_view, consumed) =>
        (ASN1Reader_init new_view >>= fun t =>
          Except.ok (t, ({ view := sliceFrom bs consumed } : ASN1Reader))))
      = (readTLV e bs).map readerPair := by
  cases hr : readTLV e bs with
  | error err => rfl
  | ok r =>
    obtain ⟨a, rest⟩ := r
    have := (readTLV_rest e bs a rest hr).1
    simp only [Except.map, bind_ok, consumedOfV, sliceFrom_nat, readerPair, ASN1Reader_init]
    rw [← this]

theorem reader_read_sequence_of (fuel : Nat) (bs : List Nat) (tag : Option ASN1Tag)
    (header : Option ASN1Header) (e : Option Tag)
    (h : read_asn1_sequence fuel bs tag header = (readTLV e bs).map (consumedOf bs)) :
    ASN1Reader_read_sequence fuel ⟨bs⟩ tag header = (readTLV e bs).map readerPair := by
  simp only [ASN1Reader_read_sequence, h, consumedOf_eq_V]
  exact reader_pair_advance bs e

theorem reader_read_set_of (fuel : Nat) (bs : List Nat) (tag : Option ASN1Tag)
    (header : Option ASN1Header) (e : Option Tag)
    (h : read_asn1_set fuel bs tag header = (readTLV e bs).map (consumedOf bs)) :
    ASN1Reader_read_set fuel ⟨bs⟩ tag header = (readTLV e bs).map readerPair := by
  simp only [ASN1Reader_read_set, h, consumedOf_eq_V]
  exact reader_pair_advance bs e

theorem reader_skip_value_eq (bs : List Nat) (h : Header) :
    ASN1Reader_skip_value ⟨bs⟩ (ofHeader h) = .ok ⟨bs.drop (h.hlen + h.len)⟩ := by
  simp only [ASN1Reader_skip_value, ofHeader]
  rw [← Int.natCast_add, sliceFrom_nat]

/-- `header = reader.peek_header(); reader.skip_value(header)` is the model's `skipValue` -/
theorem reader_peek_skip (fuel : Nat) (bs : List Nat)
    (hh : read_asn1_header fuel bs = (readHeader bs).map ofHeader) :
    (ASN1Reader_peek_header fuel ⟨bs⟩ >>= fun h => ASN1Reader_skip_value ⟨bs⟩ h)
      = (skipValue bs).map (fun rest => (⟨rest⟩ : ASN1Reader)) := by
  simp only [ASN1Reader_peek_header, hh, skipValue]
  cases readHeader bs with
  | error err => rfl
  | ok h => simp only [Except.map, bind_ok]; exact reader_skip_value_eq bs h

/-! ### `ASN1Writer` -/

/-- `self._data.extend(_pack_x(..))` -/
theorem writer_extend (w : ASN1Writer) (x : Except Err (List Nat)) (out : List Nat) (h : x = .ok out) :
    (x >>= fun t => Except.ok ({ w with data := w.data ++ t } : ASN1Writer))
      = .ok { w with data := w.data ++ out } := by
  rw [h]; rfl

theorem writer_exit_eq (fuel : Nat) (child : List Nat) (t : Tag) (p : ASN1Writer) (hc : t.cls ≤ 3)
    (hnum : t.num < 31 ∨ (packOctetNumber t.num).length < fuel)
    (hlenf : child.length < 128 ∨ (packLen child.length).length ≤ fuel) (hlen : child.length < 256 ^ 127) :
    ASN1Writer_exit fuel ⟨child, some (ofTag t), some p⟩
      = .ok ⟨child, some (ofTag t), some { p with data := p.data ++ packTLV t child }⟩ := by
  simp only [ASN1Writer_exit, pack_asn1_ofTag_sz fuel t child hc hnum hlenf hlen, bind_ok]

/-- `with w.push_x(tag) as c: BODY` when BODY leaves the child with buffer `child` -/
theorem writer_with_of (fuel : Nat) (w : ASN1Writer) (t : Tag) (child : List Nat)
    (push : Except Err ASN1Writer) (body : ASN1Writer → Except Err ASN1Writer)
    (hpush : push = .ok ⟨[], some (ofTag t), some w⟩)
    (hbody : body ⟨[], some (ofTag t), some w⟩ = .ok ⟨child, some (ofTag t), some w⟩)
    (hc : t.cls ≤ 3) (hnum : t.num < 31 ∨ (packOctetNumber t.num).length < fuel)
    (hlenf : child.length < 128 ∨ (packLen child.length).length ≤ fuel) (hlen : child.length < 256 ^ 127) :
    (do
      let w_ ← push
      let w_ ← ASN1Writer_enter w_
      let w_ ← body w_
      let w_ ← ASN1Writer_exit fuel w_
      match w_.parent with
      | none => Except.ok w
      | some self => Except.ok self)
      = .ok { w with data := w.data ++ packTLV t child } := by
  simp only [hpush, ASN1Writer_enter, bind_ok, hbody, writer_exit_eq fuel child t w hc hnum hlenf hlen]

end Verif.Proofs.Asn1Gen
