/-
The parts only AttributeTypeDescription has: SYNTAX (noidlen, bare or quoted) and USAGE.
-/
import Verif.Proofs.SchemaSteps

namespace Verif.Proofs.SchemaG
open Verif Verif.Schema Verif.Rfc4512 Verif.Rfc4515

/-! ### `str(n)` and `int(text)` -/

theorem natDigits_eq (n : Nat) :
    natDigits n = if n < 10 then [48 + n] else natDigits (n / 10) ++ [48 + n % 10] := by
  unfold natDigits
  rw [Nat.toString_eq_repr, Nat.toList_repr, Nat.toDigits_eq_if (by decide)]
  split
  · next h => simp [Nat.toNat_digitChar_of_lt_ten h]
  · rw [Nat.toString_eq_repr, Nat.toList_repr]
    simp [Nat.toNat_digitChar_of_lt_ten (Nat.mod_lt n (by decide : 0 < 10))]

theorem natDigits_pos (n : Nat) (hn : 1 ≤ n) :
    ∃ c r, natDigits n = c :: r ∧ 49 ≤ c ∧ c ≤ 57 ∧ ∀ x ∈ r, 48 ≤ x ∧ x ≤ 57 := by
  induction n using Nat.strongRecOn with
  | _ n ih =>
    rw [natDigits_eq]
    split
    · exact ⟨48 + n, [], rfl, by omega, by omega, by simp⟩
    · obtain ⟨c, r, hr, h1, h2, h3⟩ := ih (n / 10) (by omega) (by omega)
      refine ⟨c, r ++ [48 + n % 10], by rw [hr]; rfl, h1, h2, ?_⟩
      intro x hx
      rcases List.mem_append.1 hx with hx | hx
      · exact h3 x hx
      · simp at hx; omega

theorem natDigits_isNumber (n : Nat) : IsNumber (natDigits n) := by
  rw [natDigits_eq]
  split
  · exact ⟨by omega, by omega⟩
  · obtain ⟨c, r, hr, h1, h2, h3⟩ := natDigits_pos (n / 10) (by omega)
    rw [hr]
    cases r with
    | nil =>
      show IsNumber [c, 48 + n % 10]
      exact ⟨h1, h2, by intro x hx; simp at hx; omega⟩
    | cons d r =>
      show IsNumber (c :: d :: (r ++ [48 + n % 10]))
      refine ⟨h1, h2, ?_⟩
      intro x hx
      simp only [List.mem_cons, List.mem_append, List.not_mem_nil, or_false] at hx
      rcases hx with rfl | hx | rfl
      · exact h3 _ (by simp)
      · exact h3 _ (by simp [hx])
      · omega

theorem digitsVal_append (l : Str) (c : Nat) : digitsVal (l ++ [c]) = digitsVal l * 10 + (c - 48) := by
  simp [digitsVal]

theorem digitsVal_natDigits (n : Nat) : digitsVal (natDigits n) = n := by
  induction n using Nat.strongRecOn with
  | _ n ih =>
    rw [natDigits_eq]
    split
    · simp [digitsVal]
    · rw [digitsVal_append, ih (n / 10) (by omega)]; omega

/-! ### SYNTAX -/

def lenText : Option Nat → Str
  | none => []
  | some n => [123] ++ natDigits n ++ [125]

theorem lenText_chars (len : Option Nat) : ∀ c ∈ lenText len, c ≠ 39 ∧ c ≠ 92 := by
  cases len with
  | none => simp [lenText]
  | some n =>
    intro c hc
    simp only [lenText, List.mem_append, List.mem_singleton] at hc
    rcases hc with (rfl | hc) | rfl
    · decide
    · have := isNumber_digits (natDigits_isNumber n) c hc
      simp only [Schema.isDigit, Bool.and_eq_true, decide_eq_true_eq] at this
      omega
    · decide

theorem noid_chars {v : Str} (hv : IsNumericOidText v) : ∀ c ∈ v, c ≠ 39 ∧ c ≠ 92 := by
  intro c hc
  rcases numericoid_chars hv c hc with h | rfl
  · simp only [Schema.isDigit, Bool.and_eq_true, decide_eq_true_eq] at h; omega
  · decide

theorem stop_lenText (len : Option Nat) {R : Str} (hR : Stop isOidCh R) : Stop isOidCh (lenText len ++ R) := by
  cases len with
  | none => exact hR
  | some n => exact stop_cons (by decide)

theorem noidlen_scan {v : Str} (hv : IsNumericOidText v) (len : Option Nat) {R : Str} (hR : Delim R) :
    noidlen (v ++ lenText len ++ R) = some R := by
  rw [List.append_assoc, noidlen, numericoid_scan hv (stop_lenText len (delim_stop_oid hR))]
  cases len with
  | none =>
    cases R with
    | nil => rfl
    | cons c r =>
      have : c ≠ LCURLY := by rcases hR with rfl | rfl <;> decide
      simp [lenText, this]
  | some n =>
    have hnum : number (natDigits n ++ 125 :: R) = some (125 :: R) :=
      number_scan (natDigits_isNumber n) _ (stop_cons (by decide))
    simp [lenText, LCURLY, RCURLY, hnum]

theorem noidlenMatch_inner {v : Str} (hv : IsNumericOidText v) (len : Option Nat) :
    noidlenMatch (v ++ lenText len) = len.map (fun n => (v, natDigits n)) := by
  cases len with
  | none =>
    have := numericoid_scan hv (rest := []) trivial
    rw [noidlenMatch, lenText, this]
    rfl
  | some n =>
    have h1 := numericoid_scan hv (rest := 123 :: (natDigits n ++ [125])) (stop_cons (by decide))
    have hnum : number (natDigits n ++ [125]) = some [125] :=
      number_scan (natDigits_isNumber n) _ (stop_cons (by decide))
    rw [noidlenMatch, show v ++ lenText (some n) = v ++ 123 :: (natDigits n ++ [125]) by simp [lenText], h1]
    simp only [LCURLY, RCURLY, if_true, hnum, consumed_append]
    simp

theorem qdEnc_raw (t : Str) (h : ∀ c ∈ t, c ≠ 39 ∧ c ≠ 92) : QdEnc t t := by
  induction t with
  | nil => exact .nil
  | cons c t ih =>
    exact .raw c t t (h c (by simp)).1 (h c (by simp)).2 (ih fun x hx => h x (List.mem_cons_of_mem _ hx))

theorem inner_chars {v : Str} (hv : IsNumericOidText v) (len : Option Nat) :
    ∀ c ∈ v ++ lenText len, c ≠ 39 ∧ c ≠ 92 := by
  intro c hc
  rcases List.mem_append.1 hc with hc | hc
  · exact noid_chars hv c hc
  · exact lenText_chars len c hc

theorem inner_ne_nil {v : Str} (hv : IsNumericOidText v) (len : Option Nat) : v ++ lenText len ≠ [] := by
  obtain ⟨c, r, rfl, _⟩ := numericoid_head hv
  simp

theorem noidlen_quote (s : Str) : noidlen (39 :: s) = none := by
  have : number (39 :: s) = none := by
    unfold number
    rw [List.takeWhile_cons_of_neg (by decide)]
  rw [noidlen, numericoid, this]

/-- the post-processing of the `syntax` group in `AttributeTypeDescription.from_string` -/
def synPost (syn : Option Str) : Option Str × Option Nat :=
  match syn with
  | none => (none, none)
  | some raw =>
    if raw.isEmpty then (none, none) else
    let st := stripChars [QUOTE] raw
    match noidlenMatch st with
    | some (v, l) => (some (stripChars [QUOTE] v), some (digitsVal l))
    | none => (if st.isEmpty then none else some (stripChars [QUOTE] st), none)

theorem synPost_body {v : Str} (hv : IsNumericOidText v) (len : Option Nat) (body : Str)
    (hne : body.isEmpty = false) (hs : stripChars [QUOTE] body = v ++ lenText len) :
    synPost (some body) = (some v, len) := by
  have hvs : stripChars [QUOTE] v = v :=
    stripChars_none _ _ (fun c hc => by have := noid_chars hv c hc; simp [QUOTE]; omega)
  unfold synPost
  simp only [hne, Bool.false_eq_true, if_false, hs, noidlenMatch_inner hv len]
  cases len with
  | none =>
    have h2 : (v ++ lenText none).isEmpty = false := by
      obtain ⟨c, r, rfl, _⟩ := numericoid_head hv; rfl
    simp only [Option.map_none, h2, Bool.false_eq_true, if_false]
    rw [show v ++ lenText none = v by simp [lenText], hvs]
  | some n =>
    simp only [Option.map_some, hvs, digitsVal_natDigits]

theorem syntax_step {syn : Option Str} {len : Option Nat} {t : Str} (h : SyntaxPart syn len t)
    {W : List Str} {R : Str} (hF : Follow W R) (hW : okW (ofString "SYNTAX") W = true) :
    ∃ g, optKw "SYNTAX" syntaxBody (t ++ R) = (g, R) ∧ synPost g = (syn, len) := by
  cases syn with
  | none =>
    obtain ⟨rfl, rfl⟩ := h
    exact ⟨none, optKw_absent _ _ hF hW, rfl⟩
  | some v =>
    obtain ⟨hv, a, b, q, rfl⟩ := h
    change ∃ g, optKw "SYNTAX" syntaxBody ((spT a ++ ofString "SYNTAX" ++ spT b ++
      if q = true then [39] ++ (v ++ lenText len) ++ [39] else v ++ lenText len) ++ R) = (g, R) ∧ _
    have hin := inner_chars hv len
    cases q with
    | false =>
      simp only [Bool.false_eq_true, if_false]
      have hnsp : NSp (v ++ lenText len) := nsp_append (oid_nsp (Or.inr hv))
      refine ⟨some (v ++ lenText len), optKw_present "SYNTAX" _ a b (by decide) hnsp ?_, ?_⟩
      · rw [syntaxBody, noidlen_scan hv len (follow_delim hF)]
      · apply synPost_body hv len
        · obtain ⟨c, r, rfl, _⟩ := numericoid_head hv; rfl
        · exact stripChars_none _ _ (fun c hc => by have := hin c hc; simp [QUOTE]; omega)
    | true =>
      simp only [if_true]
      have hq : QdString (v ++ lenText len) ([39] ++ (v ++ lenText len) ++ [39]) :=
        ⟨inner_ne_nil hv len, _, qdEnc_raw _ hin, rfl⟩
      refine ⟨some ([39] ++ (v ++ lenText len) ++ [39]),
        optKw_present "SYNTAX" _ a b (by decide) (nsp_cons (by decide)) ?_, ?_⟩
      · rw [syntaxBody, show [39] ++ (v ++ lenText len) ++ [39] ++ R = 39 :: ((v ++ lenText len) ++ [39] ++ R) by simp,
          noidlen_quote]
        have := qdstring_scan hq R
        simpa using this
      · apply synPost_body hv len
        · rfl
        · have hc : ∀ c ∈ v ++ lenText len, [QUOTE].contains c = false :=
            fun c hc => by have := hin c hc; simp [QUOTE]; omega
          exact stripChars_mid [QUOTE] [39] _ [39] (by simp [QUOTE]) (by simp [QUOTE])
            (fun c hh => hc c (List.mem_of_mem_head? hh)) (fun c hh => hc c (List.mem_of_mem_getLast? hh))

/-! ### USAGE -/

theorem findWord (pre : List String) (kw : String) (post : List String) (rest : Str)
    (hpre : (pre.all fun p => clash (ofString p) (ofString kw)) = true) :
    ((pre ++ kw :: post).find? (fun a => (ofString a).isPrefixOf (ofString kw ++ rest))).map
      (fun a => (ofString kw ++ rest).drop a.length) = some rest := by
  have : List.find? (fun a => (ofString a).isPrefixOf (ofString kw ++ rest)) (pre ++ kw :: post) = some kw := by
    rw [List.find?_append, List.find?_eq_none.2, Option.none_or, List.find?_cons_of_pos]
    · exact isPrefixOf_append_self _ _
    · intro x hx
      have := (List.all_eq_true.1 hpre) x hx
      simp [clash_isPrefixOf this rest]
  simp only [this, Option.map_some, ← ofString_length, List.drop_left]

theorem usage_step {u : Nat} {t : Str} (h : UsagePart u t) {W : List Str} {R : Str}
    (hF : Follow W R) (hW : okW (ofString "USAGE") W = true) :
    ∃ g, optKw "USAGE" (fun t =>
        (["userApplications", "directoryOperation", "distributedOperation", "dSAOperation"].find?
          (fun a => (ofString a).isPrefixOf t)).map (fun a => t.drop a.length)) (t ++ R) = (g, R) ∧
      (if g = some (ofString "directoryOperation") then 1
       else if g = some (ofString "distributedOperation") then 2
       else if g = some (ofString "dSAOperation") then 3 else 0) = u := by
  obtain ⟨hu, ⟨rfl, rfl⟩ | ⟨a, b, rfl⟩⟩ := h
  · exact ⟨none, optKw_absent _ _ hF hW, by simp⟩
  · have : u = 0 ∨ u = 1 ∨ u = 2 ∨ u = 3 := by omega
    rcases this with rfl | rfl | rfl | rfl
    · exact ⟨_, optKw_present "USAGE" _ a b (by decide) (nsp_of_hdNSp (by decide))
        (findWord [] "userApplications" _ R (by decide)), by decide⟩
    · exact ⟨_, optKw_present "USAGE" _ a b (by decide) (nsp_of_hdNSp (by decide))
        (findWord ["userApplications"] "directoryOperation" _ R (by decide)), by decide⟩
    · exact ⟨_, optKw_present "USAGE" _ a b (by decide) (nsp_of_hdNSp (by decide))
        (findWord ["userApplications", "directoryOperation"] "distributedOperation" _ R (by decide)), by decide⟩
    · exact ⟨_, optKw_present "USAGE" _ a b (by decide) (nsp_of_hdNSp (by decide))
        (findWord ["userApplications", "directoryOperation", "distributedOperation"] "dSAOperation" _ R (by decide)),
        by decide⟩

end Verif.Proofs.SchemaG
