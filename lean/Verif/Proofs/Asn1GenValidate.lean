/-
Tie proofs for `_validate_tag` and `_read_asn1_boolean`, relative to the tie of `_read_asn1_header`
(`Asn1GenHeader.lean`); the instantiated statements are in `Props/TiesAsn1.lean`.
-/
import Verif.Generated.Asn1Gen
import Verif.Proofs.Asn1GenConv

namespace Verif.Proofs.Asn1Gen

open Verif Verif.PyRt Verif.Asn1Gen

/-- what `_validate_tag` does once it has a header (its own or the caller's) -/
def validateWith (bs : List Nat) (exp : ASN1Tag) (h : Header) : Except Err (List Nat × Int) :=
  if ofTag h.tag ≠ exp then .error .valueError
  else if (bs.drop h.hlen).length < h.len then .error .notEnough
  else .ok ((bs.drop h.hlen).take h.len, ((h.hlen + h.len : Nat) : Int))

/-- (content, remaining bytes) of the model as (content, octets consumed) of the code -/
def consumedOf (bs : List Nat) (r : List Nat × List Nat) : List Nat × Int :=
  (r.1, ((bs.length - r.2.length : Nat) : Int))

theorem validate_tag_some (fuel : Nat) (bs : List Nat) (exp : ASN1Tag) (h : Header) :
    validate_tag fuel bs exp (some (ofHeader h)) = validateWith bs exp h := by
  simp only [validate_tag, bind_ok, ofHeader, validateWith, sliceFrom_nat, sliceTo_nat, len_eq]
  by_cases ht : ofTag h.tag = exp
  · simp only [ht, ne_eq, not_true_eq_false, ↓reduceIte]
    by_cases hl : (bs.drop h.hlen).length < h.len
    · have : (((bs.drop h.hlen).length : Nat) : Int) < (h.len : Int) := by omega
      simp only [this, hl, ↓reduceIte]
    · have : ¬ ((((bs.drop h.hlen).length : Nat) : Int) < (h.len : Int)) := by omega
      simp only [this, hl, ↓reduceIte, Int.natCast_add]
  · simp only [ne_eq, ht, not_false_eq_true, ↓reduceIte]

theorem validate_tag_none (fuel : Nat) (bs : List Nat) (exp : ASN1Tag)
    (hh : read_asn1_header fuel bs = (readHeader bs).map ofHeader) :
    validate_tag fuel bs exp none
      = (match readHeader bs with | .error e => .error e | .ok h => validateWith bs exp h) := by
  have hs := fun h => validate_tag_some fuel bs exp h
  simp only [validate_tag, bind_ok] at hs ⊢
  rw [hh]
  cases hr : readHeader bs with
  | error e => rfl
  | ok h => simp only [Except.map, bind_ok]; exact hs h

/-- `validateWith` against the model's `readTLV` when the header is the one `readHeader` finds -/
theorem validateWith_readTLV (bs : List Nat) (t : Tag) (h : Header) (hr : readHeader bs = .ok h) :
    validateWith bs (ofTag t) h = (readTLV (some t) bs).map (consumedOf bs) := by
  have hbnd := (readHeader_hlen_bounds bs h hr).2
  simp only [validateWith, readTLV, hr, ne_eq, ofTag_inj]
  by_cases ht : h.tag = t
  · simp only [ht, not_true_eq_false, ↓reduceIte, decide_false, Bool.false_eq_true]
    by_cases hl : (bs.drop h.hlen).length < h.len
    · simp only [hl, ↓reduceIte, Except.map]
    · simp only [List.length_drop] at hl
      simp only [List.length_drop, hl, ↓reduceIte, Except.map, consumedOf]
      have : bs.length - (bs.length - h.hlen - h.len) = h.hlen + h.len := by omega
      rw [this]
  · simp only [ht, not_false_eq_true, ↓reduceIte, decide_true, Except.map]

theorem validateWith_readTLV_none (bs : List Nat) (h : Header) (hr : readHeader bs = .ok h) :
    validateWith bs (ofTag h.tag) h = (readTLV none bs).map (consumedOf bs) := by
  have hbnd := (readHeader_hlen_bounds bs h hr).2
  simp only [validateWith, readTLV, hr, ne_eq, not_true_eq_false, ↓reduceIte, Bool.false_eq_true]
  by_cases hl : (bs.drop h.hlen).length < h.len
  · simp only [hl, ↓reduceIte, Except.map]
  · simp only [List.length_drop] at hl
    simp only [List.length_drop, hl, ↓reduceIte, Except.map, consumedOf]
    have : bs.length - (bs.length - h.hlen - h.len) = h.hlen + h.len := by omega
    rw [this]

/-- `_validate_tag(data, tag)` (no header given) against `readTLV (some tag)` -/
theorem validate_tag_eq_of (fuel : Nat) (bs : List Nat) (t : Tag)
    (hh : read_asn1_header fuel bs = (readHeader bs).map ofHeader) :
    validate_tag fuel bs (ofTag t) none = (readTLV (some t) bs).map (consumedOf bs) := by
  rw [validate_tag_none fuel bs _ hh]
  cases hr : readHeader bs with
  | error e => simp [readTLV, hr, Except.map]
  | ok h => exact validateWith_readTLV bs t h hr

/-- `_validate_tag(data, tag, header=peek_header())` -/
theorem validate_tag_header_eq (fuel : Nat) (bs : List Nat) (t : Tag) (h : Header)
    (hr : readHeader bs = .ok h) :
    validate_tag fuel bs (ofTag t) (some (ofHeader h)) = (readTLV (some t) bs).map (consumedOf bs) := by
  rw [validate_tag_some, validateWith_readTLV bs t h hr]

/-- `_validate_tag(data, header.tag, header=header)`: the call shape `read_x(header=h)`, model `expect = none` -/
theorem validate_tag_header_own (fuel : Nat) (bs : List Nat) (h : Header)
    (hr : readHeader bs = .ok h) :
    validate_tag fuel bs (ofHeader h).tag (some (ofHeader h)) = (readTLV none bs).map (consumedOf bs) := by
  rw [validate_tag_some]; exact validateWith_readTLV_none bs h hr

/-- content returned by the model reader is a sub-list of the input -/
theorem readTLV_content_isBytes (e : Option Tag) (bs c rest : List Nat) (hb : IsBytes bs)
    (hr : readTLV e bs = .ok (c, rest)) : IsBytes c := by
  obtain ⟨h, _, _, _, hc, _⟩ := readTLV_ok e bs c rest hr
  subst hc
  intro b hbm
  exact hb b (List.mem_of_mem_drop (List.mem_of_mem_take hbm))

/-! ### `_read_asn1_boolean` -/

theorem bool_bind_map (x : Except Err (List Nat × Int)) :
    (x >>= fun r => match r with | (a, b) => Except.ok (decide (a ≠ [0]), b))
      = x.map (fun r => (decide (r.1 ≠ [0]), r.2)) := by
  cases x <;> rfl

theorem read_asn1_boolean_of_validate (fuel : Nat) (data : List Nat) (tag : Option ASN1Tag)
    (header : Option ASN1Header) :
    read_asn1_boolean fuel data tag header
      = (validate_tag fuel data (selTag tag header 1) header).map (fun r => (decide (r.1 ≠ [0]), r.2)) := by
  cases tag <;> cases header <;>
    simp only [read_asn1_boolean, selTag, ASN1Tag_universal_tag, bind_ok] <;>
    exact bool_bind_map _

end Verif.Proofs.Asn1Gen
