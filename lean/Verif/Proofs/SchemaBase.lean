/-
Shared list / scanner facts for the schema grammar proofs (C16, C17): stop conditions,
spaces, `lit`, keyword clashes, `stripChars`, `Schema.splitOn`, numbers, numeric OIDs, descriptors.
-/
import Verif.Spec.Rfc4512

namespace Verif.Proofs.SchemaG
open Verif Verif.Schema Verif.Rfc4512 Verif.Rfc4515

/-! ### stop conditions -/

/-- the head of the string (if any) does not satisfy `p` -/
def Stop (p : Nat → Bool) : Str → Prop
  | [] => True
  | c :: _ => p c = false

theorem stop_cons {p : Nat → Bool} {c : Nat} {r : Str} (h : p c = false) : Stop p (c :: r) := h

theorem dropWhile_stop {p : Nat → Bool} {rest : Str} (h : Stop p rest) : rest.dropWhile p = rest := by
  cases rest with
  | nil => rfl
  | cons c r => rw [List.dropWhile_cons_of_neg (by simpa [Stop] using h)]

theorem takeWhile_stop {p : Nat → Bool} {rest : Str} (h : Stop p rest) : rest.takeWhile p = [] := by
  cases rest with
  | nil => rfl
  | cons c r => rw [List.takeWhile_cons_of_neg (by simpa [Stop] using h)]

theorem dropWhile_append_stop {p : Nat → Bool} {t rest : Str} (ht : ∀ x ∈ t, p x = true) (h : Stop p rest) :
    (t ++ rest).dropWhile p = rest := by
  rw [List.dropWhile_append_of_pos ht, dropWhile_stop h]

theorem takeWhile_append_stop {p : Nat → Bool} {t rest : Str} (ht : ∀ x ∈ t, p x = true) (h : Stop p rest) :
    (t ++ rest).takeWhile p = t := by
  rw [List.takeWhile_append_of_pos ht, takeWhile_stop h, List.append_nil]

/-- the string starts with a character other than a space (in particular it is not empty) -/
def NSp : Str → Prop
  | [] => False
  | c :: _ => c ≠ 32

theorem nsp_cons {c : Nat} {r : Str} (h : c ≠ 32) : NSp (c :: r) := h

theorem nsp_append {t r : Str} (h : NSp t) : NSp (t ++ r) := by
  cases t with
  | nil => exact h.elim
  | cons c t => exact h

/-! ### spaces -/

theorem wspT_succ (n : Nat) : wspT (n + 1) = 32 :: wspT n := rfl
theorem spT_eq (n : Nat) : spT n = 32 :: wspT n := rfl
theorem wspT_zero : wspT 0 = [] := rfl

theorem mem_wspT {n c : Nat} (h : c ∈ wspT n) : c = 32 := by
  simp only [wspT, List.mem_replicate] at h; exact h.2

theorem wsp_nsp {s : Str} (h : NSp s) : wsp s = s := by
  cases s with
  | nil => exact h.elim
  | cons c r => rw [wsp, List.dropWhile_cons_of_neg]; simpa [SPC, NSp] using h

theorem wsp_wspT (n : Nat) (s : Str) : wsp (wspT n ++ s) = wsp s := by
  induction n with
  | zero => rfl
  | succ n ih => rw [wspT_succ, List.cons_append, wsp, List.dropWhile_cons_of_pos (by simp [SPC])]; exact ih

theorem wsp_wspT_nsp (n : Nat) {s : Str} (h : NSp s) : wsp (wspT n ++ s) = s := by
  rw [wsp_wspT, wsp_nsp h]

theorem lstripSp_eq_wsp (s : Str) : lstripSp s = wsp s := rfl

theorem sp1_spT (n : Nat) {s : Str} (h : NSp s) : sp1 (spT n ++ s) = some s := by
  rw [spT_eq, List.cons_append, sp1, if_pos (show (32 : Nat) = SPC from rfl), wsp_wspT_nsp n h]

theorem sp1_nsp {s : Str} (h : NSp s) : sp1 s = none := by
  cases s with
  | nil => rfl
  | cons c r => rw [sp1, if_neg (by simpa [SPC, NSp] using h)]

/-! ### literals and keyword clashes -/

theorem isPrefixOf_append_self (w r : Str) : w.isPrefixOf (w ++ r) = true := by
  induction w with
  | nil => simp
  | cons c w ih => simp [ih]

theorem lit_self (w r : Str) : lit w (w ++ r) = some r := by
  rw [lit, if_pos (isPrefixOf_append_self w r), List.drop_left]

/-- two words differ at a position where both are defined -/
def clash : Str → Str → Bool
  | a :: as, b :: bs => a != b || clash as bs
  | _, _ => false

theorem clash_isPrefixOf {K w : Str} (h : clash K w = true) (x : Str) : K.isPrefixOf (w ++ x) = false := by
  induction K generalizing w with
  | nil => simp [clash] at h
  | cons a as ih =>
    cases w with
    | nil => simp [clash] at h
    | cons b bs =>
      simp only [clash, Bool.or_eq_true, bne_iff_ne, ne_eq] at h
      simp only [List.cons_append, List.isPrefixOf, Bool.and_eq_false_iff, beq_eq_false_iff_ne, ne_eq]
      by_cases hab : a = b
      · exact Or.inr (ih (h.resolve_left (fun hn => hn hab)))
      · exact Or.inl hab

theorem lit_clash {K w : Str} (h : clash K w = true) (x : Str) : lit K (w ++ x) = none := by
  rw [lit, if_neg (by simp [clash_isPrefixOf h x])]

/-- first character is not a space -/
def hdNSp : Str → Bool
  | [] => false
  | c :: _ => c != 32

theorem nsp_of_hdNSp {w : Str} (h : hdNSp w = true) : NSp w := by
  cases w with
  | nil => simp [hdNSp] at h
  | cons c r => simpa [hdNSp, NSp] using h

/-! ### what may follow a part: spaces then one of the words `W`; no space only before `)` -/

def Follow (W : List Str) (s : Str) : Prop :=
  ∃ a w t, w ∈ W ∧ s = wspT a ++ w ++ t ∧ (a = 0 → w = [41])

/-- a present optional part: `SP word …` -/
def Lead (V : List Str) (t : Str) : Prop := ∃ a w t', w ∈ V ∧ t = spT a ++ w ++ t'

theorem follow_base (W : List Str) (h : [41] ∈ W) (n : Nat) (x : Str) : Follow W (wspT n ++ [41] ++ x) :=
  ⟨n, [41], x, h, rfl, fun _ => rfl⟩

theorem follow_part {V W : List Str} {t rest : Str} (ht : t = [] ∨ Lead V t) (h : Follow W rest) :
    Follow (V ++ W) (t ++ rest) := by
  rcases ht with rfl | ⟨a, w, t', hw, rfl⟩
  · obtain ⟨a, w, t, hw, rfl, ha⟩ := h
    exact ⟨a, w, t, List.mem_append_right _ hw, rfl, ha⟩
  · exact ⟨a + 1, w, t' ++ rest, List.mem_append_left _ hw, by simp [spT_eq, wspT_succ], by omega⟩

theorem follow_nil_part {W : List Str} {t rest : Str} (ht : t = []) (h : Follow W rest) : Follow W (t ++ rest) := by
  subst ht; exact h

/-- a follow string starts with a space or `)` -/
def Delim : Str → Prop
  | c :: _ => c = 32 ∨ c = 41
  | [] => False

theorem follow_delim {W : List Str} {s : Str} (h : Follow W s) : Delim s := by
  obtain ⟨a, w, t, _, rfl, ha⟩ := h
  cases a with
  | zero => rw [ha rfl]; exact Or.inr rfl
  | succ n => exact Or.inl rfl

theorem delim_stop {p : Nat → Bool} {s : Str} (h : Delim s) (h1 : p 32 = false) (h2 : p 41 = false) : Stop p s := by
  cases s with
  | nil => trivial
  | cons c r => rcases h with rfl | rfl <;> assumption

/-- all words of `W` clash with `K` and start with a non-space -/
def okW (K : Str) (W : List Str) : Bool := W.all fun w => clash K w && hdNSp w

theorem okW_mem {K : Str} {W : List Str} (h : okW K W = true) {w : Str} (hw : w ∈ W) :
    clash K w = true ∧ hdNSp w = true := by
  simp only [okW, List.all_eq_true, Bool.and_eq_true] at h
  exact h w hw

/-- at a follow string whose words clash with `K`, `SP K` does not match -/
theorem sp1_lit_follow {K : Str} {W : List Str} {s : Str} (h : Follow W s) (hW : okW K W = true) :
    (sp1 s).bind (lit K) = none := by
  obtain ⟨a, w, t, hw, rfl, ha⟩ := h
  obtain ⟨hc, hn⟩ := okW_mem hW hw
  cases a with
  | zero => rw [ha rfl]; rfl
  | succ n =>
    rw [List.append_assoc, show wspT (n + 1) = spT n from rfl, sp1_spT n (nsp_append (nsp_of_hdNSp hn))]
    exact lit_clash hc t

/-! ### `consumed` -/

theorem consumed_append (t rest : Str) : consumed (t ++ rest) rest = t := by
  simp [consumed]

/-! ### `stripChars` -/

theorem stripChars_mid (chars : List Nat) (pre mid post : Str)
    (hpre : ∀ c ∈ pre, chars.contains c = true) (hpost : ∀ c ∈ post, chars.contains c = true)
    (hhead : ∀ c, mid.head? = some c → chars.contains c = false)
    (hlast : ∀ c, mid.getLast? = some c → chars.contains c = false) :
    stripChars chars (pre ++ mid ++ post) = mid := by
  unfold stripChars
  rw [List.append_assoc, List.dropWhile_append_of_pos hpre]
  cases mid with
  | nil =>
    have : List.dropWhile chars.contains ([] ++ post) = [] := by
      have h := List.dropWhile_append_of_pos (p := chars.contains) (l₂ := []) hpost
      simpa using h
    rw [this]; rfl
  | cons c r =>
    rw [List.cons_append, List.dropWhile_cons_of_neg (by rw [hhead c rfl]; exact Bool.false_ne_true)]
    rw [← List.cons_append, List.reverse_append,
      List.dropWhile_append_of_pos (fun x hx => hpost x (List.mem_reverse.1 hx))]
    have hne : (c :: r).reverse ≠ [] := by simp
    obtain ⟨z, zs, hz⟩ := List.exists_cons_of_ne_nil hne
    have hl : (c :: r).getLast? = some z := by
      rw [← List.head?_reverse, hz]; rfl
    rw [hz, List.dropWhile_cons_of_neg (by rw [hlast z hl]; exact Bool.false_ne_true), ← hz, List.reverse_reverse]

theorem stripChars_none (chars : List Nat) (s : Str) (h : ∀ c ∈ s, chars.contains c = false) :
    stripChars chars s = s := by
  have := stripChars_mid chars [] s [] (by simp) (by simp)
    (fun c hc => h c (List.mem_of_mem_head? hc)) (fun c hc => h c (List.mem_of_mem_getLast? hc))
  simpa using this

/-! ### `Schema.splitOn` -/

theorem splitOn_ne_nil (sep : Nat) (s : Str) : Schema.splitOn sep s ≠ [] := by
  induction s with
  | nil => simp [Schema.splitOn]
  | cons c r ih =>
    rw [Schema.splitOn]
    split
    · simp
    · split <;> simp

theorem splitOn_cons_sep (sep : Nat) (s : Str) : Schema.splitOn sep (sep :: s) = [] :: Schema.splitOn sep s := by
  rw [Schema.splitOn]
  split
  · next h => exact (splitOn_ne_nil sep s h).elim
  · next x xs h => rw [if_pos rfl, h]

theorem splitOn_cons_ne {sep c : Nat} (hc : c ≠ sep) (s : Str) :
    ∃ x xs, Schema.splitOn sep s = x :: xs ∧ Schema.splitOn sep (c :: s) = (c :: x) :: xs := by
  rcases h : Schema.splitOn sep s with _ | ⟨x, xs⟩
  · exact (splitOn_ne_nil sep s h).elim
  · refine ⟨x, xs, rfl, ?_⟩
    rw [Schema.splitOn, h]; simp only [if_neg hc]

/-- a piece without separator, then the separator -/
theorem splitOn_piece (sep : Nat) (t s : Str) (ht : sep ∉ t) :
    Schema.splitOn sep (t ++ sep :: s) = t :: Schema.splitOn sep s := by
  induction t with
  | nil => exact splitOn_cons_sep sep s
  | cons c t ih =>
    have hc : c ≠ sep := fun h => ht (by simp [h])
    obtain ⟨x, xs, h1, h2⟩ := splitOn_cons_ne hc (t ++ sep :: s)
    rw [List.cons_append, h2]
    rw [ih (fun h => ht (List.mem_cons_of_mem _ h))] at h1
    injection h1 with h3 h4
    rw [h3, h4]

theorem splitOn_last (sep : Nat) (t : Str) (ht : sep ∉ t) : Schema.splitOn sep t = [t] := by
  induction t with
  | nil => rfl
  | cons c t ih =>
    have hc : c ≠ sep := fun h => ht (by simp [h])
    obtain ⟨x, xs, h1, h2⟩ := splitOn_cons_ne hc t
    rw [h2]
    rw [ih (fun h => ht (List.mem_cons_of_mem _ h))] at h1
    injection h1 with h3 h4
    rw [h3, h4]

/-! ### numbers -/

theorem isNumber_cases {a : Str} (h : IsNumber a) :
    (∃ c, a = [c] ∧ 48 ≤ c ∧ c ≤ 57) ∨
      (∃ c d r, a = c :: d :: r ∧ 49 ≤ c ∧ c ≤ 57 ∧ ∀ x ∈ d :: r, 48 ≤ x ∧ x ≤ 57) := by
  match a, h with
  | [c], h => exact Or.inl ⟨c, rfl, h⟩
  | c :: d :: r, h => exact Or.inr ⟨c, d, r, rfl, h⟩

theorem isNumber_digits {a : Str} (h : IsNumber a) : ∀ x ∈ a, Schema.isDigit x = true := by
  rcases isNumber_cases h with ⟨c, rfl, h1, h2⟩ | ⟨c, d, r, rfl, h1, h2, h3⟩
  · intro x hx; simp only [List.mem_singleton] at hx; subst hx; simp [Schema.isDigit, h1, h2]
  · intro x hx
    rcases List.mem_cons.1 hx with rfl | hx
    · simp [Schema.isDigit, h2]; omega
    · have := h3 x hx; simp [Schema.isDigit, this.1, this.2]

theorem isNumber_head {a : Str} (h : IsNumber a) : ∃ c r, a = c :: r ∧ Schema.isDigit c = true := by
  cases a with
  | nil => exact h.elim
  | cons c r => exact ⟨c, r, rfl, isNumber_digits h c (by simp)⟩

theorem number_scan {a : Str} (h : IsNumber a) (rest : Str) (hr : Stop Schema.isDigit rest) :
    number (a ++ rest) = some rest := by
  have ht : (a ++ rest).takeWhile Schema.isDigit = a := takeWhile_append_stop (isNumber_digits h) hr
  unfold number
  simp only [ht]
  rcases isNumber_cases h with ⟨c, rfl, _, _⟩ | ⟨c, d, r, rfl, h1, _, _⟩
  · rfl
  · simp only [if_neg (show ¬ c = 48 by omega)]
    rw [List.drop_left]

/-! ### numeric OIDs -/

/-- a character that can continue an OID (descriptor or dotted number) -/
def isOidCh (c : Nat) : Bool := Schema.isKeyChar c || c == DOT

theorem stop_oid_digit {s : Str} (h : Stop isOidCh s) : Stop Schema.isDigit s := by
  cases s with
  | nil => trivial
  | cons c r =>
    simp only [Stop, isOidCh, Schema.isKeyChar, Bool.or_eq_false_iff] at h ⊢
    exact h.1.1.2

theorem stop_oid_key {s : Str} (h : Stop isOidCh s) : Stop Schema.isKeyChar s := by
  cases s with
  | nil => trivial
  | cons c r =>
    simp only [Stop, isOidCh, Bool.or_eq_false_iff] at h ⊢
    exact h.1

def arcsTail (arcs : List Str) : Str := (arcs.map (fun a => 46 :: a)).flatten

theorem arcsTail_cons (a : Str) (as : List Str) : arcsTail (a :: as) = 46 :: (a ++ arcsTail as) := by
  simp [arcsTail]

theorem joinWith_cons_cons (sep a b : Str) (l : List Str) :
    Schema.joinWith sep (a :: b :: l) = a ++ sep ++ Schema.joinWith sep (b :: l) := rfl

theorem joinWith_dot (a : Str) (as : List Str) : Schema.joinWith [46] (a :: as) = a ++ arcsTail as := by
  induction as generalizing a with
  | nil => simp [Schema.joinWith, arcsTail]
  | cons b bs ih => rw [joinWith_cons_cons, ih b, arcsTail_cons]; simp

theorem stop_arcsTail (as : List Str) {rest : Str} (hr : Stop isOidCh rest) : Stop Schema.isDigit (arcsTail as ++ rest) := by
  cases as with
  | nil => exact stop_oid_digit hr
  | cons a as => rw [arcsTail_cons]; exact stop_cons (by decide)

theorem arcs_stop (fuel : Nat) {rest : Str} (hr : Stop isOidCh rest) : arcs fuel rest = rest := by
  cases fuel with
  | zero => rfl
  | succ n =>
    cases rest with
    | nil => rfl
    | cons c r =>
      have : c ≠ DOT := by
        intro h; subst h; exact absurd (show isOidCh DOT = false from hr) (by decide)
      rw [arcs, if_neg this]

theorem arcs_scan (as : List Str) (h : ∀ a ∈ as, IsNumber a) {rest : Str} (hr : Stop isOidCh rest)
    (fuel : Nat) (hf : as.length ≤ fuel) : arcs fuel (arcsTail as ++ rest) = rest := by
  induction as generalizing fuel with
  | nil => exact arcs_stop fuel hr
  | cons a as ih =>
    obtain ⟨fuel, rfl⟩ : ∃ k, fuel = k + 1 := ⟨fuel - 1, by simp at hf; omega⟩
    rw [arcsTail_cons, List.cons_append, arcs, if_pos (show (46 : Nat) = DOT from rfl), List.append_assoc,
      number_scan (h a (by simp)) _ (stop_arcsTail as hr)]
    exact ih (fun x hx => h x (List.mem_cons_of_mem _ hx)) fuel (by simp at hf; omega)

theorem arcsTail_length (as : List Str) : as.length ≤ (arcsTail as).length := by
  induction as with
  | nil => simp
  | cons a as ih => rw [arcsTail_cons]; simp; omega

theorem numericoid_scan {x : Str} (h : IsNumericOidText x) {rest : Str} (hr : Stop isOidCh rest) :
    numericoid (x ++ rest) = some rest := by
  obtain ⟨as, ⟨hlen, hnum⟩, rfl⟩ := h
  obtain ⟨a, as, rfl⟩ : ∃ a l, as = a :: l := by
    cases as with
    | nil => simp at hlen
    | cons a l => exact ⟨a, l, rfl⟩
  have hlen' : 1 ≤ as.length := by simpa using hlen
  rw [joinWith_dot, List.append_assoc, numericoid, number_scan (hnum a (by simp)) _ (stop_arcsTail as hr)]
  simp only
  rw [arcs_scan as (fun x hx => hnum x (List.mem_cons_of_mem _ hx)) hr]
  · have := arcsTail_length as
    rw [if_pos (by simp; omega)]
  · have := arcsTail_length as
    simp; omega

theorem arcsTail_chars (as : List Str) (h : ∀ a ∈ as, IsNumber a) :
    ∀ c ∈ arcsTail as, Schema.isDigit c = true ∨ c = 46 := by
  induction as with
  | nil => simp [arcsTail]
  | cons b bs ih =>
    intro c hc
    rw [arcsTail_cons] at hc
    rcases List.mem_cons.1 hc with rfl | hc
    · exact Or.inr rfl
    · rcases List.mem_append.1 hc with hc | hc
      · exact Or.inl (isNumber_digits (h b (by simp)) c hc)
      · exact ih (fun x hx => h x (List.mem_cons_of_mem _ hx)) c hc

/-- the characters of a numeric OID -/
theorem numericoid_chars {x : Str} (h : IsNumericOidText x) : ∀ c ∈ x, Schema.isDigit c = true ∨ c = 46 := by
  obtain ⟨as, ⟨_, hnum⟩, rfl⟩ := h
  cases as with
  | nil => simp [Schema.joinWith]
  | cons a as =>
    rw [joinWith_dot]
    intro c hc
    rcases List.mem_append.1 hc with hc | hc
    · exact Or.inl (isNumber_digits (hnum a (by simp)) c hc)
    · exact arcsTail_chars as (fun x hx => hnum x (List.mem_cons_of_mem _ hx)) c hc

theorem numericoid_head {x : Str} (h : IsNumericOidText x) : ∃ c r, x = c :: r ∧ Schema.isDigit c = true := by
  obtain ⟨as, ⟨hlen, hnum⟩, rfl⟩ := h
  cases as with
  | nil => simp at hlen
  | cons a l =>
    obtain ⟨c, r, rfl, hc⟩ := isNumber_head (hnum a (by simp))
    exact ⟨c, r ++ arcsTail l, by rw [joinWith_dot]; rfl, hc⟩

/-! ### descriptors and OIDs -/

theorem isDescr_cases {d : Str} (h : IsDescr d) :
    ∃ c r, d = c :: r ∧ Schema.isAlpha c = true ∧ ∀ x ∈ r, Schema.isKeyChar x = true := by
  cases d with
  | nil => exact h.elim
  | cons c r => exact ⟨c, r, rfl, h.1, h.2⟩

theorem descr_scan {d : Str} (h : IsDescr d) {rest : Str} (hr : Stop Schema.isKeyChar rest) :
    descr (d ++ rest) = some rest := by
  obtain ⟨c, r, rfl, hc, hk⟩ := isDescr_cases h
  rw [List.cons_append, descr, if_pos hc, dropWhile_append_stop hk hr]

theorem descr_chars {d : Str} (h : IsDescr d) : ∀ x ∈ d, Schema.isKeyChar x = true := by
  obtain ⟨c, r, rfl, hc, hk⟩ := isDescr_cases h
  intro x hx
  rcases List.mem_cons.1 hx with rfl | hx
  · simp [Schema.isKeyChar, hc]
  · exact hk x hx

theorem oid_chars {x : Str} (h : IsOidText x) : ∀ c ∈ x, isOidCh c = true := by
  intro c hc
  rcases h with h | h
  · simp [isOidCh, descr_chars h c hc]
  · rcases numericoid_chars h c hc with h1 | rfl
    · simp [isOidCh, Schema.isKeyChar, h1]
    · decide

theorem oid_head {x : Str} (h : IsOidText x) : ∃ c r, x = c :: r ∧ isOidCh c = true := by
  cases x with
  | nil =>
    rcases h with h | h
    · exact h.elim
    · obtain ⟨c, r, hx, _⟩ := numericoid_head h; cases hx
  | cons c r => exact ⟨c, r, rfl, oid_chars h c (by simp)⟩

theorem oid_scan {x : Str} (h : IsOidText x) {rest : Str} (hr : Stop isOidCh rest) :
    oid (x ++ rest) = some rest := by
  rcases h with h | h
  · rw [oid, descr_scan h (stop_oid_key hr)]
  · obtain ⟨c, r, rfl, hc⟩ := numericoid_head h
    have : descr (c :: r ++ rest) = none := by
      rw [List.cons_append, descr, if_neg]
      simp only [Schema.isDigit, Bool.and_eq_true, decide_eq_true_eq] at hc
      simp [Schema.isAlpha]; omega
    rw [oid, this]
    exact numericoid_scan h hr

theorem oid_nsp {x : Str} (h : IsOidText x) : NSp x := by
  obtain ⟨c, r, rfl, hc⟩ := oid_head h
  intro h32; subst h32; exact absurd hc (by decide)

end Verif.Proofs.SchemaG
