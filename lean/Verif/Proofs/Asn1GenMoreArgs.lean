/-
Argument ranges Python accepts that `Props/TiesAsn1.lean` did not cover (negative tag numbers,
negative `num`, `tag` and `header` both given), and the remainder lemma for `consumedOf`.
Statements exported in `Props/TiesAsn1More.lean`.
-/
import Verif.Proofs.Asn1GenCompose

namespace Verif.Proofs.Asn1Gen

open Verif Verif.PyRt Verif.Asn1Gen

/-! ### negative `num` in `_pack_asn1_octet_number`: the loop never ends -/

/-- `num & 0x7F` of a negative Python int is a natural number below 128 -/
theorem pyAnd_127_neg (num : Int) (h : num < 0) : ∃ k : Nat, k < 128 ∧ pyAnd num 127 = (k : Int) := by
  cases num with
  | ofNat m => exact absurd h (by simp)
  | negSucc m =>
    refine ⟨127 - (127 &&& m), by omega, rfl⟩

theorem pyShr_7_neg (num : Int) (h : num < 0) : pyShr num 7 < 0 :=
  Int.ediv_neg_of_neg_of_pos h (by decide)

theorem pack_octet_loop_neg : ∀ (fuel : Nat) (acc : List Nat) (num : Int), num < 0 →
    pack_asn1_octet_number_while1 fuel acc num = .error fuelError := by
  intro fuel; induction fuel with
  | zero => intro acc num _; rfl
  | succ f ih =>
    intro acc num h
    rw [pack_asn1_octet_number_while1]
    have hne : num ≠ 0 := by omega
    obtain ⟨k, hk, hand⟩ := pyAnd_127_neg num h
    simp only [hne, ne_eq, not_false_eq_true, ↓reduceIte, hand]
    by_cases hl : len acc = 0
    · simp only [hl, not_true_eq_false, ↓reduceIte, baAppend_nat _ k (by omega), bind_ok]
      exact ih _ _ (pyShr_7_neg num h)
    · simp only [hl, not_false_eq_true, ↓reduceIte, pyOr_128_low k hk,
        baAppend_nat _ (k + 128) (by omega), bind_ok]
      exact ih _ _ (pyShr_7_neg num h)

theorem pack_asn1_octet_number_neg (fuel : Nat) (num : Int) (h : num < 0) :
    pack_asn1_octet_number fuel num = .error fuelError := by
  simp only [pack_asn1_octet_number, pack_octet_loop_neg fuel [] num h, bind_error]

/-! ### negative tag number in `_pack_asn1`: `bytearray.append` of a negative int -/

theorem baAppend_negSucc (l : List Nat) (k : Nat) : baAppend l (Int.negSucc k) = .error .valueError := by
  simp only [baAppend]
  rw [if_neg]
  intro hc
  exact absurd hc.1 (by have := Int.negSucc_lt_zero k; omega)

theorem pyOr_nat_negSucc (m k : Nat) : pyOr (m : Int) (Int.negSucc k) = Int.negSucc (k - (k &&& m)) := rfl

theorem pack_asn1_neg_num (fuel : Nat) (cls : Int) (cons : Bool) (num : Int) (content : List Nat)
    (hn : num < 0) :
    pack_asn1 fuel cls cons num content = .error .valueError := by
  by_cases hbad : cls < 0 ∨ cls > 3
  · exact pack_asn1_bad_class fuel cls cons num content hbad
  · obtain ⟨c, rfl⟩ : ∃ c : Nat, cls = (c : Int) := ⟨cls.toNat, by omega⟩
    have hc : c ≤ 3 := by omega
    have hlt : num < 31 := by omega
    cases num with
    | ofNat m => exact absurd hn (by simp)
    | negSucc k =>
      simp only [pack_asn1, hbad, ↓reduceIte, id_or c cons hc, hlt, pyOr_nat_negSucc,
        baAppend_negSucc, bind_error]

/-! ### `tag` and `header` both given -/

theorem selTag_some (t : ASN1Tag) (header : Option ASN1Header) (num : Int) :
    selTag (some t) header num = t := by
  cases header <;> rfl

/-! ### the remainder is determined by the number of octets consumed -/

/-- the remaining bytes returned by the model reader are `data[consumed:]` -/
theorem readTLV_rest (e : Option Tag) (bs c rest : List Nat) (hr : readTLV e bs = .ok (c, rest)) :
    rest = bs.drop (bs.length - rest.length) ∧ rest.length ≤ bs.length := by
  obtain ⟨h, hh, _, hle, _, hrest⟩ := readTLV_ok e bs c rest hr
  have hb := (readHeader_hlen_bounds bs h hh).2
  simp only [List.length_drop] at hle
  have hl : rest.length = bs.length - (h.hlen + h.len) := by
    rw [hrest]; simp only [List.length_drop]; omega
  refine ⟨?_, by omega⟩
  rw [hl, show bs.length - (bs.length - (h.hlen + h.len)) = h.hlen + h.len by omega, hrest,
    List.drop_drop]

theorem readInt_rest (e : Option Tag) (bs : List Nat) (v : Int) (rest : List Nat)
    (hr : readInt e bs = .ok (v, rest)) :
    rest = bs.drop (bs.length - rest.length) ∧ rest.length ≤ bs.length := by
  simp only [readInt] at hr
  cases ht : readTLV e bs with
  | error err => rw [ht] at hr; cases hr
  | ok r =>
    obtain ⟨c, rest'⟩ := r
    rw [ht] at hr
    cases hc : readIntContent c with
    | error err => simp only [hc] at hr; cases hr
    | ok v' =>
      simp only [hc] at hr
      injection hr with hr; injection hr with _ hrest
      subst hrest
      exact readTLV_rest e bs c rest' ht

theorem readBool_rest (e : Option Tag) (bs : List Nat) (b : Bool) (rest : List Nat)
    (hr : readBool e bs = .ok (b, rest)) :
    rest = bs.drop (bs.length - rest.length) ∧ rest.length ≤ bs.length := by
  simp only [readBool] at hr
  cases ht : readTLV e bs with
  | error err => rw [ht] at hr; cases hr
  | ok r =>
    obtain ⟨c, rest'⟩ := r
    rw [ht] at hr
    injection hr with hr; injection hr with _ hrest
    subst hrest
    exact readTLV_rest e bs c rest' ht

/-- `x.map (consumedOfV bs)` returns `(a, k)` exactly when `x` returns `(a, bs.drop k)`, `0 ≤ k ≤ len(bs)`,
    for every model reader `x` whose remainder is a suffix of `bs` -/
theorem map_consumedOfV_ok_iff {α : Type} (bs : List Nat) (x : Except Err (α × List Nat))
    (hx : ∀ a rest, x = .ok (a, rest) → rest = bs.drop (bs.length - rest.length))
    (a : α) (k : Int) :
    x.map (consumedOfV bs) = .ok (a, k)
      ↔ ∃ n : Nat, k = (n : Int) ∧ n ≤ bs.length ∧ x = .ok (a, bs.drop n) := by
  cases x with
  | error err =>
    simp only [Except.map]
    constructor
    · intro h; cases h
    · rintro ⟨n, _, _, h⟩; cases h
  | ok r =>
    obtain ⟨a', rest⟩ := r
    simp only [Except.map, consumedOfV]
    constructor
    · intro h
      injection h with h; injection h with ha hk
      subst ha
      refine ⟨bs.length - rest.length, hk.symm, by omega, ?_⟩
      rw [← hx a' rest rfl]
    · rintro ⟨n, hk, hn, h⟩
      injection h with h; injection h with ha hrest
      subst ha; subst hrest; subst hk
      simp only [List.length_drop]
      rw [show bs.length - (bs.length - n) = n by omega]

theorem map_error_iff {α β : Type} (f : α → β) (x : Except Err α) (e : Err) :
    x.map f = .error e ↔ x = .error e := by
  cases x with
  | error err => simp only [Except.map]; constructor <;> (intro h; injection h with h; rw [h])
  | ok r => simp only [Except.map]; constructor <;> (intro h; cases h)

theorem consumedOf_eq_V (bs : List Nat) : consumedOf bs = consumedOfV bs := rfl

end Verif.Proofs.Asn1Gen
