/-
Additional C13 / C15 theorems (audit item 7): entry points used by Props/C13More.lean.

* C13MoreSent — `toText_sent`, `sent_domain`, `toText_sent_iff`, `ext_dn_only_not_sentence`
* C13MoreAttr — `validAttr_iff`
* C13MoreZ    — `parseFilterTextZ_eq`, `filterLoop_parens_le`
-/
import Verif.Proofs.C13MoreSent
import Verif.Proofs.C13MoreAttr
import Verif.Proofs.C13MoreZ

namespace Verif.Proofs.C13More
open Verif

/-! sample attribute descriptions for the non-vacuity examples: `cn`, `cn;x`, `2.5.13.2` -/
theorem sample_cn : Rfc4515.IsAttrDesc [99, 110] :=
  Rfc4515.IsAttrDesc.mk [99, 110] [] (Rfc4515.IsOid.descr _ ⟨by decide, by decide⟩) (by simp)
theorem sample_cn_x : Rfc4515.IsAttrDesc [99, 110, 59, 120] :=
  Rfc4515.IsAttrDesc.mk [99, 110] [[120]] (Rfc4515.IsOid.descr _ ⟨by decide, by decide⟩) (by simp; decide)
theorem sample_rule : Rfc4515.IsOid [50, 46, 53, 46, 49, 51, 46, 50] :=
  Rfc4515.IsOid.numeric [[50], [53], [49, 51], [50]] ⟨by decide, by simp [Rfc4515.IsNumber]⟩

mutual
theorem attrsValid_rfc : ∀ (f : Filter), f.AttrsValid → f.AttrsRfcOrSingle
  | .and fs, h => by
    simp only [Filter.AttrsValid] at h; simp only [Filter.AttrsRfcOrSingle]; exact attrsValids_rfc fs h
  | .or fs, h => by
    simp only [Filter.AttrsValid] at h; simp only [Filter.AttrsRfcOrSingle]; exact attrsValids_rfc fs h
  | .not f, h => by
    simp only [Filter.AttrsValid] at h; simp only [Filter.AttrsRfcOrSingle]; exact attrsValid_rfc f h
  | .eq a _, h => (validAttr_iff a).1 h
  | .ge a _, h => (validAttr_iff a).1 h
  | .le a _, h => (validAttr_iff a).1 h
  | .approx a _, h => (validAttr_iff a).1 h
  | .present a, h => (validAttr_iff a).1 h
  | .substr a _ _ _, h => (validAttr_iff a).1 h
  | .ext rule attr _ _, h => by
    simp only [Filter.AttrsValid] at h
    simp only [Filter.AttrsRfcOrSingle]
    refine ⟨?_, ?_⟩
    · cases attr with
      | none => trivial
      | some a => exact (validAttr_iff a).1 h.1
    · cases rule with
      | none => trivial
      | some r => exact (validAttr_iff r).1 h.2
  | .custom _, h => absurd h id
theorem attrsValids_rfc : ∀ (fs : List Filter), Filter.AttrsValids fs → Filter.AttrsRfcOrSingles fs
  | [], _ => by simp only [Filter.AttrsRfcOrSingles]
  | f :: fs, h => by
    simp only [Filter.AttrsValids] at h
    simp only [Filter.AttrsRfcOrSingles]
    exact ⟨attrsValid_rfc f h.1, attrsValids_rfc fs h.2⟩
end

theorem parse_attrs_rfc (depth : Nat) (s : List Nat) (f : Filter) (h : parseFilterText depth s = .ok f) :
    f.AttrsRfcOrSingle :=
  attrsValid_rfc f (Proofs.parse_attrs_valid depth s f h)

/-! ### matching rules: F-C15r -/

/-- an attribute description is an oid, or an oid with at least one option -/
theorem attrDesc_oid_or_options {r : Bytes} (h : Rfc4515.IsAttrDesc r) : Rfc4515.IsOid r ∨ IsOidWithOptions r := by
  obtain ⟨oid, opts, hoid, ho⟩ := h
  cases opts with
  | nil => left; simpa using hoid
  | cons o os => right; exact ⟨oid, o :: os, hoid, by simp, ho, rfl⟩

/-- an RFC 4512 oid contains no `;` -/
theorem isOid_no_semi {r : Bytes} (h : Rfc4515.IsOid r) : 59 ∉ r := by
  cases h with
  | descr _ hd =>
    intro hm
    match r, hd, hm with
    | [], hd, _ => exact hd
    | c :: t, hd, hm =>
      rcases List.mem_cons.1 hm with h59 | hm
      · have := hd.1; rw [← h59] at this; revert this; decide
      · have := hd.2 59 hm; revert this; decide
  | numeric arcs ha =>
    intro hm
    rcases mem_joinWith hm with h46 | ⟨x, hx, hmx⟩
    · revert h46; decide
    · have := FilterGrammar.isNumber_digits (ha.2 x hx) 59 hmx
      revert this; decide

mutual
theorem rules_char : ∀ (f : Filter), f.AttrsRfcOrSingle → f.RulesOidUpToFindings
  | .and fs, h => by
    simp only [Filter.AttrsRfcOrSingle] at h; simp only [Filter.RulesOidUpToFindings]; exact rules_chars fs h
  | .or fs, h => by
    simp only [Filter.AttrsRfcOrSingle] at h; simp only [Filter.RulesOidUpToFindings]; exact rules_chars fs h
  | .not f, h => by
    simp only [Filter.AttrsRfcOrSingle] at h; simp only [Filter.RulesOidUpToFindings]; exact rules_char f h
  | .eq _ _, _ => trivial
  | .ge _ _, _ => trivial
  | .le _ _, _ => trivial
  | .approx _ _, _ => trivial
  | .present _, _ => trivial
  | .substr _ _ _ _, _ => trivial
  | .ext rule attr _ _, h => by
    simp only [Filter.AttrsRfcOrSingle] at h
    simp only [Filter.RulesOidUpToFindings]
    cases rule with
    | none => trivial
    | some r =>
      rcases h.2 with hd | hs
      · rcases attrDesc_oid_or_options hd with h1 | h2
        · exact Or.inl h1
        · exact Or.inr (Or.inl h2)
      · exact Or.inr (Or.inr hs)
  | .custom _, _ => trivial
theorem rules_chars : ∀ (fs : List Filter), Filter.AttrsRfcOrSingles fs → Filter.RulesOidUpToFindingss fs
  | [], _ => by simp only [Filter.RulesOidUpToFindingss]
  | f :: fs, h => by
    simp only [Filter.AttrsRfcOrSingles] at h
    simp only [Filter.RulesOidUpToFindingss]
    exact ⟨rules_char f h.1, rules_chars fs h.2⟩
end

theorem parse_rules_char (depth : Nat) (s : List Nat) (f : Filter) (h : parseFilterText depth s = .ok f) :
    f.RulesOidUpToFindings :=
  rules_char f (parse_attrs_rfc depth s f h)

/-- F-C15r witness: `(cn:2.5;x:=v)` -/
theorem rule_options_witness :
    parseFilterText 4 [40, 99, 110, 58, 50, 46, 53, 59, 120, 58, 61, 118, 41]
        = .ok (.ext (some [50, 46, 53, 59, 120]) (some [99, 110]) [118] false) ∧
      ¬ Rfc4515.IsOid [50, 46, 53, 59, 120] :=
  ⟨by rfl, fun h => isOid_no_semi h (by decide)⟩

/-- `(:dn:=x)` is accepted -/
theorem dn_only_witness :
    parseFilterText 4 [40, 58, 100, 110, 58, 61, 120, 41] = .ok (.ext none none [120] true) := by rfl

/-- the shadow never uses a negative integer as an index or a slice length -/
theorem parseZ_not_negative (depth : Nat) (s : List Nat) : parseFilterTextZ depth s ≠ .error .negative := by
  rw [parseFilterTextZ_eq]; exact liftZ_ne_negative _

/-- totality with integer reports: both fields are ≥ 0 and the span is inside the input -/
theorem parseZ_total (depth : Nat) (s : List Nat) :
    (∃ f, parseFilterTextZ depth s = .ok f) ∨
      (∃ off len : Int, parseFilterTextZ depth s = .error (.syntax off len) ∧
        0 ≤ off ∧ 0 ≤ len ∧ off + len ≤ ((utf8Encode (pyStrip s)).length : Int)) := by
  rw [parseFilterTextZ_eq]
  rcases Proofs.parse_total depth s with ⟨f, hf⟩ | ⟨off, len, he, hb⟩
  · left; exact ⟨f, by rw [hf]; rfl⟩
  · right
    refine ⟨off, len, by rw [he]; rfl, by omega, by omega, by omega⟩

/-- every report of the shadow is a report of the model with the same numbers -/
theorem parseZ_report (depth : Nat) (s : List Nat) (off len : Int)
    (h : parseFilterTextZ depth s = .error (.syntax off len)) :
    ∃ o l : Nat, parseFilterText depth s = .error (.syntax o l) ∧ off = o ∧ len = l := by
  rw [parseFilterTextZ_eq] at h
  cases hp : parseFilterText depth s with
  | ok f => rw [hp] at h; cases h
  | error e =>
    rw [hp] at h
    rcases e with ⟨o, l⟩ | _ | _
    · simp only [liftZ_error, toZ_syntax, Except.error.injEq, FErrZ.syntax.injEq] at h
      exact ⟨o, l, rfl, h.1.symm, h.2.symm⟩
    · cases h
    · cases h

end Verif.Proofs.C13More
