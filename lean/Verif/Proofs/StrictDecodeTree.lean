/-
Layer (b) of C03: the canonical RFC 4511 tree of a message, and the proof that the library's
encoder writes exactly the encoding of that tree.  Core Lean only.
-/
import Verif.Spec.WF
import Verif.Model.Session
import Verif.Proofs.StrictDecodeTlv

namespace Verif.Proofs

open Verif

/-! ### the generated constants (values regenerated from the Python source on every run):
    one lemma per constant, so that a changed constant breaks exactly its lemma -/

theorem facts_filterAnd : Facts.filterAnd = 0 := by decide
theorem facts_filterOr : Facts.filterOr = 1 := by decide
theorem facts_filterNot : Facts.filterNot = 2 := by decide
theorem facts_filterEq : Facts.filterEq = 3 := by decide
theorem facts_filterSubstr : Facts.filterSubstr = 4 := by decide
theorem facts_filterGe : Facts.filterGe = 5 := by decide
theorem facts_filterLe : Facts.filterLe = 6 := by decide
theorem facts_filterPresent : Facts.filterPresent = 7 := by decide
theorem facts_filterApprox : Facts.filterApprox = 8 := by decide
theorem facts_filterExt : Facts.filterExt = 9 := by decide
theorem facts_credSimple : Facts.credSimple = 0 := by decide
theorem facts_credSasl : Facts.credSasl = 3 := by decide
theorem facts_opBindRequest : Facts.opBindRequest = 0 := by decide
theorem facts_opBindResponse : Facts.opBindResponse = 1 := by decide
theorem facts_opUnbindRequest : Facts.opUnbindRequest = 2 := by decide
theorem facts_opSearchRequest : Facts.opSearchRequest = 3 := by decide
theorem facts_opSearchResultEntry : Facts.opSearchResultEntry = 4 := by decide
theorem facts_opSearchResultDone : Facts.opSearchResultDone = 5 := by decide
theorem facts_opSearchResultReference : Facts.opSearchResultReference = 19 := by decide
theorem facts_opExtendedRequest : Facts.opExtendedRequest = 23 := by decide
theorem facts_opExtendedResponse : Facts.opExtendedResponse = 24 := by decide
theorem facts_oidPaged_text : validUtf8 Facts.oidPaged = true := by decide
theorem facts_oidShowDeleted_text : validUtf8 Facts.oidShowDeleted = true := by decide
theorem facts_oidShowDeactivated_text : validUtf8 Facts.oidShowDeactivated = true := by decide
theorem facts_oidShowDeleted_ne_paged : Facts.oidShowDeleted ≠ Facts.oidPaged := by decide
theorem facts_oidShowDeactivated_ne_paged : Facts.oidShowDeactivated ≠ Facts.oidPaged := by decide
theorem facts_oidShowDeactivated_ne_showDeleted :
    Facts.oidShowDeactivated ≠ Facts.oidShowDeleted := by decide

/-! ### trees -/

def optT (cls num : Nat) : Option Bytes → List Tlv
  | none => []
  | some v => [.prim cls num v]

mutual
def filterT : Filter → Tlv
  | .and fs => .cons 2 0 (filtersT fs)
  | .or fs => .cons 2 1 (filtersT fs)
  | .not f => .cons 2 2 [filterT f]
  | .eq a v => .cons 2 3 [.prim 0 4 a, .prim 0 4 v]
  | .substr a i any f =>
    .cons 2 4 [.prim 0 4 a,
      .cons 0 16 (optT 2 0 i ++ any.map (Tlv.prim 2 1) ++ optT 2 2 f)]
  | .ge a v => .cons 2 5 [.prim 0 4 a, .prim 0 4 v]
  | .le a v => .cons 2 6 [.prim 0 4 a, .prim 0 4 v]
  | .present a => .prim 2 7 a
  | .approx a v => .cons 2 8 [.prim 0 4 a, .prim 0 4 v]
  | .ext rule attr v dn =>
    .cons 2 9 (optT 2 1 rule ++ optT 2 2 attr ++ [.prim 2 3 v]
      ++ (if dn then [.prim 2 4 [255]] else []))
  | .custom v => .prim 2 Facts.customFilterId v
def filtersT : List Filter → List Tlv
  | [] => []
  | f :: fs => filterT f :: filtersT fs
end

def credT : Cred → Tlv
  | .simple pw => .prim 2 0 pw
  | .sasl mech creds => .cons 2 3 (.prim 0 4 mech :: optT 0 4 creds)
  | .custom v => .prim 2 Facts.customCredId v

def controlT (c : Control) : Tlv :=
  .cons 0 16 (.prim 0 4 (controlOid c) ::
    ((if controlCrit c then [.prim 0 1 [255]] else []) ++ optT 0 4 (controlValue c)))

def resultT (r : LdapResult) : List Tlv :=
  [.prim 0 10 (intContent r.code), .prim 0 4 r.matchedDn, .prim 0 4 r.diag] ++
    (match r.referrals with
     | none => []
     | some rs => [.cons 2 3 (rs.map (Tlv.prim 0 4))])

def attrT (a : Bytes × List Bytes) : Tlv :=
  .cons 0 16 [.prim 0 4 a.1, .cons 0 17 (a.2.map (Tlv.prim 0 4))]

def opNum : Op → Nat
  | .bindReq .. => 0
  | .bindResp .. => 1
  | .unbind => 2
  | .searchReq .. => 3
  | .searchEntry .. => 4
  | .searchDone .. => 5
  | .searchRef .. => 19
  | .extReq .. => 23
  | .extResp .. => 24

def opKids : Op → List Tlv
  | .bindReq v n c => [.prim 0 2 (intContent v), .prim 0 4 n, credT c]
  | .bindResp r s => resultT r ++ optT 2 7 s
  | .unbind => []
  | .searchReq b sc dr sl tl ty f attrs =>
    [.prim 0 4 b, .prim 0 10 (intContent sc), .prim 0 10 (intContent dr),
      .prim 0 2 (intContent sl), .prim 0 2 (intContent tl), .prim 0 1 [if ty then 255 else 0],
      filterT f, .cons 0 16 (attrs.map (Tlv.prim 0 4))]
  | .searchEntry n attrs => [.prim 0 4 n, .cons 0 16 (attrs.map attrT)]
  | .searchDone r => resultT r
  | .searchRef uris => uris.map (Tlv.prim 0 4)
  | .extReq n v => .prim 2 0 n :: optT 2 1 v
  | .extResp r n v => resultT r ++ optT 2 10 n ++ optT 2 11 v

/-- the protocolOp element; `rfc = true` writes UnbindRequest in primitive form -/
def opT (rfc : Bool) (op : Op) : Tlv :=
  if rfc && op.isUnbind then .prim 1 2 [] else .cons 1 (opNum op) (opKids op)

def msgT (rfc : Bool) (m : Msg) : Tlv :=
  .cons 0 16 (.prim 0 2 (intContent m.id) :: opT rfc m.op ::
    (if m.controls.isEmpty then [] else [.cons 2 0 (m.controls.map controlT)]))

/-- same body as `C03.encMsgRfc` (which lives downstream of this file) -/
def encMsgRfc' (m : Msg) : Bytes :=
  packTLV tSeq
    (packInt m.id ++ packTLV (tagApp (opTag m.op) (!m.op.isUnbind)) (encOp m.op)
      ++ (if m.controls.isEmpty then [] else
            packTLV (tagCtx 0 true) (m.controls.map encControl).flatten))

/-! ### the library writes the encoding of the tree -/

theorem opTag_eq (op : Op) : opTag op = opNum op := by
  cases op <;> simp [opTag, opNum, facts_opBindRequest, facts_opBindResponse,
    facts_opUnbindRequest, facts_opSearchRequest, facts_opSearchResultEntry,
    facts_opSearchResultDone, facts_opSearchResultReference, facts_opExtendedRequest,
    facts_opExtendedResponse]

theorem encList_optT (cls num : Nat) (o : Option Bytes) :
    Tlv.encList (optT cls num o) = optBytes ⟨cls, false, num⟩ o := by
  cases o <;> simp [optT, optBytes, Tlv.encList, Tlv.enc, packOctets]

theorem encList_prims (cls num : Nat) (l : List Bytes) :
    Tlv.encList (l.map (Tlv.prim cls num)) = encTexts l ⟨cls, false, num⟩ := by
  simp [encList_map, encTexts, Tlv.enc, packOctets]

mutual
theorem enc_filterT : ∀ f : Filter, Tlv.enc (filterT f) = encFilter f
  | .and fs => by
    simp [filterT, encFilter, Tlv.enc, enc_filtersT fs, tagCtx, facts_filterAnd]
  | .or fs => by
    simp [filterT, encFilter, Tlv.enc, enc_filtersT fs, tagCtx, facts_filterOr]
  | .not f => by
    simp [filterT, encFilter, Tlv.enc, Tlv.encList, enc_filterT f, tagCtx, facts_filterNot]
  | .eq a v => by
    simp [filterT, encFilter, Tlv.enc, Tlv.encList, tagCtx, facts_filterEq, packOctets, tOctets,
      tagUniv]
  | .substr a i any f => by
    simp [filterT, encFilter, Tlv.enc, Tlv.encList, tagCtx, facts_filterSubstr, packOctets,
      tOctets, tagUniv, tSeq, encList_append, encList_optT, encList_map]
  | .ge a v => by
    simp [filterT, encFilter, Tlv.enc, Tlv.encList, tagCtx, facts_filterGe, packOctets, tOctets,
      tagUniv]
  | .le a v => by
    simp [filterT, encFilter, Tlv.enc, Tlv.encList, tagCtx, facts_filterLe, packOctets, tOctets,
      tagUniv]
  | .present a => by
    simp [filterT, encFilter, Tlv.enc, tagCtx, facts_filterPresent, packOctets]
  | .approx a v => by
    simp [filterT, encFilter, Tlv.enc, Tlv.encList, tagCtx, facts_filterApprox, packOctets,
      tOctets, tagUniv]
  | .ext rule attr v dn => by
    cases dn <;>
    simp [filterT, encFilter, Tlv.enc, Tlv.encList, tagCtx, facts_filterExt, packOctets,
      packBool, encList_append, encList_optT]
  | .custom v => by
    simp [filterT, encFilter, Tlv.enc, tagCtx, packOctets]
theorem enc_filtersT : ∀ fs : List Filter, Tlv.encList (filtersT fs) = encFilters fs
  | [] => by simp [filtersT, encFilters, Tlv.encList]
  | f :: fs => by simp [filtersT, encFilters, Tlv.encList, enc_filterT f, enc_filtersT fs]
end

theorem enc_credT (c : Cred) : Tlv.enc (credT c) = encCred c := by
  cases c <;>
  simp [credT, encCred, Tlv.enc, Tlv.encList, tagCtx, facts_credSimple, facts_credSasl,
    packOctets, tOctets, tagUniv, encList_optT]

theorem enc_controlT (c : Control) : Tlv.enc (controlT c) = encControl c := by
  cases h : controlCrit c <;>
  simp [controlT, encControl, Tlv.enc, Tlv.encList, h, packOctets, packBool, tOctets, tBool,
    tagUniv, tSeq, encList_optT]

theorem encList_controls (cs : List Control) :
    Tlv.encList (cs.map controlT) = (cs.map encControl).flatten := by
  simp [encList_map, enc_controlT]

theorem encList_resultT (r : LdapResult) : Tlv.encList (resultT r) = encResult r := by
  obtain ⟨code, mdn, diag, refs⟩ := r
  cases refs <;>
  simp [resultT, encResult, Tlv.enc, Tlv.encList, packEnum, packOctets, tEnum, tOctets, tagUniv,
    tagCtx, encList_prims]

theorem enc_attrT (a : Bytes × List Bytes) : Tlv.enc (attrT a) = encAttr a := by
  simp [attrT, encAttr, Tlv.enc, Tlv.encList, packOctets, tOctets, tSeq, tSet, tagUniv,
    encList_prims]

theorem encList_opKids (op : Op) : Tlv.encList (opKids op) = encOp op := by
  cases op with
  | bindReq v n c =>
    simp [opKids, encOp, Tlv.enc, Tlv.encList, packInt, packOctets, tInt, tOctets, tagUniv,
      enc_credT]
  | bindResp r s =>
    simp [opKids, encOp, encList_append, encList_resultT, encList_optT, tagCtx]
  | unbind => simp [opKids, encOp, Tlv.encList]
  | searchReq b sc dr sl tl ty f attrs =>
    simp [opKids, encOp, Tlv.enc, Tlv.encList, packInt, packEnum, packBool, packOctets, tInt,
      tEnum, tBool, tOctets, tSeq, tagUniv, enc_filterT, encList_prims]
  | searchEntry n attrs =>
    simp [opKids, encOp, Tlv.enc, Tlv.encList, packOctets, tOctets, tSeq, tagUniv, encList_map,
      enc_attrT]
  | searchDone r => simp [opKids, encOp, encList_resultT]
  | searchRef uris => simp [opKids, encOp, encList_prims, tOctets, tagUniv]
  | extReq n v =>
    simp [opKids, encOp, Tlv.enc, Tlv.encList, packOctets, tagCtx, encList_optT]
  | extResp r n v =>
    simp [opKids, encOp, encList_append, encList_resultT, encList_optT, tagCtx]

theorem enc_opT_rfc (op : Op) :
    Tlv.enc (opT true op) = packTLV (tagApp (opTag op) (!op.isUnbind)) (encOp op) := by
  cases h : op.isUnbind
  · simp [opT, h, Tlv.enc, encList_opKids, opTag_eq, tagApp]
  · cases op <;> simp [Op.isUnbind] at h
    simp [opT, Op.isUnbind, Tlv.enc, encOp, opTag, facts_opUnbindRequest, tagApp]

theorem enc_opT_lib (op : Op) :
    Tlv.enc (opT false op) = packTLV (tagApp (opTag op) true) (encOp op) := by
  simp [opT, Tlv.enc, encList_opKids, opTag_eq, tagApp]

theorem enc_msgT_rfc (m : Msg) : Tlv.enc (msgT true m) = encMsgRfc' m := by
  cases h : m.controls.isEmpty <;>
  simp [msgT, encMsgRfc', h, Tlv.enc, Tlv.encList, enc_opT_rfc, encList_controls, packInt, tInt,
    tSeq, tagUniv, tagCtx]

theorem enc_msgT_lib (m : Msg) : Tlv.enc (msgT false m) = encMsg m := by
  cases h : m.controls.isEmpty <;>
  simp [msgT, encMsg, h, Tlv.enc, Tlv.encList, enc_opT_lib, encList_controls, packInt, tInt,
    tSeq, tagUniv, tagCtx]

/-! ### the trees have single-octet identifiers -/

theorem ok_optT (cls num : Nat) (o : Option Bytes) (hc : cls < 4) (hn : num < 31) :
    Tlv.OkList (optT cls num o) := by
  cases o <;> simp [optT, Tlv.OkList, Tlv.Ok, hc, hn]

theorem ok_prims (cls num : Nat) (l : List Bytes) (hc : cls < 4) (hn : num < 31) :
    Tlv.OkList (l.map (Tlv.prim cls num)) :=
  okList_map _ _ fun _ => by simp [Tlv.Ok, hc, hn]

mutual
theorem ok_filterT : ∀ f : Filter, Filter.WF {} f → Tlv.Ok (filterT f)
  | .and fs, h => by
    simp only [Filter.WF] at h
    simp [filterT, Tlv.Ok, ok_filtersT fs h]
  | .or fs, h => by
    simp only [Filter.WF] at h
    simp [filterT, Tlv.Ok, ok_filtersT fs h]
  | .not f, h => by
    simp only [Filter.WF] at h
    simp [filterT, Tlv.Ok, Tlv.OkList, ok_filterT f h]
  | .eq a v, _ => by simp [filterT, Tlv.Ok, Tlv.OkList]
  | .substr a i any f, _ => by
    simp [filterT, Tlv.Ok, Tlv.OkList, okList_append, ok_optT, ok_prims]
  | .ge a v, _ => by simp [filterT, Tlv.Ok, Tlv.OkList]
  | .le a v, _ => by simp [filterT, Tlv.Ok, Tlv.OkList]
  | .present a, _ => by simp [filterT, Tlv.Ok]
  | .approx a v, _ => by simp [filterT, Tlv.Ok, Tlv.OkList]
  | .ext rule attr v dn, _ => by
    cases dn <;> simp [filterT, Tlv.Ok, Tlv.OkList, okList_append, ok_optT]
  | .custom v, h => by simp [Filter.WF] at h
theorem ok_filtersT : ∀ fs : List Filter, Filter.WFs {} fs → Tlv.OkList (filtersT fs)
  | [], _ => by simp [filtersT, Tlv.OkList]
  | f :: fs, h => by
    simp only [Filter.WFs] at h
    simp [filtersT, Tlv.OkList, ok_filterT f h.1, ok_filtersT fs h.2]
end

theorem ok_credT (c : Cred) (h : Cred.WF {} c) : Tlv.Ok (credT c) := by
  cases c with
  | simple pw => simp [credT, Tlv.Ok]
  | sasl mech creds => simp [credT, Tlv.Ok, Tlv.OkList, ok_optT]
  | custom v => simp [Cred.WF] at h

theorem ok_controlT (c : Control) : Tlv.Ok (controlT c) := by
  cases h : controlCrit c <;>
  simp [controlT, h, Tlv.Ok, Tlv.OkList, ok_optT]

theorem ok_resultT (r : LdapResult) : Tlv.OkList (resultT r) := by
  obtain ⟨code, mdn, diag, refs⟩ := r
  cases refs <;> simp [resultT, Tlv.Ok, Tlv.OkList, ok_prims]

theorem ok_attrT (a : Bytes × List Bytes) : Tlv.Ok (attrT a) := by
  simp [attrT, Tlv.Ok, Tlv.OkList, ok_prims]

theorem ok_opKids (op : Op) (h : Op.WF {} op) : Tlv.OkList (opKids op) := by
  cases op with
  | bindReq v n c => simp [opKids, Tlv.Ok, Tlv.OkList, ok_credT c h.2]
  | bindResp r s => simp [opKids, okList_append, ok_resultT, ok_optT]
  | unbind => simp [opKids, Tlv.OkList]
  | searchReq b sc dr sl tl ty f attrs =>
    simp [opKids, Tlv.Ok, Tlv.OkList, ok_filterT f h.2.2.2.1, ok_prims]
  | searchEntry n attrs =>
    simp [opKids, Tlv.Ok, Tlv.OkList, okList_map _ _ ok_attrT]
  | searchDone r => simp [opKids, ok_resultT]
  | searchRef uris => simp [opKids, ok_prims]
  | extReq n v => simp [opKids, Tlv.Ok, Tlv.OkList, ok_optT]
  | extResp r n v => simp [opKids, okList_append, ok_resultT, ok_optT]

theorem opNum_lt (op : Op) : opNum op < 31 := by cases op <;> simp [opNum]

theorem ok_opT (rfc : Bool) (op : Op) (h : Op.WF {} op) : Tlv.Ok (opT rfc op) := by
  unfold opT
  split
  · simp [Tlv.Ok]
  · simp [Tlv.Ok, opNum_lt, ok_opKids op h]

theorem ok_msgT (rfc : Bool) (m : Msg) (h : Op.WF {} m.op) : Tlv.Ok (msgT rfc m) := by
  cases hc : m.controls.isEmpty <;>
  simp [msgT, hc, Tlv.Ok, Tlv.OkList, ok_opT rfc m.op h, okList_map _ _ ok_controlT]

end Verif.Proofs
