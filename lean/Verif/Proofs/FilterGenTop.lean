/-
Tie of the generated `_unpack_filter` (loop, function, recursion on the depth budget) and
`LDAPFilter.from_string` to the hand model's `filterLoop`, `unpackFilter`, `parseFilterText`.
-/
import Verif.Proofs.FilterGenLoops

namespace Verif.Proofs.FilterGen

open Verif Verif.FilterRt Verif.FilterGen
open Verif.Proofs.FilterTotal (UfOk ResOk ctxTrue unpackComplex_ok unpackFilter_ok)

def optInt : Option Nat → Option Int
  | none => none
  | some p => some (p : Int)

def castFL : Except FErr FLoop → Except GErr (Int × Option Int × Option Filter)
  | .ok st => .ok ((st.read : Int), optInt st.parens, st.parsed)
  | .error e => .error (ofFErr e)

theorem simple_win (view : Bytes) (off len read : Nat) (h : off + len ≤ view.length) (hr : read ≤ len) :
    unpack_simple_filter view ((off : Int) + (read : Int)) ((len : Int) - (read : Int))
      = castRes (unpackSimple ((win view off len).drop read) (off + read)) := by
  have ea : ((off : Int) + (read : Int)) = ((off + read : Nat) : Int) := by omega
  have el : ((len : Int) - (read : Int)) = ((len - read : Nat) : Int) := by omega
  rw [ea, el, unpack_simple_filter_eq view (off + read) (len - read) (by omega), win_drop]
  rfl

theorem complex_win (rec : List Nat → Int → Int → Except GErr (Filter × Int))
    (uf : Bytes → Nat → Except FErr (Filter × Nat)) (view : Bytes) (hrec : RecTie rec uf view)
    (hok : UfOk QT PT uf) (off len read F : Nat) (h : off + len ≤ view.length) (hr : read < len)
    (hF : len - read < F) :
    unpack_complex_filter rec F view ((off : Int) + (read : Int)) ((len : Int) - (read : Int))
      = castRes (unpackComplex uf ((win view off len).drop read) (off + read)) := by
  have ea : ((off : Int) + (read : Int)) = ((off + read : Nat) : Int) := by omega
  have el : ((len : Int) - (read : Int)) = ((len - read : Nat) : Int) := by omega
  rw [ea, el, unpack_complex_filter_eq rec uf view hrec hok (off + read) (len - read) (by omega) (by omega) F hF,
    win_drop]

/-- the statement of the loop tie at model fuel `f` -/
def WhileTie (rec : List Nat → Int → Int → Except GErr (Filter × Int))
    (uf : Bytes → Nat → Except FErr (Filter × Nat)) (view : Bytes) (off len f : Nat) : Prop :=
  ∀ (F read : Nat) (ps : Option Nat) (pf : Option Filter),
    read ≤ len → len - read ≤ f → len - read + 1 < F →
    unpack_filter_while1 rec (win view off len) (off : Int) (len : Int) view F (read : Int) (optInt ps) pf
      = castFL (filterLoop uf (win view off len) off f ⟨read, ps, pf⟩)

theorem filter_while_step_none (rec : List Nat → Int → Int → Except GErr (Filter × Int))
    (uf : Bytes → Nat → Except FErr (Filter × Nat)) (view : Bytes) (hrec : RecTie rec uf view)
    (hok : UfOk QT PT uf) (off len : Nat) (h : off + len ≤ view.length) (f : Nat)
    (ih : WhileTie rec uf view off len f) (F' read : Nat) (pf : Option Filter)
    (hr : read ≤ len) (hf : len - read ≤ f + 1) (hF : len - read + 1 < F' + 1) (hlt : read < len) :
    unpack_filter_while1 rec (win view off len) (off : Int) (len : Int) view (F' + 1) (read : Int) none pf
      = castFL (filterLoop uf (win view off len) off (f + 1) ⟨read, none, pf⟩) := by
  have hlen := win_length view off len h
  rw [unpack_filter_while1, filterLoop]
  have c1 : ((read : Nat) : Int) < FilterRt.len (win view off len) := by rw [len_eq, hlen]; omega
  have c2 : ¬ read ≥ (win view off len).length := by omega
  simp only []
  rw [if_pos c1, if_neg c2, getItem_nat _ read (by omega)]
  simp only [bind_ok]
  have hsimple := simple_win view off len read h (by omega)
  have hcomplex := complex_win rec uf view hrec hok off len read F' h hlt (by omega)
  have hsok := ctxTrue.simple ((win view off len).drop read) (off + read) (fun _ _ => trivial)
  have hcok := unpackComplex_ok ctxTrue hok ((win view off len).drop read) (off + read)
    (fun _ _ => trivial) (by rw [List.length_drop, hlen]; omega)
  rw [List.length_drop, hlen] at hsok hcok
  generalize (win view off len).getD read 0 = c at *
  have e1 : ((read : Int) + 1) = ((read + 1 : Nat) : Int) := by omega
  have eo : ((off : Int) + (read : Int)) = ((off + read : Nat) : Int) := by omega
  have k40 : (((c : Nat) : Int) = 40) ↔ c = cLParen := by show _ ↔ c = 40; omega
  by_cases h32 : c = cSpace
  · have : ((c : Nat) : Int) = 32 := by rw [h32]; rfl
    rw [if_pos this, if_pos h32, e1]
    have ih' := ih F' (read + 1) none pf (by omega) (by omega) (by omega)
    simp only [optInt] at ih'
    exact ih'
  · have n32 : ¬ ((c : Nat) : Int) = 32 := by
      intro h'; apply h32; show c = 32; omega
    rw [if_neg n32, if_neg h32]
    by_cases h41 : c = cRParen
    · have : ((c : Nat) : Int) = 41 := by rw [h41]; rfl
      rw [if_pos this, if_pos h41]
      simp [castFL, ofFErr, optInt]
    · have n41 : ¬ ((c : Nat) : Int) = 41 := by
        intro h'; apply h41; show c = 41; omega
      rw [if_neg n41, if_neg h41]
      simp only [Option.isSome_none, Bool.false_eq_true, if_false, k40]
      by_cases h40 : c = cLParen
      · rw [if_pos h40, if_pos h40, e1]
        have ih' := ih F' (read + 1) (some read) pf (by omega) (by omega) (by omega)
        simp only [optInt] at ih'
        exact ih'
      · rw [if_neg h40, if_neg h40, hsimple]
        rcases hs : unpackSimple ((win view off len).drop read) (off + read) with e | ⟨g, n⟩
        · rfl
        · simp only [castRes, bind_ok, castFL, optInt]
          congr 2 <;> omega

theorem filter_while_step_some (rec : List Nat → Int → Int → Except GErr (Filter × Int))
    (uf : Bytes → Nat → Except FErr (Filter × Nat)) (view : Bytes) (hrec : RecTie rec uf view)
    (hok : UfOk QT PT uf) (off len : Nat) (h : off + len ≤ view.length) (f : Nat)
    (ih : WhileTie rec uf view off len f) (F' read : Nat) (p : Nat) (pf : Option Filter)
    (hr : read ≤ len) (hf : len - read ≤ f + 1) (hF : len - read + 1 < F' + 1) (hlt : read < len) :
    unpack_filter_while1 rec (win view off len) (off : Int) (len : Int) view (F' + 1) (read : Int) (some (p : Int)) pf
      = castFL (filterLoop uf (win view off len) off (f + 1) ⟨read, some p, pf⟩) := by
  have hlen := win_length view off len h
  rw [unpack_filter_while1, filterLoop]
  have c1 : ((read : Nat) : Int) < FilterRt.len (win view off len) := by rw [len_eq, hlen]; omega
  have c2 : ¬ read ≥ (win view off len).length := by omega
  simp only []
  rw [if_pos c1, if_neg c2, getItem_nat _ read (by omega)]
  simp only [bind_ok]
  have hsimple := simple_win view off len read h (by omega)
  have hcomplex := complex_win rec uf view hrec hok off len read F' h hlt (by omega)
  have hsok := ctxTrue.simple ((win view off len).drop read) (off + read) (fun _ _ => trivial)
  have hcok := unpackComplex_ok ctxTrue hok ((win view off len).drop read) (off + read)
    (fun _ _ => trivial) (by rw [List.length_drop, hlen]; omega)
  rw [List.length_drop, hlen] at hsok hcok
  generalize (win view off len).getD read 0 = c at *
  have e1 : ((read : Int) + 1) = ((read + 1 : Nat) : Int) := by omega
  have eo : ((off : Int) + (read : Int)) = ((off + read : Nat) : Int) := by omega
  have k40 : (((c : Nat) : Int) = 40) ↔ c = cLParen := by show _ ↔ c = 40; omega
  by_cases h32 : c = cSpace
  · have : ((c : Nat) : Int) = 32 := by rw [h32]; rfl
    rw [if_pos this, if_pos h32, e1]
    have ih' := ih F' (read + 1) (some p) pf (by omega) (by omega) (by omega)
    simp only [optInt] at ih'
    exact ih'
  · have n32 : ¬ ((c : Nat) : Int) = 32 := by
      intro h'; apply h32; show c = 32; omega
    rw [if_neg n32, if_neg h32]
    by_cases h41 : c = cRParen
    · have : ((c : Nat) : Int) = 41 := by rw [h41]; rfl
      rw [if_pos this, if_pos h41]
      simp [castFL, ofFErr, optInt]
    · have n41 : ¬ ((c : Nat) : Int) = 41 := by
        intro h'; apply h41; show c = 41; omega
      rw [if_neg n41, if_neg h41]
      simp only [Option.isSome_some, if_true, k40]
      by_cases h40 : c = cLParen
      · rw [if_pos h40, if_pos h40]; simp [castFL, ofFErr]
      · rw [if_neg h40, if_neg h40]
        have kop : (((c : Nat) : Int) = 33 ∨ ((c : Nat) : Int) = 38 ∨ ((c : Nat) : Int) = 124) ↔
            (c = cBang ∨ c = cAmp ∨ c = cPipe) := by
          show _ ↔ (c = 33 ∨ c = 38 ∨ c = 124); omega
        simp only [kop]
        by_cases hop : c = cBang ∨ c = cAmp ∨ c = cPipe
        · simp only [hop, if_true, hcomplex]
          rcases hs : unpackComplex uf ((win view off len).drop read) (off + read) with e | ⟨g, n⟩
          · rfl
          · rw [hs] at hcok
            simp only [ResOk] at hcok
            clear hsok
            have e2 : ((read : Int) + (n : Int)) = ((read + n : Nat) : Int) := by omega
            simp only [castRes, bind_ok, e2]
            have ih' := ih F' (read + n) (some p) (some g) (by omega) (by omega) (by omega)
            simp only [optInt] at ih'
            exact ih'
        · simp only [hop, if_false, hsimple]
          rcases hs : unpackSimple ((win view off len).drop read) (off + read) with e | ⟨g, n⟩
          · rfl
          · rw [hs] at hsok
            simp only [ResOk] at hsok
            clear hcok
            obtain ⟨hn1, hn2, -⟩ := hsok
            have g1 : read + n ≤ len := by clear ih hsimple hcomplex hs hrec hok hop kop; omega
            have g2 : len - (read + n) ≤ f := by clear ih hsimple hcomplex hs hrec hok hop kop; omega
            have g3 : len - (read + n) + 1 < F' := by clear ih hsimple hcomplex hs hrec hok hop kop; omega
            have e2 : ((read : Int) + (n : Int)) = ((read + n : Nat) : Int) := by
              clear ih hsimple hcomplex hs hrec hok hop kop; omega
            simp only [castRes, bind_ok, e2]
            have ih' := ih F' (read + n) (some p) (some g) g1 g2 g3
            simp only [optInt] at ih'
            exact ih'

/-- the `while` loop of `_unpack_filter` -/
theorem filter_while_eq (rec : List Nat → Int → Int → Except GErr (Filter × Int))
    (uf : Bytes → Nat → Except FErr (Filter × Nat)) (view : Bytes) (hrec : RecTie rec uf view)
    (hok : UfOk QT PT uf) (off len : Nat) (h : off + len ≤ view.length) :
    ∀ f, WhileTie rec uf view off len f := by
  have hlen := win_length view off len h
  intro f
  induction f with
  | zero =>
    intro F read ps pf hr hf hF
    have : read = len := by omega
    subst this
    obtain ⟨F', rfl⟩ : ∃ F', F = F' + 1 := ⟨F - 1, by omega⟩
    rcases ps with _ | p <;> simp [unpack_filter_while1, filterLoop, len_eq, hlen, castFL, optInt]
  | succ f ih =>
    intro F read ps pf hr hf hF
    obtain ⟨F', rfl⟩ : ∃ F', F = F' + 1 := ⟨F - 1, by omega⟩
    by_cases hlt : read < len
    · rcases ps with _ | p
      · exact filter_while_step_none rec uf view hrec hok off len h f ih F' read pf hr hf hF hlt
      · exact filter_while_step_some rec uf view hrec hok off len h f ih F' read p pf hr hf hF hlt
    · have : read = len := by omega
      subst this
      rcases ps with _ | p <;> simp [unpack_filter_while1, filterLoop, len_eq, hlen, castFL, optInt]

/-! ### `_unpack_filter` -/

theorem unpack_filter_eq (fuel : Nat) (view : Bytes) (hfuel : view.length + 1 < fuel) :
    ∀ (depth off len : Nat), off + len ≤ view.length →
      unpack_filter fuel depth view (off : Int) (len : Int)
        = castRes (unpackFilter depth (win view off len) off) := by
  intro depth
  induction depth with
  | zero => intro off len _; rfl
  | succ depth ih =>
    intro off len h
    have hrec : RecTie (unpack_filter fuel depth) (unpackFilter depth) view := fun o l hl => ih o l hl
    have hok : UfOk QT PT (unpackFilter depth) := unpackFilter_ok ctxTrue depth
    have hlen := win_length view off len h
    have hw := filter_while_eq (unpack_filter fuel depth) (unpackFilter depth) view hrec hok off len h
      len fuel 0 none none (by omega) (by omega) (by omega)
    have hinv := FilterTotal.filterLoop_ok ctxTrue hok (win view off len) off (fun _ _ => trivial)
      (win view off len).length ⟨0, none, none⟩
      ⟨Nat.zero_le _, (by intro p hp; cases hp), by intro f hf; cases hf⟩ (by simp)
    rw [hlen] at hinv
    simp only [optInt] at hw
    have z0 : ((0 : Nat) : Int) = 0 := rfl
    rw [z0] at hw
    rw [unpack_filter, unpackFilter]
    simp only [slice_win, hw, hlen]
    rcases hl : filterLoop (unpackFilter depth) (win view off len) off len ⟨0, none, none⟩ with e | st
    · rfl
    · rw [hl] at hinv
      obtain ⟨rd, ps, pf⟩ := st
      simp only [FilterTotal.FLoopOk, FilterTotal.FInv] at hinv
      simp only [castFL, bind_ok]
      rcases ps with _ | p
      · rcases pf with _ | g <;> simp [optInt]
      · have hp : p ≤ len := hinv.2.1 p rfl
        by_cases hp0 : p = 0
        · subst hp0; simp [optInt]
        · have : ¬ ((p : Nat) : Int) = 0 := by omega
          simp only [optInt, ne_eq, this, not_false_eq_true, if_true, castRes, ofFErr]
          congr 2 <;> omega

/-! ### `LDAPFilter.from_string` -/

def castF : Except FErr Filter → Except GErr Filter
  | .ok f => .ok f
  | .error e => .error (ofFErr e)

theorem win_all (b : Bytes) : win b 0 b.length = b := by simp [win]

theorem from_string_eq (fuel depth : Nat) (s : List Nat)
    (hfuel : (utf8Encode (pyStrip s)).length + 1 < fuel) :
    LDAPFilter_from_string fuel depth s = castF (parseFilterText depth s) := by
  unfold LDAPFilter_from_string parseFilterText
  simp only []
  generalize utf8Encode (pyStrip s) = b at hfuel ⊢
  have hu := unpack_filter_eq fuel b hfuel depth 0 b.length (by omega)
  have z0 : ((0 : Nat) : Int) = 0 := rfl
  rw [z0, win_all] at hu
  simp only [len_eq, hu, bind_ok]
  rcases unpackFilter depth b 0 with e | ⟨f, consumed⟩
  · rcases e with ⟨o, l⟩ | _ | _ <;> rfl
  · simp only [castRes, tryRecursion, bind_ok]
    by_cases hc : consumed < b.length
    · have : ((consumed : Nat) : Int) < (b.length : Int) := by omega
      simp only [this, hc, ↓reduceIte, castF, ofFErr]
      congr 2; omega
    · have : ¬ ((consumed : Nat) : Int) < (b.length : Int) := by omega
      simp only [this, hc, ↓reduceIte, castF]

end Verif.Proofs.FilterGen
