/-
C18 / BER decoding steps, part 3: budget statements (`Spec`) for the reader methods — standalone
(`read_x(tag=…)`, the header is read inside) and after a peek (`read_x(header=h)`) — and for the
generic `while reader:` loop.
-/
import Verif.Proofs.MsgStepsPrim

namespace Verif.Proofs.MsgSteps
open Verif Verif.MsgSteps Verif.Proofs

theorem readTLVS_steps_le (W : Nat) (e : Option Tag) (bs : Bytes) :
    (readTLVS W e bs).steps ≤ 1 + hcost W bs := by
  have hx : (readHeaderS W bs).res = readHeader bs := readHeaderS_res W bs
  cases e with
  | none =>
    simp only [readTLVS, steps_tick]
    cases hy : readHeader bs with
    | error err =>
      rw [bind_err (x := free (readHeaderS W bs)) (by rw [res_free, hx, hy])]
      simp only [steps_free]; omega
    | ok h =>
      rw [bind_ok (x := free (readHeaderS W bs)) (by rw [res_free, hx, hy])]
      simp only [steps_free]
      split
      · simp only [steps_fail]; omega
      · split
        · simp only [steps_fail]; omega
        · simp only [steps_pure]; omega
  | some t =>
    simp only [readTLVS, steps_tick]
    cases hy : readHeader bs with
    | error err =>
      rw [bind_err (by rw [hx, hy])]
      simp only [hcost]; omega
    | ok h =>
      rw [bind_ok (by rw [hx, hy])]
      simp only [hcost]
      split
      · simp only [steps_fail]; omega
      · split
        · simp only [steps_fail]; omega
        · simp only [steps_pure]; omega

/-- a peek: what it leaves is two more reads of this header, `SLACK`, and the potential of
    everything behind the header -/
theorem readHeaderS_spec {A : Nat} (W : Nat) (hA : 16 ≤ A) (bs : Bytes) :
    Spec (readHeaderS W bs) (pot A W bs.length)
      (fun h => 2 * hcost W bs + 20 + pot A W (bs.length - h.hlen)) := by
  unfold Spec
  cases hr : (readHeaderS W bs).res with
  | error e =>
    have := hcost_fail (W := W) hA bs
    simp only [hcost] at this
    simp only [D]; omega
  | ok h =>
    have := hcost_pot (W := W) hA bs h (by rw [← readHeaderS_res W]; exact hr)
    simp only [hcost, SLACK] at this ⊢
    omega

/-- a TLV read when the header of `bs` is known to be `h` (it has been peeked, or not) -/
theorem readTLVS_after (A W : Nat) (e : Option Tag) (bs : Bytes) (h : Header)
    (hh : readHeader bs = .ok h) (F : Nat) :
    Spec (readTLVS W e bs) (1 + hcost W bs + pot A W (bs.length - h.hlen) + F)
      (fun p => pot A W p.1.length + pot A W p.2.length + F) := by
  have hle := readTLVS_steps_le W e bs
  unfold Spec
  cases hr : (readTLVS W e bs).res with
  | error err => simp only; omega
  | ok p =>
    obtain ⟨c, r⟩ := p
    obtain ⟨h', hh', _, hlen, rfl, rfl⟩ := readTLV_ok e bs c r (by rw [← readTLVS_res W]; exact hr)
    rw [hh] at hh'; cases hh'
    simp only [List.length_drop] at hlen
    simp only [List.length_take, List.length_drop]
    have h1 := pot_superadd A W (min h.len (bs.length - h.hlen)) (bs.length - h.hlen - h.len)
    have h2 : min h.len (bs.length - h.hlen) + (bs.length - h.hlen - h.len) = bs.length - h.hlen := by
      omega
    rw [h2] at h1
    omega

/-- a standalone TLV read -/
theorem readTLVS_spec {A : Nat} (W : Nat) (hA : 16 ≤ A) (e : Option Tag) (bs : Bytes) :
    Spec (readTLVS W e bs) (pot A W bs.length)
      (fun p => pot A W p.1.length + pot A W p.2.length + (2 * hcost W bs + 19)) := by
  cases hy : readHeader bs with
  | error err =>
    have hle := readTLVS_steps_le W e bs
    have hf := hcost_fail (W := W) hA bs
    have hr : (readTLVS W e bs).res = .error err := by
      rw [readTLVS_res, readTLV_eq, hy]
    unfold Spec; rw [hr]; simp only [D]; omega
  | ok h =>
    have hp := hcost_pot (W := W) hA bs h hy
    refine (readTLVS_after A W e bs h hy (2 * hcost W bs + 19)).mono ?_ (fun _ _ => Nat.le_refl _)
    simp only [SLACK] at hp ⊢
    omega

/-! ### the reader methods, from any budget statement of the TLV read underneath -/

section readers
variable {A W : Nat} {e : Option Tag} {bs : Bytes} {B F : Nat}

/-- the shape of the TLV statements above (at coefficient `A + 1`) -/
abbrev TQ (A W F : Nat) : Bytes × Bytes → Nat :=
  fun p => pot (A + 1) W p.1.length + pot (A + 1) W p.2.length + F

/-- `read_octet_string`: the copy is paid, the value keeps the potential `pot A` (one less) -/
theorem readOctetsS_of (hT : Spec (readTLVS W e bs) B (TQ A W F)) :
    Spec (readOctetsS W e bs) B (fun p => pot A W p.1.length + pot (A + 1) W p.2.length + F) := by
  unfold readOctetsS
  refine Spec.bind hT (Nat.le_refl _) (fun p _ => ?_)
  obtain ⟨c, r⟩ := p
  have := pot_succ A W c.length
  refine Spec.tick (by simp only [TQ]; omega) (Spec.pure ?_)
  simp only [TQ]; omega

/-- `read_octet_string().decode()`: copy and decode are paid, eight more steps per octet remain -/
theorem readTextS_of (hA : 16 ≤ A) (hT : Spec (readTLVS W e bs) B (TQ A W F)) :
    Spec (readTextS W e bs) B (fun p => 8 * p.1.length + pot (A + 1) W p.2.length + F) := by
  unfold readTextS
  refine Spec.bind hT (Nat.le_refl _) (fun p _ => ?_)
  obtain ⟨c, r⟩ := p
  have := pot_ge (A + 1) W c.length 10 (by omega)
  refine Spec.tick (by simp only [TQ]; omega) ?_
  refine Spec.bind (Bx := c.length) (Q := fun _ => 0)
    (Spec.lift (Nat.le_refl _) (fun _ _ => by omega)) (by simp only [TQ]; omega) (fun t ht => ?_)
  have : t = c := by
    simp only [res_lift, decodeText] at ht
    split at ht
    · cases ht; rfl
    · cases ht
  subst this
  refine Spec.pure ?_
  simp only [TQ]; omega

theorem intSteps_le (W extra : Nat) (c : Bytes) :
    intSteps W extra c ≤ (5 + extra) * c.length + W * c.length * c.length := by
  unfold intSteps
  cases c with
  | nil => simp
  | cons b0 t =>
    have := accSteps_le0 W (b0 :: t).length
    simp only
    rw [Nat.add_mul]
    split <;> omega

/-- `read_integer` / `read_enumerated` -/
theorem readIntS_of (hA : 16 ≤ A) {extra : Nat} (hx : extra ≤ 3)
    (hT : Spec (readTLVS W e bs) B (TQ A W F)) :
    Spec (readIntS W extra e bs) B (fun p => pot (A + 1) W p.2.length + F) := by
  unfold readIntS
  refine Spec.bind hT (Nat.le_refl _) (fun p _ => ?_)
  obtain ⟨c, r⟩ := p
  have h1 := pot_ge (A + 1) W c.length 8 (by omega)
  have h2 := intSteps_le W extra c
  have h3 : (5 + extra) * c.length ≤ 8 * c.length := Nat.mul_le_mul_right _ (by omega)
  refine Spec.bind (Bx := intSteps W extra c) (Q := fun _ => 0)
    (Spec.lift (Nat.le_refl _) (fun _ _ => by omega)) (by simp only [TQ]; omega) (fun v _ => ?_)
  refine Spec.pure ?_
  simp only [TQ]; omega

/-- `read_boolean` -/
theorem readBoolS_of (hA : 16 ≤ A) (hT : Spec (readTLVS W e bs) B (TQ A W F)) :
    Spec (readBoolS W e bs) B (fun p => pot (A + 1) W p.2.length + F) := by
  unfold readBoolS
  refine Spec.bind hT (Nat.le_refl _) (fun p _ => ?_)
  obtain ⟨c, r⟩ := p
  have := pot_ge (A + 1) W c.length 1 (by omega)
  refine Spec.tick (by simp only [TQ]; omega) (Spec.pure ?_)
  simp only [TQ]; omega

end readers

/-! ### `skip_value` after a peek -/

theorem skipValue_after (bs r : Bytes) (h : Header) (hh : readHeader bs = .ok h)
    (hs : skipValue bs = .ok r) : r.length ≤ bs.length - h.hlen := by
  unfold skipValue at hs
  rw [hh] at hs
  cases hs
  simp only [List.length_drop]
  omega

/-! ### `while reader: x = dec1(reader)` -/

theorem loopManyS_res {α : Type} (decS : Bytes → S (α × Bytes)) (dec : Bytes → Except Err (α × Bytes))
    (h : ∀ bs, (decS bs).res = dec bs) :
    ∀ (fuel : Nat) (bs : Bytes), (loopManyS decS fuel bs).res = loopMany dec fuel bs := by
  intro fuel
  induction fuel with
  | zero =>
    intro bs
    simp only [loopManyS, loopMany, res_tick]
    split <;> rfl
  | succ n ih =>
    intro bs
    simp only [loopManyS, loopMany, res_tick]
    split
    · rfl
    · refine bind_res_congr (h bs) (fun p => ?_)
      obtain ⟨x, r⟩ := p
      exact bind_res_congr (ih r) (fun _ => rfl)

/-- if every element, given its entry fee, leaves the potential of what follows it, one step for
    the next test of the loop condition and the next fee, the loop costs the potential of its
    input, plus one, plus one fee -/
theorem loopManyS_spec {α : Type} (P : Nat → Nat) (fee : Nat) (decS : Bytes → S (α × Bytes))
    (h : ∀ bs, Spec (decS bs) (P bs.length + fee) (fun p => 1 + fee + P p.2.length)) :
    ∀ (fuel : Nat) (bs : Bytes),
      Spec (loopManyS decS fuel bs) (P bs.length + 1 + fee) (fun _ => 0) := by
  intro fuel
  induction fuel with
  | zero =>
    intro bs
    simp only [loopManyS]
    refine Spec.tick (by omega) ?_
    split
    · exact Spec.pure (by omega)
    · exact Spec.fail
  | succ n ih =>
    intro bs
    simp only [loopManyS]
    refine Spec.tick (by omega) ?_
    split
    · exact Spec.pure (by omega)
    · refine Spec.bind (h bs) (by omega) (fun p _ => ?_)
      obtain ⟨x, r⟩ := p
      refine Spec.bind (ih r) (by simp only; omega) (fun xs _ => ?_)
      exact Spec.pure (by omega)

end Verif.Proofs.MsgSteps
