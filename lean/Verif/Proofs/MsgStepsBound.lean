/-
C18 / BER decoding steps, part 8: the bounds in closed form (`A = 16`: coefficient 18 for a
message, 17 for a filter alone).
-/
import Verif.Proofs.MsgStepsTop
import Verif.Proofs.MsgStepsSame

namespace Verif.Proofs.MsgSteps
open Verif Verif.MsgSteps Verif.Proofs

theorem msg_steps_same_result (W : Nat) (regs : Regs) (depth : Nat) (bs : Bytes) :
    (decMsgS W regs depth bs).res = decMsg regs depth bs := decMsgS_res W regs depth bs

/-- the bound in terms of the potential: `18n + 3·W·n² + 6` -/
theorem msg_steps_pot (W : Nat) (regs : Regs) (depth : Nat) (bs : Bytes) :
    (decMsgS W regs depth bs).steps ≤ 18 * bs.length + 3 * (W * bs.length * bs.length) + 6 := by
  have h := (decMsgS_spec (A := 16) W (by omega) regs depth bs).total
  have h' : (decMsgS W regs depth bs).steps ≤ pot 18 W bs.length + 2 + 4 := h
  unfold pot at h'
  omega

theorem msg_steps_linear (regs : Regs) (depth : Nat) (bs : Bytes) :
    (decMsgS 0 regs depth bs).steps ≤ 18 * (bs.length + 1) := by
  have := msg_steps_pot 0 regs depth bs
  simp only [Nat.zero_mul, Nat.mul_zero] at this
  omega

theorem pow_form (W m : Nat) : 3 * W * (m + 1) ^ 2 = 3 * (W * (m + 1) * (m + 1)) := by
  simp only [Nat.pow_two, Nat.mul_assoc]

theorem msg_steps_quadratic (W : Nat) (regs : Regs) (depth : Nat) (bs : Bytes) :
    (decMsgS W regs depth bs).steps ≤ 18 * (bs.length + 1) + 3 * W * (bs.length + 1) ^ 2 := by
  have := msg_steps_pot W regs depth bs
  have h2 : W * bs.length * bs.length ≤ W * (bs.length + 1) * (bs.length + 1) :=
    sq_mono W (by omega)
  rw [pow_form]
  omega

theorem recv_steps_same_result (W : Nat) (regs : Regs) (depth fuel : Nat) (bs : Bytes) :
    (parseLoopS W regs depth fuel bs).res = parseLoop regs depth fuel bs :=
  parseLoopS_res W regs depth fuel bs

theorem recv_steps_pot (W : Nat) (regs : Regs) (depth fuel : Nat) (bs : Bytes) :
    (parseLoopS W regs depth fuel bs).steps ≤
      18 * bs.length + 3 * (W * bs.length * bs.length) + 11 := by
  have h := (parseLoopS_spec (A := 16) W (by omega) regs depth fuel bs).total
  have h' : (parseLoopS W regs depth fuel bs).steps ≤ pot 18 W bs.length + 7 + 4 := h
  unfold pot at h'
  omega

theorem recv_steps_linear (regs : Regs) (depth fuel : Nat) (bs : Bytes) :
    (parseLoopS 0 regs depth fuel bs).steps ≤ 18 * (bs.length + 1) := by
  have := recv_steps_pot 0 regs depth fuel bs
  simp only [Nat.zero_mul, Nat.mul_zero] at this
  omega

theorem recv_steps_quadratic (W : Nat) (regs : Regs) (depth fuel : Nat) (bs : Bytes) :
    (parseLoopS W regs depth fuel bs).steps ≤
      18 * (bs.length + 1) + 3 * W * (bs.length + 1) ^ 2 := by
  have := recv_steps_pot W regs depth fuel bs
  have h2 : W * bs.length * bs.length ≤ W * (bs.length + 1) * (bs.length + 1) :=
    sq_mono W (by omega)
  rw [pow_form]
  omega

/-- `LDAPFilter.unpack` alone -/
theorem ber_filter_steps_same_result (W : Nat) (regs : Regs) (depth : Nat) (bs : Bytes) :
    (decFilterS W regs depth bs).res = decFilter regs depth bs := decFilterS_res W regs depth bs

theorem ber_filter_steps_linear (regs : Regs) (depth : Nat) (bs : Bytes) :
    (decFilterS 0 regs depth bs).steps ≤ 17 * (bs.length + 1) := by
  have h := (decFilterS_spec (A := 16) 0 (by omega) regs depth bs).total
  have h' : (decFilterS 0 regs depth bs).steps ≤ pot 17 0 bs.length + 1 + 4 := h
  rw [pot_W0] at h'
  omega

/-- one control, with the nested parse of a paged-results value -/
theorem control_steps_linear (regs : Regs) (bs : Bytes) :
    (decControlS 0 regs bs).steps ≤ 18 * (bs.length + 1) := by
  have h := (decControlS_spec (A := 16) 0 (by omega) regs bs).total
  have h' : (decControlS 0 regs bs).steps ≤ pot 18 0 bs.length + 1 + 4 := h
  rw [pot_W0] at h'
  omega

/-- a header read: at most two steps per header octet, plus the big-integer weight -/
theorem header_steps (W : Nat) (bs : Bytes) :
    (readHeaderS W bs).steps ≤ 2 * bs.length + 3 + W * bs.length * bs.length :=
  (hcost_bounds W bs).2

/-- the big-integer loop, exactly: `n` iterations starting from an integer of `idx` octets cost
    `n + W·(n·idx + n(n-1)/2)` -/
theorem accSteps_exact (W : Nat) : ∀ n idx,
    2 * accSteps W n idx + W * n = 2 * n + 2 * (W * (n * idx)) + W * (n * n) := by
  intro n
  induction n with
  | zero => intro idx; simp [accSteps]
  | succ n ih =>
    intro idx
    have := ih (idx + 1)
    simp only [accSteps]
    have e1 : W * ((n + 1) * idx) = W * (n * idx) + W * idx := by
      rw [Nat.add_mul, Nat.mul_add, Nat.one_mul]
    have e2 : W * (n * (idx + 1)) = W * (n * idx) + W * n := by
      rw [Nat.mul_add n, Nat.mul_add, Nat.mul_one]
    have e3 : W * ((n + 1) * (n + 1)) = W * (n * n) + 2 * (W * n) + W := by
      simp only [Nat.mul_add, Nat.add_mul, Nat.mul_one, Nat.one_mul]
      omega
    have e4 : W * (n + 1) = W * n + W := by rw [Nat.mul_add, Nat.mul_one]
    omega

/-- … hence at least `W·n(n-1)/2`: quadratic as soon as `W > 0` -/
theorem accSteps_quadratic_lower (W n : Nat) : W * (n * n) ≤ 2 * accSteps W n 0 + W * n := by
  have := accSteps_exact W n 0
  simp only [Nat.mul_zero] at this
  omega

/-- the integer content loop is part of `read_integer`'s steps -/
theorem intSteps_lower (W extra : Nat) (b0 : Nat) (t : Bytes) :
    accSteps W (b0 :: t).length 0 ≤ intSteps W extra (b0 :: t) := by
  simp only [intSteps]
  omega

end Verif.Proofs.MsgSteps
