/-
Tie between the schema patterns and the scanner of `Model/Schema.lean`, part 4: the top level
of a description pattern — the head `\( WSP (?P<oid>…)`, the optional groups, the tail
`(?P<extensions>…) WSP \)` — as first-success (`FS`) equations against `Schema.head`,
`Schema.optKw`, `Schema.optFlag`, `Schema.optWord`, `Schema.tail`.

Core Lean only.
-/
import Verif.Proofs.ReSchemaMatchItems

set_option linter.unusedSimpArgs false
set_option linter.unusedVariables false

namespace Verif.Proofs.SchemaTie
open Verif Verif.Re Verif.Proofs.ReCost Verif.Proofs.Small Verif.Proofs.SchemaRe

/-! ### the patterns with their named groups, as compositions of the named parts -/

/-- `(SP keyword SP (?P<id>body))?` -/
def gKwG (k : List Nat) (id : Nat) (body : Re) : Re := optSp (kwCat k (.cat sp (.group id body)))
/-- `(?P<id> SP keyword)?` -/
def gFlagG (k : List Nat) (id : Nat) : Re := .alt (.group id (.cat sp (kw k))) .eps
/-- `(SP (?P<id>A|B|C))?` -/
def gWordG (id : Nat) (alts : Re) : Re := optSp (.group id alts)
/-- one extension, the XSTRING captured -/
def extG (idx : Nat) : Re := .cat sp (.cat (.group idx xstring) (.cat sp qdstrings))
/-- `(?P<extensions>…) WSP \)` -/
def tailEndG (ide idx : Nat) : Re := .cat (.group ide (.star (extG idx))) closeP
/-- `\( WSP (?P<oid>NUMERICOID) rest` -/
def schemaG (t : Re) : Re := .cat (.cls cLP) (.cat wsp (.cat (.group 1 numericoid) t))

/-! ### where the rest of a pattern can go on: at a space or at `)` -/

theorem Fails.group {a : Re} {Q : List Nat → Bool} (h : Fails a Q) (id : Nat) : Fails (Re.group id a) Q := by
  intro t ht; rw [runs_group]; exact h t ht

theorem SR_S : ∀ t, SR t = false → S t = false := by
  intro t ht
  cases t with
  | nil => rfl
  | cons c r => simp [SR, cSR, cSpace, inCls] at ht ⊢; omega

theorem SR_PC : ∀ t, SR t = false → PC t = false := by
  intro t ht
  cases t with
  | nil => rfl
  | cons c r =>
    have hs : inCls cSpace c = false := SR_S _ ht
    simp only [PC, pastIn, List.dropWhile_cons, hs]
    simp [SR, cSR, cRP, inCls] at ht ⊢; omega

theorem extG_fails (idx : Nat) : Fails (extG idx) S := Fails.cat sp_dead.fails _

theorem tailEndG_fails (ide idx : Nat) : Fails (tailEndG ide idx) SR := by
  intro t ht
  rw [tailEndG, runs_cat, runs_group, runs_star_of_nil (extG_fails idx t (SR_S t ht))]
  simp [closeP_fails t (SR_PC t ht)]

/-- an optional group in front of a rest that needs a space or `)` -/
theorem fails_opt {y k : Re} (hy : Fails y S) (hk : Fails k SR) : Fails (Re.cat (Re.alt y Re.eps) k) SR := by
  intro t ht
  rw [runs_cat, runs_alt, hy t (SR_S t ht), runs_eps]
  simp [hk t ht]

theorem gKwG_fails (v : List Nat) (id : Nat) (body : Re) {k : Re} (hk : Fails k SR) :
    Fails (Re.cat (gKwG v id body) k) SR := fails_opt (sp_then_dead _).fails hk

theorem gFlagG_fails (v : List Nat) (id : Nat) {k : Re} (hk : Fails k SR) :
    Fails (Re.cat (gFlagG v id) k) SR := fails_opt (Fails.group (sp_then_dead _).fails id) hk

theorem gWordG_fails (id : Nat) (alts : Re) {k : Re} (hk : Fails k SR) :
    Fails (Re.cat (gWordG id alts) k) SR := fails_opt (sp_then_dead _).fails hk

/-! ### a rest is dead where an earlier keyword stands -/

/-- after its leading spaces (at least one) the input continues with `w` -/
def kwAt (w : List Nat) (s : List Nat) : Prop := (Schema.sp1 s).bind (Schema.lit w) ≠ none

def DeadKw (k : Re) (w : List Nat) : Prop := ∀ s, Valid s → kwAt w s → runs k s = []

theorem runs_sp_cat {z : Re} (hz : Fails z NS) (s : List Nat) (hv : Valid s) :
    runs (Re.cat sp z) s = match Schema.sp1 s with
      | some t => runs z t
      | none => [] := by
  rw [runs_cat, flatMap_filter_dead _ NS _ (fun t _ hq => hz t hq), (sp_det notStartsIn_self_false).eq s hv]
  cases hs : Schema.sp1 s with
  | none => rfl
  | some t =>
    have : NS t = true := by simp [notStartsIn, sp1_NS hs]
    simp [this]

theorem runs_kwCat_nil {z : Re} : ∀ (v t : List Nat), Schema.lit v t = none → runs (kwCat v z) t = []
  | [], t, h => by simp [lit_nil] at h
  | c :: cs, t, h => by
    rw [lit_cons] at h
    rw [kwCat, runs_cat]
    cases t with
    | nil => show (runs (Re.cls [(c, c)]) []).flatMap _ = []; rw [runs_cls_nil]; rfl
    | cons x r =>
      rw [clsScan_cons] at h
      show (runs (Re.cls [(c, c)]) (x :: r)).flatMap _ = []
      rw [runs_cls_cons]
      split
      · rename_i hx
        simp only [hx, if_true, Option.bind_some] at h
        simp [runs_kwCat_nil cs r h]
      · rfl

theorem runs_kw_nil : ∀ (v t : List Nat), Schema.lit v t = none → runs (kw v) t = []
  | [], t, h => by simp [lit_nil] at h
  | [c], t, h => by
    rw [lit_cons] at h
    cases t with
    | nil => exact runs_cls_nil _
    | cons x r =>
      rw [clsScan_cons] at h
      show runs (Re.cls [(c, c)]) (x :: r) = []
      rw [runs_cls_cons]
      split
      · rename_i hx; simp [hx, lit_nil] at h
      · rfl
  | c :: c' :: cs, t, h => by
    rw [lit_cons] at h
    rw [kw, runs_cat]
    cases t with
    | nil => show (runs (Re.cls [(c, c)]) []).flatMap _ = []; rw [runs_cls_nil]; rfl
    | cons x r =>
      rw [clsScan_cons] at h
      show (runs (Re.cls [(c, c)]) (x :: r)).flatMap _ = []
      rw [runs_cls_cons]
      split
      · rename_i hx
        simp only [hx, if_true, Option.bind_some] at h
        simp [runs_kw_nil (c' :: cs) r h]
      · rfl

/-- the optional group is skipped where another keyword stands -/
theorem runs_opt_of_kwAt {x : Re} {w : List Nat} (hx : Fails x NS)
    (hd : ∀ t, Schema.lit w t ≠ none → runs x t = []) (s : List Nat) (hv : Valid s) (hs : kwAt w s) :
    runs (optSp x) s = [s] := by
  rw [optSp, runs_alt, runs_sp_cat hx s hv, runs_eps]
  cases hsp : Schema.sp1 s with
  | none => rfl
  | some t =>
    have : Schema.lit w t ≠ none := by simpa [kwAt, hsp] using hs
    simp [hd t this]

theorem kwCat_fails_NS {c : Nat} (hc : inCls cSpace c = false) (cs : List Nat) (z : Re) :
    Fails (kwCat (c :: cs) z) NS := (Dead.kwCat c cs z).fails.mono (disj_lit hc).not_false

theorem kw_fails_NS {c : Nat} (hc : inCls cSpace c = false) (cs : List Nat) : Fails (kw (c :: cs)) NS :=
  (Dead.kw c cs).fails.mono (disj_lit hc).not_false

theorem DeadKw.of_skip {g k : Re} {w : List Nat} (hg : ∀ s, Valid s → kwAt w s → runs g s = [s]) (hk : DeadKw k w) :
    DeadKw (Re.cat g k) w := by
  intro s hv hs
  rw [runs_cat, hg s hv hs]
  simp [hk s hv hs]

/-- skipping `(SP keyword SP (?P<id>body))?` -/
theorem DeadKw.optKw {k : Re} {w : List Nat} {c : Nat} {cs : List Nat} {id : Nat} {body : Re} (hk : DeadKw k w)
    (hc : inCls cSpace c = false) (hw : clash w (c :: cs) = true) : DeadKw (Re.cat (gKwG (c :: cs) id body) k) w :=
  DeadKw.of_skip (fun s hv hs => runs_opt_of_kwAt (kwCat_fails_NS hc cs _)
    (fun t ht => runs_kwCat_nil _ t (lit_clash hw ht)) s hv hs) hk

/-- skipping `(?P<id> SP keyword)?` -/
theorem DeadKw.optFlag {k : Re} {w : List Nat} {c : Nat} {cs : List Nat} {id : Nat} (hk : DeadKw k w)
    (hc : inCls cSpace c = false) (hw : clash w (c :: cs) = true) : DeadKw (Re.cat (gFlagG (c :: cs) id) k) w := by
  refine DeadKw.of_skip (fun s hv hs => ?_) hk
  have := runs_opt_of_kwAt (kw_fails_NS hc cs) (fun t ht => runs_kw_nil _ t (lit_clash hw ht)) s hv hs
  rw [optSp, runs_alt] at this
  rw [gFlagG, runs_alt, runs_group]
  exact this

/-- skipping `(SP (?P<id>A|B|C))?` -/
theorem DeadKw.optWord3 {k : Re} {w : List Nat} {a b c : Nat} {as bs cs : List Nat} {id : Nat} (hk : DeadKw k w)
    (ha : inCls cSpace a = false) (hb : inCls cSpace b = false) (hc : inCls cSpace c = false)
    (hwa : clash w (a :: as) = true) (hwb : clash w (b :: bs) = true) (hwc : clash w (c :: cs) = true) :
    DeadKw (Re.cat (gWordG id (Re.alt (kw (a :: as)) (Re.alt (kw (b :: bs)) (kw (c :: cs))))) k) w := by
  refine DeadKw.of_skip (fun s hv hs => ?_) hk
  refine runs_opt_of_kwAt (Fails.group (Fails.alt (kw_fails_NS ha as) (Fails.alt (kw_fails_NS hb bs)
    (kw_fails_NS hc cs))) id) (fun t ht => ?_) s hv hs
  rw [runs_group, runs_alt, runs_alt, runs_kw_nil _ t (lit_clash hwa ht), runs_kw_nil _ t (lit_clash hwb ht),
    runs_kw_nil _ t (lit_clash hwc ht)]
  rfl

/-- the tail is dead at a keyword that starts with neither `x`, `X` nor `)` -/
theorem DeadKw.tail {c : Nat} (cs : List Nat) (ide idx : Nat) (h1 : inCls cXx c = false) (h2 : inCls cRP c = false) :
    DeadKw (tailEndG ide idx) (c :: cs) := by
  intro s hv hs
  have hx : runs (extG idx) s = [] := by
    rw [extG, runs_sp_cat (((Fails.group xstring_dead.fails idx).cat _).mono space_xx.not_false) s hv]
    cases hsp : Schema.sp1 s with
    | none => rfl
    | some t =>
      have hl : Schema.lit (c :: cs) t ≠ none := by simpa [kwAt, hsp] using hs
      obtain ⟨u, rfl⟩ := lit_ne_none hl
      exact ((Fails.group xstring_dead.fails idx).cat _) _ (by simpa using h1)
  have hc : runs closeP s = [] := by
    apply closeP_fails
    show PC s = false
    rw [PC_eq]
    cases hsp : Schema.sp1 s with
    | none => simp [kwAt, hsp] at hs
    | some t =>
      have hl : Schema.lit (c :: cs) t ≠ none := by simpa [kwAt, hsp] using hs
      obtain ⟨u, rfl⟩ := lit_ne_none hl
      rw [sp1_wsp hsp]
      simpa using h2
  rw [tailEndG, runs_cat, runs_group, runs_star_of_nil hx]
  simp [hc]

/-! ### first-success equations for the optional groups -/

/-- the captures after an optional group -/
def pushOpt (id : Nat) (o : Option (List Nat)) (c : Caps) : Caps :=
  match o with
  | some v => (id, v) :: c
  | none => c

theorem kwCat_detG {z : Re} {P : List Nat → Bool} {sz : ScanG} (hz : DetG z P sz) :
    ∀ w, DetG (kwCat w z) P (fun s c => (Schema.lit w s).bind (fun t => sz t c))
  | [] => hz.congr (fun s c => by rw [lit_nil]; rfl)
  | x :: xs =>
    (DetG.cat_top ((Det.cls [(x, x)] top).toG rfl) (kwCat_detG hz xs)).congr (fun s c => by
      rw [lit_cons]
      cases clsScan [(x, x)] s <;> rfl)

theorem plain_kw : ∀ v, plain (kw v) = true
  | [] => rfl
  | [_] => rfl
  | _ :: c' :: cs => by rw [kw, plain, plain_kw (c' :: cs)]; rfl

theorem plain_sp : plain sp = true := rfl

theorem sp_detG : DetG sp NS (fun s c => (Schema.sp1 s).map (fun t => (t, c))) :=
  (sp_det notStartsIn_self_false).toG rfl

/-- `SP keyword SP (?P<id>body)` -/
def kwScanG (v : List Nat) (id : Nat) (scanBody : Scan) : ScanG := fun s c =>
  ((Schema.sp1 s).map (fun t => (t, c))).bind (fun p => (Schema.lit v p.1).bind (fun t =>
    ((Schema.sp1 t).map (fun t => (t, p.2))).bind (fun p =>
      ((scanBody p.1).map (fun t => (t, p.2))).map (fun q => (q.1, (id, eaten p.1 q.1) :: q.2)))))

theorem kwScanG_detG {body : Re} {scanBody : Scan} {c0 : Nat} (cs : List Nat) (id : Nat)
    (hc0 : inCls cSpace c0 = false) (hb : Det body SR scanBody) (hp : plain body = true) (hbf : Fails body NS) :
    DetG (Re.cat sp (kwCat (c0 :: cs) (Re.cat sp (Re.group id body)))) SR (kwScanG (c0 :: cs) id scanBody) :=
  DetG.cat NS sp_detG
    (kwCat_detG (DetG.cat NS sp_detG ((hb.toG hp).group id) (filter_nil_of_fails (Fails.group hbf id) _)) (c0 :: cs))
    (filter_nil_of_fails (kwCat_fails_NS hc0 cs _) _)

theorem FS_gKwG {body k : Re} {scanBody : Scan} (kw : String) {c0 : Nat} {cs : List Nat} (id : Nat)
    (hkw : Schema.ofString kw = c0 :: cs) (hc0 : inCls cSpace c0 = false)
    (hb : Det body SR scanBody) (hp : plain body = true) (hbf : Fails body NS)
    (hk : Fails k SR) (hd : DeadKw k (c0 :: cs)) (s : List Nat) (c : Caps) (hv : Valid s) :
    FS (Re.cat (gKwG (c0 :: cs) id body) k) s c =
      FS k (Schema.optKw kw scanBody s).2 (pushOpt id (Schema.optKw kw scanBody s).1 c) := by
  have hy := kwScanG_detG cs id hc0 hb hp hbf
  have hdead : kwScanG (c0 :: cs) id scanBody s c ≠ none → runs k s = [] := by
    intro hne
    apply hd s hv
    intro hn
    apply hne
    unfold kwScanG
    cases hsp : Schema.sp1 s with
    | none => rfl
    | some t =>
      have : Schema.lit (c0 :: cs) t = none := by simpa [hsp] using hn
      simp [this]
  rw [gKwG, optSp, FS_opt_detG hy hk s c hv hdead]
  unfold kwScanG Schema.optKw
  rw [hkw]
  cases hsp : Schema.sp1 s with
  | none => rfl
  | some a =>
    simp only [Option.map_some, Option.bind_some]
    cases hl : Schema.lit (c0 :: cs) a with
    | none => rfl
    | some b =>
      simp only [Option.bind_some]
      cases hs2 : Schema.sp1 b with
      | none => rfl
      | some r =>
        simp only [Option.map_some, Option.bind_some]
        cases hbody : scanBody r with
        | none => rfl
        | some r' => rfl

theorem optKw_suffix {body : Scan} (hb : Suf body) (kw : String) (s : List Nat) :
    (Schema.optKw kw body s).2 <:+ s := by
  unfold Schema.optKw
  cases hsp : Schema.sp1 s with
  | none => exact List.suffix_refl _
  | some a =>
    simp only [Option.bind_some]
    cases hl : Schema.lit (Schema.ofString kw) a with
    | none => exact List.suffix_refl _
    | some b =>
      simp only [Option.bind_some]
      cases hs2 : Schema.sp1 b with
      | none => exact List.suffix_refl _
      | some r =>
        simp only
        cases hbody : body r with
        | none => exact List.suffix_refl _
        | some r' =>
          have h1 := (sp_det (P := fun _ => false) (fun _ h => by simp at h)).suf
          exact (hb r r' hbody).trans ((h1 b r hs2).trans ((lit_suf _ a b hl).trans (h1 s a hsp)))

/-- `(?P<id> SP keyword)` -/
theorem FS_gFlagG {k : Re} (kw : String) {c0 : Nat} {cs : List Nat} (id : Nat)
    (hkw : Schema.ofString kw = c0 :: cs) (hc0 : inCls cSpace c0 = false)
    (hk : Fails k SR) (hd : DeadKw k (c0 :: cs)) (s : List Nat) (c : Caps) (hv : Valid s) :
    FS (Re.cat (gFlagG (c0 :: cs) id) k) s c =
      FS k (Schema.optFlag kw s).2
        (pushOpt id (if (Schema.optFlag kw s).1 then some (eaten s (Schema.optFlag kw s).2) else none) c) := by
  have hy := ((Det.cat NS (sp_det notStartsIn_self_false) (kw_det SR (c0 :: cs))
    (filter_nil_of_fails (kw_fails_NS hc0 cs) _)).toG (by simp [plain, plain_sp, plain_kw])).group id
  have hdead : (fun s c => (((Schema.sp1 s).bind (Schema.lit (c0 :: cs))).map (fun t => (t, c))).map
      (fun p => (p.1, (id, eaten s p.1) :: p.2))) s c ≠ none → runs k s = [] := by
    intro hne
    apply hd s hv
    intro hn
    apply hne
    simp only [hn, Option.map_none]
  rw [gFlagG, FS_opt_detG hy hk s c hv hdead]
  unfold Schema.optFlag
  rw [hkw]
  cases (Schema.sp1 s).bind (Schema.lit (c0 :: cs)) with
  | none => rfl
  | some r => rfl

theorem optFlag_suffix (kw : String) (s : List Nat) : (Schema.optFlag kw s).2 <:+ s := by
  unfold Schema.optFlag
  cases hsp : Schema.sp1 s with
  | none => exact List.suffix_refl _
  | some a =>
    simp only [Option.bind_some]
    cases hl : Schema.lit (Schema.ofString kw) a with
    | none => exact List.suffix_refl _
    | some b =>
      have h1 := (sp_det (P := fun _ => false) (fun _ h => by simp at h)).suf
      exact (lit_suf _ a b hl).trans (h1 s a hsp)

/-- an optional word out of three: `(SP (?P<id>A|B|C))?` -/
def wordScan (alts : Scan) (s : List Nat) : Option (List Nat) × List Nat :=
  match Schema.sp1 s with
  | none => (none, s)
  | some r =>
    match alts r with
    | some r' => (some (eaten r r'), r')
    | none => (none, s)

def word3 (a b c : List Nat) : Scan := fun s => (Schema.lit a s).or ((Schema.lit b s).or (Schema.lit c s))

theorem word3_det (P : List Nat → Bool) {a b c : List Nat} (hab : clash a b = true) (hac : clash a c = true)
    (hbc : clash b c = true) : Det (Re.alt (kw a) (Re.alt (kw b) (kw c))) P (word3 a b c) := by
  refine Det.alt (kw_det P a) (Det.alt (kw_det P b) (kw_det P c) (fun s hs => ?_)) (fun s hs => ?_)
  · rw [lit_clash hbc hs]; rfl
  · rw [lit_clash hab hs, lit_clash hac hs]; rfl

theorem FS_gWordG {k : Re} {a b c : Nat} {as bs cs : List Nat} (id : Nat)
    (ha : inCls cSpace a = false) (hb : inCls cSpace b = false) (hc : inCls cSpace c = false)
    (hab : clash (a :: as) (b :: bs) = true) (hac : clash (a :: as) (c :: cs) = true)
    (hbc : clash (b :: bs) (c :: cs) = true)
    (hk : Fails k SR) (hda : DeadKw k (a :: as)) (hdb : DeadKw k (b :: bs)) (hdc : DeadKw k (c :: cs))
    (s : List Nat) (c' : Caps) (hv : Valid s) :
    FS (Re.cat (gWordG id (Re.alt (kw (a :: as)) (Re.alt (kw (b :: bs)) (kw (c :: cs))))) k) s c' =
      FS k (wordScan (word3 (a :: as) (b :: bs) (c :: cs)) s).2
        (pushOpt id (wordScan (word3 (a :: as) (b :: bs) (c :: cs)) s).1 c') := by
  have hy := DetG.cat NS sp_detG (((word3_det SR hab hac hbc).toG (by simp [plain, plain_kw])).group id)
    (filter_nil_of_fails (Fails.group (Fails.alt (kw_fails_NS ha as) (Fails.alt (kw_fails_NS hb bs)
      (kw_fails_NS hc cs))) id) _)
  rw [gWordG, optSp, FS_opt_detG hy hk s c' hv ?_]
  · unfold wordScan
    cases hsp : Schema.sp1 s with
    | none => rfl
    | some r =>
      simp only [Option.map_some, Option.bind_some]
      cases hw : word3 (a :: as) (b :: bs) (c :: cs) r with
      | none => rfl
      | some r' => rfl
  · intro hne
    cases hsp : Schema.sp1 s with
    | none => simp [hsp] at hne
    | some r =>
      simp only [hsp, Option.map_some, Option.bind_some] at hne
      have hw : word3 (a :: as) (b :: bs) (c :: cs) r ≠ none := by
        intro hn; apply hne; simp [hn]
      unfold word3 at hw
      by_cases h1 : Schema.lit (a :: as) r = none
      · by_cases h2 : Schema.lit (b :: bs) r = none
        · have h3 : Schema.lit (c :: cs) r ≠ none := by simpa [h1, h2] using hw
          exact hdc s hv (by simpa [kwAt, hsp] using h3)
        · exact hdb s hv (by simpa [kwAt, hsp] using h2)
      · exact hda s hv (by simpa [kwAt, hsp] using h1)

theorem wordScan_suffix {alts : Scan} (ha : Suf alts) (s : List Nat) : (wordScan alts s).2 <:+ s := by
  unfold wordScan
  cases hsp : Schema.sp1 s with
  | none => exact List.suffix_refl _
  | some r =>
    simp only
    cases hw : alts r with
    | none => exact List.suffix_refl _
    | some r' =>
      have h1 := (sp_det (P := fun _ => false) (fun _ h => by simp at h)).suf
      exact (ha r r' hw).trans (h1 s r hsp)

/-! ### the head `\( WSP (?P<oid>NUMERICOID)` -/

theorem sr_digit : ∀ t, SR t = true → startsIn cDigit t = false := by
  intro t ht
  cases t with
  | nil => rfl
  | cons c r => simp [SR, cSR, cDigit, inCls] at ht ⊢; omega

theorem sr_dot : ∀ t, SR t = true → startsIn cDot t = false := by
  intro t ht
  cases t with
  | nil => rfl
  | cons c r => simp [SR, cSR, cDot, inCls] at ht ⊢; omega

theorem sr_noKey : ∀ t, SR t = true → noKey t = true := by
  intro t ht
  cases t with
  | nil => rfl
  | cons c r => simp [SR, cSR, cKey, inCls, notStartsIn] at ht ⊢; omega

theorem FS_head {K : Re} (hK : Fails K SR) (s : List Nat) (c : Caps) (hv : Valid s) :
    FS (schemaG K) s c = match Schema.head s with
      | none => none
      | some (oidT, r0) => FS K r0 ((1, oidT) :: c) := by
  have h1 : DetG (Re.cls cLP) top _ := (Det.cls cLP top).toG rfl
  have h2 : DetG wsp NS _ := (wsp_det notStartsIn_self_false).toG rfl
  have h3 : DetG (Re.group 1 numericoid) SR _ := ((numericoid_det sr_digit sr_dot).toG rfl).group 1
  rw [schemaG, FS_cat_detG h1 (fun t ht => by simp at ht) s c hv]
  cases s with
  | nil => rfl
  | cons x r =>
    simp only [Schema.head, clsScan_cons, cLP, inCls_single, Schema.LP]
    by_cases hx : x = 40
    · subst hx
      have hvr : Valid r := hv.tail
      simp only [if_true, decide_true, Option.map_some, Option.bind_some]
      rw [FS_cat_detG h2 (Fails.cat (Fails.group numericoid_dead_NS.fails 1) _) r c hvr]
      simp only [Option.map_some, Option.bind_some]
      rw [FS_cat_detG h3 hK _ c (hvr.suffix (wsp_suffix r))]
      cases Schema.numericoid (Schema.wsp r) with
      | none => rfl
      | some r2 => rfl
    · simp [hx]

theorem head_suffix {s : List Nat} {o r0 : List Nat} (h : Schema.head s = some (o, r0)) : r0 <:+ s := by
  cases s with
  | nil => simp [Schema.head] at h
  | cons x r =>
    simp only [Schema.head] at h
    split at h
    · cases hn : Schema.numericoid (Schema.wsp r) with
      | none => simp [hn] at h
      | some r2 =>
        simp [hn] at h
        have := (numericoid_det sr_digit sr_dot).suf _ _ hn
        rw [← h.2]
        exact this.trans ((wsp_suffix r).trans (List.suffix_cons _ _))
    · cases h

/-! ### the tail `(?P<extensions>…) WSP \)` -/

theorem idsIn_plain (I : Nat → Bool) : ∀ r : Re, plain r = true → idsIn I r = true
  | .eps, _ => rfl
  | .cls _, _ => rfl
  | .cat a b, h => by
    simp only [plain, Bool.and_eq_true] at h
    simp [idsIn, idsIn_plain I a h.1, idsIn_plain I b h.2]
  | .alt a b, h => by
    simp only [plain, Bool.and_eq_true] at h
    simp [idsIn, idsIn_plain I a h.1, idsIn_plain I b h.2]
  | .star a, h => by
    simp only [plain] at h
    simp [idsIn, idsIn_plain I a h]
  | .group _ _, h => by simp [plain] at h
  | .eos, _ => rfl
  | .eosNl, _ => rfl
  | .unsupported, _ => rfl

theorem extG_ids (idx : Nat) : idsIn (fun i => i == idx) (Re.star (extG idx)) = true := by
  simp only [idsIn, extG]
  rw [idsIn_plain _ sp rfl, idsIn_plain _ xstring rfl, idsIn_plain _ qdstrings rfl]
  simp

theorem runs_extG (idx : Nat) (s : List Nat) : runs (Re.star (extG idx)) s = runs exts s := by
  rw [← runs_erase]; rfl

theorem tail_eq (s : List Nat) :
    Schema.tail s = (closeScan (iter extStep s.length s)).map (fun _ => eaten s (iter extStep s.length s)) := by
  unfold Schema.tail
  rw [extensions_eq, closeScan_eq]
  simp only
  cases Schema.wsp (iter extStep s.length s) with
  | nil => rfl
  | cons c r =>
    simp only
    split <;> rfl

theorem closeScan_PC (s : List Nat) : (closeScan s).isSome = PC s := by
  rw [PC_eq, closeScan]
  cases Schema.wsp s with
  | nil => rfl
  | cons c r =>
    rw [clsScan_cons, startsIn_cons]
    cases inCls cRP c <;> rfl

/-- the captures after the tail: the extensions text on top of the XSTRING captures -/
theorem FS_tail (ide idx : Nat) (s : List Nat) (c : Caps) (hv : Valid s) :
    ∃ xs : Caps, (∀ q ∈ xs, q.1 = idx) ∧
      (FS (tailEndG ide idx) s c).map Prod.snd = (Schema.tail s).map (fun e => (ide, e) :: (xs ++ c)) := by
  let e := iter extStep s.length s
  have hclose : ∀ (t : List Nat) (c' : Caps), Valid t → FS closeP t c' = (closeScan t).map (fun r => (r, c')) := by
    intro t c' hvt
    rw [FS, RG_plain (by rfl), (closeP_det top).runs_top t hvt]
    cases closeScan t <;> rfl
  have hfs : FS (tailEndG ide idx) s c =
      ((RG (Re.group ide (Re.star (extG idx))) s c).filter (fun p => PC p.1)).findSome?
        (fun p => FS closeP p.1 p.2) := by
    rw [tailEndG, FS_cat]
    exact findSome_filter_dead _ (fun p : List Nat × Caps => PC p.1) _
      (fun p _ hp => FS_none_of_runs_nil p.2 (closeP_fails p.1 hp))
  have hfst : ((RG (Re.group ide (Re.star (extG idx))) s c).filter (fun p => PC p.1)).map Prod.fst = [e].filter PC := by
    have : ((RG (Re.group ide (Re.star (extG idx))) s c).filter (fun p => PC p.1)).map Prod.fst =
        (runs (Re.group ide (Re.star (extG idx))) s).filter PC := by
      rw [← RG_fst _ s c, List.filter_map]; rfl
    rw [this, runs_group, runs_extG, exts_det.eq s hv]
    rfl
  rw [tail_eq]
  cases hpc : PC e with
  | false =>
    have hnil : (RG (Re.group ide (Re.star (extG idx))) s c).filter (fun p => PC p.1) = [] := by
      apply List.map_eq_nil_iff.mp
      rw [hfst]; simp [hpc]
    have hcs : closeScan e = none := by
      have := closeScan_PC e
      rw [hpc] at this
      cases h : closeScan e with
      | none => rfl
      | some _ => rw [h] at this; cases this
    refine ⟨[], by simp, ?_⟩
    rw [hfs, hnil]
    show _ = Option.map _ (Option.map _ (closeScan e))
    rw [hcs]; rfl
  | true =>
    have hone : ((RG (Re.group ide (Re.star (extG idx))) s c).filter (fun p => PC p.1)).map Prod.fst = [e] := by
      rw [hfst]; simp [hpc]
    cases hL : (RG (Re.group ide (Re.star (extG idx))) s c).filter (fun p => PC p.1) with
    | nil => rw [hL] at hone; cases hone
    | cons p rest =>
      rw [hL] at hone
      simp only [List.map_cons, List.cons.injEq, List.map_eq_nil_iff] at hone
      obtain ⟨hp1, hrest⟩ := hone
      subst hrest
      have hmem : p ∈ RG (Re.group ide (Re.star (extG idx))) s c := by
        have : p ∈ (RG (Re.group ide (Re.star (extG idx))) s c).filter (fun p => PC p.1) := by rw [hL]; simp
        exact (List.mem_filter.mp this).1
      rw [RG_group, List.mem_map] at hmem
      obtain ⟨q, hq, hqp⟩ := hmem
      obtain ⟨xs, hxs, hI⟩ := RG_caps _ (extG_ids idx) s c q hq
      refine ⟨xs, fun z hz => by simpa using hI z hz, ?_⟩
      have hve : Valid e := hv.suffix (iter_suffix extStep_det.suf _ _)
      rw [hfs, hL]
      simp only [List.findSome?_cons, List.findSome?_nil]
      rw [← hqp] at hp1 ⊢
      simp only at hp1
      simp only [hp1, hclose e _ hve, hxs]
      show _ = Option.map _ (Option.map _ (closeScan e))
      cases closeScan e with
      | none => rfl
      | some r3 => rfl

/-! ### reading the captures -/

theorem capOf_cons (id id' : Nat) (v : List Nat) (c : Caps) :
    capOf id ((id', v) :: c) = if id' = id then some v else capOf id c := by
  unfold capOf
  rw [List.find?_cons]
  by_cases h : id' = id
  · simp [h]
  · have hb : (id' == id) = false := by simpa using h
    simp [h, hb]

theorem capOf_nil (id : Nat) : capOf id [] = none := rfl

theorem capOf_pushOpt_ne {id id' : Nat} (h : id' ≠ id) (o : Option (List Nat)) (c : Caps) :
    capOf id (pushOpt id' o c) = capOf id c := by
  cases o with
  | none => rfl
  | some v => rw [pushOpt, capOf_cons, if_neg h]

theorem capOf_pushOpt_eq {id : Nat} (o : Option (List Nat)) (c : Caps) (hc : capOf id c = none) :
    capOf id (pushOpt id o c) = o := by
  cases o with
  | none => exact hc
  | some v => rw [pushOpt, capOf_cons, if_pos rfl]

theorem capOf_append_ne {id idx : Nat} (h : idx ≠ id) (xs c : Caps) (hxs : ∀ q ∈ xs, q.1 = idx) :
    capOf id (xs ++ c) = capOf id c := by
  induction xs with
  | nil => rfl
  | cons q xs ih =>
    obtain ⟨i, v⟩ := q
    have hi : i = idx := hxs (i, v) (by simp)
    rw [List.cons_append, capOf_cons, if_neg (by rw [hi]; exact h)]
    exact ih (fun q hq => hxs q (by simp [hq]))

end Verif.Proofs.SchemaTie
