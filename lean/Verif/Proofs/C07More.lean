/-
Proofs for `Verif/Props/C07More.lean`: no over-read on arbitrary input.
Core Lean only; reuses the structural lemmas of `BerHeader` and `RecvFrame`.
-/
import Verif.Spec.C07More
import Verif.Spec.Twos
import Verif.Proofs.BerHeader
import Verif.Proofs.BerInt
import Verif.Proofs.RecvFrame

namespace Verif.Proofs.C07More

open Verif Verif.Proofs Verif.C07

/-! ### the header reader looks at the header octets only -/

theorem unpack_take (bs : Bytes) (acc idx num cnt : Nat)
    (h : unpackOctetNumber bs acc idx = .ok (num, cnt)) :
    idx + 1 ≤ cnt ∧ cnt - idx ≤ bs.length ∧
      unpackOctetNumber (bs.take (cnt - idx)) acc idx = .ok (num, cnt) := by
  induction bs generalizing acc idx with
  | nil => simp [unpackOctetNumber] at h
  | cons e rest ih =>
    simp only [unpackOctetNumber] at h
    split at h
    · rename_i hge
      obtain ⟨h1, h2, h3⟩ := ih _ _ h
      have hk : cnt - idx = (cnt - (idx + 1)) + 1 := by omega
      refine ⟨by omega, by simp only [List.length_cons]; omega, ?_⟩
      rw [hk, List.take_succ_cons]
      simp only [unpackOctetNumber, hge, ↓reduceIte]
      exact h3
    · rename_i hge
      simp only [Except.ok.injEq, Prod.mk.injEq] at h
      obtain ⟨rfl, rfl⟩ := h
      refine ⟨by omega, by simp only [List.length_cons]; omega, ?_⟩
      have hk : idx + 1 - idx = 0 + 1 := by omega
      rw [hk, List.take_succ_cons]
      simp [unpackOctetNumber, hge]

theorem idPart_take (o1 : Nat) (rest : Bytes) (num cnt : Nat)
    (h : idPart o1 rest = .ok (num, cnt)) : idPart o1 (rest.take cnt) = .ok (num, cnt) := by
  unfold idPart at h ⊢
  split
  · rename_i h31
    simp only [h31, ↓reduceIte] at h
    have := (unpack_take rest 0 0 num cnt h).2.2
    simpa using this
  · rename_i h31
    simp only [h31, ↓reduceIte] at h
    exact h

theorem readLen_take (t : Tag) (k : Nat) (bs : Bytes) (h : Header)
    (hr : readLen t k (bs.drop k) = .ok h) :
    readLen t k ((bs.take h.hlen).drop k) = .ok h := by
  have hb := readLen_bounds t k bs h hr
  have hdt : (bs.take h.hlen).drop k = (bs.drop k).take (h.hlen - k) := by
    rw [List.drop_take]
  rw [hdt]
  unfold readLen at hr
  split at hr
  · cases hr
  · rename_i l lrest heq
    rw [heq]
    split at hr
    · cases hr
    · rename_i h128
      split at hr
      · rename_i hlt
        split at hr
        · cases hr
        · rename_i hshort
          injection hr with hr
          subst hr
          simp only
          have : k + 1 + (l - 128) - k = (l - 128) + 1 := by omega
          rw [this, List.take_succ_cons]
          simp only [readLen, h128, hlt, ↓reduceIte, List.length_take, List.take_take,
            Nat.min_self]
          have : ¬ min (l - 128) lrest.length < l - 128 := by omega
          simp only [this, ↓reduceIte]
      · rename_i hlt
        injection hr with hr
        subst hr
        simp only
        have : k + 1 - k = 0 + 1 := by omega
        rw [this, List.take_succ_cons]
        simp only [readLen, h128, hlt, ↓reduceIte]

/-- `peek_header()` is decided by the identifier and length octets alone -/
theorem readHeader_take (bs : Bytes) (hd : Header) (hr : readHeader bs = .ok hd) :
    readHeader (bs.take hd.hlen) = .ok hd := by
  obtain ⟨o1, rest, num, cnt, rfl, hnum, hg, hl⟩ := readHeader_ok _ hd hr
  have hid : idPart o1 rest = .ok (num, cnt) := hnum
  have hb := readLen_bounds _ _ _ _ hl
  have hcnt := idPart_cnt _ _ _ _ hid
  have hl' := readLen_take _ _ _ _ hl
  have hk : hd.hlen = (hd.hlen - 1) + 1 := by omega
  have htk : (o1 :: rest).take hd.hlen = o1 :: rest.take (hd.hlen - 1) := by
    rw [hk, List.take_succ_cons]; simp
  have hsplit : rest.take (hd.hlen - 1) = rest.take cnt ++ (rest.take (hd.hlen - 1)).drop cnt := by
    have := (List.take_append_drop cnt (rest.take (hd.hlen - 1))).symm
    rw [List.take_take, Nat.min_eq_left (by omega)] at this
    exact this
  have hid' : idPart o1 (rest.take (hd.hlen - 1)) = .ok (num, cnt) := by
    rw [hsplit]; exact idPart_append _ _ _ _ (idPart_take _ _ _ _ hid)
  rw [htk, readHeader_cons, hid']
  simp only [hg, ↓reduceIte]
  rw [← htk]
  exact hl'

theorem readHeader_local (bs : Bytes) (hd : Header) (hr : readHeader bs = .ok hd) (other : Bytes) :
    readHeader (bs.take hd.hlen ++ other) = .ok hd :=
  readHeader_append _ _ _ (readHeader_take bs hd hr)

/-- every strict prefix of the header octets makes the header reader ask for more -/
theorem readHeader_strict_prefix (bs : Bytes) (hd : Header) (hr : readHeader bs = .ok hd)
    (n : Nat) (hn : n < hd.hlen) : readHeader (bs.take n) = .error .notEnough := by
  cases hp : readHeader (bs.take n) with
  | ok h' =>
    have h1 := readHeader_append _ (bs.drop n) _ hp
    rw [List.take_append_drop, hr] at h1
    injection h1 with h1
    subst h1
    have := (readHeader_hlen_bounds _ _ hp).2
    simp only [List.length_take] at this
    omega
  | error err =>
    rcases readHeader_err _ _ hp with rfl | rfl
    · rfl
    · have h1 := readHeader_append_valueError _ (bs.drop n) hp
      rw [List.take_append_drop, hr] at h1
      cases h1

/-! ### `readTLV` -/

theorem tagBad_false_iff (e : Option Tag) (h : Header) :
    tagBad e h = false ↔ TagAccepted e h.tag := by
  cases e with
  | none => simp [tagBad, TagAccepted]
  | some t => simp [tagBad, TagAccepted]

theorem tlv_core (e : Option Tag) (bs c rest : Bytes) (h : readTLV e bs = .ok (c, rest)) :
    ∃ hd, readHeader bs = .ok hd ∧ TagAccepted e hd.tag ∧ hd.hlen ≤ bs.length ∧
      c.length = hd.len ∧ bs = bs.take hd.hlen ++ c ++ rest := by
  obtain ⟨hd, hh, htag, hle, rfl, rfl⟩ := readTLV_ok e bs c rest h
  have hb := readHeader_hlen_bounds bs hd hh
  refine ⟨hd, hh, (tagBad_false_iff e hd).1 htag, hb.2, ?_, ?_⟩
  · simp only [List.length_take]; omega
  · rw [List.append_assoc, List.take_append_drop, List.take_append_drop]

/-- reading exactly the consumed octets -/
theorem tlv_consumed (e : Option Tag) (bs c : Bytes) (hd : Header)
    (hh : readHeader bs = .ok hd) (htag : TagAccepted e hd.tag) (hc : c.length = hd.len)
    (hlen : hd.hlen ≤ bs.length) :
    readHeader (bs.take hd.hlen ++ c) = .ok hd ∧
      readTLV e (bs.take hd.hlen ++ c) = .ok (c, []) := by
  have h1 := readHeader_local bs hd hh c
  refine ⟨h1, ?_⟩
  rw [readTLV_eq, h1]
  simp only [(tagBad_false_iff e hd).2 htag, Bool.false_eq_true, ↓reduceIte]
  have hl : (bs.take hd.hlen).length = hd.hlen := by simp only [List.length_take]; omega
  rw [List.drop_left' hl, ← hc]
  simp

theorem tlv_noOverRead (e : Option Tag) (bs c rest : Bytes) (h : readTLV e bs = .ok (c, rest)) :
    NoOverRead (readTLV e) bs c rest := by
  obtain ⟨hd, hh, htag, hlen, hc, hsplit⟩ := tlv_core e bs c rest h
  obtain ⟨h1, h2⟩ := tlv_consumed e bs c hd hh htag hc hlen
  refine ⟨hd, bs.take hd.hlen ++ c, hh, hsplit, ?_, ?_, ?_⟩
  · simp only [List.length_append, List.length_take, hc]; omega
  · intro other
    refine ⟨readHeader_append _ _ _ h1, ?_⟩
    have := readTLV_append e _ _ _ other h2
    simpa using this
  · intro p q hpq hq
    rw [hpq] at h2
    rcases readTLV_prefix e p q c [] h2 with h3 | ⟨r', _, h4⟩
    · exact h3
    · exfalso
      have := congrArg List.length h4
      simp only [List.length_nil, List.length_append] at this
      have : q.length = 0 := by omega
      exact hq (List.eq_nil_of_length_eq_zero this)

theorem tlv_notEnough_iff (e : Option Tag) (bs : Bytes) :
    readTLV e bs = .error .notEnough ↔ TooShort e bs := by
  rw [readTLV_eq]
  unfold TooShort
  cases hh : readHeader bs with
  | error err =>
    simp only
    constructor
    · intro h; injection h with h; subst h; exact .inl rfl
    · rintro (h | ⟨hd, h, _⟩)
      · cases h; rfl
      · cases h
  | ok hd =>
    have hb := readHeader_hlen_bounds bs hd hh
    simp only
    by_cases hbad : tagBad e hd = true
    · rw [if_pos hbad]
      constructor
      · intro h; cases h
      · rintro (h | ⟨hd', h, htag, _⟩)
        · cases h
        · injection h with h
          subst h
          rw [(tagBad_false_iff e hd).2 htag] at hbad
          cases hbad
    · rw [if_neg hbad]
      have hbad' : tagBad e hd = false := by simpa using hbad
      simp only [List.length_drop]
      by_cases hs : bs.length - hd.hlen < hd.len
      · rw [if_pos hs]
        constructor
        · intro _
          exact .inr ⟨hd, rfl, (tagBad_false_iff e hd).1 hbad', by omega⟩
        · intro _; rfl
      · rw [if_neg hs]
        constructor
        · intro h; cases h
        · rintro (h | ⟨hd', h, _, hlt⟩)
          · cases h
          · injection h with h
            subst h
            omega

/-- an unacceptable tag is reported as `ValueError`, whatever the length -/
theorem tlv_tag_rejected (e : Option Tag) (bs : Bytes) (hd : Header)
    (hh : readHeader bs = .ok hd) (htag : ¬ TagAccepted e hd.tag) :
    readTLV e bs = .error .valueError := by
  rw [readTLV_eq, hh]
  have : tagBad e hd = true := by
    cases hb : tagBad e hd with
    | true => rfl
    | false => exact absurd ((tagBad_false_iff e hd).1 hb) htag
  simp [this]

/-! ### readers that post-process the content octets -/

/-- `readTLV` followed by a function of the content octets -/
def post {α : Type} (f : Bytes → Except Err α) (e : Option Tag) (bs : Bytes) :
    Except Err (α × Bytes) :=
  match readTLV e bs with
  | .error err => .error err
  | .ok (c, rest) =>
    match f c with
    | .error err => .error err
    | .ok v => .ok (v, rest)

theorem post_ok {α : Type} (f : Bytes → Except Err α) (e : Option Tag) (bs : Bytes) (v : α)
    (rest : Bytes) (h : post f e bs = .ok (v, rest)) :
    ∃ c, readTLV e bs = .ok (c, rest) ∧ f c = .ok v := by
  unfold post at h
  split at h
  · cases h
  · rename_i c r hr
    split at h
    · cases h
    · rename_i v' hf
      simp only [Except.ok.injEq, Prod.mk.injEq] at h
      obtain ⟨rfl, rfl⟩ := h
      exact ⟨c, hr, hf⟩

theorem post_of_tlv {α : Type} (f : Bytes → Except Err α) (e : Option Tag) (bs c rest : Bytes)
    (v : α) (hr : readTLV e bs = .ok (c, rest)) (hf : f c = .ok v) :
    post f e bs = .ok (v, rest) := by
  unfold post; rw [hr]; simp only [hf]

theorem post_err {α : Type} (f : Bytes → Except Err α) (e : Option Tag) (bs : Bytes) (err : Err)
    (hr : readTLV e bs = .error err) : post f e bs = .error err := by
  unfold post; rw [hr]

theorem post_noOverRead {α : Type} (f : Bytes → Except Err α) (e : Option Tag) (bs : Bytes)
    (v : α) (rest : Bytes) (h : post f e bs = .ok (v, rest)) :
    NoOverRead (post f e) bs v rest := by
  obtain ⟨c, hr, hf⟩ := post_ok f e bs v rest h
  obtain ⟨hd, consumed, h1, h2, h3, h4, h5⟩ := tlv_noOverRead e bs c rest hr
  refine ⟨hd, consumed, h1, h2, h3, ?_, ?_⟩
  · intro other
    exact ⟨(h4 other).1, post_of_tlv f e _ c other v (h4 other).2 hf⟩
  · intro p q hpq hq
    exact post_err f e p _ (h5 p q hpq hq)

theorem post_notEnough_iff {α : Type} (f : Bytes → Except Err α)
    (hf : ∀ c, f c ≠ .error .notEnough) (e : Option Tag) (bs : Bytes) :
    post f e bs = .error .notEnough ↔ TooShort e bs := by
  rw [← tlv_notEnough_iff]
  unfold post
  cases hr : readTLV e bs with
  | error err => simp
  | ok p =>
    obtain ⟨c, rest⟩ := p
    simp only
    cases hfc : f c with
    | error err =>
      simp only [Except.error.injEq, reduceCtorEq, iff_false]
      intro h; subst h; exact hf c hfc
    | ok v => simp

theorem readInt_eq_post (e : Option Tag) : readInt e = post readIntContent e := by
  funext bs
  unfold readInt post
  cases readTLV e bs with
  | error err => rfl
  | ok p =>
    obtain ⟨c, r⟩ := p
    simp only
    cases readIntContent c <;> rfl

theorem readBool_eq_post (e : Option Tag) :
    readBool e = post (fun c => .ok (decide (c ≠ [0]))) e := by
  funext bs
  unfold readBool post
  cases readTLV e bs with
  | error err => rfl
  | ok p => rfl

theorem readText_eq_post (e : Option Tag) : readText e = post decodeText e := by
  funext bs
  unfold readText post
  cases readTLV e bs with
  | error err => rfl
  | ok p =>
    obtain ⟨c, r⟩ := p
    simp only
    cases decodeText c <;> rfl

theorem readIntContent_ne (c : Bytes) : readIntContent c ≠ .error .notEnough := by
  unfold readIntContent
  split
  · intro h; cases h
  · split <;> intro h <;> cases h

theorem decodeText_ne (c : Bytes) : decodeText c ≠ .error .notEnough := by
  unfold decodeText
  split <;> intro h <;> cases h

/-! ### the theorems of `Props/C07More.lean` -/

theorem read_consumes_exactly (e : Option Tag) (bs c rest : Bytes)
    (h : readTLV e bs = .ok (c, rest)) :
    ∃ hd, readHeader bs = .ok hd ∧ TagAccepted e hd.tag ∧
      ValueAt bs hd (bs.take hd.hlen) c rest := by
  obtain ⟨hd, hh, htag, hlen, hc, hsplit⟩ := tlv_core e bs c rest h
  refine ⟨hd, hh, htag, ⟨hsplit, ?_, hc⟩⟩
  simp only [List.length_take]; omega

theorem header_local (bs : Bytes) (hd : Header) (h : readHeader bs = .ok hd) :
    hd.hlen ≤ bs.length ∧
    (∀ other, readHeader (bs.take hd.hlen ++ other) = .ok hd) ∧
    (∀ n, n < hd.hlen → readHeader (bs.take n) = .error .notEnough) :=
  ⟨(readHeader_hlen_bounds bs hd h).2, readHeader_local bs hd h,
    readHeader_strict_prefix bs hd h⟩

theorem tlv_no_over_read (e : Option Tag) (bs c rest : Bytes)
    (h : readTLV e bs = .ok (c, rest)) : NoOverRead (readTLV e) bs c rest :=
  tlv_noOverRead e bs c rest h

theorem octets_no_over_read (e : Option Tag) (bs c rest : Bytes)
    (h : readOctets e bs = .ok (c, rest)) : NoOverRead (readOctets e) bs c rest :=
  tlv_noOverRead e bs c rest h

theorem int_no_over_read (e : Option Tag) (bs : Bytes) (v : Int) (rest : Bytes)
    (h : readInt e bs = .ok (v, rest)) : NoOverRead (readInt e) bs v rest := by
  rw [readInt_eq_post] at h ⊢
  exact post_noOverRead _ e bs v rest h

theorem bool_no_over_read (e : Option Tag) (bs : Bytes) (b : Bool) (rest : Bytes)
    (h : readBool e bs = .ok (b, rest)) : NoOverRead (readBool e) bs b rest := by
  rw [readBool_eq_post] at h ⊢
  exact post_noOverRead _ e bs b rest h

theorem text_no_over_read (e : Option Tag) (bs t rest : Bytes)
    (h : readText e bs = .ok (t, rest)) : NoOverRead (readText e) bs t rest := by
  rw [readText_eq_post] at h ⊢
  exact post_noOverRead _ e bs t rest h

theorem tlv_not_enough_iff (e : Option Tag) (bs : Bytes) :
    readTLV e bs = .error .notEnough ↔ TooShort e bs := tlv_notEnough_iff e bs

theorem octets_not_enough_iff (e : Option Tag) (bs : Bytes) :
    readOctets e bs = .error .notEnough ↔ TooShort e bs := tlv_notEnough_iff e bs

theorem int_not_enough_iff (e : Option Tag) (bs : Bytes) :
    readInt e bs = .error .notEnough ↔ TooShort e bs := by
  rw [readInt_eq_post]; exact post_notEnough_iff _ readIntContent_ne e bs

theorem bool_not_enough_iff (e : Option Tag) (bs : Bytes) :
    readBool e bs = .error .notEnough ↔ TooShort e bs := by
  rw [readBool_eq_post]
  exact post_notEnough_iff _ (by intro c h; cases h) e bs

theorem text_not_enough_iff (e : Option Tag) (bs : Bytes) :
    readText e bs = .error .notEnough ↔ TooShort e bs := by
  rw [readText_eq_post]; exact post_notEnough_iff _ decodeText_ne e bs

/-- no reader returns on input shorter than header + declared length -/
theorem short_never_returns (e : Option Tag) (bs : Bytes) (hd : Header)
    (hh : readHeader bs = .ok hd) (hs : bs.length < hd.hlen + hd.len) :
    (TagAccepted e hd.tag →
      readTLV e bs = .error .notEnough ∧ readOctets e bs = .error .notEnough ∧
      readInt e bs = .error .notEnough ∧ readBool e bs = .error .notEnough ∧
      readText e bs = .error .notEnough) ∧
    (¬ TagAccepted e hd.tag →
      readTLV e bs = .error .valueError ∧ readOctets e bs = .error .valueError ∧
      readInt e bs = .error .valueError ∧ readBool e bs = .error .valueError ∧
      readText e bs = .error .valueError) := by
  constructor
  · intro htag
    have hts : TooShort e bs := .inr ⟨hd, hh, htag, hs⟩
    exact ⟨(tlv_not_enough_iff e bs).2 hts, (octets_not_enough_iff e bs).2 hts,
      (int_not_enough_iff e bs).2 hts, (bool_not_enough_iff e bs).2 hts,
      (text_not_enough_iff e bs).2 hts⟩
  · intro htag
    have h := tlv_tag_rejected e bs hd hh htag
    refine ⟨h, h, ?_, ?_, ?_⟩
    · rw [readInt_eq_post]; exact post_err _ e bs _ h
    · rw [readBool_eq_post]; exact post_err _ e bs _ h
    · rw [readText_eq_post]; exact post_err _ e bs _ h

/-! ### values are functions of the content octets -/

theorem isBytes_of_split {a c r bs : Bytes} (hb : IsBytes bs) (h : bs = a ++ c ++ r) :
    IsBytes c := by
  intro x hx
  apply hb x
  rw [h]
  simp [hx]

theorem int_value (e : Option Tag) (bs : Bytes) (v : Int) (rest : Bytes) (hb : IsBytes bs)
    (h : readInt e bs = .ok (v, rest)) :
    ∃ c, readTLV e bs = .ok (c, rest) ∧ c ≠ [] ∧ v = twos c := by
  rw [readInt_eq_post] at h
  obtain ⟨c, hr, hf⟩ := post_ok _ e bs v rest h
  obtain ⟨hd, _, _, _, _, hsplit⟩ := tlv_core e bs c rest hr
  have hcb : IsBytes c := isBytes_of_split hb hsplit
  have hne : c ≠ [] := by
    rintro rfl
    simp [readIntContent] at hf
  refine ⟨c, hr, hne, ?_⟩
  rw [readIntContent_eq_twos c hcb hne] at hf
  injection hf with hf
  exact hf.symm

theorem bool_value (e : Option Tag) (bs : Bytes) (b : Bool) (rest : Bytes)
    (h : readBool e bs = .ok (b, rest)) :
    ∃ c, readTLV e bs = .ok (c, rest) ∧ (b = false ↔ c = [0]) := by
  rw [readBool_eq_post] at h
  obtain ⟨c, hr, hf⟩ := post_ok _ e bs b rest h
  refine ⟨c, hr, ?_⟩
  injection hf with hf
  subst hf
  simp

theorem text_value (e : Option Tag) (bs t rest : Bytes)
    (h : readText e bs = .ok (t, rest)) :
    readTLV e bs = .ok (t, rest) ∧ validUtf8 t = true := by
  rw [readText_eq_post] at h
  obtain ⟨c, hr, hf⟩ := post_ok _ e bs t rest h
  unfold decodeText at hf
  split at hf
  · rename_i hv
    injection hf with hf
    subst hf
    exact ⟨hr, hv⟩
  · cases hf

/-! ### `skipValue` -/

theorem skip_ok (bs rest : Bytes) (h : skipValue bs = .ok rest) :
    ∃ hd, readHeader bs = .ok hd ∧ rest = bs.drop (hd.hlen + hd.len) := by
  unfold skipValue at h
  split at h
  · cases h
  · rename_i hd hh
    injection h with h
    exact ⟨hd, hh, h.symm⟩

theorem skip_of_header (bs : Bytes) (hd : Header) (hh : readHeader bs = .ok hd) :
    skipValue bs = .ok (bs.drop (hd.hlen + hd.len)) := by
  unfold skipValue; rw [hh]

theorem skip_agrees_with_read (bs c rest : Bytes) (h : readTLV none bs = .ok (c, rest)) :
    skipValue bs = .ok rest := by
  obtain ⟨hd, hh, _, _, rfl, rfl⟩ := readTLV_ok none bs c rest h
  rw [skip_of_header bs hd hh, List.drop_drop]

theorem skip_consumes_exactly (bs rest : Bytes) (h : skipValue bs = .ok rest) :
    ∃ hd consumed, readHeader bs = .ok hd ∧ bs = consumed ++ rest ∧
      consumed.length = min (hd.hlen + hd.len) bs.length ∧
      (hd.hlen + hd.len ≤ bs.length →
        (∃ c, readTLV none bs = .ok (c, rest)) ∧
        ∀ other, skipValue (consumed ++ other) = .ok other) := by
  obtain ⟨hd, hh, rfl⟩ := skip_ok bs rest h
  refine ⟨hd, bs.take (hd.hlen + hd.len), hh, (List.take_append_drop _ _).symm,
    by simp only [List.length_take], ?_⟩
  intro hle
  have hb := readHeader_hlen_bounds bs hd hh
  have hr : readTLV none bs
      = .ok ((bs.drop hd.hlen).take hd.len, bs.drop (hd.hlen + hd.len)) := by
    rw [readTLV_eq, hh]
    have : ¬ (bs.drop hd.hlen).length < hd.len := by
      simp only [List.length_drop]; omega
    simp only [tagBad, Bool.false_eq_true, ↓reduceIte, this, List.drop_drop]
  refine ⟨⟨_, hr⟩, ?_⟩
  intro other
  obtain ⟨hd', consumed, h1, h2, h3, h4, _⟩ := tlv_noOverRead none bs _ _ hr
  rw [hh] at h1
  injection h1 with h1
  subst h1
  have hc : consumed = bs.take (hd.hlen + hd.len) := by
    have := congrArg (List.take (hd.hlen + hd.len)) h2
    rw [List.take_append_of_le_length (by omega), ← h3, List.take_length] at this
    rw [h3] at this
    exact this.symm
  rw [← hc]
  exact skip_agrees_with_read _ _ _ (h4 other).2

theorem skip_short_returns (bs : Bytes) (hd : Header) (hh : readHeader bs = .ok hd)
    (hs : bs.length < hd.hlen + hd.len) :
    skipValue bs = .ok [] ∧ readTLV none bs = .error .notEnough := by
  refine ⟨?_, ?_⟩
  · rw [skip_of_header bs hd hh, List.drop_eq_nil_of_le (by omega)]
  · exact (tlv_notEnough_iff none bs).2 (.inr ⟨hd, hh, (by intro x h; cases h), hs⟩)

theorem skip_error_iff (bs : Bytes) (err : Err) :
    skipValue bs = .error err ↔ readHeader bs = .error err := by
  unfold skipValue
  cases readHeader bs with
  | error e' => simp
  | ok hd => simp

end Verif.Proofs.C07More
