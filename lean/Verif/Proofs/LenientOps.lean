/-
C04 lenient decoding, part 3: credentials, controls, results, trailing options, attributes,
the operations and the envelope.
-/
import Verif.Proofs.LenientFilter

namespace Verif.Proofs.LenientD

open Verif Verif.Lenient

set_option linter.unusedSimpArgs false
set_option linter.unusedVariables false

/-! ### credentials -/

theorem decCred_lenient (regs : Regs) {c : Cred} {bs : Bytes} (h : CredL c bs) (hw : c.WF regs)
    (rest : Bytes) : decCred regs (bs ++ rest) = .ok (c, rest) := by
  have hd := credIds_distinct
  simp only [List.pairwise_cons, List.mem_cons, List.not_mem_nil, or_false, forall_eq_or_imp,
    forall_eq] at hd
  cases h with
  | simple pw bs ht =>
    simp only [Cred.WF] at hw
    replace ht : TLV (tagCtx Facts.credSimple) pw bs := ht
    simp only [decCred, readHeader_tlv ht (readable_ctx _ _), hdrOf_tag,
      readText_tlv_some ht (readable_ctx _ _) hw, bind, Except.bind, tagCtx_cls, tagCtx_num, hd]
    simp; rfl
  | saslNoCreds mech mb bs hm ht =>
    simp only [Cred.WF] at hw
    replace ht : TLV (tagCtx Facts.credSasl true) mb bs := ht
    simp only [decCred, readHeader_tlv ht (readable_ctx _ _), hdrOf_tag,
      readTLV_tlv_some ht (readable_ctx _ _), readText_tlv_some' hm readable_tOctets hw,
      bind, Except.bind, tagCtx_cls, tagCtx_num, hd]
    simp; rfl
  | sasl mech cr mb cb extra bs hm hc ht =>
    simp only [Cred.WF] at hw
    replace ht : TLV (tagCtx Facts.credSasl true) (mb ++ cb ++ extra) bs := ht
    simp only [decCred, readHeader_tlv ht (readable_ctx _ _), hdrOf_tag,
      readTLV_tlv_some ht (readable_ctx _ _), List.append_assoc,
      readText_tlv_some hm readable_tOctets hw, tlv_isEmpty hc,
      readOctets_tlv_some hc readable_tOctets,
      bind, Except.bind, tagCtx_cls, tagCtx_num, hd]
    simp; rfl
  | custom v bs ht =>
    simp only [Cred.WF] at hw
    simp only [decCred, readHeader_tlv ht (readable_ctx _ _), hdrOf_tag,
      readText_tlv_some ht (readable_ctx _ _) hw.2, bind, Except.bind, tagCtx_cls, tagCtx_num,
      hd, hw.1]
    simp; rfl

/-! ### controls -/

theorem decPagedValue_lenient {size : Int} {cookie vb : Bytes} (h : PagedValueL size cookie vb) :
    decPagedValue vb = .ok (size, cookie) := by
  obtain ⟨sb, cb, extra1, seq, extra2, hs, hc, hseq, rfl⟩ := h
  simp only [decPagedValue, readTLV_tlv_some hseq readable_tSeq, List.append_assoc,
    readInt_intL hs readable_tInt, readOctets_tlv_some hc readable_tOctets, bind, Except.bind]
  rfl

/-- the three fields of a control, in any permitted encoding -/
theorem decControl_fields (regs : Regs) (oid : Bytes) (crit : Bool) (value : Option Bytes)
    {ob cb vb extra bs : Bytes} (ho : IsText oid)
    (h1 : TLV tOctets oid ob) (h2 : CritL crit cb)
    (h3 : (value = none ∧ vb = [] ∧ extra = []) ∨ (∃ v, value = some v ∧ TLV tOctets v vb))
    (h4 : TLV tSeq (ob ++ cb ++ vb ++ extra) bs) (rest : Bytes) :
    decControl regs (bs ++ rest) = ctlDispatch regs oid crit value rest := by
  rcases h2 with ⟨rfl, rfl⟩ | hb
  · rcases h3 with ⟨rfl, rfl, rfl⟩ | ⟨v, rfl, hv⟩
    · simp only [List.append_nil] at h4
      simp only [decControl, readTLV_tlv_some h4 readable_tSeq,
        readText_tlv_some' h1 readable_tOctets ho, bind, Except.bind, pure, Except.pure,
        List.isEmpty_nil, ↓reduceIte, ctlDispatch, Bool.false_eq_true]
    · simp only [List.append_nil, List.append_assoc] at h4
      simp only [decControl, readTLV_tlv_some h4 readable_tSeq,
        readText_tlv_some h1 readable_tOctets ho, tlv_isEmpty hv,
        readHeader_tlv hv readable_tOctets, readOctets_tlv_none hv readable_tOctets, hdrOf_tag,
        tOctets_cls, tOctets_num, bind, Except.bind, pure, Except.pure, ctlDispatch]
      simp [readHeader_tlv hv readable_tOctets, readOctets_tlv_none hv readable_tOctets,
        tOctets_cls, tOctets_num]
  · obtain ⟨c, hc, hcb⟩ := boolL_tlv hb
    rcases h3 with ⟨rfl, rfl, rfl⟩ | ⟨v, rfl, hv⟩
    · simp only [List.append_nil] at h4
      simp only [decControl, readTLV_tlv_some h4 readable_tSeq,
        readText_tlv_some h1 readable_tOctets ho, tlv_isEmpty' hc,
        readHeader_tlv' hc readable_tBool, readBool_tlv_none' hc readable_tBool, hdrOf_tag,
        tBool_cls, tBool_num, bind, Except.bind, pure, Except.pure, ctlDispatch, hcb]
      simp
    · simp only [List.append_assoc] at h4
      simp only [decControl, readTLV_tlv_some h4 readable_tSeq,
        readText_tlv_some h1 readable_tOctets ho, tlv_isEmpty hc, tlv_isEmpty hv,
        readHeader_tlv hc readable_tBool, readBool_tlv_none hc readable_tBool, hdrOf_tag,
        readHeader_tlv hv readable_tOctets, readOctets_tlv_none hv readable_tOctets,
        tBool_cls, tBool_num, tOctets_cls, tOctets_num,
        bind, Except.bind, pure, Except.pure, ctlDispatch, hcb]
      simp [readHeader_tlv hv readable_tOctets, readOctets_tlv_none hv readable_tOctets,
        tOctets_cls, tOctets_num, tlv_isEmpty hv]

theorem decControl_lenient (regs : Regs) {c : Control} {bs : Bytes} (h : ControlL c bs)
    (hw : c.WF regs) (rest : Bytes) : decControl regs (bs ++ rest) = .ok (c, rest) := by
  have hd := oids_distinct
  simp only [List.pairwise_cons, List.mem_cons, List.not_mem_nil, or_false, forall_eq_or_imp,
    forall_eq] at hd
  cases h with
  | mk ob cb vb extra bs h1 h2 h3 h4 =>
  cases c with
  | generic oid crit value =>
    simp only [Control.WF] at hw
    obtain ⟨ho, w1, w2, w3, w4⟩ := hw
    simp only [controlOid, controlCrit] at h1 h2 h3
    rw [decControl_fields regs oid crit value ho h1 h2 h3 h4]
    have w4' : ¬ (regs.control = true ∧ oid = Facts.oidCustomControl) := fun ⟨a, b⟩ => w4 a b
    simp only [ctlDispatch, w1, w2, w3, w4', ↓reduceIte]
    rfl
  | paged crit size cookie raw =>
    simp only [controlOid, controlCrit] at h1 h2 h3
    obtain ⟨v, rfl, hp, hv⟩ := h3
    rw [decControl_fields regs _ crit (some v) oidPaged_text h1 h2 (Or.inr ⟨v, rfl, hv⟩) h4]
    simp only [ctlDispatch, ↓reduceIte, Option.getD_some, decPagedValue_lenient hp,
      bind, Except.bind]
    rfl
  | showDeleted crit raw =>
    simp only [controlOid, controlCrit] at h1 h2 h3
    rw [decControl_fields regs _ crit raw oidShowDeleted_text h1 h2 h3 h4]
    simp only [ctlDispatch, hd, ↓reduceIte]
    rfl
  | showDeactivated crit raw =>
    simp only [controlOid, controlCrit] at h1 h2 h3
    rw [decControl_fields regs _ crit raw oidShowDeactivated_text h1 h2 h3 h4]
    simp only [ctlDispatch, hd, ↓reduceIte]
    rfl
  | custom crit data raw =>
    simp only [Control.WF] at hw
    simp only [controlOid, controlCrit] at h1 h2 h3
    obtain ⟨rfl, hv⟩ := h3
    rw [decControl_fields regs _ crit (some (Facts.customControlMagic ++ data))
      oidCustomControl_text h1 h2 (Or.inr ⟨_, rfl, hv⟩) h4]
    simp only [ctlDispatch, hd, hw, ↓reduceIte, Option.getD_some, and_self,
      isPrefixOf_append, List.drop_left]
    rfl

theorem controlL_length {c : Control} {bs : Bytes} (h : ControlL c bs) : 2 ≤ bs.length := by
  cases h with
  | mk ob cb vb extra bs h1 h2 h3 h4 => have := tlv_length h4; omega

theorem loopControlsL (regs : Regs) {cs : List Control} {body : Bytes} (h : ControlsL cs body) :
    (∀ c ∈ cs, c.WF regs) → ∀ fuel, body.length ≤ fuel →
      loopMany (decControl regs) fuel body = .ok cs := by
  induction h with
  | nil => intro _ fuel _; cases fuel <;> simp [loopMany]
  | cons c cb cs rest hc _ ih =>
    intro hw fuel hl
    have := controlL_length hc
    rw [List.length_append] at hl
    cases fuel with
    | zero => omega
    | succ fuel =>
      have hne : (cb ++ rest).isEmpty = false := by
        cases cb with
        | nil => simp at this
        | cons => simp
      simp only [loopMany, hne, Bool.false_eq_true, ↓reduceIte,
        decControl_lenient regs hc (hw c (by simp)), bind, Except.bind,
        ih (fun x hx => hw x (by simp [hx])) fuel (by omega)]
      rfl

/-! ### the envelope loop -/

theorem decEnvelopeLoop_skip (regs : Regs) {t : Tag} {c e : Bytes} (h : TLV t c e)
    (hr : Proofs.Readable t) (hn : t.cls = 2 → t.num ∉ [0, 10]) (fuel : Nat) (rest : Bytes)
    (cs : List Control) (rn : Option Bytes) :
    decEnvelopeLoop regs (fuel + 1) (e ++ rest) cs rn = decEnvelopeLoop regs fuel rest cs rn := by
  have h0 : ¬ (t.cls = 2 ∧ t.num = 0) := fun ⟨a, b⟩ => hn a (by simp [b])
  have h1 : ¬ (t.cls = 2 ∧ t.num = 10) := fun ⟨a, b⟩ => hn a (by simp [b])
  simp only [decEnvelopeLoop, tlv_isEmpty h, readHeader_tlv h hr, skipValue_tlv h hr,
    bind, Except.bind, hdrOf_tag, h0, h1]
  simp

theorem decEnvelope_extras (regs : Regs) {ex : Bytes} (h : Extras [0, 10] ex) :
    ∀ (fuel : Nat) (cs : List Control) (rn : Option Bytes), ex.length ≤ fuel →
      decEnvelopeLoop regs fuel ex cs rn = .ok (cs, rn) := by
  induction h with
  | nil => intro fuel cs rn _; exact decEnvelopeLoop_nil regs fuel cs rn
  | cons t c e rest hr hn ht _ ih =>
    intro fuel cs rn hf
    have := tlv_length ht
    rw [List.length_append] at hf
    cases fuel with
    | zero => omega
    | succ fuel => rw [decEnvelopeLoop_skip regs ht hr hn, ih fuel cs rn (by omega)]

theorem decEnvelope_lenient (regs : Regs) {cs : List Control} {cb ex : Bytes}
    (hc : (cs = [] ∧ cb = []) ∨ (∃ body, ControlsL cs body ∧ TLV (tagCtx 0 true) body cb))
    (hex : Extras [0, 10] ex) (hw : ∀ c ∈ cs, c.WF regs) (fuel : Nat)
    (hl : (cb ++ ex).length ≤ fuel) :
    decEnvelopeLoop regs fuel (cb ++ ex) [] none = .ok (cs, none) := by
  rcases hc with ⟨rfl, rfl⟩ | ⟨body, hb, ht⟩
  · simpa using decEnvelope_extras regs hex fuel [] none (by simpa using hl)
  · have := tlv_length ht
    rw [List.length_append] at hl
    cases fuel with
    | zero => omega
    | succ fuel =>
      simp only [decEnvelopeLoop, tlv_isEmpty ht, Bool.false_eq_true, ↓reduceIte,
        readHeader_tlv ht (readable_ctx 0 true), readTLV_tlv_none ht (readable_ctx 0 true),
        hdrOf_tag, bind, Except.bind, tagCtx_cls, tagCtx_num, and_self,
        loopControlsL regs hb hw _ (Nat.le_refl _), List.nil_append,
        decEnvelope_extras regs hex fuel cs none (by omega)]

/-! ### results -/

/-- what may follow an `LDAPResult` whose referral is absent: nothing, or a readable element
    that is not `[3]` -/
def NoRefL (rest : Bytes) : Prop :=
  rest = [] ∨ ∃ t c e rest', rest = e ++ rest' ∧ TLV t c e ∧ Proofs.Readable t ∧
    ¬ (t.cls = 2 ∧ t.num = 3)

theorem noRefL_extras {excl : List Nat} {ex : Bytes} (h : Extras excl ex) (h3 : 3 ∈ excl) :
    NoRefL ex := by
  rcases extras_cases h with rfl | ⟨t, c, e, rest, rfl, hr, hn, ht, _⟩
  · exact Or.inl rfl
  · exact Or.inr ⟨t, c, e, rest, rfl, ht, hr, fun ⟨a, b⟩ => hn a (b ▸ h3)⟩

theorem noRefL_opt {n : Nat} {s : Option Bytes} {sb rest : Bytes} (h : OptL (tagCtx n) s sb)
    (hn : n ≠ 3) (hr : NoRefL rest) : NoRefL (sb ++ rest) := by
  rcases optL_length h with ⟨rfl, rfl⟩ | ⟨v, rfl, hv⟩
  · simpa using hr
  · exact Or.inr ⟨_, _, _, _, rfl, hv, readable_ctx n false, by simp [hn]⟩

theorem decResult_lenient {r : LdapResult} {bs : Bytes} (h : ResultL r bs) (hw : r.WF)
    (rest : Bytes) (hr : NoRefL rest) : decResult (bs ++ rest) = .ok (r, rest) := by
  obtain ⟨code, mdn, diag, refs⟩ := r
  obtain ⟨cb, mb, db, rb, hc, hm, hdg, href, rfl⟩ := h
  simp only [LdapResult.WF] at hw
  obtain ⟨w1, w2, w3⟩ := hw
  simp only at hc hm hdg href
  cases refs with
  | none =>
    simp only at href
    subst href
    simp only [decResult, List.append_assoc, List.nil_append, List.append_nil,
      readInt_intL hc readable_tEnum, readText_tlv_some hm readable_tOctets w1,
      readText_tlv_some hdg readable_tOctets w2, bind, Except.bind]
    rcases hr with rfl | ⟨t, c, e, rest', rfl, ht, hrd, hn⟩
    · simp; rfl
    · simp only [tlv_isEmpty ht, Bool.false_eq_true, ↓reduceIte, readHeader_tlv ht hrd,
        hdrOf_tag, hn]
      rfl
  | some rs =>
    simp only at href w3
    obtain ⟨ub, hu, hrb⟩ := href
    simp only [decResult, List.append_assoc,
      readInt_intL hc readable_tEnum, readText_tlv_some hm readable_tOctets w1,
      readText_tlv_some hdg readable_tOctets w2, bind, Except.bind,
      tlv_isEmpty hrb, Bool.false_eq_true, ↓reduceIte,
      readHeader_tlv hrb (readable_ctx 3 true), readTLV_tlv_none hrb (readable_ctx 3 true),
      hdrOf_tag, tagCtx_cls, tagCtx_num, and_self,
      loopTextL readable_tOctets hu w3 _ (Nat.le_refl _)]
    rfl

/-! ### trailing options -/

theorem decOptLoop_step1 (n1 : Nat) (t1 : Bool) (n2 : Option Nat) {v e : Bytes}
    (h : TLV (tagCtx n1) v e) (hv : t1 = true → IsText v) (fuel : Nat) (rest : Bytes)
    (a b : Option Bytes) :
    decOptLoop n1 t1 n2 (fuel + 1) (e ++ rest) a b = decOptLoop n1 t1 n2 fuel rest (some v) b := by
  cases t1
  · simp only [decOptLoop, tlv_isEmpty h, readHeader_tlv h (readable_ctx n1 false),
      readOctets_tlv_none h (readable_ctx n1 false), bind, Except.bind, hdrOf_tag,
      tagCtx_cls, tagCtx_num]
    simp
  · simp only [decOptLoop, tlv_isEmpty h, readHeader_tlv h (readable_ctx n1 false),
      readText_tlv_none h (readable_ctx n1 false) (hv rfl), bind, Except.bind, hdrOf_tag,
      tagCtx_cls, tagCtx_num]
    simp

theorem decOptLoop_step2 (n1 : Nat) (t1 : Bool) (n2 : Nat) {v e : Bytes}
    (h : TLV (tagCtx n2) v e) (hn : n2 ≠ n1) (fuel : Nat) (rest : Bytes) (a b : Option Bytes) :
    decOptLoop n1 t1 (some n2) (fuel + 1) (e ++ rest) a b
      = decOptLoop n1 t1 (some n2) fuel rest a (some v) := by
  simp only [decOptLoop, tlv_isEmpty h, readHeader_tlv h (readable_ctx n2 false),
    readOctets_tlv_none h (readable_ctx n2 false), bind, Except.bind, hdrOf_tag,
    tagCtx_cls, tagCtx_num]
  simp [hn]

theorem decOptLoop_skip (n1 : Nat) (t1 : Bool) (n2 : Option Nat) {t : Tag} {c e : Bytes}
    (h : TLV t c e) (hr : Proofs.Readable t) (h1 : ¬ (t.cls = 2 ∧ t.num = n1))
    (h2 : ¬ (t.cls = 2 ∧ some t.num = n2)) (fuel : Nat) (rest : Bytes) (a b : Option Bytes) :
    decOptLoop n1 t1 n2 (fuel + 1) (e ++ rest) a b = decOptLoop n1 t1 n2 fuel rest a b := by
  simp only [decOptLoop, tlv_isEmpty h, readHeader_tlv h hr, skipValue_tlv h hr,
    bind, Except.bind, hdrOf_tag, h1, h2]
  simp

theorem decOpt_extras (n1 : Nat) (t1 : Bool) (n2 : Option Nat) {excl : List Nat} {ex : Bytes}
    (h : Extras excl ex) (hn1 : n1 ∈ excl) (hn2 : ∀ n, n2 = some n → n ∈ excl) :
    ∀ (fuel : Nat) (a b : Option Bytes), ex.length ≤ fuel →
      decOptLoop n1 t1 n2 fuel ex a b = .ok (a, b) := by
  induction h with
  | nil => intro fuel a b _; exact decOptLoop_nil n1 t1 n2 fuel a b
  | cons t c e rest hr hn ht _ ih =>
    intro fuel a b hf
    have := tlv_length ht
    rw [List.length_append] at hf
    cases fuel with
    | zero => omega
    | succ fuel =>
      rw [decOptLoop_skip n1 t1 n2 ht hr (fun ⟨x, y⟩ => hn x (y ▸ hn1))
        (fun ⟨x, y⟩ => hn x (hn2 _ y.symm)), ih fuel a b (by omega)]

/-- one optional trailing element, then unknown elements -/
theorem decOpt1_lenient (n1 : Nat) (t1 : Bool) (n2 : Option Nat) {excl : List Nat}
    {s : Option Bytes} {sb ex : Bytes} (hs : OptL (tagCtx n1) s sb) (hex : Extras excl ex)
    (hn1 : n1 ∈ excl) (hn2 : ∀ n, n2 = some n → n ∈ excl) (ht : t1 = true → optText s)
    (fuel : Nat) (b : Option Bytes) (hl : (sb ++ ex).length ≤ fuel) :
    decOptLoop n1 t1 n2 fuel (sb ++ ex) none b = .ok (s, b) := by
  rcases optL_length hs with ⟨rfl, rfl⟩ | ⟨v, rfl, hv⟩
  · simpa using decOpt_extras n1 t1 n2 hex hn1 hn2 fuel none b (by simpa using hl)
  · have := tlv_length hv
    rw [List.length_append] at hl
    cases fuel with
    | zero => omega
    | succ fuel =>
      rw [decOptLoop_step1 n1 t1 n2 hv ht, decOpt_extras n1 t1 n2 hex hn1 hn2 fuel _ _ (by omega)]

/-- two optional trailing elements, then unknown elements -/
theorem decOpt2_lenient (n1 n2 : Nat) (t1 : Bool) {excl : List Nat} {s1 s2 : Option Bytes}
    {sb1 sb2 ex : Bytes} (hs1 : OptL (tagCtx n1) s1 sb1) (hs2 : OptL (tagCtx n2) s2 sb2)
    (hex : Extras excl ex) (hn1 : n1 ∈ excl) (hn2 : n2 ∈ excl) (hn : n2 ≠ n1)
    (ht : t1 = true → optText s1) (fuel : Nat) (hl : (sb1 ++ sb2 ++ ex).length ≤ fuel) :
    decOptLoop n1 t1 (some n2) fuel (sb1 ++ sb2 ++ ex) none none = .ok (s1, s2) := by
  have hn2' : ∀ n, some n2 = some n → n ∈ excl := by
    intro n h; cases h; exact hn2
  have tail : ∀ fuel a, (sb2 ++ ex).length ≤ fuel →
      decOptLoop n1 t1 (some n2) fuel (sb2 ++ ex) a none = .ok (a, s2) := by
    intro fuel a hl
    rcases optL_length hs2 with ⟨rfl, rfl⟩ | ⟨v, rfl, hv⟩
    · simpa using decOpt_extras n1 t1 (some n2) hex hn1 hn2' fuel a none (by simpa using hl)
    · have := tlv_length hv
      rw [List.length_append] at hl
      cases fuel with
      | zero => omega
      | succ fuel =>
        rw [decOptLoop_step2 n1 t1 n2 hv hn,
          decOpt_extras n1 t1 (some n2) hex hn1 hn2' fuel _ _ (by omega)]
  simp only [List.append_assoc] at hl ⊢
  rcases optL_length hs1 with ⟨rfl, rfl⟩ | ⟨v, rfl, hv⟩
  · simp only [List.nil_append] at hl ⊢
    exact tail fuel none hl
  · have := tlv_length hv
    rw [List.length_append] at hl
    cases fuel with
    | zero => omega
    | succ fuel =>
      rw [decOptLoop_step1 n1 t1 (some n2) hv ht, tail fuel _ (by omega)]

/-! ### partial attributes -/

theorem loopAttrsL {as : List (Bytes × List Bytes)} {body : Bytes} (h : AttrsL as body) :
    (∀ a ∈ as, IsText a.1) → ∀ fuel, body.length ≤ fuel →
      loopMany decAttr fuel body = .ok as := by
  induction h with
  | nil => intro _ fuel _; cases fuel <;> simp [loopMany]
  | cons n vs nb vb sb extra ab as rest hn hvs hsb hab _ ih =>
    intro hw fuel hl
    have := tlv_length hab
    rw [List.length_append] at hl
    cases fuel with
    | zero => omega
    | succ fuel =>
      have hn' : IsText n := hw (n, vs) (by simp)
      simp only [loopMany, tlv_isEmpty hab, Bool.false_eq_true, ↓reduceIte, decAttr,
        readTLV_tlv_some hab readable_tSeq, List.append_assoc,
        readText_tlv_some hn readable_tOctets hn', readTLV_tlv_some hsb readable_tSet,
        loopOctetsL readable_tOctets hvs _ (Nat.le_refl _), bind, Except.bind, pure, Except.pure,
        ih (fun x hx => hw x (by simp [hx])) fuel (by omega)]

/-! ### operations -/

theorem decOp_lenient (regs : Regs) (depth : Nat) {op : Op} {ob : Bytes} (h : OpL op ob)
    (hw : op.WF regs) (hd : op.filterDepth < depth) : decOp regs depth (opTag op) ob = .ok op := by
  have hn := opNumbers_distinct
  simp only [List.pairwise_cons, List.mem_cons, List.not_mem_nil, or_false, forall_eq_or_imp,
    forall_eq] at hn
  cases h with
  | bindReq v n c vb nb cb extra hv hnb hc =>
    simp only [Op.WF] at hw
    simp only [decOp, opTag, hn, ↓reduceIte, List.append_assoc,
      readInt_intL hv readable_tInt, readText_tlv_some hnb readable_tOctets hw.1,
      decCred_lenient regs hc hw.2, bind, Except.bind]
    rfl
  | bindResp r s rb sb ex hr hs hex =>
    simp only [Op.WF] at hw
    have hnr : NoRefL (sb ++ ex) :=
      noRefL_opt hs (by decide) (noRefL_extras hex (by simp))
    simp only [decOp, opTag, hn, ↓reduceIte, List.append_assoc,
      decResult_lenient hr hw _ hnr, bind, Except.bind,
      decOpt1_lenient 7 false none hs hex (by simp) (by simp) (by simp) _ none (Nat.le_refl _)]
    rfl
  | unbind c =>
    simp only [decOp, opTag, hn, ↓reduceIte]
    rfl
  | searchReq b sc dr sl tl ty f attrs bb scb drb slb tlb tyb fb ab asb extra
      hb hsc hdr hsl htl hty hf hat has =>
    simp only [Op.WF, Op.filterDepth] at hw hd
    obtain ⟨wb, wsc, wdr, wf, wat⟩ := hw
    simp only [decOp, opTag, hn, ↓reduceIte, List.append_assoc,
      readOctets_tlv_some hb readable_tOctets,
      readInt_intL hsc readable_tEnum, readInt_intL hdr readable_tEnum,
      readInt_intL hsl readable_tInt, readInt_intL htl readable_tInt,
      readBool_boolL_some hty readable_tBool, wsc, wdr, Bool.not_true, Bool.false_eq_true,
      decFilter_lenient regs hf depth _ wf (by omega), readTLV_tlv_some has readable_tSeq,
      loopTextL readable_tOctets hat wat _ (Nat.le_refl _), decodeText,
      show validUtf8 b = true from wb, bind, Except.bind]
    rfl
  | searchEntry n attrs nb ab sb extra hnb hat hsb =>
    simp only [Op.WF] at hw
    simp only [decOp, opTag, hn, ↓reduceIte, List.append_assoc,
      readText_tlv_some hnb readable_tOctets hw.1, readTLV_tlv_some hsb readable_tSeq,
      loopAttrsL hat hw.2 _ (Nat.le_refl _), bind, Except.bind]
    rfl
  | searchDone r rb ex hr hex =>
    simp only [Op.WF] at hw
    simp only [decOp, opTag, hn, ↓reduceIte,
      decResult_lenient hr hw _ (noRefL_extras hex (by simp)), bind, Except.bind]
    rfl
  | searchRef uris ub hu =>
    simp only [Op.WF] at hw
    simp only [decOp, opTag, hn, ↓reduceIte, loopTextL readable_tOctets hu hw _ (Nat.le_refl _),
      bind, Except.bind]
    rfl
  | extReq n v nb vb ex hnb hv hex =>
    simp only [Op.WF] at hw
    simp only [decOp, opTag, hn, ↓reduceIte, List.append_assoc,
      readText_tlv_some hnb (readable_ctx 0 false) hw,
      decOpt1_lenient 1 false none hv hex (by simp) (by simp) (by simp) _ none (Nat.le_refl _),
      bind, Except.bind]
    rfl
  | extResp r n v rb nb vb ex hr hnb hv hex =>
    simp only [Op.WF] at hw
    have hnr : NoRefL (nb ++ (vb ++ ex)) :=
      noRefL_opt hnb (by decide) (noRefL_opt hv (by decide) (noRefL_extras hex (by simp)))
    have h2 := decOpt2_lenient 10 11 true hnb hv hex (by simp) (by simp) (by decide)
      (fun _ => hw.2) _ (Nat.le_refl _)
    simp only [List.append_assoc] at h2
    simp only [decOp, opTag, hn, ↓reduceIte, List.append_assoc,
      decResult_lenient hr hw.1 _ hnr, h2, bind, Except.bind]
    rfl

/-! ### the envelope -/

theorem decContents_lenient (regs : Regs) (depth : Nat) (m : Msg) (cons : Bool)
    {ib ob opb cb ex : Bytes} (hi : IntL tInt m.id ib) (hop : OpL m.op ob)
    (hopb : TLV (tagApp (opTag m.op) cons) ob opb)
    (hc : (m.controls = [] ∧ cb = []) ∨
      (∃ body, ControlsL m.controls body ∧ TLV (tagCtx 0 true) body cb))
    (hex : Extras [0, 10] ex) (hwf : m.WF regs) (hd : m.op.filterDepth < depth) :
    decContents regs depth (ib ++ opb ++ cb ++ ex) = .ok m := by
  obtain ⟨id, op, controls⟩ := m
  obtain ⟨wop, wcs⟩ := hwf
  simp only at hi hop hopb hc wop wcs hd
  simp only [decContents, List.append_assoc, readInt_intL hi readable_tInt,
    readHeader_tlv hopb (readable_app _ cons), readTLV_tlv_none hopb (readable_app _ cons),
    hdrOf_tag, tagApp_cls, tagApp_num, knownOp_opTag,
    decEnvelope_lenient regs hc hex wcs _ (Nat.le_refl _),
    decOp_lenient regs depth hop wop hd, bind, Except.bind]
  simp only [ne_eq, not_true_eq_false, ↓reduceIte, Bool.not_true, Bool.false_eq_true]
  rfl

end Verif.Proofs.LenientD
