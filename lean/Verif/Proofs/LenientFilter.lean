/-
C04 lenient decoding, part 2: filters.  Every permitted encoding of a filter (`FilterL`) is
decoded to that filter, by the mutual recursor of `FilterL` / `FiltersL`.
-/
import Verif.Proofs.LenientBase

namespace Verif.Proofs.LenientD

open Verif Verif.Lenient

set_option linter.unusedSimpArgs false
set_option linter.unusedVariables false

/-! ### unknown trailing elements -/

/-- the first element of a non-empty `Extras` -/
theorem extras_cases {excl : List Nat} {ex : Bytes} (h : Extras excl ex) :
    ex = [] ∨ ∃ t c e rest, ex = e ++ rest ∧ Proofs.Readable t ∧ (t.cls = 2 → t.num ∉ excl) ∧
      TLV t c e ∧ Extras excl rest := by
  cases h with
  | nil => exact Or.inl rfl
  | cons t c e rest hr hn ht hrest => exact Or.inr ⟨t, c, e, rest, rfl, hr, hn, ht, hrest⟩

/-! ### substrings loop -/

theorem decSubstrLoop_step {n : Nat} {v e : Bytes} (h : TLV (tagCtx n) v e) (fuel : Nat)
    (rest : Bytes) (acc : SubstrAcc) :
    decSubstrLoop (fuel + 1) (e ++ rest) acc =
      if n = 0 then
        if acc.initial.isSome then .error .valueError
        else decSubstrLoop fuel rest { acc with initial := some v }
      else if n = 1 then decSubstrLoop fuel rest { acc with any := acc.any ++ [v] }
      else if n = 2 then
        if acc.final.isSome then .error .valueError
        else decSubstrLoop fuel rest { acc with final := some v }
      else decSubstrLoop fuel rest acc := by
  simp only [decSubstrLoop, tlv_isEmpty h, readHeader_tlv h (readable_ctx n false),
    readOctets_tlv_none h (readable_ctx n false), skipValue_tlv h (readable_ctx n false),
    bind, Except.bind, hdrOf_tag]
  simp [tagCtx]

theorem decSubstrLoop_skip {t : Tag} {c e : Bytes} (h : TLV t c e) (hr : Proofs.Readable t)
    (hn : t.cls = 2 → t.num ∉ [0, 1, 2]) (fuel : Nat) (rest : Bytes) (acc : SubstrAcc) :
    decSubstrLoop (fuel + 1) (e ++ rest) acc = decSubstrLoop fuel rest acc := by
  have h0 : ¬ (t.cls = 2 ∧ t.num = 0) := fun ⟨a, b⟩ => hn a (by simp [b])
  have h1 : ¬ (t.cls = 2 ∧ t.num = 1) := fun ⟨a, b⟩ => hn a (by simp [b])
  have h2 : ¬ (t.cls = 2 ∧ t.num = 2) := fun ⟨a, b⟩ => hn a (by simp [b])
  simp only [decSubstrLoop, tlv_isEmpty h, readHeader_tlv h hr, skipValue_tlv h hr,
    bind, Except.bind, hdrOf_tag, h0, h1, h2]
  simp

theorem decSubstr_extras {ex : Bytes} (h : Extras [0, 1, 2] ex) : ∀ (fuel : Nat) (acc : SubstrAcc),
    ex.length ≤ fuel → decSubstrLoop fuel ex acc = .ok acc := by
  induction h with
  | nil => intro fuel acc _; exact decSubstrLoop_nil fuel acc
  | cons t c e rest hr hn ht _ ih =>
    intro fuel acc hf
    have := tlv_length ht
    rw [List.length_append] at hf
    cases fuel with
    | zero => omega
    | succ fuel => rw [decSubstrLoop_skip ht hr hn, ih fuel acc (by omega)]

theorem decSubstr_final {f : Option Bytes} {fb ex : Bytes} (hf : OptL (tagCtx 2) f fb)
    (hex : Extras [0, 1, 2] ex) (fuel : Nat) (acc : SubstrAcc) (ha : acc.final = none)
    (hl : (fb ++ ex).length ≤ fuel) :
    decSubstrLoop fuel (fb ++ ex) acc = .ok { acc with final := f } := by
  rcases optL_length hf with ⟨rfl, rfl⟩ | ⟨v, rfl, hv⟩
  · obtain ⟨i, a, fin⟩ := acc
    simp only at ha; subst ha
    simpa using decSubstr_extras hex fuel _ (by simpa using hl)
  · have := tlv_length hv
    rw [List.length_append] at hl
    cases fuel with
    | zero => omega
    | succ fuel =>
      rw [decSubstrLoop_step hv]
      simp [ha, decSubstr_extras hex fuel _ (by omega)]

theorem decSubstr_any {f : Option Bytes} {fb ex : Bytes} (hf : OptL (tagCtx 2) f fb)
    (hex : Extras [0, 1, 2] ex) {any : List Bytes} {anyb : Bytes}
    (h : OctetsL (tagCtx 1) any anyb) : ∀ (fuel : Nat) (acc : SubstrAcc), acc.final = none →
      (anyb ++ (fb ++ ex)).length ≤ fuel →
      decSubstrLoop fuel (anyb ++ (fb ++ ex)) acc
        = .ok { acc with any := acc.any ++ any, final := f } := by
  induction h with
  | nil =>
    intro fuel acc ha hl
    simpa using decSubstr_final hf hex fuel acc ha (by simpa using hl)
  | cons v e vs rest hv _ ih =>
    intro fuel acc ha hl
    have := tlv_length hv
    simp only [List.append_assoc, List.length_append] at hl ⊢
    cases fuel with
    | zero => omega
    | succ fuel =>
      rw [decSubstrLoop_step hv]
      simp only [Nat.succ_ne_zero, ↓reduceIte]
      rw [ih fuel { acc with any := acc.any ++ [v] } ha (by simp only [List.length_append]; omega)]
      simp

theorem decSubstr_all {i f : Option Bytes} {any : List Bytes} {ib anyb fb ex : Bytes}
    (hi : OptL (tagCtx 0) i ib) (hany : OctetsL (tagCtx 1) any anyb) (hf : OptL (tagCtx 2) f fb)
    (hex : Extras [0, 1, 2] ex) (fuel : Nat) (hl : (ib ++ anyb ++ fb ++ ex).length ≤ fuel) :
    decSubstrLoop fuel (ib ++ anyb ++ fb ++ ex) {} = .ok ⟨i, any, f⟩ := by
  simp only [List.append_assoc] at hl ⊢
  rcases optL_length hi with ⟨rfl, rfl⟩ | ⟨v, rfl, hv⟩
  · simp only [List.nil_append] at hl ⊢
    rw [decSubstr_any hf hex hany fuel {} rfl hl]
    simp
  · have := tlv_length hv
    rw [List.length_append] at hl
    cases fuel with
    | zero => omega
    | succ fuel =>
      rw [decSubstrLoop_step hv]
      simp [decSubstr_any hf hex hany fuel { initial := some v } rfl (by omega)]

/-! ### extensible-match loop -/

theorem decExtLoop_step1 {v e : Bytes} (h : TLV (tagCtx 1) v e) (hv : IsText v) (fuel : Nat)
    (rest : Bytes) (acc : ExtAcc) :
    decExtLoop (fuel + 1) (e ++ rest) acc = decExtLoop fuel rest { acc with rule := some v } := by
  simp only [decExtLoop, tlv_isEmpty h, readHeader_tlv h (readable_ctx 1 false),
    readText_tlv_none h (readable_ctx 1 false) hv, bind, Except.bind, hdrOf_tag]
  simp

theorem decExtLoop_step2 {v e : Bytes} (h : TLV (tagCtx 2) v e) (hv : IsText v) (fuel : Nat)
    (rest : Bytes) (acc : ExtAcc) :
    decExtLoop (fuel + 1) (e ++ rest) acc = decExtLoop fuel rest { acc with attr := some v } := by
  simp only [decExtLoop, tlv_isEmpty h, readHeader_tlv h (readable_ctx 2 false),
    readText_tlv_none h (readable_ctx 2 false) hv, bind, Except.bind, hdrOf_tag]
  simp

theorem decExtLoop_step3 {v e : Bytes} (h : TLV (tagCtx 3) v e) (fuel : Nat)
    (rest : Bytes) (acc : ExtAcc) :
    decExtLoop (fuel + 1) (e ++ rest) acc = decExtLoop fuel rest { acc with val := v } := by
  simp only [decExtLoop, tlv_isEmpty h, readHeader_tlv h (readable_ctx 3 false),
    readOctets_tlv_none h (readable_ctx 3 false), bind, Except.bind, hdrOf_tag]
  simp

theorem decExtLoop_step4 {c e : Bytes} (h : TLV (tagCtx 4) c e) (fuel : Nat)
    (rest : Bytes) (acc : ExtAcc) :
    decExtLoop (fuel + 1) (e ++ rest) acc
      = decExtLoop fuel rest { acc with dn := decide (c ≠ [0]) } := by
  simp only [decExtLoop, tlv_isEmpty h, readHeader_tlv h (readable_ctx 4 false),
    readBool_tlv_none h (readable_ctx 4 false), bind, Except.bind, hdrOf_tag]
  simp

theorem decExtLoop_skip {t : Tag} {c e : Bytes} (h : TLV t c e) (hr : Proofs.Readable t)
    (hn : t.cls = 2 → t.num ∉ [1, 2, 3, 4]) (fuel : Nat) (rest : Bytes) (acc : ExtAcc) :
    decExtLoop (fuel + 1) (e ++ rest) acc = decExtLoop fuel rest acc := by
  have h1 : ¬ (t.cls = 2 ∧ t.num = 1) := fun ⟨a, b⟩ => hn a (by simp [b])
  have h2 : ¬ (t.cls = 2 ∧ t.num = 2) := fun ⟨a, b⟩ => hn a (by simp [b])
  have h3 : ¬ (t.cls = 2 ∧ t.num = 3) := fun ⟨a, b⟩ => hn a (by simp [b])
  have h4 : ¬ (t.cls = 2 ∧ t.num = 4) := fun ⟨a, b⟩ => hn a (by simp [b])
  simp only [decExtLoop, tlv_isEmpty h, readHeader_tlv h hr, skipValue_tlv h hr,
    bind, Except.bind, hdrOf_tag, h1, h2, h3, h4]
  simp

theorem decExt_extras {ex : Bytes} (h : Extras [1, 2, 3, 4] ex) : ∀ (fuel : Nat) (acc : ExtAcc),
    ex.length ≤ fuel → decExtLoop fuel ex acc = .ok acc := by
  induction h with
  | nil => intro fuel acc _; exact decExtLoop_nil fuel acc
  | cons t c e rest hr hn ht _ ih =>
    intro fuel acc hf
    have := tlv_length ht
    rw [List.length_append] at hf
    cases fuel with
    | zero => omega
    | succ fuel => rw [decExtLoop_skip ht hr hn, ih fuel acc (by omega)]

/-- dnAttributes (absent, explicit FALSE, or TRUE) and what follows -/
theorem decExt_dn {dn : Bool} {db ex : Bytes}
    (hdn : (dn = false ∧ db = []) ∨ BoolL (tagCtx 4) dn db) (hex : Extras [1, 2, 3, 4] ex)
    (fuel : Nat) (acc : ExtAcc) (ha : acc.dn = false) (hl : (db ++ ex).length ≤ fuel) :
    decExtLoop fuel (db ++ ex) acc = .ok { acc with dn := dn } := by
  rcases hdn with ⟨rfl, rfl⟩ | hb
  · obtain ⟨r, a, v, d⟩ := acc
    simp only at ha; subst ha
    simpa using decExt_extras hex fuel _ (by simpa using hl)
  · obtain ⟨c, hc, hcb⟩ := boolL_tlv hb
    have := tlv_length hc
    rw [List.length_append] at hl
    cases fuel with
    | zero => omega
    | succ fuel => rw [decExtLoop_step4 hc, decExt_extras hex fuel _ (by omega), hcb]

theorem decExt_val {v : Bytes} {dn : Bool} {vb db ex : Bytes} (hv : TLV (tagCtx 3) v vb)
    (hdn : (dn = false ∧ db = []) ∨ BoolL (tagCtx 4) dn db) (hex : Extras [1, 2, 3, 4] ex)
    (fuel : Nat) (acc : ExtAcc) (ha : acc.dn = false) (hl : (vb ++ (db ++ ex)).length ≤ fuel) :
    decExtLoop fuel (vb ++ (db ++ ex)) acc = .ok { acc with val := v, dn := dn } := by
  have := tlv_length hv
  rw [List.length_append] at hl
  cases fuel with
  | zero => omega
  | succ fuel =>
    rw [decExtLoop_step3 hv, decExt_dn hdn hex fuel _ (by exact ha) (by omega)]

theorem decExt_attr {attr : Option Bytes} {v : Bytes} {dn : Bool} {ab vb db ex : Bytes}
    (hat : OptL (tagCtx 2) attr ab) (hw : optText attr) (hv : TLV (tagCtx 3) v vb)
    (hdn : (dn = false ∧ db = []) ∨ BoolL (tagCtx 4) dn db) (hex : Extras [1, 2, 3, 4] ex)
    (fuel : Nat) (acc : ExtAcc) (ha : acc.dn = false) (haa : acc.attr = none)
    (hl : (ab ++ (vb ++ (db ++ ex))).length ≤ fuel) :
    decExtLoop fuel (ab ++ (vb ++ (db ++ ex))) acc
      = .ok { acc with attr := attr, val := v, dn := dn } := by
  rcases optL_length hat with ⟨rfl, rfl⟩ | ⟨a, rfl, hab⟩
  · simp only [List.nil_append] at hl ⊢
    rw [decExt_val hv hdn hex fuel acc ha hl, ← haa]
  · have := tlv_length hab
    rw [List.length_append] at hl
    cases fuel with
    | zero => omega
    | succ fuel =>
      rw [decExtLoop_step2 hab hw, decExt_val hv hdn hex fuel _ (by exact ha) (by omega)]

theorem decExt_all {rule attr : Option Bytes} {v : Bytes} {dn : Bool} {rb ab vb db ex : Bytes}
    (hru : OptL (tagCtx 1) rule rb) (hat : OptL (tagCtx 2) attr ab) (hv : TLV (tagCtx 3) v vb)
    (hdn : (dn = false ∧ db = []) ∨ BoolL (tagCtx 4) dn db) (hex : Extras [1, 2, 3, 4] ex)
    (hr : optText rule) (hw : optText attr) (fuel : Nat)
    (hl : (rb ++ ab ++ vb ++ db ++ ex).length ≤ fuel) :
    decExtLoop fuel (rb ++ ab ++ vb ++ db ++ ex) {} = .ok ⟨rule, attr, v, dn⟩ := by
  simp only [List.append_assoc] at hl ⊢
  rcases optL_length hru with ⟨rfl, rfl⟩ | ⟨r, rfl, hrb⟩
  · simp only [List.nil_append] at hl ⊢
    rw [decExt_attr hat hw hv hdn hex fuel {} rfl rfl hl]
  · have := tlv_length hrb
    rw [List.length_append] at hl
    cases fuel with
    | zero => omega
    | succ fuel =>
      rw [decExtLoop_step1 hrb hr, decExt_attr hat hw hv hdn hex fuel _ rfl rfl (by omega)]

/-! ### attribute-value assertions -/

theorem decAva_l {n : Nat} {a v ab vb extra bs : Bytes} (h1 : TLV tOctets a ab)
    (h2 : TLV tOctets v vb) (h3 : TLV (tagCtx n true) (ab ++ vb ++ extra) bs) (ha : IsText a)
    (rest : Bytes) : decAva n (bs ++ rest) = .ok ((a, v), rest) := by
  simp only [decAva, readTLV_tlv_some h3 (readable_ctx n true), List.append_assoc,
    readText_tlv_some h1 readable_tOctets ha, readOctets_tlv_some h2 readable_tOctets,
    bind, Except.bind]
  rfl

/-! ### choice dispatch of `decFilter` (the only place the filter ids' values matter) -/

macro "filter_dispatch" hh:ident hc:ident hn:ident : tactic => `(tactic| (
  simp only [decFilter, $hh:ident, $hc:ident, $hn:ident, bind, Except.bind, Facts.filterAnd,
    Facts.filterOr, Facts.filterNot, Facts.filterEq, Facts.filterSubstr, Facts.filterGe,
    Facts.filterLe, Facts.filterPresent, Facts.filterApprox, Facts.filterExt,
    Facts.customFilterId]
  simp))

theorem decFilter_and_head (regs : Regs) (d : Nat) (bs : Bytes) (h : Header)
    (hh : readHeader bs = .ok h) (hc : h.tag.cls = 2) (hn : h.tag.num = 0) :
    decFilter regs (d + 1) bs =
      (do let (c, rest) ← readTLV (some (tagCtx 0 true)) bs
          let fs ← loopMany (decFilter regs d) c.length c
          return (.and fs, rest)) := by
  filter_dispatch hh hc hn

theorem decFilter_or_head (regs : Regs) (d : Nat) (bs : Bytes) (h : Header)
    (hh : readHeader bs = .ok h) (hc : h.tag.cls = 2) (hn : h.tag.num = 1) :
    decFilter regs (d + 1) bs =
      (do let (c, rest) ← readTLV (some (tagCtx 1 true)) bs
          let fs ← loopMany (decFilter regs d) c.length c
          return (.or fs, rest)) := by
  filter_dispatch hh hc hn

theorem decFilter_not_head (regs : Regs) (d : Nat) (bs : Bytes) (h : Header)
    (hh : readHeader bs = .ok h) (hc : h.tag.cls = 2) (hn : h.tag.num = 2) :
    decFilter regs (d + 1) bs =
      (do let (c, rest) ← readTLV (some (tagCtx 2 true)) bs
          let (f, _) ← decFilter regs d c
          return (.not f, rest)) := by
  filter_dispatch hh hc hn

theorem decFilter_eq_head (regs : Regs) (d : Nat) (bs : Bytes) (h : Header)
    (hh : readHeader bs = .ok h) (hc : h.tag.cls = 2) (hn : h.tag.num = 3) :
    decFilter regs (d + 1) bs =
      (do let ((a, v), rest) ← decAva 3 bs
          return (.eq a v, rest)) := by
  filter_dispatch hh hc hn

theorem decFilter_substr_head (regs : Regs) (d : Nat) (bs : Bytes) (h : Header)
    (hh : readHeader bs = .ok h) (hc : h.tag.cls = 2) (hn : h.tag.num = 4) :
    decFilter regs (d + 1) bs =
      (do let (c, rest) ← readTLV (some (tagCtx 4 true)) bs
          let (a, c1) ← readText (some tOctets) c
          let (sc, _) ← readTLV (some tSeq) c1
          let acc ← decSubstrLoop sc.length sc {}
          return (.substr a acc.initial acc.any acc.final, rest)) := by
  filter_dispatch hh hc hn

theorem decFilter_ge_head (regs : Regs) (d : Nat) (bs : Bytes) (h : Header)
    (hh : readHeader bs = .ok h) (hc : h.tag.cls = 2) (hn : h.tag.num = 5) :
    decFilter regs (d + 1) bs =
      (do let ((a, v), rest) ← decAva 5 bs
          return (.ge a v, rest)) := by
  filter_dispatch hh hc hn

theorem decFilter_le_head (regs : Regs) (d : Nat) (bs : Bytes) (h : Header)
    (hh : readHeader bs = .ok h) (hc : h.tag.cls = 2) (hn : h.tag.num = 6) :
    decFilter regs (d + 1) bs =
      (do let ((a, v), rest) ← decAva 6 bs
          return (.le a v, rest)) := by
  filter_dispatch hh hc hn

theorem decFilter_present_head (regs : Regs) (d : Nat) (bs : Bytes) (h : Header)
    (hh : readHeader bs = .ok h) (hc : h.tag.cls = 2) (hn : h.tag.num = 7) :
    decFilter regs (d + 1) bs =
      (do let (a, rest) ← readText (some (tagCtx 7)) bs
          return (.present a, rest)) := by
  filter_dispatch hh hc hn

theorem decFilter_approx_head (regs : Regs) (d : Nat) (bs : Bytes) (h : Header)
    (hh : readHeader bs = .ok h) (hc : h.tag.cls = 2) (hn : h.tag.num = 8) :
    decFilter regs (d + 1) bs =
      (do let ((a, v), rest) ← decAva 8 bs
          return (.approx a v, rest)) := by
  filter_dispatch hh hc hn

theorem decFilter_ext_head (regs : Regs) (d : Nat) (bs : Bytes) (h : Header)
    (hh : readHeader bs = .ok h) (hc : h.tag.cls = 2) (hn : h.tag.num = 9) :
    decFilter regs (d + 1) bs =
      (do let (c, rest) ← readTLV (some (tagCtx 9 true)) bs
          let acc ← decExtLoop c.length c {}
          return (.ext acc.rule acc.attr acc.val acc.dn, rest)) := by
  filter_dispatch hh hc hn

theorem decFilter_custom_head (regs : Regs) (d : Nat) (bs : Bytes) (h : Header)
    (hh : readHeader bs = .ok h) (hc : h.tag.cls = 2) (hn : h.tag.num = Facts.customFilterId)
    (hr : regs.filter = true) :
    decFilter regs (d + 1) bs =
      (do let (v, rest) ← readText (some (tagCtx Facts.customFilterId)) bs
          return (.custom v, rest)) := by
  simp only [Facts.customFilterId] at hn
  simp only [decFilter, hh, hc, hn, hr, bind, Except.bind, Facts.filterAnd,
    Facts.filterOr, Facts.filterNot, Facts.filterEq, Facts.filterSubstr, Facts.filterGe,
    Facts.filterLe, Facts.filterPresent, Facts.filterApprox, Facts.filterExt,
    Facts.customFilterId]
  simp

/-! ### the filter theorem -/

theorem filterL_length {f : Filter} {bs : Bytes} (h : FilterL f bs) : 2 ≤ bs.length := by
  cases h <;> (rename_i ht; have := tlv_length ht; omega)

/-- what is shown of a permitted filter encoding -/
def FilterGoal (regs : Regs) (f : Filter) (bs : Bytes) : Prop :=
  ∀ (d : Nat) (rest : Bytes), f.WF regs → f.depth ≤ d → decFilter regs d (bs ++ rest) = .ok (f, rest)

/-- what is shown of a permitted encoding of a filter list -/
def FiltersGoal (regs : Regs) (fs : List Filter) (body : Bytes) : Prop :=
  ∀ (d fuel : Nat), Filter.WFs regs fs → Filter.depths fs ≤ d → body.length ≤ fuel →
    loopMany (decFilter regs d) fuel body = .ok fs

theorem goal_and (regs : Regs) {fs : List Filter} {body bs : Bytes}
    (ht : TLV (tagCtx 0 true) body bs) (ih : FiltersGoal regs fs body) :
    FilterGoal regs (.and fs) bs := by
  intro d rest hw hd
  simp only [Filter.WF, Filter.depth] at hw hd
  obtain ⟨d, rfl⟩ : ∃ d', d = d' + 1 := ⟨d - 1, by omega⟩
  rw [decFilter_and_head regs d _ _ (readHeader_tlv ht (readable_ctx 0 true) rest) rfl rfl]
  simp only [readTLV_tlv_some ht (readable_ctx 0 true), bind, Except.bind,
    ih d _ hw (by omega) (Nat.le_refl _)]
  rfl

theorem goal_or (regs : Regs) {fs : List Filter} {body bs : Bytes}
    (ht : TLV (tagCtx 1 true) body bs) (ih : FiltersGoal regs fs body) :
    FilterGoal regs (.or fs) bs := by
  intro d rest hw hd
  simp only [Filter.WF, Filter.depth] at hw hd
  obtain ⟨d, rfl⟩ : ∃ d', d = d' + 1 := ⟨d - 1, by omega⟩
  rw [decFilter_or_head regs d _ _ (readHeader_tlv ht (readable_ctx 1 true) rest) rfl rfl]
  simp only [readTLV_tlv_some ht (readable_ctx 1 true), bind, Except.bind,
    ih d _ hw (by omega) (Nat.le_refl _)]
  rfl

theorem goal_not (regs : Regs) {f : Filter} {fb extra bs : Bytes}
    (ht : TLV (tagCtx 2 true) (fb ++ extra) bs) (ih : FilterGoal regs f fb) :
    FilterGoal regs (.not f) bs := by
  intro d rest hw hd
  simp only [Filter.WF, Filter.depth] at hw hd
  obtain ⟨d, rfl⟩ : ∃ d', d = d' + 1 := ⟨d - 1, by omega⟩
  rw [decFilter_not_head regs d _ _ (readHeader_tlv ht (readable_ctx 2 true) rest) rfl rfl]
  simp only [readTLV_tlv_some ht (readable_ctx 2 true), bind, Except.bind,
    ih d extra hw (by omega)]
  rfl

theorem goal_eq (regs : Regs) {a v ab vb extra bs : Bytes} (h1 : TLV tOctets a ab)
    (h2 : TLV tOctets v vb) (ht : TLV (tagCtx 3 true) (ab ++ vb ++ extra) bs) :
    FilterGoal regs (.eq a v) bs := by
  intro d rest hw hd
  simp only [Filter.WF, Filter.depth] at hw hd
  obtain ⟨d, rfl⟩ : ∃ d', d = d' + 1 := ⟨d - 1, by omega⟩
  rw [decFilter_eq_head regs d _ _ (readHeader_tlv ht (readable_ctx 3 true) rest) rfl rfl,
    decAva_l h1 h2 ht hw]
  rfl

theorem goal_ge (regs : Regs) {a v ab vb extra bs : Bytes} (h1 : TLV tOctets a ab)
    (h2 : TLV tOctets v vb) (ht : TLV (tagCtx 5 true) (ab ++ vb ++ extra) bs) :
    FilterGoal regs (.ge a v) bs := by
  intro d rest hw hd
  simp only [Filter.WF, Filter.depth] at hw hd
  obtain ⟨d, rfl⟩ : ∃ d', d = d' + 1 := ⟨d - 1, by omega⟩
  rw [decFilter_ge_head regs d _ _ (readHeader_tlv ht (readable_ctx 5 true) rest) rfl rfl,
    decAva_l h1 h2 ht hw]
  rfl

theorem goal_le (regs : Regs) {a v ab vb extra bs : Bytes} (h1 : TLV tOctets a ab)
    (h2 : TLV tOctets v vb) (ht : TLV (tagCtx 6 true) (ab ++ vb ++ extra) bs) :
    FilterGoal regs (.le a v) bs := by
  intro d rest hw hd
  simp only [Filter.WF, Filter.depth] at hw hd
  obtain ⟨d, rfl⟩ : ∃ d', d = d' + 1 := ⟨d - 1, by omega⟩
  rw [decFilter_le_head regs d _ _ (readHeader_tlv ht (readable_ctx 6 true) rest) rfl rfl,
    decAva_l h1 h2 ht hw]
  rfl

theorem goal_approx (regs : Regs) {a v ab vb extra bs : Bytes} (h1 : TLV tOctets a ab)
    (h2 : TLV tOctets v vb) (ht : TLV (tagCtx 8 true) (ab ++ vb ++ extra) bs) :
    FilterGoal regs (.approx a v) bs := by
  intro d rest hw hd
  simp only [Filter.WF, Filter.depth] at hw hd
  obtain ⟨d, rfl⟩ : ∃ d', d = d' + 1 := ⟨d - 1, by omega⟩
  rw [decFilter_approx_head regs d _ _ (readHeader_tlv ht (readable_ctx 8 true) rest) rfl rfl,
    decAva_l h1 h2 ht hw]
  rfl

theorem goal_present (regs : Regs) {a bs : Bytes} (ht : TLV (tagCtx 7) a bs) :
    FilterGoal regs (.present a) bs := by
  intro d rest hw hd
  simp only [Filter.WF, Filter.depth] at hw hd
  obtain ⟨d, rfl⟩ : ∃ d', d = d' + 1 := ⟨d - 1, by omega⟩
  rw [decFilter_present_head regs d _ _ (readHeader_tlv ht (readable_ctx 7 false) rest) rfl rfl,
    readText_tlv_some ht (readable_ctx 7 false) hw]
  rfl

theorem goal_substr (regs : Regs) {a : Bytes} {i : Option Bytes} {any : List Bytes}
    {f : Option Bytes} {ab ib anyb fb ex sb extra bs : Bytes}
    (h1 : TLV tOctets a ab) (hi : OptL (tagCtx 0) i ib) (hany : OctetsL (tagCtx 1) any anyb)
    (hf : OptL (tagCtx 2) f fb) (hex : Extras [0, 1, 2] ex)
    (hs : TLV tSeq (ib ++ anyb ++ fb ++ ex) sb) (ht : TLV (tagCtx 4 true) (ab ++ sb ++ extra) bs) :
    FilterGoal regs (.substr a i any f) bs := by
  intro d rest hw hd
  simp only [Filter.WF, Filter.depth] at hw hd
  obtain ⟨d, rfl⟩ : ∃ d', d = d' + 1 := ⟨d - 1, by omega⟩
  rw [decFilter_substr_head regs d _ _ (readHeader_tlv ht (readable_ctx 4 true) rest) rfl rfl]
  simp only [readTLV_tlv_some ht (readable_ctx 4 true), List.append_assoc,
    readText_tlv_some h1 readable_tOctets hw, readTLV_tlv_some hs readable_tSeq,
    bind, Except.bind]
  have := decSubstr_all hi hany hf hex _ (Nat.le_refl _)
  simp only [List.append_assoc] at this
  rw [this]
  rfl

theorem goal_ext (regs : Regs) {rule attr : Option Bytes} {v : Bytes} {dn : Bool}
    {rb ab vb db ex bs : Bytes}
    (hru : OptL (tagCtx 1) rule rb) (hat : OptL (tagCtx 2) attr ab) (hv : TLV (tagCtx 3) v vb)
    (hdn : (dn = false ∧ db = []) ∨ BoolL (tagCtx 4) dn db) (hex : Extras [1, 2, 3, 4] ex)
    (ht : TLV (tagCtx 9 true) (rb ++ ab ++ vb ++ db ++ ex) bs) :
    FilterGoal regs (.ext rule attr v dn) bs := by
  intro d rest hw hd
  simp only [Filter.WF, Filter.depth] at hw hd
  obtain ⟨d, rfl⟩ : ∃ d', d = d' + 1 := ⟨d - 1, by omega⟩
  rw [decFilter_ext_head regs d _ _ (readHeader_tlv ht (readable_ctx 9 true) rest) rfl rfl]
  simp only [readTLV_tlv_some ht (readable_ctx 9 true), bind, Except.bind,
    decExt_all hru hat hv hdn hex hw.1 hw.2 _ (Nat.le_refl _)]
  rfl

theorem goal_custom (regs : Regs) {v bs : Bytes} (ht : TLV (tagCtx Facts.customFilterId) v bs) :
    FilterGoal regs (.custom v) bs := by
  intro d rest hw hd
  simp only [Filter.WF, Filter.depth] at hw hd
  obtain ⟨d, rfl⟩ : ∃ d', d = d' + 1 := ⟨d - 1, by omega⟩
  rw [decFilter_custom_head regs d _ _ (readHeader_tlv ht (readable_ctx _ false) rest) rfl rfl hw.1,
    readText_tlv_some ht (readable_ctx _ false) hw.2]
  rfl

theorem goal_nil (regs : Regs) : FiltersGoal regs [] [] := by
  intro d fuel _ _ _
  cases fuel <;> simp [loopMany]

theorem goal_cons (regs : Regs) {f : Filter} {fb : Bytes} {fs : List Filter} {rest : Bytes}
    (hf : FilterL f fb) (ih1 : FilterGoal regs f fb) (ih2 : FiltersGoal regs fs rest) :
    FiltersGoal regs (f :: fs) (fb ++ rest) := by
  intro d fuel hw hd hl
  simp only [Filter.WFs, Filter.depths] at hw hd
  have := filterL_length hf
  rw [List.length_append] at hl
  cases fuel with
  | zero => omega
  | succ fuel =>
    have hne : (fb ++ rest).isEmpty = false := by
      cases fb with
      | nil => simp at this
      | cons => simp
    simp only [loopMany, hne, Bool.false_eq_true, ↓reduceIte, ih1 d rest hw.1 (by omega),
      ih2 d fuel hw.2 (by omega) (by omega), bind, Except.bind]
    rfl

theorem decFilter_lenient (regs : Regs) {f : Filter} {bs : Bytes} (h : FilterL f bs) :
    FilterGoal regs f bs := by
  refine FilterL.rec (motive_1 := fun f bs _ => FilterGoal regs f bs)
    (motive_2 := fun fs body _ => FiltersGoal regs fs body)
    ?_ ?_ ?_ ?_ ?_ ?_ ?_ ?_ ?_ ?_ ?_ ?_ ?_ h
  · intro fs body bs _ ht ih; exact goal_and regs ht ih
  · intro fs body bs _ ht ih; exact goal_or regs ht ih
  · intro f fb extra bs _ ht ih; exact goal_not regs ht ih
  · intro a v ab vb extra bs h1 h2 ht; exact goal_eq regs h1 h2 ht
  · intro a v ab vb extra bs h1 h2 ht; exact goal_ge regs h1 h2 ht
  · intro a v ab vb extra bs h1 h2 ht; exact goal_le regs h1 h2 ht
  · intro a v ab vb extra bs h1 h2 ht; exact goal_approx regs h1 h2 ht
  · intro a bs ht; exact goal_present regs ht
  · intro a i any f ab ib anyb fb ex sb extra bs h1 hi hany hf hex hs ht
    exact goal_substr regs h1 hi hany hf hex hs ht
  · intro rule attr v dn rb ab vb db ex bs hru hat hv hdn hex ht
    exact goal_ext regs hru hat hv hdn hex ht
  · intro v bs ht; exact goal_custom regs ht
  · exact goal_nil regs
  · intro f fb fs rest hf _ ih1 ih2; exact goal_cons regs hf ih1 ih2

end Verif.Proofs.LenientD
