/-
C11, part 1: one direction of the joint system as a byte channel.  `Chan` says that what the
receiver still buffers, what is in the pipe and what the sender has not flushed yet parse back
completely, to exactly the messages sent and not yet handed to the receiving application.
-/
import Verif.Spec.Joint
import Verif.Proofs.Recv
import Verif.Proofs.Session
import Verif.Proofs.RoundTrip

namespace Verif.Proofs.JointP
open Verif Verif.Joint Verif.Proofs
set_option linter.unusedSimpArgs false
set_option linter.unusedVariables false

/-- the channel invariant for one direction; it mentions the receiver only through its state
    and residue, the sender only through its output buffer -/
def Chan (depth : Nat) (st : SState) (res pipe out : Bytes) (sent got : List Msg) : Prop :=
  st ≠ .closed → ∃ pending,
    parseLoop {} depth (res ++ pipe ++ out).length (res ++ pipe ++ out) = .ok (pending, []) ∧
    sent.map fillRaw = got ++ pending

theorem Chan.init (depth : Nat) (st : SState) : Chan depth st [] [] [] [] [] := by
  intro _
  exact ⟨[], by simp [parseLoop], rfl⟩

theorem Chan.of_closed {depth : Nat} {res pipe out : Bytes} {sent got : List Msg} :
    Chan depth .closed res pipe out sent got := fun h => absurd rfl h

theorem parse_one (depth : Nat) (m : Msg) (h : m.WF {}) (hd : m.op.filterDepth < depth) :
    parseLoop {} depth (encMsg m).length (encMsg m) = .ok ([fillRaw m], []) := by
  have := parseLoop_stream {} depth [m] (by
    intro x hx
    simp only [List.mem_singleton] at hx
    subst hx
    exact ⟨h, hd⟩)
  simpa using this

/-- an accepted call of the sender appends the encoding of its message -/
theorem Chan.send {depth : Nat} {st : SState} {res pipe out : Bytes} {sent got : List Msg}
    (h : Chan depth st res pipe out sent got) (m : Msg) (hw : m.WF {}) (hd : m.op.filterDepth < depth) :
    Chan depth st res pipe (out ++ encMsg m) (sent ++ [m]) got := by
  intro hs
  obtain ⟨p, hp, he⟩ := h hs
  refine ⟨p ++ [fillRaw m], ?_, ?_⟩
  · have := parseLoop_append {} depth (encMsg m) _ (res ++ pipe ++ out) p [] (Nat.le_refl _) hp
    rw [← List.append_assoc, this, List.nil_append, parse_one depth m hw hd]
  · rw [List.map_append, he, List.append_assoc]
    rfl

/-- a flush moves a prefix of the output buffer to the end of the pipe -/
theorem Chan.flush {depth : Nat} {st : SState} {res pipe out : Bytes} {sent got : List Msg}
    (h : Chan depth st res pipe out sent got) (n : Nat) :
    Chan depth st res (pipe ++ out.take n) (out.drop n) sent got := by
  have : res ++ (pipe ++ out.take n) ++ out.drop n = res ++ pipe ++ out := by
    simp [List.append_assoc, List.take_append_drop]
  unfold Chan
  rw [this]
  exact h

/-- a change of the receiver's state that does not reopen it -/
theorem Chan.state {depth : Nat} {st st' : SState} {res pipe out : Bytes} {sent got : List Msg}
    (h : Chan depth st res pipe out sent got) (hs : st' ≠ .closed → st ≠ .closed) :
    Chan depth st' res pipe out sent got := fun h' => h (hs h')

/-- what `recv` does once the parse of `residue ++ chunk` is known -/
theorem recv_of_parse (depth : Nat) (r : Sess) (chunk : Bytes) (ms : List Msg) (t : Bytes)
    (hs : r.state ≠ .closed)
    (hp : parseLoop r.regs depth (r.residue ++ chunk).length (r.residue ++ chunk) = .ok (ms, t)) :
    recv depth r chunk =
      match processLoop { r with residue := t } ms with
      | .ok s2 => (s2, .msgs ms)
      | .protoErr s2 u n => (closeSess s2, .protocolError (notificationFor r.role u n))
      | .keyErr s2 => (s2, .keyError) := by
  simp only [recv, hs, if_false, hp]
  cases processLoop { r with residue := t } ms <;> rfl

/-- a delivery: the chunk handed to `receive` parses, and what remains in flight parses to the
    remaining pending messages -/
theorem Chan.deliver_parse {depth : Nat} {r : Sess} {pipe out : Bytes} {sent got : List Msg}
    (h : Chan depth r.state r.residue pipe out sent got) (hregs : r.regs = {}) (k : Nat)
    (hs : r.state ≠ .closed) :
    ∃ ms t pend,
      parseLoop r.regs depth (r.residue ++ pipe.take k).length (r.residue ++ pipe.take k) = .ok (ms, t) ∧
      parseLoop {} depth (t ++ pipe.drop k ++ out).length (t ++ pipe.drop k ++ out) = .ok (pend, []) ∧
      sent.map fillRaw = got ++ (ms ++ pend) := by
  obtain ⟨p, hp, he⟩ := h hs
  have hsplit : r.residue ++ pipe ++ out = (r.residue ++ pipe.take k) ++ (pipe.drop k ++ out) := by
    rw [List.append_assoc, List.append_assoc, ← List.append_assoc (pipe.take k), List.take_append_drop]
  rw [hsplit] at hp
  obtain ⟨ms, t, h1⟩ := parseLoop_prefix_ok {} depth (pipe.drop k ++ out) _ (r.residue ++ pipe.take k) p []
    (Nat.le_refl _) hp
  rw [parseLoop_append {} depth (pipe.drop k ++ out) _ _ ms t (Nat.le_refl _) h1] at hp
  cases h2 : parseLoop {} depth (t ++ (pipe.drop k ++ out)).length (t ++ (pipe.drop k ++ out)) with
  | error e => rw [h2] at hp; cases hp
  | ok q =>
    obtain ⟨ms2, r2⟩ := q
    rw [h2] at hp
    simp only [Except.ok.injEq, Prod.mk.injEq] at hp
    obtain ⟨rfl, rfl⟩ := hp
    refine ⟨ms, t, ms2, ?_, ?_, he⟩
    · rw [hregs]; exact h1
    · rw [List.append_assoc]; exact h2

/-- the channel after a delivery whose loop ended normally -/
theorem Chan.after_ok {depth : Nat} {pipe out : Bytes} {sent got : List Msg} {ms pend : List Msg}
    {t : Bytes} (k : Nat) (st : SState)
    (h2 : parseLoop {} depth (t ++ pipe.drop k ++ out).length (t ++ pipe.drop k ++ out) = .ok (pend, []))
    (he : sent.map fillRaw = got ++ (ms ++ pend)) :
    Chan depth st t (pipe.drop k) out sent (got ++ ms) := by
  intro _
  exact ⟨pend, h2, by rw [he, List.append_assoc]⟩

/-! ### frame of a send-type call -/

theorem step_send_frame (s : Sess) (c : Call) (hs : c.isSend = true) :
    (step s c).1.residue = s.residue ∧ (step s c).1.regs = s.regs ∧
    (step s c).1.out = s.out ++ sentOf s c (step s c).2 ∧
    ((step s c).2.accepted = true → s.state ≠ .closed) := by
  rcases isSend_cases c hs with rfl | hc | hc
  · rcases step_unbind s with ⟨h, h'⟩ | ⟨h, h'⟩
    · rw [h, sentOf_refused rfl]; simp [Outcome.accepted]
    · rw [h, sentOf_accepted (m := unbindMsg) rfl rfl rfl]; simp [h']
  · cases hr : s.role with
    | server =>
      rw [step_clientReq_wrong_role s c hc hr, sentOf_refused rfl]; simp [Outcome.accepted]
    | client =>
      obtain ⟨m, hm, _, ⟨h, _⟩ | ⟨h', _, _, h⟩⟩ := step_clientReq s c hc hr
      · rw [h, sentOf_refused rfl]; simp [Outcome.accepted]
      · rw [h, sentOf_accepted hs rfl hm]; simp [h']
  · cases hr : s.role with
    | client =>
      rw [step_serverResp_wrong_role s c hc hr, sentOf_refused rfl]; simp [Outcome.accepted]
    | server =>
      obtain ⟨id, hid⟩ := Option.isSome_iff_exists.1 hc
      obtain ⟨m, hm, _, _, ⟨h, _⟩ | ⟨h, _⟩ | ⟨h', _, _, h⟩⟩ := step_serverResp s c id hid hr
      · rw [h, sentOf_refused rfl]; simp [Outcome.accepted]
      · rw [h, sentOf_refused rfl]; simp [Outcome.accepted, (openUp_frame s)]
      · rw [h, sentOf_accepted hs rfl hm]; simp [h']

/-- an accepted send call puts exactly the encoding of its message at the end of the buffer and
    logs that message -/
theorem step_send_accepted (s : Sess) (c : Call) (hs : c.isSend = true)
    (ha : (step s c).2.accepted = true) :
    ∃ m, msgOf s c = some m ∧ sentMsg s c (step s c).2 = [m] ∧
      (step s c).1.out = s.out ++ encMsg m := by
  have hf := (step_send_frame s c hs).2.2.1
  cases hm : msgOf s c with
  | none => cases c <;> simp [Call.isSend, msgOf] at hs hm
  | some m =>
    refine ⟨m, rfl, ?_, ?_⟩
    · simp [sentMsg, hs, ha, hm]
    · rw [hf, sentOf_accepted hs ha hm]

end Verif.Proofs.JointP
