/-
C18 (continued) — the step-counting filter parser (`Model/FilterSteps.lean`), part 1: it computes the
parser's result.  Every function of the step model is the function of `Model/FilterText.lean`
paired with a number; the first component is the original, by the same inductions as
`Proofs/FilterCost.lean`.
-/
import Verif.Model.FilterSteps
import Verif.Proofs.FilterTotalSimple

namespace Verif.Proofs.FilterSteps
open Verif Verif.FilterSteps

/-! ### leaves -/

theorem unescapeS_fst : ∀ (fuel : Nat) (l : Bytes), (unescapeS fuel l).1 = unescape fuel l := by
  intro fuel
  induction fuel with
  | zero => intro l; cases l <;> rfl
  | succ fuel ih =>
    intro l
    match l with
    | [] => rfl
    | b :: r =>
      simp only [unescapeS, unescape]
      split
      · match r with
        | [] => rfl
        | [_] => rfl
        | h1 :: h2 :: r' =>
          simp only
          split
          · rw [ih]
          · rfl
      · rw [ih]

theorem valueS_fst (v : Bytes) : (valueS v).1 = unescape (v.length + 1) v := unescapeS_fst _ _

theorem extHeaderS_fst (K : Nat) (header : Bytes) : (extHeaderS K header).1 = extHeader header := by
  unfold extHeaderS extHeader
  generalize splitOn cColon header = sp
  cases sp with
  | nil => rfl
  | cons h0 rest =>
    simp only
    split
    · rfl
    · cases rest with
      | nil => rfl
      | cons d r =>
        by_cases hd : List.map lowerAscii d = [100, 110]
        · simp only [hd, if_true]
          rcases r with _ | ⟨a, _ | ⟨b, t⟩⟩
          · rfl
          · rfl
          · simp
        · simp only [hd, if_false]
          rcases r with _ | ⟨b, t⟩
          · rfl
          · simp

theorem substringsValueS_fst (raw : Bytes) : (substringsValueS raw).1 = substringsValue raw := by
  unfold substringsValueS substringsValue
  generalize splitOn cStar raw = sp
  match sp with
  | [] => rfl
  | [_] => rfl
  | first :: x :: rest =>
    simp only [valueS_fst]
    generalize (if first.isEmpty = true then some none else Option.map some (unescape (first.length + 1) first)) = f
    generalize (if (x :: rest).getLast!.isEmpty = true then some none
      else Option.map some (unescape ((x :: rest).getLast!.length + 1) (x :: rest).getLast!)) = l
    generalize List.foldr _ (some []) (x :: rest).dropLast = ms
    rcases f with _ | f <;> rcases ms with _ | ms <;> rcases l with _ | l <;> rfl

/-! ### `_unpack_simple_filter` -/

@[simp] theorem tick_fst {α : Type} (n : Nat) (r : α × Nat) : (tick n r).1 = r.1 := rfl
@[simp] theorem tick_snd {α : Type} (n : Nat) (r : α × Nat) : (tick n r).2 = n + r.2 := rfl
@[simp] theorem ret_fst {α : Type} (a : α) : (ret a).1 = a := rfl
@[simp] theorem ret_snd {α : Type} (a : α) : (ret a).2 = 0 := rfl

open Verif.Proofs.FilterTotal (simpleBody valueLen unpackSimple_eq)

/-- the part of `unpackSimpleS` after the '=' has been found at `eq ≥ 1` -/
def simpleBodyS (K : Nat) (cur : Bytes) (off eq ft valueLen : Nat) (tail raw : Bytes) : R × Nat :=
    let len := cur.length
    if eq = len - 1 then ret (.error (.syntax off len)) else
    let typed := ft = cColon ∨ ft = cGt ∨ ft = cLt ∨ ft = cTilde
    if typed ∧ eq = 1 then ret (.error (.syntax off len)) else
    let attrEnd := if typed then eq - 1 else eq
    let attrib := cur.take attrEnd
    tick (2 * attrEnd + (if ft ≠ cColon then reCharge K attrEnd else 0)) <|
    if ft ≠ cColon ∧ !validAttr attrib then ret (.error (.syntax off attrEnd)) else
    let read := eq + 1
    let read' := read + valueLen
    tick (scanCost cRParen tail + valueLen + (if typed then 0 else scanCost cStar raw)) <|
    let bad : R := .error (.syntax (off + read) valueLen)
    if typed ∨ !raw.contains cStar then
      tick (valueS raw).2 <|
      match (valueS raw).1 with
      | none => ret bad
      | some v =>
        if ft = cColon then
          tick (extHeaderS K attrib).2 <|
          match (extHeaderS K attrib).1 with
          | none => ret (.error (.syntax off attrEnd))
          | some (attr, dn, rule) => ret (.ok (.ext rule attr v dn, read'))
        else if ft = cGt then ret (.ok (.ge attrib v, read'))
        else if ft = cLt then ret (.ok (.le attrib v, read'))
        else if ft = cTilde then ret (.ok (.approx attrib v, read'))
        else tick (scanCost cStar raw) <| ret (.ok (.eq attrib v, read'))
    else if raw = [cStar] then ret (.ok (.present attrib, read'))
    else
      tick (scanCost cStar raw + (substringsValueS raw).2) <|
      match (substringsValueS raw).1 with
      | none => ret bad
      | some (i, any, f) => ret (.ok (.substr attrib i any f, read'))

theorem unpackSimpleS_eq (K : Nat) (cur : Bytes) (off : Nat) : unpackSimpleS K cur off =
    tick (1 + scanCost cEq cur)
    (match indexOf cEq cur with
    | none => ret (.error (.syntax off cur.length))
    | some 0 => ret (.error (.syntax off 1))
    | some eq => simpleBodyS K cur off eq (cur.getD (eq - 1) 0) (valueLen (cur.drop (eq + 1)))
        (cur.drop (eq + 1)) ((cur.drop (eq + 1)).take (valueLen (cur.drop (eq + 1))))) := by
  unfold unpackSimpleS simpleBodyS valueLen
  rfl

theorem simpleBodyS_fst (K : Nat) (cur : Bytes) (off eq ft vl : Nat) (tail raw : Bytes) :
    (simpleBodyS K cur off eq ft vl tail raw).1 = simpleBody cur off eq ft vl raw := by
  unfold simpleBodyS simpleBody
  simp only [valueS_fst, extHeaderS_fst, substringsValueS_fst]
  generalize unescape (raw.length + 1) raw = rv
  generalize substringsValue raw = rs
  generalize extHeader _ = rh
  rcases rv with _ | v <;> rcases rs with _ | ⟨i, any, f⟩ <;> rcases rh with _ | ⟨a, d, ru⟩ <;>
    simp only [apply_ite Prod.fst, tick_fst, ret_fst]

theorem unpackSimpleS_fst (K : Nat) (cur : Bytes) (off : Nat) :
    (unpackSimpleS K cur off).1 = unpackSimple cur off := by
  rw [unpackSimpleS_eq, unpackSimple_eq, tick_fst]
  generalize indexOf cEq cur = ix
  match ix with
  | none => rfl
  | some 0 => rfl
  | some (e+1) => exact simpleBodyS_fst ..

/-! ### the loops -/

def Refines (fS : Bytes → Nat → R × Nat) (f : Bytes → Nat → Except FErr (Filter × Nat)) : Prop :=
  ∀ b o, (fS b o).1 = f b o

theorem complexLoopS_fst {ufS : Bytes → Nat → R × Nat} {uf : Bytes → Nat → Except FErr (Filter × Nat)}
    (hu : Refines ufS uf) (cur : Bytes) (off : Nat) :
    ∀ fuel read fs k, (complexLoopS ufS cur off fuel read fs k).1 = complexLoop uf cur off fuel read fs := by
  intro fuel
  induction fuel with
  | zero => intro read fs k; simp only [complexLoopS, complexLoop]
  | succ fuel ih =>
    intro read fs k
    simp only [complexLoopS, complexLoop]
    split
    · rfl
    · split
      · exact ih _ _ _
      · split
        · split
          · rfl
          · have h := hu ((cur.drop read).take (cur.length - read - 1)) (off + read)
            generalize ufS ((cur.drop read).take (cur.length - read - 1)) (off + read) = p at h
            obtain ⟨r, n⟩ := p
            simp only at h
            rw [← h]
            match r with
            | .error e => rfl
            | .ok (f, m) => exact ih _ _ _
        · split
          · rfl
          · rfl

theorem unpackComplexS_fst {ufS : Bytes → Nat → R × Nat} {uf : Bytes → Nat → Except FErr (Filter × Nat)}
    (hu : Refines ufS uf) : Refines (unpackComplexS ufS) (unpackComplex uf) := by
  intro cur off
  have h := complexLoopS_fst hu cur off cur.length 1 [] 1
  unfold unpackComplexS unpackComplex
  generalize complexLoopS ufS cur off cur.length 1 [] 1 = p at h
  obtain ⟨r, k⟩ := p
  simp only at h
  rw [← h]
  match r with
  | .error e => rfl
  | .ok ([], read) => rfl
  | .ok (f0 :: fs, read) =>
    simp only
    split
    · rfl
    · split <;> rfl

theorem filterLoopS_fst {cx sm : Bytes → Nat → R × Nat} {uf : Bytes → Nat → Except FErr (Filter × Nat)}
    (hcx : Refines cx (unpackComplex uf)) (hsm : Refines sm unpackSimple) (cur : Bytes) (off : Nat) :
    ∀ fuel st k, (filterLoopS cx sm cur off fuel st k).1 = filterLoop uf cur off fuel st := by
  intro fuel
  induction fuel with
  | zero => intro st k; simp only [filterLoopS, filterLoop]
  | succ fuel ih =>
    intro st k
    simp only [filterLoopS, filterLoop]
    split
    · rfl
    · split
      · exact ih _ _
      · split
        · split <;> (rename_i hq; simp only [hq])
        · split
          · split
            · rfl
            · by_cases hc : cur.getD st.read 0 = cBang ∨ cur.getD st.read 0 = cAmp ∨ cur.getD st.read 0 = cPipe
              · simp only [if_pos hc]
                have h := hcx (cur.drop st.read) (off + st.read)
                generalize cx (cur.drop st.read) (off + st.read) = p at h
                obtain ⟨r, n⟩ := p
                simp only at h
                rw [← h]
                match r with
                | .error e => rfl
                | .ok (f, m) => exact ih _ _
              · simp only [if_neg hc]
                have h := hsm (cur.drop st.read) (off + st.read)
                generalize sm (cur.drop st.read) (off + st.read) = p at h
                obtain ⟨r, n⟩ := p
                simp only at h
                rw [← h]
                match r with
                | .error e => rfl
                | .ok (f, m) => exact ih _ _
          · split
            · exact ih _ _
            · have h := hsm (cur.drop st.read) (off + st.read)
              generalize sm (cur.drop st.read) (off + st.read) = p at h
              obtain ⟨r, n⟩ := p
              simp only at h
              rw [← h]
              match r with
              | .error e => rfl
              | .ok (f, m) => rfl

theorem filterBodyS_fst {cx sm : Bytes → Nat → R × Nat} {uf : Bytes → Nat → Except FErr (Filter × Nat)}
    (hcx : Refines cx (unpackComplex uf)) (hsm : Refines sm unpackSimple) (cur : Bytes) (off : Nat) :
    (filterBodyS cx sm cur off).1 =
      match filterLoop uf cur off cur.length ⟨0, none, none⟩ with
      | .error e => .error e
      | .ok st =>
        match st.parens with
        | some p => .error (.syntax (off + p) (cur.length - p))
        | none =>
          match st.parsed with
          | none => .error (.syntax off cur.length)
          | some f => .ok (f, st.read) := by
  have h := filterLoopS_fst hcx hsm cur off cur.length ⟨0, none, none⟩ 1
  unfold filterBodyS
  generalize filterLoopS cx sm cur off cur.length ⟨0, none, none⟩ 1 = p at h
  obtain ⟨r, k⟩ := p
  simp only at h
  rw [← h]
  match r with
  | .error e => rfl
  | .ok ⟨rd, par, psd⟩ => cases par <;> cases psd <;> rfl

theorem unpackFilterS_fst (K : Nat) : ∀ depth, Refines (unpackFilterS K depth) (unpackFilter depth) := by
  intro depth
  induction depth with
  | zero => intro b o; rfl
  | succ depth ih =>
    intro cur off
    simp only [unpackFilterS, unpackFilter]
    exact filterBodyS_fst (unpackComplexS_fst ih) (unpackSimpleS_fst K) cur off

theorem steps_same_result_K (K depth : Nat) (s : List Nat) :
    (parseFilterTextSK K depth s).1 = parseFilterText depth s := by
  have h := unpackFilterS_fst K depth (utf8Encode (pyStrip s)) 0
  unfold parseFilterTextSK parseFilterText
  simp only
  generalize unpackFilterS K depth (utf8Encode (pyStrip s)) 0 = p at h
  obtain ⟨r, k⟩ := p
  simp only at h
  rw [← h]
  match r with
  | .error .recursion => rfl
  | .error (.syntax _ _) => rfl
  | .error .fuel => rfl
  | .ok (f, n) => rfl

theorem filter_steps_same_result (depth : Nat) (s : List Nat) :
    (parseFilterTextS depth s).1 = parseFilterText depth s := steps_same_result_K _ depth s

end Verif.Proofs.FilterSteps
