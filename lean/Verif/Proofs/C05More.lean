/-
Proofs for `Props/C05More.lean`, assembled from
* `C05MoreFuel`  — fuel irrelevance of every loop, `*_rest`, the writers' digit loops;
* `C05MoreRec`   — `.recursion` comes only from the depth budget of `decFilter`, and then the
                   input nests (`FilterDeeper`); length needed; independence of the depth budget;
* `C05MoreNotif` — the octets of the notification and which notification `recv` attaches.
Core Lean only.
-/
import Verif.Proofs.C05MoreFuel
import Verif.Proofs.C05MoreRec
import Verif.Proofs.C05MoreNotif

namespace Verif.Proofs.C05More
open Verif Verif.C05More Verif.Proofs

/-! ### 1. fuel -/

theorem loopMany_fuel_irrelevant {α : Type} (dec1 : Bytes → Except Err (α × Bytes)) (hp : Progress dec1)
    (n : Nat) (bs : Bytes) (h : bs.length ≤ n) : loopMany dec1 n bs = loopMany dec1 bs.length bs :=
  loopMany_fuel dec1 hp n bs.length bs h (Nat.le_refl _)

theorem element_decoders_progress (regs : Regs) (d : Nat) (e : Option Tag) :
    Progress (decFilter regs d) ∧ Progress (decControl regs) ∧ Progress (readText e) ∧
      Progress (readOctets e) ∧ Progress decAttr ∧ Progress (decMsg regs d) :=
  ⟨progress_decFilter regs d, progress_decControl regs, progress_readText e, progress_readOctets e,
    progress_decAttr, progress_decMsg regs d⟩

theorem decSubstrLoop_fuel_irrelevant (n : Nat) (bs : Bytes) (acc : SubstrAcc) (h : bs.length ≤ n) :
    decSubstrLoop n bs acc = decSubstrLoop bs.length bs acc :=
  decSubstrLoop_fuel n bs.length bs acc h (Nat.le_refl _)

theorem decExtLoop_fuel_irrelevant (n : Nat) (bs : Bytes) (acc : ExtAcc) (h : bs.length ≤ n) :
    decExtLoop n bs acc = decExtLoop bs.length bs acc :=
  decExtLoop_fuel n bs.length bs acc h (Nat.le_refl _)

theorem decOptLoop_fuel_irrelevant (n1 : Nat) (text1 : Bool) (n2 : Option Nat) (n : Nat) (bs : Bytes)
    (a b : Option Bytes) (h : bs.length ≤ n) :
    decOptLoop n1 text1 n2 n bs a b = decOptLoop n1 text1 n2 bs.length bs a b :=
  decOptLoop_fuel n1 text1 n2 n bs.length bs a b h (Nat.le_refl _)

theorem decEnvelopeLoop_fuel_irrelevant (regs : Regs) (n : Nat) (bs : Bytes) (cs : List Control)
    (rn : Option Bytes) (h : bs.length ≤ n) :
    decEnvelopeLoop regs n bs cs rn = decEnvelopeLoop regs bs.length bs cs rn :=
  decEnvelopeLoop_fuel regs n bs.length bs cs rn h (Nat.le_refl _)

theorem parseLoop_fuel_irrelevant (regs : Regs) (depth n : Nat) (bs : Bytes) (h : bs.length ≤ n) :
    parseLoop regs depth n bs = parseLoop regs depth bs.length bs :=
  parseLoop_fuel regs depth n bs.length bs h (Nat.le_refl _)

theorem writer_loops_fuel_irrelevant (f n : Nat) (h : n ≤ f) (neg : Bool) (limit : Nat) :
    digits128 f n = digits128 (n + 1) n ∧ digits256 f n = digits256 (n + 1) n ∧
      intEmit neg limit f n = intEmit neg limit n n :=
  ⟨digits128_fuel f (n + 1) n h (Nat.le_succ _), digits256_fuel f (n + 1) n h (Nat.le_succ _),
    intEmit_fuel neg limit f n n h (Nat.le_refl _)⟩

theorem packLen_fuel_free (n : Nat) : packLen n = derLen n := packLen_eq_derLen n

/-! ### 2. `.recursion` is never a fuel artefact -/

theorem loops_never_exhaust_fuel (regs : Regs) (n : Nat) (bs : Bytes) (h : bs.length ≤ n) :
    (∀ acc, decSubstrLoop n bs acc ≠ .error .recursion) ∧
    (∀ acc, decExtLoop n bs acc ≠ .error .recursion) ∧
    (∀ n1 t1 n2 a b, decOptLoop n1 t1 n2 n bs a b ≠ .error .recursion) ∧
    (∀ cs rn, decEnvelopeLoop regs n bs cs rn ≠ .error .recursion) :=
  ⟨fun acc => noRec_decSubstrLoop n bs acc h, fun acc => noRec_decExtLoop n bs acc h,
    fun n1 t1 n2 a b => noRec_decOptLoop n1 t1 n2 n bs a b h,
    fun cs rn => noRec_decEnvelopeLoop regs n bs cs rn h⟩

theorem loopMany_never_exhausts_fuel {α : Type} (dec1 : Bytes → Except Err (α × Bytes)) (hp : Progress dec1)
    (hn : ∀ bs, dec1 bs ≠ .error .recursion) (n : Nat) (bs : Bytes) (h : bs.length ≤ n) :
    loopMany dec1 n bs ≠ .error .recursion :=
  noRec_loopMany dec1 hp hn n bs h

theorem filter_recursion_is_nesting (regs : Regs) (d : Nat) (bs : Bytes)
    (h : decFilter regs d bs = .error .recursion) : FilterDeeper d bs :=
  decFilter_recursion regs d bs h

theorem decMsg_recursion_is_nesting (regs : Regs) (d : Nat) (bs : Bytes)
    (h : decMsg regs d bs = .error .recursion) : SearchFilterDeeper d bs :=
  decMsg_recursion regs d bs h

theorem parseLoop_recursion_is_nesting (regs : Regs) (d n : Nat) (buf : Bytes) (hn : buf.length ≤ n)
    (h : parseLoop regs d n buf = .error .recursion) :
    ∃ k suf, AfterElements k buf suf ∧ SearchFilterDeeper d suf :=
  parseLoop_recursion regs d n buf hn h

theorem nesting_needs_length (k : Nat) (bs : Bytes) :
    (FilterDeeper k bs → 2 * k ≤ bs.length) ∧ (SearchFilterDeeper k bs → 2 * k + 18 ≤ bs.length) :=
  ⟨filterDeeper_length, searchFilterDeeper_length⟩

theorem short_input_no_recursion (regs : Regs) (d n : Nat) (buf : Bytes) (hn : buf.length ≤ n)
    (hs : buf.length < 2 * d + 18) : parseLoop regs d n buf ≠ .error .recursion := by
  intro h
  obtain ⟨k, suf, h1, h2⟩ := parseLoop_recursion regs d n buf hn h
  have := afterElements_length h1
  have := searchFilterDeeper_length h2
  omega

theorem recv_depth_irrelevant (d d' : Nat) (s : Sess) (chunk : Bytes) (hd : d ≤ d')
    (h : parseLoop s.regs d (s.residue ++ chunk).length (s.residue ++ chunk) ≠ .error .recursion) :
    recv d' s chunk = recv d s chunk :=
  recv_depth d d' s chunk hd h

theorem decMsg_depth_irrelevant (regs : Regs) (d d' : Nat) (bs : Bytes) (hd : d ≤ d')
    (h : decMsg regs d bs ≠ .error .recursion) : decMsg regs d' bs = decMsg regs d bs :=
  decMsg_depth regs d d' bs hd h

theorem decMsg_recursion_mono (regs : Regs) (d d' : Nat) (bs : Bytes) (hd : d' ≤ d)
    (h : decMsg regs d bs = .error .recursion) : decMsg regs d' bs = .error .recursion := by
  apply Classical.byContradiction
  intro hne
  have := decMsg_depth regs d' d bs hd hne
  rw [h] at this
  exact hne this.symm

/-! ### 3. the notification -/

theorem notifBytes_is_model_encoding (diag : Bytes) :
    notifBytes .notice diag = some (encMsg (noticeMsg diag)) ∧
      notifBytes .unbind diag = some (encMsg unbindMsg) ∧ notifBytes .none diag = none :=
  ⟨by rw [← noticeBytes_eq_encMsg]; rfl, by rfl, rfl⟩

theorem notification_bytes (d : Nat) (s : Sess) (chunk : Bytes) (n : Notification)
    (h : (recv d s chunk).2 = .protocolError n) :
    match s.role, n with
    | .server, .notice => ∀ diag, IsText diag → diag.length < 256 ^ 125 →
        ∃ b, notifBytes .notice diag = some b ∧ Rfc.decode b = some (noticeOfDisconnection diag) ∧
          ∀ regs k, 0 < k → decMsg regs k b = .ok (noticeOfDisconnection diag, [])
    | .client, .unbind => ∀ diag,
        ∃ b, notifBytes .unbind diag = some b ∧ b = unbindBytes ∧
          (∀ regs k, decMsg regs k b = .ok (unbindRequest, [])) ∧
          Rfc.decode b = none ∧ Rfc.decode unbindBytesRfc = some unbindRequest
    | _, .none => ∀ diag, notifBytes .none diag = none
    | _, _ => False := by
  have hk := recv_notification d s chunk n h
  revert hk
  generalize s.role = r
  intro hk
  cases r <;> cases n
  · intro diag; rfl
  · intro diag
    exact ⟨unbindBytes, rfl, rfl, fun regs k => unbind_model_decodes regs k, unbind_strict.1, unbind_strict.2⟩
  · simp at hk
  · intro diag; rfl
  · simp at hk
  · intro diag hd hl
    exact ⟨noticeBytes diag, rfl, notice_decodes diag hd hl,
      fun regs k hk => notice_model_decodes regs k hk diag hd⟩

theorem recv_error_characterised (d : Nat) (s : Sess) (chunk : Bytes) (n : Notification) :
    (recv d s chunk).2 = .protocolError n ↔
      ∃ cause, RecvCause d s chunk cause ∧ n = attached s.role cause :=
  recv_error_iff d s chunk n

theorem notification_none_iff (d : Nat) (s : Sess) (chunk : Bytes) (n : Notification)
    (h : (recv d s chunk).2 = .protocolError n) :
    n = .none ↔ ∃ m, RecvCause d s chunk (some m) ∧ (IsUnbind m ∨ (s.role = .client ∧ IsNotice m)) := by
  constructor
  · intro hn
    obtain ⟨cause, hc, hattached⟩ := (recv_error_iff d s chunk n).1 h
    rw [hn] at hattached
    cases cause with
    | none => rw [attached_none] at hattached; cases hr : s.role <;> rw [hr] at hattached <;> cases hattached
    | some m =>
      refine ⟨m, hc, ?_⟩
      rw [attached_some] at hattached
      by_cases hu : m.op.isUnbind = true
      · exact .inl ((isUnbind_iff m).1 hu)
      · by_cases hnn : m.op.isNotice = true
        · cases hr : s.role with
          | client => exact .inr ⟨rfl, (isNotice_iff m).1 hnn⟩
          | server =>
            rw [hr, Bool.eq_false_iff.2 hu] at hattached
            simp [notificationFor] at hattached
        · rw [Bool.eq_false_iff.2 hu, Bool.eq_false_iff.2 hnn] at hattached
          cases hr : s.role <;> rw [hr] at hattached <;> simp [notificationFor] at hattached
  · rintro ⟨m, hc, hm⟩
    have h2 := (recv_error_iff d s chunk (attached s.role (some m))).2 ⟨some m, hc, rfl⟩
    rw [h2] at h
    injection h with h
    rw [← h, attached_some]
    rcases hm with hm | ⟨hr, hm⟩
    · have hu := (isUnbind_iff m).2 hm
      rw [hu]
      cases s.role <;> simp [notificationFor]
    · have hnn := (isNotice_iff m).2 hm
      rw [hr, hnn]
      simp [notificationFor]

end Verif.Proofs.C05More
