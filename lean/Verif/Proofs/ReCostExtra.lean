/-
C18 support library, part 2: further generic rules of the degree calculus of ReCost.lean, needed
for the three schema description patterns (ReSchema*.lean).

* `Fails r Q`   : outside `Q`, `r` has no result (the `runs` half of `Dead`, no cost claim);
* `Skip r Q`    : outside `Q`, `r` is inert: its only result is the input itself, at bounded cost
                  (an optional group / a repetition whose body is dead);
* `Single r`    : at most one result;  `Few r` : boundedly many results;
* `SparseN r Q d` : the number of results at `Q` positions is `O(n^d)`;
* `pastIn ivs J t` : after skipping the leading `ivs` characters, `t` starts with a `J` character
                  (the restart predicate of lists whose separator is `[ ]*` / `[ ]+`);
* `kwCat`, `kw` : keyword literals.

Core Lean only.
-/
import Verif.Proofs.ReCost

namespace Verif.Proofs.ReCost
open Verif Verif.Re

/-! ### `Fails` -/

def Fails (r : Re) (Q : List Nat → Bool) : Prop := ∀ t, Q t = false → runs r t = []

theorem Dead.fails {r : Re} {Q : List Nat → Bool} (h : Dead r Q) : Fails r Q := fun _ ht => h.runs_eq ht

theorem Fails.mono {r : Re} {Q Q' : List Nat → Bool} (h : Fails r Q) (hq : ∀ t, Q' t = false → Q t = false) :
    Fails r Q' := fun t ht => h t (hq t ht)

theorem Fails.cls (ivs) : Fails (Re.cls ivs) (startsIn ivs) := fun _ ht => runs_cls_of_not_startsIn ht

theorem Fails.cat {a : Re} {Q : List Nat → Bool} (h : Fails a Q) (b : Re) : Fails (Re.cat a b) Q := by
  intro t ht; rw [runs_cat, h t ht]; rfl

theorem Fails.alt {a b : Re} {Q : List Nat → Bool} (ha : Fails a Q) (hb : Fails b Q) : Fails (Re.alt a b) Q := by
  intro t ht; rw [runs_alt, ha t ht, hb t ht]; rfl

theorem Fails.pass {b : Re} {Q : List Nat → Bool} (h : Fails b Q) (P : List Nat → Bool) :
    ∀ t, Q t = false → ∀ u ∈ runs b t, P u = false := by
  intro t ht u hu; rw [h t ht] at hu; simp at hu

/-! ### `Skip` -/

def Skip (r : Re) (Q : List Nat → Bool) : Prop := ∃ w, ∀ t, Q t = false → runs r t = [t] ∧ work r t ≤ w

theorem Skip.mono {r : Re} {Q Q' : List Nat → Bool} (h : Skip r Q) (hq : ∀ t, Q' t = false → Q t = false) :
    Skip r Q' := by
  obtain ⟨w, h⟩ := h
  exact ⟨w, fun t ht => h t (hq t ht)⟩

/-- an optional group whose body is dead -/
theorem Skip.opt {x : Re} {Q : List Nat → Bool} (h : Dead x Q) : Skip (Re.alt x Re.eps) Q := by
  obtain ⟨w, h⟩ := h
  refine ⟨2 + w, fun t ht => ?_⟩
  have := h t ht
  rw [runs_alt, work_alt, this.1, runs_eps, work_eps]
  exact ⟨rfl, by omega⟩

/-- a repetition whose body is dead -/
theorem Skip.star {x : Re} {Q : List Nat → Bool} (h : Dead x Q) : Skip (Re.star x) Q := by
  obtain ⟨w, h⟩ := h
  refine ⟨1 + w, fun t ht => ?_⟩
  have := h t ht
  rw [runs_star_of_nil this.1, work_star_of_nil this.1]
  exact ⟨rfl, by omega⟩

theorem Skip.cheap {a : Re} {Q : List Nat → Bool} (h : Skip a Q) : Cheap a Q := by
  obtain ⟨w, h⟩ := h
  exact ⟨w, fun t ht => (h t ht).2⟩

theorem Skip.pass {a : Re} {Q P : List Nat → Bool} (h : Skip a Q) (hp : ∀ t, Q t = false → P t = false) :
    ∀ t, Q t = false → ∀ u ∈ runs a t, P u = false := by
  obtain ⟨w, h⟩ := h
  intro t ht u hu
  rw [(h t ht).1] at hu; simp at hu; rw [hu]; exact hp t ht

/-- an inert head followed by a cheap tail -/
theorem Cheap.cat_skip {a b : Re} {Q : List Nat → Bool} (ha : Skip a Q) (hb : Cheap b Q) :
    Cheap (Re.cat a b) Q := by
  obtain ⟨w, ha⟩ := ha
  obtain ⟨w', hb⟩ := hb
  refine ⟨1 + w + w', fun t ht => ?_⟩
  have h1 := ha t ht
  have h2 := hb t ht
  rw [work_cat, h1.1]
  simp only [List.map_cons, List.map_nil, List.sum_cons, List.sum_nil]
  omega

/-- an inert head followed by a dead tail -/
theorem Dead.cat_skip {a b : Re} {Q : List Nat → Bool} (ha : Skip a Q) (hb : Dead b Q) :
    Dead (Re.cat a b) Q := by
  obtain ⟨w, ha⟩ := ha
  obtain ⟨w', hb⟩ := hb
  refine ⟨1 + w + w', fun t ht => ?_⟩
  have h1 := ha t ht
  have h2 := hb t ht
  rw [runs_cat, work_cat, h1.1]
  simp only [List.map_cons, List.map_nil, List.sum_cons, List.sum_nil, List.flatMap_cons, List.flatMap_nil,
    List.append_nil]
  exact ⟨h2.1, by omega⟩

/-! ### `Single` / `Few` -/

abbrev Single (r : Re) : Prop := Sparse1 r (fun _ => true)
abbrev Few (r : Re) : Prop := Sparse r (fun _ => true)

theorem countP_true_eq {α} (l : List α) : l.countP (fun _ => true) = l.length := by
  induction l with
  | nil => rfl
  | cons a l ih => simp [ih]

theorem Single.len {r : Re} (h : Single r) (s : List Nat) : (runs r s).length ≤ 1 := by
  have := h s; rwa [countP_true_eq] at this

theorem Single.of_len {r : Re} (h : ∀ s, (runs r s).length ≤ 1) : Single r := by
  intro s; rw [countP_true_eq]; exact h s

theorem Single.sparse1 {r : Re} (h : Single r) (P : List Nat → Bool) : Sparse1 r P :=
  Sparse1.mono h (fun _ _ => rfl)

theorem Single.few {r : Re} (h : Single r) : Few r := Sparse1.sparse h

theorem Few.sparse {r : Re} (h : Few r) (P : List Nat → Bool) : Sparse r P := Sparse.mono h (fun _ _ => rfl)

theorem Single.sparse {r : Re} (h : Single r) (P : List Nat → Bool) : Sparse r P := h.few.sparse P

theorem Few.rp {r : Re} (h : Few r) {d : Nat} : RP r d := by
  obtain ⟨k, h⟩ := h
  exact RP.of_const k (fun s => by have := h s; rwa [countP_true_eq] at this)

theorem Few.of_RP0 {r : Re} (h : RP r 0) : Few r := Sparse.of_RP0 h _

theorem Single.rp {r : Re} (h : Single r) {d : Nat} : RP r d := h.few.rp

theorem Single.cls {ivs} : Single (Re.cls ivs) := Sparse1.cls _ _

theorem Single.eps : Single Re.eps := Single.of_len (fun s => by simp)

theorem Single.cat {a b : Re} (ha : Single a) (hb : Single b) : Single (Re.cat a b) := Sparse1.cat ha.len hb

theorem Single.cat_munch (Q : List Nat → Bool) {a b : Re} (sa : Sparse1 a Q) (hb : Fails b Q) (sb : Single b) :
    Single (Re.cat a b) := Sparse1.cat_munch Q sa (hb.pass _) sb

theorem Few.cat_munch (Q : List Nat → Bool) {a b : Re} (sa : Sparse a Q) (hb : Fails b Q) (sb : Few b) :
    Few (Re.cat a b) := Sparse.cat_munch Q sa (hb.pass _) sb

theorem Few.alt {a b : Re} (ha : Few a) (hb : Few b) : Few (Re.alt a b) := Sparse.alt ha hb

/-- alternatives that start with different characters -/
theorem Sparse1.alt_fails {a b : Re} {P : List Nat → Bool} (Qa Qb : List Nat → Bool) (ha : Sparse1 a P)
    (hb : Sparse1 b P) (fa : Fails a Qa) (fb : Fails b Qb) (hx : ∀ t, Qa t = true → Qb t = false) :
    Sparse1 (Re.alt a b) P := by
  apply Sparse1.alt_of_excl ha hb
  intro s
  cases h : Qa s with
  | false => left; rw [fa s h]; rfl
  | true => right; rw [fb s (hx s h)]; rfl

/-! ### `SparseN` -/

def SparseN (r : Re) (Q : List Nat → Bool) (d : Nat) : Prop := ∃ c, ∀ s, (runs r s).countP Q ≤ B c d s.length

theorem Sparse.sparseN {r : Re} {Q : List Nat → Bool} (h : Sparse r Q) {d : Nat} : SparseN r Q d := by
  obtain ⟨k, h⟩ := h
  exact ⟨k, fun s => Nat.le_trans (h s) (le_B k d _)⟩

/-- the chain of iterations of `star x` visits at most `n + 1` restart positions -/
theorem countP_runs_star_chain_le (x : Re) (Q : List Nat → Bool) (hdead : Fails x Q) (hone : Sparse1 x Q)
    (s : List Nat) : (runs (Re.star x) s).countP Q ≤ s.length + 1 := by
  have ih : ∀ t, t.length < s.length → (runs (Re.star x) t).countP Q ≤ t.length + 1 :=
    fun t _ => countP_runs_star_chain_le x Q hdead hone t
  rw [runs_star, List.countP_append, List.countP_flatMap]
  have hsum := sum_munch ((runs x s).filter (fun t => decide (t.length < s.length))) Q
    (List.countP Q ∘ runs (Re.star x)) 0 s.length
    (fun t _ hq => by simp [Function.comp, runs_star_of_nil (hdead t hq), hq])
    (fun t ht _ => by
      have hlt : t.length < s.length := by simpa using (List.mem_filter.mp ht).2
      have := ih t hlt
      simp only [Function.comp]; omega)
  have h2 := Nat.le_trans (filter_shorter_countP_le Q (runs x s) s) (hone s)
  have h3 : ((runs x s).filter (fun t => decide (t.length < s.length))).countP Q * s.length ≤ s.length :=
    calc _ ≤ 1 * s.length := Nat.mul_le_mul_right _ h2
      _ = _ := Nat.one_mul _
  have h4 : [s].countP Q ≤ 1 := List.countP_le_length
  simp only [Nat.mul_zero, Nat.zero_add] at hsum
  omega
termination_by s.length

theorem SparseN.star_chain {x : Re} {Q : List Nat → Bool} (hdead : Fails x Q) (hone : Sparse1 x Q) :
    SparseN (Re.star x) Q 1 :=
  ⟨1, fun s => by simpa [B] using countP_runs_star_chain_le x Q hdead hone s⟩

theorem SparseN.cat_munch (Q : List Nat → Bool) {a b : Re} {P : List Nat → Bool} {k : Nat} (sa : Sparse a Q)
    (hpass : ∀ t, Q t = false → ∀ u ∈ runs b t, P u = false) (hb : SparseN b P k) :
    SparseN (Re.cat a b) P k := by
  obtain ⟨ka, sa⟩ := sa
  obtain ⟨kb, hb⟩ := hb
  refine ⟨ka * kb, fun s => ?_⟩
  rw [countP_runs_cat]
  have := sum_munch (runs a s) Q (fun t => (runs b t).countP P) 0 (B kb k s.length)
    (fun t _ hq => by
      have : (runs b t).countP P = 0 := by
        rw [List.countP_eq_zero]; intro u hu; simp [hpass t hq u hu]
      omega)
    (fun t ht _ => Nat.le_trans (hb t) (B_mono (Nat.le_refl _) (Nat.le_refl _) (runs_length_le ht)))
  have h2 : (runs a s).countP Q * B kb k s.length ≤ B (ka * kb) k s.length :=
    calc _ ≤ ka * B kb k s.length := Nat.mul_le_mul_right _ (sa s)
      _ = _ := const_mul_B ..
  omega

/-- maximal-munch rule with polynomially many live results of the head -/
theorem PB.cat_munchN (Q : List Nat → Bool) {a b : Re} {d e k f g : Nat} (ha : PB a d) (ra : RP a e)
    (sa : SparseN a Q k) (cb : Cheap b Q) (hb : PB b f)
    (hd : d ≤ g := by omega) (he : e ≤ g := by omega) (hf : k + f ≤ g := by omega) : PB (Re.cat a b) g := by
  obtain ⟨ca, ha⟩ := ha
  obtain ⟨ka, ra⟩ := ra
  obtain ⟨k', sa⟩ := sa
  obtain ⟨w, cb⟩ := cb
  obtain ⟨cb', hb⟩ := hb
  refine ⟨1 + ca + ka * w + k' * cb', fun s => ?_⟩
  have h0 := work_cat_munch a b s Q w (B cb' f s.length) (fun t _ hq => cb t hq)
    (fun t ht _ => Nat.le_trans (hb t) (B_mono (Nat.le_refl _) (Nat.le_refl _) (runs_length_le ht)))
  have h1 : work a s ≤ B ca g s.length := Nat.le_trans (ha s) (B_mono (Nat.le_refl _) hd (Nat.le_refl _))
  have h2 : (runs a s).length * w ≤ B (ka * w) g s.length :=
    calc _ ≤ B ka e s.length * w := Nat.mul_le_mul_right _ (ra s)
      _ = B (ka * w) e s.length := B_mul_const ..
      _ ≤ _ := B_mono (Nat.le_refl _) he (Nat.le_refl _)
  have h3 : (runs a s).countP Q * B cb' f s.length ≤ B (k' * cb') g s.length :=
    calc _ ≤ B k' k s.length * B cb' f s.length := Nat.mul_le_mul_right _ (sa s)
      _ = B (k' * cb') (k + f) s.length := B_mul ..
      _ ≤ _ := B_mono (Nat.le_refl _) hf (Nat.le_refl _)
  have h4 := le_B 1 g s.length
  show work (Re.cat a b) s ≤ B (1 + ca + ka * w + k' * cb') g s.length
  rw [← B_add, ← B_add, ← B_add]; omega

/-! ### `pastIn`: positions that reach a `J` character after skipping the `ivs` characters -/

def pastIn (ivs J : List (Nat × Nat)) (t : List Nat) : Bool := startsIn J (t.dropWhile (inCls ivs))

theorem dropWhile_of_mem_runs_star_cls {ivs} {s u : List Nat} (h : u ∈ runs (Re.star (Re.cls ivs)) s) :
    u.dropWhile (inCls ivs) = s.dropWhile (inCls ivs) := by
  induction s with
  | nil => rw [runs_star_cls_nil] at h; simp at h; rw [h]
  | cons c r ih =>
    rw [runs_star_cls_cons] at h
    split at h
    · rename_i hc
      rw [List.mem_append] at h
      cases h with
      | inl h => rw [ih h, List.dropWhile_cons, if_pos hc]
      | inr h => simp at h; rw [h]
    · simp at h; rw [h]

theorem dropWhile_of_startsIn {ivs J} (hd : Disj J ivs) {u : List Nat} (h : startsIn J u = true) :
    u.dropWhile (inCls ivs) = u := by
  cases u with
  | nil => rfl
  | cons c r =>
    have : inCls ivs c = false := hd c h
    rw [List.dropWhile_cons, this]; rfl

theorem pastIn_of_mem_star {ivs J} (hd : Disj J ivs) {t u : List Nat} (hu : u ∈ runs (Re.star (Re.cls ivs)) t)
    (h : startsIn J u = true) : pastIn ivs J t = true := by
  unfold pastIn
  rw [← dropWhile_of_mem_runs_star_cls hu, dropWhile_of_startsIn hd h]; exact h

theorem pastIn_cons_in {ivs J} {c : Nat} {r : List Nat} (hc : inCls ivs c = true) :
    pastIn ivs J (c :: r) = pastIn ivs J r := by
  unfold pastIn; rw [List.dropWhile_cons, if_pos hc]

theorem pastIn_cases {ivs J} {t : List Nat} (h : pastIn ivs J t = true) :
    startsIn ivs t = true ∨ startsIn J t = true := by
  cases t with
  | nil => simp [pastIn] at h
  | cons c r =>
    cases hc : inCls ivs c with
    | true => left; exact hc
    | false =>
      right
      unfold pastIn at h
      rw [List.dropWhile_cons, hc] at h
      exact h

theorem pastIn_disj {ivs J K} (hd : Disj J K) {t : List Nat} (h : pastIn ivs J t = true) :
    pastIn ivs K t = false := hd.starts _ h

theorem pastIn_false_of {ivs J K} (h1 : Disj K ivs) (h2 : Disj K J) :
    ∀ t, notStartsIn K t = false → pastIn ivs J t = false := by
  intro t ht
  cases hp : pastIn ivs J t with
  | false => rfl
  | true =>
    have hk : startsIn K t = true := by simpa [notStartsIn] using ht
    cases pastIn_cases hp with
    | inl h => have := h1.starts t hk; simp [h] at this
    | inr h => have := h2.starts t hk; simp [h] at this

theorem pastIn_notStartsIn {ivs J K} (h1 : Disj K ivs) (h2 : Disj K J) :
    ∀ t, pastIn ivs J t = true → notStartsIn K t = true := by
  intro t ht
  cases hk : notStartsIn K t with
  | true => rfl
  | false => have := pastIn_false_of h1 h2 t hk; simp [ht] at this

/-- `[ivs]* b` fails unless the input reaches a `J` character after the `ivs` characters -/
theorem Fails.star_cls_cat {ivs J} (hd : Disj J ivs) {b : Re} (hb : Fails b (startsIn J)) :
    Fails (Re.cat (Re.star (Re.cls ivs)) b) (pastIn ivs J) := by
  intro t ht
  rw [runs_cat, List.flatMap_eq_nil_iff]
  intro u hu
  cases hj : startsIn J u with
  | false => exact hb u hj
  | true => have := pastIn_of_mem_star hd hu hj; simp [ht] at this

/-- `[ivs]+ b` fails unless the input reaches a `J` character after the `ivs` characters -/
theorem Fails.plus_cls_cat {ivs J} (hd : Disj J ivs) {b : Re} (hb : Fails b (startsIn J)) :
    Fails (Re.cat (Re.cat (Re.cls ivs) (Re.star (Re.cls ivs))) b) (pastIn ivs J) := by
  intro t ht
  rw [runs_cat, List.flatMap_eq_nil_iff]
  intro u hu
  rw [runs_cat, List.mem_flatMap] at hu
  obtain ⟨v, hv, hu⟩ := hu
  obtain ⟨c, rfl, hc⟩ := mem_runs_cls hv
  rw [pastIn_cons_in hc] at ht
  cases hj : startsIn J u with
  | false => exact hb u hj
  | true => have := pastIn_of_mem_star hd hu hj; simp [ht] at this

/-- results of `a [ivs]*` at a `J` character come from the results of `a` that reach it -/
theorem Sparse1.cat_star_cls {ivs J} (hd : Disj J ivs) {a : Re} (sa : Sparse1 a (pastIn ivs J)) :
    Sparse1 (Re.cat a (Re.star (Re.cls ivs))) (startsIn J) := by
  refine Sparse1.cat_munch (pastIn ivs J) sa ?_ (Sparse1.star_cls ivs hd.starts)
  intro t ht u hu
  cases hj : startsIn J u with
  | false => rfl
  | true => have := pastIn_of_mem_star hd hu hj; simp [ht] at this

/-- `Sparse1.star_chain` with a body that merely fails (no cost claim) outside `Q` -/
theorem Sparse1.star_chain_fails {x : Re} (Q Q' : List Nat → Bool) {P : List Nat → Bool} (hdead : Fails x Q)
    (hone : Sparse1 x Q') (hQ : ∀ t, Q t = true → Q' t = true) (hP : ∀ t, P t = true → Q' t = true)
    (hPQ : ∀ t, P t = true → Q t = false) : Sparse1 (Re.star x) P :=
  countP_runs_star_chain x Q Q' P hdead hone hQ hP hPQ

/-! ### keyword literals -/

/-- a single literal character -/
def lit (c : Nat) : Re := .cls [(c, c)]

/-- the characters `cs`, then `r` -/
def kwCat : List Nat → Re → Re
  | [], r => r
  | c :: cs, r => .cat (lit c) (kwCat cs r)

/-- a keyword as the translator emits it: right-nested, the last character is not followed by `eps` -/
def kw : List Nat → Re
  | [] => .eps
  | [c] => lit c
  | c :: c' :: cs => .cat (lit c) (kw (c' :: cs))

theorem PB.kwCat {r : Re} {d : Nat} (h : PB r d) : ∀ cs, PB (kwCat cs r) d
  | [] => h
  | _ :: cs => PB.cat PB.cls RP.cls (PB.kwCat h cs)

theorem RP.kwCat {r : Re} {d : Nat} (h : RP r d) : ∀ cs, RP (kwCat cs r) d
  | [] => h
  | _ :: cs => RP.cat RP.cls (RP.kwCat h cs)

theorem Sparse.kwCat {r : Re} {P : List Nat → Bool} (h : Sparse r P) : ∀ cs, Sparse (kwCat cs r) P
  | [] => h
  | _ :: cs => Sparse.cat RP.cls (Sparse.kwCat h cs)

theorem Sparse1.kwCat {r : Re} {P : List Nat → Bool} (h : Sparse1 r P) : ∀ cs, Sparse1 (kwCat cs r) P
  | [] => h
  | _ :: cs => Sparse1.cat (runs_cls_length_le _) (Sparse1.kwCat h cs)

theorem Dead.kwCat (c : Nat) (cs : List Nat) (r : Re) : Dead (kwCat (c :: cs) r) (startsIn [(c, c)]) :=
  Dead.cat (Dead.cls _) _

theorem PB.kw : ∀ cs, PB (kw cs) 0
  | [] => PB.eps
  | [_] => PB.cls
  | _ :: c' :: cs => PB.cat PB.cls RP.cls (PB.kw (c' :: cs))

theorem Single.kw : ∀ cs, Single (kw cs)
  | [] => Single.eps
  | [_] => Single.cls
  | _ :: c' :: cs => Single.cat Single.cls (Single.kw (c' :: cs))

theorem Dead.kw (c : Nat) : ∀ cs, Dead (kw (c :: cs)) (startsIn [(c, c)])
  | [] => Dead.cls _
  | _ :: _ => Dead.cat (Dead.cls _) _

theorem disj_lit {A : List (Nat × Nat)} {c : Nat} (h : inCls A c = false) : Disj A [(c, c)] := by
  intro x hx
  cases hxc : inCls [(c, c)] x with
  | false => rfl
  | true =>
    have : x = c := by simp [inCls] at hxc; omega
    subst this; simp [h] at hx

end Verif.Proofs.ReCost
