/-
Tie proofs for `_pack_asn1` (identifier octets, length octets, content) and `_pack_asn1_boolean`.
-/
import Verif.Generated.Asn1Gen
import Verif.Proofs.Asn1GenConv

namespace Verif.Proofs.Asn1Gen

open Verif Verif.PyRt Verif.Asn1Gen

/-! ### the `while length:` loop -/

theorem pack_len_loop : ∀ (fuel m : Nat) (acc : List Nat), m < fuel →
    pack_asn1_while1 fuel acc (m : Int) = .ok (acc ++ digits256 fuel m, 0) := by
  intro fuel; induction fuel with
  | zero => intro m acc h; omega
  | succ f ih =>
    intro m acc h
    rw [pack_asn1_while1]
    by_cases h0 : m = 0
    · subst h0; simp [digits256]
    · have hne : (m : Int) ≠ 0 := by omega
      simp only [hne, ne_eq, not_false_eq_true, ↓reduceIte, pyAnd_255, pyShr_8,
        baAppend_nat _ (m % 256) (by omega), bind_ok]
      rw [ih (m / 256) _ (by omega)]
      simp [digits256, h0]

/-! ### identifier octet arithmetic -/

/-- `tag_class << 6 | constructed << 5` -/
theorem id_or (cls : Nat) (cons : Bool) (hc : cls ≤ 3) :
    pyOr (pyShl (cls : Int) 6) (pyShl (if cons = true then 1 else 0 : Int) 5)
      = ((32 * (cls * 2 + (if cons then 1 else 0)) : Nat) : Int) := by
  have : cls = 0 ∨ cls = 1 ∨ cls = 2 ∨ cls = 3 := by omega
  rcases this with h | h | h | h <;> subst h <;> cases cons <;> rfl

/-- `identifier | low` for `low < 32` -/
theorem id_or_low (q low : Nat) (h : low < 32) :
    pyOr ((32 * q : Nat) : Int) (low : Int) = ((32 * q + low : Nat) : Int) := by
  rw [pyOr_nat]
  congr 1
  exact (Nat.two_pow_add_eq_or_of_lt (i := 5) (b := low) (by simpa using h) q).symm

theorem id_or_31 (q : Nat) : pyOr ((32 * q : Nat) : Int) 31 = ((32 * q + 31 : Nat) : Int) :=
  id_or_low q 31 (by omega)

/-! ### `_pack_asn1` -/

theorem pack_asn1_bad_class (fuel : Nat) (cls : Int) (cons : Bool) (num : Int) (content : List Nat)
    (h : cls < 0 ∨ cls > 3) :
    pack_asn1 fuel cls cons num content = .error .valueError := by
  simp only [pack_asn1, h, ↓reduceIte]

theorem pack_asn1_eq (fuel cls num : Nat) (cons : Bool) (content : List Nat)
    (hc : cls ≤ 3) (hnum : num < fuel) (hlenf : content.length < fuel)
    (hlen : content.length < 256 ^ 127) :
    pack_asn1 fuel (cls : Int) cons (num : Int) content = .ok (packTLV ⟨cls, cons, num⟩ content) := by
  have hcls : ¬ (((cls : Int) < 0) ∨ ((cls : Int) > 3)) := by omega
  simp only [pack_asn1, hcls, ↓reduceIte, id_or cls cons hc]
  -- identifier octets
  have hq : cls * 2 + (if cons then 1 else 0) < 8 := by cases cons <;> simp <;> omega
  generalize hqd : cls * 2 + (if cons = true then 1 else 0) = q at hq
  have hid : cls * 64 + (if cons = true then 32 else 0) = 32 * q := by
    subst hqd; cases cons <;> simp <;> omega
  have htag : (if (num : Int) < 31 then
        (do let b ← baAppend [] (pyOr ((32 * q : Nat) : Int) (num : Int))
            Except.ok (pyOr ((32 * q : Nat) : Int) (num : Int), b) : Except Err (Int × List Nat))
      else
        (do let b ← baAppend [] (pyOr ((32 * q : Nat) : Int) 31)
            let t ← pack_asn1_octet_number fuel (num : Int)
            Except.ok (pyOr ((32 * q : Nat) : Int) 31, b ++ t)))
      = .ok ((if num < 31 then ((32 * q + num : Nat) : Int) else ((32 * q + 31 : Nat) : Int)),
             packTag ⟨cls, cons, num⟩) := by
    by_cases hn : num < 31
    · have : (num : Int) < 31 := by omega
      simp only [this, hn, ↓reduceIte, id_or_low q num (by omega),
        baAppend_nat [] (32 * q + num) (by omega), bind_ok, packTag, hid, List.nil_append]
    · have : ¬ ((num : Int) < 31) := by omega
      simp only [this, hn, ↓reduceIte, id_or_31 q,
        baAppend_nat [] (32 * q + 31) (by omega), bind_ok, packTag, hid, List.nil_append,
        pack_asn1_octet_number_eq fuel num hnum, List.cons_append]
  simp only [htag, bind_ok]
  -- length octets
  rw [len_eq, packTLV, packHeader]
  generalize content.length = n at hlenf hlen ⊢
  by_cases hs : n < 128
  · have : (n : Int) < 128 := by omega
    simp only [this, ↓reduceIte, baAppend_nat _ n (by omega), bind_ok, packLen, hs,
      List.append_assoc]
  · have : ¬ ((n : Int) < 128) := by omega
    have hdl : (digits256 fuel n).length < 128 := by
      have := digits256_length fuel n 127 hlen; omega
    simp only [this, ↓reduceIte, pack_len_loop fuel n [] hlenf, bind_ok, List.nil_append, len_eq,
      List.length_reverse, pyOr_128_low _ hdl, baAppend_nat _ _ (show (digits256 fuel n).length + 128 < 256 by omega),
      packLen, hs, digits256_fuel (n + 1) fuel n (by omega) (by omega), List.append_assoc,
      List.singleton_append]

/-- `_pack_asn1` called with the fields of a tag, as the typed writers do -/
theorem pack_asn1_ofTag (fuel : Nat) (t : Tag) (content : List Nat)
    (hc : t.cls ≤ 3) (hnum : t.num < fuel) (hlenf : content.length < fuel)
    (hlen : content.length < 256 ^ 127) :
    pack_asn1 fuel (ofTag t).tag_class (ofTag t).is_constructed (ofTag t).tag_number content
      = .ok (packTLV t content) := by
  cases t with
  | mk cls cons num => exact pack_asn1_eq fuel cls num cons content hc hnum hlenf hlen

/-! ### `_pack_asn1_boolean` -/

theorem pack_asn1_boolean_eq (fuel : Nat) (b : Bool) (t : Tag) (hc : t.cls ≤ 3) (hnum : t.num < fuel)
    (hf : 1 < fuel) :
    pack_asn1_boolean fuel b (some (ofTag t)) = .ok (packBool b t) := by
  simp only [pack_asn1_boolean, bind_ok, packBool]
  cases b
  · exact pack_asn1_ofTag fuel t [0] hc hnum (by simpa using hf) (by simp)
  · exact pack_asn1_ofTag fuel t [255] hc hnum (by simpa using hf) (by simp)

theorem pack_asn1_boolean_default (fuel : Nat) (b : Bool) (hf : 1 < fuel) :
    pack_asn1_boolean fuel b none = .ok (packBool b) := by
  have := pack_asn1_boolean_eq fuel b tBool (by simp [tBool, tagUniv]) (by simp [tBool, tagUniv]; omega) hf
  simpa [pack_asn1_boolean, ASN1Tag_universal_tag, ofTag, tBool, tagUniv] using this

end Verif.Proofs.Asn1Gen
