/-
C11, additions (part 4): a decision procedure for `AdmissibleRun` on concrete runs, used only
to discharge the non-vacuity examples of Props/C11More.lean by kernel evaluation.
-/
import Verif.Spec.C11More

namespace Verif.Proofs.C11More
open Verif Verif.Joint

instance (b : Bytes) : Decidable (IsText b) := inferInstanceAs (Decidable (_ = true))

instance : (o : Option Bytes) → Decidable (optText o)
  | none => isTrue trivial
  | some b => inferInstanceAs (Decidable (IsText b))

mutual
def decFilterWF (regs : Regs) : (f : Filter) → Decidable (Filter.WF regs f)
  | .and fs => decFilterWFs regs fs
  | .or fs => decFilterWFs regs fs
  | .not f => decFilterWF regs f
  | .eq a _ => inferInstanceAs (Decidable (IsText a))
  | .ge a _ => inferInstanceAs (Decidable (IsText a))
  | .le a _ => inferInstanceAs (Decidable (IsText a))
  | .approx a _ => inferInstanceAs (Decidable (IsText a))
  | .present a => inferInstanceAs (Decidable (IsText a))
  | .substr a _ _ _ => inferInstanceAs (Decidable (IsText a))
  | .ext rule attr _ _ => inferInstanceAs (Decidable (optText rule ∧ optText attr))
  | .custom v => inferInstanceAs (Decidable (regs.filter = true ∧ IsText v))
def decFilterWFs (regs : Regs) : (fs : List Filter) → Decidable (Filter.WFs regs fs)
  | [] => isTrue trivial
  | f :: fs => @instDecidableAnd _ _ (decFilterWF regs f) (decFilterWFs regs fs)
end

instance (regs : Regs) (f : Filter) : Decidable (Filter.WF regs f) := decFilterWF regs f

instance (regs : Regs) : (c : Cred) → Decidable (Cred.WF regs c)
  | .simple pw => inferInstanceAs (Decidable (IsText pw))
  | .sasl mech _ => inferInstanceAs (Decidable (IsText mech))
  | .custom v => inferInstanceAs (Decidable (regs.auth = true ∧ IsText v))

instance (regs : Regs) : (c : Control) → Decidable (Control.WF regs c)
  | .generic oid _ _ => inferInstanceAs (Decidable (IsText oid ∧ oid ≠ Facts.oidPaged ∧
      oid ≠ Facts.oidShowDeleted ∧ oid ≠ Facts.oidShowDeactivated ∧
      (regs.control = true → oid ≠ Facts.oidCustomControl)))
  | .custom .. => inferInstanceAs (Decidable (regs.control = true))
  | .paged .. => isTrue trivial
  | .showDeleted .. => isTrue trivial
  | .showDeactivated .. => isTrue trivial

instance (r : LdapResult) : Decidable r.WF :=
  match h : r.referrals with
  | none => decidable_of_iff (IsText r.matchedDn ∧ IsText r.diag) (by simp [LdapResult.WF, h])
  | some rs => decidable_of_iff (IsText r.matchedDn ∧ IsText r.diag ∧ ∀ u ∈ rs, IsText u)
      (by simp [LdapResult.WF, h])

instance (regs : Regs) : (op : Op) → Decidable (Op.WF regs op)
  | .bindReq _ n c => inferInstanceAs (Decidable (IsText n ∧ Cred.WF regs c))
  | .bindResp r _ => inferInstanceAs (Decidable r.WF)
  | .unbind => isTrue trivial
  | .searchReq b sc dr _ _ _ f attrs => inferInstanceAs (Decidable (IsText b ∧
      Facts.scopeValues.contains sc = true ∧ Facts.derefValues.contains dr = true ∧
      Filter.WF regs f ∧ ∀ a ∈ attrs, IsText a))
  | .searchEntry n attrs => inferInstanceAs (Decidable (IsText n ∧ ∀ a ∈ attrs, IsText a.1))
  | .searchDone r => inferInstanceAs (Decidable r.WF)
  | .searchRef uris => inferInstanceAs (Decidable (∀ u ∈ uris, IsText u))
  | .extReq n _ => inferInstanceAs (Decidable (IsText n))
  | .extResp r n _ => inferInstanceAs (Decidable (r.WF ∧ optText n))

instance (regs : Regs) (m : Msg) : Decidable (Msg.WF regs m) :=
  inferInstanceAs (Decidable (Op.WF regs m.op ∧ ∀ c ∈ m.controls, Control.WF regs c))

instance (depth : Nat) (s : Sess) (c : Call) : Decidable (CallWF depth s c) :=
  match h : msgOf s c with
  | some m => decidable_of_iff (Msg.WF {} m ∧ m.op.filterDepth < depth) (by simp [CallWF, h])
  | none => isTrue (by simp [CallWF, h])

theorem errorOf_some {o : Outcome} {n : Notification} (h : errorOf o = some n) : o = .protocolError n := by
  cases o <;> simp [errorOf] at h
  rw [h]

/-- `Admissible`, as a boolean -/
def admB (depth : Nat) (y : Sys) : JStep → Bool
  | .callC c =>
    (match c with | .bind .. | .search .. | .extended .. | .unbind => true | _ => false) &&
      (step y.c c).2.accepted && decide (CallWF depth y.c c)
  | .callS c =>
    (match c.respId with
      | some i => (match openRequest y i with | some req => matchingKind req c | none => false)
      | none => false) &&
      (step y.s c).2.accepted && decide (CallWF depth y.s c)
  | _ => true

def admRunB (depth : Nat) : Sys → List JStep → Bool
  | _, [] => true
  | y, st :: sts => admB depth y st && admRunB depth (jstep depth y st).1 sts

theorem admB_sound {depth : Nat} {y : Sys} {st : JStep} (h : admB depth y st = true) :
    Admissible depth y st := by
  cases st with
  | callC c =>
    simp only [admB, Bool.and_eq_true, decide_eq_true_eq] at h
    obtain ⟨⟨h1, h2⟩, h3⟩ := h
    refine ⟨?_, h2, h3⟩
    cases c <;> simp at h1 ⊢
  | callS c =>
    simp only [admB, Bool.and_eq_true, decide_eq_true_eq] at h
    obtain ⟨⟨h1, h2⟩, h3⟩ := h
    refine ⟨?_, h2, h3⟩
    cases hi : c.respId with
    | none => simp [hi] at h1
    | some i =>
      cases ho : openRequest y i with
      | none => simp [hi, ho] at h1
      | some req => exact ⟨i, req, rfl, ho, by simpa [hi, ho] using h1⟩
  | flushC a => trivial
  | flushS a => trivial
  | deliverS k => trivial
  | deliverC k => trivial

theorem admRunB_sound {depth : Nat} : ∀ (sts : List JStep) (y : Sys), admRunB depth y sts = true →
    AdmissibleRun depth y sts := by
  intro sts
  induction sts with
  | nil => intro y _; trivial
  | cons st sts ih =>
    intro y h
    simp only [admRunB, Bool.and_eq_true] at h
    exact ⟨admB_sound h.1, ih _ h.2⟩

end Verif.Proofs.C11More
