/-
C05 (second batch), part 3: the notification.  The octets a `Notification` tag stands for
(`notifBytes`, written with the specification's own DER writer) are the model's encoding of
`noticeMsg` / `unbindMsg`, are read back by the strict RFC decoder and by the library's decoder,
and `recv` attaches exactly the notification the wrapper rules prescribe for the message that made
it fail (`recv_error_iff`).  Core Lean only.
-/
import Verif.Proofs.C05MoreFuel
import Verif.Proofs.RecvNotice
import Verif.Proofs.RoundTrip
import Verif.Proofs.Recv

namespace Verif.Proofs.C05More
open Verif Verif.C05More Verif.Proofs Verif.Proofs.DecodeCostP

/-! ### the octets -/

theorem noticeOfDisconnection_eq (diag : Bytes) : noticeOfDisconnection diag = noticeMsg diag := rfl

theorem noticeBytes_eq_encMsg (diag : Bytes) : noticeBytes diag = encMsg (noticeMsg diag) := by
  simp only [noticeBytes, der, encMsg, noticeMsg, encOp, encResult, optBytes, packInt, packEnum, packOctets,
    packTLV, packHeader, packLen_eq_derLen, opTag]
  simp [packTag, tSeq, tInt, tEnum, tOctets, tagUniv, tagApp, tagCtx, Facts.opExtendedResponse,
    Facts.codeProtocolError, Facts.oidNotice, oidNoticeOfDisconnection, intContent, intEmit, derLen]


theorem be256_length (n k : Nat) (h : n < 256 ^ k) : (be256 n).length ≤ k := by
  rw [← digits256_eq_be256 (n + 1) n (by omega), List.length_reverse]
  exact digits256_length _ _ _ h

theorem derLen_length (n : Nat) (h : n < 256 ^ 126) : (derLen n).length ≤ 127 := by
  unfold derLen
  split
  · simp
  · have := be256_length n 126 h
    simp only [List.length_cons]; omega

theorem der_length (t : Nat) (c : Bytes) : (der t c).length = 1 + (derLen c.length).length + c.length := by
  simp only [der, List.length_cons, List.length_append]; omega

theorem der_length_le (t : Nat) (c : Bytes) (h : c.length < 256 ^ 126) : (der t c).length ≤ 128 + c.length := by
  have := derLen_length _ h
  rw [der_length]; omega

theorem noticeBytes_length (diag : Bytes) (hl : diag.length < 256 ^ 125) :
    (noticeBytes diag).length < 256 ^ 126 := by
  have hP : 256 ^ 126 = 256 * 256 ^ 125 := by rw [Nat.pow_succ, Nat.mul_comm]
  have hP2 : 2 ≤ 256 ^ 125 := by
    have h1 : 256 ^ 125 = 256 * 256 ^ 124 := by rw [Nat.pow_succ, Nat.mul_comm]
    have h2 : 0 < 256 ^ 124 := Nat.pow_pos (by decide)
    omega
  unfold noticeBytes
  have hA := der_length_le 0x04 diag (by omega)
  have hO : (der 0x8A oidNoticeOfDisconnection).length = 24 := by
    simp [der, derLen, oidNoticeOfDisconnection]
  generalize der 0x04 diag = A at hA
  generalize der 0x8A oidNoticeOfDisconnection = O at hO
  have hI : ([0x0A, 0x01, 0x02] ++ [0x04, 0x00] ++ A ++ O : Bytes).length = 5 + A.length + 24 := by
    simp only [List.length_append, List.length_cons, List.length_nil, hO]
  generalize ([0x0A, 0x01, 0x02] ++ [0x04, 0x00] ++ A ++ O : Bytes) = I at hI
  have hB := der_length_le 0x78 I (by omega)
  generalize der 0x78 I = B at hB
  have hC : ([0x02, 0x01, 0x00] ++ B : Bytes).length = 3 + B.length := by
    simp only [List.length_append, List.length_cons, List.length_nil, Nat.add_comm]
  generalize ([0x02, 0x01, 0x00] ++ B : Bytes) = C at hC
  have hT := der_length_le 0x30 C (by omega)
  omega

theorem notice_decodes (diag : Bytes) (hd : IsText diag) (hl : diag.length < 256 ^ 125) :
    Rfc.decode (noticeBytes diag) = some (noticeOfDisconnection diag) := by
  have := noticeBytes_length diag hl
  rw [noticeBytes_eq_encMsg] at this ⊢
  exact notice_strict_decodes diag hd this

theorem notice_model_decodes (regs : Regs) (k : Nat) (hk : 0 < k) (diag : Bytes) (hd : IsText diag) :
    decMsg regs k (noticeBytes diag) = .ok (noticeOfDisconnection diag, []) := by
  have hwf : (noticeMsg diag).WF regs := by
    refine ⟨⟨⟨by rfl, hd, trivial⟩, by rfl⟩, ?_⟩
    intro c hc
    simp [noticeMsg] at hc
  have := decMsg_encMsg regs (noticeMsg diag) [] k hwf hk
  rw [List.append_nil] at this
  rw [noticeBytes_eq_encMsg, this]
  rfl

theorem unbind_model_decodes (regs : Regs) (k : Nat) :
    decMsg regs k unbindBytes = .ok (unbindRequest, []) := by
  rfl

theorem unbind_strict : Rfc.decode unbindBytes = none ∧ Rfc.decode unbindBytesRfc = some unbindRequest := by
  exact ⟨by rfl, by rfl⟩


/-! ### which message made `receive` fail -/

theorem oidNoD_eq : oidNoticeOfDisconnection = Facts.oidNotice := rfl

theorem isNotice_iff (m : Msg) : m.op.isNotice = true ↔ IsNotice m := by
  obtain ⟨id, op, cs⟩ := m
  unfold IsNotice
  simp only
  constructor
  · intro h
    cases op with
    | extResp r n v =>
      cases n with
      | none => cases h
      | some n =>
        simp only [Op.isNotice, beq_iff_eq] at h
        exact ⟨r, v, by rw [h, oidNoD_eq]⟩
    | _ => cases h
  · rintro ⟨r, v, h⟩
    subst h
    simp [Op.isNotice, oidNoD_eq]

theorem isUnbind_iff (m : Msg) : m.op.isUnbind = true ↔ IsUnbind m := by
  obtain ⟨id, op, cs⟩ := m
  unfold IsUnbind
  cases op <;> simp [Op.isUnbind]

theorem clientProcess_none_iff (s : Sess) (m : Msg) (hr : s.role = .client) :
    clientProcess s m = none ↔ Refuses s m := by
  rw [clientProcess_eq]
  unfold Refuses
  rw [hr]
  simp only [Op.isResponse, Facts.responseOps, responseNumbers, List.contains_iff_mem]
  split
  · rename_i h
    simp only [reduceCtorEq, false_iff, not_or, Classical.not_not, Classical.not_and_iff_not_or_not]
    exact ⟨h.1, h.2⟩
  · rename_i h
    simp only [true_iff]
    rw [Classical.not_and_iff_not_or_not, not_or] at h
    exact h


theorem isBindRequest_eq (o : Op) : isBindRequest o = opIsBind o := by cases o <;> rfl

theorem serverProcess_none_iff (s : Sess) (m : Msg) (hr : s.role = .server) :
    serverProcess s m = none ↔ Refuses s m := by
  rw [serverProcess_eq]
  unfold Refuses
  rw [hr]
  simp only [Op.isRequest, Facts.requestOps, requestNumbers, List.contains_iff_mem, isBindRequest_eq]
  split
  · rename_i h
    simp only [reduceCtorEq, false_iff, not_or, Classical.not_not]
    exact ⟨h.1, h.2⟩
  · rename_i h
    simp only [true_iff]
    rw [Classical.not_and_iff_not_or_not, Classical.not_not] at h
    exact h

theorem attached_none (r : Role) : attached r none = notificationFor r false false := by
  cases r <;> rfl

theorem attached_some (r : Role) (m : Msg) :
    attached r (some m) = notificationFor r m.op.isUnbind m.op.isNotice := by
  obtain ⟨id, op, cs⟩ := m
  cases r <;> cases op <;> try rfl
  case client.extResp res n v =>
    cases n with
    | none => rfl
    | some n =>
      by_cases h : n = Facts.oidNotice <;>
        simp [attached, notificationFor, Op.isUnbind, Op.isNotice, oidNoD_eq, h]

/-- a message that is a notice, an unbind, or refused stops the loop with a protocol error whose
    flags are those of the message -/
theorem processLoop_culprit (s : Sess) (m : Msg) (post : List Msg)
    (h : IsNotice m ∨ IsUnbind m ∨ Refuses s m) :
    ∃ u n, processLoop s (m :: post) = .protoErr s u n ∧
      notificationFor s.role u n = attached s.role (some m) := by
  rw [attached_some, processLoop_cons2]
  by_cases hn : m.op.isNotice = true
  · rw [if_pos hn]
    refine ⟨false, true, rfl, ?_⟩
    have hu : m.op.isUnbind = false := by
      obtain ⟨r, v, hm⟩ := (isNotice_iff m).1 hn
      rw [hm]; rfl
    rw [hn, hu]
  rw [if_neg hn]
  by_cases hu : m.op.isUnbind = true
  · rw [if_pos hu]
    refine ⟨true, false, rfl, ?_⟩
    rw [hu, Bool.eq_false_iff.2 hn]
  rw [if_neg hu]
  have hr : Refuses s m := by
    rcases h with h | h | h
    · exact absurd ((isNotice_iff m).2 h) hn
    · exact absurd ((isUnbind_iff m).2 h) hu
    · exact h
  refine ⟨false, false, ?_, ?_⟩
  · by_cases hrole : s.role = .client
    · rw [if_pos hrole, (clientProcess_none_iff s m hrole).2 hr]
    · have hrole' : s.role = .server := by cases hs : s.role <;> simp_all
      rw [if_neg hrole, (serverProcess_none_iff s m hrole').2 hr]
  · rw [Bool.eq_false_iff.2 hn, Bool.eq_false_iff.2 hu]

/-- a loop that stops with a protocol error stopped at a culprit, after processing a prefix -/
theorem processLoop_protoErr_split (ms : List Msg) : ∀ (s s2 : Sess) (u n : Bool),
    processLoop s ms = .protoErr s2 u n →
    ∃ pre m post, ms = pre ++ m :: post ∧ processLoop s pre = .ok s2 ∧
      (IsNotice m ∨ IsUnbind m ∨ Refuses s2 m) ∧
      u = m.op.isUnbind ∧ n = m.op.isNotice := by
  induction ms with
  | nil => intro s s2 u n h; cases h
  | cons m ms ih =>
    intro s s2 u n h
    rw [processLoop_cons2] at h
    by_cases hn : m.op.isNotice = true
    · rw [if_pos hn] at h
      injection h with h1 h2 h3
      subst h1
      have hu : m.op.isUnbind = false := by
        obtain ⟨r, v, hm⟩ := (isNotice_iff m).1 hn
        rw [hm]; rfl
      exact ⟨[], m, ms, rfl, rfl, .inl ((isNotice_iff m).1 hn), by rw [hu, ← h2], by rw [hn, ← h3]⟩
    rw [if_neg hn] at h
    by_cases hu : m.op.isUnbind = true
    · rw [if_pos hu] at h
      injection h with h1 h2 h3
      subst h1
      exact ⟨[], m, ms, rfl, rfl, .inr (.inl ((isUnbind_iff m).1 hu)), by rw [hu, ← h2],
        by rw [Bool.eq_false_iff.2 hn, ← h3]⟩
    rw [if_neg hu] at h
    by_cases hrole : s.role = .client
    · rw [if_pos hrole] at h
      cases hcp : clientProcess s m with
      | none =>
        rw [hcp] at h
        injection h with h1 h2 h3
        subst h1
        exact ⟨[], m, ms, rfl, rfl, .inr (.inr ((clientProcess_none_iff s m hrole).1 hcp)),
          by rw [Bool.eq_false_iff.2 hu, ← h2], by rw [Bool.eq_false_iff.2 hn, ← h3]⟩
      | some p =>
        obtain ⟨s1, b⟩ := p
        rw [hcp] at h
        cases b with
        | true => cases h
        | false =>
          obtain ⟨pre, m', post, e1, e2, e3, e4, e5⟩ := ih s1 s2 u n h
          refine ⟨m :: pre, m', post, by rw [e1]; rfl, ?_, e3, e4, e5⟩
          rw [processLoop_cons2, if_neg hn, if_neg hu, if_pos hrole, hcp]
          exact e2
    · have hrole' : s.role = .server := by cases hs : s.role <;> simp_all
      rw [if_neg hrole] at h
      cases hsp : serverProcess s m with
      | none =>
        rw [hsp] at h
        injection h with h1 h2 h3
        subst h1
        exact ⟨[], m, ms, rfl, rfl, .inr (.inr ((serverProcess_none_iff s m hrole').1 hsp)),
          by rw [Bool.eq_false_iff.2 hu, ← h2], by rw [Bool.eq_false_iff.2 hn, ← h3]⟩
      | some s1 =>
        rw [hsp] at h
        obtain ⟨pre, m', post, e1, e2, e3, e4, e5⟩ := ih s1 s2 u n h
        refine ⟨m :: pre, m', post, by rw [e1]; rfl, ?_, e3, e4, e5⟩
        rw [processLoop_cons2, if_neg hn, if_neg hu, if_neg hrole, hsp]
        exact e2

theorem recv_error_iff (d : Nat) (s : Sess) (chunk : Bytes) (n : Notification) :
    (recv d s chunk).2 = .protocolError n ↔
      ∃ cause, RecvCause d s chunk cause ∧ n = attached s.role cause := by
  constructor
  · intro h
    rcases recv_cases d s chunk with ⟨hc, h'⟩ | ⟨hc, e, he, h'⟩ | ⟨hc, ms, rest, hp, h'⟩
    · rw [h'] at h; injection h with h
      exact ⟨none, .inl ⟨hc, rfl⟩, by rw [attached_none, h]⟩
    · rw [h'] at h; injection h with h
      exact ⟨none, .inr (.inl ⟨hc, ⟨e, he⟩, rfl⟩), by rw [attached_none, h]⟩
    · rcases h' with ⟨s2, _, h'⟩ | ⟨s2, u, nn, hpl, h'⟩ | ⟨s2, _, h'⟩
      · rw [h'] at h; cases h
      · rw [h'] at h; injection h with h
        obtain ⟨pre, m, post, e1, e2, e3, e4, e5⟩ := processLoop_protoErr_split _ _ _ _ _ hpl
        refine ⟨some m, .inr (.inr ⟨hc, ms, rest, pre, m, post, s2, hp, e1, e2, e3, rfl⟩), ?_⟩
        rw [attached_some, ← e4, ← e5, h]
      · rw [h'] at h; cases h
  · rintro ⟨cause, hcause, rfl⟩
    rcases hcause with ⟨hc, rfl⟩ | ⟨hc, ⟨e, he⟩, rfl⟩ | ⟨hc, ms, rest, pre, m, post, s', hp, e1, e2, e3, rfl⟩
    · simp [recv, hc, attached_none]
    · simp only [recv, hc, if_false, he, attached_none]
    · have hfr := processLoop_ok_frame _ _ _ e2
      have hrole : s'.role = s.role := hfr.1
      obtain ⟨u, nn, h1, h2⟩ := processLoop_culprit s' m post e3
      have hpl : processLoop { s with residue := rest } ms = .protoErr s' u nn := by
        rw [e1, processLoop_append, e2]; exact h1
      simp only [recv, hc, if_false, hp, hpl]
      rw [← hrole, h2]

end Verif.Proofs.C05More
