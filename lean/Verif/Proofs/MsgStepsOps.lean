/-
C18 / BER decoding steps, part 5: credentials, controls (with the nested paged-results value),
LDAPResult, attribute lists, the trailing-option loops and the envelope loop.  The control decoder
copies the control value (`read_octet_string`) and parses the copy again (`PagedResultControl`):
the copy is paid by one unit of the coefficient, which is why the statements from the control
decoder upwards are at `A + 1 + 1`.
-/
import Verif.Proofs.MsgStepsFilter

set_option linter.unusedSectionVars false

namespace Verif.Proofs.MsgSteps
open Verif Verif.MsgSteps Verif.Proofs

/-! ### monad laws of `S` (used to move a continuation into the branches of a conditional) -/

theorem pure_bind {α β : Type} (a : α) (f : α → S β) : ((pure a : S α) >>= f) = f a := by
  rw [bind_ok (x := (pure a : S α)) rfl]
  cases f a
  simp

theorem bind_assoc {α β γ : Type} (x : S α) (f : α → S β) (g : β → S γ) :
    ((x >>= f) >>= g) = (x >>= fun a => f a >>= g) := by
  cases hx : x.res with
  | error e => rw [bind_err hx, bind_err (x := ⟨.error e, x.steps⟩) rfl, bind_err hx]
  | ok a =>
    rw [bind_ok hx, bind_ok hx]
    cases hf : (f a).res with
    | error e => rw [bind_err (x := ⟨.error e, _⟩) rfl, bind_err hf]
    | ok b =>
      rw [bind_ok (x := ⟨.ok b, _⟩) rfl, bind_ok hf]
      simp only [Nat.add_assoc]

theorem ite_bind {α β : Type} (c : Prop) [Decidable c] (x y : S α) (f : α → S β) :
    ((if c then x else y) >>= f) = if c then x >>= f else y >>= f := by
  split <;> rfl

/-- a peek whose outcome is already paid for: it costs its own steps -/
theorem peek_known (W : Nat) (bs : Bytes) : Spec (readHeaderS W bs) (hcost W bs) (fun _ => 0) := by
  unfold Spec hcost
  cases (readHeaderS W bs).res <;> simp only <;> omega

section
variable {A : Nat} (W : Nat) (hA : 16 ≤ A)
include hA

/-! ### `AuthenticationCredential.unpack` -/

theorem decCredS_spec (regs : Regs) (bs : Bytes) :
    Spec (decCredS W regs bs) (pot (A + 1) W bs.length + 1) (fun p => pot (A + 1) W p.2.length) := by
  simp only [decCredS]
  refine Spec.tick (by omega) ?_
  refine Spec.bind (peekS W hA bs) (by omega) (fun h hh => ?_)
  have hh' : readHeader bs = .ok h := by rw [← readHeaderS_res W]; exact hh
  refine Spec.tick (by ar) ?_
  refine Spec.ite (fun _ => Spec.fail) (fun _ => Spec.ite (fun _ => ?_) (fun _ =>
    Spec.ite (fun _ => ?_) (fun _ => Spec.ite (fun _ => ?_) (fun _ => Spec.fail))))
  · refine Spec.bind (tlvA W hA _ bs h hh') (by ar) (fun p _ => ?_)
    obtain ⟨c, rest⟩ := p
    refine Spec.bind (textS W hA _ c) (by ar) (fun p _ => ?_)
    obtain ⟨mech, c1⟩ := p
    refine Spec.ite (fun _ => Spec.pure (by ar)) (fun _ => ?_)
    refine Spec.bind (octS W hA _ c1) (by ar) (fun p _ => ?_)
    obtain ⟨cr, c2⟩ := p
    exact Spec.pure (by ar)
  · refine Spec.bind (textA W hA _ bs h hh') (by ar) (fun p _ => ?_)
    obtain ⟨pw, rest⟩ := p
    exact Spec.pure (by ar)
  · refine Spec.bind (textA W hA _ bs h hh') (by ar) (fun p _ => ?_)
    obtain ⟨pw, rest⟩ := p
    exact Spec.pure (by ar)

/-! ### `PagedResultControl.unpack` on the copied control value -/

theorem decPagedValueS_spec (v : Bytes) :
    Spec (decPagedValueS W v) (pot (A + 1) W v.length + 1) (fun _ => 0) := by
  simp only [decPagedValueS]
  refine Spec.tick (by omega) ?_
  refine Spec.bind (tlvS W hA _ v) (by ar) (fun p _ => ?_)
  obtain ⟨c, r⟩ := p
  refine Spec.bind (intS W hA (by omega) _ c) (by ar) (fun p _ => ?_)
  obtain ⟨size, c1⟩ := p
  refine Spec.bind (octS W hA _ c1) (by ar) (fun p _ => ?_)
  obtain ⟨cookie, c2⟩ := p
  exact Spec.pure (by ar)

/-! ### `unpack_ldap_control` -/

/-- what the value block leaves: the potential (one unit lower) of the copied value -/
abbrev VQ (A W : Nat) : Option Bytes → Nat := fun value => pot (A + 1) W (value.getD []).length

/-- `ar` that also opens `VQ` -/
macro "ar2" : tactic => `(tactic| ((try dsimp only [TQ, VQ] at *); omega))

theorem valueS_none (c2 : Bytes) : Spec (decControlValueS W c2 false) 0 (VQ A W) := by
  simp only [decControlValueS]
  exact Spec.pure (by simp [VQ, pot_zero])

/-- the value block when the header has to be peeked -/
theorem valueS_fresh (c2 : Bytes) :
    Spec (decControlValueS W c2 true) (pot (A + 1 + 1) W c2.length) (VQ A W) := by
  have hA1 : 16 ≤ A + 1 := by omega
  simp only [decControlValueS, if_true]
  refine Spec.bind (peekS W hA1 c2) (by omega) (fun h hh => ?_)
  have hh' : readHeader c2 = .ok h := by rw [← readHeaderS_res W]; exact hh
  refine Spec.ite (fun _ => ?_) (fun _ => Spec.pure (by simp [VQ, pot_zero]))
  refine Spec.bind (octA W hA1 _ c2 h hh') (by ar) (fun p _ => ?_)
  obtain ⟨v, r⟩ := p
  exact Spec.pure (by simp only [VQ, Option.getD_some]; ar)

/-- the value block when the header `h` of `c2` has been peeked before (and is peeked again) -/
theorem valueS_known (c2 : Bytes) (h : Header) (hh : readHeader c2 = .ok h) :
    Spec (decControlValueS W c2 true)
      (2 * hcost W c2 + 1 + pot (A + 1 + 1) W (c2.length - h.hlen)) (VQ A W) := by
  have hA1 : 16 ≤ A + 1 := by omega
  simp only [decControlValueS, if_true]
  refine Spec.bind (peek_known W c2) (by omega) (fun h' hh1 => ?_)
  have hh' : readHeader c2 = .ok h' := by rw [← readHeaderS_res W]; exact hh1
  rw [hh] at hh'; cases hh'
  refine Spec.ite (fun _ => ?_) (fun _ => Spec.pure (by simp [VQ, pot_zero]))
  refine Spec.bind (octA W hA1 _ c2 h hh) (by ar) (fun p _ => ?_)
  obtain ⟨v, r⟩ := p
  exact Spec.pure (by simp only [VQ, Option.getD_some]; ar)

theorem decControlTailS_spec (regs : Regs) (oid : Bytes) (crit : Bool) (value : Option Bytes)
    (rest : Bytes) :
    Spec (decControlTailS W regs oid crit value rest)
      (VQ A W value + 1 + (2 + pot (A + 1 + 1) W rest.length))
      (fun p => 1 + 1 + pot (A + 1 + 1) W p.2.length) := by
  simp only [decControlTailS]
  refine Spec.ite (fun _ => ?_) (fun _ => Spec.ite (fun _ => Spec.pure (by ar2)) (fun _ =>
    Spec.ite (fun _ => Spec.pure (by ar2)) (fun _ => Spec.ite (fun _ => ?_) (fun _ => Spec.pure (by ar2)))))
  · refine Spec.bind (decPagedValueS_spec W hA _) (by ar2) (fun p _ => ?_)
    obtain ⟨size, cookie⟩ := p
    exact Spec.pure (by ar2)
  · have := pot_ge (A + 1) W (value.getD []).length 1 (by omega)
    refine Spec.tick (by ar2) ?_
    exact Spec.ite (fun _ => Spec.pure (by ar2)) (fun _ => Spec.fail)

theorem decControlS_spec (regs : Regs) (bs : Bytes) :
    Spec (decControlS W regs bs) (pot (A + 1 + 1) W bs.length + 1)
      (fun p => 1 + 1 + pot (A + 1 + 1) W p.2.length) := by
  have hA1 : 16 ≤ A + 1 := by omega
  simp only [decControlS]
  refine Spec.tick (by omega) ?_
  refine Spec.bind (tlvS W hA1 _ bs) (by ar2) (fun p _ => ?_)
  obtain ⟨c, rest⟩ := p
  refine Spec.bind (textS W hA1 _ c) (by ar2) (fun p _ => ?_)
  obtain ⟨oid, c1⟩ := p
  refine Spec.tick (by ar2) ?_
  rw [ite_bind]
  refine Spec.ite (fun hc => ?_) (fun _ => ?_)
  · -- nothing after the control type
    rw [pure_bind]
    dsimp only
    have : pot (A + 1 + 1) W c1.length = 0 := by
      have : c1 = [] := by simpa using hc
      subst this; exact pot_zero _ _
    refine Spec.bind (valueS_none W hA c1) (by omega) (fun value _ => ?_)
    exact (decControlTailS_spec W hA regs oid false value rest).mono (by ar2) (fun _ _ => Nat.le_refl _)
  · rw [bind_assoc]
    refine Spec.bind (peekS W hA1 c1) (by ar2) (fun h hh => ?_)
    have hh' : readHeader c1 = .ok h := by rw [← readHeaderS_res W]; exact hh
    rw [ite_bind]
    refine Spec.ite (fun _ => ?_) (fun _ => ?_)
    · -- criticality present
      rw [bind_assoc]
      refine Spec.bind (boolA W hA1 _ c1 h hh') (by ar2) (fun p _ => ?_)
      obtain ⟨b, r⟩ := p
      rw [pure_bind]
      dsimp only
      cases hr : r.isEmpty with
      | true =>
        simp only [Bool.not_true]
        refine Spec.bind (valueS_none W hA r) (by omega) (fun value _ => ?_)
        exact (decControlTailS_spec W hA regs oid b value rest).mono (by ar2) (fun _ _ => Nat.le_refl _)
      | false =>
        simp only [Bool.not_false]
        refine Spec.bind (valueS_fresh W hA r) (by ar2) (fun value _ => ?_)
        exact (decControlTailS_spec W hA regs oid b value rest).mono (by ar2) (fun _ _ => Nat.le_refl _)
    · -- no criticality: the header is peeked a second time by the value block
      rw [pure_bind]
      dsimp only
      refine Spec.bind (valueS_known W hA c1 h hh') (by ar2) (fun value _ => ?_)
      exact (decControlTailS_spec W hA regs oid false value rest).mono (by ar2) (fun _ _ => Nat.le_refl _)

/-! ### `_unpack_ldap_result`, the trailing-option loops, `_unpack_partial_attribute` -/

/-- potential of a reader position whose header may have been peeked (and paid) already -/
def potPeeked (C W : Nat) (bs : Bytes) : Nat :=
  match readHeader bs with
  | .ok h => 2 * hcost W bs + 20 + pot C W (bs.length - h.hlen)
  | .error _ => pot C W bs.length

omit hA in
theorem potPeeked_ok (C : Nat) (bs : Bytes) (h : Header) (hh : readHeader bs = .ok h) :
    potPeeked C W bs = 2 * hcost W bs + 20 + pot C W (bs.length - h.hlen) := by
  unfold potPeeked; rw [hh]

theorem potPeeked_le (bs : Bytes) : potPeeked (A + 1) W bs ≤ pot (A + 1) W bs.length := by
  unfold potPeeked
  cases hh : readHeader bs with
  | error e => exact Nat.le_refl _
  | ok h =>
    have := hcost_pot (A := A + 1) (W := W) (by omega) bs h hh
    simp only [SLACK] at this ⊢
    omega

omit hA in
theorem potPeeked_nil (C : Nat) : potPeeked C W [] = 0 := by
  simp [potPeeked, readHeader, pot_zero]

/-- a second peek of a header that has been paid for -/
theorem peekP (bs : Bytes) :
    Spec (readHeaderS W bs) (potPeeked (A + 1) W bs)
      (fun h => hcost W bs + 20 + pot (A + 1) W (bs.length - h.hlen)) := by
  unfold Spec
  cases hr : (readHeaderS W bs).res with
  | error e =>
    have h1 : readHeader bs = .error e := by rw [← readHeaderS_res W]; exact hr
    have h2 := hcost_fail (A := A + 1) (W := W) (by omega) bs
    simp only [potPeeked, h1, hcost, D] at h2 ⊢
    omega
  | ok h =>
    have h1 : readHeader bs = .ok h := by rw [← readHeaderS_res W]; exact hr
    rw [potPeeked_ok W _ bs h h1]
    simp only [hcost]
    omega

theorem decResultS_spec (bs : Bytes) :
    Spec (decResultS W bs) (pot (A + 1) W bs.length + 1)
      (fun p => 2 + potPeeked (A + 1) W p.2) := by
  simp only [decResultS]
  refine Spec.tick (by omega) ?_
  refine Spec.bind (intS W hA (by omega) _ bs) (by ar) (fun p _ => ?_)
  obtain ⟨code, b1⟩ := p
  refine Spec.bind (textS W hA _ b1) (by ar) (fun p _ => ?_)
  obtain ⟨mdn, b2⟩ := p
  refine Spec.bind (textS W hA _ b2) (by ar) (fun p _ => ?_)
  obtain ⟨diag, b3⟩ := p
  refine Spec.ite (fun hc => ?_) (fun _ => ?_)
  · have : b3 = [] := by simpa using hc
    subst this
    exact Spec.pure (by simp only [potPeeked_nil]; ar)
  · refine Spec.bind (peekS W hA b3) (by ar) (fun h hh => ?_)
    have hh' : readHeader b3 = .ok h := by rw [← readHeaderS_res W]; exact hh
    refine Spec.ite (fun _ => ?_) (fun _ => ?_)
    · refine Spec.bind (tlvA W hA _ b3 h hh') (by ar) (fun p _ => ?_)
      obtain ⟨c, b4⟩ := p
      refine Spec.bind (loopManyS_spec (pot (A + 1) W) 0 _ (textS_elem W hA _) _ c) (by ar)
        (fun rs _ => ?_)
      have := potPeeked_le W hA b4
      exact Spec.pure (by ar)
    · exact Spec.pure (by simp only [potPeeked_ok W _ b3 h hh']; ar)

theorem decOptLoopS_spec (n1 : Nat) (text1 : Bool) (n2 : Option Nat) :
    ∀ (fuel : Nat) (bs : Bytes) (a b : Option Bytes),
      Spec (decOptLoopS W n1 text1 n2 fuel bs a b) (potPeeked (A + 1) W bs + 1) (fun _ => 0) := by
  intro fuel
  induction fuel with
  | zero =>
    intro bs a b
    simp only [decOptLoopS]
    refine Spec.tick (by omega) ?_
    exact Spec.ite (fun _ => Spec.pure (by omega)) (fun _ => Spec.fail)
  | succ n ih =>
    intro bs a b
    simp only [decOptLoopS]
    refine Spec.tick (by omega) ?_
    refine Spec.ite (fun _ => Spec.pure (by omega)) (fun _ => ?_)
    refine Spec.bind (peekP W hA bs) (by omega) (fun h hh => ?_)
    have hh' : readHeader bs = .ok h := by rw [← readHeaderS_res W]; exact hh
    refine Spec.ite (fun _ => ?_) (fun _ => Spec.ite (fun _ => ?_) (fun _ => ?_))
    · cases text1 with
      | true =>
        simp only [if_true]
        refine Spec.bind (textA W hA none bs h hh') (by ar) (fun p _ => ?_)
        obtain ⟨v, r⟩ := p
        have := potPeeked_le W hA r
        exact (ih r _ _).mono (by ar) (fun _ _ => Nat.le_refl _)
      | false =>
        simp only [Bool.false_eq_true, if_false]
        refine Spec.bind (octA W hA none bs h hh') (by ar) (fun p _ => ?_)
        obtain ⟨v, r⟩ := p
        have := potPeeked_le W hA r
        exact (ih r _ _).mono (by ar) (fun _ _ => Nat.le_refl _)
    · refine Spec.bind (octA W hA none bs h hh') (by ar) (fun p _ => ?_)
      obtain ⟨v, r⟩ := p
      have := potPeeked_le W hA r
      exact (ih r _ _).mono (by ar) (fun _ _ => Nat.le_refl _)
    · refine Spec.bind (skipA bs) (by ar) (fun r hr => ?_)
      have := pot_mono (A + 1) W (skipValue_after bs r h hh' hr)
      have := potPeeked_le W hA r
      exact (ih r _ _).mono (by ar) (fun _ _ => Nat.le_refl _)

theorem decAttrS_spec (bs : Bytes) :
    Spec (decAttrS W bs) (pot (A + 1) W bs.length + 1)
      (fun p => 1 + 1 + pot (A + 1) W p.2.length) := by
  simp only [decAttrS]
  refine Spec.tick (by omega) ?_
  refine Spec.bind (tlvS W hA _ bs) (by ar) (fun p _ => ?_)
  obtain ⟨c, rest⟩ := p
  refine Spec.bind (textS W hA _ c) (by ar) (fun p _ => ?_)
  obtain ⟨name, c1⟩ := p
  refine Spec.bind (tlvS W hA _ c1) (by ar) (fun p _ => ?_)
  obtain ⟨vc, c2⟩ := p
  refine Spec.bind (loopManyS_spec (pot (A + 1) W) 0 _ (octS_elem W hA _) _ vc) (by ar)
    (fun vals _ => ?_)
  exact Spec.pure (by ar)

/-! ### the `while message:` loop of the envelope -/

theorem decEnvelopeLoopS_spec (regs : Regs) :
    ∀ (fuel : Nat) (bs : Bytes) (cs : List Control) (rn : Option Bytes),
      Spec (decEnvelopeLoopS W regs fuel bs cs rn) (pot (A + 1 + 1) W bs.length + 1) (fun _ => 0) := by
  have hA1 : 16 ≤ A + 1 := by omega
  intro fuel
  induction fuel with
  | zero =>
    intro bs cs rn
    simp only [decEnvelopeLoopS]
    refine Spec.tick (by omega) ?_
    exact Spec.ite (fun _ => Spec.pure (by omega)) (fun _ => Spec.fail)
  | succ n ih =>
    intro bs cs rn
    simp only [decEnvelopeLoopS]
    refine Spec.tick (by omega) ?_
    refine Spec.ite (fun _ => Spec.pure (by omega)) (fun _ => ?_)
    refine Spec.bind (peekS W hA1 bs) (by omega) (fun h hh => ?_)
    have hh' : readHeader bs = .ok h := by rw [← readHeaderS_res W]; exact hh
    refine Spec.ite (fun _ => ?_) (fun _ => Spec.ite (fun _ => ?_) (fun _ => ?_))
    · refine Spec.bind (tlvA W hA1 none bs h hh') (by ar) (fun p _ => ?_)
      obtain ⟨c, r⟩ := p
      refine Spec.bind (loopManyS_spec (pot (A + 1 + 1) W) 1 _ (decControlS_spec W hA regs) _ c)
        (by ar) (fun more _ => ?_)
      exact (ih r _ _).mono (by ar) (fun _ _ => Nat.le_refl _)
    · refine Spec.bind (textA W hA1 none bs h hh') (by ar) (fun p _ => ?_)
      obtain ⟨v, r⟩ := p
      exact (ih r _ _).mono (by ar) (fun _ _ => Nat.le_refl _)
    · refine Spec.bind (skipA bs) (by ar) (fun r hr => ?_)
      have := pot_mono (A + 1 + 1) W (skipValue_after bs r h hh' hr)
      exact (ih r _ _).mono (by ar) (fun _ _ => Nat.le_refl _)

end

end Verif.Proofs.MsgSteps
