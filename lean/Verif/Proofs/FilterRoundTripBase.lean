/-
Filter text round trip, part 1: character classes, escaping, the attribute pattern, and the
list utilities (`indexOf`, `splitOn`, `joinWith`) used by the parser.
-/
import Verif.Spec.FilterWF
import Verif.Spec.WF

namespace Verif.Proofs
open Verif

/-! ### facts about the regenerated tables (each depends on the table's value on its own) -/

theorem facts_unescaped_safe :
    ∀ b, b < 256 → Facts.escapedBytes.contains b = false → safeValueChar b = true := by
  decide +kernel
theorem facts_lparen_not_space : isSpaceCp 40 = false := by decide
theorem facts_rparen_not_space : isSpaceCp 41 = false := by decide

/-! ### hex digits -/
theorem hexDigit_facts : ∀ n, n < 16 →
    isHex (hexDigitLower n) = true ∧ hexVal (hexDigitLower n) = n ∧ hexDigitLower n ≠ cNewline ∧
      32 ≤ hexDigitLower n ∧ hexDigitLower n < 127 ∧ hexDigitLower n ≠ cRParen ∧
      hexDigitLower n ≠ cStar ∧ hexDigitLower n ≠ cLParen := by
  decide

/-- one octet of `_serialize_filter_value` -/
def escByte (b : Nat) : Bytes :=
  if Facts.escapedBytes.contains b then [cBackslash, hexDigitLower (b / 16), hexDigitLower (b % 16)] else [b]

theorem escapeValue_nil : escapeValue [] = [] := rfl
theorem escapeValue_cons (b : Nat) (v : Bytes) : escapeValue (b :: v) = escByte b ++ escapeValue v := by
  simp [escapeValue, escByte]

theorem safe_facts {b : Nat} (h : safeValueChar b = true) :
    32 ≤ b ∧ b < 127 ∧ b ≠ cLParen ∧ b ≠ cRParen ∧ b ≠ cStar ∧ b ≠ cBackslash := by
  simpa [safeValueChar, and_assoc] using h

theorem escapeValue_safe (v : Bytes) (hb : IsBytes v) : IsEscapedValue (escapeValue v) := by
  induction v with
  | nil => simp [escapeValue_nil, IsEscapedValue]
  | cons b v ih =>
    have hb' : IsBytes v := fun x hx => hb x (List.mem_cons_of_mem _ hx)
    have hlt : b < 256 := hb b (List.mem_cons_self)
    rw [escapeValue_cons, escByte]
    split
    · have h1 := hexDigit_facts (b / 16) (by omega)
      have h2 := hexDigit_facts (b % 16) (by omega)
      simp [IsEscapedValue, h1.1, h2.1, ih hb']
    · rename_i hc
      have hs := facts_unescaped_safe b hlt (by simpa using hc)
      have := safe_facts hs
      simp only [List.singleton_append]
      unfold IsEscapedValue
      rw [if_neg this.2.2.2.2.2]
      exact ⟨hs, ih hb'⟩

theorem unescape_escapeValue (v : Bytes) (hb : IsBytes v) (fuel : Nat)
    (hf : (escapeValue v).length < fuel) : unescape fuel (escapeValue v) = some v := by
  induction v generalizing fuel with
  | nil => cases fuel <;> simp [escapeValue_nil, unescape]
  | cons b v ih =>
    have hb' : IsBytes v := fun x hx => hb x (List.mem_cons_of_mem _ hx)
    have hlt : b < 256 := hb b (List.mem_cons_self)
    rw [escapeValue_cons, escByte] at hf ⊢
    obtain ⟨fuel, rfl⟩ : ∃ k, fuel = k + 1 := ⟨fuel - 1, by omega⟩
    by_cases hc : Facts.escapedBytes.contains b = true
    · rw [if_pos hc] at hf ⊢
      have h1 := hexDigit_facts (b / 16) (by omega)
      have h2 := hexDigit_facts (b % 16) (by omega)
      simp only [List.cons_append, List.nil_append, unescape, List.length_cons] at hf ⊢
      rw [if_pos trivial, if_pos ⟨h1.2.2.1, h2.2.2.1, h1.1, h2.1⟩, ih hb' fuel (by omega), h1.2.1, h2.2.1]
      simp; omega
    · rw [if_neg hc] at hf ⊢
      have hs := facts_unescaped_safe b hlt (by simpa using hc)
      have := safe_facts hs
      simp only [List.singleton_append, unescape, List.length_cons] at hf ⊢
      rw [if_neg this.2.2.2.2.2, ih hb' fuel (by omega)]
      rfl

/-- characters of an escaped value: printable, and none of `)` `*` -/
def valChar (c : Nat) : Prop := 32 ≤ c ∧ c < 127 ∧ c ≠ cRParen ∧ c ≠ cStar

theorem escapeValue_chars (v : Bytes) (hb : IsBytes v) : ∀ c ∈ escapeValue v, valChar c := by
  induction v with
  | nil => simp [escapeValue_nil]
  | cons b v ih =>
    have hb' : IsBytes v := fun x hx => hb x (List.mem_cons_of_mem _ hx)
    have hlt : b < 256 := hb b (List.mem_cons_self)
    intro c hc
    rw [escapeValue_cons, List.mem_append] at hc
    rcases hc with hc | hc
    · rw [escByte] at hc
      split at hc
      · have h1 := hexDigit_facts (b / 16) (by omega)
        have h2 := hexDigit_facts (b % 16) (by omega)
        simp only [List.mem_cons, List.not_mem_nil, or_false] at hc
        rcases hc with rfl | rfl | rfl
        · simp [valChar, cBackslash, cRParen, cStar]
        · exact ⟨h1.2.2.2.1, h1.2.2.2.2.1, h1.2.2.2.2.2.1, h1.2.2.2.2.2.2.1⟩
        · exact ⟨h2.2.2.2.1, h2.2.2.2.2.1, h2.2.2.2.2.2.1, h2.2.2.2.2.2.2.1⟩
      · rename_i hn
        have hs := facts_unescaped_safe b hlt (by simpa using hn)
        have := safe_facts hs
        simp only [List.mem_singleton] at hc
        subst hc
        exact ⟨this.1, this.2.1, this.2.2.2.1, this.2.2.2.2.1⟩
    · exact ih hb' c hc

theorem escapeValue_eq_nil {v : Bytes} : escapeValue v = [] ↔ v = [] := by
  cases v with
  | nil => simp [escapeValue_nil]
  | cons b v =>
    rw [escapeValue_cons, escByte]
    split <;> simp

/-! ### attribute descriptions -/

/-- characters of a string matching the attribute pattern -/
def attrChar (c : Nat) : Prop := isKeyChar c = true ∨ c = cDot ∨ c = cSemi

theorem attrChar_of_digit {c : Nat} (h : isDigit c = true) : attrChar c := by
  left; simp [isKeyChar, h]

theorem attrChar_facts {c : Nat} (h : attrChar c) :
    32 < c ∧ c < 127 ∧ c ≠ cLParen ∧ c ≠ cRParen ∧ c ≠ cEq ∧ c ≠ cColon ∧ c ≠ cBang ∧ c ≠ cAmp ∧
      c ≠ cPipe ∧ c ≠ cLt ∧ c ≠ cGt ∧ c ≠ cTilde ∧ c ≠ cStar := by
  rcases h with h | h | h
  · simp only [isKeyChar, isAlpha, isDigit, cHyphen, Bool.or_eq_true, Bool.and_eq_true,
      decide_eq_true_eq, beq_iff_eq] at h
    simp only [cLParen, cRParen, cEq, cColon, cBang, cAmp, cPipe, cLt, cGt, cTilde, cStar]
    omega
  · subst h; decide
  · subst h; decide

/-- if everything after the scanned prefix is made of attribute characters, so is the whole -/
def Ext (l r : Bytes) : Prop := (∀ c ∈ r, attrChar c) → ∀ c ∈ l, attrChar c

theorem of_mem_takeWhile (p : Nat → Bool) (l : Bytes) : ∀ x ∈ l.takeWhile p, p x = true := by
  induction l with
  | nil => simp
  | cons a t ih =>
    intro x hx
    rw [List.takeWhile_cons] at hx
    split at hx
    · rcases List.mem_cons.1 hx with rfl | hx
      · assumption
      · exact ih x hx
    · simp at hx

theorem ext_dropWhile (p : Nat → Bool) (hp : ∀ c, p c = true → attrChar c) (l : Bytes) :
    Ext l (l.dropWhile p) := by
  intro h c hc
  rw [← List.takeWhile_append_dropWhile (p := p) (l := l), List.mem_append] at hc
  rcases hc with hc | hc
  · exact hp c (of_mem_takeWhile p l c hc)
  · exact h c hc

theorem ext_scanNumber {l r : Bytes} (h : scanNumber l = some r) : Ext l r := by
  cases l with
  | nil => simp [scanNumber] at h
  | cons c t =>
    simp only [scanNumber] at h
    intro hr x hx
    split at h
    · rename_i h0
      simp only [Option.some.injEq] at h
      subst h
      rcases List.mem_cons.1 hx with rfl | hx
      · subst h0; exact attrChar_of_digit (by decide)
      · exact hr x hx
    · split at h
      · rename_i h1
        simp only [Option.some.injEq] at h
        subst h
        rcases List.mem_cons.1 hx with rfl | hx
        · exact attrChar_of_digit (by simp [isDigit]; omega)
        · exact ext_dropWhile isDigit (fun c => attrChar_of_digit) t hr x hx
      · simp at h

theorem ext_scanArcs (fuel : Nat) (l : Bytes) : Ext l (scanArcs fuel l) := by
  induction fuel generalizing l with
  | zero => intro h; simpa [scanArcs] using h
  | succ n ih =>
    cases l with
    | nil => intro _ c hc; simp at hc
    | cons c t =>
      simp only [scanArcs]
      split
      · rename_i hdot
        split
        · rename_i r' hr'
          intro h x hx
          rcases List.mem_cons.1 hx with rfl | hx
          · exact Or.inr (Or.inl hdot)
          · exact ext_scanNumber hr' (ih r' h) x hx
        · intro h; exact h
      · intro h; exact h

theorem scanOptions_chars (fuel : Nat) (l : Bytes) (h : scanOptions fuel l = true) :
    ∀ c ∈ l, attrChar c := by
  induction fuel generalizing l with
  | zero =>
    cases l with
    | nil => simp
    | cons c t => simp [scanOptions] at h
  | succ n ih =>
    cases l with
    | nil => simp
    | cons c t =>
      simp only [scanOptions] at h
      split at h
      · rename_i hsemi
        split at h
        · intro x hx
          rcases List.mem_cons.1 hx with rfl | hx
          · exact Or.inr (Or.inr hsemi)
          · exact ext_dropWhile isKeyChar (fun c hc => Or.inl hc) t (ih _ h) x hx
        · simp at h
      · simp at h

theorem validAttr_chars {a : Bytes} (h : validAttr a = true) : ∀ c ∈ a, attrChar c := by
  cases a with
  | nil => simp
  | cons c t =>
    simp only [validAttr] at h
    split at h
    · rename_i halpha
      intro x hx
      rcases List.mem_cons.1 hx with rfl | hx
      · left; simp [isKeyChar, halpha]
      · exact ext_dropWhile isKeyChar (fun c hc => Or.inl hc) t (scanOptions_chars _ _ h) x hx
    · split at h
      · rename_i r' hr'
        exact ext_scanNumber hr' (ext_scanArcs _ _ (scanOptions_chars _ _ h))
      · simp at h

theorem validAttr_ne_nil {a : Bytes} (h : validAttr a = true) : a ≠ [] := by
  rintro rfl; simp [validAttr] at h

/-! ### `indexOf`, `splitOn`, `joinWith` -/

theorem indexOf_append (c : Nat) (pre rest : Bytes) (h : c ∉ pre) :
    indexOf c (pre ++ c :: rest) = some pre.length := by
  induction pre with
  | nil => simp [indexOf]
  | cons b t ih =>
    have hb : b ≠ c := fun e => h (by simp [e])
    have ht : c ∉ t := fun e => h (List.mem_cons_of_mem _ e)
    simp [indexOf, hb, ih ht]

theorem splitOn_ne_nil (sep : Nat) (l : Bytes) : splitOn sep l ≠ [] := by
  cases l with
  | nil => simp [splitOn]
  | cons b t =>
    simp only [splitOn]
    split
    · simp
    · split <;> simp

theorem splitOn_single (sep : Nat) (x : Bytes) (h : sep ∉ x) : splitOn sep x = [x] := by
  induction x with
  | nil => rfl
  | cons b t ih =>
    have hb : b ≠ sep := fun e => h (by simp [e])
    have ht : sep ∉ t := fun e => h (List.mem_cons_of_mem _ e)
    simp [splitOn, ih ht, hb]

theorem splitOn_append (sep : Nat) (x rest : Bytes) (h : sep ∉ x) :
    splitOn sep (x ++ sep :: rest) = x :: splitOn sep rest := by
  induction x with
  | nil =>
    simp only [List.nil_append, splitOn]
    split
    · rename_i h0; exact absurd h0 (splitOn_ne_nil _ _)
    · simp_all
  | cons b t ih =>
    have hb : b ≠ sep := fun e => h (by simp [e])
    have ht : sep ∉ t := fun e => h (List.mem_cons_of_mem _ e)
    simp [splitOn, ih ht, hb]

theorem joinWith_cons_cons (sep x y : Bytes) (xs : List Bytes) :
    joinWith sep (x :: y :: xs) = x ++ sep ++ joinWith sep (y :: xs) := rfl

theorem splitOn_joinWith (sep : Nat) (xs : List Bytes) (hne : xs ≠ []) (h : ∀ x ∈ xs, sep ∉ x) :
    splitOn sep (joinWith [sep] xs) = xs := by
  induction xs with
  | nil => exact absurd rfl hne
  | cons x t ih =>
    cases t with
    | nil => simpa [joinWith] using splitOn_single sep x (h x (by simp))
    | cons y t =>
      rw [joinWith_cons_cons, List.append_assoc, List.singleton_append,
        splitOn_append sep x _ (h x (by simp)), ih (by simp) (fun z hz => h z (List.mem_cons_of_mem _ hz))]

theorem mem_joinWith {sep : Bytes} {xs : List Bytes} {c : Nat} (h : c ∈ joinWith sep xs) :
    c ∈ sep ∨ ∃ x ∈ xs, c ∈ x := by
  induction xs with
  | nil => simp [joinWith] at h
  | cons x t ih =>
    cases t with
    | nil => exact Or.inr ⟨x, by simp, by simpa [joinWith] using h⟩
    | cons y t =>
      rw [joinWith_cons_cons, List.mem_append, List.mem_append] at h
      rcases h with (h | h) | h
      · exact Or.inr ⟨x, by simp, h⟩
      · exact Or.inl h
      · rcases ih h with h | ⟨z, hz, hc⟩
        · exact Or.inl h
        · exact Or.inr ⟨z, List.mem_cons_of_mem _ hz, hc⟩

/-! ### substring values -/

/-- the domain condition on an optional substring component -/
def OptComp (x : Option Bytes) : Prop := match x with | none => True | some x => x ≠ [] ∧ IsBytes x

theorem isBytes_getD {x : Option Bytes} (h : OptComp x) : IsBytes (x.getD []) := by
  cases x with
  | none => intro b hb; simp at hb
  | some v => exact h.2

theorem star_not_mem_escapeValue {v : Bytes} (hb : IsBytes v) : cStar ∉ escapeValue v :=
  fun h => (escapeValue_chars v hb _ h).2.2.2 rfl

theorem rparen_not_mem_escapeValue {v : Bytes} (hb : IsBytes v) : cRParen ∉ escapeValue v :=
  fun h => (escapeValue_chars v hb _ h).2.2.1 rfl

theorem unescape_len (v : Bytes) (hb : IsBytes v) :
    unescape ((escapeValue v).length + 1) (escapeValue v) = some v :=
  unescape_escapeValue v hb _ (Nat.lt_succ_self _)

theorem optPart_eq {x : Option Bytes} (h : OptComp x) :
    (if (escapeValue (x.getD [])).isEmpty then some none
      else (unescape ((escapeValue (x.getD [])).length + 1) (escapeValue (x.getD []))).map some) = some x := by
  cases x with
  | none => simp [escapeValue_nil]
  | some v =>
    have : escapeValue v ≠ [] := fun e => h.1 (escapeValue_eq_nil.1 e)
    simp [this, unescape_len v h.2]

theorem mids_eq (any : List Bytes) (ha : ∀ x ∈ any, x ≠ [] ∧ IsBytes x) :
    (any.map escapeValue).foldr (fun v acc =>
      match acc with
      | none => none
      | some l => if v.isEmpty then none else (unescape (v.length + 1) v).map (· :: l)) (some []) = some any := by
  induction any with
  | nil => rfl
  | cons x t ih =>
    have hx := ha x (by simp)
    have : escapeValue x ≠ [] := fun e => hx.1 (escapeValue_eq_nil.1 e)
    rw [List.map_cons, List.foldr_cons, ih (fun z hz => ha z (List.mem_cons_of_mem _ hz))]
    simp [this, unescape_len x hx.2]

theorem substringsValue_of_split (raw first last : Bytes) (mids : List Bytes)
    (h : splitOn cStar raw = first :: (mids ++ [last])) :
    substringsValue raw =
      (match (if first.isEmpty then some none else (unescape (first.length + 1) first).map some),
        (mids.foldr (fun v acc =>
          match acc with
          | none => none
          | some l => if v.isEmpty then none else (unescape (v.length + 1) v).map (· :: l)) (some [])),
        (if last.isEmpty then some none else (unescape (last.length + 1) last).map some) with
      | some f, some ms, some l => some (f, ms, l)
      | _, _, _ => none) := by
  obtain ⟨y, ys, hy⟩ : ∃ y ys, mids ++ [last] = y :: ys := by
    cases mids with
    | nil => exact ⟨_, _, rfl⟩
    | cons a t => exact ⟨_, _, rfl⟩
  have hl : (y :: ys).getLast! = last := by rw [← hy]; simp
  have hd : (y :: ys).dropLast = mids := by rw [← hy]; simp
  unfold substringsValue
  rw [h, hy]
  simp only [hl, hd]
  rfl

def substrParts (i : Option Bytes) (any : List Bytes) (f : Option Bytes) : List Bytes :=
  [escapeValue (i.getD [])] ++ any.map escapeValue ++ [escapeValue (f.getD [])]

theorem splitOn_substrParts (i : Option Bytes) (any : List Bytes) (f : Option Bytes)
    (hi : OptComp i) (ha : ∀ x ∈ any, x ≠ [] ∧ IsBytes x) (hf : OptComp f) :
    splitOn cStar (joinWith [cStar] (substrParts i any f)) = substrParts i any f := by
  apply splitOn_joinWith
  · simp [substrParts]
  · intro x hx
    simp only [substrParts, List.mem_append, List.mem_singleton, List.mem_map] at hx
    rcases hx with (rfl | ⟨y, hy, rfl⟩) | rfl
    · exact star_not_mem_escapeValue (isBytes_getD hi)
    · exact star_not_mem_escapeValue (ha y hy).2
    · exact star_not_mem_escapeValue (isBytes_getD hf)

theorem substringsValue_join (i : Option Bytes) (any : List Bytes) (f : Option Bytes)
    (hi : OptComp i) (ha : ∀ x ∈ any, x ≠ [] ∧ IsBytes x) (hf : OptComp f) :
    substringsValue (joinWith [cStar] (substrParts i any f)) = some (i, any, f) := by
  rw [substringsValue_of_split _ (escapeValue (i.getD [])) (escapeValue (f.getD [])) (any.map escapeValue)
    (by rw [splitOn_substrParts i any f hi ha hf]; simp [substrParts])]
  rw [optPart_eq hi, optPart_eq hf, mids_eq any ha]

/-- the joined substring text contains a `*`, no `)`, and is not the lone `*` of a presence filter -/
theorem substr_raw_facts (i : Option Bytes) (any : List Bytes) (f : Option Bytes)
    (hi : OptComp i) (ha : ∀ x ∈ any, x ≠ [] ∧ IsBytes x) (hf : OptComp f)
    (hsome : i.isSome = true ∨ any ≠ [] ∨ f.isSome = true) :
    (joinWith [cStar] (substrParts i any f)).contains cStar = true ∧
      cRParen ∉ joinWith [cStar] (substrParts i any f) ∧
      joinWith [cStar] (substrParts i any f) ≠ [cStar] ∧
      ∀ c ∈ joinWith [cStar] (substrParts i any f), 32 ≤ c ∧ c < 127 := by
  have hmem : ∀ x ∈ substrParts i any f, ∀ c ∈ x, valChar c := by
    intro x hx
    simp only [substrParts, List.mem_append, List.mem_singleton, List.mem_map] at hx
    rcases hx with (rfl | ⟨y, hy, rfl⟩) | rfl
    · exact escapeValue_chars _ (isBytes_getD hi)
    · exact escapeValue_chars _ (ha y hy).2
    · exact escapeValue_chars _ (isBytes_getD hf)
  refine ⟨?_, ?_, ?_, ?_⟩
  · obtain ⟨y, ys, hy⟩ : ∃ y ys, any.map escapeValue ++ [escapeValue (f.getD [])] = y :: ys := by
      cases any with
      | nil => exact ⟨_, _, rfl⟩
      | cons a t => exact ⟨_, _, rfl⟩
    have : substrParts i any f = escapeValue (i.getD []) :: y :: ys := by
      simp [substrParts, ← hy]
    rw [this, joinWith_cons_cons]
    simp
  · intro h
    rcases mem_joinWith h with h | ⟨x, hx, hc⟩
    · simp [cRParen, cStar] at h
    · exact (hmem x hx _ hc).2.2.1 rfl
  · intro h
    have h2 := splitOn_substrParts i any f hi ha hf
    rw [h] at h2
    have h3 : substrParts i any f = [[], []] := by rw [← h2]; decide
    simp only [substrParts] at h3
    cases any with
    | cons a t => simp at h3
    | nil =>
      simp only [List.map_nil, List.append_nil, List.singleton_append, List.cons.injEq, and_true] at h3
      rcases hsome with hs | hs | hs
      · cases i with
        | none => simp at hs
        | some v => exact hi.1 (escapeValue_eq_nil.1 h3.1)
      · exact hs rfl
      · cases f with
        | none => simp at hs
        | some v => exact hf.1 (escapeValue_eq_nil.1 h3.2)
  · intro c h
    rcases mem_joinWith h with h | ⟨x, hx, hc⟩
    · simp only [List.mem_singleton] at h; subst h; decide
    · exact ⟨(hmem x hx _ hc).1, (hmem x hx _ hc).2.1⟩

/-! ### extensible-match header -/

def extParts (rule attr : Option Bytes) (dn : Bool) : List Bytes :=
  [attr.getD []] ++ (if dn then [[100, 110]] else []) ++ (match rule with | some r => [r] | none => [])

def OptAttr (x : Option Bytes) : Prop := match x with | none => True | some a => validAttr a = true

theorem extParts_chars (rule attr : Option Bytes) (dn : Bool) (ha : OptAttr attr) (hr : OptAttr rule) :
    ∀ x ∈ extParts rule attr dn, ∀ c ∈ x, attrChar c := by
  intro x hx c hc
  simp only [extParts, List.mem_append, List.mem_singleton] at hx
  rcases hx with (rfl | hx) | hx
  · cases attr with
    | none => simp at hc
    | some a => exact validAttr_chars ha c hc
  · cases dn with
    | false => simp at hx
    | true =>
      simp only [if_true, List.mem_singleton] at hx
      subst hx
      simp only [List.mem_cons, List.not_mem_nil, or_false] at hc
      rcases hc with rfl | rfl <;> exact Or.inl (by decide)
  · cases rule with
    | none => simp at hx
    | some r =>
      simp only [List.mem_singleton] at hx
      subst hx
      exact validAttr_chars hr c hc

theorem extParts_ne_nil (rule attr : Option Bytes) (dn : Bool) : extParts rule attr dn ≠ [] := by
  simp [extParts]

theorem splitOn_extParts (rule attr : Option Bytes) (dn : Bool) (ha : OptAttr attr) (hr : OptAttr rule) :
    splitOn cColon (joinWith [cColon] (extParts rule attr dn)) = extParts rule attr dn :=
  splitOn_joinWith _ _ (extParts_ne_nil rule attr dn) fun x hx hc =>
    (attrChar_facts (extParts_chars rule attr dn ha hr x hx _ hc)).2.2.2.2.2.1 rfl

theorem lower_d : lowerAscii 100 = 100 := by decide
theorem lower_n : lowerAscii 110 = 110 := by decide

theorem extHeader_join (rule attr : Option Bytes) (dn : Bool) (ha : OptAttr attr)
    (hr : match rule with | none => True | some r => validAttr r = true ∧ (dn = false → isDnWord r = false))
    (hsome : attr.isSome = true ∨ rule.isSome = true ∨ dn = true) :
    extHeader (joinWith [cColon] (extParts rule attr dn)) = some (attr, dn, rule) := by
  have hr' : OptAttr rule := by
    cases rule with
    | none => trivial
    | some r => exact hr.1
  unfold extHeader
  rw [splitOn_extParts rule attr dn ha hr']
  have hattr : ∀ a, attr = some a → validAttr a = true ∧ a ≠ [] := by
    rintro a rfl; exact ⟨ha, validAttr_ne_nil ha⟩
  cases attr with
  | none =>
    cases dn with
    | true =>
      cases rule with
      | none => simp [extParts, lower_d, lower_n]
      | some r => simp [extParts, lower_d, lower_n, hr.1]
    | false =>
      cases rule with
      | none => simp at hsome
      | some r =>
        have h2 : ¬ List.map lowerAscii r = [100, 110] := by
          have := hr.2 rfl
          simpa [isDnWord] using this
        simp [extParts, h2, hr.1]
  | some a =>
    obtain ⟨hv, hne⟩ := hattr a rfl
    cases dn with
    | true =>
      cases rule with
      | none => simp [extParts, lower_d, lower_n, hv, hne]
      | some r => simp [extParts, lower_d, lower_n, hr.1, hv, hne]
    | false =>
      cases rule with
      | none => simp [extParts, hv, hne]
      | some r =>
        have h2 : ¬ List.map lowerAscii r = [100, 110] := by
          have := hr.2 rfl
          simpa [isDnWord] using this
        simp [extParts, h2, hr.1, hv, hne]

end Verif.Proofs
