/-
Filter text round trip, part 1: character classes, escaping, the attribute pattern, and the
list utilities (`indexOf`, `splitOn`, `joinWith`) used by the parser.
-/
import Verif.Spec.FilterWF
import Verif.Spec.WF

namespace Verif.Proofs
open Verif

/-! ### facts about the regenerated tables (each depends on the table's value on its own) -/

theorem facts_unescaped_safe :
    ∀ b, b < 256 → Facts.escapedBytes.contains b = false → safeValueChar b = true := by
  decide +kernel
theorem facts_lparen_not_space : isSpaceCp 40 = false := by decide
theorem facts_rparen_not_space : isSpaceCp 41 = false := by decide

/-! ### hex digits -/
theorem hexDigit_facts : ∀ n, n < 16 →
    isHex (hexDigitLower n) = true ∧ hexVal (hexDigitLower n) = n ∧ hexDigitLower n ≠ cNewline ∧
      32 ≤ hexDigitLower n ∧ hexDigitLower n < 127 ∧ hexDigitLower n ≠ cRParen ∧
      hexDigitLower n ≠ cStar ∧ hexDigitLower n ≠ cLParen := by
  decide

/-- one octet of `_serialize_filter_value` -/
def escByte (b : Nat) : Bytes :=
  if Facts.escapedBytes.contains b then [cBackslash, hexDigitLower (b / 16), hexDigitLower (b % 16)] else [b]

theorem escapeValue_nil : escapeValue [] = [] := rfl
theorem escapeValue_cons (b : Nat) (v : Bytes) : escapeValue (b :: v) = escByte b ++ escapeValue v := by
  simp [escapeValue, escByte]

theorem safe_facts {b : Nat} (h : safeValueChar b = true) :
    32 ≤ b ∧ b < 127 ∧ b ≠ cLParen ∧ b ≠ cRParen ∧ b ≠ cStar ∧ b ≠ cBackslash := by
  simpa [safeValueChar, and_assoc] using h

theorem escapeValue_safe (v : Bytes) (hb : IsBytes v) : IsEscapedValue (escapeValue v) := by
  induction v with
  | nil => simp [escapeValue_nil, IsEscapedValue]
  | cons b v ih =>
    have hb' : IsBytes v := fun x hx => hb x (List.mem_cons_of_mem _ hx)
    have hlt : b < 256 := hb b (List.mem_cons_self)
    rw [escapeValue_cons, escByte]
    split
    · have h1 := hexDigit_facts (b / 16) (by omega)
      have h2 := hexDigit_facts (b % 16) (by omega)
      simp [IsEscapedValue, h1.1, h2.1, ih hb']
    · rename_i hc
      have hs := facts_unescaped_safe b hlt (by simpa using hc)
      have := safe_facts hs
      simp only [List.singleton_append]
      unfold IsEscapedValue
      rw [if_neg this.2.2.2.2.2]
      exact ⟨hs, ih hb'⟩

theorem unescape_escapeValue (v : Bytes) (hb : IsBytes v) (fuel : Nat)
    (hf : (escapeValue v).length < fuel) : unescape fuel (escapeValue v) = some v := by
  induction v generalizing fuel with
  | nil => cases fuel <;> simp [escapeValue_nil, unescape]
  | cons b v ih =>
    have hb' : IsBytes v := fun x hx => hb x (List.mem_cons_of_mem _ hx)
    have hlt : b < 256 := hb b (List.mem_cons_self)
    rw [escapeValue_cons, escByte] at hf ⊢
    obtain ⟨fuel, rfl⟩ : ∃ k, fuel = k + 1 := ⟨fuel - 1, by omega⟩
    by_cases hc : Facts.escapedBytes.contains b = true
    · rw [if_pos hc] at hf ⊢
      have h1 := hexDigit_facts (b / 16) (by omega)
      have h2 := hexDigit_facts (b % 16) (by omega)
      simp only [List.cons_append, List.nil_append, unescape, List.length_cons] at hf ⊢
      rw [if_pos trivial, if_pos ⟨h1.2.2.1, h2.2.2.1, h1.1, h2.1⟩, ih hb' fuel (by omega), h1.2.1, h2.2.1]
      simp; omega
    · rw [if_neg hc] at hf ⊢
      have hs := facts_unescaped_safe b hlt (by simpa using hc)
      have := safe_facts hs
      simp only [List.singleton_append, unescape, List.length_cons] at hf ⊢
      rw [if_neg this.2.2.2.2.2, ih hb' fuel (by omega)]
      rfl

/-- characters of an escaped value: printable, and none of `)` `*` -/
def valChar (c : Nat) : Prop := 32 ≤ c ∧ c < 127 ∧ c ≠ cRParen ∧ c ≠ cStar

theorem escapeValue_chars (v : Bytes) (hb : IsBytes v) : ∀ c ∈ escapeValue v, valChar c := by
  induction v with
  | nil => simp [escapeValue_nil]
  | cons b v ih =>
    have hb' : IsBytes v := fun x hx => hb x (List.mem_cons_of_mem _ hx)
    have hlt : b < 256 := hb b (List.mem_cons_self)
    intro c hc
    rw [escapeValue_cons, List.mem_append] at hc
    rcases hc with hc | hc
    · rw [escByte] at hc
      split at hc
      · have h1 := hexDigit_facts (b / 16) (by omega)
        have h2 := hexDigit_facts (b % 16) (by omega)
        simp only [List.mem_cons, List.not_mem_nil, or_false] at hc
        rcases hc with rfl | rfl | rfl
        · simp [valChar, cBackslash, cRParen, cStar]
        · exact ⟨h1.2.2.2.1, h1.2.2.2.2.1, h1.2.2.2.2.2.1, h1.2.2.2.2.2.2.1⟩
        · exact ⟨h2.2.2.2.1, h2.2.2.2.2.1, h2.2.2.2.2.2.1, h2.2.2.2.2.2.2.1⟩
      · rename_i hn
        have hs := facts_unescaped_safe b hlt (by simpa using hn)
        have := safe_facts hs
        simp only [List.mem_singleton] at hc
        subst hc
        exact ⟨this.1, this.2.1, this.2.2.2.1, this.2.2.2.2.1⟩
    · exact ih hb' c hc

theorem escapeValue_eq_nil {v : Bytes} : escapeValue v = [] ↔ v = [] := by
  cases v with
  | nil => simp [escapeValue_nil]
  | cons b v =>
    rw [escapeValue_cons, escByte]
    split <;> simp

/-! ### attribute descriptions -/

/-- characters of a string matching the attribute pattern -/
def attrChar (c : Nat) : Prop := isKeyChar c = true ∨ c = cDot ∨ c = cSemi

theorem attrChar_of_digit {c : Nat} (h : isDigit c = true) : attrChar c := by
  left; simp [isKeyChar, h]

theorem attrChar_facts {c : Nat} (h : attrChar c) :
    32 < c ∧ c < 127 ∧ c ≠ cLParen ∧ c ≠ cRParen ∧ c ≠ cEq ∧ c ≠ cColon ∧ c ≠ cBang ∧ c ≠ cAmp ∧
      c ≠ cPipe ∧ c ≠ cLt ∧ c ≠ cGt ∧ c ≠ cTilde ∧ c ≠ cStar := by
  rcases h with h | h | h
  · simp only [isKeyChar, isAlpha, isDigit, cHyphen, Bool.or_eq_true, Bool.and_eq_true,
      decide_eq_true_eq, beq_iff_eq] at h
    simp only [cLParen, cRParen, cEq, cColon, cBang, cAmp, cPipe, cLt, cGt, cTilde, cStar]
    omega
  · subst h; decide
  · subst h; decide

/-- if everything after the scanned prefix is made of attribute characters, so is the whole -/
def Ext (l r : Bytes) : Prop := (∀ c ∈ r, attrChar c) → ∀ c ∈ l, attrChar c

theorem of_mem_takeWhile (p : Nat → Bool) (l : Bytes) : ∀ x ∈ l.takeWhile p, p x = true := by
  induction l with
  | nil => simp
  | cons a t ih =>
    intro x hx
    rw [List.takeWhile_cons] at hx
    split at hx
    · rcases List.mem_cons.1 hx with rfl | hx
      · assumption
      · exact ih x hx
    · simp at hx

theorem ext_dropWhile (p : Nat → Bool) (hp : ∀ c, p c = true → attrChar c) (l : Bytes) :
    Ext l (l.dropWhile p) := by
  intro h c hc
  rw [← List.takeWhile_append_dropWhile (p := p) (l := l), List.mem_append] at hc
  rcases hc with hc | hc
  · exact hp c (of_mem_takeWhile p l c hc)
  · exact h c hc

theorem ext_scanNumber {l r : Bytes} (h : scanNumber l = some r) : Ext l r := by
  cases l with
  | nil => simp [scanNumber] at h
  | cons c t =>
    simp only [scanNumber] at h
    intro hr x hx
    split at h
    · rename_i h0
      simp only [Option.some.injEq] at h
      subst h
      rcases List.mem_cons.1 hx with rfl | hx
      · subst h0; exact attrChar_of_digit (by decide)
      · exact hr x hx
    · split at h
      · rename_i h1
        simp only [Option.some.injEq] at h
        subst h
        rcases List.mem_cons.1 hx with rfl | hx
        · exact attrChar_of_digit (by simp [isDigit]; omega)
        · exact ext_dropWhile isDigit (fun c => attrChar_of_digit) t hr x hx
      · simp at h

theorem ext_scanArcs (fuel : Nat) (l : Bytes) : Ext l (scanArcs fuel l) := by
  induction fuel generalizing l with
  | zero => intro h; simpa [scanArcs] using h
  | succ n ih =>
    cases l with
    | nil => intro _ c hc; simp at hc
    | cons c t =>
      simp only [scanArcs]
      split
      · rename_i hdot
        split
        · rename_i r' hr'
          intro h x hx
          rcases List.mem_cons.1 hx with rfl | hx
          · exact Or.inr (Or.inl hdot)
          · exact ext_scanNumber hr' (ih r' h) x hx
        · intro h; exact h
      · intro h; exact h

theorem scanOptions_chars (fuel : Nat) (l : Bytes) (h : scanOptions fuel l = true) :
    ∀ c ∈ l, attrChar c := by
  induction fuel generalizing l with
  | zero =>
    cases l with
    | nil => simp
    | cons c t => simp [scanOptions] at h
  | succ n ih =>
    cases l with
    | nil => simp
    | cons c t =>
      simp only [scanOptions] at h
      split at h
      · rename_i hsemi
        split at h
        · intro x hx
          rcases List.mem_cons.1 hx with rfl | hx
          · exact Or.inr (Or.inr hsemi)
          · exact ext_dropWhile isKeyChar (fun c hc => Or.inl hc) t (ih _ h) x hx
        · simp at h
      · simp at h

theorem validAttr_chars {a : Bytes} (h : validAttr a = true) : ∀ c ∈ a, attrChar c := by
  cases a with
  | nil => simp
  | cons c t =>
    simp only [validAttr] at h
    split at h
    · rename_i halpha
      intro x hx
      rcases List.mem_cons.1 hx with rfl | hx
      · left; simp [isKeyChar, halpha]
      · exact ext_dropWhile isKeyChar (fun c hc => Or.inl hc) t (scanOptions_chars _ _ h) x hx
    · split at h
      · rename_i r' hr'
        exact ext_scanNumber hr' (ext_scanArcs _ _ (scanOptions_chars _ _ h))
      · simp at h

theorem validAttr_ne_nil {a : Bytes} (h : validAttr a = true) : a ≠ [] := by
  rintro rfl; simp [validAttr] at h

/-! ### `indexOf`, `splitOn`, `joinWith` -/

theorem indexOf_append (c : Nat) (pre rest : Bytes) (h : c ∉ pre) :
    indexOf c (pre ++ c :: rest) = some pre.length := by
  induction pre with
  | nil => simp [indexOf]
  | cons b t ih =>
    have hb : b ≠ c := fun e => h (by simp [e])
    have ht : c ∉ t := fun e => h (List.mem_cons_of_mem _ e)
    simp [indexOf, hb, ih ht]

theorem splitOn_ne_nil (sep : Nat) (l : Bytes) : splitOn sep l ≠ [] := by
  cases l with
  | nil => simp [splitOn]
  | cons b t =>
    simp only [splitOn]
    split
    · simp
    · split <;> simp

theorem splitOn_single (sep : Nat) (x : Bytes) (h : sep ∉ x) : splitOn sep x = [x] := by
  induction x with
  | nil => rfl
  | cons b t ih =>
    have hb : b ≠ sep := fun e => h (by simp [e])
    have ht : sep ∉ t := fun e => h (List.mem_cons_of_mem _ e)
    simp [splitOn, ih ht, hb]

theorem splitOn_append (sep : Nat) (x rest : Bytes) (h : sep ∉ x) :
    splitOn sep (x ++ sep :: rest) = x :: splitOn sep rest := by
  induction x with
  | nil =>
    simp only [List.nil_append, splitOn]
    split
    · rename_i h0; exact absurd h0 (splitOn_ne_nil _ _)
    · simp_all
  | cons b t ih =>
    have hb : b ≠ sep := fun e => h (by simp [e])
    have ht : sep ∉ t := fun e => h (List.mem_cons_of_mem _ e)
    simp [splitOn, ih ht, hb]

theorem joinWith_cons_cons (sep x y : Bytes) (xs : List Bytes) :
    joinWith sep (x :: y :: xs) = x ++ sep ++ joinWith sep (y :: xs) := rfl

theorem splitOn_joinWith (sep : Nat) (xs : List Bytes) (hne : xs ≠ []) (h : ∀ x ∈ xs, sep ∉ x) :
    splitOn sep (joinWith [sep] xs) = xs := by
  induction xs with
  | nil => exact absurd rfl hne
  | cons x t ih =>
    cases t with
    | nil => simpa [joinWith] using splitOn_single sep x (h x (by simp))
    | cons y t =>
      rw [joinWith_cons_cons, List.append_assoc, List.singleton_append,
        splitOn_append sep x _ (h x (by simp)), ih (by simp) (fun z hz => h z (List.mem_cons_of_mem _ hz))]

theorem mem_joinWith {sep : Bytes} {xs : List Bytes} {c : Nat} (h : c ∈ joinWith sep xs) :
    c ∈ sep ∨ ∃ x ∈ xs, c ∈ x := by
  induction xs with
  | nil => simp [joinWith] at h
  | cons x t ih =>
    cases t with
    | nil => exact Or.inr ⟨x, by simp, by simpa [joinWith] using h⟩
    | cons y t =>
      rw [joinWith_cons_cons, List.mem_append, List.mem_append] at h
      rcases h with (h | h) | h
      · exact Or.inr ⟨x, by simp, h⟩
      · exact Or.inl h
      · rcases ih h with h | ⟨z, hz, hc⟩
        · exact Or.inl h
        · exact Or.inr ⟨z, List.mem_cons_of_mem _ hz, hc⟩

end Verif.Proofs
