/-
One lemma per optional part of the description grammars: the scanner consumes exactly the
part's text, and the post-processing of the captured group gives back the field.
-/
import Verif.Proofs.SchemaExts

namespace Verif.Proofs.SchemaG
open Verif Verif.Schema Verif.Rfc4512 Verif.Rfc4515

theorem follow_end (W : List Str) (h : [41] ∈ W) (n : Nat) : Follow W (wspT n ++ [41]) :=
  ⟨n, [41], [], h, by simp, fun _ => rfl⟩

/-! ### what each part starts with -/

theorem names_lead {l : List Str} {t : Str} (h : NamesPart l t) : t = [] ∨ Lead [ofString "NAME"] t := by
  rcases h with ⟨_, rfl⟩ | ⟨a, b, body, _, rfl⟩
  · exact Or.inl rfl
  · exact Or.inr ⟨a, _, spT b ++ body, List.mem_singleton.2 rfl, by simp⟩

theorem desc_lead {d : Option Str} {t : Str} (h : DescPart d t) : t = [] ∨ Lead [ofString "DESC"] t := by
  cases d with
  | none => exact Or.inl h
  | some v =>
    obtain ⟨a, b, body, _, rfl⟩ := h
    exact Or.inr ⟨a, _, spT b ++ body, List.mem_singleton.2 rfl, by simp⟩

theorem flag_lead {kw : String} {f : Bool} {t : Str} (h : FlagPart kw f t) : t = [] ∨ Lead [ofString kw] t := by
  cases f with
  | false => exact Or.inl (by simpa [FlagPart] using h)
  | true =>
    obtain ⟨a, rfl⟩ : ∃ a, t = spT a ++ ofString kw := by simpa [FlagPart] using h
    exact Or.inr ⟨a, _, [], List.mem_singleton.2 rfl, by simp⟩

theorem oidsPart_lead {kw : String} {l : List Str} {t : Str} (h : OidsPart kw l t) :
    t = [] ∨ Lead [ofString kw] t := by
  rcases h with ⟨_, rfl⟩ | ⟨_, a, b, body, _, rfl⟩
  · exact Or.inl rfl
  · exact Or.inr ⟨a, _, spT b ++ body, List.mem_singleton.2 rfl, by simp⟩

theorem optOid_lead {kw : String} {o : Option Str} {t : Str} (h : OptOidPart kw o t) :
    t = [] ∨ Lead [ofString kw] t := by
  cases o with
  | none => exact Or.inl h
  | some v =>
    obtain ⟨_, a, b, rfl⟩ := h
    exact Or.inr ⟨a, _, spT b ++ v, List.mem_singleton.2 rfl, by simp⟩

def kindWords : List Str := [ofString "ABSTRACT", ofString "STRUCTURAL", ofString "AUXILIARY"]

theorem kind_lead {k : Nat} {t : Str} (h : KindPart k t) : t = [] ∨ Lead kindWords t := by
  obtain ⟨hk, h | ⟨a, rfl⟩⟩ := h
  · exact Or.inl h.2
  · refine Or.inr ⟨a, ofString (kindName k), [], ?_, by simp⟩
    have : k = 0 ∨ k = 1 ∨ k = 2 := by omega
    rcases this with rfl | rfl | rfl <;> simp [kindWords, kindName]

theorem syntax_lead {s : Option Str} {n : Option Nat} {t : Str} (h : SyntaxPart s n t) :
    t = [] ∨ Lead [ofString "SYNTAX"] t := by
  cases s with
  | none => exact Or.inl h.2
  | some v =>
    obtain ⟨_, a, b, q, rfl⟩ := h
    exact Or.inr ⟨a, _, _, List.mem_singleton.2 rfl, by simp only [List.append_assoc]; rfl⟩

theorem usage_lead {u : Nat} {t : Str} (h : UsagePart u t) : t = [] ∨ Lead [ofString "USAGE"] t := by
  obtain ⟨_, h | ⟨a, b, rfl⟩⟩ := h
  · exact Or.inl h.2
  · exact Or.inr ⟨a, _, spT b ++ ofString (usageName u), List.mem_singleton.2 rfl, by simp⟩

/-! ### steps -/

theorem names_step {l : List Str} {tn : Str} (h : NamesPart l tn) {W : List Str} {R : Str}
    (hF : Follow W R) (hW : okW (ofString "NAME") W = true) :
    ∃ g, optKw "NAME" (itemOrList qdescr) (tn ++ R) = (g, R) ∧ parseNames g = l := by
  rcases h with ⟨rfl, rfl⟩ | ⟨a, b, body, hb, rfl⟩
  · exact ⟨none, optKw_absent _ _ hF hW, rfl⟩
  · exact ⟨some body, optKw_present "NAME" _ a b (by decide) (itemOrList_nsp qdescr_spec hb)
      (itemOrList_scan qdescr_spec hb R), parseNames_items hb⟩

theorem desc_step {d : Option Str} {td : Str} (h : DescPart d td) {W : List Str} {R : Str}
    (hF : Follow W R) (hW : okW (ofString "DESC") W = true) :
    ∃ g, optKw "DESC" qdstring (td ++ R) = (g, R) ∧ g.map parseQd = d := by
  cases d with
  | none =>
    have : td = [] := h
    subst this
    exact ⟨none, optKw_absent _ _ hF hW, rfl⟩
  | some v =>
    obtain ⟨a, b, body, hb, rfl⟩ := h
    exact ⟨some body, optKw_present "DESC" _ a b (by decide) (qdString_nsp hb) (qdstring_scan hb R),
      by rw [Option.map_some, parseQd_qdString hb]⟩

theorem flag_step {kw : String} {f : Bool} {t : Str} (h : FlagPart kw f t) {W : List Str} {R : Str}
    (hF : Follow W R) (hk : hdNSp (ofString kw) = true) (hW : okW (ofString kw) W = true) :
    optFlag kw (t ++ R) = (f, R) := by
  cases f with
  | false =>
    have : t = [] := by simpa [FlagPart] using h
    subst this
    exact optFlag_absent _ hF hW
  | true =>
    obtain ⟨a, rfl⟩ : ∃ a, t = spT a ++ ofString kw := by simpa [FlagPart] using h
    exact optFlag_present kw a R hk

theorem oids_step {kw : String} {l : List Str} {t : Str} (h : OidsPart kw l t) {W : List Str} {R : Str}
    (hF : Follow W R) (hk : hdNSp (ofString kw) = true) (hW : okW (ofString kw) W = true) :
    ∃ g, optKw kw oids (t ++ R) = (g, R) ∧ parseOids g = l := by
  rcases h with ⟨rfl, rfl⟩ | ⟨_, a, b, body, hb, rfl⟩
  · exact ⟨none, optKw_absent _ _ hF hW, rfl⟩
  · exact ⟨some body, optKw_present kw _ a b hk (oids_nsp hb) (oids_scan hb (delim_stop_oid (follow_delim hF))),
      parseOids_oids hb⟩

theorem optOid_step {kw : String} {o : Option Str} {t : Str} (h : OptOidPart kw o t) {W : List Str} {R : Str}
    (hF : Follow W R) (hk : hdNSp (ofString kw) = true) (hW : okW (ofString kw) W = true) :
    optKw kw oid (t ++ R) = (o, R) := by
  cases o with
  | none =>
    have : t = [] := h
    subst this
    exact optKw_absent _ _ hF hW
  | some v =>
    obtain ⟨hv, a, b, rfl⟩ := h
    exact optKw_present kw _ a b hk (oid_nsp hv) (oid_scan hv (delim_stop_oid (follow_delim hF)))

theorem kind_step {k : Nat} {t : Str} (h : KindPart k t) {W : List Str} {R : Str}
    (hF : Follow W R) (hN : W.all hdNSp = true)
    (hW : (["ABSTRACT", "STRUCTURAL", "AUXILIARY"].all fun a => okW (ofString a) W) = true) :
    ∃ g, optWord ["ABSTRACT", "STRUCTURAL", "AUXILIARY"] (t ++ R) = (g, R) ∧
      (if g = some (ofString "ABSTRACT") then 0 else if g = some (ofString "AUXILIARY") then 2 else 1) = k := by
  obtain ⟨hk, ⟨rfl, rfl⟩ | ⟨a, rfl⟩⟩ := h
  · exact ⟨none, optWord_absent _ hF hN hW, by simp⟩
  · have : k = 0 ∨ k = 1 ∨ k = 2 := by omega
    rcases this with rfl | rfl | rfl
    · exact ⟨_, optWord_present [] "ABSTRACT" _ a R (by decide) (by decide), by simp⟩
    · exact ⟨_, optWord_present ["ABSTRACT"] "STRUCTURAL" _ a R (by decide) (by decide), by decide⟩
    · exact ⟨_, optWord_present ["ABSTRACT", "STRUCTURAL"] "AUXILIARY" _ a R (by decide) (by decide), by decide⟩

theorem tail_step {es : List (Str × List Str)} {te : Str} (h : ExtsEnc es te) (hd : KeysDistinct es) (w : Nat) :
    ∃ extT, Schema.tail (te ++ (wspT w ++ [41])) = some extT ∧ parseExts extT = some es :=
  ⟨te, tail_scan h w, parseExts_exts h hd⟩

theorem head_step {x : Str} (h : IsNumericOidText x) (w : Nat) {W : List Str} {R : Str} (hF : Follow W R) :
    Schema.head ([40] ++ (wspT w ++ (x ++ R))) = some (x, R) := by
  obtain ⟨c, r, rfl, hc⟩ := numericoid_head h
  have hn : NSp (c :: r ++ R) := nsp_cons (by
    intro h32; subst h32; exact absurd hc (by decide))
  rw [List.singleton_append, Schema.head, if_pos (show (40 : Nat) = LP from rfl)]
  simp only [wsp_wspT_nsp w hn, numericoid_scan h (delim_stop_oid (follow_delim hF)), consumed_append]

end Verif.Proofs.SchemaG
