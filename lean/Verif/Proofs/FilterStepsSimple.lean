/-
C18 (continued) — the step-counting filter parser, part 2b: one call of `_unpack_simple_filter`.
A successful call consumes exactly `eq + 1 + valueLen` bytes (`simpleBody_read`) and every scan,
copy, split and pattern match it makes is on those bytes, so its steps are within the budget of
the bytes it consumed (`SimB`, with 3 steps to spare for the caller); a failing call is within the
budget of its slice.
-/
import Verif.Proofs.FilterStepsBase
namespace Verif.Proofs.FilterSteps
open Verif Verif.FilterSteps
open Verif.Proofs.FilterTotal (simpleBody valueLen unpackSimple_eq indexOf_lt valueLen_le)

def ReadIs (X : Nat) : R → Prop
  | .ok (_, m) => m = X
  | .error _ => True

/-- a successful simple filter consumed exactly `eq + 1 + valueLen` bytes -/
theorem simpleBody_read (cur : Bytes) (off eq ft vl : Nat) (raw : Bytes) :
    ReadIs (eq + 1 + vl) (simpleBody cur off eq ft vl raw) := by
  unfold simpleBody
  simp only
  generalize unescape (raw.length + 1) raw = rv
  generalize substringsValue raw = rs
  generalize extHeader _ = rh
  rcases rv with _ | v <;> rcases rs with _ | ⟨i, any, f⟩ <;> rcases rh with _ | ⟨a, d, ru⟩ <;>
    (simp only [apply_ite (ReadIs (eq + 1 + vl))]; simp only [ReadIs, ite_self])


theorem simpleBodyS_snd (K : Nat) (cur : Bytes) (off eq ft vl : Nat) (tail raw : Bytes)
    (hlt : eq < cur.length) (hraw : raw.length = vl)
    (hscan : scanCost cRParen tail ≤ vl + 1) :
    (simpleBodyS K cur off eq ft vl tail raw).2 + eq + 5 ≤ W K (eq + 1 + vl) := by
  unfold simpleBodyS
  have hv := valueS_snd_le raw
  have hs := substringsValueS_snd_le raw
  have hstar := scanCost_le cStar raw
  rw [hraw] at hv hs hstar
  have kA : K * sq (eq + 1) ≤ K * sq (eq + 1 + vl) := Ksq_mono K (by omega)
  have kB : K * sq (eq - 1 + 1) ≤ K * sq (eq + 1 + vl) := Ksq_mono K (by omega)
  generalize valueS raw = pv at hv
  generalize substringsValueS raw = ps at hs
  obtain ⟨rv, u⟩ := pv
  obtain ⟨rs, t⟩ := ps
  simp only at hv hs
  simp only [reCharge_eq, W]
  by_cases ht : (ft = cColon ∨ ft = cGt ∨ ft = cLt ∨ ft = cTilde)
  · simp only [ht, true_and, if_true, true_or]
    have hx := extHeaderS_snd_le K (List.take (eq - 1) cur)
    have hlen : (List.take (eq - 1) cur).length = eq - 1 := by rw [List.length_take]; omega
    rw [hlen] at hx
    generalize extHeaderS K (List.take (eq - 1) cur) = ph at hx
    obtain ⟨rh, h⟩ := ph
    simp only at hx
    rcases rv with _ | v <;> rcases rh with _ | ⟨a, d, ru⟩ <;>
      simp only [apply_ite Prod.snd, tick_snd, ret_snd] <;>
      (repeat' split) <;> omega
  · simp only [ht, false_and, if_false, false_or]
    rcases rv with _ | v <;> rcases rs with _ | ⟨i, any, f⟩ <;>
      simp only [apply_ite Prod.snd, tick_snd, ret_snd] <;>
      (repeat' split) <;> omega

/-! ### contracts -/

/-- `_unpack_simple_filter` on a slice of `len` bytes -/
def SimB (K len : Nat) : R × Nat → Prop
  | (.ok (_, m), c) => c + 3 ≤ W K m ∧ m ≤ len
  | (.error _, c) => c + 3 ≤ W K (len + 1)

theorem scanCost_of_index {c : Nat} {bs : Bytes} {i : Nat} (h : indexOf c bs = some i) :
    scanCost c bs = i + 1 := by
  unfold scanCost; rw [h]

theorem scan_valueLen (tail : Bytes) : scanCost cRParen tail ≤ valueLen tail + 1 := by
  unfold scanCost valueLen
  cases indexOf cRParen tail <;> simp

theorem unpackSimpleS_bound (K : Nat) (cur : Bytes) (off : Nat) :
    SimB K cur.length (unpackSimpleS K cur off) := by
  have hfst := unpackSimpleS_fst K cur off
  have hsnd : (unpackSimpleS K cur off).2 = (unpackSimpleS K cur off).2 := rfl
  rw [unpackSimple_eq] at hfst
  conv at hsnd => rhs; rw [unpackSimpleS_eq, tick_snd]
  generalize unpackSimpleS K cur off = p at hfst hsnd
  obtain ⟨r, c⟩ := p
  simp only at hfst hsnd
  subst hfst hsnd
  have hL := W_lin K (cur.length + 1)
  cases hidx : indexOf cEq cur with
  | none =>
    have := scanCost_le cEq cur
    simp only [SimB, ret_snd]; omega
  | some eq =>
    have hlt := indexOf_lt hidx
    have hsc := scanCost_of_index hidx
    cases eq with
    | zero => simp only [SimB, ret_snd]; omega
    | succ e =>
      simp only
      have hvl := valueLen_le (cur.drop (e + 1 + 1))
      rw [List.length_drop] at hvl
      have hraw : ((cur.drop (e + 1 + 1)).take (valueLen (cur.drop (e + 1 + 1)))).length
          = valueLen (cur.drop (e + 1 + 1)) := by
        rw [List.length_take, List.length_drop]; omega
      have hb := simpleBodyS_snd K cur off (e + 1) (cur.getD (e + 1 - 1) 0) _ _ _ hlt hraw
        (scan_valueLen _)
      have hr := simpleBody_read cur off (e + 1) (cur.getD (e + 1 - 1) 0) (valueLen (cur.drop (e + 1 + 1)))
        ((cur.drop (e + 1 + 1)).take (valueLen (cur.drop (e + 1 + 1))))
      generalize simpleBody cur off (e + 1) _ _ _ = res at hr
      generalize (simpleBodyS K cur off (e + 1) _ _ _ _).2 = c at hb
      generalize valueLen (cur.drop (e + 1 + 1)) = vl at *
      have hm := W_mono K (show e + 1 + 1 + vl ≤ cur.length + 1 by omega)
      match res, hr with
      | .ok (f, m), hr =>
        simp only [ReadIs] at hr
        subst hr
        simp only [SimB]; omega
      | .error _, _ => simp only [SimB]; omega
end Verif.Proofs.FilterSteps
