/-
Bridge, part 2: the ghost observations of a server do not depend on `counter`; sessions reachable from the
abstraction of a fresh generated session (`GenReachable`) are exactly the `Reachable` ones, up to the counter
field of a server (which is 0 instead of 1); transfer principles.
-/
import Verif.Proofs.SessionGenBridge

namespace Verif.Proofs.SessionGenBridge

open Verif Verif.PyRtS Verif.SessionGen Verif.Proofs.SessionGen

/-! ### ghost observations of a server -/

theorem server_clientReq_outcome (s : Sess) (hr : s.role = .server) :
    (∀ dn cred cs, (step s (.bind dn cred cs)).2 = .notApplicable) ∧
    (∀ b sc dr sl tl ty f at' cs, (step s (.search b sc dr sl tl ty f at' cs)).2 = .notApplicable) ∧
    (∀ n v cs, (step s (.extended n v cs)).2 = .notApplicable) := by
  have hne : s.role ≠ .client := by rw [hr]; decide
  refine ⟨?_, ?_, ?_⟩ <;> intros <;> simp [step, hne]

theorem events_counter (k : Int) (s : Sess) (c : Call) (hr : s.role = .server) :
    events (setCounter k s) c (step s c).2 = events s c (step s c).2 := by
  obtain ⟨h1, h2, h3⟩ := server_clientReq_outcome s hr
  cases c with
  | bind dn cred cs => rw [h1]; rfl
  | search b sc dr sl tl ty f at' cs => rw [h2]; rfl
  | extended n v cs => rw [h3]; rfl
  | receive chunk => generalize (step s (.receive chunk)).2 = o; cases o <;> rfl
  | _ => rfl

theorem sentOf_counter (k : Int) (s : Sess) (c : Call) (hr : s.role = .server) :
    sentOf (setCounter k s) c (step s c).2 = sentOf s c (step s c).2 := by
  obtain ⟨h1, h2, h3⟩ := server_clientReq_outcome s hr
  cases c with
  | bind dn cred cs => rw [h1]; rfl
  | search b sc dr sl tl ty f at' cs => rw [h2]; rfl
  | extended n v cs => rw [h3]; rfl
  | _ => rfl

theorem historyEvents_counter (k : Int) (cs : List Call) : ∀ s : Sess, s.role = .server →
    historyEvents (setCounter k s) cs = historyEvents s cs := by
  induction cs with
  | nil => intro s _; rfl
  | cons c cs ih =>
    intro s hr
    simp only [historyEvents]
    rw [step_counter k s c hr]
    simp only []
    rw [events_counter k s c hr, ih (step s c).1 ((step_role s c).trans hr)]

theorem totals_counter (k : Int) (cs : List Call) : ∀ s : Sess, s.role = .server →
    totals (setCounter k s) cs = totals s cs := by
  induction cs with
  | nil => intro s _; rfl
  | cons c cs ih =>
    intro s hr
    simp only [totals]
    rw [step_counter k s c hr]
    simp only []
    rw [sentOf_counter k s c hr, ih (step s c).1 ((step_role s c).trans hr)]

/-! ### fresh sessions -/

/-- the `register_*` calls that produce `regs` -/
def regCalls (regs : Regs) : List Call :=
  (if regs.control then [Call.register .control] else []) ++
  (if regs.filter then [Call.register .filter] else []) ++
  (if regs.auth then [Call.register .auth] else [])

theorem run_regCalls (r : Role) (regs : Regs) :
    run (Sess.init r) (regCalls regs) = ({ Sess.init r with regs := regs }, (regCalls regs).map (fun _ => Outcome.unit)) := by
  obtain ⟨c, f, a⟩ := regs
  cases c <;> cases f <;> cases a <;> rfl

/-- a fresh model session on which any custom types have been registered is `Reachable` -/
theorem init_regs_reachable (r : Role) (regs : Regs) : Reachable { Sess.init r with regs := regs } := by
  have h := run_reachable (regCalls regs) _ (Reachable.init r)
  rw [run_regCalls] at h
  exact h

/-- a fresh `LDAPClient` IS the model's initial client (with its registered types) -/
theorem fresh_client (regs : Regs) : absS .client regs LDAPClient_new = { Sess.init .client with regs := regs } := rfl

theorem fresh_client_init : absS .client {} LDAPClient_new = Sess.init .client := rfl

/-- a fresh `LDAPServer` is the model's initial server except for `counter` (0, the model has 1) -/
theorem fresh_server (regs : Regs) :
    absS .server regs LDAPServer_new = setCounter 0 { Sess.init .server with regs := regs } := rfl

theorem fresh_server_ne (regs : Regs) : absS .server regs LDAPServer_new ≠ { Sess.init .server with regs := regs } := by
  intro h
  have h' : (0 : Int) = 1 := congrArg Sess.counter h
  exact absurd h' (by decide)

theorem fresh_client_reachable (regs : Regs) : Reachable (absS .client regs LDAPClient_new) :=
  init_regs_reachable .client regs

/-! ### item 2: whole histories from a fresh session -/

/-- every history from a fresh `LDAPServer`: the same outcomes as from the model's initial server, and the
    same final session except for `counter` -/
theorem run_fresh_server (regs : Regs) (cs : List Call) :
    run (absS .server regs LDAPServer_new) cs
      = (setCounter 0 (run { Sess.init .server with regs := regs } cs).1,
         (run { Sess.init .server with regs := regs } cs).2) := by
  rw [fresh_server]
  exact run_counter 0 cs _ rfl

theorem run_fresh_client (regs : Regs) (cs : List Call) :
    run (absS .client regs LDAPClient_new) cs = run { Sess.init .client with regs := regs } cs := rfl

/-! ### sessions reachable from a fresh generated session -/

/-- model sessions reachable from the abstraction of `LDAPClient()` / `LDAPServer()` (any registered types) -/
inductive GenReachable : Sess → Prop where
  | client (regs : Regs) : GenReachable (absS .client regs LDAPClient_new)
  | server (regs : Regs) : GenReachable (absS .server regs LDAPServer_new)
  | step (s : Sess) (c : Call) : GenReachable s → GenReachable (step s c).1

/-- the bridge: a `GenReachable` client is `Reachable`; a `GenReachable` server is a `Reachable` server with
    its counter overwritten by 0 -/
theorem genReachable_bridge {s : Sess} (h : GenReachable s) :
    (s.role = .client ∧ Reachable s) ∨ (s.role = .server ∧ ∃ s', Reachable s' ∧ s = setCounter 0 s') := by
  induction h with
  | client regs => exact .inl ⟨rfl, fresh_client_reachable regs⟩
  | server regs => exact .inr ⟨rfl, _, init_regs_reachable .server regs, fresh_server regs⟩
  | step s c _ ih =>
    rcases ih with ⟨hr, h⟩ | ⟨hr, s', h, e⟩
    · exact .inl ⟨(step_role s c).trans hr, Reachable.step s c h⟩
    · refine .inr ⟨(step_role s c).trans hr, (Verif.step s' c).1, Reachable.step s' c h, ?_⟩
      have hr' : s'.role = .server := by rw [e] at hr; exact hr
      rw [e, step_counter 0 s' c hr']

/-- and conversely -/
theorem reachable_genReachable {s : Sess} (h : Reachable s) :
    GenReachable (match s.role with | .client => s | .server => setCounter 0 s) := by
  induction h with
  | init r => cases r; exact GenReachable.client {}; exact GenReachable.server {}
  | step s c _ ih =>
    rw [step_role]
    cases hr : s.role with
    | client => rw [hr] at ih; exact GenReachable.step s c ih
    | server =>
      rw [hr] at ih
      have := GenReachable.step _ c ih
      rw [step_counter 0 s c hr] at this
      exact this

theorem GenReachable.of_client {s : Sess} (h : GenReachable s) (hr : s.role = .client) : Reachable s := by
  rcases genReachable_bridge h with ⟨_, h⟩ | ⟨hr', _⟩
  · exact h
  · rw [hr] at hr'; cases hr'

theorem GenReachable.of_server {s : Sess} (h : GenReachable s) (hr : s.role = .server) :
    ∃ s', Reachable s' ∧ s'.role = .server ∧ s = setCounter 0 s' := by
  rcases genReachable_bridge h with ⟨hr', _⟩ | ⟨_, s', h, e⟩
  · rw [hr] at hr'; cases hr'
  · exact ⟨s', h, by rw [e] at hr; exact hr, e⟩

/-! ### item 3: transfer principles -/

/-- STATE form: a predicate on sessions that does not look at the counter of a server and holds of every
    `Reachable` session holds of every session reachable from a fresh generated session -/
theorem transfer_state (P : Sess → Prop)
    (hP : ∀ (s : Sess) (k : Int), s.role = .server → P s → P (setCounter k s))
    (hall : ∀ s, Reachable s → P s) {s : Sess} (h : GenReachable s) : P s := by
  rcases genReachable_bridge h with ⟨_, h⟩ | ⟨hr, s', h, e⟩
  · exact hall s h
  · rw [e]; exact hP s' 0 (by rw [e] at hr; exact hr) (hall s' h)

/-- RUN form: a predicate on (the session a history ends in, the outcomes of its calls) that does not look at
    the counter of a server and holds of the runs from every `Reachable` session holds of the runs from every
    session reachable from a fresh generated session -/
theorem transfer_run (Q : Sess → List Outcome → Prop)
    (hQ : ∀ (s : Sess) (k : Int) (os : List Outcome), s.role = .server → Q s os → Q (setCounter k s) os)
    (hall : ∀ s cs, Reachable s → Q (run s cs).1 (run s cs).2)
    {s : Sess} (h : GenReachable s) (cs : List Call) : Q (run s cs).1 (run s cs).2 := by
  rcases genReachable_bridge h with ⟨_, h⟩ | ⟨hr, s', h, e⟩
  · exact hall s cs h
  · have hr' : s'.role = .server := by rw [e] at hr; exact hr
    rw [e, run_counter 0 cs s' hr']
    exact hQ _ 0 _ ((run_role cs s').trans hr') (hall s' cs h)

/-- STEP form, with the events of the call -/
theorem transfer_step (Q : SState → SState → List Ev → Outcome → Prop)
    (hall : ∀ s c, Reachable s → Q s.state (step s c).1.state (events s c (step s c).2) (step s c).2)
    {s : Sess} (h : GenReachable s) (c : Call) :
    Q s.state (step s c).1.state (events s c (step s c).2) (step s c).2 := by
  rcases genReachable_bridge h with ⟨_, h⟩ | ⟨hr, s', h, e⟩
  · exact hall s c h
  · have hr' : s'.role = .server := by rw [e] at hr; exact hr
    have := hall s' c h
    rw [e, step_counter 0 s' c hr', events_counter 0 s' c hr']
    exact this

end Verif.Proofs.SessionGenBridge
