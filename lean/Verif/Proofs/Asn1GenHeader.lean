/-
Tie proof for `_read_asn1_header`: the generated definition (`Verif.Asn1Gen.read_asn1_header`)
against the hand model `Verif.readHeader`, on Python `bytes`.  Core Lean only.
-/
import Verif.Generated.Asn1Gen
import Verif.Proofs.Asn1GenConv
namespace Verif.Proofs.Asn1Gen
open Verif Verif.PyRt Verif.Asn1Gen

/-! ### the long-form length loop -/

theorem hdr_pow2_8 (j : Nat) : 2 ^ (8 * j) = 256 ^ j := by
  rw [Nat.pow_mul]

/-- the `for idx in range(1, length_octets)` loop: `n` iterations left, `idx + n = length_octets` -/
theorem header_for1 (view : List Nat) (L : Nat) : ∀ (n idx acc : Nat), idx + n = L →
    idx ≤ view.length →
    read_asn1_header_for1 view (L : Int) n (idx : Int) (acc : Int)
      = if view.length < idx + n then .error .notEnough
        else .ok ((acc + beNat ((view.drop idx).take n) : Nat) : Int) := by
  intro n; induction n with
  | zero =>
    intro idx acc hL hi
    rw [read_asn1_header_for1]
    simp [beNat, hi]
  | succ n ih =>
    intro idx acc hL hi
    rw [read_asn1_header_for1]
    by_cases hlt : view.length < idx + 1
    · have h1 : len view < (idx : Int) + 1 := by simp only [len]; omega
      have h2 : view.length < idx + (n + 1) := by omega
      simp only [h1, h2, ↓reduceIte]
    · have h1 : ¬ (len view < (idx : Int) + 1) := by simp only [len]; omega
      obtain ⟨b, rest, hd⟩ : ∃ b rest, view.drop idx = b :: rest := by
        cases hv : view.drop idx with
        | nil =>
          have := congrArg List.length hv
          simp at this; omega
        | cons b rest => exact ⟨b, rest, rfl⟩
      have hd' : view.drop (idx + 1) = rest := by
        have := congrArg (List.drop 1) hd
        simpa [List.drop_drop, Nat.add_comm] using this
      have hrl : rest.length = view.length - (idx + 1) := by
        rw [← hd']; simp
      have he : (8 : Int) * (((L : Int) - 1) - (idx : Int)) = ((8 * n : Nat) : Int) := by omega
      simp only [h1, ↓reduceIte, slice_one, hd, List.take_succ_cons, List.take_zero, unpackB_single,
        bind_ok, he, pyShlE_nat, hdr_pow2_8]
      rw [show ((idx : Int) + 1) = ((idx + 1 : Nat) : Int) by omega,
          show ((acc : Nat) : Int) + ((b * 256 ^ n : Nat) : Int) = ((acc + b * 256 ^ n : Nat) : Int) by omega,
          ih (idx + 1) (acc + b * 256 ^ n) (by omega) (by omega), hd']
      by_cases h2 : view.length < idx + (n + 1)
      · have h3 : view.length < idx + 1 + n := by omega
        simp only [h2, h3, ↓reduceIte]
      · have h3 : ¬ (view.length < idx + 1 + n) := by omega
        simp only [h2, h3, ↓reduceIte, beNat]
        have hl : (rest.take n).length = n := by
          rw [List.length_take, hrl]; omega
        rw [hl, Nat.add_assoc]

/-! ### the statements after the identifier octets -/

/-- `_read_asn1_header` from `if not view: raise NotEnougData` (second occurrence) to the end,
    verbatim from the generated text -/
def lenPart (tag_class tag_number : Int) (constructed : Bool) (tag_octets : Int) (view : List Nat) :
    Except Err ASN1Header :=
  if ¬ (view ≠ []) then
    Except.error Err.notEnough
  else
    do
      let length ← unpackB (sliceTo view 1)
      let length_octets : Int := 1
      if length = 128 then
        Except.error Err.valueError
      else
        do
          let (length_octets, length) ← (if pyAnd length 128 ≠ 0 then
              do
                let length_octets : Int := length_octets + (pyAnd length 127)
                let length : Int := 0
                let length ← read_asn1_header_for1 view length_octets (rangeLen 1 length_octets) 1 length
                Except.ok (length_octets, length)
            else
              Except.ok (length_octets, length))
          Except.ok ({ tag := ({ tag_class := tag_class, tag_number := tag_number, is_constructed := constructed } : ASN1Tag), tag_length := tag_octets + length_octets, length := length } : ASN1Header)

theorem lenPart_eq (t : Tag) (k : Nat) (view : List Nat) (hb : IsBytes view) :
    lenPart (t.cls : Int) (t.num : Int) t.cons (k : Int) view
      = (Verif.Proofs.readLen t k view).map ofHeader := by
  cases view with
  | nil => simp [lenPart, Verif.Proofs.readLen, Except.map]
  | cons l lrest =>
    have hl : l < 256 := hb l (by simp)
    simp only [lenPart, Verif.Proofs.readLen, sliceTo_one, List.take_succ_cons, List.take_zero,
      unpackB_single, bind_ok, ne_eq, reduceCtorEq, not_false_eq_true, not_true_eq_false, ↓reduceIte,
      pyAnd_128_byte l hl, pyAnd_127]
    by_cases h128 : l = 128
    · subst h128; simp [Except.map]
    · have h1 : ¬ ((l : Int) = 128) := by omega
      simp only [h1, h128, ↓reduceIte]
      by_cases hlong : 128 < l
      · have h2 : 128 ≤ l := by omega
        have hk : l % 128 = l - 128 := by omega
        have e1 : (1 : Int) + ((l % 128 : Nat) : Int) = ((1 + (l - 128) : Nat) : Int) := by omega
        have e2 : rangeLen 1 ((1 + (l - 128) : Nat) : Int) = l - 128 := by
          simp only [rangeLen]; omega
        have hloop : read_asn1_header_for1 (l :: lrest) ((1 + (l - 128) : Nat) : Int) (l - 128) 1 0
            = if lrest.length < l - 128 then .error .notEnough
              else .ok ((beVal 256 (lrest.take (l - 128)) 0 : Nat) : Int) := by
          have := header_for1 (l :: lrest) (1 + (l - 128)) (l - 128) 1 0 rfl (by simp)
          rw [Verif.Proofs.beVal_eq_beNat]
          by_cases hs : lrest.length < l - 128
          · have hs' : (l :: lrest).length < 1 + (l - 128) := by simp only [List.length_cons]; omega
            rw [if_pos hs'] at this; rw [if_pos hs]; exact this
          · have hs' : ¬ ((l :: lrest).length < 1 + (l - 128)) := by simp only [List.length_cons]; omega
            rw [if_neg hs'] at this; rw [if_neg hs]
            simpa using this
        have hne : ¬ ((128 : Int) = 0) := by omega
        simp only [h2, hlong, ↓reduceIte, e1, e2, hloop, hne, not_false_eq_true]
        by_cases hs : lrest.length < l - 128
        · simp only [hs, ↓reduceIte, bind_error, Except.map]
        · simp only [hs, ↓reduceIte, bind_ok, Except.map, ofHeader, ofTag]
          rw [show (k : Int) + ((1 + (l - 128) : Nat) : Int) = ((k + 1 + (l - 128) : Nat) : Int) by omega]
      · have h2 : ¬ (128 ≤ l) := by omega
        simp only [h2, hlong, ↓reduceIte, Except.map, ofHeader, ofTag, not_true_eq_false, bind_ok]
        rw [Int.natCast_add]; rfl

/-! ### the statements after the tag number is known -/

/-- `_read_asn1_header` from `if tag_class == TagClass.UNIVERSAL:` to the end -/
def afterTag (data : List Nat) (tag_class : Int) (constructed : Bool) (tag_number tag_octets : Int) :
    Except Err ASN1Header := do
  let tag_number ← (if tag_class = 0 then
      do
        let tag_number ← enumOf TypeTagNumber_members tag_number
        Except.ok tag_number
    else
      Except.ok tag_number)
  let view : List Nat := sliceFrom data tag_octets
  lenPart tag_class tag_number constructed tag_octets view

theorem typeTagNumber_mem (num : Nat) : ((num : Int) ∈ TypeTagNumber_members) ↔ num ≤ 36 := by
  simp only [TypeTagNumber_members, List.mem_cons, List.not_mem_nil, or_false]
  omega

theorem hdr_isBytes_drop {bs : List Nat} (hb : IsBytes bs) (k : Nat) : IsBytes (bs.drop k) :=
  fun b h => hb b (List.mem_of_mem_drop h)

theorem afterTag_eq (bs : List Nat) (hb : IsBytes bs) (cls num cnt : Nat) (cons : Bool) :
    afterTag bs (cls : Int) cons (num : Int) (1 + (cnt : Int))
      = (if cls = 0 ∧ num > 36 then .error .valueError
         else Verif.Proofs.readLen ⟨cls, cons, num⟩ (1 + cnt) (bs.drop (1 + cnt))).map ofHeader := by
  have e1 : (1 : Int) + (cnt : Int) = ((1 + cnt : Nat) : Int) := by omega
  simp only [afterTag, e1, sliceFrom_nat]
  by_cases hc : cls = 0
  · have hc' : (cls : Int) = 0 := by omega
    by_cases hn : num ≤ 36
    · have hcond : ¬ (cls = 0 ∧ num > 36) := by omega
      rw [if_pos hc', enumOf_mem _ _ ((typeTagNumber_mem num).2 hn), if_neg hcond]
      simp only [bind_ok]
      exact lenPart_eq ⟨cls, cons, num⟩ (1 + cnt) _ (hdr_isBytes_drop hb _)
    · have hcond : cls = 0 ∧ num > 36 := by omega
      rw [if_pos hc', enumOf_not_mem _ _ (fun h => hn ((typeTagNumber_mem num).1 h)), if_pos hcond]
      rfl
  · have hc' : ¬ ((cls : Int) = 0) := by omega
    have hcond : ¬ (cls = 0 ∧ num > 36) := by omega
    rw [if_neg hc', if_neg hcond]
    simp only [bind_ok]
    exact lenPart_eq ⟨cls, cons, num⟩ (1 + cnt) _ (hdr_isBytes_drop hb _)

theorem readHeader_cons_readLen (o1 : Nat) (rest : List Nat) :
    readHeader (o1 :: rest)
      = match (if o1 % 32 = 31 then unpackOctetNumber rest 0 0 else .ok (o1 % 32, 0)) with
        | .error e => .error e
        | .ok (num, cnt) =>
          if o1 / 64 = 0 ∧ num > 36 then .error .valueError
          else Verif.Proofs.readLen ⟨o1 / 64, decide (o1 / 32 % 2 = 1), num⟩ (1 + cnt)
                 ((o1 :: rest).drop (1 + cnt)) := by
  rfl

/-! ### the identifier octets -/

theorem read_asn1_header_unfold (fuel : Nat) (data : List Nat) :
    read_asn1_header fuel data =
      (if ¬ (data ≠ []) then
        Except.error Err.notEnough
      else
        do
          let octet1 ← unpackB (sliceTo data 1)
          let tag_class ← enumOf TagClass_members (pyShr (pyAnd octet1 192) 6)
          let constructed : Bool := decide (pyAnd octet1 32 ≠ 0)
          let tag_number : Int := pyAnd octet1 31
          let tag_octets : Int := 1
          let (tag_number, tag_octets) ← (if tag_number = 31 then
              do
                let (tag_number, octet_count) ← unpack_asn1_octet_number fuel (sliceFrom data 1)
                let tag_octets : Int := tag_octets + octet_count
                Except.ok (tag_number, tag_octets)
            else
              Except.ok (tag_number, tag_octets))
          afterTag data tag_class constructed tag_number tag_octets) := by
  rfl

set_option maxRecDepth 8192 in
theorem and192_byte : ∀ m, m < 256 → (m &&& 192) / 2 ^ 6 = m / 64 := by decide

set_option maxRecDepth 8192 in
theorem and32_byte : ∀ m, m < 256 → m &&& 32 = if m / 32 % 2 = 1 then 32 else 0 := by decide

theorem tagClass_byte (o : Nat) (h : o < 256) :
    enumOf TagClass_members (pyShr (pyAnd (o : Int) 192) 6) = .ok ((o / 64 : Nat) : Int) := by
  have e : pyShr (pyAnd (o : Int) 192) 6 = ((o / 64 : Nat) : Int) := by
    show pyShr ((o &&& 192 : Nat) : Int) 6 = _
    rw [pyShr_nat, and192_byte o h]
  rw [e]
  apply enumOf_mem
  have : o / 64 = 0 ∨ o / 64 = 1 ∨ o / 64 = 2 ∨ o / 64 = 3 := by omega
  rcases this with h1 | h1 | h1 | h1
  all_goals (rw [h1]; simp [TagClass_members])

theorem constructed_byte (o : Nat) (h : o < 256) :
    decide (pyAnd (o : Int) 32 ≠ 0) = decide (o / 32 % 2 = 1) := by
  have e : pyAnd (o : Int) 32 = ((o &&& 32 : Nat) : Int) := rfl
  rw [e, and32_byte o h]
  by_cases hc : o / 32 % 2 = 1 <;> simp [hc]

theorem hdr_sliceFrom_one (l : List Nat) : sliceFrom l 1 = l.drop 1 := sliceFrom_nat l 1

/-- `_read_asn1_header` against the hand model `readHeader`, on Python `bytes` -/
theorem read_asn1_header_eq (fuel : Nat) (bs : List Nat) (hb : IsBytes bs) (hf : bs.length < fuel) :
    read_asn1_header fuel bs = (readHeader bs).map ofHeader := by
  cases bs with
  | nil => rfl
  | cons o1 rest =>
    have ho : o1 < 256 := hb o1 (by simp)
    have hrest : IsBytes rest := fun b h => hb b (List.mem_cons_of_mem _ h)
    have hfr : rest.length < fuel := by simp only [List.length_cons] at hf; omega
    rw [readHeader_cons_readLen, read_asn1_header_unfold, if_neg (by simp)]
    simp only [sliceTo_one,
      List.take_succ_cons, List.take_zero, unpackB_single, bind_ok, tagClass_byte o1 ho,
      constructed_byte o1 ho, pyAnd_31, hdr_sliceFrom_one, List.drop_succ_cons, List.drop_zero]
    by_cases h31 : o1 % 32 = 31
    · simp only [h31, ↓reduceIte, unpack_asn1_octet_number_eq fuel rest hrest hfr]
      cases hu : unpackOctetNumber rest 0 0 with
      | error e => rfl
      | ok r =>
        obtain ⟨num, cnt⟩ := r
        simp only [Except.map, castPair, bind_ok]
        exact afterTag_eq (o1 :: rest) hb (o1 / 64) num cnt _
    · have h31' : ¬ (((o1 % 32 : Nat) : Int) = 31) := by omega
      simp only [h31, h31', ↓reduceIte, bind_ok]
      exact afterTag_eq (o1 :: rest) hb (o1 / 64) (o1 % 32) 0 _

end Verif.Proofs.Asn1Gen
