/-
C11, additions (part 1): a joint invariant that survives the client's unbind.

`JInv` (Proofs/Joint.lean) drops the bookkeeping relation `Book` as soon as the client has sent
its unbind.  `JInv2` keeps it: after the unbind the client is frozen (closed), and the server
keeps satisfying `Book` against the client's requests *without* the trailing unbind, for some
frozen client-side data, until the unbind reaches it.
-/
import Verif.Spec.C11More
import Verif.Proofs.Joint

namespace Verif.Proofs.C11More
open Verif Verif.Joint Verif.Proofs Verif.Proofs.JointP
set_option linter.unusedSimpArgs false
set_option linter.unusedVariables false

def ubSig : Sig := (0, .unbind)

/-- the phase after the client's unbind -/
def Phase2 (y : Sys) : Prop :=
  y.c.state = .closed ∧ y.c.outstanding = [] ∧ ∃ RC, y.sentC.map sig = RC ++ [ubSig] ∧
    ((y.s.state = .closed ∧ y.s.outstanding = []) ∨
      ∃ cst cout csr, Book cst cout csr y.c.counter y.s.state y.s.outstanding RC
        (y.gotS.map sig) (y.sentS.map sig) (y.gotC.map sig))

structure JInv2 (depth : Nat) (y : Sys) : Prop where
  base : JInv depth y
  phase : unbindSent y → Phase2 y
  ctr : 1 ≤ y.c.counter
  ids : ∀ m ∈ y.sentC, m.op.isUnbind = false → 1 ≤ m.id

theorem JInv2.init (depth : Nat) : JInv2 depth {} where
  base := JInv.init depth
  phase := by rintro ⟨m, hm, _⟩; cases hm
  ctr := by decide
  ids := by intro m hm; cases hm

theorem JInv2.bookY {depth : Nat} {y : Sys} (h : JInv2 depth y) (hu : ¬unbindSent y) : BookY y :=
  h.base.book.resolve_left hu

/-! ### `processLoop` over an append -/

theorem processLoop_append (ms rest : List Msg) : ∀ s s' : Sess, processLoop s ms = .ok s' →
    processLoop s (ms ++ rest) = processLoop s' rest := by
  induction ms with
  | nil =>
    intro s s' h
    simp only [processLoop, ProcResult.ok.injEq] at h
    subst h; rfl
  | cons m ms ih =>
    intro s s' h
    rw [List.cons_append, processLoop_cons]
    rw [processLoop_cons] at h
    split at h
    · cases h
    · split at h
      · cases h
      · next hn hu =>
        rw [if_neg hn, if_neg hu]
        split at h
        · next hr =>
          split at h
          · cases h
          · cases h
          · next s1 hcp => exact ih s1 s' h
        · next hr =>
          split at h
          · cases h
          · next s1 hsp => exact ih s1 s' h

/-! ### list helpers -/

theorem sig_ub {u : Msg} (h : sig u = ubSig) : u.op.isUnbind = true := by
  simp only [sig, ubSig, Prod.mk.injEq] at h
  rw [h.2]; rfl

theorem map_sig_split {ms : List Msg} {A : List Sig} {x : Sig} (h : ms.map sig = A ++ [x]) :
    ∃ ms' u, ms = ms' ++ [u] ∧ ms'.map sig = A ∧ sig u = x := by
  obtain ⟨l1, l2, h1, h2, h3⟩ := List.map_eq_append_iff.1 h
  match l2, h3 with
  | [u], h3 =>
    simp only [List.map_cons, List.map_nil, List.cons.injEq, and_true] at h3
    exact ⟨l1, u, h1, h2, h3⟩

/-- where the unbind falls when the client's log is cut into handed / delivered now / pending -/
theorem split_ub {RC GS A P : List Sig} (h : RC ++ [ubSig] = GS ++ A ++ P) :
    (∃ P', P = P' ++ [ubSig] ∧ RC = GS ++ A ++ P') ∨
    (P = [] ∧ ∃ A', A = A' ++ [ubSig] ∧ RC = GS ++ A') ∨
    (P = [] ∧ A = [] ∧ GS = RC ++ [ubSig]) := by
  rcases List.eq_nil_or_concat P with rfl | ⟨P', x, rfl⟩
  · rcases List.eq_nil_or_concat A with rfl | ⟨A', x, rfl⟩
    · right; right
      exact ⟨rfl, rfl, by simpa using h.symm⟩
    · right; left
      refine ⟨rfl, A', ?_⟩
      rw [List.append_nil, List.concat_eq_append, ← List.append_assoc] at h
      obtain ⟨h1, h2⟩ := List.append_inj' h rfl
      simp only [List.cons.injEq, and_true] at h2
      subst h2
      exact ⟨by simp, h1⟩
  · left
    rw [List.concat_eq_append, ← List.append_assoc] at h
    obtain ⟨h1, h2⟩ := List.append_inj' h rfl
    simp only [List.cons.injEq, and_true] at h2
    subst h2
    exact ⟨P', by simp, h1⟩

theorem book_no_ub {cst : SState} {cout csr : List Int} {ctr : Int} {sst : SState} {sout : List Int}
    {RC GS RS GC : List Sig} (B : Book cst cout csr ctr sst sout RC GS RS GC) :
    GS ≠ RC ++ [ubSig] := by
  intro h
  obtain ⟨p, hp⟩ := B.preS
  have := congrArg List.length h
  rw [hp] at this
  simp only [List.length_append, List.length_cons, List.length_nil] at this
  omega

/-! ### the unbind is not sent by any other step -/

theorem unbindSent_of_step {depth : Nat} {y : Sys} (st : JStep) (hne : st ≠ .callC .unbind)
    (ha : Admissible depth y st)
    (h : unbindSent (jstep depth y st).1) : unbindSent y := by
  cases st with
  | callC c =>
    obtain ⟨hshape, hacc, _⟩ := ha
    rw [jstep_callC] at h
    have h' := unbindSent_append.1 h
    rcases h' with h' | ⟨m, hm, hu⟩
    · exact h'
    · exfalso
      have hc : isClientReq c = true := by
        cases c <;> simp [isClientReq] at hshape hne ⊢
      have hsend := isSend_of_clientReq hc
      obtain ⟨m', hm', hsm, _⟩ := step_send_accepted y.c c hsend hacc
      rw [hsm, List.mem_singleton] at hm
      subst hm
      have := (clientReq_facts y.c c m hc hm').1
      rw [isReq3_not_unbind this] at hu
      cases hu
  | callS c => simpa [jstep_callS, unbindSent] using h
  | flushC a => simpa [jstep_flushC, unbindSent] using h
  | flushS a => simpa [jstep_flushS, unbindSent] using h
  | deliverS k => simpa [jstep_deliverS, unbindSent] using h
  | deliverC k => simpa [jstep_deliverC, unbindSent] using h

/-! ### message ids are positive -/

theorem ids_step {depth : Nat} {y : Sys} (h : JInv2 depth y) (st : JStep) (ha : Admissible depth y st) :
    1 ≤ (jstep depth y st).1.c.counter ∧
      ∀ m ∈ (jstep depth y st).1.sentC, m.op.isUnbind = false → 1 ≤ m.id := by
  cases st with
  | callC c =>
    obtain ⟨hshape, hacc, _⟩ := ha
    rw [jstep_callC]
    have hkind : c = .unbind ∨ isClientReq c = true := by
      cases c <;> simp [isClientReq] at hshape ⊢
    rcases hkind with rfl | hc
    · rcases step_unbind y.c with ⟨h1, _⟩ | ⟨h1, _⟩
      · rw [h1] at hacc; cases hacc
      · rw [h1]
        refine ⟨h.ctr, ?_⟩
        intro m hm hnu
        simp only [sentMsg, Call.isSend, Outcome.accepted, msgOf, and_self, if_true,
          List.mem_append, List.mem_singleton] at hm
        rcases hm with hm | rfl
        · exact h.ids m hm hnu
        · cases hnu
    · obtain ⟨m, hm, hid, hcase⟩ := step_clientReq y.c c hc h.base.cRole
      rcases hcase with ⟨hst, _⟩ | ⟨_, _, _, hst⟩
      · rw [hst] at hacc; cases hacc
      · have hsend := isSend_of_clientReq hc
        obtain ⟨m', hm', hsm, _⟩ := step_send_accepted y.c c hsend hacc
        rw [hm] at hm'; cases hm'
        rw [hsm, hst]
        have := h.ctr
        refine ⟨by simp only; omega, ?_⟩
        intro x hx hnu
        rcases List.mem_append.1 hx with hx | hx
        · exact h.ids x hx hnu
        · rw [List.mem_singleton] at hx; subst hx; rw [hid]; exact h.ctr
  | callS c => rw [jstep_callS]; exact ⟨h.ctr, h.ids⟩
  | flushC a =>
    obtain ⟨n, hn⟩ := step_drain y.c a
    rw [jstep_flushC, hn]; exact ⟨h.ctr, h.ids⟩
  | flushS a => rw [jstep_flushS]; exact ⟨h.ctr, h.ids⟩
  | deliverS k => rw [jstep_deliverS]; exact ⟨h.ctr, h.ids⟩
  | deliverC k =>
    rw [jstep_deliverC]
    refine ⟨?_, h.ids⟩
    show 1 ≤ (recv depth y.c (y.toC.take k)).1.counter
    rw [(recv_frame depth y.c (y.toC.take k)).2.2.1]; exact h.ctr

/-! ### the phase after the unbind is preserved -/

theorem phase2_of_unbind {depth : Nat} {y : Sys} (h : JInv2 depth y) (hu : ¬unbindSent y)
    (ha : Admissible depth y (.callC .unbind)) : Phase2 (jstep depth y (.callC .unbind)).1 := by
  obtain ⟨_, hacc, _⟩ := ha
  have hB := h.bookY hu
  rcases step_unbind y.c with ⟨h1, _⟩ | ⟨h1, _⟩
  · rw [h1] at hacc; cases hacc
  · rw [jstep_callC, h1]
    refine ⟨rfl, rfl, y.sentC.map sig, ?_, Or.inr ⟨y.c.state, y.c.outstanding, y.c.searches, hB⟩⟩
    simp [sentMsg, Call.isSend, Outcome.accepted, msgOf, sig, ubSig]

theorem phase2_callS {depth : Nat} {y : Sys} (h : JInv2 depth y) (P : Phase2 y) (c : Call)
    (ha : Admissible depth y (.callS c)) : Phase2 (jstep depth y (.callS c)).1 := by
  obtain ⟨hc1, hc2, RC, hRC, hsrv⟩ := P
  obtain ⟨⟨i, req, hid, hopenr, hkind⟩, hacc, hwf⟩ := ha
  have hsend : c.isSend = true := isSend_of_respId (by simp [hid])
  obtain ⟨m, hm, hsm, hout⟩ := step_send_accepted y.s c hsend hacc
  have hopen : y.s.state ≠ .closed := (step_send_frame y.s c hsend).2.2.2 hacc
  rw [jstep_callS]
  refine ⟨hc1, hc2, RC, hRC, ?_⟩
  rcases hsrv with ⟨hcl, _⟩ | ⟨cst, cout, csr, hB⟩
  · exact absurd hcl hopen
  · right
    refine ⟨cst, cout, csr, ?_⟩
    obtain ⟨m', hm', hmid, _, hcase⟩ := step_serverResp y.s c i hid h.base.sRole
    rw [hm] at hm'
    cases hm'
    obtain ⟨M, hMmem, hMid, hMop, hna⟩ := openRequest_some hopenr
    obtain ⟨g1, g2, g3⟩ := respCall_facts y.s c m req hm hkind
    rcases hcase with ⟨hst, _⟩ | ⟨hst, _⟩ | ⟨_, _, _, hst⟩
    · rw [hst] at hacc; cases hacc
    · rw [hst] at hacc; cases hacc
    · have B' := hB.sSend i m.op (sig M) (List.mem_map.2 ⟨M, hMmem, rfl⟩) hMid hna
        (by simp only [sig]; rw [hMop]; exact g1) _ rfl
      simp only [hsm, List.map_append, List.map_cons, List.map_nil]
      rw [hst]
      simp only [openUp_state, g3, g2]
      have hsig : sig m = (i, m.op) := by simp [sig, hmid]
      rw [hsig]
      exact B'

theorem phase2_flushC {depth : Nat} {y : Sys} (P : Phase2 y) (a : Option Int) :
    Phase2 (jstep depth y (.flushC a)).1 := by
  obtain ⟨n, hn⟩ := step_drain y.c a
  rw [jstep_flushC, hn]
  exact P

theorem phase2_flushS {depth : Nat} {y : Sys} (P : Phase2 y) (a : Option Int) :
    Phase2 (jstep depth y (.flushS a)).1 := by
  obtain ⟨n, hn⟩ := step_drain y.s a
  rw [jstep_flushS, hn]
  exact P

theorem unbind_not_notice {u : Msg} (h : sig u = ubSig) : u.op.isNotice = false := by
  simp only [sig, ubSig, Prod.mk.injEq] at h
  rw [h.2]; rfl

theorem phase2_deliverS {depth : Nat} {y : Sys} (h : JInv2 depth y) (hu : unbindSent y) (P : Phase2 y)
    (k : Nat) :
    Phase2 (jstep depth y (.deliverS k)).1 ∧
      (Outcome.fine (jstep depth y (.deliverS k)).2 ∨
        TerminationError depth y (.deliverS k) (jstep depth y (.deliverS k)).2) := by
  obtain ⟨hc1, hc2, RC, hRC, hsrv⟩ := P
  rw [jstep_deliverS]
  by_cases hs : y.s.state = .closed
  · have h1 : recv depth y.s (y.toS.take k) = (y.s, .protocolError .notice) := by
      simp [recv, hs, h.base.sRole, notificationFor]
    rw [h1]
    refine ⟨⟨hc1, hc2, RC, hRC, ?_⟩, Or.inr ⟨hu, Or.inr (Or.inl ⟨k, rfl, hs, rfl⟩)⟩⟩
    simpa [msgsOf] using hsrv
  · obtain ⟨cst, cout, csr, hB⟩ := hsrv.resolve_left (fun h' => hs h'.1)
    obtain ⟨ms, t, pend, hp1, hp2, he⟩ := h.base.chanS.deliver_parse h.base.sRegs k hs
    have hrecv := recv_of_parse depth y.s (y.toS.take k) ms t hs hp1
    have hsplit : RC ++ [ubSig] = y.gotS.map sig ++ ms.map sig ++ pend.map sig := by
      have := congrArg (List.map sig) he
      rw [map_sig_fillRaw, hRC] at this
      rw [this]; simp [List.map_append, List.append_assoc]
    rcases split_ub hsplit with ⟨P', hP, hRC'⟩ | ⟨hP, A', hA, hRC'⟩ | ⟨_, _, hGS⟩
    · -- the unbind is still on its way
      obtain ⟨s', hl, B'⟩ := server_loop ms { y.s with residue := t } _ _ h.base.sRole hB hRC'
      rw [hl] at hrecv
      simp only at hrecv
      rw [hrecv]
      refine ⟨⟨hc1, hc2, RC, hRC, Or.inr ⟨cst, cout, csr, ?_⟩⟩, Or.inl (Or.inr (Or.inr ⟨ms, rfl⟩))⟩
      simp only [msgsOf, List.map_append]
      exact B'
    · -- the unbind is in this delivery
      obtain ⟨ms', u, hms, hms', hu'⟩ := map_sig_split hA
      obtain ⟨s', hl, B'⟩ := server_loop ms' { y.s with residue := t } _ [] h.base.sRole hB
        (by rw [hms', hRC']; simp)
      have hl2 : processLoop { y.s with residue := t } ms = .protoErr s' true false := by
        rw [hms, processLoop_append _ _ _ _ hl, processLoop_cons]
        simp [sig_ub hu', unbind_not_notice hu']
      rw [hl2] at hrecv
      simp only at hrecv
      rw [hrecv]
      have hrole : notificationFor y.s.role true false = .none := by rw [h.base.sRole]; rfl
      refine ⟨⟨hc1, hc2, RC, hRC, Or.inl ⟨rfl, rfl⟩⟩,
        Or.inr ⟨hu, Or.inl ⟨k, rfl, hs, by rw [hrole], ms, t, ?_, u, ?_, sig_ub hu'⟩⟩⟩
      · rw [← h.base.sRegs]; exact hp1
      · rw [hms]; simp
    · exact absurd hGS (book_no_ub hB)

theorem phase2_deliverC {depth : Nat} {y : Sys} (h : JInv2 depth y) (hu : unbindSent y) (P : Phase2 y)
    (k : Nat) :
    Phase2 (jstep depth y (.deliverC k)).1 ∧
      TerminationError depth y (.deliverC k) (jstep depth y (.deliverC k)).2 := by
  obtain ⟨hc1, hc2, RC, hRC, hsrv⟩ := P
  have h1 : recv depth y.c (y.toC.take k) = (y.c, .protocolError .unbind) := by
    simp [recv, hc1, h.base.cRole, notificationFor]
  rw [jstep_deliverC, h1]
  exact ⟨⟨hc1, hc2, RC, hRC, by simpa [msgsOf] using hsrv⟩, hu, Or.inr (Or.inr ⟨k, rfl, hc1, rfl⟩)⟩

/-! ### every admissible step -/

theorem inv2_step {depth : Nat} {y : Sys} (h : JInv2 depth y) (st : JStep) (ha : Admissible depth y st) :
    JInv2 depth (jstep depth y st).1 ∧
      (Outcome.fine (jstep depth y st).2 ∨ TerminationError depth y st (jstep depth y st).2) := by
  obtain ⟨hb', g⟩ := inv_step h.base st ha
  obtain ⟨hctr, hids⟩ := ids_step h st ha
  by_cases hu : unbindSent y
  · have P := h.phase hu
    have key : Phase2 (jstep depth y st).1 ∧
        (Outcome.fine (jstep depth y st).2 ∨ TerminationError depth y st (jstep depth y st).2) := by
      cases st with
      | callC c =>
        exfalso
        obtain ⟨hshape, hacc, _⟩ := ha
        have hsend : c.isSend = true := by cases c <;> simp [Call.isSend] at hshape ⊢
        exact (step_send_frame y.c c hsend).2.2.2 hacc P.1
      | callS c => exact ⟨phase2_callS h P c ha, Or.inl (Or.inl ha.2.1)⟩
      | flushC a =>
        obtain ⟨n, hn⟩ := step_drain y.c a
        exact ⟨phase2_flushC P a, Or.inl (Or.inr (Or.inl ⟨_, by rw [jstep_flushC, hn]⟩))⟩
      | flushS a =>
        obtain ⟨n, hn⟩ := step_drain y.s a
        exact ⟨phase2_flushS P a, Or.inl (Or.inr (Or.inl ⟨_, by rw [jstep_flushS, hn]⟩))⟩
      | deliverS k => exact phase2_deliverS h hu P k
      | deliverC k => exact ⟨(phase2_deliverC h hu P k).1, Or.inr (phase2_deliverC h hu P k).2⟩
    exact ⟨⟨hb', fun _ => key.1, hctr, hids⟩, key.2⟩
  · by_cases hst : st = .callC .unbind
    · subst hst
      exact ⟨⟨hb', fun _ => phase2_of_unbind h hu ha, hctr, hids⟩, Or.inl (Or.inl ha.2.1)⟩
    · have hu' : ¬unbindSent (jstep depth y st).1 := fun h' => hu (unbindSent_of_step st hst ha h')
      refine ⟨⟨hb', fun h' => absurd h' hu', hctr, hids⟩, Or.inl ?_⟩
      rcases g with g | g | g | ⟨g, _⟩
      · exact Or.inl g
      · exact Or.inr (Or.inl g)
      · exact Or.inr (Or.inr g)
      · exact absurd g hu'

end Verif.Proofs.C11More
