/-
C11: the joint system (client session, server session, two in-order byte pipes).
`JInv` = channel invariant for both directions (part 1) + bookkeeping invariant `Book`
(part 2), preserved by every admissible step; the four theorems of Props/C11 follow.
-/
import Verif.Spec.Joint
import Verif.Proofs.JointChan
import Verif.Proofs.JointBook

namespace Verif.Proofs.JointP
open Verif Verif.Joint Verif.Proofs
set_option linter.unusedSimpArgs false
set_option linter.unusedVariables false

/-! ### unfolding `jstep` / `jrun` -/

theorem jstep_callC (depth : Nat) (y : Sys) (c : Call) :
    jstep depth y (.callC c) =
      ({ y with c := (step y.c c).1, sentC := y.sentC ++ sentMsg y.c c (step y.c c).2 },
        (step y.c c).2) := rfl

theorem jstep_callS (depth : Nat) (y : Sys) (c : Call) :
    jstep depth y (.callS c) =
      ({ y with s := (step y.s c).1, sentS := y.sentS ++ sentMsg y.s c (step y.s c).2 },
        (step y.s c).2) := rfl

theorem jstep_flushC (depth : Nat) (y : Sys) (a : Option Int) :
    jstep depth y (.flushC a) =
      ({ y with c := (step y.c (.drain a)).1, toS := y.toS ++ drainedOf (step y.c (.drain a)).2 },
        (step y.c (.drain a)).2) := rfl

theorem jstep_flushS (depth : Nat) (y : Sys) (a : Option Int) :
    jstep depth y (.flushS a) =
      ({ y with s := (step y.s (.drain a)).1, toC := y.toC ++ drainedOf (step y.s (.drain a)).2 },
        (step y.s (.drain a)).2) := rfl

theorem jstep_deliverS (depth : Nat) (y : Sys) (k : Nat) :
    jstep depth y (.deliverS k) =
      ({ y with s := (recv depth y.s (y.toS.take k)).1, toS := y.toS.drop k,
                gotS := y.gotS ++ msgsOf (recv depth y.s (y.toS.take k)).2 },
        (recv depth y.s (y.toS.take k)).2) := rfl

theorem jstep_deliverC (depth : Nat) (y : Sys) (k : Nat) :
    jstep depth y (.deliverC k) =
      ({ y with c := (recv depth y.c (y.toC.take k)).1, toC := y.toC.drop k,
                gotC := y.gotC ++ msgsOf (recv depth y.c (y.toC.take k)).2 },
        (recv depth y.c (y.toC.take k)).2) := rfl

theorem jrun_cons (depth : Nat) (y : Sys) (st : JStep) (sts : List JStep) :
    jrun depth y (st :: sts) =
      ((jrun depth (jstep depth y st).1 sts).1, (jstep depth y st).2 :: (jrun depth (jstep depth y st).1 sts).2) := rfl

theorem step_drain (s : Sess) (a : Option Int) :
    ∃ n, step s (.drain a) = ({ s with out := s.out.drop n }, .bytes (s.out.take n)) := by
  cases a with
  | none => exact ⟨_, rfl⟩
  | some a => exact ⟨_, rfl⟩

/-! ### signatures of the logs -/

theorem map_sig_fillRaw (l : List Msg) : (l.map fillRaw).map sig = l.map sig := by
  rw [List.map_map]
  rfl

/-! ### facts about calls and their messages -/

theorem clientReq_facts (s : Sess) (c : Call) (m : Msg) (hc : isClientReq c = true)
    (hm : msgOf s c = some m) :
    isReq3 m.op = true ∧ opIsBind m.op = isBindCall c ∧ opIsSearch m.op = isSearchCall c ∧
      (allowedWhileBinding m.op = true → opIsBind m.op = true) := by
  cases c <;> simp [isClientReq] at hc <;> simp only [msgOf, Option.some.injEq] at hm <;> subst hm <;>
    simp [isReq3, opIsBind, opIsSearch, isBindCall, isSearchCall, allowedWhileBinding, Op.isNotice]

theorem respCall_facts (s : Sess) (c : Call) (m : Msg) (req : Op) (hm : msgOf s c = some m)
    (hk : matchingKind req c = true) :
    kindOK req m.op = true ∧ Proofs.isFinalCall c = isFinalOp m.op ∧
      (∀ st, respState c st = if isBindDoneOp m.op = true then .opened else st) := by
  cases c <;> cases req <;> simp [matchingKind] at hk <;>
    simp only [msgOf, Option.some.injEq] at hm <;> subst hm <;>
    simp [kindOK, Proofs.isFinalCall, isFinalOp, respState, isBindDoneOp, hk]
  all_goals (intro st; split <;> simp_all)

theorem openRequest_some {y : Sys} {i : Int} {req : Op} (h : openRequest y i = some req) :
    ∃ M ∈ y.gotS, M.id = i ∧ M.op = req ∧ ¬answered (y.sentS.map sig) i := by
  unfold openRequest at h
  cases hf : y.gotS.find? (fun m => m.id == i) with
  | none => rw [hf] at h; cases h
  | some M =>
    rw [hf] at h
    simp only at h
    split at h
    · cases h
    · next hany =>
      simp only [Option.some.injEq] at h
      refine ⟨M, List.mem_of_find?_eq_some hf, by simpa using List.find?_some hf, h, ?_⟩
      rintro ⟨r, hr, h1, h2⟩
      obtain ⟨R, hR, rfl⟩ := List.mem_map.1 hr
      apply hany
      rw [List.any_eq_true]
      refine ⟨R, hR, ?_⟩
      simp only [sig] at h1 h2
      simp only [Bool.and_eq_true, beq_iff_eq]
      refine ⟨h1, ?_⟩
      cases hop : R.op <;> simp [hop, isFinalOp] at h2 ⊢

/-! ### the delivery loops against the bookkeeping invariant -/

theorem server_loop {cst : SState} {cout csr : List Int} {ctr : Int} {RC RS GC : List Sig} :
    ∀ (ms : List Msg) (s : Sess) (GS rest : List Sig), s.role = .server →
      Book cst cout csr ctr s.state s.outstanding RC GS RS GC → RC = GS ++ ms.map sig ++ rest →
      ∃ s', processLoop s ms = .ok s' ∧
        Book cst cout csr ctr s'.state s'.outstanding RC (GS ++ ms.map sig) RS GC := by
  intro ms
  induction ms with
  | nil =>
    intro s GS rest _ B _
    exact ⟨s, rfl, by simpa using B⟩
  | cons M ms ih =>
    intro s GS rest hr B hsplit
    have hsplit' : RC = GS ++ sig M :: (ms.map sig ++ rest) := by
      rw [hsplit]; simp [List.append_assoc]
    obtain ⟨hx, _, _⟩ := B.next_req hsplit'
    obtain ⟨h1, h2, h3⟩ := isReq3_request (B.req _ hx).1
    have hidle : ¬(opIsBind M.op = true ∧ s.outstanding ≠ []) := by
      rintro ⟨hb, hne⟩
      exact hne (B.sRecv_idle hsplit' hb)
    have B1 := B.sRecv hsplit'
    have hp : serverProcess s M = some { s with
                state := srvState s.state M.op,
                searches := if opIsSearch M.op then setInsert M.id s.searches else s.searches,
                outstanding := setInsert M.id s.outstanding } := by
      rw [serverProcess_eq, if_pos ⟨h1, hidle⟩]
    obtain ⟨s', hl, B'⟩ := ih { s with
                state := srvState s.state M.op,
                searches := if opIsSearch M.op then setInsert M.id s.searches else s.searches,
                outstanding := setInsert M.id s.outstanding } (GS ++ [sig M]) rest hr B1
      (by rw [hsplit]; simp [List.append_assoc])
    refine ⟨s', ?_, by simpa [List.append_assoc] using B'⟩
    rw [processLoop_cons2]
    simp only [sig] at h2 h3
    rw [if_neg (by simp [h2]), if_neg (by simp [h3]), if_neg (by simp [hr]), hp]
    exact hl

theorem client_loop {ctr : Int} {sst : SState} {sout : List Int} {RC GS RS : List Sig} :
    ∀ (ms : List Msg) (c : Sess) (GC rest : List Sig), c.role = .client → c.counter = ctr →
      Book c.state c.outstanding c.searches ctr sst sout RC GS RS GC → RS = GC ++ ms.map sig ++ rest →
      ∃ c', processLoop c ms = .ok c' ∧ c'.counter = ctr ∧
        Book c'.state c'.outstanding c'.searches ctr sst sout RC GS RS (GC ++ ms.map sig) := by
  intro ms
  induction ms with
  | nil =>
    intro c GC rest _ hctr B _
    exact ⟨c, rfl, hctr, by simpa using B⟩
  | cons M ms ih =>
    intro c GC rest hr hctr B hsplit
    have hsplit' : RS = GC ++ sig M :: (ms.map sig ++ rest) := by
      rw [hsplit]; simp [List.append_assoc]
    obtain ⟨hx, _, m, hm, hmi, hk, _, hco⟩ := B.next_resp hsplit'
    obtain ⟨h1, h2, h3⟩ := kindOK_resp hk
    have B1 := B.cRecv hsplit'
    simp only [sig] at h1 h2 h3 hco
    have hp : clientProcess c M = some ({ c with
                state := cliState c.state M.op,
                searches := if M.id ∈ c.searches ∧ opIsDone M.op = true then setErase M.id c.searches
                            else c.searches,
                outstanding := if (M.id ∈ c.searches ∧ opIsDone M.op = false) ∨ M.id ∉ c.outstanding
                               then c.outstanding else setErase M.id c.outstanding }, false) := by
      rw [clientProcess_eq, if_pos ⟨h1, Or.inr hco⟩]
      simp [hco]
    obtain ⟨c', hl, hctr', B'⟩ := ih { c with
                state := cliState c.state M.op,
                searches := if M.id ∈ c.searches ∧ opIsDone M.op = true then setErase M.id c.searches
                            else c.searches,
                outstanding := if (M.id ∈ c.searches ∧ opIsDone M.op = false) ∨ M.id ∉ c.outstanding
                               then c.outstanding else setErase M.id c.outstanding }
      (GC ++ [sig M]) rest hr hctr B1 (by rw [hsplit]; simp [List.append_assoc])
    refine ⟨c', ?_, hctr', by simpa [List.append_assoc] using B'⟩
    rw [processLoop_cons2]
    rw [if_neg (by simp [h2]), if_neg (by simp [h3]), if_pos hr, hp]
    exact hl

/-! ### the invariant of the joint system -/

def BookY (y : Sys) : Prop :=
  Book y.c.state y.c.outstanding y.c.searches y.c.counter y.s.state y.s.outstanding
    (y.sentC.map sig) (y.gotS.map sig) (y.sentS.map sig) (y.gotC.map sig)

structure JInv (depth : Nat) (y : Sys) : Prop where
  cRole : y.c.role = .client
  sRole : y.s.role = .server
  cRegs : y.c.regs = {}
  sRegs : y.s.regs = {}
  cinv : CInv y.c
  chanS : Chan depth y.s.state y.s.residue y.toS y.c.out y.sentC y.gotS
  chanC : Chan depth y.c.state y.c.residue y.toC y.s.out y.sentS y.gotC
  ubClosed : unbindSent y → y.c.state = .closed
  book : unbindSent y ∨ BookY y

/-- the outcomes C11 allows -/
def Good (y' : Sys) (o : Outcome) : Prop :=
  o.accepted = true ∨ (∃ b, o = .bytes b) ∨ (∃ ms, o = .msgs ms) ∨
    (unbindSent y' ∧ ∃ n, o = .protocolError n)

theorem JInv.init (depth : Nat) : JInv depth {} where
  cRole := rfl
  sRole := rfl
  cRegs := rfl
  sRegs := rfl
  cinv := reachable_inv (Reachable.init .client) rfl
  chanS := Chan.init depth _
  chanC := Chan.init depth _
  ubClosed := by rintro ⟨m, hm, _⟩; cases hm
  book := Or.inr Book.init

/-! ### preservation: calls -/

theorem unbindSent_append {y : Sys} {l : List Msg} :
    (∃ m ∈ y.sentC ++ l, m.op.isUnbind = true) ↔ unbindSent y ∨ ∃ m ∈ l, m.op.isUnbind = true := by
  unfold unbindSent
  constructor
  · rintro ⟨m, hm, h⟩
    rcases List.mem_append.1 hm with h' | h'
    · exact Or.inl ⟨m, h', h⟩
    · exact Or.inr ⟨m, h', h⟩
  · rintro (⟨m, hm, h⟩ | ⟨m, hm, h⟩)
    · exact ⟨m, List.mem_append_left _ hm, h⟩
    · exact ⟨m, List.mem_append_right _ hm, h⟩

theorem isReq3_not_unbind {op : Op} (h : isReq3 op = true) : op.isUnbind = false :=
  (isReq3_request h).2.2

theorem inv_callC {depth : Nat} {y : Sys} (h : JInv depth y) (c : Call)
    (ha : Admissible depth y (.callC c)) :
    JInv depth (jstep depth y (.callC c)).1 ∧
      Good (jstep depth y (.callC c)).1 (jstep depth y (.callC c)).2 := by
  obtain ⟨hshape, hacc, hwf⟩ := ha
  have hkind : c = .unbind ∨ isClientReq c = true := by
    cases c <;> simp [isClientReq] at hshape ⊢
  have hsend : c.isSend = true := by
    rcases hkind with rfl | hc
    · rfl
    · exact isSend_of_clientReq hc
  obtain ⟨m, hm, hsm, hout⟩ := step_send_accepted y.c c hsend hacc
  obtain ⟨hres, hregs, _, hopen0⟩ := step_send_frame y.c c hsend
  have hopen : y.c.state ≠ .closed := hopen0 hacc
  clear hopen0
  have hwf' : Msg.WF {} m ∧ m.op.filterDepth < depth := by simpa [CallWF, hm] using hwf
  have hnub : ¬unbindSent y := fun hu => hopen (h.ubClosed hu)
  have hB : BookY y := h.book.resolve_left hnub
  rw [jstep_callC]
  refine ⟨?_, Or.inl hacc⟩
  have hrole : (step y.c c).1.role = .client := (step_role y.c c).trans h.cRole
  have hchanS : Chan depth y.s.state y.s.residue y.toS (step y.c c).1.out
      (y.sentC ++ sentMsg y.c c (step y.c c).2) y.gotS := by
    rw [hsm, hout]; exact h.chanS.send m hwf'.1 hwf'.2
  have hchanC : Chan depth (step y.c c).1.state (step y.c c).1.residue y.toC y.s.out y.sentS y.gotC := by
    rw [hres]; exact h.chanC.state (fun _ => hopen)
  have hcinv : CInv (step y.c c).1 := step_inv y.c c (fun _ => h.cinv) hrole
  rcases hkind with rfl | hc
  · -- unbind
    have hmu : m.op.isUnbind = true := by
      simp only [msgOf, Option.some.injEq] at hm; subst hm; rfl
    have hub : ∃ m' ∈ y.sentC ++ sentMsg y.c .unbind (step y.c .unbind).2, m'.op.isUnbind = true := by
      rw [hsm]; exact ⟨m, by simp, hmu⟩
    have hcl : (step y.c .unbind).1.state = .closed := by
      rcases step_unbind y.c with ⟨_, h'⟩ | ⟨h', _⟩
      · exact absurd h' hopen
      · rw [h']
    exact {
      cRole := hrole, sRole := h.sRole, cRegs := hregs.trans h.cRegs, sRegs := h.sRegs, cinv := hcinv
      chanS := hchanS, chanC := hchanC
      ubClosed := fun _ => hcl
      book := Or.inl hub }
  · -- bind / search / extended
    obtain ⟨m', hm', hid, hcase⟩ := step_clientReq y.c c hc h.cRole
    rw [hm] at hm'
    cases hm'
    obtain ⟨f1, f2, f3, f4⟩ := clientReq_facts y.c c m hc hm
    have hnu : ¬∃ m' ∈ y.sentC ++ sentMsg y.c c (step y.c c).2, m'.op.isUnbind = true := by
      rw [unbindSent_append, hsm]
      rintro (hu | ⟨m', hm', hu⟩)
      · exact hnub hu
      · rw [List.mem_singleton] at hm'; subst hm'
        rw [isReq3_not_unbind f1] at hu; cases hu
    rcases hcase with ⟨hst, _⟩ | ⟨_, hbnd, hidl, hst⟩
    · rw [hst] at hacc; cases hacc
    · have B' := hB.cSend m.op f1 (fun hb => f4 (hbnd hb)) (fun hb => hidl (by rw [← f2]; exact hb))
      exact {
        cRole := hrole, sRole := h.sRole, cRegs := hregs.trans h.cRegs, sRegs := h.sRegs, cinv := hcinv
        chanS := hchanS, chanC := hchanC
        ubClosed := fun hu => absurd hu hnu
        book := by
          right
          unfold BookY
          simp only [hsm, List.map_append, List.map_cons, List.map_nil]
          rw [hst]
          simp only [openUp_state]
          rw [f2, f3] at B'
          have hsig : sig m = (y.c.counter, m.op) := by simp [sig, hid]
          rw [hsig]
          exact B' }

theorem inv_callS {depth : Nat} {y : Sys} (h : JInv depth y) (c : Call)
    (ha : Admissible depth y (.callS c)) :
    JInv depth (jstep depth y (.callS c)).1 ∧
      Good (jstep depth y (.callS c)).1 (jstep depth y (.callS c)).2 := by
  obtain ⟨⟨i, req, hid, hopenr, hkind⟩, hacc, hwf⟩ := ha
  have hsend : c.isSend = true := isSend_of_respId (by simp [hid])
  obtain ⟨m, hm, hsm, hout⟩ := step_send_accepted y.s c hsend hacc
  obtain ⟨hres, hregs, _, hopen0⟩ := step_send_frame y.s c hsend
  have hopen : y.s.state ≠ .closed := hopen0 hacc
  clear hopen0
  have hwf' : Msg.WF {} m ∧ m.op.filterDepth < depth := by simpa [CallWF, hm] using hwf
  rw [jstep_callS]
  refine ⟨?_, Or.inl hacc⟩
  have hrole : (step y.s c).1.role = .server := (step_role y.s c).trans h.sRole
  have hchanC : Chan depth y.c.state y.c.residue y.toC (step y.s c).1.out
      (y.sentS ++ sentMsg y.s c (step y.s c).2) y.gotC := by
    rw [hsm, hout]; exact h.chanC.send m hwf'.1 hwf'.2
  have hchanS : Chan depth (step y.s c).1.state (step y.s c).1.residue y.toS y.c.out y.sentC y.gotS := by
    rw [hres]; exact h.chanS.state (fun _ => hopen)
  exact {
    cRole := h.cRole, sRole := hrole, cRegs := h.cRegs, sRegs := hregs.trans h.sRegs, cinv := h.cinv
    chanS := hchanS, chanC := hchanC
    ubClosed := h.ubClosed
    book := by
      rcases h.book with hu | hB
      · exact Or.inl hu
      · right
        obtain ⟨m', hm', hmid, _, hcase⟩ := step_serverResp y.s c i hid h.sRole
        rw [hm] at hm'
        cases hm'
        obtain ⟨M, hMmem, hMid, hMop, hna⟩ := openRequest_some hopenr
        obtain ⟨g1, g2, g3⟩ := respCall_facts y.s c m req hm hkind
        rcases hcase with ⟨hst, _⟩ | ⟨hst, _⟩ | ⟨_, _, _, hst⟩
        · rw [hst] at hacc; cases hacc
        · rw [hst] at hacc; cases hacc
        · have B' := hB.sSend i m.op (sig M) (List.mem_map.2 ⟨M, hMmem, rfl⟩) hMid hna
            (by simp only [sig]; rw [hMop]; exact g1) _ rfl
          unfold BookY
          simp only [hsm, List.map_append, List.map_cons, List.map_nil]
          rw [hst]
          simp only [openUp_state, g3, g2]
          have hsig : sig m = (i, m.op) := by simp [sig, hmid]
          rw [hsig]
          exact B' }

/-! ### preservation: flushes -/

theorem inv_flushC {depth : Nat} {y : Sys} (h : JInv depth y) (a : Option Int) :
    JInv depth (jstep depth y (.flushC a)).1 ∧
      Good (jstep depth y (.flushC a)).1 (jstep depth y (.flushC a)).2 := by
  obtain ⟨n, hn⟩ := step_drain y.c a
  rw [jstep_flushC, hn]
  refine ⟨?_, Or.inr (Or.inl ⟨_, rfl⟩)⟩
  exact {
    cRole := h.cRole, sRole := h.sRole, cRegs := h.cRegs, sRegs := h.sRegs
    cinv := h.cinv.congr rfl rfl rfl
    chanS := h.chanS.flush n
    chanC := h.chanC
    ubClosed := h.ubClosed
    book := h.book }

theorem inv_flushS {depth : Nat} {y : Sys} (h : JInv depth y) (a : Option Int) :
    JInv depth (jstep depth y (.flushS a)).1 ∧
      Good (jstep depth y (.flushS a)).1 (jstep depth y (.flushS a)).2 := by
  obtain ⟨n, hn⟩ := step_drain y.s a
  rw [jstep_flushS, hn]
  refine ⟨?_, Or.inr (Or.inl ⟨_, rfl⟩)⟩
  exact {
    cRole := h.cRole, sRole := h.sRole, cRegs := h.cRegs, sRegs := h.sRegs
    cinv := h.cinv
    chanS := h.chanS
    chanC := h.chanC.flush n
    ubClosed := h.ubClosed
    book := h.book }

/-! ### preservation: deliveries -/

theorem inv_deliverS {depth : Nat} {y : Sys} (h : JInv depth y) (k : Nat) :
    JInv depth (jstep depth y (.deliverS k)).1 ∧
      Good (jstep depth y (.deliverS k)).1 (jstep depth y (.deliverS k)).2 := by
  rw [jstep_deliverS]
  by_cases hs : y.s.state = .closed
  · -- a closed server refuses everything; it was closed by the unbind
    obtain ⟨⟨n, hn⟩, h1⟩ := recv_closed depth y.s (y.toS.take k) hs
    have hub : unbindSent y := by
      rcases h.book with hu | hB
      · exact hu
      · exact absurd hs hB.sOpen
    rw [h1, hn]
    refine ⟨?_, Or.inr (Or.inr (Or.inr ⟨hub, n, rfl⟩))⟩
    exact {
      cRole := h.cRole, sRole := h.sRole, cRegs := h.cRegs, sRegs := h.sRegs, cinv := h.cinv
      chanS := fun h' => absurd hs h'
      chanC := h.chanC
      ubClosed := h.ubClosed
      book := Or.inl hub }
  · obtain ⟨ms, t, pend, hp1, hp2, he⟩ := h.chanS.deliver_parse h.sRegs k hs
    have hrecv := recv_of_parse depth y.s (y.toS.take k) ms t hs hp1
    have hRC : y.sentC.map sig = y.gotS.map sig ++ ms.map sig ++ pend.map sig := by
      have := congrArg (List.map sig) he
      rw [map_sig_fillRaw] at this
      rw [this]; simp [List.map_append, List.append_assoc]
    have hfr := processLoop_frame { y.s with residue := t } ms
    cases hl : processLoop { y.s with residue := t } ms with
    | ok s2 =>
      rw [hl] at hrecv hfr
      obtain ⟨f1, f2, f3, f4, f5⟩ := hfr
      simp only [procSess] at f1 f2 f3 f4 f5
      rw [hrecv]
      refine ⟨?_, Or.inr (Or.inr (Or.inl ⟨ms, rfl⟩))⟩
      exact {
        cRole := h.cRole, sRole := f1.trans h.sRole, cRegs := h.cRegs, sRegs := f5.trans h.sRegs
        cinv := h.cinv
        chanS := by
          show Chan depth s2.state s2.residue (y.toS.drop k) y.c.out y.sentC (y.gotS ++ ms)
          rw [f4]; exact Chan.after_ok k _ hp2 he
        chanC := by
          show Chan depth y.c.state y.c.residue y.toC s2.out y.sentS y.gotC
          rw [f2]; exact h.chanC
        ubClosed := h.ubClosed
        book := by
          rcases h.book with hu | hB
          · exact Or.inl hu
          · right
            obtain ⟨s', hl', B'⟩ := server_loop ms { y.s with residue := t } _ _ h.sRole hB hRC
            rw [hl] at hl'
            cases hl'
            unfold BookY
            simp only [msgsOf, List.map_append]
            exact B' }
    | protoErr s2 u n =>
      rw [hl] at hrecv hfr
      obtain ⟨f1, f2, f3, f4, f5⟩ := hfr
      simp only [procSess] at f1 f2 f3 f4 f5
      have hub : unbindSent y := by
        rcases h.book with hu | hB
        · exact hu
        · obtain ⟨s', hl', _⟩ := server_loop ms { y.s with residue := t } _ _ h.sRole hB hRC
          rw [hl] at hl'; cases hl'
      rw [hrecv]
      refine ⟨?_, Or.inr (Or.inr (Or.inr ⟨hub, _, rfl⟩))⟩
      exact {
        cRole := h.cRole, sRole := f1.trans h.sRole, cRegs := h.cRegs, sRegs := f5.trans h.sRegs
        cinv := h.cinv
        chanS := fun h' => absurd rfl h'
        chanC := by
          show Chan depth y.c.state y.c.residue y.toC s2.out y.sentS y.gotC
          rw [f2]; exact h.chanC
        ubClosed := h.ubClosed
        book := Or.inl hub }
    | keyErr s2 =>
      exact absurd hl ((processLoop_server ms { y.s with residue := t } h.sRole hs).2 s2)

theorem inv_deliverC {depth : Nat} {y : Sys} (h : JInv depth y) (k : Nat) :
    JInv depth (jstep depth y (.deliverC k)).1 ∧
      Good (jstep depth y (.deliverC k)).1 (jstep depth y (.deliverC k)).2 := by
  rw [jstep_deliverC]
  have hcinv : CInv (recv depth y.c (y.toC.take k)).1 := recv_inv depth y.c _ h.cRole h.cinv
  by_cases hs : y.c.state = .closed
  · obtain ⟨⟨n, hn⟩, h1⟩ := recv_closed depth y.c (y.toC.take k) hs
    have hub : unbindSent y := by
      rcases h.book with hu | hB
      · exact hu
      · exact absurd hs hB.cOpen
    rw [h1, hn]
    refine ⟨?_, Or.inr (Or.inr (Or.inr ⟨hub, n, rfl⟩))⟩
    exact {
      cRole := h.cRole, sRole := h.sRole, cRegs := h.cRegs, sRegs := h.sRegs, cinv := h.cinv
      chanS := h.chanS
      chanC := fun h' => absurd hs h'
      ubClosed := h.ubClosed
      book := Or.inl hub }
  · have hnub : ¬unbindSent y := fun hu => hs (h.ubClosed hu)
    have hB : BookY y := h.book.resolve_left hnub
    obtain ⟨ms, t, pend, hp1, hp2, he⟩ := h.chanC.deliver_parse h.cRegs k hs
    have hrecv := recv_of_parse depth y.c (y.toC.take k) ms t hs hp1
    have hRS : y.sentS.map sig = y.gotC.map sig ++ ms.map sig ++ pend.map sig := by
      have := congrArg (List.map sig) he
      rw [map_sig_fillRaw] at this
      rw [this]; simp [List.map_append, List.append_assoc]
    obtain ⟨c', hl, hctr, B'⟩ := client_loop ms { y.c with residue := t } _ _ h.cRole rfl hB hRS
    have hfr := processLoop_frame { y.c with residue := t } ms
    rw [hl] at hrecv hfr
    obtain ⟨f1, f2, f3, f4, f5⟩ := hfr
    simp only [procSess] at f1 f2 f3 f4 f5
    rw [hrecv] at hcinv ⊢
    refine ⟨?_, Or.inr (Or.inr (Or.inl ⟨ms, rfl⟩))⟩
    exact {
      cRole := f1.trans h.cRole, sRole := h.sRole, cRegs := f5.trans h.cRegs, sRegs := h.sRegs
      cinv := hcinv
      chanS := by
        show Chan depth y.s.state y.s.residue y.toS c'.out y.sentC y.gotS
        rw [f2]; exact h.chanS
      chanC := by
        show Chan depth c'.state c'.residue (y.toC.drop k) y.s.out y.sentS (y.gotC ++ ms)
        rw [f4]; exact Chan.after_ok k _ hp2 he
      ubClosed := fun hu => absurd hu hnub
      book := by
        right
        unfold BookY
        simp only [msgsOf, List.map_append]
        rw [hctr]
        exact B' }

/-! ### every admissible step -/

theorem inv_step {depth : Nat} {y : Sys} (h : JInv depth y) (st : JStep) (ha : Admissible depth y st) :
    JInv depth (jstep depth y st).1 ∧ Good (jstep depth y st).1 (jstep depth y st).2 := by
  cases st with
  | callC c => exact inv_callC h c ha
  | callS c => exact inv_callS h c ha
  | flushC a => exact inv_flushC h a
  | flushS a => exact inv_flushS h a
  | deliverS k => exact inv_deliverS h k
  | deliverC k => exact inv_deliverC h k

theorem sentC_grows (depth : Nat) (y : Sys) (st : JStep) :
    ∃ l, (jstep depth y st).1.sentC = y.sentC ++ l := by
  cases st with
  | callC c => exact ⟨_, rfl⟩
  | callS c => exact ⟨[], by simp [jstep_callS]⟩
  | flushC a => exact ⟨[], by simp [jstep_flushC]⟩
  | flushS a => exact ⟨[], by simp [jstep_flushS]⟩
  | deliverS k => exact ⟨[], by simp [jstep_deliverS]⟩
  | deliverC k => exact ⟨[], by simp [jstep_deliverC]⟩

theorem unbindSent_step {depth : Nat} {y : Sys} (st : JStep) (h : unbindSent y) :
    unbindSent (jstep depth y st).1 := by
  obtain ⟨l, hl⟩ := sentC_grows depth y st
  obtain ⟨m, hm, hu⟩ := h
  exact ⟨m, by rw [hl]; exact List.mem_append_left _ hm, hu⟩

theorem unbindSent_run {depth : Nat} : ∀ (sts : List JStep) (y : Sys), unbindSent y →
    unbindSent (jrun depth y sts).1 := by
  intro sts
  induction sts with
  | nil => intro y h; exact h
  | cons st sts ih =>
    intro y h
    rw [jrun_cons]
    exact ih _ (unbindSent_step st h)

theorem Good.run {depth : Nat} {y : Sys} {o : Outcome} (sts : List JStep) (h : Good y o) :
    Good (jrun depth y sts).1 o := by
  rcases h with h | h | h | ⟨hu, h⟩
  · exact Or.inl h
  · exact Or.inr (Or.inl h)
  · exact Or.inr (Or.inr (Or.inl h))
  · exact Or.inr (Or.inr (Or.inr ⟨unbindSent_run sts y hu, h⟩))

theorem inv_run {depth : Nat} : ∀ (sts : List JStep) (y : Sys), JInv depth y → AdmissibleRun depth y sts →
    JInv depth (jrun depth y sts).1 ∧ ∀ o ∈ (jrun depth y sts).2, Good (jrun depth y sts).1 o := by
  intro sts
  induction sts with
  | nil =>
    intro y h _
    exact ⟨h, fun o ho => by cases ho⟩
  | cons st sts ih =>
    intro y h ha
    obtain ⟨ha1, ha2⟩ := ha
    obtain ⟨h1, g1⟩ := inv_step h st ha1
    obtain ⟨h2, g2⟩ := ih _ h1 ha2
    rw [jrun_cons]
    refine ⟨h2, ?_⟩
    intro o ho
    rcases List.mem_cons.1 ho with rfl | ho'
    · exact g1.run sts
    · exact g2 o ho'

/-- at quiescence nothing is pending -/
theorem Chan.quiescent {depth : Nat} {st : SState} {sent got : List Msg}
    (h : Chan depth st [] [] [] sent got) (hs : st ≠ .closed) : got = sent.map fillRaw := by
  obtain ⟨p, hp, he⟩ := h hs
  simp only [List.append_nil, List.length_nil, parseLoop, List.isEmpty_nil, if_true,
    Except.ok.injEq, Prod.mk.injEq, and_true] at hp
  subst hp
  rw [he, List.append_nil]

theorem stateClass_eq {a b : SState} (ha : a ≠ .closed) (hb : b ≠ .closed)
    (h : a = .binding ↔ b = .binding) : stateClass a = stateClass b := by
  cases a <;> cases b <;> simp_all [stateClass]

end Verif.Proofs.JointP

namespace Verif.Proofs
open Verif Verif.Joint Verif.Proofs.JointP

theorem joint_stream_integrity (depth : Nat) (sts : List JStep) (h : AdmissibleRun depth {} sts) :
    let y := (jrun depth {} sts).1
    (y.s.state ≠ .closed → ∃ pending,
        parseLoop {} depth (y.s.residue ++ y.toS ++ y.c.out).length (y.s.residue ++ y.toS ++ y.c.out) = .ok (pending, []) ∧
        y.sentC.map fillRaw = y.gotS ++ pending) ∧
    (y.c.state ≠ .closed → ∃ pending,
        parseLoop {} depth (y.c.residue ++ y.toC ++ y.s.out).length (y.c.residue ++ y.toC ++ y.s.out) = .ok (pending, []) ∧
        y.sentS.map fillRaw = y.gotC ++ pending) := by
  have hi := (inv_run sts {} (JInv.init depth) h).1
  exact ⟨hi.chanS, hi.chanC⟩

theorem joint_all_delivered (depth : Nat) (sts : List JStep) (h : AdmissibleRun depth {} sts)
    (hq : Quiescent (jrun depth {} sts).1) :
    let y := (jrun depth {} sts).1
    (y.s.state ≠ .closed → y.gotS = y.sentC.map fillRaw) ∧ (y.c.state ≠ .closed → y.gotC = y.sentS.map fillRaw) := by
  have hi := (inv_run sts {} (JInv.init depth) h).1
  obtain ⟨q1, q2, q3, q4, q5, q6⟩ := hq
  have hS := hi.chanS
  have hC := hi.chanC
  rw [q1, q3, q6] at hS
  rw [q2, q4, q5] at hC
  exact ⟨hS.quiescent, hC.quiescent⟩

theorem joint_no_protocol_error (depth : Nat) (sts : List JStep) (h : AdmissibleRun depth {} sts) :
    ∀ o ∈ (jrun depth {} sts).2,
      o.accepted = true ∨ (∃ b, o = .bytes b) ∨ (∃ ms, o = .msgs ms) ∨
        (unbindSent (jrun depth {} sts).1 ∧ ∃ n, o = .protocolError n) :=
  (inv_run sts {} (JInv.init depth) h).2

theorem joint_agreement (depth : Nat) (sts : List JStep) (h : AdmissibleRun depth {} sts)
    (hq : Quiescent (jrun depth {} sts).1) :
    let y := (jrun depth {} sts).1
    y.c.state ≠ .closed → y.s.state ≠ .closed →
      stateClass y.c.state = stateClass y.s.state ∧ sameSet y.c.outstanding y.s.outstanding := by
  intro y hc hs
  have hi : JInv depth y := (inv_run sts {} (JInv.init depth) h).1
  obtain ⟨hgS, hgC⟩ := joint_all_delivered depth sts h hq
  have hgS : y.gotS = y.sentC.map fillRaw := hgS hs
  have hgC : y.gotC = y.sentS.map fillRaw := hgC hc
  have hB : BookY y := hi.book.resolve_left (fun hu => hc (hi.ubClosed hu))
  unfold BookY at hB
  rw [hgS, hgC, map_sig_fillRaw, map_sig_fillRaw] at hB
  refine ⟨stateClass_eq hc hs ?_, ?_⟩
  · rw [hB.cState, hB.sState]
  · intro i
    rw [hB.cOut i, hB.sOut i]

end Verif.Proofs
