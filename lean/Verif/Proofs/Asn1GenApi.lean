/-
Tie proofs for the thin wrappers of `sansldap/asn1.py` that the message codec calls
(`_read_asn1_octet_string`, `_read_asn1_sequence`, `_read_asn1_set`, `_read_asn1_enumerated`,
`_pack_asn1_enumerated`, `_pack_asn1_octet_string`) and for the methods of `ASN1Reader`; compositions of
the lemmas of `Asn1GenCompose.lean` / `Asn1GenMore*.lean`.  Statements: `Props/TiesAsn1Api.lean`.
-/
import Verif.Proofs.Asn1GenCompose
import Verif.Proofs.Asn1GenMoreInt
import Verif.Proofs.Asn1GenMoreArgs

namespace Verif.Proofs.Asn1Gen

open Verif Verif.PyRt Verif.Asn1Gen

/-- the expected tag chosen by `_read_asn1_sequence` / `_set`: `tag`, else the header's own tag, else the
    universal tag `num` with the given constructed bit (`selTag` is the case `cons = false`) -/
def selTagC (tag : Option ASN1Tag) (header : Option ASN1Header) (num : Int) (cons : Bool) : ASN1Tag :=
  match tag, header with
  | some t, _ => t
  | none, some h => h.tag
  | none, none => { tag_class := 0, tag_number := num, is_constructed := cons }

/-! ### the three `_validate_tag` wrappers -/

theorem read_asn1_octet_string_eq (fuel : Nat) (data : List Nat) (tag : Option ASN1Tag)
    (header : Option ASN1Header) :
    read_asn1_octet_string fuel data tag header = validate_tag fuel data (selTagC tag header 4 false) header := by
  cases tag <;> cases header <;>
    simp only [read_asn1_octet_string, selTagC, ASN1Tag_universal_tag, bind_ok]

theorem read_asn1_sequence_eq (fuel : Nat) (data : List Nat) (tag : Option ASN1Tag)
    (header : Option ASN1Header) :
    read_asn1_sequence fuel data tag header = validate_tag fuel data (selTagC tag header 16 true) header := by
  cases tag <;> cases header <;>
    simp only [read_asn1_sequence, selTagC, ASN1Tag_universal_tag, bind_ok]

theorem read_asn1_set_eq (fuel : Nat) (data : List Nat) (tag : Option ASN1Tag)
    (header : Option ASN1Header) :
    read_asn1_set fuel data tag header = validate_tag fuel data (selTagC tag header 17 true) header := by
  cases tag <;> cases header <;>
    simp only [read_asn1_set, selTagC, ASN1Tag_universal_tag, bind_ok]

/-- the call shapes of a reader — `(tag)`, `()`, `(header=peek_header())`, `(tag, header=peek_header())` —
    with the expected tag of the model (`none`: the header's own tag); `num`, `cons`: the universal default -/
inductive Shape (bs : List Nat) (num : Nat) (cons : Bool) :
    Option ASN1Tag → Option ASN1Header → Option Tag → Prop where
  | tag (t : Tag) : Shape bs num cons (some (ofTag t)) none (some t)
  | default : Shape bs num cons none none (some (tagUniv num cons))
  | header (h : Header) (hr : readHeader bs = .ok h) : Shape bs num cons none (some (ofHeader h)) none
  | both (t : Tag) (h : Header) (hr : readHeader bs = .ok h) :
      Shape bs num cons (some (ofTag t)) (some (ofHeader h)) (some t)

/-- `_validate_tag` with the tag a reader selects, for every call shape -/
theorem validate_tag_shape (fuel : Nat) (bs : List Nat) (num : Nat) (cons : Bool) (hb : IsBytes bs)
    (hf : bs.length < fuel) (tag : Option ASN1Tag) (header : Option ASN1Header) (e : Option Tag)
    (hs : Shape bs num cons tag header e) :
    validate_tag fuel bs (selTagC tag header (num : Int) cons) header
      = (readTLV e bs).map (consumedOf bs) := by
  cases hs with
  | tag t => exact validate_tag_eq fuel bs t hb hf
  | default => exact validate_tag_eq fuel bs (tagUniv num cons) hb hf
  | header h hr => exact validate_tag_header_own fuel bs h hr
  | both t h hr => exact validate_tag_header_eq fuel bs t h hr

theorem selTagC_false (tag : Option ASN1Tag) (header : Option ASN1Header) (num : Int) :
    selTagC tag header num false = selTag tag header num := by
  cases tag <;> cases header <;> rfl

/-! ### `_read_asn1_enumerated`, `_pack_asn1_enumerated`, `_pack_asn1_octet_string` -/

theorem read_asn1_enumerated_eq (fuel : Nat) (data : List Nat) (tag : Option ASN1Tag)
    (header : Option ASN1Header) :
    read_asn1_enumerated fuel data tag header
      = read_asn1_integer fuel data (some (selTag tag header 10)) header := by
  cases tag <;> cases header <;>
    simp only [read_asn1_enumerated, selTag, ASN1Tag_universal_tag, bind_ok]

/-- `_read_asn1_integer` for every call shape (default tag INTEGER) -/
theorem read_asn1_integer_shape (fuel : Nat) (bs : List Nat) (hb : IsBytes bs) (hf : bs.length < fuel)
    (tag : Option ASN1Tag) (header : Option ASN1Header) (e : Option Tag) (hs : Shape bs 2 false tag header e) :
    read_asn1_integer fuel bs tag header = (readInt e bs).map (consumedOfV bs) :=
  read_asn1_integer_of fuel bs tag header e hb
    (by rw [← selTagC_false]; exact validate_tag_shape fuel bs 2 false hb hf tag header e hs)

theorem read_asn1_boolean_shape (fuel : Nat) (bs : List Nat) (hb : IsBytes bs) (hf : bs.length < fuel)
    (tag : Option ASN1Tag) (header : Option ASN1Header) (e : Option Tag) (hs : Shape bs 1 false tag header e) :
    read_asn1_boolean fuel bs tag header = (readBool e bs).map (consumedOfV bs) :=
  read_asn1_boolean_of fuel bs tag header e
    (by rw [← selTagC_false]; exact validate_tag_shape fuel bs 1 false hb hf tag header e hs)

/-- `_read_asn1_enumerated` for every call shape (default tag ENUMERATED): the model's `readInt` -/
theorem read_asn1_enumerated_shape (fuel : Nat) (bs : List Nat) (hb : IsBytes bs) (hf : bs.length < fuel)
    (tag : Option ASN1Tag) (header : Option ASN1Header) (e : Option Tag) (hs : Shape bs 10 false tag header e) :
    read_asn1_enumerated fuel bs tag header = (readInt e bs).map (consumedOfV bs) := by
  rw [read_asn1_enumerated_eq]
  apply read_asn1_integer_of fuel bs _ _ e hb
  rw [selTag_some, ← selTagC_false]
  exact validate_tag_shape fuel bs 10 false hb hf tag header e hs

theorem pack_asn1_enumerated_eq (fuel : Nat) (v : Int) (tag : Option ASN1Tag) :
    pack_asn1_enumerated fuel v tag = pack_asn1_integer fuel v (some (tagOr tag 10)) := by
  cases tag <;> simp only [pack_asn1_enumerated, tagOr, ASN1Tag_universal_tag, bind_ok, Option.getD]

theorem pack_asn1_enumerated_sz (fuel : Nat) (v : Int) (t : Tag) (hc : t.cls ≤ 3)
    (hnum : t.num < 31 ∨ (packOctetNumber t.num).length < fuel)
    (hv : (intContent v).length ≤ fuel) (hlen : (intContent v).length < 256 ^ 127) :
    pack_asn1_enumerated fuel v (some (ofTag t)) = .ok (packEnum v t) := by
  rw [pack_asn1_enumerated_eq]
  exact pack_asn1_integer_sz fuel v t hc hnum hv hlen

theorem pack_asn1_enumerated_default_sz (fuel : Nat) (v : Int)
    (hv : (intContent v).length ≤ fuel) (hlen : (intContent v).length < 256 ^ 127) :
    pack_asn1_enumerated fuel v none = .ok (packEnum v) := by
  rw [pack_asn1_enumerated_eq]
  exact pack_asn1_integer_sz fuel v tEnum (by simp [tEnum, tagUniv]) (Or.inl (by simp [tEnum, tagUniv])) hv hlen

theorem pack_asn1_octet_string_sz (fuel : Nat) (c : List Nat) (t : Tag) (hc : t.cls ≤ 3)
    (hnum : t.num < 31 ∨ (packOctetNumber t.num).length < fuel)
    (hlenf : c.length < 128 ∨ (packLen c.length).length ≤ fuel) (hlen : c.length < 256 ^ 127) :
    pack_asn1_octet_string fuel c (some (ofTag t)) = .ok (packOctets c t) := by
  simp only [pack_asn1_octet_string, bind_ok, packOctets]
  exact pack_asn1_ofTag_sz fuel t c hc hnum hlenf hlen

theorem pack_asn1_octet_string_default_sz (fuel : Nat) (c : List Nat)
    (hlenf : c.length < 128 ∨ (packLen c.length).length ≤ fuel) (hlen : c.length < 256 ^ 127) :
    pack_asn1_octet_string fuel c none = .ok (packOctets c) := by
  simp only [pack_asn1_octet_string, ASN1Tag_universal_tag, bind_ok, packOctets]
  exact pack_asn1_ofTag_sz fuel tOctets c (by simp [tOctets, tagUniv]) (Or.inl (by simp [tOctets, tagUniv]))
    hlenf hlen

end Verif.Proofs.Asn1Gen
