/-
Bridge between the abstraction of a fresh generated session and the `Reachable` states of the session
theorems (audit item S1).  The server role never reads or writes `counter`: every model function on the
server side commutes with overwriting that field.
-/
import Verif.Proofs.SessionGenStepRecv
import Verif.Proofs.SessionGenInv
import Verif.Proofs.SessionInv
import Verif.Spec.SessionSpec

namespace Verif.Proofs.SessionGenBridge

open Verif Verif.PyRtS Verif.SessionGen Verif.Proofs.SessionGen

/-- overwrite the `counter` field -/
def setCounter (k : Int) (s : Sess) : Sess := { s with counter := k }

@[simp] theorem setCounter_role (k s) : (setCounter k s).role = s.role := rfl
@[simp] theorem setCounter_state (k s) : (setCounter k s).state = s.state := rfl
@[simp] theorem setCounter_out (k s) : (setCounter k s).out = s.out := rfl
@[simp] theorem setCounter_outstanding (k s) : (setCounter k s).outstanding = s.outstanding := rfl
@[simp] theorem setCounter_searches (k s) : (setCounter k s).searches = s.searches := rfl
@[simp] theorem setCounter_residue (k s) : (setCounter k s).residue = s.residue := rfl
@[simp] theorem setCounter_regs (k s) : (setCounter k s).regs = s.regs := rfl
@[simp] theorem setCounter_counter (k s) : (setCounter k s).counter = k := rfl
@[simp] theorem setCounter_setCounter (k j s) : setCounter k (setCounter j s) = setCounter k s := rfl
theorem setCounter_self (s : Sess) : setCounter s.counter s = s := rfl

/-- lift over the result of the processing loop -/
def mapProc (f : Sess → Sess) : ProcResult → ProcResult
  | .ok s => .ok (f s)
  | .protoErr s u n => .protoErr (f s) u n
  | .keyErr s => .keyErr (f s)

/-! ### the send side (any role: `sendBase` / `serverSend` never mention `counter`) -/

theorem sendBase_counter (k : Int) (s : Sess) (m : Msg) :
    sendBase (setCounter k s) m = (setCounter k (sendBase s m).1, (sendBase s m).2) := by
  obtain ⟨role, state, out, outstanding, searches, counter, residue, regs⟩ := s
  by_cases hc : (role = .server ∧ m.op.isUnbind = false ∧ ¬ m.id ∈ outstanding) <;>
  by_cases hb : allowedWhileBinding m.op = true <;>
  cases state <;> simp [sendBase, setCounter, hc, hb]

theorem serverSend_counter (k : Int) (s : Sess) (m : Msg) :
    serverSend (setCounter k s) m = (setCounter k (serverSend s m).1, (serverSend s m).2) := by
  unfold serverSend
  rw [sendBase_counter]
  cases h : (sendBase s m).2
  · simp [h]
  · simp only [h, if_true]
    split <;> rfl

/-! ### the receive side of a server -/

theorem serverProcess_counter (k : Int) (s : Sess) (m : Msg) :
    serverProcess (setCounter k s) m = (serverProcess s m).map (setCounter k) := by
  obtain ⟨role, state, out, outstanding, searches, counter, residue, regs⟩ := s
  obtain ⟨id, op, ctrls⟩ := m
  by_cases he : outstanding.isEmpty = true <;>
  by_cases hq : op.isRequest = true <;>
  cases op <;> cases state <;> simp [serverProcess, setCounter, he, hq]

theorem serverProcess_role (s s1 : Sess) (m : Msg) (h : serverProcess s m = some s1) : s1.role = s.role := by
  obtain ⟨role, state, out, outstanding, searches, counter, residue, regs⟩ := s
  obtain ⟨id, op, ctrls⟩ := m
  revert h
  by_cases he : outstanding.isEmpty = true <;>
  by_cases hq : op.isRequest = true <;>
  cases op <;> cases state <;> simp [serverProcess, he, hq] <;> (intro h; subst h; rfl)

theorem processLoop_counter (k : Int) (ms : List Msg) : ∀ s : Sess, s.role = .server →
    processLoop (setCounter k s) ms = mapProc (setCounter k) (processLoop s ms) := by
  induction ms with
  | nil => intro s _; rfl
  | cons m ms ih =>
    intro s hr
    unfold processLoop
    split
    · rfl
    · split
      · rfl
      · simp only [setCounter_role, hr, serverProcess_counter]
        cases h : serverProcess s m with
        | none => rfl
        | some s1 =>
          simp only [Option.map_some]
          exact ih s1 ((serverProcess_role s s1 m h).trans hr)

theorem closeSess_counter (k : Int) (s : Sess) : closeSess (setCounter k s) = setCounter k (closeSess s) := rfl

theorem recv_counter (k : Int) (d : Nat) (s : Sess) (chunk : Bytes) (hr : s.role = .server) :
    recv d (setCounter k s) chunk = (setCounter k (recv d s chunk).1, (recv d s chunk).2) := by
  by_cases hc : s.state = .closed
  · simp [recv, hc]
  · cases hp : parseLoop s.regs d (s.residue ++ chunk).length (s.residue ++ chunk) with
    | error e =>
      simp only [recv, setCounter_state, setCounter_residue, setCounter_regs, setCounter_role, hc, if_false, hp]
      rfl
    | ok p =>
      obtain ⟨ms, rest⟩ := p
      have h := processLoop_counter k ms { s with residue := rest } hr
      obtain ⟨role, state, out, outstanding, searches, counter, residue, regs⟩ := s
      simp only [setCounter] at h hc hp ⊢
      simp only [recv, hc, hp, if_false, h]
      cases processLoop _ ms <;> rfl

/-! ### item 1: `step` of a server commutes with overwriting the counter -/

theorem step_counter (k : Int) (s : Sess) (c : Call) (hr : s.role = .server) :
    step (setCounter k s) c = (setCounter k (step s c).1, (step s c).2) := by
  have hne : s.role ≠ .client := by rw [hr]; decide
  cases c with
  | receive chunk => exact recv_counter k defaultDepth s chunk hr
  | drain amount => rfl
  | register rk =>
    obtain ⟨role, state, out, outstanding, searches, counter, residue, ⟨rc, rf, ra⟩⟩ := s
    cases rk <;> cases rc <;> cases rf <;> cases ra <;> rfl
  | unbind =>
    simp only [step, sendBase_counter]
    cases h : (sendBase s unbindMsg).2
    · simp
    · simp; rfl
  | bind dn cred controls => simp [step, hne]
  | search base scope deref sl tl ty filter attrs controls => simp [step, hne]
  | extended name value controls => simp [step, hne]
  | bindResponse id sasl code mdn diag controls =>
    simp only [step, setCounter_role, hr, serverSend_counter]
    generalize serverSend s _ = p
    obtain ⟨s1, b⟩ := p
    cases b
    · simp
    · simp only [ne_eq, not_true_eq_false, if_false]
      split <;> rfl
  | extendedResponse id name value code mdn diag controls =>
    simp only [step, setCounter_role, hr, serverSend_counter]
    generalize serverSend s _ = p
    obtain ⟨s1, b⟩ := p
    cases b
    · simp
    · simp only [ne_eq, not_true_eq_false, if_false]
      split <;> rfl
  | entry id name attrs controls =>
    simp only [step, setCounter_role, hr, serverSend_counter]
    generalize serverSend s _ = p
    obtain ⟨s1, b⟩ := p
    cases b <;> simp
  | reference id uris controls =>
    simp only [step, setCounter_role, hr, serverSend_counter]
    generalize serverSend s _ = p
    obtain ⟨s1, b⟩ := p
    cases b <;> simp
  | done id code mdn diag controls =>
    simp only [step, setCounter_role, hr, serverSend_counter]
    generalize serverSend s _ = p
    obtain ⟨s1, b⟩ := p
    cases b
    · simp
    · simp
      rfl

/-- a server step leaves the counter as it is -/
theorem step_counter_unchanged (s : Sess) (c : Call) (hr : s.role = .server) : (step s c).1.counter = s.counter := by
  have h := step_counter s.counter s c hr
  rw [setCounter_self] at h
  have := congrArg (fun p => p.1.counter) h
  simpa using this.symm ▸ rfl

/-! ### item 2: histories -/

theorem run_role (cs : List Call) : ∀ s : Sess, (run s cs).1.role = s.role := by
  induction cs with
  | nil => intro s; rfl
  | cons c cs ih => intro s; simp only [run]; rw [ih]; exact step_role s c

theorem run_counter (k : Int) (cs : List Call) : ∀ s : Sess, s.role = .server →
    run (setCounter k s) cs = (setCounter k (run s cs).1, (run s cs).2) := by
  induction cs with
  | nil => intro s _; rfl
  | cons c cs ih =>
    intro s hr
    simp only [run]
    rw [step_counter k s c hr, ih (step s c).1 ((step_role s c).trans hr)]

theorem run_reachable (cs : List Call) : ∀ s : Sess, Reachable s → Reachable (run s cs).1 := by
  induction cs with
  | nil => intro s h; exact h
  | cons c cs ih => intro s h; simp only [run]; exact ih _ (Reachable.step s c h)

end Verif.Proofs.SessionGenBridge
