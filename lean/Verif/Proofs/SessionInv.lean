/-
Invariants of reachable sessions (client bookkeeping), preserved by every call.
-/
import Verif.Proofs.SessionStep

namespace Verif.Proofs
open Verif
set_option linter.unusedSimpArgs false

/-- bookkeeping invariant of a client session -/
structure CInv (s : Sess) : Prop where
  /-- nothing is in progress before the first message is sent -/
  fresh : s.state = .beforeOpen → s.outstanding = [] ∧ s.searches = []
  /-- searches are outstanding operations -/
  sub : s.state ≠ .closed → ∀ i ∈ s.searches, i ∈ s.outstanding

def Inv (s : Sess) : Prop := s.role = .client → CInv s

theorem CInv.of_closed {s : Sess} (h : s.state = .closed) : CInv s :=
  ⟨fun h' => by simp [h] at h', fun h' => absurd h h'⟩

theorem CInv.congr {s s' : Sess} (hi : CInv s) (h1 : s'.state = s.state)
    (h2 : s'.outstanding = s.outstanding) (h3 : s'.searches = s.searches) : CInv s' :=
  ⟨fun h => by rw [h2, h3]; exact hi.fresh (h1 ▸ h), fun h => by rw [h2, h3]; exact hi.sub (h1 ▸ h)⟩

theorem cliState_beforeOpen {st : SState} {op : Op} (h : cliState st op = .beforeOpen) :
    st = .beforeOpen := by
  cases op <;> simp [cliState] at h <;> try exact h
  split at h <;> simp_all

theorem cliState_ne_closed {st : SState} {op : Op} (h : st ≠ .closed) : cliState st op ≠ .closed := by
  cases op <;> simp [cliState] <;> try exact h
  split <;> simp_all

theorem clientProcess_cinv {s s' : Sess} {m : Msg} {b : Bool} (h : clientProcess s m = some (s', b))
    (hi : CInv s) (hs : s.state ≠ .closed) :
    CInv s' ∧ s'.state ≠ .closed ∧ b = false ∧ s'.state = cliState s.state m.op := by
  rw [clientProcess_eq] at h
  split at h
  next hc =>
    simp only [Option.some.injEq, Prod.mk.injEq] at h
    obtain ⟨rfl, rfl⟩ := h
    have hsub := hi.sub hs
    have hO : m.id ∈ s.outstanding := by
      rcases hc.2 with h' | h'
      · exact hsub _ h'
      · exact h'
    refine ⟨⟨?_, ?_⟩, cliState_ne_closed hs, ?_, rfl⟩
    · intro hb
      obtain ⟨ho, _⟩ := hi.fresh (cliState_beforeOpen hb)
      simp [ho] at hO
    · intro _ i hi'
      simp only at hi' ⊢
      by_cases h1 : m.id ∈ s.searches <;> by_cases h2 : opIsDone m.op = true <;>
        simp_all [mem_setErase]
      all_goals (intro e; exact h1 (e ▸ hi'))
    · simp [hO]
  next => simp at h


/-! ### one incoming message against the documented automaton -/

theorem cliState_spec (st : SState) (id : Int) (op : Op) (ctl : List Control)
    (h1 : st ≠ .closed) (h2 : st ≠ .beforeOpen) (hresp : op.isResponse = true)
    (hn : op.isNotice = false) :
    cliState st op = specNext st (evOfMsg ⟨id, op, ctl⟩) := by
  cases op <;> simp [Op.isResponse, opTag, Facts.responseOps, Facts.opBindRequest, Facts.opUnbindRequest,
    Facts.opSearchRequest, Facts.opExtendedRequest] at hresp
  case bindResp r sasl =>
    by_cases hc : r.code = Facts.codeSaslBindInProgress <;> cases st <;>
      simp_all [cliState, evOfMsg, specNext]
  case searchEntry => cases st <;> simp_all [cliState, evOfMsg, specNext]
  case searchDone => cases st <;> simp_all [cliState, evOfMsg, specNext]
  case searchRef => cases st <;> simp_all [cliState, evOfMsg, specNext]
  case extResp r name v =>
    cases name with
    | none => cases st <;> simp_all [cliState, evOfMsg, specNext]
    | some n =>
      have hn' : n ≠ Facts.oidNotice := by simpa [Op.isNotice] using hn
      cases st <;> simp_all [cliState, evOfMsg, specNext]

theorem srvState_spec (st : SState) (id : Int) (op : Op) (ctl : List Control)
    (h1 : st ≠ .closed) (hreq : op.isRequest = true) (hu : op.isUnbind = false) :
    srvState st op = specNext st (evOfMsg ⟨id, op, ctl⟩) := by
  cases op <;> simp [Op.isRequest, opTag, Facts.requestOps, Facts.opBindResponse, Facts.opSearchResultEntry,
    Facts.opSearchResultDone, Facts.opSearchResultReference, Facts.opExtendedResponse] at hreq
  case bindReq => cases st <;> simp_all [srvState, evOfMsg, specNext]
  case unbind => simp [Op.isUnbind] at hu
  case searchReq => cases st <;> simp_all [srvState, evOfMsg, specNext]
  case extReq => cases st <;> simp_all [srvState, evOfMsg, specNext]

theorem srvState_ne_closed {st : SState} {op : Op} (h : st ≠ .closed) : srvState st op ≠ .closed := by
  cases op <;> simp [srvState] <;> split <;> simp_all

/-! ### the delivery loop -/

theorem processLoop_client (ms : List Msg) : ∀ s : Sess, s.role = .client → CInv s → s.state ≠ .closed →
    (∀ s2, processLoop s ms = .ok s2 →
      CInv s2 ∧ s2.state ≠ .closed ∧ s2.state = (ms.map evOfMsg).foldl specNext s.state) ∧
    (∀ s2, processLoop s ms ≠ .keyErr s2) := by
  induction ms with
  | nil =>
    intro s _ hi hs
    simp only [processLoop]
    refine ⟨?_, by simp⟩
    intro s2 h
    simp only [ProcResult.ok.injEq] at h
    subst h
    exact ⟨hi, hs, rfl⟩
  | cons m ms ih =>
    intro s hr hi hs
    rw [processLoop_cons]
    by_cases hn : m.op.isNotice = true
    · simp [hn]
    by_cases hu : m.op.isUnbind = true
    · simp [hn, hu]
    simp only [hn, hu, hr, if_false, Bool.false_eq_true]
    cases hcp : clientProcess s m with
    | none => simp
    | some p =>
      obtain ⟨s1, b⟩ := p
      obtain ⟨hi1, hs1, hb, hst⟩ := clientProcess_cinv hcp hi hs
      subst hb
      have hr1 : s1.role = .client := (clientProcess_frame hcp).1.trans hr
      have hacc := (clientProcess_isSome s m).1 (by simp [hcp])
      have hnb : s.state ≠ .beforeOpen := by
        intro hb
        obtain ⟨h1, h2⟩ := hi.fresh hb
        simp [h1, h2] at hacc
      have hev : s1.state = specNext s.state (evOfMsg m) := by
        rw [hst]
        obtain ⟨id, op, ctl⟩ := m
        exact cliState_spec s.state id op ctl hs hnb hacc.1 (by simpa using hn)
      obtain ⟨ih1, ih2⟩ := ih s1 hr1 hi1 hs1
      refine ⟨?_, ih2⟩
      intro s2 h2
      obtain ⟨a, b, c⟩ := ih1 s2 h2
      refine ⟨a, b, ?_⟩
      rw [c, hev]
      rfl

theorem processLoop_server (ms : List Msg) : ∀ s : Sess, s.role = .server → s.state ≠ .closed →
    (∀ s2, processLoop s ms = .ok s2 →
      s2.state ≠ .closed ∧ s2.state = (ms.map evOfMsg).foldl specNext s.state) ∧
    (∀ s2, processLoop s ms ≠ .keyErr s2) := by
  induction ms with
  | nil =>
    intro s _ hs
    simp only [processLoop]
    refine ⟨?_, by simp⟩
    intro s2 h
    simp only [ProcResult.ok.injEq] at h
    subst h
    exact ⟨hs, rfl⟩
  | cons m ms ih =>
    intro s hr hs
    rw [processLoop_cons]
    by_cases hn : m.op.isNotice = true
    · simp [hn]
    by_cases hu : m.op.isUnbind = true
    · simp [hn, hu]
    simp only [hn, hu, hr, if_false, Bool.false_eq_true]
    cases hsp : serverProcess s m with
    | none => simp
    | some s1 =>
      have hr1 : s1.role = .server := (serverProcess_frame hsp).1.trans hr
      have hsp' := hsp
      rw [serverProcess_eq] at hsp'
      split at hsp'
      next hc =>
        simp only [Option.some.injEq] at hsp'
        have hst : s1.state = srvState s.state m.op := by rw [← hsp']
        have hs1 : s1.state ≠ .closed := by rw [hst]; exact srvState_ne_closed hs
        have hev : s1.state = specNext s.state (evOfMsg m) := by
          rw [hst]
          obtain ⟨id, op, ctl⟩ := m
          exact srvState_spec s.state id op ctl hs hc.1 (by simpa using hu)
        obtain ⟨ih1, ih2⟩ := ih s1 hr1 hs1
        refine ⟨?_, ih2⟩
        intro s2 h2
        obtain ⟨b, c⟩ := ih1 s2 h2
        refine ⟨b, ?_⟩
        rw [c, hev]
        rfl
      next => simp at hsp'

/-- the loop keeps the client invariant whatever way it ends -/
theorem processLoop_cinv (ms : List Msg) : ∀ s : Sess, CInv s → s.state ≠ .closed → s.role = .client →
    CInv (procSess (processLoop s ms)) := by
  induction ms with
  | nil => intro s hi _ _; simpa [processLoop, procSess] using hi
  | cons m ms ih =>
    intro s hi hs hr
    rw [processLoop_cons]
    by_cases hn : m.op.isNotice = true
    · simpa [hn, procSess] using hi
    by_cases hu : m.op.isUnbind = true
    · simpa [hn, hu, procSess] using hi
    simp only [hn, hu, hr, if_false, Bool.false_eq_true]
    cases hcp : clientProcess s m with
    | none => simpa [procSess] using hi
    | some p =>
      obtain ⟨s1, b⟩ := p
      obtain ⟨hi1, hs1, hb, _⟩ := clientProcess_cinv hcp hi hs
      subst hb
      exact ih s1 hi1 hs1 ((clientProcess_frame hcp).1.trans hr)


/-! ### frames of `recv` and `step` -/

theorem recv_frame (d : Nat) (s : Sess) (chunk : Bytes) :
    (recv d s chunk).1.role = s.role ∧ (recv d s chunk).1.out = s.out ∧
    (recv d s chunk).1.counter = s.counter ∧ (recv d s chunk).1.regs = s.regs := by
  rcases recv_cases d s chunk with ⟨_, h⟩ | ⟨_, e, _, h⟩ | ⟨_, ms, rest, _, h⟩
  · simp [h]
  · simp [h, closeSess]
  · have hf := processLoop_frame { s with residue := rest } ms
    rcases h with ⟨s2, hl, h⟩ | ⟨s2, u, n, hl, h⟩ | ⟨s2, hl, h⟩ <;>
      · rw [hl] at hf
        obtain ⟨f1, f2, f3, _, f5⟩ := hf
        simp only [procSess] at f1 f2 f3 f5
        simp [h, closeSess, f1, f2, f3, f5]

theorem step_role (s : Sess) (c : Call) : (step s c).1.role = s.role := by
  by_cases hs : c.isSend = true
  · rcases isSend_cases c hs with rfl | hc | hc
    · rcases step_unbind s with ⟨h, _⟩ | ⟨h, _⟩ <;> simp [h]
    · cases hr : s.role with
      | server => rw [step_clientReq_wrong_role s c hc hr]; exact hr
      | client =>
        obtain ⟨m, _, _, ⟨h, _⟩ | ⟨_, _, _, h⟩⟩ := step_clientReq s c hc hr <;> simp [h, hr]
    · cases hr : s.role with
      | client => rw [step_serverResp_wrong_role s c hc hr]; exact hr
      | server =>
        obtain ⟨id, hid⟩ := Option.isSome_iff_exists.1 hc
        obtain ⟨m, _, _, _, ⟨h, _⟩ | ⟨h, _⟩ | ⟨_, _, _, h⟩⟩ := step_serverResp s c id hid hr <;>
          simp [h, hr, (openUp_frame s).1]
  · cases c <;> simp [Call.isSend] at hs
    case receive chunk => exact (recv_frame _ s chunk).1
    case drain a => simp [step]
    case register k => cases k <;> simp [step] <;> split <;> simp

/-! ### the invariant is preserved by every call -/

theorem recv_inv (d : Nat) (s : Sess) (chunk : Bytes) (hr : s.role = .client) (hi : CInv s) :
    CInv (recv d s chunk).1 := by
  rcases recv_cases d s chunk with ⟨_, h⟩ | ⟨_, e, _, h⟩ | ⟨hs, ms, rest, _, h⟩
  · simpa [h] using hi
  · rw [h]; exact CInv.of_closed rfl
  · have hi0 : CInv { s with residue := rest } := hi.congr rfl rfl rfl
    have hc := processLoop_cinv ms { s with residue := rest } hi0 hs hr
    rcases h with ⟨s2, hl, h⟩ | ⟨s2, u, n, hl, h⟩ | ⟨s2, hl, h⟩
    · rw [hl] at hc; simpa [h, procSess] using hc
    · rw [h]; exact CInv.of_closed rfl
    · rw [hl] at hc; simpa [h, procSess] using hc

theorem step_inv (s : Sess) (c : Call) (hi : Inv s) : Inv (step s c).1 := by
  intro hr'
  have hr : s.role = .client := (step_role s c).symm.trans hr'
  have hi := hi hr
  by_cases hs : c.isSend = true
  · rcases isSend_cases c hs with rfl | hc | hc
    · rcases step_unbind s with ⟨h, _⟩ | ⟨h, _⟩
      · simpa [h] using hi
      · rw [h]; exact CInv.of_closed rfl
    · obtain ⟨m, _, _, ⟨h, _⟩ | ⟨hcl, _, _, h⟩⟩ := step_clientReq s c hc hr
      · simpa [h] using hi
      · rw [h]
        have hsub := hi.sub hcl
        refine ⟨?_, ?_⟩
        · intro hb
          simp only [openUp_state] at hb
          split at hb
          · simp at hb
          · split at hb <;> simp_all
        · intro _ i hmem
          simp only at hmem ⊢
          rw [mem_setInsert]
          split at hmem
          · rw [mem_setInsert] at hmem
            rcases hmem with h' | h'
            · exact Or.inl h'
            · exact Or.inr (hsub i h')
          · exact Or.inr (hsub i hmem)
    · rw [step_serverResp_wrong_role s c hc hr]; exact hi
  · cases c <;> simp [Call.isSend] at hs
    case receive chunk => exact recv_inv _ s chunk hr hi
    case drain a => exact hi.congr rfl rfl rfl
    case register k =>
      cases k <;> simp only [step] <;> split <;> first | exact hi | exact hi.congr rfl rfl rfl

theorem reachable_inv {s : Sess} (h : Reachable s) : Inv s := by
  induction h with
  | init r =>
    intro _
    exact ⟨fun _ => ⟨rfl, rfl⟩, fun _ i hi => by simp [Sess.init] at hi⟩
  | step s c _ ih => exact step_inv s c ih

end Verif.Proofs
