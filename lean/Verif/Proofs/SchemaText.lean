/-
C16: the text form (`__str__`) of a well-formed definition is a sentence of the corresponding
RFC 4512 grammar denoting that definition.
-/
import Verif.Proofs.SchemaGrammar

namespace Verif.Proofs.SchemaG
open Verif Verif.Schema Verif.Rfc4512 Verif.Rfc4515

/-! ### NAME -/

theorem joinWith_cons_cons' (sep a b : Str) (l : List Str) :
    Schema.joinWith sep (a :: b :: l) = a ++ sep ++ Schema.joinWith sep (b :: l) := rfl

theorem names_spSep : ∀ (ns : List Str), ns ≠ [] → (∀ n ∈ ns, IsDescr n) →
    SpSep QDescr ns ([39] ++ Schema.joinWith (ofString "' '") ns ++ [39])
  | [], h, _ => (h rfl).elim
  | [n], _, hd => .one n _ ⟨hd n (by simp), rfl⟩
  | n :: m :: rest, _, hd => by
    have ih := names_spSep (m :: rest) (by simp) (fun x hx => hd x (List.mem_cons_of_mem _ hx))
    have := SpSep.cons n ([39] ++ n ++ [39]) 0 (m :: rest) _ ⟨hd n (by simp), rfl⟩ ih
    rw [joinWith_cons_cons', show ofString "' '" = [39, 32, 39] by decide]
    rw [show [39] ++ (n ++ [39, 32, 39] ++ Schema.joinWith [39, 32, 39] (m :: rest)) ++ [39]
        = [39] ++ n ++ [39] ++ spT 0 ++ ([39] ++ Schema.joinWith [39, 32, 39] (m :: rest) ++ [39]) by
      simp [spT, List.replicate]]
    rw [show ofString "' '" = [39, 32, 39] by decide] at this
    exact this

theorem names_text {names : List Str} (h : ∀ n ∈ names, IsDescr n) : NamesPart names (namesText names) := by
  match names, h with
  | [], _ => exact Or.inl ⟨rfl, rfl⟩
  | [n], h =>
    refine Or.inr ⟨0, 0, [39] ++ n ++ [39], .bare n _ ⟨h n (by simp), rfl⟩, ?_⟩
    rw [namesText, show ofString " NAME '" = spT 0 ++ ofString "NAME" ++ spT 0 ++ [39] by decide]
    simp [QUOTE]
  | n :: m :: rest, h =>
    refine Or.inr ⟨0, 0, _, .list _ _ 1 1 (names_spSep (n :: m :: rest) (by simp) h), ?_⟩
    simp only [namesText]
    rw [show ofString " NAME ( '" = spT 0 ++ ofString "NAME" ++ spT 0 ++ [40] ++ wspT 1 ++ [39] by decide,
      show ofString "' )" = [39] ++ wspT 1 ++ [41] by decide]
    simp only [List.append_assoc]

/-! ### DESC and quoted strings -/

theorem encodeQd_enc (v : Str) :
    QdEnc v (v.map fun c => if c = BSLASH ∨ c = QUOTE then BSLASH :: hex2 c else [c]).flatten := by
  induction v with
  | nil => exact .nil
  | cons c v ih =>
    rw [List.map_cons, List.flatten_cons]
    by_cases h1 : c = 92
    · subst h1
      exact .bslash 99 v _ (Or.inr rfl) ih
    · by_cases h2 : c = 39
      · subst h2
        exact .quote v _ ih
      · rw [if_neg (by simp [BSLASH, QUOTE, h1, h2])]
        exact .raw c v _ h2 h1 ih

theorem encodeQd_qdString {v : Str} (hv : v ≠ []) : QdString v (encodeQd v) :=
  ⟨hv, _, encodeQd_enc v, rfl⟩

theorem desc_text {desc : Option Str} (h : match desc with | none => True | some v => v ≠ []) :
    DescPart desc (descText desc) := by
  cases desc with
  | none => rfl
  | some v =>
    refine ⟨0, 0, encodeQd v, encodeQd_qdString h, ?_⟩
    rw [descText, show ofString " DESC " = spT 0 ++ ofString "DESC" ++ spT 0 by decide]

/-! ### flags, oids -/

theorem flag_text (kw : String) (b : Bool) : FlagPart kw b (flagText kw b) := by
  cases b with
  | false => simp [FlagPart, flagText]
  | true => simp only [FlagPart, flagText, if_true]; exact ⟨0, rfl⟩

theorem oids_dollarSep : ∀ (l : List Str), l ≠ [] → (∀ x ∈ l, IsOidText x) →
    DollarSep l (Schema.joinWith (ofString " $ ") l)
  | [], h, _ => (h rfl).elim
  | [x], _, hd => .one x (hd x (by simp))
  | x :: y :: rest, _, hd => by
    have ih := oids_dollarSep (y :: rest) (by simp) (fun z hz => hd z (List.mem_cons_of_mem _ hz))
    have := DollarSep.cons x 1 1 (y :: rest) _ (hd x (by simp)) ih
    rw [joinWith_cons_cons', show ofString " $ " = [32, 36, 32] by decide]
    rw [show ofString " $ " = [32, 36, 32] by decide] at this
    rw [show x ++ [32, 36, 32] ++ Schema.joinWith [32, 36, 32] (y :: rest)
        = x ++ wspT 1 ++ [36] ++ wspT 1 ++ Schema.joinWith [32, 36, 32] (y :: rest) by simp [wspT, List.replicate]]
    exact this

theorem encodeOids_oids {l : List Str} (hne : l ≠ []) (h : ∀ x ∈ l, IsOidText x) : Oids l (encodeOids l) := by
  match l, hne, h with
  | [x], _, h => exact .bare x (h x (by simp))
  | x :: y :: rest, _, h =>
    have := Oids.list _ _ 1 1 (oids_dollarSep (x :: y :: rest) (by simp) h)
    simp only [encodeOids]
    rw [show ofString "( " = [40] ++ wspT 1 by decide, show ofString " )" = wspT 1 ++ [41] by decide]
    simpa only [List.append_assoc] using this

theorem oids_text (kw : String) {l : List Str} (h : ∀ x ∈ l, IsOidText x) : OidsPart kw l (oidsText kw l) := by
  cases l with
  | nil => exact Or.inl ⟨rfl, rfl⟩
  | cons x xs =>
    exact Or.inr ⟨by simp, 0, 0, _, encodeOids_oids (by simp) h, rfl⟩

theorem optOid_text (kw : String) {o : Option Str} (h : optOidWF o) : OptOidPart kw o (optOidText kw o) := by
  cases o with
  | none => rfl
  | some v => exact ⟨h, 0, 0, rfl⟩

/-! ### extensions -/

theorem qd_spSep : ∀ (vs : List Str), vs ≠ [] → (∀ v ∈ vs, v ≠ []) →
    SpSep QdString vs (Schema.joinWith [SPC] (vs.map encodeQd))
  | [], h, _ => (h rfl).elim
  | [v], _, hd => .one v _ (encodeQd_qdString (hd v (by simp)))
  | v :: w :: rest, _, hd => by
    have ih := qd_spSep (w :: rest) (by simp) (fun z hz => hd z (List.mem_cons_of_mem _ hz))
    exact SpSep.cons v (encodeQd v) 0 (w :: rest) _ (encodeQd_qdString (hd v (by simp))) ih

theorem exts_text : ∀ {e : List (Str × List Str)}, (∀ kv ∈ e, IsExtKey kv.1 ∧ ∀ v ∈ kv.2, v ≠ []) →
    ExtsEnc e (extsText e)
  | [], _ => .nil
  | (k, vs) :: rest, h => by
    have ih := exts_text (e := rest) (fun kv hkv => h kv (List.mem_cons_of_mem _ hkv))
    obtain ⟨hk, hvs⟩ := h (k, vs) (by simp)
    have hx : ofString " X-" = spT 0 ++ [88, 45] := by decide
    rw [extsText, List.map_cons, List.flatten_cons]
    change ExtsEnc ((k, vs) :: rest) (_ ++ extsText rest)
    match vs, hvs with
    | [], _ =>
      have := ExtsEnc.cons k [] 88 0 0 _ rest _ hk (Or.inl rfl) (.empty 2) ih
      simp only [hx, show ofString " ( " = spT 0 ++ [40] ++ wspT 1 by decide,
        show ofString " )" = wspT 1 ++ [41] by decide, List.map_nil, Schema.joinWith]
      rw [show spT 0 ++ [88, 45] ++ k ++ (spT 0 ++ [40] ++ wspT 1) ++ [] ++ (wspT 1 ++ [41]) ++ extsText rest
          = spT 0 ++ [88, 45] ++ k ++ spT 0 ++ ([40] ++ wspT 2 ++ [41]) ++ extsText rest by
        simp [wspT, List.replicate]]
      exact this
    | [v], hvs =>
      have := ExtsEnc.cons k [v] 88 0 0 _ rest _ hk (Or.inl rfl) (.bare v _ (encodeQd_qdString (hvs v (by simp)))) ih
      simp only [hx]
      exact this
    | v :: w :: more, hvs =>
      have := ExtsEnc.cons k (v :: w :: more) 88 0 0 _ rest _ hk (Or.inl rfl)
        (.list _ _ 1 1 (qd_spSep (v :: w :: more) (by simp) hvs)) ih
      simp only [hx, show ofString " ( " = spT 0 ++ [40] ++ wspT 1 by decide,
        show ofString " )" = wspT 1 ++ [41] by decide]
      simpa only [List.append_assoc] using this

/-! ### SYNTAX, USAGE -/

def synText (syn : Option Str) (len : Option Nat) : Str :=
  match syn with
  | none => []
  | some s => ofString " SYNTAX " ++ s ++
     (match len with | none => [] | some n => [LCURLY] ++ natDigits n ++ [RCURLY])

def usageText (u : Nat) : Str := if u ≠ 0 then ofString " USAGE " ++ ofString (usageName u) else []

theorem syntax_text {syn : Option Str} {len : Option Nat}
    (h : match syn with | none => len = none | some v => IsNumericOidText v) :
    SyntaxPart syn len (synText syn len) := by
  cases syn with
  | none => exact ⟨h, rfl⟩
  | some v =>
    refine ⟨h, 0, 0, false, ?_⟩
    have hs : ofString " SYNTAX " = spT 0 ++ ofString "SYNTAX" ++ spT 0 := by decide
    cases len with
    | none => simp [synText, hs]
    | some n => simp [synText, hs, LCURLY, RCURLY]

theorem usage_text {u : Nat} (h : u ≤ 3) : UsagePart u (usageText u) := by
  refine ⟨h, ?_⟩
  by_cases h0 : u = 0
  · exact Or.inl ⟨h0, by simp [usageText, h0]⟩
  · refine Or.inr ⟨0, 0, ?_⟩
    rw [usageText, if_pos h0, show ofString " USAGE " = spT 0 ++ ofString "USAGE" ++ spT 0 by decide]

theorem atToText_eq (d : AttributeType) :
    atToText d = ofString "( " ++ d.oid ++ namesText d.names ++ descText d.desc ++ flagText "OBSOLETE" d.obsolete ++
      optOidText "SUP" d.sup ++ optOidText "EQUALITY" d.equality ++ optOidText "ORDERING" d.ordering ++
      optOidText "SUBSTR" d.substr ++ synText d.syn d.synLen ++
      flagText "SINGLE-VALUE" d.singleValue ++ flagText "COLLECTIVE" d.collective ++
      flagText "NO-USER-MODIFICATION" d.noUserMod ++ usageText d.usage ++ extsText d.exts ++ ofString " )" := rfl

end Verif.Proofs.SchemaG

namespace Verif.Proofs
open Verif Verif.Schema Verif.Rfc4512
open Verif.Proofs.SchemaG

theorem ocToText_sentence (d : ObjectClass) (h : ObjectClass.WF d) : OCSent d (ocToText d) := by
  obtain ⟨⟨hoid, hnames, hdesc, hexts⟩, hkind, hsup, hmust, hmay⟩ := h
  refine ⟨hoid, hexts.1, 1, namesText d.names, descText d.desc, flagText "OBSOLETE" d.obsolete,
    oidsText "SUP" d.sup, [SPC] ++ ofString (kindName d.kind), oidsText "MUST" d.must, oidsText "MAY" d.may,
    extsText d.exts, 1, names_text hnames, desc_text hdesc, flag_text _ _, oids_text _ hsup,
    ⟨hkind, Or.inr ⟨0, rfl⟩⟩, oids_text _ hmust, oids_text _ hmay, exts_text hexts.2, ?_⟩
  rw [ocToText, show ofString "( " = [40] ++ wspT 1 by decide, show ofString " )" = wspT 1 ++ [41] by decide]
  simp only [List.append_assoc]

theorem dcrToText_sentence (d : DITContentRule) (h : DITContentRule.WF d) : DCRSent d (dcrToText d) := by
  obtain ⟨⟨hoid, hnames, hdesc, hexts⟩, haux, hmust, hmay, hnot⟩ := h
  refine ⟨hoid, hexts.1, 1, namesText d.names, descText d.desc, flagText "OBSOLETE" d.obsolete,
    oidsText "AUX" d.aux, oidsText "MUST" d.must, oidsText "MAY" d.may, oidsText "NOT" d.never,
    extsText d.exts, 1, names_text hnames, desc_text hdesc, flag_text _ _, oids_text _ haux,
    oids_text _ hmust, oids_text _ hmay, oids_text _ hnot, exts_text hexts.2, ?_⟩
  rw [dcrToText, show ofString "( " = [40] ++ wspT 1 by decide, show ofString " )" = wspT 1 ++ [41] by decide]
  simp only [List.append_assoc]

theorem atToText_sentence (d : AttributeType) (h : AttributeType.WF d) : ATSent d (atToText d) := by
  obtain ⟨⟨hoid, hnames, hdesc, hexts⟩, husage, hsup, heq, hord, hsub, hsyn⟩ := h
  refine ⟨hoid, hexts.1, 1, namesText d.names, descText d.desc, flagText "OBSOLETE" d.obsolete,
    optOidText "SUP" d.sup, optOidText "EQUALITY" d.equality, optOidText "ORDERING" d.ordering,
    optOidText "SUBSTR" d.substr, synText d.syn d.synLen, flagText "SINGLE-VALUE" d.singleValue,
    flagText "COLLECTIVE" d.collective, flagText "NO-USER-MODIFICATION" d.noUserMod, usageText d.usage,
    extsText d.exts, 1, names_text hnames, desc_text hdesc, flag_text _ _, optOid_text _ hsup,
    optOid_text _ heq, optOid_text _ hord, optOid_text _ hsub, syntax_text hsyn, flag_text _ _, flag_text _ _,
    flag_text _ _, usage_text husage, exts_text hexts.2, ?_⟩
  rw [atToText_eq, show ofString "( " = [40] ++ wspT 1 by decide, show ofString " )" = wspT 1 ++ [41] by decide]
  simp only [List.append_assoc]

end Verif.Proofs
