/-
C15 (addition) — the library's attribute pattern accepts exactly the RFC 4512 attribute
descriptions and the single-arc numeric OIDs of finding F-C15d.

`IsAttrDesc a → validAttr a` is `FilterGrammar.validAttr_attrDesc`; here: the single-arc case
and the converse (each scanner is sound: what it consumes is a piece of the grammar).
-/
import Verif.Spec.C13More
import Verif.Proofs.FilterGrammarBase

namespace Verif.Proofs.C13More
open Verif Verif.Rfc4515 Verif.Proofs Verif.Proofs.FilterGrammar

theorem optionsText_eq (opts : List Bytes) : optionsText opts = optsText opts := rfl

/-! ### single-arc numeric OIDs are accepted -/

theorem validAttr_singleArc {a : Bytes} (h : IsSingleArcAttr a) : validAttr a = true := by
  obtain ⟨n, opts, hn, ho, rfl⟩ := h
  rw [optionsText_eq]
  have hscan := scanNumber_number hn (optsText opts) (noDigit_of_starts (by decide) (optsText_starts opts))
  obtain ⟨c, r, rfl⟩ : ∃ c r, n = c :: r := by
    cases n with
    | nil => exact absurd rfl (isNumber_ne_nil hn)
    | cons c r => exact ⟨c, r, rfl⟩
  have hdig : isDigit c = true := isNumber_digits hn c (by simp)
  have hnal : isAlpha c = false := by
    simp only [isDigit, Bool.and_eq_true, decide_eq_true_eq] at hdig
    simp [isAlpha]; omega
  have hl2 := optsText_length opts
  rw [List.cons_append] at hscan ⊢
  rw [validAttr, hnal]
  simp only [Bool.false_eq_true, if_false, hscan]
  rw [scanArcs_stop _ _ (optsText_starts opts)]
  exact scanOptions_optsText opts ho _ (by
    simp only [List.length_cons, List.length_append]; omega)

/-! ### soundness of the scanners -/

theorem takeWhile_all (p : Nat → Bool) (l : Bytes) : ∀ x ∈ l.takeWhile p, p x = true := by
  induction l with
  | nil => intro x hx; cases hx
  | cons a l ih =>
    intro x hx
    by_cases ha : p a = true
    · rw [List.takeWhile_cons_of_pos ha] at hx
      rcases List.mem_cons.1 hx with rfl | hx
      · exact ha
      · exact ih x hx
    · rw [List.takeWhile_cons_of_neg ha] at hx; cases hx

theorem length_take_drop_while (p : Nat → Bool) (l : Bytes) :
    (l.takeWhile p).length + (l.dropWhile p).length = l.length := by
  have h : (l.takeWhile p ++ l.dropWhile p).length = l.length := by
    rw [List.takeWhile_append_dropWhile]
  rw [List.length_append] at h
  exact h

theorem scanOptions_sound : ∀ (fuel : Nat) (l : Bytes), scanOptions fuel l = true →
    ∃ opts : List Bytes, (∀ o ∈ opts, o ≠ [] ∧ ∀ x ∈ o, isKeyCh x = true) ∧ l = optsText opts := by
  intro fuel
  induction fuel with
  | zero =>
    intro l h
    cases l with
    | nil => exact ⟨[], by simp, rfl⟩
    | cons c r => simp [scanOptions] at h
  | succ fuel ih =>
    intro l h
    cases l with
    | nil => exact ⟨[], by simp, rfl⟩
    | cons c r =>
      rw [scanOptions] at h
      split at h
      · rename_i hc
        simp only at h
        split at h
        · rename_i hlen
          obtain ⟨opts, ho, hrest⟩ := ih _ h
          refine ⟨r.takeWhile isKeyChar :: opts, ?_, ?_⟩
          · intro o hm
            rcases List.mem_cons.1 hm with rfl | hm
            · refine ⟨?_, fun x hx => by rw [keyCh_eq]; exact takeWhile_all _ _ x hx⟩
              intro hnil
              have := length_take_drop_while isKeyChar r
              rw [hnil] at this
              simp at this
              omega
            · exact ho o hm
          · rw [optsText_cons, ← hrest, List.takeWhile_append_dropWhile, hc]; rfl
        · cases h
      · cases h

theorem isNumber_lead (c : Nat) (ds : Bytes) (h1 : 49 ≤ c) (h2 : c ≤ 57) (hd : ∀ x ∈ ds, isDigit x = true) :
    IsNumber (c :: ds) := by
  cases ds with
  | nil => exact ⟨by omega, h2⟩
  | cons d ds =>
    refine ⟨h1, h2, fun x hx => ?_⟩
    have := hd x hx
    simpa [isDigit] using this

theorem scanNumber_sound {l r : Bytes} (h : scanNumber l = some r) : ∃ n, IsNumber n ∧ l = n ++ r := by
  cases l with
  | nil => cases h
  | cons c t =>
    rw [scanNumber] at h
    split at h
    · rename_i hc
      injection h with h
      subst h hc
      exact ⟨[48], ⟨by omega, by omega⟩, rfl⟩
    · split at h
      · rename_i hc
        injection h with h
        subst h
        refine ⟨c :: t.takeWhile isDigit, isNumber_lead c _ hc.1 hc.2 (takeWhile_all _ _), ?_⟩
        rw [List.cons_append, List.takeWhile_append_dropWhile]
      · cases h

theorem scanArcs_sound : ∀ (fuel : Nat) (l : Bytes),
    ∃ arcs : List Bytes, (∀ a ∈ arcs, IsNumber a) ∧ l = arcsTail arcs ++ scanArcs fuel l := by
  intro fuel
  induction fuel with
  | zero => intro l; exact ⟨[], by simp, by simp [arcsTail, scanArcs]⟩
  | succ fuel ih =>
    intro l
    cases l with
    | nil => exact ⟨[], by simp, by simp [arcsTail, scanArcs]⟩
    | cons c r =>
      rw [scanArcs]
      split
      · rename_i hc
        split
        · rename_i r' hr'
          obtain ⟨n, hn, hr⟩ := scanNumber_sound hr'
          obtain ⟨arcs, ha, hrest⟩ := ih r'
          refine ⟨n :: arcs, ?_, ?_⟩
          · intro a hm
            rcases List.mem_cons.1 hm with rfl | hm
            · exact hn
            · exact ha a hm
          · rw [arcsTail_cons, hc, hr, List.cons_append, List.append_assoc, ← hrest]; rfl
        · exact ⟨[], by simp, by simp [arcsTail]⟩
      · exact ⟨[], by simp, by simp [arcsTail]⟩

/-! ### the converse: whatever the pattern accepts is an attribute description or F-C15d -/

theorem validAttr_sound {a : Bytes} (h : validAttr a = true) : IsAttrDesc a ∨ IsSingleArcAttr a := by
  cases a with
  | nil => simp [validAttr] at h
  | cons c r =>
    rw [validAttr] at h
    split at h
    · rename_i hal
      obtain ⟨opts, ho, hrest⟩ := scanOptions_sound _ _ h
      left
      have hd : IsDescr (c :: r.takeWhile isKeyChar) :=
        ⟨by rw [lead_eq]; exact hal, fun x hx => by rw [keyCh_eq]; exact takeWhile_all _ _ x hx⟩
      have := IsAttrDesc.mk _ opts (IsOid.descr _ hd) ho
      have heq : c :: r = (c :: r.takeWhile isKeyChar) ++ (opts.map (fun o => 59 :: o)).flatten := by
        rw [List.cons_append]
        congr 1
        have : r.dropWhile isKeyChar = (opts.map (fun o => 59 :: o)).flatten := hrest
        rw [← this, List.takeWhile_append_dropWhile]
      rw [heq]; exact this
    · split at h
      · rename_i r' hr'
        obtain ⟨n, hn, hnr⟩ := scanNumber_sound hr'
        obtain ⟨arcs, ha, harcs⟩ := scanArcs_sound (c :: r).length r'
        obtain ⟨opts, ho, hrest⟩ := scanOptions_sound _ _ h
        cases arcs with
        | nil =>
          right
          refine ⟨n, opts, hn, ho, ?_⟩
          rw [hnr, harcs, hrest]; simp [arcsTail, optionsText_eq]
        | cons b bs =>
          left
          have hoid : IsOid (joinWith [46] (n :: b :: bs)) := IsOid.numeric _ ⟨by simp, by
            intro x hx
            rcases List.mem_cons.1 hx with rfl | hx
            · exact hn
            · exact ha x hx⟩
          have := IsAttrDesc.mk _ opts hoid ho
          have heq : c :: r = joinWith [46] (n :: b :: bs) ++ (opts.map (fun o => 59 :: o)).flatten := by
            rw [joinWith_dot, hnr, List.append_assoc]
            congr 1
            have : scanArcs (c :: r).length r' = (opts.map (fun o => 59 :: o)).flatten := hrest
            rw [← this]; exact harcs
          rw [heq]; exact this
      · cases h

theorem validAttr_iff (a : Bytes) : validAttr a = true ↔ IsAttrDesc a ∨ IsSingleArcAttr a :=
  ⟨validAttr_sound, fun h => h.elim validAttr_attrDesc validAttr_singleArc⟩

/-- the two alternatives are disjoint: an attribute description has a letter first or a dot
    before any `;`, a single arc has neither — stated through the characterising data -/
theorem singleArc_head_digit {a : Bytes} (h : IsSingleArcAttr a) : ∃ c r, a = c :: r ∧ isDigit c = true := by
  obtain ⟨n, opts, hn, _, rfl⟩ := h
  cases n with
  | nil => exact absurd rfl (isNumber_ne_nil hn)
  | cons c r => exact ⟨c, _, rfl, isNumber_digits hn c (by simp)⟩

end Verif.Proofs.C13More
