/-
Tie between the schema patterns and the scanner of `Model/Schema.lean`, part 3: QDESCR,
QDSTRING, XSTRING, EXTENSIONS, NOIDLEN and the keyword alternatives, in the `Det` calculus.

Core Lean only.
-/
import Verif.Proofs.ReSchema
import Verif.Proofs.ReSchemaMatchParts

set_option linter.unusedSimpArgs false
set_option linter.unusedVariables false

namespace Verif.Proofs.SchemaTie
open Verif Verif.Re Verif.Proofs.ReCost Verif.Proofs.Small Verif.Proofs.SchemaRe

/-! ### QDESCR -/

theorem qdescr_qdet : QDet qdescrThen Schema.descr where
  item := qdescr_item
  coreSuf := (descr_det (P := fun _ => false) (fun _ h => by simp at h)).suf
  det := @fun r P sr hr hf =>
    (Det.cat_top (Det.cls cQuote top) (Det.cat_top (Det.cls cAlpha top)
      (Det.cat (startsIn cQuote) (Det.starCls cAnh quote_anh.starts) hr (filter_nil_of_fails hf _)))).congr
      (fun s => by
        cases clsScan cQuote s with
        | none => rfl
        | some t =>
          simp only [Option.bind_some, descr_eq]
          cases clsScan cAlpha t <;> rfl)

theorem qdescr_eq (s : List Nat) : Schema.qdescr s = itemScan Schema.descr s := by
  cases s with
  | nil => rfl
  | cons c r =>
    simp only [Schema.qdescr, itemScan, clsScan_cons, cQuote, inCls_single, Schema.QUOTE]
    by_cases hc : c = 39
    · simp only [hc, if_true, decide_true, Option.bind_some]
      cases Schema.descr r with
      | none => rfl
      | some t =>
        cases t with
        | nil => rfl
        | cons c2 r2 =>
          simp only [Option.bind_some, clsScan_cons, inCls_single]
          by_cases h2 : c2 = 39 <;> simp [h2]
    · simp [hc]

theorem qdescrs_det (P : List Nat → Bool) : Det qdescrs P (Schema.itemOrList Schema.qdescr) :=
  qdescr_qdet.itemOrList_det _ qdescr_eq P

/-! ### QDSTRING -/

/-- one DSTRING item -/
def dsStep : Scan
  | [] => none
  | c :: r =>
    if c = Schema.QUOTE then none
    else if c = Schema.BSLASH then
      match r with
      | a :: b :: r' => if (a = 53 ∧ (b = 67 ∨ b = 99)) ∨ (a = 50 ∧ b = 55) then some r' else none
      | _ => none
    else some r

theorem dstringItems_eq : ∀ n s, Schema.dstringItems n s = iter dsStep n s
  | 0, s => rfl
  | n+1, s => by
    cases s with
    | nil => rfl
    | cons c r =>
      simp only [Schema.dstringItems, iter, dsStep]
      by_cases hq : c = Schema.QUOTE
      · simp [hq]
      · simp only [hq, if_false]
        by_cases hb : c = Schema.BSLASH
        · simp only [hb, if_true]
          match r with
          | [] => rfl
          | [a] => rfl
          | a :: b :: r' =>
            simp only
            split
            · exact dstringItems_eq n r'
            · rfl
        · simp only [hb, if_false]
          exact dstringItems_eq n r

theorem dsStep_lt : Lt dsStep := by
  intro s t h
  cases s with
  | nil => simp [dsStep] at h
  | cons c r =>
    simp only [dsStep] at h
    split at h
    · cases h
    · split at h
      · match r, h with
        | [], h => simp at h
        | [a], h => simp at h
        | a :: b :: r', h =>
          simp only at h
          split at h
          · cases h; simp; omega
          · cases h
      · cases h; simp

theorem dsStep_suf : Suf dsStep := by
  intro s t h
  cases s with
  | nil => simp [dsStep] at h
  | cons c r =>
    simp only [dsStep] at h
    split at h
    · cases h
    · split at h
      · match r, h with
        | [], h => simp at h
        | [a], h => simp at h
        | a :: b :: r', h =>
          simp only at h
          split at h
          · cases h; exact (List.suffix_cons _ _).trans ((List.suffix_cons _ _).trans (List.suffix_cons _ _))
          · cases h
      · cases h; exact List.suffix_cons _ _

theorem inCls_plain (c : Nat) (h : c < 0x110000) : inCls cPlain c = (c != 39 && c != 92) := by
  rw [Bool.eq_iff_iff]; simp [inCls, cPlain]; omega

def esc5Scan : Scan := fun s => (clsScan cBs s).bind (fun a => (clsScan c5 a).bind (clsScan [(67, 67), (99, 99)]))
def esc27Scan : Scan := fun s => (clsScan cBs s).bind (fun a => (clsScan c2 a).bind (clsScan [(55, 55)]))

theorem dsItem_det : Det dsItem top dsStep := by
  have h5 : Det dsEsc5 top esc5Scan := Det.cat_top (Det.cls cBs top) (Det.cat_top (Det.cls c5 top) (Det.cls _ top))
  have h27 : Det dsEsc27 top esc27Scan := Det.cat_top (Det.cls cBs top) (Det.cat_top (Det.cls c2 top) (Det.cls _ top))
  have hin : Det (Re.alt dsEsc27 (Re.cls cPlain)) top (fun s => (esc27Scan s).or (clsScan cPlain s)) := by
    refine Det.alt h27 (Det.cls cPlain top) (fun s hs => ?_)
    have : startsIn cBs s = true := by
      apply clsScan_ne_none (ivs := cBs)
      intro hc; apply hs; unfold esc27Scan; rw [hc]; rfl
    rw [clsScan_eq_none (bs_plain.starts s this)]; rfl
  have hall := Det.alt h5 hin (fun s hs => by
    cases s with
    | nil => simp [esc5Scan, clsScan_nil] at hs
    | cons c r =>
      simp only [esc5Scan, esc27Scan, clsScan_cons] at hs ⊢
      by_cases hc : inCls cBs c = true
      · have hp : inCls cPlain c = false := bs_plain c hc
        simp only [hc, if_true, Option.bind_some, hp] at hs ⊢
        cases r with
        | nil => simp [clsScan_nil]
        | cons a r1 =>
          simp only [clsScan_cons] at hs ⊢
          by_cases ha : inCls c5 a = true
          · have : inCls c2 a = false := by
              simp [inCls, c5, c2] at ha ⊢; omega
            simp [this]
          · simp [ha] at hs
      · simp [hc] at hs)
  refine hall.congr_valid (fun s hv => ?_) dsStep_suf
  cases s with
  | nil => rfl
  | cons c r =>
    have hc := hv.head
    simp only [esc5Scan, esc27Scan, clsScan_cons, dsStep, inCls_plain c hc, cBs, inCls_single, Schema.QUOTE,
      Schema.BSLASH]
    by_cases hq : c = 39
    · subst hq; simp
    · by_cases hb : c = 92
      · subst hb
        simp only [if_true, decide_true, Option.bind_some]
        match r with
        | [] => rfl
        | [a] =>
          simp only [clsScan_cons, clsScan_nil]
          cases inCls c5 a <;> cases inCls c2 a <;> rfl
        | a :: b :: r' =>
          simp only [clsScan_cons, c5, c2, inCls_single]
          by_cases h53 : a = 53
          · subst h53
            by_cases h67 : b = 67
            · simp [h67, clsScan_cons, inCls]
            · by_cases h99 : b = 99
              · simp [h99, clsScan_cons, inCls]
              · simp [h67, h99, clsScan_cons, inCls]; omega
          · by_cases h50 : a = 50
            · subst h50
              by_cases h55 : b = 55
              · simp [h55, clsScan_cons, inCls]
              · simp [h55, clsScan_cons, inCls]; omega
            · simp [h53, h50]
      · simp [hq, hb]

theorem dsStep_quote {s : List Nat} (h : startsIn cQuote s = true) : dsStep s = none := by
  cases s with
  | nil => rfl
  | cons c r =>
    have : c = 39 := by simpa [cQuote, inCls_single] using h
    simp [dsStep, this, Schema.QUOTE]

theorem dsStar_det : Det (Re.star dsItem) (startsIn cQuote) (fun s => some (iter dsStep s.length s)) :=
  Det.star top dsItem_det dsStep_lt (fun t ht => by simp at ht) (fun s hs => dsStep_quote hs)

/-- DSTRING: one or more items -/
def dsPlus : Scan := fun s => (dsStep s).bind (fun u => some (iter dsStep u.length u))

theorem dsItems_det : Det dsItems (startsIn cQuote) dsPlus := Det.cat_top dsItem_det dsStar_det

theorem qdstring_qdet : QDet qdstringThen dsPlus where
  item := qdstring_item
  coreSuf := dsItems_det.suf
  det := @fun r P sr hr hf =>
    (Det.cat_top (Det.cls cQuote top) (Det.cat (startsIn cQuote) dsItems_det hr (filter_nil_of_fails hf _))).congr
      (fun s => rfl)

theorem qdstring_eq (s : List Nat) : Schema.qdstring s = itemScan dsPlus s := by
  cases s with
  | nil => rfl
  | cons c r =>
    simp only [Schema.qdstring, itemScan, clsScan_cons, cQuote, inCls_single, Schema.QUOTE]
    by_cases hc : c = 39
    · simp only [hc, if_true, decide_true, Option.bind_some, dstringItems_eq]
      have := iter_plus dsStep_lt r.length r (Nat.le_refl _)
      unfold dsPlus
      rw [← this]
      split
      · cases iter dsStep r.length r with
        | nil => rfl
        | cons c2 r2 =>
          simp only [Option.bind_some, clsScan_cons, inCls_single]
          by_cases h2 : c2 = 39 <;> simp [h2]
      · rfl
    · simp [hc]

theorem qdstring_det (P : List Nat → Bool) : Det SchemaRe.qdstring P Schema.qdstring :=
  (qdstring_qdet.item_det P).congr (fun s => (qdstring_eq s).symm)

theorem qdstrings_det (P : List Nat → Bool) : Det qdstrings P (Schema.itemOrList Schema.qdstring) :=
  qdstring_qdet.itemOrList_det _ qdstring_eq P

theorem qdstring_lt : Lt Schema.qdstring := by
  intro s t h
  rw [qdstring_eq] at h
  unfold itemScan at h
  cases hc : clsScan cQuote s with
  | none => simp [hc] at h
  | some u =>
    have := clsScan_lt hc
    have h' : itemScan dsPlus s = some t := h
    have := (qdstring_qdet.itemSuf s t h').length_le
    simp [hc] at h
    cases hd : dsPlus u with
    | none => simp [hd] at h
    | some v =>
      simp [hd] at h
      have := (dsItems_det.suf u v hd).length_le
      have := clsScan_lt h
      omega

/-! ### XSTRING, EXTENSIONS -/

def xScan : Scan := fun s =>
  (clsScan cXx s).bind (fun a => (clsScan [(45, 45)] a).bind (fun b => (clsScan cXC b).bind
    (fun d => some (d.dropWhile (inCls cXC)))))

theorem xScan_det {P : List Nat → Bool} (hP : ∀ t, P t = true → startsIn cXC t = false) :
    Det SchemaRe.xstring P xScan :=
  Det.cat_top (Det.cls cXx top) (Det.cat_top (Det.cls _ top) (Det.cat_top (Det.cls cXC top) (Det.starCls cXC hP)))

theorem inCls_xx (c : Nat) : inCls cXx c = decide (c = 120 ∨ c = 88) := by
  rw [Bool.eq_iff_iff]; simp [inCls, cXx]; omega

theorem xstring_eq (s : List Nat) : Schema.xstring s = xScan s := by
  have hx : (fun x => Schema.isAlpha x || x == Schema.HYPHEN || x == Schema.USCORE) = inCls cXC := inCls_xc.symm
  match s with
  | [] => rfl
  | [c] =>
    simp only [Schema.xstring, xScan, clsScan_cons, clsScan_nil]
    cases inCls cXx c <;> rfl
  | c :: d :: r =>
    simp only [Schema.xstring, hx, xScan, clsScan_cons, inCls_xx, inCls_single]
    have h45 : Schema.HYPHEN = 45 := rfl
    by_cases hc : c = 120 ∨ c = 88
    · by_cases hd : d = 45
      · simp only [hc, hd, h45, and_self, if_true, decide_true, Option.bind_some]
        cases r with
        | nil => rfl
        | cons e r1 =>
          simp only [clsScan_cons, List.dropWhile_cons]
          cases he : inCls cXC e with
          | true =>
            have := (dropWhile_suffix (inCls cXC) r1).length_le
            simp only [if_true, Option.bind_some, List.length_cons, inCls_single, decide_true, clsScan_cons, he]
            rw [if_pos (by omega)]
          | false => simp [inCls_single, clsScan_cons, he]
      · simp [hc, hd, h45, inCls_single, clsScan_cons]
    · simp [hc]

theorem xstring_det {P : List Nat → Bool} (hP : ∀ t, P t = true → startsIn cXC t = false) :
    Det SchemaRe.xstring P Schema.xstring :=
  (xScan_det hP).congr (fun s => (xstring_eq s).symm)

/-- one extension: `SP XSTRING SP QDSTRINGS` -/
def extStep : Scan := fun s =>
  (((Schema.sp1 s).bind Schema.xstring).bind Schema.sp1).bind (Schema.itemOrList Schema.qdstring)

theorem extStep_det : Det ext top extStep := by
  refine (Det.cat NS (sp_det notStartsIn_self_false)
    (Det.cat S (xstring_det space_xc.starts)
      (Det.cat NS (sp_det notStartsIn_self_false) (qdstrings_det top)
        (filter_nil_of_fails qdstrings_val.dead.fails _))
      (filter_nil_of_fails (sp_then_dead _).fails _))
    (filter_nil_of_fails extBody_dead.fails _)).congr (fun s => ?_)
  unfold extStep
  cases Schema.sp1 s with
  | none => rfl
  | some a =>
    simp only [Option.bind_some]
    cases Schema.xstring a <;> rfl

theorem extStep_lt : Lt extStep := by
  intro s t h
  have hsuf := extStep_det.suf
  unfold extStep at h
  cases hs : Schema.sp1 s with
  | none => simp [hs] at h
  | some a =>
    have h1 := sp1_lt s a hs
    have : (fun s => ((Schema.xstring s).bind Schema.sp1).bind (Schema.itemOrList Schema.qdstring)) a = some t := by
      simpa [hs] using h
    have hs2 : Suf (fun s => ((Schema.xstring s).bind Schema.sp1).bind (Schema.itemOrList Schema.qdstring)) :=
      (((xstring_det (P := fun _ => false) (fun _ h => by simp at h)).suf.bind
        (sp_det (P := fun _ => false) (fun _ h => by simp at h)).suf).bind (qdstrings_det top).suf)
    have := (hs2 a t this).length_le
    omega

theorem extensions_eq : ∀ n s, Schema.extensions n s = iter extStep n s
  | 0, s => rfl
  | n+1, s => by
    simp only [Schema.extensions, iter]
    show (match extStep s with | some r => Schema.extensions n r | none => s) = _
    cases extStep s with
    | none => rfl
    | some r => exact extensions_eq n r

theorem extStep_PC {s : List Nat} (hs : PC s = true) : extStep s = none := by
  unfold extStep
  cases hsp : Schema.sp1 s with
  | none => rfl
  | some t =>
    rw [PC_eq, sp1_wsp hsp] at hs
    have : startsIn cXx t = false := by
      cases hx : startsIn cXx t with
      | false => rfl
      | true =>
        have : Disj cRP cXx := by cls_arith
        have := this.starts t hs; rw [hx] at this; cases this
    simp only [Option.bind_some, xstring_eq, xScan, clsScan_eq_none this, Option.bind_none]

/-- EXTENSIONS, seen from the closing parenthesis -/
theorem exts_det : Det exts PC (fun s => some (iter extStep s.length s)) :=
  Det.star top extStep_det extStep_lt (fun t ht => by simp at ht) (fun s hs => extStep_PC hs)

/-! ### NOIDLEN, the SYNTAX value -/

/-- `\{NUMBER\}` -/
def lenScan : Scan := fun s => (clsScan cLbrace s).bind (fun a => (Schema.number a).bind (clsScan cRbrace))

theorem lenScan_det (P : List Nat → Bool) : Det noidLen P lenScan :=
  Det.cat_top (Det.cls cLbrace top) (Det.cat (startsIn cRbrace) (number_det rbrace_digit.starts) (Det.cls cRbrace P)
    (filter_nil_of_fails (Fails.cls _) _))

/-- space or `)`: where the rest of a description can go on after a value -/
def cSR : List (Nat × Nat) := [(32, 32), (41, 41)]
abbrev SR : List Nat → Bool := startsIn cSR

theorem sr_lbrace : Disj cSR cLbrace := by intro c; simp [cSR, cLbrace, Re.inCls] <;> omega

theorem lenOpt_det : Det lenOpt SR (fun s => (lenScan s).or (some s)) := by
  refine Det.alt (lenScan_det SR) (Det.eps SR) (fun s hs => ?_)
  have : startsIn cLbrace s = true := by
    apply clsScan_ne_none (ivs := cLbrace)
    intro hc; apply hs; unfold lenScan; rw [hc]; rfl
  have : SR s = false := by
    cases hr : SR s with
    | false => rfl
    | true => have h' := sr_lbrace.starts s hr; rw [this] at h'; cases h'
  simp [this]

/-- after the arcs of a NOIDLEN: a length, or the end of the value -/
abbrev SRL : List Nat → Bool := fun t => SR t || startsIn cLbrace t

theorem srl_digit : ∀ t, SRL t = true → startsIn cDigit t = false := by
  intro t ht
  cases t with
  | nil => rfl
  | cons c r => simp [SRL, SR, cSR, cLbrace, cDigit, inCls] at ht ⊢; omega

theorem srl_dot : ∀ t, SRL t = true → startsIn cDot t = false := by
  intro t ht
  cases t with
  | nil => rfl
  | cons c r => simp [SRL, SR, cSR, cLbrace, cDot, inCls] at ht ⊢; omega

def noidlenScan : Scan := fun s =>
  (Schema.number s).bind (fun r => (dotPlus r).bind (fun u => (lenScan u).or (some u)))

theorem noidlenScan_det : Det SchemaRe.noidlen SR noidlenScan := by
  refine Det.cat noDigit (number_det notStartsIn_self_false)
    (Det.cat SRL (dotPlus_det srl_digit srl_dot) lenOpt_det (fun t ht => ?_))
    (filter_nil_of_fails noidlenTail_dead.fails _)
  have h1 : SR t = false := by
    cases h : SR t with
    | false => rfl
    | true => simp [SRL, h] at ht
  have h2 : startsIn cLbrace t = false := by
    cases h : startsIn cLbrace t with
    | false => rfl
    | true => simp [SRL, h] at ht
  show (runs (Re.alt noidLen Re.eps) t).filter SR = []
  rw [runs_alt, noidLen_dead.fails t h2, runs_eps]
  simp [h1]

theorem noidlen_eq (s : List Nat) : Schema.noidlen s = noidlenScan s := by
  unfold Schema.noidlen noidlenScan
  rw [numericoid_eq]
  cases Schema.number s with
  | none => rfl
  | some r0 =>
    simp only [Option.bind_some]
    cases dotPlus r0 with
    | none => rfl
    | some r =>
      simp only [Option.bind_some, lenScan]
      cases r with
      | nil => rfl
      | cons c r1 =>
        simp only [clsScan_cons, cLbrace, inCls_single, Schema.LCURLY]
        by_cases hc : c = 123
        · simp only [hc, if_true, decide_true, Option.bind_some]
          cases Schema.number r1 with
          | none => rfl
          | some t =>
            cases t with
            | nil => rfl
            | cons c2 r2 =>
              simp only [Option.bind_some, clsScan_cons, cRbrace, inCls_single, Schema.RCURLY]
              by_cases h2 : c2 = 125 <;> simp [h2]
        · simp [hc]

theorem noidlen_det : Det SchemaRe.noidlen SR Schema.noidlen :=
  noidlenScan_det.congr (fun s => (noidlen_eq s).symm)

theorem quote_digit : Disj cQuote cDigit := by cls_arith

theorem syntaxBody_eq (s : List Nat) : Schema.syntaxBody s = (Schema.noidlen s).or (Schema.qdstring s) := by
  unfold Schema.syntaxBody
  cases Schema.noidlen s <;> rfl

theorem syntaxBody_det : Det (Re.alt SchemaRe.noidlen SchemaRe.qdstring) SR Schema.syntaxBody := by
  refine (Det.alt noidlen_det (qdstring_det SR) (fun s hs => ?_)).congr (fun s => (syntaxBody_eq s).symm)
  have hd : startsIn cDigit s = true := by
    cases h : startsIn cDigit s with
    | true => rfl
    | false =>
      exfalso; apply hs
      rw [noidlen_eq]; unfold noidlenScan; rw [number_eq_none h]; rfl
  have : startsIn cQuote s = false := by
    cases h : startsIn cQuote s with
    | false => rfl
    | true => have h' := quote_digit.starts s h; rw [hd] at h'; cases h'
  rw [qdstring_eq]; unfold itemScan; rw [clsScan_eq_none this]; rfl

/-! ### keyword alternatives -/

/-- neither keyword is a prefix of the other -/
def clash (u v : List Nat) : Bool := !(u.isPrefixOf v) && !(v.isPrefixOf u)

theorem lit_ne_none {w s : List Nat} (h : Schema.lit w s ≠ none) : w <+: s := by
  unfold Schema.lit at h
  split at h
  · rename_i hp; exact List.isPrefixOf_iff_prefix.mp hp
  · exact absurd rfl h

theorem lit_eq_some {w s : List Nat} (h : w <+: s) : Schema.lit w s = some (s.drop w.length) := by
  unfold Schema.lit
  rw [if_pos (List.isPrefixOf_iff_prefix.mpr h)]

theorem lit_clash {u v s : List Nat} (h : clash u v = true) (hu : Schema.lit u s ≠ none) : Schema.lit v s = none := by
  unfold Schema.lit
  split
  · rename_i hp
    have h1 := lit_ne_none hu
    have h2 := List.isPrefixOf_iff_prefix.mp hp
    simp only [clash, Bool.and_eq_true, Bool.not_eq_true', ← Bool.not_eq_true, List.isPrefixOf_iff_prefix] at h
    cases List.prefix_or_prefix_of_prefix h1 h2 with
    | inl h3 => exact absurd h3 h.1
    | inr h3 => exact absurd h3 h.2
  · rfl

theorem eaten_lit {w r r' : List Nat} (h : Schema.lit w r = some r') : eaten r r' = w := by
  have hp := lit_ne_none (by rw [h]; simp)
  rw [lit_eq_some hp] at h
  cases h
  obtain ⟨t, rfl⟩ := hp
  simp [eaten]

end Verif.Proofs.SchemaTie
