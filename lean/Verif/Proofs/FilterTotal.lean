/-
C15 — totality of the filter text parser and the shape of what it accepts.

The loops (`complexLoop`, `filterLoop`) and the descent (`unpackFilter`) are handled once, for an
arbitrary output predicate `P` and octet predicate `Q` (`Ctx`): every result is either a filter in
`P` with a consumed length in `[1, slice length]`, or a syntax error whose span lies inside the
slice, or the recursion error; never fuel exhaustion.  The three exported theorems instantiate `P`.
-/
import Verif.Proofs.FilterTotalSimple
namespace Verif.Proofs.FilterTotal
open Verif

/-- contract of a filter parser on a slice of length `len` at absolute offset `off` -/
def ResOk (P : Filter → Prop) (len off : Nat) : Except FErr (Filter × Nat) → Prop
  | .ok (f, n) => 1 ≤ n ∧ n ≤ len ∧ P f
  | .error (.syntax o l) => off ≤ o ∧ o + l ≤ off + len
  | .error .recursion => True
  | .error .fuel => False

/-- what the loops need to know about the output predicate `P` (on inputs made of `Q` octets) -/
structure Ctx (Q : Nat → Prop) (P : Filter → Prop) : Prop where
  simple : ∀ cur off, All Q cur → ResOk P cur.length off (unpackSimple cur off)
  not : ∀ f, P f → P (.not f)
  and : ∀ fs, fs ≠ [] → (∀ f ∈ fs, P f) → P (.and fs)
  or : ∀ fs, fs ≠ [] → (∀ f ∈ fs, P f) → P (.or fs)

def UfOk (Q : Nat → Prop) (P : Filter → Prop) (uf : Bytes → Nat → Except FErr (Filter × Nat)) : Prop :=
  ∀ cur off, All Q cur → ResOk P cur.length off (uf cur off)

def CLoopOk (P : Filter → Prop) (len off read : Nat) : Except FErr (List Filter × Nat) → Prop
  | .ok (fs, r) => read ≤ r ∧ r ≤ len ∧ ∀ f ∈ fs, P f
  | .error (.syntax o l) => off ≤ o ∧ o + l ≤ off + len
  | .error .recursion => True
  | .error .fuel => False

theorem CLoopOk.mono {P : Filter → Prop} {len off read read' : Nat} {r : Except FErr (List Filter × Nat)}
    (h : CLoopOk P len off read' r) (hr : read ≤ read') : CLoopOk P len off read r := by
  match r, h with
  | .ok (fs, r), h => simp only [CLoopOk] at h ⊢; exact ⟨by omega, h.2⟩
  | .error (.syntax _ _), h => exact h
  | .error .recursion, _ => trivial
  | .error .fuel, h => exact h

theorem complexLoop_ok {Q : Nat → Prop} {P : Filter → Prop} {uf : Bytes → Nat → Except FErr (Filter × Nat)}
    (huf : UfOk Q P uf) (cur : Bytes) (off : Nat) (hc : All Q cur) :
    ∀ fuel read fs, read ≤ cur.length → cur.length - read ≤ fuel → (∀ f ∈ fs, P f) →
      CLoopOk P cur.length off read (complexLoop uf cur off fuel read fs) := by
  intro fuel
  induction fuel with
  | zero =>
    intro read fs hr hf hfs
    simp only [complexLoop]
    split
    · simp only [CLoopOk]; exact ⟨Nat.le_refl _, by omega, hfs⟩
    · omega
  | succ fuel ih =>
    intro read fs hr hf hfs
    simp only [complexLoop]
    split
    · simp only [CLoopOk]; exact ⟨Nat.le_refl _, by omega, hfs⟩
    · rename_i hlt
      split
      · exact (ih (read + 1) fs (by omega) (by omega) hfs).mono (by omega)
      · split
        · split
          · simp only [CLoopOk]; omega
          · have hu := huf ((cur.drop read).take (cur.length - read - 1)) (off + read) ((hc.drop _).take _)
            have hlen : ((cur.drop read).take (cur.length - read - 1)).length = cur.length - read - 1 := by
              rw [List.length_take, List.length_drop]; omega
            rw [hlen] at hu
            split
            · rename_i e he
              rw [he] at hu
              rcases e with ⟨o, l⟩ | _ | _
              · simp only [ResOk, CLoopOk] at hu ⊢; omega
              · trivial
              · exact hu
            · rename_i f n he
              rw [he] at hu
              simp only [ResOk] at hu
              refine (ih (read + n) (fs ++ [f]) (by omega) (by omega) ?_).mono (by omega)
              intro g hg
              rcases List.mem_append.1 hg with hg | hg
              · exact hfs g hg
              · simp only [List.mem_singleton] at hg; subst hg; exact hu.2.2
        · split
          · simp only [CLoopOk]; exact ⟨Nat.le_refl _, by omega, hfs⟩
          · simp only [CLoopOk]; omega

theorem unpackComplex_ok {Q : Nat → Prop} {P : Filter → Prop} {uf : Bytes → Nat → Except FErr (Filter × Nat)}
    (ctx : Ctx Q P) (huf : UfOk Q P uf) (cur : Bytes) (off : Nat) (hc : All Q cur) (hlen : 1 ≤ cur.length) :
    ResOk P cur.length off (unpackComplex uf cur off) := by
  have hl := complexLoop_ok huf cur off hc cur.length 1 [] hlen (by omega) (by intro f hf; cases hf)
  unfold unpackComplex
  split
  · rename_i e he
    rw [he] at hl
    rcases e with ⟨o, l⟩ | _ | _
    · exact hl
    · trivial
    · exact hl
  · rename_i fs read he
    rw [he] at hl
    simp only [CLoopOk] at hl
    split
    · simp only [ResOk]; omega
    · rename_i f0 rest
      simp only
      split
      · exact ⟨hl.1, hl.2.1, ctx.not _ (hl.2.2 f0 (by simp))⟩
      · split
        · exact ⟨hl.1, hl.2.1, ctx.and _ (by simp) hl.2.2⟩
        · exact ⟨hl.1, hl.2.1, ctx.or _ (by simp) hl.2.2⟩


def FInv (P : Filter → Prop) (len : Nat) (st : FLoop) : Prop :=
  st.read ≤ len ∧ (∀ p, st.parens = some p → p ≤ len) ∧ (∀ f, st.parsed = some f → 1 ≤ st.read ∧ P f)

def FLoopOk (P : Filter → Prop) (len off : Nat) : Except FErr FLoop → Prop
  | .ok st => FInv P len st
  | .error (.syntax o l) => off ≤ o ∧ o + l ≤ off + len
  | .error .recursion => True
  | .error .fuel => False

def ResSub (P : Filter → Prop) (len' len off : Nat) : Except FErr (Filter × Nat) → Prop
  | .ok (f, n) => 1 ≤ n ∧ n ≤ len' ∧ P f
  | .error e => FLoopOk P len off (.error e)

theorem ResOk.sub {P : Filter → Prop} {len off len' off' : Nat} {r : Except FErr (Filter × Nat)}
    (h : ResOk P len' off' r) (h1 : off ≤ off') (h2 : off' + len' ≤ off + len) :
    ResSub P len' len off r := by
  match r, h with
  | .ok (f, n), h => exact h
  | .error (.syntax o l), h => simp only [ResOk, ResSub, FLoopOk] at h ⊢; omega
  | .error .recursion, _ => trivial
  | .error .fuel, h => exact h

theorem filterLoop_ok {Q : Nat → Prop} {P : Filter → Prop} {uf : Bytes → Nat → Except FErr (Filter × Nat)}
    (ctx : Ctx Q P) (huf : UfOk Q P uf) (cur : Bytes) (off : Nat) (hc : All Q cur) :
    ∀ fuel st, FInv P cur.length st → cur.length - st.read ≤ fuel →
      FLoopOk P cur.length off (filterLoop uf cur off fuel st) := by
  intro fuel
  induction fuel with
  | zero =>
    intro st hst hf
    simp only [filterLoop]
    split
    · exact hst
    · omega
  | succ fuel ih =>
    intro st hst hf
    obtain ⟨hrd, hpar, hpsd⟩ := hst
    simp only [filterLoop]
    split
    · exact ⟨hrd, hpar, hpsd⟩
    · rename_i hlt
      have hdl : (cur.drop st.read).length = cur.length - st.read := List.length_drop
      split
      · apply ih
        · exact ⟨by simp only; omega, hpar, fun f hf => ⟨by simp only; omega, (hpsd f hf).2⟩⟩
        · simp only; omega
      · split
        · split
          · simp only [FLoopOk]; omega
          · exact ⟨by simp only; omega, (by intro p hp; cases hp),
              fun f hf => ⟨by simp only; omega, (hpsd f hf).2⟩⟩
        · split
          · split
            · simp only [FLoopOk]; omega
            · have hr : ResOk P (cur.drop st.read).length (off + st.read)
                  (if cur.getD st.read 0 = cBang ∨ cur.getD st.read 0 = cAmp ∨ cur.getD st.read 0 = cPipe
                    then unpackComplex uf (cur.drop st.read) (off + st.read)
                    else unpackSimple (cur.drop st.read) (off + st.read)) := by
                split
                · exact unpackComplex_ok ctx huf _ _ (hc.drop _) (by omega)
                · exact ctx.simple _ _ (hc.drop _)
              have hr' := hr.sub (len := cur.length) (off := off) (by omega) (by omega)
              split
              · rename_i e he
                rw [he] at hr'
                exact hr'
              · rename_i f n he
                rw [he] at hr'
                simp only [ResSub] at hr'
                apply ih
                · refine ⟨by simp only; omega, hpar, ?_⟩
                  intro g hg
                  simp only [Option.some.injEq] at hg
                  subst hg
                  exact ⟨by simp only; omega, hr'.2.2⟩
                · simp only; omega
          · split
            · apply ih
              · refine ⟨by simp only; omega, ?_, fun f hf => ⟨by simp only; omega, (hpsd f hf).2⟩⟩
                intro p hp
                simp only [Option.some.injEq] at hp
                omega
              · simp only; omega
            · have hr := (ctx.simple _ (off + st.read) (hc.drop st.read)).sub
                (len := cur.length) (off := off) (by omega) (by omega)
              split
              · rename_i e he
                rw [he] at hr
                exact hr
              · rename_i f n he
                rw [he] at hr
                simp only [ResSub] at hr
                refine ⟨by simp only; omega, hpar, ?_⟩
                intro g hg
                simp only [Option.some.injEq] at hg
                subst hg
                exact ⟨by simp only; omega, hr.2.2⟩

theorem unpackFilter_ok {Q : Nat → Prop} {P : Filter → Prop} (ctx : Ctx Q P) :
    ∀ depth, UfOk Q P (unpackFilter depth) := by
  intro depth
  induction depth with
  | zero => intro cur off _; simp only [unpackFilter]; trivial
  | succ depth ih =>
    intro cur off hc
    have hl := filterLoop_ok ctx ih cur off hc cur.length ⟨0, none, none⟩
      ⟨Nat.zero_le _, (by intro p hp; cases hp), by intro f hf; cases hf⟩ (by simp)
    simp only [unpackFilter]
    split
    · rename_i e he
      rw [he] at hl
      rcases e with ⟨o, l⟩ | _ | _
      · exact hl
      · trivial
      · exact hl
    · rename_i st he
      rw [he] at hl
      obtain ⟨hrd, hpar, hpsd⟩ := hl
      split
      · rename_i p hp
        have := hpar p hp
        simp only [ResOk]; omega
      · split
        · simp only [ResOk]; omega
        · rename_i f hf
          exact ⟨(hpsd f hf).1, hrd, (hpsd f hf).2⟩


/-! ### instances of the context -/

theorem SimpleRes.toResOk {P : Filter → Prop} {len off : Nat} {cb : Prop} {r : Except FErr (Filter × Nat)}
    (h : SimpleRes len off cb r) (hP : ∀ f, f.AttrsValid → (cb → f.WFText) → P f) : ResOk P len off r := by
  match r, h with
  | .ok (f, n), h => exact ⟨by have := h.1; omega, h.2.1, hP f h.2.2.1 h.2.2.2⟩
  | .error (.syntax _ _), h => exact h
  | .error .recursion, h => exact h.elim
  | .error .fuel, h => exact h.elim

theorem attrsValids_of_forall : ∀ fs : List Filter, (∀ f ∈ fs, f.AttrsValid) → Filter.AttrsValids fs
  | [], _ => by simp only [Filter.AttrsValids]
  | f :: fs, h => by
    simp only [Filter.AttrsValids]
    exact ⟨h f (by simp), attrsValids_of_forall fs (fun g hg => h g (List.mem_cons_of_mem _ hg))⟩

theorem wfTexts_of_forall : ∀ fs : List Filter, (∀ f ∈ fs, f.WFText) → Filter.WFTexts fs
  | [], _ => by simp only [Filter.WFTexts]
  | f :: fs, h => by
    simp only [Filter.WFTexts]
    exact ⟨h f (by simp), wfTexts_of_forall fs (fun g hg => h g (List.mem_cons_of_mem _ hg))⟩

theorem ctxTrue : Ctx (fun _ => True) (fun _ => True) where
  simple cur off _ := (unpackSimple_ok cur off).toResOk (fun _ _ _ => trivial)
  not _ _ := trivial
  and _ _ _ := trivial
  or _ _ _ := trivial

theorem ctxAttrs : Ctx (fun _ => True) Filter.AttrsValid where
  simple cur off _ := (unpackSimple_ok cur off).toResOk (fun _ h _ => h)
  not f h := by simp only [Filter.AttrsValid]; exact h
  and fs _ h := by simp only [Filter.AttrsValid]; exact attrsValids_of_forall fs h
  or fs _ h := by simp only [Filter.AttrsValid]; exact attrsValids_of_forall fs h

theorem ctxWF : Ctx (· < 256) Filter.WFText where
  simple cur off hc := (unpackSimple_ok cur off).toResOk (fun _ _ h => h hc)
  not f h := by simp only [Filter.WFText]; exact h
  and fs hne h := by simp only [Filter.WFText]; exact ⟨hne, wfTexts_of_forall fs h⟩
  or fs hne h := by simp only [Filter.WFText]; exact ⟨hne, wfTexts_of_forall fs h⟩

/-! ### UTF-8 octets -/

theorem utf8EncodeChar_bytes (c : Nat) (h : c < 1114112) : IsBytes (utf8EncodeChar c) := by
  unfold utf8EncodeChar
  intro b hb
  split at hb
  · simp only [List.mem_singleton] at hb; omega
  · split at hb
    · simp only [List.mem_singleton] at hb; omega
    · split at hb
      · simp only [List.mem_cons, List.not_mem_nil, or_false] at hb; omega
      · split at hb
        · simp only [List.mem_cons, List.not_mem_nil, or_false] at hb; omega
        · simp only [List.mem_cons, List.not_mem_nil, or_false] at hb; omega

theorem utf8Encode_bytes (s : List Nat) (h : ∀ c ∈ s, c < 1114112) : IsBytes (utf8Encode s) := by
  intro b hb
  simp only [utf8Encode, List.mem_flatten, List.mem_map] at hb
  obtain ⟨l, ⟨c, hc, rfl⟩, hb⟩ := hb
  exact utf8EncodeChar_bytes c (h c hc) b hb

theorem mem_pyStrip {s : List Nat} {c : Nat} (h : c ∈ pyStrip s) : c ∈ s := by
  unfold pyStrip at h
  have h1 := List.mem_reverse.1 h
  have h2 := (List.dropWhile_sublist isSpaceCp).subset h1
  have h3 := List.mem_reverse.1 h2
  exact (List.dropWhile_sublist isSpaceCp).subset h3

/-! ### the parser in terms of the contract -/

def ParseOk (P : Filter → Prop) (len : Nat) : Except FErr Filter → Prop
  | .ok f => P f
  | .error (.syntax off l) => off + l ≤ len
  | .error _ => False

/-- `parseFilterText` in terms of the contract of `unpackFilter` -/
theorem parse_of_ctx {Q : Nat → Prop} {P : Filter → Prop} (ctx : Ctx Q P) (depth : Nat) (s : List Nat)
    (hb : All Q (utf8Encode (pyStrip s))) :
    ParseOk P (utf8Encode (pyStrip s)).length (parseFilterText depth s) := by
  have hu := unpackFilter_ok ctx depth (utf8Encode (pyStrip s)) 0 hb
  unfold parseFilterText
  simp only
  generalize utf8Encode (pyStrip s) = b at hu ⊢
  generalize unpackFilter depth b 0 = r at hu ⊢
  match r, hu with
  | .error .recursion, _ => simp only [ParseOk]; omega
  | .error (.syntax o l), hu => simp only [ParseOk, ResOk] at hu ⊢; omega
  | .error .fuel, hu => exact hu.elim
  | .ok (f, n), hu =>
    simp only
    split
    · simp only [ParseOk]; omega
    · exact hu.2.2

end Verif.Proofs.FilterTotal

/-! ### the three theorems of C15 -/

namespace Verif.Proofs
open Verif Verif.Proofs.FilterTotal

theorem parse_total (depth : Nat) (s : List Nat) :
    (∃ f, parseFilterText depth s = .ok f) ∨
      (∃ off len, parseFilterText depth s = .error (.syntax off len) ∧
        off + len ≤ (utf8Encode (pyStrip s)).length) := by
  have h := parse_of_ctx ctxTrue depth s (fun _ _ => trivial)
  generalize parseFilterText depth s = r at h ⊢
  match r, h with
  | .ok f, _ => exact Or.inl ⟨f, rfl⟩
  | .error (.syntax off len), h => exact Or.inr ⟨off, len, rfl, h⟩
  | .error .recursion, h => exact h.elim
  | .error .fuel, h => exact h.elim

theorem parse_attrs_valid (depth : Nat) (s : List Nat) (f : Filter)
    (h : parseFilterText depth s = .ok f) : f.AttrsValid := by
  have h' := parse_of_ctx ctxAttrs depth s (fun _ _ => trivial)
  rw [h] at h'
  exact h'

theorem parse_wftext (depth : Nat) (s : List Nat) (f : Filter) (hs : ∀ c ∈ s, c < 1114112)
    (h : parseFilterText depth s = .ok f) : f.WFText := by
  have h' := parse_of_ctx ctxWF depth s
    (utf8Encode_bytes _ (fun c hc => hs c (mem_pyStrip hc)))
  rw [h] at h'
  exact h'

end Verif.Proofs
