/-
C18 support library: reusable facts about the backtracking semantics `Re.runs` / `Re.work`
of Model/Re.lean.

NAMESPACE: everything in this file lives in `Verif.Proofs.ReCost` (open it with
`open Verif Verif.Re Verif.Proofs.ReCost`).  The names Props/C18.lean expects
(`Proofs.sub_cost`, `Proofs.nestedPlusPattern`, `Proofs.nestedPlus_exponential`) are
defined at the end of the file in namespace `Verif.Proofs`.

Contents: (1) fuel independence and the unfolding equations `runs_*` / `work_*`;
(2) `runs_suffix`, `runs_length_le`, `runs_length_le_work`; (3) raw composition bounds
(`work_cat_le`, `work_cat_munch`, `runs_cat_length_munch`, class-star facts, the star chain
lemmas `runs_star_chain_length` / `work_star_chain` / `countP_runs_star_chain`); (4) the degree
calculus `PB` / `RP` / `Sparse` / `Sparse1` / `Dead` / `Cheap` built on them, in which the
per-pattern proofs of ReSmall.lean are written; (5) `sub_cost`; (6) the exponential witness.

Core Lean only.
-/
import Verif.Model.Re

namespace Verif.Proofs.ReCost
open Verif Verif.Re

/-! ### list helpers -/

theorem flatMap_congr' {α β} (l : List α) (f g : α → List β) (h : ∀ x ∈ l, f x = g x) :
    l.flatMap f = l.flatMap g := by
  induction l with
  | nil => rfl
  | cons a l ih =>
    simp only [List.flatMap_cons]
    rw [h a (by simp), ih (fun x hx => h x (by simp [hx]))]

theorem sum_map_congr {α} (l : List α) (f g : α → Nat) (h : ∀ x ∈ l, f x = g x) :
    (l.map f).sum = (l.map g).sum := by
  induction l with
  | nil => rfl
  | cons a l ih =>
    simp only [List.map_cons, List.sum_cons]
    rw [h a (by simp), ih (fun x hx => h x (by simp [hx]))]

theorem sum_map_le {α} (l : List α) (f g : α → Nat) (h : ∀ x ∈ l, f x ≤ g x) :
    (l.map f).sum ≤ (l.map g).sum := by
  induction l with
  | nil => simp
  | cons a l ih =>
    simp only [List.map_cons, List.sum_cons]
    have := h a (by simp)
    have := ih (fun x hx => h x (by simp [hx]))
    omega

theorem sum_map_le_mul {α} (l : List α) (f : α → Nat) (M : Nat) (h : ∀ x ∈ l, f x ≤ M) :
    (l.map f).sum ≤ l.length * M := by
  induction l with
  | nil => simp
  | cons a l ih =>
    simp only [List.map_cons, List.sum_cons, List.length_cons]
    have := h a (by simp)
    have := ih (fun x hx => h x (by simp [hx]))
    rw [Nat.succ_mul]; omega

/-- "maximal munch" sum: every element outside `Q` is cheap (`≤ f`), the few elements in `Q`
    may be expensive (`≤ M`) -/
theorem sum_munch {α} (l : List α) (Q : α → Bool) (m : α → Nat) (f M : Nat)
    (h1 : ∀ t ∈ l, Q t = false → m t ≤ f) (h2 : ∀ t ∈ l, Q t = true → m t ≤ M) :
    (l.map m).sum ≤ l.length * f + l.countP Q * M := by
  induction l with
  | nil => simp
  | cons a l ih =>
    have ih' := ih (fun t ht => h1 t (by simp [ht])) (fun t ht => h2 t (by simp [ht]))
    simp only [List.map_cons, List.sum_cons, List.length_cons, List.countP_cons]
    cases hq : Q a with
    | false =>
      have := h1 a (by simp) hq
      simp only [Bool.false_eq_true, if_false, Nat.add_zero, Nat.succ_mul]; omega
    | true =>
      have := h2 a (by simp) hq
      simp only [if_true, Nat.succ_mul]; omega

theorem sum_map_pos {α} (l : List α) (f : α → Nat) (h : ∀ x ∈ l, 1 ≤ f x) : l.length ≤ (l.map f).sum := by
  induction l with
  | nil => simp
  | cons a l ih =>
    simp only [List.map_cons, List.sum_cons, List.length_cons]
    have := h a (by simp)
    have := ih (fun x hx => h x (by simp [hx]))
    omega

theorem filter_lt_nil (l : List (List Nat)) (s : List Nat) (h : s.length = 0) :
    l.filter (fun t => decide (t.length < s.length)) = [] := by
  apply List.filter_eq_nil_iff.mpr; intro t _; simp [h]

theorem runsF_suffix (f : Nat) (r : Re) (s : List Nat) : ∀ t ∈ runsF f r s, t <:+ s := by
  fun_induction runsF f r s with
  | case1 => simp
  | case2 _ ivs c r h => simp
  | case3 _ ivs c r h => simp
  | case4 => simp
  | case5 f a b s ihb iha =>
    intro t ht
    rw [List.mem_flatMap] at ht
    obtain ⟨u, hu, ht⟩ := ht
    exact (ihb u t ht).trans (iha u hu)
  | case6 f a b s iha ihb =>
    intro t ht
    rw [List.mem_append] at ht
    cases ht with
    | inl h => exact iha t h
    | inr h => exact ihb t h
  | case7 => simp
  | case8 f a s ihs iha =>
    intro t ht
    rw [List.mem_append] at ht
    cases ht with
    | inl h =>
      rw [List.mem_flatMap] at h
      obtain ⟨u, hu, ht⟩ := h
      exact (ihs u t ht).trans (iha u (List.mem_filter.mp hu).1)
    | inr h => simp at h; subst h; exact List.suffix_refl _
  | case9 f id a s ih => exact ih
  | case10 _ s h => simp
  | case11 _ s h => simp
  | case12 _ s h => intro t ht; simp at ht; subst ht; exact List.suffix_refl _
  | case13 _ s h => simp
  | case14 => simp

theorem runsF_length_le {f r s t} (h : t ∈ runsF f r s) : t.length ≤ s.length :=
  (runsF_suffix f r s t h).length_le

theorem runsF_fuel (f : Nat) (r : Re) (s : List Nat) :
    ∀ g, s.length ≤ f → s.length ≤ g → runsF f r s = runsF g r s := by
  fun_induction runsF f r s with
  | case1 => intros; simp [runsF]
  | case2 _ ivs c r h => intros; simp [runsF, h]
  | case3 _ ivs c r h => intros; simp [runsF, h]
  | case4 => intros; simp [runsF]
  | case5 f a b s ihb iha =>
    intro g hf hg
    rw [runsF, ← iha g hf hg]
    apply flatMap_congr'
    intro t ht
    have := runsF_length_le ht
    exact ihb t g (by omega) (by omega)
  | case6 f a b s iha ihb =>
    intro g hf hg
    rw [runsF, iha g hf hg, ihb g hf hg]
  | case7 a s =>
    intro g hf _
    have h0 : s.length = 0 := by omega
    cases g with
    | zero => simp [runsF]
    | succ g => simp [runsF, filter_lt_nil _ s h0]
  | case8 f a s ihs iha =>
    intro g hf hg
    cases g with
    | zero =>
      have h0 : s.length = 0 := by omega
      simp [runsF, filter_lt_nil _ s h0]
    | succ g =>
      rw [runsF, ← iha (g+1) hf hg]
      congr 1
      apply flatMap_congr'
      intro t ht
      have hlt : t.length < s.length := by simpa using (List.mem_filter.mp ht).2
      exact ihs t g (by omega) (by omega)
  | case9 f id a s ih => intro g hf hg; rw [runsF, ih g hf hg]
  | case10 _ s h => intros; simp [runsF, h]
  | case11 _ s h => intros; simp [runsF, h]
  | case12 _ s h => intros; rw [runsF, if_pos h]
  | case13 _ s h => intros; rw [runsF, if_neg h]
  | case14 => intros; simp [runsF]

theorem workF_fuel (f : Nat) (r : Re) (s : List Nat) :
    ∀ g, s.length < f → s.length < g → workF f r s = workF g r s := by
  fun_induction workF f r s with
  | case1 => intros; simp [workF]
  | case2 => intros; simp [workF]
  | case3 f a b s iha ihb =>
    intro g hf hg
    rw [workF.eq_3 g, ← iha g hf hg, ← runsF_fuel f a s g (by omega) (by omega)]
    congr 1
    apply sum_map_congr
    intro t ht
    have := runsF_length_le ht
    exact ihb t g (by omega) (by omega)
  | case4 f a b s iha ihb =>
    intro g hf hg
    rw [workF.eq_4 g, iha g hf hg, ihb g hf hg]
  | case5 a s => intro g hf; omega
  | case6 f a s iha ihs =>
    intro g hf hg
    cases g with
    | zero => omega
    | succ g =>
      rw [workF.eq_6 s g, ← iha (g+1) hf hg, ← runsF_fuel (f+1) a s (g+1) (by omega) (by omega)]
      congr 1
      apply sum_map_congr
      intro t ht
      have hlt : t.length < s.length := by simpa using (List.mem_filter.mp ht).2
      exact ihs t g (by omega) (by omega)
  | case7 f id a s ih => intro g hf hg; rw [workF.eq_7 g, ih g hf hg]
  | case8 => intros; simp [workF]
  | case9 => intros; simp [workF]
  | case10 => intros; simp [workF]


/-! ### unfolding equations for `runs` -/

theorem mem_runs_suffix {r : Re} {s t : List Nat} (h : t ∈ runs r s) : t <:+ s := runsF_suffix _ r s t h

/-- suffix lemma -/
theorem runs_suffix {r : Re} {s t : List Nat} (h : t ∈ runs r s) : ∃ u, s = u ++ t := by
  obtain ⟨u, hu⟩ := mem_runs_suffix h
  exact ⟨u, hu.symm⟩

theorem runs_length_le {r : Re} {s t : List Nat} (h : t ∈ runs r s) : t.length ≤ s.length :=
  (mem_runs_suffix h).length_le

theorem runsF_eq_runs {f : Nat} (r : Re) {s : List Nat} (h : s.length ≤ f) : runsF f r s = runs r s :=
  runsF_fuel f r s s.length h (Nat.le_refl _)

theorem workF_eq_work {f : Nat} (r : Re) {s : List Nat} (h : s.length < f) : workF f r s = work r s :=
  workF_fuel f r s (s.length + 1) h (Nat.lt_succ_self _)

@[simp] theorem runs_eps (s : List Nat) : runs eps s = [s] := by simp [runs, runsF]
@[simp] theorem runs_unsupported (s : List Nat) : runs unsupported s = [] := by simp [runs, runsF]
@[simp] theorem runs_cls_nil (ivs) : runs (cls ivs) [] = [] := by simp [runs, runsF]
@[simp] theorem runs_cls_cons (ivs) (c : Nat) (r : List Nat) :
    runs (cls ivs) (c :: r) = if inCls ivs c then [r] else [] := by simp [runs, runsF]
theorem runs_eos (s : List Nat) : runs eos s = if s.isEmpty then [s] else [] := by simp [runs, runsF]
theorem runs_eosNl (s : List Nat) : runs eosNl s = if s.isEmpty ∨ s = [10] then [s] else [] := by
  rw [runs, runsF]
@[simp] theorem runs_group (id : Nat) (a : Re) (s : List Nat) : runs (group id a) s = runs a s := by
  rw [runs, runsF]; rfl
theorem runs_alt (a b : Re) (s : List Nat) : runs (alt a b) s = runs a s ++ runs b s := by
  rw [runs, runsF]; rfl
theorem runs_cat (a b : Re) (s : List Nat) : runs (cat a b) s = (runs a s).flatMap (runs b) := by
  rw [runs, runsF]
  apply flatMap_congr'
  intro t ht
  exact runsF_eq_runs b (runsF_length_le ht)
theorem runs_star (x : Re) (s : List Nat) :
    runs (star x) s = ((runs x s).filter (fun t => t.length < s.length)).flatMap (runs (star x)) ++ [s] := by
  rw [runs, runsF_fuel s.length (star x) s (s.length + 1) (Nat.le_refl _) (Nat.le_succ _), runsF,
    runsF_eq_runs x (Nat.le_succ _)]
  congr 1
  apply flatMap_congr'
  intro t ht
  have hlt : t.length < s.length := by simpa using (List.mem_filter.mp ht).2
  exact runsF_eq_runs (star x) (by omega)

/-! ### unfolding equations for `work` -/

@[simp] theorem work_eps (s : List Nat) : work eps s = 1 := by simp [work, workF]
@[simp] theorem work_cls (ivs) (s : List Nat) : work (cls ivs) s = 1 := by simp [work, workF]
@[simp] theorem work_eos (s : List Nat) : work eos s = 1 := by simp [work, workF]
@[simp] theorem work_eosNl (s : List Nat) : work eosNl s = 1 := by simp [work, workF]
@[simp] theorem work_unsupported (s : List Nat) : work unsupported s = 1 := by simp [work, workF]
theorem work_group (id : Nat) (a : Re) (s : List Nat) : work (group id a) s = 1 + work a s := by
  rw [work, workF]; rfl
theorem work_alt (a b : Re) (s : List Nat) : work (alt a b) s = 1 + work a s + work b s := by
  rw [work, workF]; rfl
theorem work_cat (a b : Re) (s : List Nat) :
    work (cat a b) s = 1 + work a s + ((runs a s).map (work b)).sum := by
  rw [work, workF, runsF_eq_runs a (Nat.le_succ _)]
  congr 1
  apply sum_map_congr
  intro t ht
  exact workF_eq_work b (Nat.lt_succ_of_le (runs_length_le ht))
theorem work_star (x : Re) (s : List Nat) :
    work (star x) s =
      1 + work x s + (((runs x s).filter (fun t => t.length < s.length)).map (work (star x))).sum := by
  rw [work, workF, runsF_eq_runs x (Nat.le_succ _)]
  congr 1
  apply sum_map_congr
  intro t ht
  have hlt : t.length < s.length := by simpa using (List.mem_filter.mp ht).2
  exact workF_eq_work (star x) hlt

/-! ### general facts -/

theorem runsF_length_le_workF (f : Nat) (r : Re) (s : List Nat) : (runsF f r s).length ≤ workF f r s := by
  fun_induction workF f r s with
  | case1 => simp [runsF]
  | case2 _ ivs s => cases s with
    | nil => simp [runsF]
    | cons c r => simp only [runsF]; split <;> simp
  | case3 f a b s iha ihb =>
    rw [runsF, List.length_flatMap]
    have := sum_map_le (runsF f a s) (fun t => (runsF f b t).length) (fun t => workF f b t) (fun t _ => ihb t)
    omega
  | case4 f a b s iha ihb => rw [runsF, List.length_append]; omega
  | case5 => simp [runsF]
  | case6 f a s iha ihs =>
    rw [runsF, List.length_append, List.length_flatMap]
    have := sum_map_le ((runsF (f+1) a s).filter (fun t => t.length < s.length))
      (fun t => (runsF f (star a) t).length) (fun t => workF f (star a) t) (fun t _ => ihs t)
    simp only [List.length_singleton]; omega
  | case7 f id a s ih => rw [runsF]; omega
  | case8 _ s => rw [runsF]; split <;> simp
  | case9 _ s => rw [runsF]; split <;> simp
  | case10 => simp [runsF]

/-- every success is a visited node of the search tree -/
theorem runs_length_le_work (r : Re) (s : List Nat) : (runs r s).length ≤ work r s := by
  rw [← runsF_eq_runs r (Nat.le_succ s.length)]
  exact runsF_length_le_workF _ r s

theorem work_pos (r : Re) (s : List Nat) : 1 ≤ work r s := by
  cases r <;> simp [work, workF] <;> omega

/-! ### raw composition bounds -/

theorem runs_alt_length (a b : Re) (s : List Nat) :
    (runs (alt a b) s).length = (runs a s).length + (runs b s).length := by
  rw [runs_alt, List.length_append]

theorem runs_cat_length (a b : Re) (s : List Nat) :
    (runs (cat a b) s).length = ((runs a s).map (fun t => (runs b t).length)).sum := by
  rw [runs_cat, List.length_flatMap]

theorem runs_cat_length_le (a b : Re) (s : List Nat) (R : Nat) (h : ∀ t ∈ runs a s, (runs b t).length ≤ R) :
    (runs (cat a b) s).length ≤ (runs a s).length * R := by
  rw [runs_cat_length]; exact sum_map_le_mul _ _ _ h

theorem runs_cat_length_munch (a b : Re) (s : List Nat) (Q : List Nat → Bool) (f R : Nat)
    (h1 : ∀ t ∈ runs a s, Q t = false → (runs b t).length ≤ f)
    (h2 : ∀ t ∈ runs a s, Q t = true → (runs b t).length ≤ R) :
    (runs (cat a b) s).length ≤ (runs a s).length * f + (runs a s).countP Q * R := by
  rw [runs_cat_length]; exact sum_munch _ Q _ f R h1 h2

theorem work_cat_le (a b : Re) (s : List Nat) (W : Nat) (h : ∀ t ∈ runs a s, work b t ≤ W) :
    work (cat a b) s ≤ 1 + work a s + (runs a s).length * W := by
  rw [work_cat]; have := sum_map_le_mul _ _ _ h; omega

/-- "maximal munch" rule: every result `t` of `a` outside `Q` makes `b` fail cheaply -/
theorem work_cat_munch (a b : Re) (s : List Nat) (Q : List Nat → Bool) (f W : Nat)
    (h1 : ∀ t ∈ runs a s, Q t = false → work b t ≤ f)
    (h2 : ∀ t ∈ runs a s, Q t = true → work b t ≤ W) :
    work (cat a b) s ≤ 1 + work a s + (runs a s).length * f + (runs a s).countP Q * W := by
  rw [work_cat]; have := sum_munch _ Q _ f W h1 h2; omega

theorem countP_runs_alt (P : List Nat → Bool) (a b : Re) (s : List Nat) :
    (runs (alt a b) s).countP P = (runs a s).countP P + (runs b s).countP P := by
  rw [runs_alt, List.countP_append]

theorem countP_runs_cat (P : List Nat → Bool) (a b : Re) (s : List Nat) :
    (runs (cat a b) s).countP P = ((runs a s).map (fun t => (runs b t).countP P)).sum := by
  rw [runs_cat, List.countP_flatMap]; rfl

/-- a body that fails leaves `star` with the single, empty iteration -/
theorem runs_star_of_nil {x : Re} {s : List Nat} (h : runs x s = []) : runs (star x) s = [s] := by
  rw [runs_star, h]; rfl

theorem work_star_of_nil {x : Re} {s : List Nat} (h : runs x s = []) : work (star x) s = 1 + work x s := by
  rw [work_star, h]; rfl

theorem runs_star_nil (x : Re) : runs (star x) [] = [[]] := by
  rw [runs_star, filter_lt_nil _ [] rfl]; rfl

theorem work_star_nil (x : Re) : work (star x) [] = 1 + work x [] := by
  rw [work_star, filter_lt_nil _ [] rfl]; rfl

/-! ### a character class and its star -/

/-- `t` starts with a character of the class -/
def startsIn (ivs : List (Nat × Nat)) : List Nat → Bool
  | c :: _ => inCls ivs c
  | [] => false

@[simp] theorem startsIn_nil (ivs) : startsIn ivs [] = false := rfl
@[simp] theorem startsIn_cons (ivs) (c : Nat) (r : List Nat) : startsIn ivs (c :: r) = inCls ivs c := rfl

theorem runs_cls_of_not_startsIn {ivs} {t : List Nat} (h : startsIn ivs t = false) : runs (cls ivs) t = [] := by
  cases t with
  | nil => simp
  | cons c r => simp at h; simp [h]

theorem runs_cls_length_le (ivs) (s : List Nat) : (runs (cls ivs) s).length ≤ 1 := by
  cases s with
  | nil => simp
  | cons c r => rw [runs_cls_cons]; split <;> simp

theorem mem_runs_cls {ivs} {s t : List Nat} (h : t ∈ runs (cls ivs) s) : ∃ c, s = c :: t ∧ inCls ivs c = true := by
  cases s with
  | nil => simp at h
  | cons c r =>
    rw [runs_cls_cons] at h
    split at h
    · simp at h; subst h; exact ⟨c, rfl, by assumption⟩
    · simp at h

theorem runs_star_cls_nil (ivs) : runs (star (cls ivs)) [] = [[]] := runs_star_nil _

theorem runs_star_cls_cons (ivs) (c : Nat) (r : List Nat) :
    runs (star (cls ivs)) (c :: r) =
      if inCls ivs c then runs (star (cls ivs)) r ++ [c :: r] else [c :: r] := by
  rw [runs_star, runs_cls_cons]
  split <;> simp

theorem work_star_cls_nil (ivs) : work (star (cls ivs)) [] = 2 := by
  rw [work_star_nil]; simp

theorem work_star_cls_cons (ivs) (c : Nat) (r : List Nat) :
    work (star (cls ivs)) (c :: r) = if inCls ivs c then 2 + work (star (cls ivs)) r else 2 := by
  rw [work_star, runs_cls_cons]
  split <;> simp

theorem runs_star_cls_length (ivs) (s : List Nat) : (runs (star (cls ivs)) s).length ≤ s.length + 1 := by
  induction s with
  | nil => simp [runs_star_cls_nil]
  | cons c r ih => rw [runs_star_cls_cons]; split <;> simp <;> omega

theorem work_star_cls_le (ivs) (s : List Nat) : work (star (cls ivs)) s ≤ 2 * (s.length + 1) := by
  induction s with
  | nil => simp [work_star_cls_nil]
  | cons c r ih => rw [work_star_cls_cons]; split <;> simp <;> omega

/-- explicit form: drop `k, k-1, …, 0` characters, `k` the length of the maximal run of class
    characters (longest match first) -/
theorem runs_star_cls_eq (ivs) (s : List Nat) :
    runs (star (cls ivs)) s =
      ((List.range ((s.takeWhile (inCls ivs)).length + 1)).reverse.map (fun i => s.drop i)) := by
  induction s with
  | nil => simp [runs_star_cls_nil]
  | cons c r ih =>
    rw [runs_star_cls_cons, List.takeWhile_cons]
    split
    · rename_i h
      rw [ih, List.length_cons, List.range_succ_eq_map (n := (r.takeWhile (inCls ivs)).length + 1)]
      simp [List.reverse_cons, List.map_reverse, Function.comp_def]
    · simp

/-- among the results of a class star only the first (the maximal munch) can start outside the class -/
theorem countP_runs_star_cls (ivs) (P : List Nat → Bool) (hP : ∀ t, P t = true → startsIn ivs t = false)
    (s : List Nat) : (runs (star (cls ivs)) s).countP P ≤ 1 := by
  induction s with
  | nil => rw [runs_star_cls_nil]; exact List.countP_le_length
  | cons c r ih =>
    rw [runs_star_cls_cons]
    split
    · rename_i h
      have hp : P (c :: r) = false := by
        cases hpc : P (c :: r) with
        | false => rfl
        | true => have := hP _ hpc; simp [h] at this
      rw [List.countP_append]; simp [hp]; exact ih
    · exact List.countP_le_length


/-- `t` is empty or starts with a character outside the class -/
def notStartsIn (ivs : List (Nat × Nat)) (t : List Nat) : Bool := !startsIn ivs t

/-- disjoint classes (for concrete interval lists: `by intro c; simp [Re.inCls]; omega`) -/
def Disj (A B : List (Nat × Nat)) : Prop := ∀ c, inCls A c = true → inCls B c = false

/-- class inclusion -/
def Sub (A B : List (Nat × Nat)) : Prop := ∀ c, inCls A c = true → inCls B c = true

theorem Disj.symm {A B} (h : Disj A B) : Disj B A := by
  intro c hc
  cases hA : inCls A c with
  | false => rfl
  | true => have := h c hA; simp [hc] at this

theorem Disj.starts {A B} (h : Disj A B) : ∀ t, startsIn A t = true → startsIn B t = false := by
  intro t; cases t with
  | nil => simp
  | cons c r => exact h c

theorem Disj.starts_not {A B} (h : Disj A B) : ∀ t, startsIn A t = true → notStartsIn B t = true := by
  intro t ht; simp [notStartsIn, h.starts t ht]

theorem Disj.not_false {A B} (h : Disj A B) : ∀ t, notStartsIn A t = false → startsIn B t = false := by
  intro t ht; exact h.starts t (by simpa [notStartsIn] using ht)

theorem Sub.starts_false {A B} (h : Sub A B) : ∀ t, startsIn B t = false → startsIn A t = false := by
  intro t; cases t with
  | nil => simp
  | cons c r =>
    intro hB
    cases hA : startsIn A (c :: r) with
    | false => rfl
    | true => have := h c hA; simp at hB; simp [hB] at this

theorem notStartsIn_self_false {A} : ∀ t, notStartsIn A t = true → startsIn A t = false := by
  intro t ht; simpa [notStartsIn] using ht

/-! ### star chain lemmas

`Q` marks the positions at which the body `x` can start at all (`hdead`: outside `Q` the body
has no result); restart-determinism (`hone`): among the results of one iteration at most one
is such a position.  The iterations of `star x` then form a chain with cheap side branches. -/

theorem filter_shorter_length_le (l : List (List Nat)) (s : List Nat) :
    (l.filter (fun t => decide (t.length < s.length))).length ≤ l.length := List.length_filter_le _ _

theorem filter_shorter_countP_le (Q : List Nat → Bool) (l : List (List Nat)) (s : List Nat) :
    (l.filter (fun t => decide (t.length < s.length))).countP Q ≤ l.countP Q :=
  List.filter_sublist.countP_le

theorem runs_star_chain_length (x : Re) (Q : List Nat → Bool)
    (hdead : ∀ t, Q t = false → runs x t = [])
    (hone : ∀ u, (runs x u).countP Q ≤ 1)
    (N RN : Nat) (hR : ∀ u, u.length ≤ N → (runs x u).length ≤ RN)
    (s : List Nat) (hs : s.length ≤ N) :
    (runs (star x) s).length ≤ (s.length + 1) * (1 + RN) := by
  have ih : ∀ t, t.length < s.length → (runs (star x) t).length ≤ (t.length + 1) * (1 + RN) :=
    fun t ht => runs_star_chain_length x Q hdead hone N RN hR t (by omega)
  rw [runs_star, List.length_append, List.length_flatMap, List.length_singleton]
  have hsum := sum_munch ((runs x s).filter (fun t => decide (t.length < s.length))) Q
    (fun t => (runs (star x) t).length) 1 (s.length * (1 + RN))
    (fun t _ hq => by simp [runs_star_of_nil (hdead t hq)])
    (fun t ht _ => by
      have hlt : t.length < s.length := by simpa using (List.mem_filter.mp ht).2
      exact Nat.le_trans (ih t hlt) (Nat.mul_le_mul_right _ (by omega)))
  have h1 := filter_shorter_length_le (runs x s) s
  have h2 := Nat.le_trans (filter_shorter_countP_le Q (runs x s) s) (hone s)
  have h3 := hR s hs
  have h4 : ((runs x s).filter (fun t => decide (t.length < s.length))).countP Q * (s.length * (1 + RN))
      ≤ s.length * (1 + RN) := by
    calc _ ≤ 1 * (s.length * (1 + RN)) := Nat.mul_le_mul_right _ h2
      _ = _ := Nat.one_mul _
  rw [Nat.succ_mul]
  generalize s.length * (1 + RN) = Z at *
  omega
termination_by s.length

theorem work_star_chain (x : Re) (Q : List Nat → Bool) (w : Nat)
    (hdead : ∀ t, Q t = false → runs x t = [] ∧ work x t ≤ w)
    (hone : ∀ u, (runs x u).countP Q ≤ 1)
    (N WN RN : Nat) (hW : ∀ u, u.length ≤ N → work x u ≤ WN)
    (hR : ∀ u, u.length ≤ N → (runs x u).length ≤ RN)
    (s : List Nat) (hs : s.length ≤ N) :
    work (star x) s ≤ (s.length + 1) * (1 + WN + RN * (1 + w)) := by
  have ih : ∀ t, t.length < s.length → work (star x) t ≤ (t.length + 1) * (1 + WN + RN * (1 + w)) :=
    fun t ht => work_star_chain x Q w hdead hone N WN RN hW hR t (by omega)
  rw [work_star]
  have hsum := sum_munch ((runs x s).filter (fun t => decide (t.length < s.length))) Q
    (work (star x)) (1 + w) (s.length * (1 + WN + RN * (1 + w)))
    (fun t _ hq => by
      have := hdead t hq
      simp only [work_star_of_nil this.1]; omega)
    (fun t ht _ => by
      have hlt : t.length < s.length := by simpa using (List.mem_filter.mp ht).2
      exact Nat.le_trans (ih t hlt) (Nat.mul_le_mul_right _ (by omega)))
  have h1 := filter_shorter_length_le (runs x s) s
  have h2 := Nat.le_trans (filter_shorter_countP_le Q (runs x s) s) (hone s)
  have h3 := hR s hs
  have h3' := hW s hs
  have h4 : ((runs x s).filter (fun t => decide (t.length < s.length))).countP Q
      * (s.length * (1 + WN + RN * (1 + w))) ≤ s.length * (1 + WN + RN * (1 + w)) := by
    calc _ ≤ 1 * (s.length * (1 + WN + RN * (1 + w))) := Nat.mul_le_mul_right _ h2
      _ = _ := Nat.one_mul _
  have h5 : ((runs x s).filter (fun t => decide (t.length < s.length))).length * (1 + w) ≤ RN * (1 + w) :=
    Nat.mul_le_mul_right _ (Nat.le_trans h1 h3)
  rw [Nat.succ_mul]
  generalize s.length * (1 + WN + RN * (1 + w)) = Z at *
  generalize RN * (1 + w) = Y at *
  generalize ((runs x s).filter (fun t => decide (t.length < s.length))).length * (1 + w) = X at *
  omega
termination_by s.length

/-- results of `star x` at positions `P`, when `P` positions are not restart positions and every
    `P` or restart position is a `Q'` position, of which one iteration yields at most one -/
theorem countP_runs_star_chain (x : Re) (Q Q' P : List Nat → Bool)
    (hdead : ∀ t, Q t = false → runs x t = [])
    (hone : ∀ u, (runs x u).countP Q' ≤ 1)
    (hQ : ∀ t, Q t = true → Q' t = true) (hP : ∀ t, P t = true → Q' t = true)
    (hPQ : ∀ t, P t = true → Q t = false)
    (s : List Nat) : (runs (star x) s).countP P ≤ 1 := by
  have ih : ∀ t, t.length < s.length → (runs (star x) t).countP P ≤ 1 :=
    fun t ht => countP_runs_star_chain x Q Q' P hdead hone hQ hP hPQ t
  cases hq : Q s with
  | false => rw [runs_star_of_nil (hdead s hq)]; exact List.countP_le_length
  | true =>
    have hps : P s = false := by
      cases hp : P s with
      | false => rfl
      | true => have := hPQ s hp; simp [hq] at this
    rw [runs_star, List.countP_append, List.countP_flatMap]
    have hsum := sum_munch ((runs x s).filter (fun t => decide (t.length < s.length))) Q'
      (List.countP P ∘ runs (star x)) 0 1
      (fun t _ hq' => by
        have hqt : Q t = false := by
          cases h : Q t with
          | false => rfl
          | true => have := hQ t h; simp [hq'] at this
        have hpt : P t = false := by
          cases h : P t with
          | false => rfl
          | true => have := hP t h; simp [hq'] at this
        simp [Function.comp, runs_star_of_nil (hdead t hqt), hpt])
      (fun t ht _ => by
        have hlt : t.length < s.length := by simpa using (List.mem_filter.mp ht).2
        exact ih t hlt)
    have h2 := Nat.le_trans (filter_shorter_countP_le Q' (runs x s) s) (hone s)
    simp [hps] at hsum ⊢
    omega
termination_by s.length

/-- special case: a body with at most one result -/
theorem runs_star_length_of_single (x : Re) (h1 : ∀ u, (runs x u).length ≤ 1) (s : List Nat) :
    (runs (star x) s).length ≤ (s.length + 1) * 2 :=
  runs_star_chain_length x (fun _ => true) (fun _ h => by simp at h)
    (fun u => Nat.le_trans List.countP_le_length (h1 u)) s.length 1 (fun u _ => h1 u) s (Nat.le_refl _)

theorem work_star_of_single (x : Re) (h1 : ∀ u, (runs x u).length ≤ 1)
    (N WN : Nat) (hW : ∀ u, u.length ≤ N → work x u ≤ WN) (s : List Nat) (hs : s.length ≤ N) :
    work (star x) s ≤ (s.length + 1) * (2 + WN) := by
  have := work_star_chain x (fun _ => true) 0 (fun _ h => by simp at h)
    (fun u => Nat.le_trans List.countP_le_length (h1 u)) N WN 1 hW (fun u _ => h1 u) s hs
  simpa [Nat.add_comm, Nat.add_left_comm] using this

/-! ### polynomial bounds `B c d n = c * (n+1)^d` -/

def B (c d n : Nat) : Nat := c * (n + 1) ^ d

theorem one_le_succ_pow (d n : Nat) : 1 ≤ (n + 1) ^ d := Nat.one_le_pow _ _ (Nat.succ_pos _)

theorem le_B (c d n : Nat) : c ≤ B c d n := Nat.le_mul_of_pos_right _ (one_le_succ_pow d n)

theorem B_mono {c c' d d' n n' : Nat} (hc : c ≤ c') (hd : d ≤ d') (hn : n ≤ n') : B c d n ≤ B c' d' n' := by
  unfold B
  apply Nat.mul_le_mul hc
  calc (n + 1) ^ d ≤ (n' + 1) ^ d := Nat.pow_le_pow_left (by omega) d
    _ ≤ (n' + 1) ^ d' := Nat.pow_le_pow_right (Nat.succ_pos _) hd

theorem B_add (c c' d n : Nat) : B c d n + B c' d n = B (c + c') d n := by unfold B; rw [Nat.add_mul]

theorem B_mul (c c' d d' n : Nat) : B c d n * B c' d' n = B (c * c') (d + d') n := by
  unfold B; rw [Nat.pow_add]; exact Nat.mul_mul_mul_comm ..

theorem B_mul_const (c d n w : Nat) : B c d n * w = B (c * w) d n := by
  unfold B; rw [Nat.mul_right_comm]

theorem const_mul_B (k c d n : Nat) : k * B c d n = B (k * c) d n := by
  unfold B; rw [Nat.mul_assoc]

theorem succ_mul_B (c d n : Nat) : (n + 1) * B c d n = B c (d + 1) n := by
  unfold B; rw [Nat.pow_succ, Nat.mul_left_comm, Nat.mul_comm ((n + 1) ^ d)]

theorem polyBounded_iff {r : Re} {c d : Nat} : PolyBounded r c d ↔ ∀ s, work r s ≤ B c d s.length := Iff.rfl

/-! ### the degree calculus

`PB r d` : the search tree of `r` is `O(n^d)`;  `RP r d` : the number of results is `O(n^d)`;
`Sparse r Q` : boundedly many results at `Q` positions;  `Sparse1 r Q` : at most one;
`Dead r Q` : outside `Q`, `r` fails at bounded cost;  `Cheap r Q` : outside `Q`, `r` costs `O(1)`. -/

def PB (r : Re) (d : Nat) : Prop := ∃ c, PolyBounded r c d
def RP (r : Re) (d : Nat) : Prop := ∃ c, ∀ s, (runs r s).length ≤ B c d s.length
def Sparse (r : Re) (Q : List Nat → Bool) : Prop := ∃ k, ∀ s, (runs r s).countP Q ≤ k
def Sparse1 (r : Re) (Q : List Nat → Bool) : Prop := ∀ s, (runs r s).countP Q ≤ 1
def Dead (r : Re) (Q : List Nat → Bool) : Prop := ∃ w, ∀ t, Q t = false → runs r t = [] ∧ work r t ≤ w
def Cheap (r : Re) (Q : List Nat → Bool) : Prop := ∃ w, ∀ t, Q t = false → work r t ≤ w

theorem PB.mono {r : Re} {d g : Nat} (h : PB r d) (hd : d ≤ g := by omega) : PB r g := by
  obtain ⟨c, h⟩ := h
  exact ⟨c, fun s => Nat.le_trans (h s) (B_mono (Nat.le_refl _) hd (Nat.le_refl _))⟩

theorem RP.mono {r : Re} {d g : Nat} (h : RP r d) (hd : d ≤ g := by omega) : RP r g := by
  obtain ⟨c, h⟩ := h
  exact ⟨c, fun s => Nat.le_trans (h s) (B_mono (Nat.le_refl _) hd (Nat.le_refl _))⟩

theorem RP.of_PB {r : Re} {d : Nat} (h : PB r d) : RP r d := by
  obtain ⟨c, h⟩ := h
  exact ⟨c, fun s => Nat.le_trans (runs_length_le_work r s) (h s)⟩

theorem PB.of_const {r : Re} (c : Nat) (h : ∀ s, work r s ≤ c) {d : Nat} : PB r d :=
  ⟨c, fun s => Nat.le_trans (h s) (le_B c d _)⟩

theorem RP.of_const {r : Re} (c : Nat) (h : ∀ s, (runs r s).length ≤ c) {d : Nat} : RP r d :=
  ⟨c, fun s => Nat.le_trans (h s) (le_B c d _)⟩

theorem PB.const {r : Re} (h : PB r 0) : ∃ c, ∀ s, work r s ≤ c := by
  obtain ⟨c, h⟩ := h
  exact ⟨c, fun s => by simpa [PolyBounded] using h s⟩

theorem RP.const {r : Re} (h : RP r 0) : ∃ c, ∀ s, (runs r s).length ≤ c := by
  obtain ⟨c, h⟩ := h
  exact ⟨c, fun s => by simpa [B] using h s⟩

theorem PB.eps : PB Re.eps 0 := PB.of_const 1 (fun s => by simp)
theorem PB.cls {ivs} : PB (Re.cls ivs) 0 := PB.of_const 1 (fun s => by simp)
theorem PB.eos : PB Re.eos 0 := PB.of_const 1 (fun s => by simp)
theorem PB.eosNl : PB Re.eosNl 0 := PB.of_const 1 (fun s => by simp)
theorem PB.unsupported : PB Re.unsupported 0 := PB.of_const 1 (fun s => by simp)
theorem RP.cls {ivs} : RP (Re.cls ivs) 0 := RP.of_const 1 (runs_cls_length_le ivs)

theorem PB.group {id : Nat} {a : Re} {d : Nat} (h : PB a d) : PB (Re.group id a) d := by
  obtain ⟨c, h⟩ := h
  refine ⟨1 + c, fun s => ?_⟩
  have h1 : work a s ≤ B c d s.length := h s
  have h2 := le_B 1 d s.length
  show work (Re.group id a) s ≤ B (1 + c) d s.length
  rw [work_group, ← B_add]; omega

theorem RP.group {id : Nat} {a : Re} {d : Nat} (h : RP a d) : RP (Re.group id a) d := by
  obtain ⟨c, h⟩ := h
  exact ⟨c, fun s => by rw [runs_group]; exact h s⟩

theorem PB.alt {a b : Re} {d e g : Nat} (ha : PB a d) (hb : PB b e)
    (hd : d ≤ g := by omega) (he : e ≤ g := by omega) : PB (Re.alt a b) g := by
  obtain ⟨ca, ha⟩ := ha
  obtain ⟨cb, hb⟩ := hb
  refine ⟨1 + ca + cb, fun s => ?_⟩
  have h1 : work a s ≤ B ca g s.length := Nat.le_trans (ha s) (B_mono (Nat.le_refl _) hd (Nat.le_refl _))
  have h2 : work b s ≤ B cb g s.length := Nat.le_trans (hb s) (B_mono (Nat.le_refl _) he (Nat.le_refl _))
  have h3 := le_B 1 g s.length
  show work (Re.alt a b) s ≤ B (1 + ca + cb) g s.length
  rw [work_alt, ← B_add, ← B_add]; omega

theorem RP.alt {a b : Re} {d e g : Nat} (ha : RP a d) (hb : RP b e)
    (hd : d ≤ g := by omega) (he : e ≤ g := by omega) : RP (Re.alt a b) g := by
  obtain ⟨ca, ha⟩ := ha
  obtain ⟨cb, hb⟩ := hb
  refine ⟨ca + cb, fun s => ?_⟩
  have h1 := Nat.le_trans (ha s) (B_mono (Nat.le_refl _) hd (Nat.le_refl s.length))
  have h2 := Nat.le_trans (hb s) (B_mono (Nat.le_refl _) he (Nat.le_refl s.length))
  rw [runs_alt_length, ← B_add]; omega

/-- crude rule for a concatenation -/
theorem PB.cat {a b : Re} {d e f g : Nat} (ha : PB a d) (ra : RP a e) (hb : PB b f)
    (hd : d ≤ g := by omega) (hef : e + f ≤ g := by omega) : PB (Re.cat a b) g := by
  obtain ⟨ca, ha⟩ := ha
  obtain ⟨ka, ra⟩ := ra
  obtain ⟨cb, hb⟩ := hb
  refine ⟨1 + ca + ka * cb, fun s => ?_⟩
  have h0 := work_cat_le a b s (B cb f s.length)
    (fun t ht => Nat.le_trans (hb t) (B_mono (Nat.le_refl _) (Nat.le_refl _) (runs_length_le ht)))
  have h1 : work a s ≤ B ca g s.length := Nat.le_trans (ha s) (B_mono (Nat.le_refl _) hd (Nat.le_refl _))
  have h2 : (runs a s).length * B cb f s.length ≤ B (ka * cb) g s.length :=
    calc _ ≤ B ka e s.length * B cb f s.length := Nat.mul_le_mul_right _ (ra s)
      _ = B (ka * cb) (e + f) s.length := B_mul ..
      _ ≤ _ := B_mono (Nat.le_refl _) hef (Nat.le_refl _)
  have h3 := le_B 1 g s.length
  show work (Re.cat a b) s ≤ B (1 + ca + ka * cb) g s.length
  rw [← B_add, ← B_add]; omega

theorem RP.cat {a b : Re} {e f g : Nat} (ra : RP a e) (rb : RP b f) (hef : e + f ≤ g := by omega) :
    RP (Re.cat a b) g := by
  obtain ⟨ka, ra⟩ := ra
  obtain ⟨kb, rb⟩ := rb
  refine ⟨ka * kb, fun s => ?_⟩
  have h0 := runs_cat_length_le a b s (B kb f s.length)
    (fun t ht => Nat.le_trans (rb t) (B_mono (Nat.le_refl _) (Nat.le_refl _) (runs_length_le ht)))
  calc _ ≤ _ := h0
    _ ≤ B ka e s.length * B kb f s.length := Nat.mul_le_mul_right _ (ra s)
    _ = B (ka * kb) (e + f) s.length := B_mul ..
    _ ≤ _ := B_mono (Nat.le_refl _) hef (Nat.le_refl _)

/-- maximal-munch rule for a concatenation: `b` is cheap except at `Q` positions, and `a` has
    boundedly many results at `Q` positions -/
theorem PB.cat_munch (Q : List Nat → Bool) {a b : Re} {d e f g : Nat} (ha : PB a d) (ra : RP a e)
    (sa : Sparse a Q) (cb : Cheap b Q) (hb : PB b f)
    (hd : d ≤ g := by omega) (he : e ≤ g := by omega) (hf : f ≤ g := by omega) : PB (Re.cat a b) g := by
  obtain ⟨ca, ha⟩ := ha
  obtain ⟨ka, ra⟩ := ra
  obtain ⟨k, sa⟩ := sa
  obtain ⟨w, cb⟩ := cb
  obtain ⟨cb', hb⟩ := hb
  refine ⟨1 + ca + ka * w + k * cb', fun s => ?_⟩
  have h0 := work_cat_munch a b s Q w (B cb' f s.length) (fun t _ hq => cb t hq)
    (fun t ht _ => Nat.le_trans (hb t) (B_mono (Nat.le_refl _) (Nat.le_refl _) (runs_length_le ht)))
  have h1 : work a s ≤ B ca g s.length := Nat.le_trans (ha s) (B_mono (Nat.le_refl _) hd (Nat.le_refl _))
  have h2 : (runs a s).length * w ≤ B (ka * w) g s.length :=
    calc _ ≤ B ka e s.length * w := Nat.mul_le_mul_right _ (ra s)
      _ = B (ka * w) e s.length := B_mul_const ..
      _ ≤ _ := B_mono (Nat.le_refl _) he (Nat.le_refl _)
  have h3 : (runs a s).countP Q * B cb' f s.length ≤ B (k * cb') g s.length :=
    calc _ ≤ k * B cb' f s.length := Nat.mul_le_mul_right _ (sa s)
      _ = B (k * cb') f s.length := const_mul_B ..
      _ ≤ _ := B_mono (Nat.le_refl _) hf (Nat.le_refl _)
  have h4 := le_B 1 g s.length
  show work (Re.cat a b) s ≤ B (1 + ca + ka * w + k * cb') g s.length
  rw [← B_add, ← B_add, ← B_add]; omega

theorem RP.cat_munch (Q : List Nat → Bool) {a b : Re} {e f g : Nat} (ra : RP a e)
    (sa : Sparse a Q) (cb : Cheap b Q) (rb : RP b f)
    (he : e ≤ g := by omega) (hf : f ≤ g := by omega) : RP (Re.cat a b) g := by
  obtain ⟨ka, ra⟩ := ra
  obtain ⟨k, sa⟩ := sa
  obtain ⟨w, cb⟩ := cb
  obtain ⟨kb, rb⟩ := rb
  refine ⟨ka * w + k * kb, fun s => ?_⟩
  have h0 := runs_cat_length_munch a b s Q w (B kb f s.length)
    (fun t _ hq => Nat.le_trans (runs_length_le_work b t) (cb t hq))
    (fun t ht _ => Nat.le_trans (rb t) (B_mono (Nat.le_refl _) (Nat.le_refl _) (runs_length_le ht)))
  have h2 : (runs a s).length * w ≤ B (ka * w) g s.length :=
    calc _ ≤ B ka e s.length * w := Nat.mul_le_mul_right _ (ra s)
      _ = B (ka * w) e s.length := B_mul_const ..
      _ ≤ _ := B_mono (Nat.le_refl _) he (Nat.le_refl _)
  have h3 : (runs a s).countP Q * B kb f s.length ≤ B (k * kb) g s.length :=
    calc _ ≤ k * B kb f s.length := Nat.mul_le_mul_right _ (sa s)
      _ = B (k * kb) f s.length := const_mul_B ..
      _ ≤ _ := B_mono (Nat.le_refl _) hf (Nat.le_refl _)
  rw [← B_add]; omega

/-! #### `Dead` / `Cheap` -/

theorem Dead.mono {r : Re} {Q Q' : List Nat → Bool} (h : Dead r Q) (hq : ∀ t, Q' t = false → Q t = false) :
    Dead r Q' := by
  obtain ⟨w, h⟩ := h
  exact ⟨w, fun t ht => h t (hq t ht)⟩

theorem Dead.cls (ivs) : Dead (Re.cls ivs) (startsIn ivs) :=
  ⟨1, fun t ht => ⟨runs_cls_of_not_startsIn ht, by simp⟩⟩

theorem Dead.cat {a : Re} {Q : List Nat → Bool} (h : Dead a Q) (b : Re) : Dead (Re.cat a b) Q := by
  obtain ⟨w, h⟩ := h
  refine ⟨1 + w, fun t ht => ?_⟩
  have := h t ht
  rw [runs_cat, work_cat, this.1]
  exact ⟨rfl, by simp; omega⟩

theorem Dead.group {a : Re} {Q : List Nat → Bool} (h : Dead a Q) (id : Nat) : Dead (Re.group id a) Q := by
  obtain ⟨w, h⟩ := h
  refine ⟨1 + w, fun t ht => ?_⟩
  have := h t ht
  rw [runs_group, work_group]
  exact ⟨this.1, by omega⟩

theorem Dead.alt {a b : Re} {Q : List Nat → Bool} (ha : Dead a Q) (hb : Dead b Q) : Dead (Re.alt a b) Q := by
  obtain ⟨wa, ha⟩ := ha
  obtain ⟨wb, hb⟩ := hb
  refine ⟨1 + wa + wb, fun t ht => ?_⟩
  have h1 := ha t ht
  have h2 := hb t ht
  rw [runs_alt, work_alt, h1.1, h2.1]
  exact ⟨rfl, by omega⟩

theorem Dead.runs_eq {r : Re} {Q : List Nat → Bool} (h : Dead r Q) {t : List Nat} (ht : Q t = false) :
    runs r t = [] := by
  obtain ⟨w, h⟩ := h
  exact (h t ht).1

theorem Cheap.mono {r : Re} {Q Q' : List Nat → Bool} (h : Cheap r Q) (hq : ∀ t, Q' t = false → Q t = false) :
    Cheap r Q' := by
  obtain ⟨w, h⟩ := h
  exact ⟨w, fun t ht => h t (hq t ht)⟩

theorem Cheap.of_Dead {r : Re} {Q : List Nat → Bool} (h : Dead r Q) : Cheap r Q := by
  obtain ⟨w, h⟩ := h
  exact ⟨w, fun t ht => (h t ht).2⟩

theorem Cheap.of_PB0 {r : Re} (h : PB r 0) (Q : List Nat → Bool) : Cheap r Q := by
  obtain ⟨c, h⟩ := h.const
  exact ⟨c, fun t _ => h t⟩

theorem Cheap.star_of_Dead {x : Re} {Q : List Nat → Bool} (h : Dead x Q) : Cheap (Re.star x) Q := by
  obtain ⟨w, h⟩ := h
  refine ⟨1 + w, fun t ht => ?_⟩
  have := h t ht
  rw [work_star_of_nil this.1]; omega

theorem Cheap.group {a : Re} {Q : List Nat → Bool} (h : Cheap a Q) (id : Nat) : Cheap (Re.group id a) Q := by
  obtain ⟨w, h⟩ := h
  refine ⟨1 + w, fun t ht => ?_⟩
  have := h t ht
  rw [work_group]; omega

theorem Cheap.alt {a b : Re} {Q : List Nat → Bool} (ha : Cheap a Q) (hb : Cheap b Q) : Cheap (Re.alt a b) Q := by
  obtain ⟨wa, ha⟩ := ha
  obtain ⟨wb, hb⟩ := hb
  refine ⟨1 + wa + wb, fun t ht => ?_⟩
  have := ha t ht; have := hb t ht
  rw [work_alt]; omega

/-- a cheap head followed by a constant-cost tail -/
theorem Cheap.cat_const {a b : Re} {Q : List Nat → Bool} (ha : Cheap a Q) (hb : PB b 0) :
    Cheap (Re.cat a b) Q := by
  obtain ⟨w, ha⟩ := ha
  obtain ⟨c, hb⟩ := hb.const
  refine ⟨1 + w + w * c, fun t ht => ?_⟩
  have h1 := ha t ht
  have h2 := work_cat_le a b t c (fun u _ => hb u)
  have h3 : (runs a t).length * c ≤ w * c :=
    Nat.mul_le_mul_right _ (Nat.le_trans (runs_length_le_work a t) h1)
  omega

/-! #### `Sparse` -/

theorem Sparse1.sparse {r : Re} {Q : List Nat → Bool} (h : Sparse1 r Q) : Sparse r Q := ⟨1, h⟩

theorem countP_mono_pred {α} (P P' : α → Bool) (h : ∀ t, P t = true → P' t = true) (l : List α) :
    l.countP P ≤ l.countP P' := by
  induction l with
  | nil => simp
  | cons a l ih =>
    simp only [List.countP_cons]
    cases hp : P a with
    | false => simp; omega
    | true => simp [h a hp]; omega

theorem Sparse.mono {r : Re} {P P' : List Nat → Bool} (h : Sparse r P') (hp : ∀ t, P t = true → P' t = true) :
    Sparse r P := by
  obtain ⟨k, h⟩ := h
  exact ⟨k, fun s => Nat.le_trans (countP_mono_pred P P' hp _) (h s)⟩

theorem Sparse1.mono {r : Re} {P P' : List Nat → Bool} (h : Sparse1 r P') (hp : ∀ t, P t = true → P' t = true) :
    Sparse1 r P := fun s => Nat.le_trans (countP_mono_pred P P' hp _) (h s)

theorem Sparse.of_RP0 {r : Re} (h : RP r 0) (P : List Nat → Bool) : Sparse r P := by
  obtain ⟨k, h⟩ := h.const
  exact ⟨k, fun s => Nat.le_trans List.countP_le_length (h s)⟩

theorem Sparse1.cls (ivs) (P : List Nat → Bool) : Sparse1 (Re.cls ivs) P :=
  fun s => Nat.le_trans List.countP_le_length (runs_cls_length_le ivs s)

theorem Sparse.group {a : Re} {P : List Nat → Bool} (h : Sparse a P) (id : Nat) : Sparse (Re.group id a) P := by
  obtain ⟨k, h⟩ := h
  exact ⟨k, fun s => by rw [runs_group]; exact h s⟩

theorem Sparse1.group {a : Re} {P : List Nat → Bool} (h : Sparse1 a P) (id : Nat) : Sparse1 (Re.group id a) P :=
  fun s => by rw [runs_group]; exact h s

theorem Sparse.alt {a b : Re} {P : List Nat → Bool} (ha : Sparse a P) (hb : Sparse b P) :
    Sparse (Re.alt a b) P := by
  obtain ⟨ka, ha⟩ := ha
  obtain ⟨kb, hb⟩ := hb
  refine ⟨ka + kb, fun s => ?_⟩
  have := ha s; have := hb s
  rw [countP_runs_alt]; omega

/-- alternatives of which at most one contributes `P` results -/
theorem Sparse1.alt_of_excl {a b : Re} {P : List Nat → Bool} (ha : Sparse1 a P) (hb : Sparse1 b P)
    (hex : ∀ s, (runs a s).countP P = 0 ∨ (runs b s).countP P = 0) : Sparse1 (Re.alt a b) P := by
  intro s
  have := ha s; have := hb s
  rw [countP_runs_alt]
  cases hex s <;> omega

/-- a head with boundedly many results -/
theorem Sparse.cat {a b : Re} {P : List Nat → Bool} (ra : RP a 0) (hb : Sparse b P) : Sparse (Re.cat a b) P := by
  obtain ⟨ka, ra⟩ := ra.const
  obtain ⟨kb, hb⟩ := hb
  refine ⟨ka * kb, fun s => ?_⟩
  rw [countP_runs_cat]
  exact Nat.le_trans (sum_map_le_mul _ _ kb (fun t _ => hb t)) (Nat.mul_le_mul_right _ (ra s))

/-- a head with at most one result -/
theorem Sparse1.cat {a b : Re} {P : List Nat → Bool} (ra : ∀ s, (runs a s).length ≤ 1) (hb : Sparse1 b P) :
    Sparse1 (Re.cat a b) P := by
  intro s
  rw [countP_runs_cat]
  exact Nat.le_trans (sum_map_le_mul _ _ 1 (fun t _ => hb t)) (by have := ra s; omega)

/-- maximal munch: only the `Q` results of `a` let `b` produce a `P` result -/
theorem Sparse.cat_munch (Q : List Nat → Bool) {a b : Re} {P : List Nat → Bool} (sa : Sparse a Q)
    (hpass : ∀ t, Q t = false → ∀ u ∈ runs b t, P u = false) (hb : Sparse b P) : Sparse (Re.cat a b) P := by
  obtain ⟨ka, sa⟩ := sa
  obtain ⟨kb, hb⟩ := hb
  refine ⟨ka * kb, fun s => ?_⟩
  rw [countP_runs_cat]
  have := sum_munch (runs a s) Q (fun t => (runs b t).countP P) 0 kb
    (fun t _ hq => by
      have : (runs b t).countP P = 0 := by
        rw [List.countP_eq_zero]; intro u hu; simp [hpass t hq u hu]
      omega)
    (fun t _ _ => hb t)
  have h2 : (runs a s).countP Q * kb ≤ ka * kb := Nat.mul_le_mul_right _ (sa s)
  omega

theorem Sparse1.cat_munch (Q : List Nat → Bool) {a b : Re} {P : List Nat → Bool} (sa : Sparse1 a Q)
    (hpass : ∀ t, Q t = false → ∀ u ∈ runs b t, P u = false) (hb : Sparse1 b P) : Sparse1 (Re.cat a b) P := by
  intro s
  rw [countP_runs_cat]
  have := sum_munch (runs a s) Q (fun t => (runs b t).countP P) 0 1
    (fun t _ hq => by
      have : (runs b t).countP P = 0 := by
        rw [List.countP_eq_zero]; intro u hu; simp [hpass t hq u hu]
      omega)
    (fun t _ _ => hb t)
  have h2 := sa s
  omega

/-- pass-through condition of `cat_munch` for a dead `b` -/
theorem pass_of_Dead {b : Re} {Q : List Nat → Bool} (h : Dead b Q) (P : List Nat → Bool) :
    ∀ t, Q t = false → ∀ u ∈ runs b t, P u = false := by
  intro t ht u hu
  rw [h.runs_eq ht] at hu; simp at hu

/-- pass-through condition of `cat_munch` for `b = star x` with a dead body -/
theorem pass_star_of_Dead {x : Re} {Q' Q P : List Nat → Bool} (h : Dead x Q)
    (hq : ∀ t, Q' t = false → Q t = false) (hp : ∀ t, Q' t = false → P t = false) :
    ∀ t, Q' t = false → ∀ u ∈ runs (Re.star x) t, P u = false := by
  intro t ht u hu
  rw [runs_star_of_nil (h.runs_eq (hq t ht))] at hu
  simp at hu; rw [hu]; exact hp t ht

theorem Sparse1.star_cls (ivs) {P : List Nat → Bool} (hP : ∀ t, P t = true → startsIn ivs t = false) :
    Sparse1 (Re.star (Re.cls ivs)) P := countP_runs_star_cls ivs P hP

theorem Sparse1.star_chain {x : Re} (Q Q' : List Nat → Bool) {P : List Nat → Bool} (hdead : Dead x Q)
    (hone : Sparse1 x Q') (hQ : ∀ t, Q t = true → Q' t = true) (hP : ∀ t, P t = true → Q' t = true)
    (hPQ : ∀ t, P t = true → Q t = false) : Sparse1 (Re.star x) P :=
  countP_runs_star_chain x Q Q' P (fun _ ht => hdead.runs_eq ht) hone hQ hP hPQ

/-! #### `star` -/

theorem PB.star_cls (ivs) : PB (Re.star (Re.cls ivs)) 1 :=
  ⟨2, fun s => by simpa using work_star_cls_le ivs s⟩

theorem RP.star_cls (ivs) : RP (Re.star (Re.cls ivs)) 1 :=
  ⟨1, fun s => by simpa [B] using runs_star_cls_length ivs s⟩

/-- chain rule: the body is dead outside `Q` and yields at most one `Q` result per iteration -/
theorem RP.star_chain (Q : List Nat → Bool) {x : Re} {e g : Nat} (hdead : Dead x Q) (hone : Sparse1 x Q)
    (rx : RP x e) (he : e + 1 ≤ g := by omega) : RP (Re.star x) g := by
  obtain ⟨k, rx⟩ := rx
  refine ⟨1 + k, fun s => ?_⟩
  have h := runs_star_chain_length x Q (fun _ ht => hdead.runs_eq ht) hone s.length (B k e s.length)
    (fun u hu => Nat.le_trans (rx u) (B_mono (Nat.le_refl _) (Nat.le_refl _) hu)) s (Nat.le_refl _)
  have h1 : 1 + B k e s.length ≤ B (1 + k) e s.length := by
    rw [← B_add]; have := le_B 1 e s.length; omega
  calc _ ≤ _ := h
    _ ≤ (s.length + 1) * B (1 + k) e s.length := Nat.mul_le_mul_left _ h1
    _ = B (1 + k) (e + 1) s.length := succ_mul_B ..
    _ ≤ _ := B_mono (Nat.le_refl _) he (Nat.le_refl _)

theorem PB.star_chain (Q : List Nat → Bool) {x : Re} {d e g : Nat} (hdead : Dead x Q) (hone : Sparse1 x Q)
    (hx : PB x d) (rx : RP x e) (hd : d + 1 ≤ g := by omega) (he : e + 1 ≤ g := by omega) :
    PB (Re.star x) g := by
  obtain ⟨w, hdead⟩ := hdead
  obtain ⟨c, hx⟩ := hx
  obtain ⟨k, rx⟩ := rx
  refine ⟨1 + c + k * (1 + w), fun s => ?_⟩
  have h := work_star_chain x Q w hdead hone s.length (B c (g - 1) s.length) (B k (g - 1) s.length)
    (fun u hu => Nat.le_trans (hx u) (B_mono (Nat.le_refl _) (by omega) hu))
    (fun u hu => Nat.le_trans (rx u) (B_mono (Nat.le_refl _) (by omega) hu)) s (Nat.le_refl _)
  have h1 : 1 + B c (g - 1) s.length + B k (g - 1) s.length * (1 + w)
      ≤ B (1 + c + k * (1 + w)) (g - 1) s.length := by
    rw [← B_add, ← B_add, B_mul_const]; have := le_B 1 (g - 1) s.length; omega
  show work (Re.star x) s ≤ B (1 + c + k * (1 + w)) g s.length
  calc _ ≤ _ := h
    _ ≤ (s.length + 1) * B (1 + c + k * (1 + w)) (g - 1) s.length := Nat.mul_le_mul_left _ h1
    _ = B (1 + c + k * (1 + w)) (g - 1 + 1) s.length := succ_mul_B ..
    _ ≤ _ := B_mono (Nat.le_refl _) (by omega) (Nat.le_refl _)

/-- special case: a body with at most one result -/
theorem PB.star_single {x : Re} {d g : Nat} (h1 : ∀ u, (runs x u).length ≤ 1) (hx : PB x d)
    (hd : d + 1 ≤ g := by omega) : PB (Re.star x) g :=
  PB.star_chain (fun _ => true) ⟨0, fun _ h => by simp at h⟩
    (fun u => Nat.le_trans List.countP_le_length (h1 u)) hx (RP.of_const 1 h1 (d := 0)) hd (by omega)

theorem RP.star_single {x : Re} {g : Nat} (h1 : ∀ u, (runs x u).length ≤ 1) (hg : 1 ≤ g := by omega) :
    RP (Re.star x) g :=
  RP.star_chain (fun _ => true) ⟨0, fun _ h => by simp at h⟩
    (fun u => Nat.le_trans List.countP_le_length (h1 u)) (RP.of_const 1 h1 (d := 0)) (by omega)

/-! #### star-free patterns have constant cost -/

def starFree : Re → Bool
  | .cat a b => starFree a && starFree b
  | .alt a b => starFree a && starFree b
  | .group _ a => starFree a
  | .star _ => false
  | _ => true

theorem PB.of_starFree : ∀ (r : Re), starFree r = true → PB r 0
  | .eps, _ => PB.eps
  | .cls _, _ => PB.cls
  | .eos, _ => PB.eos
  | .eosNl, _ => PB.eosNl
  | .unsupported, _ => PB.unsupported
  | .group _ a, h => (PB.of_starFree a (by simpa [starFree] using h)).group
  | .alt a b, h => by
    simp [starFree] at h
    exact PB.alt (PB.of_starFree a h.1) (PB.of_starFree b h.2)
  | .cat a b, h => by
    simp [starFree] at h
    exact PB.cat (PB.of_starFree a h.1) (RP.of_PB (PB.of_starFree a h.1)) (PB.of_starFree b h.2)
  | .star _, h => by simp [starFree] at h

end Verif.Proofs.ReCost

/-! ### the statements used by Props/C18.lean -/

namespace Verif.Proofs
open Verif Verif.Re Verif.Proofs.ReCost

/-- `re.sub` tries the pattern at every position -/
theorem sub_cost (r : Re) (c d : Nat) (h : PolyBounded r c d) (s : List Nat) :
    ((List.range (s.length + 1)).map (fun i => Re.work r (s.drop i))).sum ≤ c * (s.length + 1) ^ (d + 1) := by
  have h1 := sum_map_le_mul (List.range (s.length + 1)) (fun i => Re.work r (s.drop i)) (B c d s.length)
    (fun i _ => Nat.le_trans (h _) (B_mono (Nat.le_refl _) (Nat.le_refl _) (by rw [List.length_drop]; omega)))
  rw [List.length_range, succ_mul_B] at h1
  exact h1

/-! #### the nested repetition `'([^'\\]+)+'` -/

/-- `[^'\\]` -/
def npX : Re := .cls [(0, 38), (40, 91), (93, 1114111)]
/-- `y+` -/
def rePlus (y : Re) : Re := .cat y (.star y)
/-- `'([^'\\]+)+'` -/
def nestedPlusPattern : Re := .cat (.cls [(39, 39)]) (.cat (rePlus (rePlus npX)) (.cls [(39, 39)]))

private def aN (n : Nat) : List Nat := List.replicate n 97

private theorem aN_succ (n : Nat) : aN (n + 1) = 97 :: aN n := rfl

private theorem runs_starX (k : Nat) : runs (star npX) (aN k) = (List.range (k + 1)).map aN := by
  induction k with
  | zero => exact runs_star_cls_nil _
  | succ k ih =>
    rw [aN_succ, npX, runs_star_cls_cons, if_pos (by decide), ← npX, ih, List.range_succ (n := k + 1),
      List.map_append]
    rfl

private theorem runs_plusX (k : Nat) : runs (rePlus npX) (aN k) = (List.range k).map aN := by
  cases k with
  | zero => rw [rePlus, runs_cat, npX]; show List.flatMap _ (runs (cls _) []) = _; rw [runs_cls_nil]; rfl
  | succ k =>
    rw [rePlus, runs_cat, aN_succ, npX, runs_cls_cons, if_pos (by decide), ← npX]
    simp [runs_starX]

private theorem runs_star_plusX_length (k : Nat) :
    (runs (star (rePlus npX)) (aN k)).length
      = ((List.range k).map (fun j => (runs (star (rePlus npX)) (aN j)).length)).sum + 1 := by
  rw [runs_star, runs_plusX, List.filter_eq_self.mpr, List.length_append, List.length_flatMap, List.map_map]
  · rfl
  · intro t ht
    rw [List.mem_map] at ht
    obtain ⟨j, hj, rfl⟩ := ht
    simpa [aN] using hj

private theorem sum_range_succ (f : Nat → Nat) (k : Nat) :
    ((List.range (k + 1)).map f).sum = ((List.range k).map f).sum + f k := by
  rw [List.range_succ, List.map_append, List.sum_append]; simp

private theorem sum_star_plusX (k : Nat) :
    ((List.range k).map (fun j => (runs (star (rePlus npX)) (aN j)).length)).sum + 1 = 2 ^ k := by
  induction k with
  | zero => rfl
  | succ k ih =>
    rw [sum_range_succ, runs_star_plusX_length k, Nat.pow_succ]; omega

/-- the number of ways `([^'\\]+)*` splits `aaa…a` doubles with every character -/
theorem nestedPlus_runs (k : Nat) : (runs (star (rePlus npX)) (List.replicate k 97)).length = 2 ^ k := by
  have := runs_star_plusX_length k
  rw [← sum_star_plusX k]; exact this

theorem work_rePlus_rePlus_ge (n : Nat) : 2 ^ n ≤ work (rePlus (rePlus npX)) (List.replicate n 97) := by
  show _ ≤ work (rePlus (rePlus npX)) (aN n)
  rw [rePlus, work_cat, runs_plusX]
  have h := sum_map_le ((List.range n).map aN) (fun t => (runs (star (rePlus npX)) t).length)
    (work (star (rePlus npX))) (fun t _ => runs_length_le_work _ t)
  rw [List.map_map] at h
  have h2 := sum_star_plusX n
  simp only [Function.comp_def] at h
  omega

/-- the search tree of the nested repetition at least doubles with every added character on the
    unterminated inputs `'aaa…a` -/
theorem nestedPlus_exponential (n : Nat) :
    2 ^ n ≤ Re.work nestedPlusPattern (39 :: List.replicate n 97) := by
  rw [nestedPlusPattern, work_cat, runs_cls_cons, if_pos (by decide)]
  simp only [List.map_cons, List.map_nil, List.sum_cons, List.sum_nil]
  rw [work_cat]
  have := work_rePlus_rePlus_ge n
  omega

end Verif.Proofs
