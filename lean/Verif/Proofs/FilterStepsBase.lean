/-
C18 (continued) — the step-counting filter parser, part 2a: arithmetic of the budget
`W K m = 32·m + K·m²` (monotone, superadditive: `W K a + W K b ≤ W K (a+b)`), and the step bounds of
the leaves: a search costs at most the length searched; `_unpack_filter_value` at most `20·len + 9`;
the substrings split at most `21·len + 20`; the extensible header at most
`6·(len+1) + K·(len+1)²` — its two pattern matches are on different parts of the header, and
`(a+1)² + (b+1)² ≤ (a+b+2)² ≤ (len+1)²` (`tot_splitOn`: the parts and their separators make up the
header).
-/
import Verif.Proofs.FilterSteps
namespace Verif.Proofs.FilterSteps
open Verif Verif.FilterSteps
open Verif.Proofs.FilterTotal (simpleBody valueLen unpackSimple_eq indexOf_lt valueLen_le)

/-! ### arithmetic -/

def sq (n : Nat) : Nat := n * n

theorem reCharge_eq (K l : Nat) : reCharge K l = K * sq (l + 1) := by
  simp only [reCharge, sq, Nat.pow_two]

theorem sq_mono {a b : Nat} (h : a ≤ b) : sq a ≤ sq b := Nat.mul_le_mul h h

theorem sq_add (a b : Nat) : sq a + sq b ≤ sq (a + b) := by
  unfold sq
  rw [Nat.add_mul, Nat.mul_add, Nat.mul_add]
  omega

theorem Ksq_mono (K : Nat) {a b : Nat} (h : a ≤ b) : K * sq a ≤ K * sq b :=
  Nat.mul_le_mul_left K (sq_mono h)

theorem Ksq_add (K a b : Nat) : K * sq a + K * sq b ≤ K * sq (a + b) := by
  rw [← Nat.mul_add]; exact Nat.mul_le_mul_left K (sq_add a b)

/-- the invariant's budget for `m` consumed bytes -/
def W (K m : Nat) : Nat := 32 * m + K * sq m

theorem W_add (K a b : Nat) : W K a + W K b ≤ W K (a + b) := by
  have := Ksq_add K a b
  unfold W; omega

theorem W_mono (K : Nat) {a b : Nat} (h : a ≤ b) : W K a ≤ W K b := by
  have := Ksq_mono K h
  unfold W; omega

theorem W_lin (K m : Nat) : 32 * m ≤ W K m := by unfold W; omega

theorem W_succ (K r : Nat) : W K r + 32 ≤ W K (r + 1) := by
  have := W_add K r 1
  have := W_lin K 1
  omega

/-! ### leaves -/

theorem scanCost_le (c : Nat) (bs : Bytes) : scanCost c bs ≤ bs.length := by
  unfold scanCost
  split
  · rename_i i hi; exact indexOf_lt hi
  · exact Nat.le_refl _

theorem unescapeS_snd_le : ∀ (fuel : Nat) (l : Bytes), (unescapeS fuel l).2 ≤ l.length := by
  intro fuel
  induction fuel with
  | zero => intro l; cases l <;> simp [unescapeS]
  | succ fuel ih =>
    intro l
    match l with
    | [] => simp [unescapeS]
    | b :: r =>
      simp only [unescapeS]
      split
      · match r with
        | [] => simp
        | [_] => simp
        | h1 :: h2 :: r' =>
          simp only
          split
          · have := ih r'; simp only [List.length_cons]; omega
          · simp
      · have := ih r; simp only [List.length_cons]; omega

theorem valueS_snd_le (v : Bytes) : (valueS v).2 ≤ 20 * v.length + 9 := by
  have := unescapeS_snd_le (v.length + 1) v
  simp only [valueS]; omega

/-- octets of the parts, plus one per part -/
def tot : List Bytes → Nat
  | [] => 0
  | p :: ps => p.length + 1 + tot ps

theorem length_le_tot : ∀ ps : List Bytes, ps.length ≤ tot ps
  | [] => Nat.le_refl _
  | p :: ps => by have := length_le_tot ps; simp only [List.length_cons, tot]; omega

theorem tot_splitOn (sep : Nat) : ∀ l : Bytes, tot (splitOn sep l) = l.length + 1 := by
  intro l
  induction l with
  | nil => rfl
  | cons b r ih =>
    simp only [splitOn]
    generalize splitOn sep r = sp at ih
    match sp with
    | [] => simp [tot] at ih
    | x :: xs =>
      simp only
      split
      · simp only [tot, List.length_cons, List.length_nil] at ih ⊢; omega
      · simp only [tot, List.length_cons] at ih ⊢; omega

theorem partsSteps_le : ∀ ps : List Bytes, partsSteps ps ≤ 20 * tot ps
  | [] => Nat.le_refl _
  | v :: vs => by
    have := partsSteps_le vs
    have hv := valueS_snd_le v
    simp only [partsSteps, tot]
    split <;> omega

theorem substringsValueS_snd_le (raw : Bytes) : (substringsValueS raw).2 ≤ 21 * raw.length + 20 := by
  have h1 := partsSteps_le (splitOn cStar raw)
  rw [tot_splitOn] at h1
  have : (substringsValueS raw).2 = raw.length + partsSteps (splitOn cStar raw) := by
    unfold substringsValueS
    split <;> rfl
  omega

theorem extHeaderS_snd_le (K : Nat) (header : Bytes) :
    (extHeaderS K header).2 ≤ 6 * (header.length + 1) + K * sq (header.length + 1) := by
  have htot := tot_splitOn cColon header
  unfold extHeaderS
  generalize splitOn cColon header = sp at htot
  generalize header.length = L at htot
  match sp with
  | [] => simp [tot] at htot
  | h0 :: rest =>
    simp only [reCharge_eq]
    have hr := length_le_tot rest
    simp only [tot] at htot
    have k0 : K * sq (h0.length + 1) ≤ K * sq (L + 1) := Ksq_mono K (by omega)
    split
    · simp only [List.length_cons]; split <;> omega
    · match rest with
      | [] => simp only [List.length_cons, List.length_nil]; split <;> omega
      | d :: r =>
        simp only [tot] at htot hr
        have hr' := length_le_tot r
        by_cases hd : List.map lowerAscii d = [100, 110]
        · simp only [hd, if_true]
          match r with
          | [] => simp only [List.length_cons, List.length_nil]; split <;> omega
          | [x] =>
            simp only [tot] at htot
            have k1 := Ksq_add K (h0.length + 1) (x.length + 1)
            have k2 : K * sq (h0.length + 1 + (x.length + 1)) ≤ K * sq (L + 1) := Ksq_mono K (by omega)
            have k3 : K * sq (x.length + 1) ≤ K * sq (L + 1) := Ksq_mono K (by omega)
            simp only [List.length_cons, List.length_nil]; split <;> omega
          | x :: y :: t =>
            simp only [tot] at htot
            have ht := length_le_tot t
            have k1 := Ksq_add K (h0.length + 1) (x.length + 1)
            have k2 : K * sq (h0.length + 1 + (x.length + 1)) ≤ K * sq (L + 1) := Ksq_mono K (by omega)
            have k3 : K * sq (x.length + 1) ≤ K * sq (L + 1) := Ksq_mono K (by omega)
            simp only [List.length_cons]; split <;> omega
        · simp only [hd, if_false]
          have k1 := Ksq_add K (h0.length + 1) (d.length + 1)
          have k2 : K * sq (h0.length + 1 + (d.length + 1)) ≤ K * sq (L + 1) := Ksq_mono K (by omega)
          have k3 : K * sq (d.length + 1) ≤ K * sq (L + 1) := Ksq_mono K (by omega)
          match r with
          | [] => simp only [List.length_cons, List.length_nil]; split <;> omega
          | y :: t =>
            simp only [tot] at htot hr'
            have ht := length_le_tot t
            simp only [List.length_cons]; split <;> omega

end Verif.Proofs.FilterSteps
