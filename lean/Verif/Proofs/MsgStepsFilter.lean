/-
C18 / BER decoding steps, part 4: the filter decoder (`LDAPFilter.unpack` and the classes'
`unpack`).  Budget statements at coefficient `A + 1` for any `A ≥ 16`.  The recursion does not
rescan: a nested filter is decoded from a slice of its parent's content, and the potential of the
content is handed down once.
-/
import Verif.Proofs.MsgStepsReaders

set_option linter.unusedSectionVars false

namespace Verif.Proofs.MsgSteps
open Verif Verif.MsgSteps Verif.Proofs

/-- arithmetic side goals: budgets are sums of atoms `pot … (length …)`, `hcost …` and numerals -/
macro "ar" : tactic => `(tactic| ((try dsimp only [TQ] at *); omega))

theorem Spec.ite {α : Type} {c : Prop} [Decidable c] {x y : S α} {B : Nat} {Q : α → Nat}
    (hx : c → Spec x B Q) (hy : ¬c → Spec y B Q) : Spec (if c then x else y) B Q := by
  split
  · exact hx ‹_›
  · exact hy ‹_›

/-- `skip_value(next_header)` after the peek -/
theorem skipA (bs : Bytes) : Spec (tick 1 <| lift (skipValue bs) 0) 1 (fun _ => 0) :=
  Spec.tick (Nat.le_refl _) (Spec.lift (by omega) (fun _ _ => by omega))

/-! ### the reader methods at coefficient `A + 1`: standalone, and after a peek -/

section
variable {A : Nat} (W : Nat) (hA : 16 ≤ A)
include hA

theorem tlvS (e : Option Tag) (bs : Bytes) :
    Spec (readTLVS W e bs) (pot (A + 1) W bs.length) (TQ A W (2 * hcost W bs + 19)) :=
  readTLVS_spec W (by omega) e bs

theorem octS (e : Option Tag) (bs : Bytes) :
    Spec (readOctetsS W e bs) (pot (A + 1) W bs.length)
      (fun p => pot A W p.1.length + pot (A + 1) W p.2.length + (2 * hcost W bs + 19)) :=
  readOctetsS_of (tlvS W hA e bs)

theorem textS (e : Option Tag) (bs : Bytes) :
    Spec (readTextS W e bs) (pot (A + 1) W bs.length)
      (fun p => 8 * p.1.length + pot (A + 1) W p.2.length + (2 * hcost W bs + 19)) :=
  readTextS_of hA (tlvS W hA e bs)

theorem intS {extra : Nat} (hx : extra ≤ 3) (e : Option Tag) (bs : Bytes) :
    Spec (readIntS W extra e bs) (pot (A + 1) W bs.length)
      (fun p => pot (A + 1) W p.2.length + (2 * hcost W bs + 19)) :=
  readIntS_of hA hx (tlvS W hA e bs)

theorem boolS (e : Option Tag) (bs : Bytes) :
    Spec (readBoolS W e bs) (pot (A + 1) W bs.length)
      (fun p => pot (A + 1) W p.2.length + (2 * hcost W bs + 19)) :=
  readBoolS_of hA (tlvS W hA e bs)

theorem tlvA (e : Option Tag) (bs : Bytes) (h : Header) (hh : readHeader bs = .ok h) :
    Spec (readTLVS W e bs) (1 + hcost W bs + pot (A + 1) W (bs.length - h.hlen) + 0) (TQ A W 0) :=
  readTLVS_after (A + 1) W e bs h hh 0

theorem octA (e : Option Tag) (bs : Bytes) (h : Header) (hh : readHeader bs = .ok h) :
    Spec (readOctetsS W e bs) (1 + hcost W bs + pot (A + 1) W (bs.length - h.hlen) + 0)
      (fun p => pot A W p.1.length + pot (A + 1) W p.2.length + 0) :=
  readOctetsS_of (tlvA W hA e bs h hh)

theorem textA (e : Option Tag) (bs : Bytes) (h : Header) (hh : readHeader bs = .ok h) :
    Spec (readTextS W e bs) (1 + hcost W bs + pot (A + 1) W (bs.length - h.hlen) + 0)
      (fun p => 8 * p.1.length + pot (A + 1) W p.2.length + 0) :=
  readTextS_of hA (tlvA W hA e bs h hh)

theorem boolA (e : Option Tag) (bs : Bytes) (h : Header) (hh : readHeader bs = .ok h) :
    Spec (readBoolS W e bs) (1 + hcost W bs + pot (A + 1) W (bs.length - h.hlen) + 0)
      (fun p => pot (A + 1) W p.2.length + 0) :=
  readBoolS_of hA (tlvA W hA e bs h hh)

/-- the peek at coefficient `A + 1` -/
theorem peekS (bs : Bytes) :
    Spec (readHeaderS W bs) (pot (A + 1) W bs.length)
      (fun h => 2 * hcost W bs + 20 + pot (A + 1) W (bs.length - h.hlen)) :=
  readHeaderS_spec W (by omega) bs

/-- elements of the plain `while reader: read_octet_string()` loops -/
theorem octS_elem (e : Option Tag) (bs : Bytes) :
    Spec (readOctetsS W e bs) (pot (A + 1) W bs.length + 0)
      (fun p => 1 + 0 + pot (A + 1) W p.2.length) :=
  (octS W hA e bs).mono (by omega) (fun _ _ => by omega)

theorem textS_elem (e : Option Tag) (bs : Bytes) :
    Spec (readTextS W e bs) (pot (A + 1) W bs.length + 0)
      (fun p => 1 + 0 + pot (A + 1) W p.2.length) :=
  (textS W hA e bs).mono (by omega) (fun _ _ => by omega)

/-! ### the two peek-and-dispatch loops of the filter classes -/

theorem decSubstrLoopS_spec : ∀ (fuel : Nat) (bs : Bytes) (acc : SubstrAcc),
    Spec (decSubstrLoopS W fuel bs acc) (pot (A + 1) W bs.length + 1) (fun _ => 0) := by
  intro fuel
  induction fuel with
  | zero =>
    intro bs acc
    simp only [decSubstrLoopS]
    refine Spec.tick (by omega) ?_
    split
    · exact Spec.pure (by omega)
    · exact Spec.fail
  | succ n ih =>
    intro bs acc
    simp only [decSubstrLoopS]
    refine Spec.tick (by omega) ?_
    split
    · exact Spec.pure (by omega)
    · refine Spec.bind (peekS W hA bs) (by omega) (fun h hh => ?_)
      have hh' : readHeader bs = .ok h := by rw [← readHeaderS_res W]; exact hh
      split
      · split
        · exact Spec.fail
        · refine Spec.bind (octA W hA none bs h hh') (by ar) (fun p _ => ?_)
          obtain ⟨v, r⟩ := p
          exact (ih r _).mono (by ar) (fun _ _ => Nat.le_refl _)
      · split
        · refine Spec.bind (octA W hA none bs h hh') (by ar) (fun p _ => ?_)
          obtain ⟨v, r⟩ := p
          exact (ih r _).mono (by ar) (fun _ _ => Nat.le_refl _)
        · split
          · split
            · exact Spec.fail
            · refine Spec.bind (octA W hA none bs h hh') (by ar) (fun p _ => ?_)
              obtain ⟨v, r⟩ := p
              exact (ih r _).mono (by ar) (fun _ _ => Nat.le_refl _)
          · refine Spec.bind (skipA bs) (by ar) (fun r hr => ?_)
            have := pot_mono (A + 1) W (skipValue_after bs r h hh' hr)
            exact (ih r _).mono (by ar) (fun _ _ => Nat.le_refl _)

theorem decExtLoopS_spec : ∀ (fuel : Nat) (bs : Bytes) (acc : ExtAcc),
    Spec (decExtLoopS W fuel bs acc) (pot (A + 1) W bs.length + 1) (fun _ => 0) := by
  intro fuel
  induction fuel with
  | zero =>
    intro bs acc
    simp only [decExtLoopS]
    refine Spec.tick (by omega) ?_
    split
    · exact Spec.pure (by omega)
    · exact Spec.fail
  | succ n ih =>
    intro bs acc
    simp only [decExtLoopS]
    refine Spec.tick (by omega) ?_
    split
    · exact Spec.pure (by omega)
    · refine Spec.bind (peekS W hA bs) (by omega) (fun h hh => ?_)
      have hh' : readHeader bs = .ok h := by rw [← readHeaderS_res W]; exact hh
      split
      · refine Spec.bind (textA W hA none bs h hh') (by ar) (fun p _ => ?_)
        obtain ⟨v, r⟩ := p
        exact (ih r _).mono (by ar) (fun _ _ => Nat.le_refl _)
      · split
        · refine Spec.bind (textA W hA none bs h hh') (by ar) (fun p _ => ?_)
          obtain ⟨v, r⟩ := p
          exact (ih r _).mono (by ar) (fun _ _ => Nat.le_refl _)
        · split
          · refine Spec.bind (octA W hA none bs h hh') (by ar) (fun p _ => ?_)
            obtain ⟨v, r⟩ := p
            exact (ih r _).mono (by ar) (fun _ _ => Nat.le_refl _)
          · split
            · refine Spec.bind (boolA W hA none bs h hh') (by ar) (fun p _ => ?_)
              obtain ⟨v, r⟩ := p
              exact (ih r _).mono (by ar) (fun _ _ => Nat.le_refl _)
            · refine Spec.bind (skipA bs) (by ar) (fun r hr => ?_)
              have := pot_mono (A + 1) W (skipValue_after bs r h hh' hr)
              exact (ih r _).mono (by ar) (fun _ _ => Nat.le_refl _)

/-- `_unpack_filter_attribute_value_assertion` when the header of `bs` has been peeked -/
theorem decAvaS_after (num : Nat) (bs : Bytes) (h : Header) (hh : readHeader bs = .ok h) :
    Spec (decAvaS W num bs) (2 + hcost W bs + pot (A + 1) W (bs.length - h.hlen))
      (fun p => pot (A + 1) W p.2.length) := by
  simp only [decAvaS]
  refine Spec.tick (by omega) ?_
  refine Spec.bind (tlvA W hA _ bs h hh) (by ar) (fun p _ => ?_)
  obtain ⟨c, rest⟩ := p
  refine Spec.bind (textS W hA _ c) (by ar) (fun p _ => ?_)
  obtain ⟨a, c1⟩ := p
  refine Spec.bind (octS W hA _ c1) (by ar) (fun p _ => ?_)
  obtain ⟨v, c2⟩ := p
  exact Spec.pure (by ar)

/-- `LDAPFilter.unpack`: given one step for the call, a filter leaves the potential of what
    follows it, and two steps -/
theorem decFilterS_spec (regs : Regs) : ∀ (depth : Nat) (bs : Bytes),
    Spec (decFilterS W regs depth bs) (pot (A + 1) W bs.length + 1)
      (fun p => 1 + 1 + pot (A + 1) W p.2.length) := by
  intro depth
  induction depth with
  | zero =>
    intro bs
    show 1 ≤ _ + D
    unfold D
    omega
  | succ d ih =>
    intro bs
    simp only [decFilterS]
    refine Spec.tick (by omega) ?_
    refine Spec.bind (peekS W hA bs) (by omega) (fun h hh => ?_)
    have hh' : readHeader bs = .ok h := by rw [← readHeaderS_res W]; exact hh
    refine Spec.tick (by ar) ?_
    refine Spec.ite (fun _ => Spec.fail) (fun _ => ?_)
    refine Spec.ite (fun _ => ?_) (fun _ => Spec.ite (fun _ => ?_) (fun _ => Spec.ite (fun _ => ?_)
      (fun _ => Spec.ite (fun _ => ?_) (fun _ => Spec.ite (fun _ => ?_) (fun _ => Spec.ite (fun _ => ?_)
      (fun _ => Spec.ite (fun _ => ?_) (fun _ => Spec.ite (fun _ => ?_) (fun _ => Spec.ite (fun _ => ?_)
      (fun _ => Spec.ite (fun _ => ?_) (fun _ => Spec.ite (fun _ => ?_) (fun _ => Spec.fail)))))))))))
    · -- and
      refine Spec.bind (tlvA W hA _ bs h hh') (by ar) (fun p _ => ?_)
      obtain ⟨c, rest⟩ := p
      refine Spec.bind (loopManyS_spec (pot (A + 1) W) 1 _ ih _ c) (by ar) (fun fs _ => ?_)
      exact Spec.pure (by ar)
    · -- or
      refine Spec.bind (tlvA W hA _ bs h hh') (by ar) (fun p _ => ?_)
      obtain ⟨c, rest⟩ := p
      refine Spec.bind (loopManyS_spec (pot (A + 1) W) 1 _ ih _ c) (by ar) (fun fs _ => ?_)
      exact Spec.pure (by ar)
    · -- not
      refine Spec.bind (tlvA W hA _ bs h hh') (by ar) (fun p _ => ?_)
      obtain ⟨c, rest⟩ := p
      refine Spec.bind (ih c) (by ar) (fun p _ => ?_)
      obtain ⟨f, r⟩ := p
      exact Spec.pure (by ar)
    · -- equality
      refine Spec.bind (decAvaS_after W hA _ bs h hh') (by ar) (fun p _ => ?_)
      obtain ⟨⟨a, v⟩, rest⟩ := p
      exact Spec.pure (by ar)
    · -- substrings
      refine Spec.bind (tlvA W hA _ bs h hh') (by ar) (fun p _ => ?_)
      obtain ⟨c, rest⟩ := p
      refine Spec.bind (textS W hA _ c) (by ar) (fun p _ => ?_)
      obtain ⟨a, c1⟩ := p
      refine Spec.bind (tlvS W hA _ c1) (by ar) (fun p _ => ?_)
      obtain ⟨sc, c2⟩ := p
      refine Spec.bind (decSubstrLoopS_spec W hA _ sc _) (by ar) (fun acc _ => ?_)
      exact Spec.pure (by ar)
    · -- greaterOrEqual
      refine Spec.bind (decAvaS_after W hA _ bs h hh') (by ar) (fun p _ => ?_)
      obtain ⟨⟨a, v⟩, rest⟩ := p
      exact Spec.pure (by ar)
    · -- lessOrEqual
      refine Spec.bind (decAvaS_after W hA _ bs h hh') (by ar) (fun p _ => ?_)
      obtain ⟨⟨a, v⟩, rest⟩ := p
      exact Spec.pure (by ar)
    · -- present
      refine Spec.bind (textA W hA _ bs h hh') (by ar) (fun p _ => ?_)
      obtain ⟨a, rest⟩ := p
      exact Spec.pure (by ar)
    · -- approx
      refine Spec.bind (decAvaS_after W hA _ bs h hh') (by ar) (fun p _ => ?_)
      obtain ⟨⟨a, v⟩, rest⟩ := p
      exact Spec.pure (by ar)
    · -- extensible
      refine Spec.bind (tlvA W hA _ bs h hh') (by ar) (fun p _ => ?_)
      obtain ⟨c, rest⟩ := p
      refine Spec.bind (decExtLoopS_spec W hA _ c _) (by ar) (fun acc _ => ?_)
      exact Spec.pure (by ar)
    · -- registered custom filter
      refine Spec.bind (textA W hA _ bs h hh') (by ar) (fun p _ => ?_)
      obtain ⟨a, rest⟩ := p
      exact Spec.pure (by ar)

end

/-! ### same results -/

theorem ite_res_congr {α : Type} {c : Prop} [Decidable c] {x y : S α} {x' y' : Except Err α}
    (hx : x.res = x') (hy : y.res = y') :
    (if c then x else y).res = if c then x' else y' := by
  split <;> assumption

theorem decSubstrLoopS_res (W : Nat) : ∀ (fuel : Nat) (bs : Bytes) (acc : SubstrAcc),
    (decSubstrLoopS W fuel bs acc).res = decSubstrLoop fuel bs acc := by
  intro fuel
  induction fuel with
  | zero => intro bs acc; simp only [decSubstrLoopS, decSubstrLoop, res_tick]; exact ite_res_congr rfl rfl
  | succ n ih =>
    intro bs acc
    simp only [decSubstrLoopS, decSubstrLoop, res_tick]
    refine ite_res_congr rfl ?_
    refine bind_res_congr (readHeaderS_res W bs) (fun h => ?_)
    refine ite_res_congr (ite_res_congr rfl ?_) (ite_res_congr ?_ (ite_res_congr (ite_res_congr rfl ?_) ?_))
    · refine bind_res_congr (readOctetsS_res W _ bs) (fun p => ?_); obtain ⟨v, r⟩ := p; exact ih _ _
    · refine bind_res_congr (readOctetsS_res W _ bs) (fun p => ?_); obtain ⟨v, r⟩ := p; exact ih _ _
    · refine bind_res_congr (readOctetsS_res W _ bs) (fun p => ?_); obtain ⟨v, r⟩ := p; exact ih _ _
    · refine bind_res_congr (x := tick 1 (lift (skipValue bs) 0)) rfl (fun r => ?_); exact ih _ _

theorem decExtLoopS_res (W : Nat) : ∀ (fuel : Nat) (bs : Bytes) (acc : ExtAcc),
    (decExtLoopS W fuel bs acc).res = decExtLoop fuel bs acc := by
  intro fuel
  induction fuel with
  | zero => intro bs acc; simp only [decExtLoopS, decExtLoop, res_tick]; exact ite_res_congr rfl rfl
  | succ n ih =>
    intro bs acc
    simp only [decExtLoopS, decExtLoop, res_tick]
    refine ite_res_congr rfl ?_
    refine bind_res_congr (readHeaderS_res W bs) (fun h => ?_)
    refine ite_res_congr ?_ (ite_res_congr ?_ (ite_res_congr ?_ (ite_res_congr ?_ ?_)))
    · refine bind_res_congr (readTextS_res W _ bs) (fun p => ?_); obtain ⟨v, r⟩ := p; exact ih _ _
    · refine bind_res_congr (readTextS_res W _ bs) (fun p => ?_); obtain ⟨v, r⟩ := p; exact ih _ _
    · refine bind_res_congr (readOctetsS_res W _ bs) (fun p => ?_); obtain ⟨v, r⟩ := p; exact ih _ _
    · refine bind_res_congr (readBoolS_res W _ bs) (fun p => ?_); obtain ⟨v, r⟩ := p; exact ih _ _
    · refine bind_res_congr (x := tick 1 (lift (skipValue bs) 0)) rfl (fun r => ?_); exact ih _ _

theorem decAvaS_res (W num : Nat) (bs : Bytes) : (decAvaS W num bs).res = decAva num bs := by
  simp only [decAvaS, decAva, res_tick]
  refine bind_res_congr (readTLVS_res W _ bs) (fun p => ?_); obtain ⟨c, rest⟩ := p
  refine bind_res_congr (readTextS_res W _ c) (fun p => ?_); obtain ⟨a, c1⟩ := p
  refine bind_res_congr (readOctetsS_res W _ c1) (fun p => ?_); obtain ⟨v, c2⟩ := p
  rfl

theorem decFilterS_res (W : Nat) (regs : Regs) : ∀ (depth : Nat) (bs : Bytes),
    (decFilterS W regs depth bs).res = decFilter regs depth bs := by
  intro depth
  induction depth with
  | zero => intro bs; rfl
  | succ d ih =>
    intro bs
    simp only [decFilterS, decFilter, res_tick]
    refine bind_res_congr (readHeaderS_res W bs) (fun h => ?_)
    simp only [res_tick]
    refine ite_res_congr rfl (ite_res_congr ?_ (ite_res_congr ?_ (ite_res_congr ?_ (ite_res_congr ?_
      (ite_res_congr ?_ (ite_res_congr ?_ (ite_res_congr ?_ (ite_res_congr ?_ (ite_res_congr ?_
      (ite_res_congr ?_ (ite_res_congr ?_ rfl)))))))))))
    · refine bind_res_congr (readTLVS_res W _ bs) (fun p => ?_); obtain ⟨c, rest⟩ := p
      exact bind_res_congr (loopManyS_res _ _ ih _ _) (fun _ => rfl)
    · refine bind_res_congr (readTLVS_res W _ bs) (fun p => ?_); obtain ⟨c, rest⟩ := p
      exact bind_res_congr (loopManyS_res _ _ ih _ _) (fun _ => rfl)
    · refine bind_res_congr (readTLVS_res W _ bs) (fun p => ?_); obtain ⟨c, rest⟩ := p
      refine bind_res_congr (ih c) (fun p => ?_); obtain ⟨f, r⟩ := p
      rfl
    · refine bind_res_congr (decAvaS_res W _ bs) (fun p => ?_); obtain ⟨⟨a, v⟩, rest⟩ := p; rfl
    · refine bind_res_congr (readTLVS_res W _ bs) (fun p => ?_); obtain ⟨c, rest⟩ := p
      refine bind_res_congr (readTextS_res W _ c) (fun p => ?_); obtain ⟨a, c1⟩ := p
      refine bind_res_congr (readTLVS_res W _ c1) (fun p => ?_); obtain ⟨sc, c2⟩ := p
      exact bind_res_congr (decSubstrLoopS_res W _ _ _) (fun _ => rfl)
    · refine bind_res_congr (decAvaS_res W _ bs) (fun p => ?_); obtain ⟨⟨a, v⟩, rest⟩ := p; rfl
    · refine bind_res_congr (decAvaS_res W _ bs) (fun p => ?_); obtain ⟨⟨a, v⟩, rest⟩ := p; rfl
    · refine bind_res_congr (readTextS_res W _ bs) (fun p => ?_); obtain ⟨a, rest⟩ := p; rfl
    · refine bind_res_congr (decAvaS_res W _ bs) (fun p => ?_); obtain ⟨⟨a, v⟩, rest⟩ := p; rfl
    · refine bind_res_congr (readTLVS_res W _ bs) (fun p => ?_); obtain ⟨c, rest⟩ := p
      exact bind_res_congr (decExtLoopS_res W _ _ _) (fun _ => rfl)
    · refine bind_res_congr (readTextS_res W _ bs) (fun p => ?_); obtain ⟨a, rest⟩ := p; rfl

end Verif.Proofs.MsgSteps
