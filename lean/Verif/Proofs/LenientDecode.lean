/-
C04: the decoder accepts every permitted BER encoding of a message (`Lenient.MsgL`), not only
the library's own.

Parts: `LenientBase` (readers on any permitted TLV encoding, lists of strings),
`LenientFilter` (skipping of unknown trailing elements, filters by the mutual recursor of
`FilterL`/`FiltersL`), `LenientOps` (credentials, controls, results, trailing options,
attributes, operations, envelope contents), `LenientEnc` (the library's own encoding is a
permitted one); this file assembles the exported theorems.  Core Lean only.
-/
import Verif.Proofs.LenientOps
import Verif.Proofs.LenientEnc
import Verif.Proofs.RoundTrip

namespace Verif.Proofs

open Verif Verif.Lenient

/-- every permitted encoding of a well-formed message decodes to that message, and exactly
    the encoding is consumed -/
theorem decMsg_lenient (regs : Regs) (m : Msg) (bs rest : Bytes) (depth : Nat) (h : MsgL m bs)
    (hwf : m.WF regs) (hd : m.op.filterDepth < depth) :
    decMsg regs depth (bs ++ rest) = .ok (m, rest) := by
  cases h with
  | mk cons ib ob opb cb ex bs hi hop hopb hc hex ht =>
    simp only [decMsg, LenientD.readTLV_tlv_some ht readable_tSeq,
      LenientD.decContents_lenient regs depth m cons hi hop hopb hc hex hwf hd]

/-- the library's own encoding is a permitted encoding of the message with the raw control
    values filled in.  The size bound is what makes a definite length form exist at all
    (`LenEnc` has at most 127 length octets); it is far beyond any real message. -/
theorem msgL_encMsg (m : Msg) (h : m.WF {}) (hb : (encMsg m).length < 256 ^ 126) :
    MsgL (fillRaw m) (encMsg m) :=
  LenientD.msgL_encMsg_small m h hb

namespace LenientD

/-- well-formedness does not look at raw control values -/
theorem fillRawControl_WF (regs : Regs) (c : Control) :
    (fillRawControl c).WF regs ↔ c.WF regs := by
  cases c <;> simp [fillRawControl, Control.WF]

theorem fillRaw_WF (regs : Regs) (m : Msg) : (fillRaw m).WF regs ↔ m.WF regs := by
  simp only [Msg.WF, fillRaw, List.mem_map]
  constructor
  · rintro ⟨h1, h2⟩
    exact ⟨h1, fun c hc => (fillRawControl_WF regs c).1 (h2 _ ⟨c, hc, rfl⟩)⟩
  · rintro ⟨h1, h2⟩
    refine ⟨h1, ?_⟩
    rintro _ ⟨c, hc, rfl⟩
    exact (fillRawControl_WF regs c).2 (h2 c hc)

theorem fillRaw_op (m : Msg) : (fillRaw m).op = m.op := rfl

end LenientD

/-- a peer's encoding decodes to the same value as the library's own encoding -/
theorem decMsg_lenient_eq_own (regs : Regs) (m : Msg) (bs : Bytes) (depth : Nat)
    (h : MsgL (fillRaw m) bs) (hwf : m.WF regs) (hd : m.op.filterDepth < depth) :
    decMsg regs depth bs = decMsg regs depth (encMsg m) := by
  have h1 := decMsg_lenient regs (fillRaw m) bs [] depth h ((LenientD.fillRaw_WF regs m).2 hwf)
    (by rw [LenientD.fillRaw_op]; exact hd)
  have h2 := decMsg_encMsg regs m [] depth hwf hd
  rw [List.append_nil] at h1 h2
  rw [h1, h2]

/-! ### non-vacuity: an Active-Directory style encoding -/

theorem sample_lenient : MsgL ⟨1, .bindResp ⟨0, [], [], none⟩ none, []⟩
    [48, 132, 0, 0, 0, 20, 2, 1, 1, 97, 132, 0, 0, 0, 11, 10, 1, 0, 4, 0, 4, 0, 138, 2, 120, 121] := by
  have l1 : LenEnc 1 [1] := LenEnc.short 1 (by decide)
  have l0 : LenEnc 0 [0] := LenEnc.short 0 (by decide)
  have l2 : LenEnc 2 [2] := LenEnc.short 2 (by decide)
  have l11 : LenEnc 11 [132, 0, 0, 0, 11] :=
    LenEnc.long [0, 0, 0, 11] (by decide) (by decide) (by decide)
  have l20 : LenEnc 20 [132, 0, 0, 0, 20] :=
    LenEnc.long [0, 0, 0, 20] (by decide) (by decide) (by decide)
  have hid : IntL tInt 1 [2, 1, 1] := TLV.mk (t := tInt) (c := [1]) [1] l1
  have hcode : IntL tEnum 0 [10, 1, 0] := TLV.mk (t := tEnum) (c := [0]) [1] l1
  have hdn : TLV tOctets [] [4, 0] := TLV.mk (t := tOctets) (c := []) [0] l0
  have hres : ResultL ⟨0, [], [], none⟩ [10, 1, 0, 4, 0, 4, 0] :=
    ⟨[10, 1, 0], [4, 0], [4, 0], [], hcode, hdn, hdn, rfl, rfl⟩
  have hx : TLV (tagCtx 10) [120, 121] [138, 2, 120, 121] :=
    TLV.mk (t := tagCtx 10) (c := [120, 121]) [2] l2
  have hex : Extras [3, 7] [138, 2, 120, 121] :=
    Extras.cons (tagCtx 10) [120, 121] [138, 2, 120, 121] [] (readable_ctx 10 false) (by decide) hx Extras.nil
  have hop : OpL (.bindResp ⟨0, [], [], none⟩ none) [10, 1, 0, 4, 0, 4, 0, 138, 2, 120, 121] :=
    OpL.bindResp _ none [10, 1, 0, 4, 0, 4, 0] [] [138, 2, 120, 121] hres OptL.none hex
  have hopb : TLV (tagApp 1 true) [10, 1, 0, 4, 0, 4, 0, 138, 2, 120, 121]
      [97, 132, 0, 0, 0, 11, 10, 1, 0, 4, 0, 4, 0, 138, 2, 120, 121] :=
    TLV.mk (t := tagApp 1 true) (c := [10, 1, 0, 4, 0, 4, 0, 138, 2, 120, 121]) [132, 0, 0, 0, 11] l11
  have hseq : TLV tSeq
      ([2, 1, 1] ++ [97, 132, 0, 0, 0, 11, 10, 1, 0, 4, 0, 4, 0, 138, 2, 120, 121] ++ [] ++ [])
      [48, 132, 0, 0, 0, 20, 2, 1, 1, 97, 132, 0, 0, 0, 11, 10, 1, 0, 4, 0, 4, 0, 138, 2, 120, 121] :=
    TLV.mk (t := tSeq)
      (c := [2, 1, 1, 97, 132, 0, 0, 0, 11, 10, 1, 0, 4, 0, 4, 0, 138, 2, 120, 121])
      [132, 0, 0, 0, 20] l20
  exact MsgL.mk ⟨1, .bindResp ⟨0, [], [], none⟩ none, []⟩ true [2, 1, 1]
    [10, 1, 0, 4, 0, 4, 0, 138, 2, 120, 121]
    [97, 132, 0, 0, 0, 11, 10, 1, 0, 4, 0, 4, 0, 138, 2, 120, 121] [] [] _
    hid hop hopb (Or.inl ⟨rfl, rfl⟩) Extras.nil hseq

end Verif.Proofs
