/-
C04, part 4: the library's own encoding is one of the permitted encodings.  Every `packTLV t c`
is a `Lenient.TLV` with the minimal length form (which exists for contents shorter than
`256 ^ 126` octets); no trailing elements, TRUE written as FF, defaults left out.
-/
import Verif.Proofs.LenientBase

namespace Verif.Proofs.LenientD

open Verif Verif.Lenient

set_option linter.unusedSimpArgs false
set_option linter.unusedVariables false

/-! ### the minimal length form -/

theorem lenEnc_packLen (n : Nat) (hn : n < 256 ^ 126) : LenEnc n (packLen n) := by
  unfold packLen
  by_cases h : n < 128
  · simp only [h, ↓reduceIte]; exact LenEnc.short n h
  · simp only [h, ↓reduceIte]
    obtain ⟨hv, hb⟩ := digits256_spec (n + 1) n (by omega)
    have hl := digits256_length (n + 1) n 126 hn
    have h1 : 1 ≤ (digits256 (n + 1) n).reverse.length := by
      have h0 : n ≠ 0 := by omega
      simp [digits256, h0]
    have := LenEnc.long (digits256 (n + 1) n).reverse (isBytes_reverse.2 hb) h1
      (by simp only [List.length_reverse]; omega)
    rw [beNat_reverse, hv, Nat.add_comm] at this
    exact this

/-- short enough to be the content of a TLV -/
def Small (x : Bytes) : Prop := x.length < 256 ^ 126

theorem Small.left {a b : Bytes} (h : Small (a ++ b)) : Small a := by
  unfold Small at *; rw [List.length_append] at h; omega

theorem Small.right {a b : Bytes} (h : Small (a ++ b)) : Small b := by
  unfold Small at *; rw [List.length_append] at h; omega

theorem Small.tlv {t : Tag} {c : Bytes} (h : Small (packTLV t c)) : Small c := by
  unfold Small packTLV at *; rw [List.length_append] at h; omega

theorem Small.nil : Small [] := by unfold Small; exact Nat.pow_pos (by decide)

theorem tlvP {t : Tag} {c : Bytes} (h : Small (packTLV t c)) : TLV t c (packTLV t c) :=
  TLV.mk (packLen c.length) (lenEnc_packLen _ h.tlv)

/-- the same when the relation leaves room for (here: no) trailing octets -/
theorem tlvP_nil {t : Tag} {c : Bytes} (h : Small (packTLV t c)) : TLV t (c ++ []) (packTLV t c) := by
  rw [List.append_nil]; exact tlvP h

/-! ### strings, options, booleans -/

theorem octetsL_enc (t : Tag) : ∀ (l : List Bytes), Small (encTexts l t) → OctetsL t l (encTexts l t)
  | [], _ => OctetsL.nil
  | v :: l, h => by
    have e : encTexts (v :: l) t = packTLV t v ++ encTexts l t := by simp [encTexts, packOctets]
    rw [e] at h ⊢
    exact OctetsL.cons v _ l _ (tlvP h.left) (octetsL_enc t l h.right)

theorem optL_enc (t : Tag) (v : Option Bytes) (h : Small (optBytes t v)) : OptL t v (optBytes t v) := by
  cases v with
  | none => exact OptL.none
  | some v => exact OptL.some v _ (tlvP h)

theorem boolL_true (t : Tag) (h : Small (packBool true t)) : BoolL t true (packBool true t) :=
  BoolL.true 255 _ (by decide) (by decide) (tlvP h)

theorem boolL_enc (t : Tag) (b : Bool) (h : Small (packBool b t)) : BoolL t b (packBool b t) := by
  cases b with
  | true => exact boolL_true t h
  | false => exact BoolL.false _ (tlvP h)

/-! ### filters -/

mutual
theorem filterL_enc : ∀ (f : Filter), Small (encFilter f) → FilterL f (encFilter f)
  | .and fs, h => by
    rw [encFilter] at h ⊢
    exact FilterL.and fs _ _ (filtersL_enc fs h.tlv) (tlvP h)
  | .or fs, h => by
    rw [encFilter] at h ⊢
    exact FilterL.or fs _ _ (filtersL_enc fs h.tlv) (tlvP h)
  | .not f, h => by
    rw [encFilter] at h ⊢
    exact FilterL.not f _ [] _ (filterL_enc f h.tlv) (tlvP_nil h)
  | .eq a v, h => by
    rw [encFilter] at h ⊢
    exact FilterL.eq a v _ _ [] _ (tlvP h.tlv.left) (tlvP h.tlv.right) (tlvP_nil h)
  | .ge a v, h => by
    rw [encFilter] at h ⊢
    exact FilterL.ge a v _ _ [] _ (tlvP h.tlv.left) (tlvP h.tlv.right) (tlvP_nil h)
  | .le a v, h => by
    rw [encFilter] at h ⊢
    exact FilterL.le a v _ _ [] _ (tlvP h.tlv.left) (tlvP h.tlv.right) (tlvP_nil h)
  | .approx a v, h => by
    rw [encFilter] at h ⊢
    exact FilterL.approx a v _ _ [] _ (tlvP h.tlv.left) (tlvP h.tlv.right) (tlvP_nil h)
  | .present a, h => by
    rw [encFilter] at h ⊢
    exact FilterL.present a _ (tlvP h)
  | .substr a i any f, h => by
    rw [encFilter] at h ⊢
    have hs : Small (packTLV tSeq (optBytes (tagCtx 0) i ++ encTexts any (tagCtx 1)
        ++ optBytes (tagCtx 2) f)) := h.tlv.right
    exact FilterL.substr a i any f _ _ _ _ [] _ [] _ (tlvP h.tlv.left)
      (optL_enc _ i hs.tlv.left.left) (octetsL_enc _ any hs.tlv.left.right)
      (optL_enc _ f hs.tlv.right) Extras.nil (tlvP_nil hs) (tlvP_nil h)
  | .ext rule attr v dn, h => by
    rw [encFilter] at h ⊢
    have hdn : (dn = false ∧ (if dn then packBool true (tagCtx 4) else []) = []) ∨
        BoolL (tagCtx 4) dn (if dn then packBool true (tagCtx 4) else []) := by
      cases dn with
      | false => exact Or.inl ⟨rfl, rfl⟩
      | true => exact Or.inr (boolL_true _ h.tlv.right)
    exact FilterL.ext rule attr v dn _ _ _ _ [] _ (optL_enc _ rule h.tlv.left.left.left)
      (optL_enc _ attr h.tlv.left.left.right) (tlvP h.tlv.left.right) hdn Extras.nil (tlvP_nil h)
  | .custom v, h => by
    rw [encFilter] at h ⊢
    exact FilterL.custom v _ (tlvP h)
theorem filtersL_enc : ∀ (fs : List Filter), Small (encFilters fs) → FiltersL fs (encFilters fs)
  | [], _ => by rw [encFilters]; exact FiltersL.nil
  | f :: fs, h => by
    rw [encFilters] at h ⊢
    exact FiltersL.cons f _ fs _ (filterL_enc f h.left) (filtersL_enc fs h.right)
end

/-! ### credentials, controls, results -/

theorem credL_enc (c : Cred) (h : Small (encCred c)) : CredL c (encCred c) := by
  cases c with
  | simple pw => exact CredL.simple pw _ (tlvP h)
  | sasl mech creds =>
    cases creds with
    | none =>
      have e : encCred (.sasl mech none) = packTLV (tagCtx 3 true) (packTLV tOctets mech) := by
        simp [encCred, optBytes, packOctets, Facts.credSasl]
      rw [e] at h ⊢
      exact CredL.saslNoCreds mech _ _ (tlvP h.tlv) (tlvP h)
    | some cr =>
      exact CredL.sasl mech cr _ _ [] _ (tlvP h.tlv.left) (tlvP h.tlv.right) (tlvP_nil h)
  | custom v => exact CredL.custom v _ (tlvP h)

theorem pagedValueL_enc (size : Int) (cookie : Bytes) (h : Small (pagedValue size cookie)) :
    PagedValueL size cookie (pagedValue size cookie) :=
  ⟨_, _, [], _, [], tlvP h.tlv.left, tlvP h.tlv.right, tlvP_nil h, (List.append_nil _).symm⟩

theorem critL_enc (crit : Bool) (h : Small (if crit then packBool true else [])) :
    CritL crit (if crit then packBool true else []) := by
  cases crit with
  | false => exact Or.inl ⟨rfl, rfl⟩
  | true => exact Or.inr (boolL_true _ h)

/-- absent or present control value -/
theorem valueL_enc (value : Option Bytes) (h : Small (optBytes tOctets value)) :
    (value = none ∧ optBytes tOctets value = [] ∧ ([] : Bytes) = []) ∨
      (∃ v, value = some v ∧ TLV tOctets v (optBytes tOctets value)) := by
  cases value with
  | none => exact Or.inl ⟨rfl, rfl, rfl⟩
  | some v => exact Or.inr ⟨v, rfl, tlvP h⟩

theorem controlL_enc (c : Control) (h : Small (encControl c)) :
    ControlL (fillRawControl c) (encControl c) := by
  unfold encControl at h ⊢
  have h1 := tlvP h.tlv.left.left
  have h2 := critL_enc _ h.tlv.left.right
  have hv := h.tlv.right
  have h4 := tlvP_nil h
  cases c with
  | generic oid crit value => exact ControlL.mk _ _ _ _ [] _ h1 h2 (valueL_enc value hv) h4
  | paged crit size cookie raw =>
    exact ControlL.mk _ _ _ _ [] _ h1 h2
      ⟨_, rfl, pagedValueL_enc size cookie (Small.tlv hv), tlvP hv⟩ h4
  | showDeleted crit raw => exact ControlL.mk _ _ _ _ [] _ h1 h2 (valueL_enc raw hv) h4
  | showDeactivated crit raw => exact ControlL.mk _ _ _ _ [] _ h1 h2 (valueL_enc raw hv) h4
  | custom crit data raw => exact ControlL.mk _ _ _ _ [] _ h1 h2 ⟨rfl, tlvP hv⟩ h4

theorem controlsL_enc : ∀ (cs : List Control), Small (cs.map encControl).flatten →
    ControlsL (cs.map fillRawControl) (cs.map encControl).flatten
  | [], _ => ControlsL.nil
  | c :: cs, h => by
    simp only [List.map_cons, List.flatten_cons] at h ⊢
    exact ControlsL.cons _ _ _ _ (controlL_enc c h.left) (controlsL_enc cs h.right)

theorem resultL_enc (r : LdapResult) (h : Small (encResult r)) : ResultL r (encResult r) := by
  unfold encResult at h ⊢
  refine ⟨_, _, _, _, tlvP h.left.left.left, tlvP h.left.left.right, tlvP h.left.right, ?_, rfl⟩
  have hr := h.right
  cases hrr : r.referrals with
  | none => simp only [hrr]
  | some us =>
    simp only [hrr] at hr ⊢
    exact ⟨_, octetsL_enc _ us hr.tlv, tlvP hr⟩

/-! ### operations and the envelope -/

theorem attrsL_enc : ∀ (as : List (Bytes × List Bytes)), Small (as.map encAttr).flatten →
    AttrsL as (as.map encAttr).flatten
  | [], _ => AttrsL.nil
  | (n, vs) :: as, h => by
    simp only [List.map_cons, List.flatten_cons] at h ⊢
    have ha : Small (encAttr (n, vs)) := h.left
    unfold encAttr at ha ⊢
    exact AttrsL.cons n vs _ _ _ [] _ as _ (tlvP ha.tlv.left) (octetsL_enc _ vs ha.tlv.right.tlv)
      (tlvP ha.tlv.right) (tlvP_nil ha) (attrsL_enc as h.right)

theorem opL_enc (op : Op) (hw : op.WF {}) (h : Small (encOp op)) : OpL op (encOp op) := by
  cases op with
  | bindReq v n c =>
    have e : encOp (.bindReq v n c) = packInt v ++ packOctets n ++ encCred c ++ [] := by
      simp [encOp]
    rw [e] at h ⊢
    exact OpL.bindReq v n c _ _ _ [] (tlvP h.left.left.left) (tlvP h.left.left.right)
      (credL_enc c h.left.right)
  | bindResp r s =>
    have e : encOp (.bindResp r s) = encResult r ++ optBytes (tagCtx 7) s ++ [] := by
      simp [encOp]
    rw [e] at h ⊢
    exact OpL.bindResp r s _ _ [] (resultL_enc r h.left.left) (optL_enc _ s h.left.right) Extras.nil
  | unbind => exact OpL.unbind _
  | searchReq b sc dr sl tl ty f attrs =>
    have e : encOp (.searchReq b sc dr sl tl ty f attrs) =
        packOctets b ++ packEnum sc ++ packEnum dr ++ packInt sl ++ packInt tl ++ packBool ty
          ++ encFilter f ++ packTLV tSeq (encTexts attrs) ++ [] := by
      simp [encOp]
    rw [e] at h ⊢
    have h8 := h.left
    have h7 := h8.left
    have h6 := h7.left
    have h5 := h6.left
    have h4 := h5.left
    have h3 := h4.left
    have h2 := h3.left
    exact OpL.searchReq b sc dr sl tl ty f attrs _ _ _ _ _ _ _ _ _ []
      (tlvP h2.left) (tlvP h2.right) (tlvP h3.right) (tlvP h4.right) (tlvP h5.right)
      (boolL_enc _ ty h6.right) (filterL_enc f h7.right) (octetsL_enc _ attrs h8.right.tlv)
      (tlvP h8.right)
  | searchEntry n attrs =>
    have e : encOp (.searchEntry n attrs) =
        packOctets n ++ packTLV tSeq (attrs.map encAttr).flatten ++ [] := by
      simp [encOp]
    rw [e] at h ⊢
    exact OpL.searchEntry n attrs _ _ _ [] (tlvP h.left.left) (attrsL_enc attrs h.left.right.tlv)
      (tlvP h.left.right)
  | searchDone r =>
    have e : encOp (.searchDone r) = encResult r ++ [] := by simp [encOp]
    rw [e] at h ⊢
    exact OpL.searchDone r _ [] (resultL_enc r h.left) Extras.nil
  | searchRef uris => exact OpL.searchRef uris _ (octetsL_enc _ uris h)
  | extReq n v =>
    have e : encOp (.extReq n v) = packOctets n (tagCtx 0) ++ optBytes (tagCtx 1) v ++ [] := by
      simp [encOp]
    rw [e] at h ⊢
    exact OpL.extReq n v _ _ [] (tlvP h.left.left) (optL_enc _ v h.left.right) Extras.nil
  | extResp r n v =>
    have e : encOp (.extResp r n v) =
        encResult r ++ optBytes (tagCtx 10) n ++ optBytes (tagCtx 11) v ++ [] := by
      simp [encOp]
    rw [e] at h ⊢
    exact OpL.extResp r n v _ _ _ [] (resultL_enc r h.left.left.left)
      (optL_enc _ n h.left.left.right) (optL_enc _ v h.left.right) Extras.nil

theorem msgL_encMsg_small (m : Msg) (hw : m.WF {}) (h : Small (encMsg m)) :
    MsgL (fillRaw m) (encMsg m) := by
  unfold encMsg at h ⊢
  have hc := h.tlv
  refine MsgL.mk (fillRaw m) true _ _ _ _ [] _ (tlvP hc.left.left) (opL_enc m.op hw.1 hc.left.right.tlv)
    (tlvP hc.left.right) ?_ Extras.nil (tlvP_nil h)
  have hcs := hc.right
  cases hm : m.controls with
  | nil => exact Or.inl ⟨by simp [fillRaw, hm], by simp⟩
  | cons c cs =>
    simp only [hm, List.isEmpty_cons, Bool.false_eq_true, ↓reduceIte] at hcs ⊢
    exact Or.inr ⟨_, by simpa [fillRaw, hm] using controlsL_enc (c :: cs) hcs.tlv, tlvP hcs⟩

end Verif.Proofs.LenientD
