import Verif.Generated.Asn1Gen
import Verif.Proofs.Asn1GenConv
namespace Verif.Proofs.Asn1Gen
open Verif Verif.PyRt Verif.Asn1Gen

/-! ### `getD` / `set` in the middle of `pre ++ x :: suf` -/

theorem getD_mid (pre suf : List Nat) (x : Nat) : (pre ++ x :: suf).getD pre.length 0 = x := by
  rw [List.getD_eq_getElem?_getD, List.getElem?_append_right (Nat.le_refl _)]
  simp

theorem set_mid (pre suf : List Nat) (x v : Nat) :
    (pre ++ x :: suf).set pre.length v = pre ++ v :: suf := by
  rw [List.set_append_right _ _ (Nat.le_refl _)]
  simp

theorem getItem_mid (pre suf : List Nat) (x : Nat) :
    getItem (pre ++ x :: suf) (pre.length : Int) = .ok (x : Int) := by
  rw [getItem_nat _ _ (by simp), getD_mid]

theorem setItem_mid (pre suf : List Nat) (x v : Nat) (hv : v < 256) :
    setItem (pre ++ x :: suf) (pre.length : Int) (v : Int) = .ok (pre ++ v :: suf) := by
  rw [setItem_nat _ _ _ (by simp) hv, set_mid]

/-! ### loop 1: `b_int[i] = 0xFF - b_int[i]` -/

theorem read_int_for1_eq : ∀ (suf pre : List Nat), IsBytes suf →
    read_asn1_integer_for1 suf.length (pre.length : Int) (pre ++ suf)
      = .ok (pre ++ suf.map (255 - ·)) := by
  intro suf; induction suf with
  | nil => intro pre _; simp [read_asn1_integer_for1]
  | cons x suf ih =>
    intro pre hb
    have hx := (isBytes_cons.1 hb).1
    have hs := (isBytes_cons.1 hb).2
    rw [List.length_cons, read_asn1_integer_for1]
    have e : (255 : Int) - (x : Int) = ((255 - x : Nat) : Int) := by omega
    simp only [getItem_mid, bind_ok, e, setItem_mid pre suf x (255 - x) (by omega)]
    have := ih (pre ++ [255 - x]) hs
    simp only [List.length_append, List.length_singleton, List.append_assoc, List.singleton_append,
      Int.natCast_add, Int.natCast_one] at this
    rw [this]; simp

/-! ### loop 2: add one with carry, from the last octet down -/

theorem read_int_for2_rev : ∀ (r suf : List Nat), IsBytes r →
    read_asn1_integer_for2 r.length ((r.length : Int) - 1) (r.reverse ++ suf)
      = .ok ((addOneLE r).reverse ++ suf) := by
  intro r; induction r with
  | nil => intro suf _; simp [read_asn1_integer_for2, addOneLE]
  | cons x r ih =>
    intro suf hb
    have hx := (isBytes_cons.1 hb).1
    have hs := (isBytes_cons.1 hb).2
    rw [List.length_cons, read_asn1_integer_for2]
    have ei : ((r.length + 1 : Nat) : Int) - 1 = ((r.reverse.length : Nat) : Int) := by
      simp
    rw [ei, List.reverse_cons, List.append_assoc, List.singleton_append]
    simp only [getItem_mid, bind_ok]
    by_cases h255 : x = 255
    · have he : (x : Int) = 255 := by omega
      have := setItem_mid r.reverse suf x 0 (by omega)
      simp only [Int.natCast_zero, List.length_reverse] at this
      simp only [he, ↓reduceIte, this, bind_ok, List.length_reverse]
      rw [ih (0 :: suf) hs]
      simp [addOneLE, h255]
    · have hne : ¬ ((x : Int) = 255) := by omega
      have := setItem_mid r.reverse suf x (x + 1) (by omega)
      simp only [Int.natCast_add, Int.natCast_one] at this
      simp only [hne, ↓reduceIte, this, bind_ok]
      have hlt : x < 255 := by omega
      simp [addOneLE, hlt]

theorem read_int_for2_eq (pre suf : List Nat) (hb : IsBytes pre) :
    read_asn1_integer_for2 pre.length ((pre.length : Int) - 1) (pre ++ suf)
      = .ok ((addOneLE pre.reverse).reverse ++ suf) := by
  have := read_int_for2_rev pre.reverse suf (isBytes_reverse.2 hb)
  simpa using this

/-! ### loop 3: big-endian value -/

theorem read_int_for3_eq : ∀ (l : List Nat) (acc : Nat), IsBytes l →
    read_asn1_integer_for3 l (acc : Int) = .ok ((beVal 256 l acc : Nat) : Int) := by
  intro l; induction l with
  | nil => intro acc _; rfl
  | cons b l ih =>
    intro acc hb
    have hx := (isBytes_cons.1 hb).1
    have hs := (isBytes_cons.1 hb).2
    rw [read_asn1_integer_for3]
    simp only [pyOr_shl8 acc b hx]
    rw [ih _ hs]; rfl

/-! ### the part of `_read_asn1_integer` after `_validate_tag` -/

/-- the statements of `_read_asn1_integer` that follow `raw_int, consumed = _validate_tag(...)` -/
def readIntTail (raw_int : List Nat) (consumed : Int) : Except Err (Int × Int) := do
  let b_int : List Nat := raw_int
  if ¬ (b_int ≠ []) then
    Except.error Err.valueError
  else
    do
      let t4_ ← getItem b_int 0
      let is_negative : Int := pyAnd t4_ 128
      let b_int ← (if is_negative ≠ 0 then
          do
            let b_int ← read_asn1_integer_for1 (rangeLen 0 (len b_int)) 0 b_int
            let b_int ← read_asn1_integer_for2 (rangeLenDown ((len b_int) - 1) (-1)) ((len b_int) - 1) b_int
            Except.ok b_int
        else
          Except.ok b_int)
      let int_value : Int := 0
      let int_value ← read_asn1_integer_for3 b_int int_value
      let int_value : Int :=
        if is_negative ≠ 0 then
          let int_value : Int := int_value * (-1)
          int_value
        else int_value
      Except.ok (int_value, consumed)

theorem read_asn1_integer_unfold (fuel : Nat) (data : List Nat) (tag : Option ASN1Tag)
    (header : Option ASN1Header) :
    read_asn1_integer fuel data tag header
      = (validate_tag fuel data (selTag tag header 2) header >>= fun p => readIntTail p.1 p.2) := by
  cases tag <;> cases header <;> rfl

theorem readIntTail_eq (c : List Nat) (n : Int) (hb : IsBytes c) :
    readIntTail c n = (readIntContent c).map (fun v => (v, n)) := by
  cases c with
  | nil => rfl
  | cons b0 rest =>
    have hb0 := (isBytes_cons.1 hb).1
    have hlen1 : rangeLen 0 (len (b0 :: rest)) = (b0 :: rest).length := by
      simp [rangeLen, len]
    have hg : getItem (b0 :: rest) 0 = .ok (b0 : Int) := getItem_mid [] rest b0
    simp only [readIntTail, ne_eq, reduceCtorEq, not_false_eq_true, not_true_eq_false, ↓reduceIte,
      hg, bind_ok, pyAnd_128_byte b0 hb0, readIntContent]
    by_cases hneg : 128 ≤ b0
    · have h1 := read_int_for1_eq (b0 :: rest) [] hb
      simp only [List.length_nil, Int.natCast_zero, List.nil_append] at h1
      have hcb : IsBytes ((b0 :: rest).map (255 - ·)) := by
        intro y hy
        rcases List.mem_map.1 hy with ⟨z, _, rfl⟩
        omega
      have h2 := read_int_for2_eq ((b0 :: rest).map (255 - ·)) [] hcb
      simp only [List.append_nil] at h2
      rw [← len_eq] at h2
      have hlen2 : rangeLenDown (len ((b0 :: rest).map (255 - ·)) - 1) (-1)
          = ((b0 :: rest).map (255 - ·)).length := by
        simp only [rangeLenDown, len]; omega
      have hib : IsBytes (addOneLE ((b0 :: rest).map (255 - ·)).reverse).reverse :=
        isBytes_reverse.2 (addOneLE_isBytes _ (isBytes_reverse.2 hcb))
      have h3 := read_int_for3_eq _ 0 hib
      simp only [Int.natCast_zero] at h3
      have hz : ¬ ((128 : Int) = 0) := by decide
      simp only [hneg, ↓reduceIte, hz, not_false_eq_true, hlen1, h1, bind_ok, hlen2, h2, h3,
        Except.map, Int.mul_neg, Int.mul_one]
      rfl
    · have h3 := read_int_for3_eq (b0 :: rest) 0 hb
      simp only [Int.natCast_zero] at h3
      simp only [hneg, ↓reduceIte, eq_self, not_true_eq_false, h3, bind_ok, Except.map]
      rfl

/-- `_read_asn1_integer` after `_validate_tag` returned the content `c` and the count `n` -/
theorem read_asn1_integer_of_validate (fuel : Nat) (data : List Nat) (tag : Option ASN1Tag)
    (header : Option ASN1Header) (c : List Nat) (n : Int) (hb : IsBytes c)
    (hv : validate_tag fuel data (selTag tag header 2) header = .ok (c, n)) :
    read_asn1_integer fuel data tag header = (readIntContent c).map (fun v => (v, n)) := by
  rw [read_asn1_integer_unfold, hv, bind_ok]
  exact readIntTail_eq c n hb

theorem read_asn1_integer_of_validate_error (fuel : Nat) (data : List Nat) (tag : Option ASN1Tag)
    (header : Option ASN1Header) (e : Err)
    (hv : validate_tag fuel data (selTag tag header 2) header = .error e) :
    read_asn1_integer fuel data tag header = .error e := by
  rw [read_asn1_integer_unfold, hv, bind_error]


end Verif.Proofs.Asn1Gen
