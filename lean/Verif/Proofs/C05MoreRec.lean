/-
C05 (second batch), part 2: where a `.recursion` error can come from.  The readers and all the
fuel-taking loops never produce it (given fuel ≥ input length); the only source is the depth
budget of `decFilter`, and then the input really contains that many nested and/or/not elements
(`FilterDeeper`, stated over the independent element splitter of `Spec/C05More.lean`).
Core Lean only.
-/
import Verif.Proofs.C05MoreFuel

namespace Verif.Proofs.C05More
open Verif Verif.C05More Verif.Proofs Verif.Proofs.DecodeCostP

/-- the independent element splitter agrees with every successful `readTLV` -/
theorem element_of_readTLV (e : Option Tag) (bs c rest : Bytes) (h : readTLV e bs = .ok (c, rest)) :
    ∃ hd, readHeader bs = .ok hd ∧ tagBad e hd = false ∧
      element bs = some ⟨hd.tag.cls, hd.tag.cons, hd.tag.num, c, rest⟩ := by
  obtain ⟨hd, hh, hbad, hle, hc, hr⟩ := readTLV_ok e bs c rest h
  refine ⟨hd, hh, hbad, ?_⟩
  match bs, hh, hle, hc, hr with
  | [], hh, _, _, _ => simp [readHeader] at hh
  | o1 :: r1, hh, hle, hc, hr =>
    rw [readHeader_cons] at hh
    simp only [element]
    generalize htp : (if o1 % 32 = 31 then frameTagNum r1 0 else some (o1 % 32, r1)) = tp
    match tp, htp with
    | none, htp => rw [tagPart_none _ _ htp] at hh; cases hh
    | some (num, r2), htp =>
      obtain ⟨cnt, hid, hr2, hcnt⟩ := tagPart_some _ _ _ _ htp
      rw [hid] at hh
      simp only at hh
      by_cases hg : o1 / 64 = 0 ∧ num > 36
      · rw [if_pos hg] at hh; cases hh
      rw [if_neg hg] at hh
      have hdrop : (o1 :: r1).drop (1 + cnt) = r2 := by
        rw [Nat.add_comm, List.drop_succ_cons, hr2]
      rw [hdrop] at hh
      match r2, hr2, hdrop, hh with
      | [], _, _, hh => simp [readLen] at hh
      | l :: r3, hr2, hdrop, hh =>
        rw [readLen_cons] at hh
        dsimp only
        by_cases h128 : l = 128
        · rw [if_pos h128] at hh; cases hh
        rw [if_neg h128] at hh ⊢
        generalize hk : (if 128 < l then l - 128 else 0) = k at hh ⊢
        by_cases hshort : r3.length < k
        · rw [if_pos hshort] at hh; cases hh
        rw [if_neg hshort] at hh ⊢
        simp only [Except.ok.injEq] at hh
        have hbody : (o1 :: r1).drop (1 + cnt + 1 + k) = r3.drop k := by
          rw [show 1 + cnt + 1 + k = (1 + cnt) + (1 + k) by omega, ← List.drop_drop, hdrop,
            Nat.add_comm 1 k, List.drop_succ_cons]
        subst hh
        simp only at hle hc hr hbody ⊢
        rw [hbody] at hle hc hr
        rw [if_neg (by omega), hc, hr]

/-- the value is not the RecursionError outcome -/
def NoRec {α : Type} (x : Except Err α) : Prop := x ≠ .error .recursion

theorem noRec_ok {α : Type} (a : α) : NoRec (Except.ok a : Except Err α) := by intro h; cases h
theorem noRec_pure {α : Type} (a : α) : NoRec (pure a : Except Err α) := by intro h; cases h
theorem noRec_valueError {α : Type} : NoRec (Except.error .valueError : Except Err α) := by intro h; cases h
theorem noRec_notImpl {α : Type} : NoRec (Except.error .notImpl : Except Err α) := by intro h; cases h
theorem noRec_notEnough {α : Type} : NoRec (Except.error .notEnough : Except Err α) := by intro h; cases h

theorem noRec_bind {α β : Type} {x : Except Err α} {f : α → Except Err β} (hx : NoRec x)
    (hf : ∀ a, x = .ok a → NoRec (f a)) : NoRec (x >>= f) := by
  cases x with
  | error e => intro h; exact hx (by simpa [bind, Except.bind] using h)
  | ok a => exact hf a rfl

theorem noRec_readHeader (bs : Bytes) : NoRec (readHeader bs) := by
  intro h
  rcases readHeader_err _ _ h with h | h <;> cases h

theorem noRec_readTLV (e : Option Tag) (bs : Bytes) : NoRec (readTLV e bs) := by
  intro h
  rcases readTLV_err _ _ _ h with h | h <;> cases h

theorem noRec_readOctets (e : Option Tag) (bs : Bytes) : NoRec (readOctets e bs) := noRec_readTLV e bs

theorem noRec_decodeText (c : Bytes) : NoRec (decodeText c) := by
  unfold decodeText; split
  · exact noRec_ok _
  · exact noRec_valueError

theorem noRec_readText (e : Option Tag) (bs : Bytes) : NoRec (readText e bs) := by
  intro h
  unfold readText at h
  split at h
  · rename_i err he; injection h with h; subst h; exact noRec_readTLV _ _ he
  · split at h
    · rename_i err he; injection h with h; subst h; exact noRec_decodeText _ he
    · cases h

theorem noRec_readIntContent (c : Bytes) : NoRec (readIntContent c) := by
  unfold readIntContent
  split
  · exact noRec_valueError
  · split <;> exact noRec_ok _

theorem noRec_readInt (e : Option Tag) (bs : Bytes) : NoRec (readInt e bs) := by
  intro h
  unfold readInt at h
  split at h
  · rename_i err he; injection h with h; subst h; exact noRec_readTLV _ _ he
  · split at h
    · rename_i err he; injection h with h; subst h; exact noRec_readIntContent _ he
    · cases h

theorem noRec_readBool (e : Option Tag) (bs : Bytes) : NoRec (readBool e bs) := by
  intro h
  unfold readBool at h
  split at h
  · rename_i err he; injection h with h; subst h; exact noRec_readTLV _ _ he
  · cases h

theorem noRec_skipValue (bs : Bytes) : NoRec (skipValue bs) := by
  intro h
  unfold skipValue at h
  split at h
  · rename_i err he; injection h with h; subst h; exact noRec_readHeader _ he
  · cases h

macro "norec_step" : tactic =>
  `(tactic| first
    | exact noRec_ok _ | exact noRec_pure _ | exact noRec_valueError | exact noRec_notImpl
    | exact noRec_notEnough
    | exact noRec_readHeader _ | exact noRec_readTLV _ _ | exact noRec_readOctets _ _
    | exact noRec_readText _ _ | exact noRec_readInt _ _ | exact noRec_readBool _ _
    | exact noRec_skipValue _ | exact noRec_decodeText _
    | assumption
    | refine noRec_bind ?_ (fun _ _ => ?_)
    | split
    | dsimp only)

theorem noRec_decPagedValue (v : Bytes) : NoRec (decPagedValue v) := by
  unfold decPagedValue
  repeat norec_step

theorem noRec_decControl (regs : Regs) (bs : Bytes) : NoRec (decControl regs bs) := by
  unfold decControl
  repeat (first | exact noRec_decPagedValue _ | norec_step)

theorem noRec_decCred (regs : Regs) (bs : Bytes) : NoRec (decCred regs bs) := by
  unfold decCred
  repeat norec_step

theorem noRec_loopMany {α : Type} (dec1 : Bytes → Except Err (α × Bytes)) (hp : Progress dec1)
    (hn : ∀ bs, NoRec (dec1 bs)) : ∀ (n : Nat) (bs : Bytes), bs.length ≤ n → NoRec (loopMany dec1 n bs) := by
  intro n
  induction n with
  | zero =>
    intro bs h0
    have : bs = [] := List.eq_nil_of_length_eq_zero (by omega)
    subst this
    simp only [loopMany, List.isEmpty_nil, ↓reduceIte]
    exact noRec_ok _
  | succ n ih =>
    intro bs hb
    simp only [loopMany]
    split
    · exact noRec_ok _
    refine noRec_bind (hn bs) (fun ⟨x, r⟩ hx => ?_)
    have := hp _ _ _ hx
    exact noRec_bind (ih r (by omega)) (fun xs _ => noRec_pure _)

theorem noRec_decSubstrLoop : ∀ (n : Nat) (bs : Bytes) (acc : SubstrAcc), bs.length ≤ n →
    NoRec (decSubstrLoop n bs acc) := by
  intro n
  induction n with
  | zero =>
    intro bs acc h0
    have : bs = [] := List.eq_nil_of_length_eq_zero (by omega)
    subst this
    simp only [decSubstrLoop, List.isEmpty_nil, ↓reduceIte]
    exact noRec_ok _
  | succ n ih =>
    intro bs acc hb
    simp only [decSubstrLoop]
    split
    · exact noRec_ok _
    refine noRec_bind (noRec_readHeader _) (fun h _ => ?_)
    split
    · split
      · exact noRec_valueError
      refine noRec_bind (noRec_readOctets _ _) (fun ⟨v, r⟩ hx => ?_)
      have := readOctets_shorter _ _ _ _ hx
      exact ih r _ (by omega)
    split
    · refine noRec_bind (noRec_readOctets _ _) (fun ⟨v, r⟩ hx => ?_)
      have := readOctets_shorter _ _ _ _ hx
      exact ih r _ (by omega)
    split
    · split
      · exact noRec_valueError
      refine noRec_bind (noRec_readOctets _ _) (fun ⟨v, r⟩ hx => ?_)
      have := readOctets_shorter _ _ _ _ hx
      exact ih r _ (by omega)
    · refine noRec_bind (noRec_skipValue _) (fun r hx => ?_)
      have := skipValue_shorter _ _ hx
      exact ih r _ (by omega)

theorem noRec_decExtLoop : ∀ (n : Nat) (bs : Bytes) (acc : ExtAcc), bs.length ≤ n →
    NoRec (decExtLoop n bs acc) := by
  intro n
  induction n with
  | zero =>
    intro bs acc h0
    have : bs = [] := List.eq_nil_of_length_eq_zero (by omega)
    subst this
    simp only [decExtLoop, List.isEmpty_nil, ↓reduceIte]
    exact noRec_ok _
  | succ n ih =>
    intro bs acc hb
    simp only [decExtLoop]
    split
    · exact noRec_ok _
    refine noRec_bind (noRec_readHeader _) (fun h _ => ?_)
    split
    · refine noRec_bind (noRec_readText _ _) (fun ⟨v, r⟩ hx => ?_)
      have := readText_shorter _ _ _ _ hx
      exact ih r _ (by omega)
    split
    · refine noRec_bind (noRec_readText _ _) (fun ⟨v, r⟩ hx => ?_)
      have := readText_shorter _ _ _ _ hx
      exact ih r _ (by omega)
    split
    · refine noRec_bind (noRec_readOctets _ _) (fun ⟨v, r⟩ hx => ?_)
      have := readOctets_shorter _ _ _ _ hx
      exact ih r _ (by omega)
    split
    · refine noRec_bind (noRec_readBool _ _) (fun ⟨v, r⟩ hx => ?_)
      have := readBool_shorter _ _ _ _ hx
      exact ih r _ (by omega)
    · refine noRec_bind (noRec_skipValue _) (fun r hx => ?_)
      have := skipValue_shorter _ _ hx
      exact ih r _ (by omega)

theorem noRec_decOptLoop (n1 : Nat) (text1 : Bool) (n2 : Option Nat) :
    ∀ (n : Nat) (bs : Bytes) (a b : Option Bytes), bs.length ≤ n →
    NoRec (decOptLoop n1 text1 n2 n bs a b) := by
  intro n
  induction n with
  | zero =>
    intro bs a b h0
    have : bs = [] := List.eq_nil_of_length_eq_zero (by omega)
    subst this
    simp only [decOptLoop, List.isEmpty_nil, ↓reduceIte]
    exact noRec_ok _
  | succ n ih =>
    intro bs a b hb
    simp only [decOptLoop]
    split
    · exact noRec_ok _
    refine noRec_bind (noRec_readHeader _) (fun h _ => ?_)
    split
    · refine noRec_bind (by cases text1 <;> first | exact noRec_readOctets _ _ | exact noRec_readText _ _)
        (fun ⟨v, r⟩ hx => ?_)
      have : r.length + 2 ≤ bs.length := by
        cases text1
        · exact readOctets_shorter _ _ _ _ hx
        · exact readText_shorter _ _ _ _ hx
      exact ih r _ _ (by omega)
    split
    · refine noRec_bind (noRec_readOctets _ _) (fun ⟨v, r⟩ hx => ?_)
      have := readOctets_shorter _ _ _ _ hx
      exact ih r _ _ (by omega)
    · refine noRec_bind (noRec_skipValue _) (fun r hx => ?_)
      have := skipValue_shorter _ _ hx
      exact ih r _ _ (by omega)


/-! ### progress of the element decoders the model passes to `loopMany` / `parseLoop` -/

theorem progress_readOctets (e : Option Tag) : Progress (readOctets e) := by
  intro bs x r h; have := readOctets_shorter _ _ _ _ h; omega

theorem progress_readText (e : Option Tag) : Progress (readText e) := by
  intro bs x r h; have := readText_shorter _ _ _ _ h; omega

theorem progress_decFilter (regs : Regs) (d : Nat) : Progress (decFilter regs d) := by
  intro bs x r h; have := decFilter_shorter _ _ _ _ _ h; omega

theorem progress_decControl (regs : Regs) : Progress (decControl regs) := by
  intro bs x r h
  obtain ⟨c, hc⟩ := decControl_rest _ _ _ _ h
  have := (readTLV_shorter _ _ _ _ hc).1; omega

theorem progress_decAttr : Progress decAttr := by
  intro bs x r h
  obtain ⟨c, hc⟩ := decAttr_rest _ _ _ h
  have := (readTLV_shorter _ _ _ _ hc).1; omega

theorem progress_decMsg (regs : Regs) (depth : Nat) : Progress (decMsg regs depth) := by
  intro bs x r h
  obtain ⟨c, hc⟩ := decMsg_ok_readTLV _ _ _ _ _ h
  have := (readTLV_shorter _ _ _ _ hc).1; omega

/-! ### the remaining decoders without a depth budget -/

theorem noRec_decEnvelopeLoop (regs : Regs) :
    ∀ (n : Nat) (bs : Bytes) (cs : List Control) (rn : Option Bytes), bs.length ≤ n →
    NoRec (decEnvelopeLoop regs n bs cs rn) := by
  intro n
  induction n with
  | zero =>
    intro bs cs rn h0
    have : bs = [] := List.eq_nil_of_length_eq_zero (by omega)
    subst this
    simp only [decEnvelopeLoop, List.isEmpty_nil, ↓reduceIte]
    exact noRec_ok _
  | succ n ih =>
    intro bs cs rn hb
    simp only [decEnvelopeLoop]
    split
    · exact noRec_ok _
    refine noRec_bind (noRec_readHeader _) (fun h _ => ?_)
    split
    · refine noRec_bind (noRec_readTLV _ _) (fun ⟨c, r⟩ hx => ?_)
      have := (readTLV_shorter _ _ _ _ hx).1
      refine noRec_bind (noRec_loopMany _ (progress_decControl regs) (noRec_decControl regs) _ _
        (Nat.le_refl _)) (fun more _ => ?_)
      exact ih r _ _ (by omega)
    split
    · refine noRec_bind (noRec_readText _ _) (fun ⟨v, r⟩ hx => ?_)
      have := readText_shorter _ _ _ _ hx
      exact ih r _ _ (by omega)
    · refine noRec_bind (noRec_skipValue _) (fun r hx => ?_)
      have := skipValue_shorter _ _ hx
      exact ih r _ _ (by omega)

theorem noRec_decResult (bs : Bytes) : NoRec (decResult bs) := by
  unfold decResult
  repeat (first
    | exact noRec_loopMany _ (progress_readText _) (noRec_readText _) _ _ (Nat.le_refl _)
    | norec_step)

theorem noRec_decAttr (bs : Bytes) : NoRec (decAttr bs) := by
  unfold decAttr
  repeat (first
    | exact noRec_loopMany _ (progress_readOctets _) (noRec_readOctets _) _ _ (Nat.le_refl _)
    | norec_step)

/-! ### the depth budget is the only source of `.recursion` -/

theorem bind_err {α β : Type} {x : Except Err α} {f : α → Except Err β} {e : Err}
    (h : (x >>= f) = .error e) : x = .error e ∨ ∃ a, x = .ok a ∧ f a = .error e := by
  cases x with
  | error e' => left; simpa [bind, Except.bind] using h
  | ok a => right; exact ⟨a, rfl, h⟩

/-- `suf` is reached from `bs` by successful calls of `dec1` -/
inductive Reach {α : Type} (dec1 : Bytes → Except Err (α × Bytes)) : Bytes → Bytes → Prop where
  | refl (bs : Bytes) : Reach dec1 bs bs
  | step (bs : Bytes) (x : α) (r suf : Bytes) : dec1 bs = .ok (x, r) → Reach dec1 r suf → Reach dec1 bs suf

/-- a `.recursion` out of `loopMany` (fuel ≥ length) is a `.recursion` of the element decoder
    at a position reached by decoding the earlier elements -/
theorem loopMany_recursion {α : Type} (dec1 : Bytes → Except Err (α × Bytes)) (hp : Progress dec1) :
    ∀ (n : Nat) (bs : Bytes), bs.length ≤ n → loopMany dec1 n bs = .error .recursion →
      ∃ suf, Reach dec1 bs suf ∧ dec1 suf = .error .recursion := by
  intro n
  induction n with
  | zero =>
    intro bs h0 h
    have : bs = [] := List.eq_nil_of_length_eq_zero (by omega)
    subst this
    simp [loopMany] at h
  | succ n ih =>
    intro bs hb h
    simp only [loopMany] at h
    split at h
    · cases h
    rcases bind_err h with h | ⟨⟨x, r⟩, hx, h⟩
    · exact ⟨bs, .refl _, h⟩
    have := hp _ _ _ hx
    rcases bind_err h with h | ⟨xs, _, h⟩
    · obtain ⟨suf, hr, hs⟩ := ih r (by omega) h
      exact ⟨suf, .step _ _ _ _ hx hr, hs⟩
    · cases h

theorem reach_decFilter_after (regs : Regs) (d : Nat) (bs suf : Bytes)
    (h : Reach (decFilter regs d) bs suf) : ∃ n, AfterElements n bs suf := by
  induction h with
  | refl bs => exact ⟨0, .zero _⟩
  | step bs x r suf hx _ ih =>
    obtain ⟨n, hn⟩ := ih
    obtain ⟨c, hc⟩ := decFilter_rest _ _ _ _ _ hx
    obtain ⟨hd, _, _, he⟩ := element_of_readTLV _ _ _ _ hc
    exact ⟨n + 1, .succ n bs suf _ he hn⟩

theorem noRec_decAva (n : Nat) (bs : Bytes) : NoRec (decAva n bs) := by
  unfold decAva
  repeat norec_step

theorem tag_of_tagBad (t : Tag) (hd : Header) (h : tagBad (some t) hd = false) : hd.tag = t := by
  simpa [tagBad] using h

/-- the depth budget is the only source of `.recursion` in `decFilter`, and when it strikes the
    input holds `d` nested and/or/not elements around one more Filter position -/
theorem decFilter_recursion (regs : Regs) : ∀ (d : Nat) (bs : Bytes),
    decFilter regs d bs = .error .recursion → FilterDeeper d bs := by
  intro d
  induction d with
  | zero => intro bs _; exact .zero _
  | succ d ih =>
    intro bs h
    unfold decFilter at h
    rcases bind_err h with h | ⟨hd, hh, h⟩
    · exact absurd h (noRec_readHeader _)
    by_cases hc : hd.tag.cls ≠ 2
    · rw [if_pos hc] at h; cases h
    rw [if_neg hc] at h
    by_cases h0 : hd.tag.num = Facts.filterAnd
    · rw [if_pos h0] at h
      rcases bind_err h with h | ⟨⟨c, rest⟩, h1, h⟩
      · exact absurd h (noRec_readTLV _ _)
      rcases bind_err h with h | ⟨fs, _, h⟩
      · obtain ⟨suf, hr, hs⟩ := loopMany_recursion _ (progress_decFilter regs d) _ _ (Nat.le_refl _) h
        obtain ⟨n, hn⟩ := reach_decFilter_after _ _ _ _ hr
        obtain ⟨hd', _, hbad, he⟩ := element_of_readTLV _ _ _ _ h1
        have ht := tag_of_tagBad _ _ hbad
        exact .set d bs _ n suf he (by rw [ht]; rfl) (by rw [ht]; rfl) (.inl (by rw [ht]; rfl)) hn (ih _ hs)
      · cases h
    rw [if_neg h0] at h
    by_cases h1 : hd.tag.num = Facts.filterOr
    · rw [if_pos h1] at h
      rcases bind_err h with h | ⟨⟨c, rest⟩, h1, h⟩
      · exact absurd h (noRec_readTLV _ _)
      rcases bind_err h with h | ⟨fs, _, h⟩
      · obtain ⟨suf, hr, hs⟩ := loopMany_recursion _ (progress_decFilter regs d) _ _ (Nat.le_refl _) h
        obtain ⟨n, hn⟩ := reach_decFilter_after _ _ _ _ hr
        obtain ⟨hd', _, hbad, he⟩ := element_of_readTLV _ _ _ _ h1
        have ht := tag_of_tagBad _ _ hbad
        exact .set d bs _ n suf he (by rw [ht]; rfl) (by rw [ht]; rfl) (.inr (by rw [ht]; rfl)) hn (ih _ hs)
      · cases h
    rw [if_neg h1] at h
    by_cases h2 : hd.tag.num = Facts.filterNot
    · rw [if_pos h2] at h
      rcases bind_err h with h | ⟨⟨c, rest⟩, h1, h⟩
      · exact absurd h (noRec_readTLV _ _)
      rcases bind_err h with h | ⟨⟨g, r'⟩, _, h⟩
      · obtain ⟨hd', _, hbad, he⟩ := element_of_readTLV _ _ _ _ h1
        have ht := tag_of_tagBad _ _ hbad
        exact .not d bs _ he (by rw [ht]; rfl) (by rw [ht]; rfl) (by rw [ht]; rfl) (ih _ h)
      · cases h
    rw [if_neg h2] at h
    refine absurd h ?_
    repeat (first
      | exact noRec_decAva _ _
      | exact noRec_decSubstrLoop _ _ _ (Nat.le_refl _)
      | exact noRec_decExtLoop _ _ _ (Nat.le_refl _)
      | norec_step)

theorem readInt_rest (e : Option Tag) (bs : Bytes) (v : Int) (r : Bytes) (h : readInt e bs = .ok (v, r)) :
    ∃ c, readTLV e bs = .ok (c, r) := by
  unfold readInt at h
  cases h1 : readTLV e bs with
  | error err => rw [h1] at h; cases h
  | ok p =>
    obtain ⟨c, r'⟩ := p
    rw [h1] at h
    simp only at h
    cases h2 : readIntContent c with
    | error err => rw [h2] at h; cases h
    | ok v' =>
      rw [h2] at h
      simp only [Except.ok.injEq, Prod.mk.injEq] at h
      obtain ⟨_, rfl⟩ := h
      exact ⟨c, rfl⟩

theorem readBool_rest (e : Option Tag) (bs : Bytes) (v : Bool) (r : Bytes) (h : readBool e bs = .ok (v, r)) :
    ∃ c, readTLV e bs = .ok (c, r) := by
  unfold readBool at h
  cases h1 : readTLV e bs with
  | error err => rw [h1] at h; cases h
  | ok p =>
    obtain ⟨c, r'⟩ := p
    rw [h1] at h
    simp only [Except.ok.injEq, Prod.mk.injEq] at h
    obtain ⟨_, rfl⟩ := h
    exact ⟨c, rfl⟩

theorem after_readTLV {e : Option Tag} {bs c r suf : Bytes} {n : Nat} (h : readTLV e bs = .ok (c, r))
    (ha : AfterElements n r suf) : AfterElements (n + 1) bs suf := by
  obtain ⟨hd, _, _, he⟩ := element_of_readTLV _ _ _ _ h
  exact .succ n bs suf _ he ha

theorem noRec_decOp_other (regs : Regs) (depth num : Nat) (c : Bytes) (h3 : num ≠ Facts.opSearchRequest) :
    NoRec (decOp regs depth num c) := by
  unfold decOp
  repeat (first
    | exact absurd (by assumption) h3
    | exact noRec_decCred _ _
    | exact noRec_decResult _
    | exact noRec_decOptLoop _ _ _ _ _ _ _ (Nat.le_refl _)
    | exact noRec_loopMany _ (progress_readText _) (noRec_readText _) _ _ (Nat.le_refl _)
    | exact noRec_loopMany _ progress_decAttr noRec_decAttr _ _ (Nat.le_refl _)
    | norec_step)

/-- `decOp` fails with `.recursion` only for a SearchRequest, and then it is `decFilter` on the
    seventh member of the request that does -/
theorem decOp_recursion (regs : Regs) (depth num : Nat) (c : Bytes)
    (h : decOp regs depth num c = .error .recursion) :
    num = 3 ∧ ∃ f, AfterElements 6 c f ∧ decFilter regs depth f = .error .recursion := by
  have h3 : num = Facts.opSearchRequest :=
    Decidable.byContradiction fun hne => noRec_decOp_other regs depth num c hne h
  refine ⟨h3, ?_⟩
  subst h3
  unfold decOp at h
  simp only [Facts.opSearchRequest, Facts.opBindRequest, Facts.opBindResponse, Facts.opUnbindRequest,
    Nat.reduceEqDiff, ↓reduceIte] at h
  rcases bind_err h with h | ⟨⟨base, c1⟩, e1, h⟩
  · exact absurd h (noRec_readOctets _ _)
  rcases bind_err h with h | ⟨⟨scope, c2⟩, e2, h⟩
  · exact absurd h (noRec_readInt _ _)
  simp only at h
  split at h
  · cases h
  rcases bind_err h with h | ⟨⟨deref, c3⟩, e3, h⟩
  · exact absurd h (noRec_readInt _ _)
  simp only at h
  split at h
  · cases h
  rcases bind_err h with h | ⟨⟨sl, c4⟩, e4, h⟩
  · exact absurd h (noRec_readInt _ _)
  rcases bind_err h with h | ⟨⟨tl, c5⟩, e5, h⟩
  · exact absurd h (noRec_readInt _ _)
  rcases bind_err h with h | ⟨⟨ty, c6⟩, e6, h⟩
  · exact absurd h (noRec_readBool _ _)
  rcases bind_err h with h | ⟨⟨f, c7⟩, e7, h⟩
  · obtain ⟨_, t2⟩ := readInt_rest _ _ _ _ e2
    obtain ⟨_, t3⟩ := readInt_rest _ _ _ _ e3
    obtain ⟨_, t4⟩ := readInt_rest _ _ _ _ e4
    obtain ⟨_, t5⟩ := readInt_rest _ _ _ _ e5
    obtain ⟨_, t6⟩ := readBool_rest _ _ _ _ e6
    exact ⟨c6, after_readTLV e1 (after_readTLV t2 (after_readTLV t3 (after_readTLV t4
      (after_readTLV t5 (after_readTLV t6 (.zero _)))))), h⟩
  refine absurd h ?_
  repeat (first
    | exact noRec_loopMany _ (progress_readText _) (noRec_readText _) _ _ (Nat.le_refl _)
    | norec_step)


theorem decContents_recursion (regs : Regs) (depth : Nat) (c : Bytes)
    (h : decContents regs depth c = .error .recursion) :
    ∃ afterId op f, AfterElements 1 c afterId ∧ element afterId = some op ∧ op.cls = 1 ∧ op.num = 3 ∧
      AfterElements 6 op.content f ∧ decFilter regs depth f = .error .recursion := by
  unfold decContents at h
  rcases bind_err h with h | ⟨⟨id, m1⟩, e1, h⟩
  · exact absurd h (noRec_readInt _ _)
  rcases bind_err h with h | ⟨hd, e2, h⟩
  · exact absurd h (noRec_readHeader _)
  simp only at h
  by_cases hc : hd.tag.cls ≠ 1
  · rw [if_pos hc] at h; cases h
  rw [if_neg hc] at h
  split at h
  · cases h
  rcases bind_err h with h | ⟨⟨opc, m2⟩, e3, h⟩
  · exact absurd h (noRec_readTLV _ _)
  rcases bind_err h with h | ⟨⟨controls, respName⟩, _, h⟩
  · exact absurd h (noRec_decEnvelopeLoop _ _ _ _ _ (Nat.le_refl _))
  rcases bind_err h with h | ⟨op, _, h⟩
  · obtain ⟨hnum, f, haf, hf⟩ := decOp_recursion _ _ _ _ h
    obtain ⟨_, t1⟩ := readInt_rest _ _ _ _ e1
    obtain ⟨hd', hh', _, he⟩ := element_of_readTLV _ _ _ _ e3
    have : hd' = hd := by rw [e2] at hh'; injection hh' with hh'; exact hh'.symm
    subst this
    exact ⟨m1, _, f, after_readTLV t1 (.zero _), he, by simpa using hc, hnum, haf, hf⟩
  · cases h

/-- `.recursion` out of `decMsg` means: the LDAPMessage at the head of the input is a SearchRequest
    whose `filter` field makes `decFilter` exhaust the depth budget -/
theorem decMsg_recursion (regs : Regs) (depth : Nat) (bs : Bytes)
    (h : decMsg regs depth bs = .error .recursion) : SearchFilterDeeper depth bs := by
  unfold decMsg at h
  split at h
  · rename_i e he; injection h with h; subst h; exact absurd he (noRec_readTLV _ _)
  · rename_i c rest he
    split at h
    · cases h
    · cases h
    · rename_i e hne hc
      injection h with h; subst h
      obtain ⟨afterId, op, f, h1, h2, h3, h4, h5, h6⟩ := decContents_recursion _ _ _ hc
      obtain ⟨hd, _, hbad, hel⟩ := element_of_readTLV _ _ _ _ he
      have ht := tag_of_tagBad _ _ hbad
      exact ⟨_, afterId, op, f, hel, by rw [ht]; rfl, by rw [ht]; rfl, by rw [ht]; rfl, h1, h2, h3, h4, h5,
        decFilter_recursion _ _ _ h6⟩

/-! ### `parseLoop`, and how long an input must be to exhaust a depth budget -/

theorem parseLoop_recursion (regs : Regs) (depth : Nat) : ∀ (n : Nat) (buf : Bytes), buf.length ≤ n →
    parseLoop regs depth n buf = .error .recursion →
      ∃ k suf, AfterElements k buf suf ∧ SearchFilterDeeper depth suf := by
  intro n
  induction n with
  | zero =>
    intro buf h0 h
    have : buf = [] := List.eq_nil_of_length_eq_zero (by omega)
    subst this
    simp [parseLoop] at h
  | succ n ih =>
    intro buf hb h
    simp only [parseLoop] at h
    split at h
    · cases h
    split at h
    · rename_i m r hd
      obtain ⟨c, hc⟩ := decMsg_ok_readTLV _ _ _ _ _ hd
      have := (readTLV_shorter _ _ _ _ hc).1
      split at h
      · cases h
      · rename_i e he
        injection h with h; subst h
        obtain ⟨k, suf, h1, h2⟩ := ih r (by omega) he
        exact ⟨k + 1, suf, after_readTLV hc h1, h2⟩
    · cases h
    · rename_i e hne hd
      injection h with h; subst h
      exact ⟨0, buf, .zero _, decMsg_recursion _ _ _ hd⟩

theorem frameTagNum_length (bs : Bytes) (acc num : Nat) (r : Bytes) (h : frameTagNum bs acc = some (num, r)) :
    r.length ≤ bs.length := by
  obtain ⟨cnt, _, hr, _⟩ := frameTagNum_some bs acc 0 num r h
  rw [hr, List.length_drop]; omega

theorem element_length (bs : Bytes) (e : Elem) (h : element bs = some e) :
    e.content.length + e.rest.length + 2 ≤ bs.length := by
  match bs, h with
  | [], h => simp [element] at h
  | o1 :: r1, h =>
    simp only [element] at h
    split at h
    · cases h
    · rename_i num r2 htp
      have hr2 : r2.length ≤ r1.length := by
        split at htp
        · exact frameTagNum_length _ _ _ _ htp
        · simp only [Option.some.injEq, Prod.mk.injEq] at htp; rw [← htp.2]; exact Nat.le_refl _
      split at h
      · cases h
      · rename_i l r3
        by_cases h128 : l = 128
        · rw [if_pos h128] at h; cases h
        rw [if_neg h128] at h
        generalize (if 128 < l then l - 128 else 0) = k at h
        by_cases hk : r3.length < k
        · rw [if_pos hk] at h; cases h
        rw [if_neg hk] at h
        generalize (if 128 < l then frameBe (List.take k r3) else l) = len at h
        by_cases hlen : (List.drop k r3).length < len
        · rw [if_pos hlen] at h; cases h
        rw [if_neg hlen] at h
        simp only [Option.some.injEq] at h
        subst h
        simp only [List.length_take, List.length_drop, List.length_cons] at hr2 hlen ⊢
        omega

theorem afterElements_length {n : Nat} {bs suf : Bytes} (h : AfterElements n bs suf) :
    suf.length + 2 * n ≤ bs.length := by
  induction h with
  | zero bs => omega
  | succ n bs suf e he _ ih =>
    have := element_length _ _ he
    omega

theorem filterDeeper_length {k : Nat} {bs : Bytes} (h : FilterDeeper k bs) : 2 * k ≤ bs.length := by
  induction h with
  | zero bs => omega
  | not k bs e he _ _ _ _ ih =>
    have := element_length _ _ he
    omega
  | set k bs e n inner he _ _ _ ha _ ih =>
    have := element_length _ _ he
    have := afterElements_length ha
    omega

theorem searchFilterDeeper_length {k : Nat} {bs : Bytes} (h : SearchFilterDeeper k bs) :
    2 * k + 18 ≤ bs.length := by
  obtain ⟨env, afterId, op, f, h1, _, _, _, h2, h3, _, _, h4, h5⟩ := h
  have := element_length _ _ h1
  have := afterElements_length h2
  have := element_length _ _ h3
  have := afterElements_length h4
  have := filterDeeper_length h5
  omega

/-! ### results other than `.recursion` do not depend on the depth budget -/

theorem noRec_of_bind {α β : Type} {x : Except Err α} {f : α → Except Err β} (h : NoRec (x >>= f)) :
    NoRec x := by
  intro hx; rw [hx] at h; exact h rfl

theorem bind_congr_noRec {α β : Type} {x : Except Err α} {f g : α → Except Err β} (h : NoRec (x >>= g))
    (hfg : ∀ a, x = .ok a → NoRec (g a) → f a = g a) : (x >>= f) = (x >>= g) := by
  cases x with
  | error e => rfl
  | ok a => exact hfg a rfl h

theorem loopMany_congr_noRec {α : Type} (dec1 dec2 : Bytes → Except Err (α × Bytes))
    (hc : ∀ bs, NoRec (dec1 bs) → dec2 bs = dec1 bs) : ∀ (n : Nat) (bs : Bytes),
    NoRec (loopMany dec1 n bs) → loopMany dec2 n bs = loopMany dec1 n bs := by
  intro n
  induction n with
  | zero => intro bs _; rfl
  | succ n ih =>
    intro bs h
    simp only [loopMany] at h ⊢
    split
    · rfl
    · rename_i hne
      rw [if_neg hne] at h
      rw [hc bs (noRec_of_bind h)]
      refine bind_congr_noRec h (fun ⟨x, r⟩ _ h2 => ?_)
      simp only at h2 ⊢
      rw [ih r (noRec_of_bind h2)]

theorem decFilter_depth (regs : Regs) : ∀ (d d' : Nat) (bs : Bytes), d ≤ d' →
    NoRec (decFilter regs d bs) → decFilter regs d' bs = decFilter regs d bs := by
  intro d
  induction d with
  | zero => intro d' bs _ h; exact absurd rfl h
  | succ d ih =>
    intro d' bs hd h
    cases d' with
    | zero => omega
    | succ d' =>
      have hdd : d ≤ d' := by omega
      unfold decFilter at h ⊢
      refine bind_congr_noRec h (fun hd _ h => ?_)
      by_cases hc : hd.tag.cls ≠ 2
      · rw [if_pos hc, if_pos hc]
      rw [if_neg hc] at h ⊢
      rw [if_neg hc]
      by_cases h0 : hd.tag.num = Facts.filterAnd
      · rw [if_pos h0] at h ⊢
        rw [if_pos h0]
        refine bind_congr_noRec h (fun ⟨c, rest⟩ _ h => ?_)
        simp only at h ⊢
        rw [loopMany_congr_noRec _ _ (fun bs hb => ih d' bs hdd hb) _ _ (noRec_of_bind h)]
      rw [if_neg h0] at h ⊢
      rw [if_neg h0]
      by_cases h1 : hd.tag.num = Facts.filterOr
      · rw [if_pos h1] at h ⊢
        rw [if_pos h1]
        refine bind_congr_noRec h (fun ⟨c, rest⟩ _ h => ?_)
        simp only at h ⊢
        rw [loopMany_congr_noRec _ _ (fun bs hb => ih d' bs hdd hb) _ _ (noRec_of_bind h)]
      rw [if_neg h1] at h ⊢
      rw [if_neg h1]
      by_cases h2 : hd.tag.num = Facts.filterNot
      · rw [if_pos h2] at h ⊢
        rw [if_pos h2]
        refine bind_congr_noRec h (fun ⟨c, rest⟩ _ h => ?_)
        simp only at h ⊢
        rw [ih d' c hdd (noRec_of_bind h)]
      rw [if_neg h2]
      rw [if_neg h2]


theorem decOp_depth (regs : Regs) (d d' num : Nat) (c : Bytes) (hd : d ≤ d')
    (h : NoRec (decOp regs d num c)) : decOp regs d' num c = decOp regs d num c := by
  by_cases h3 : num = Facts.opSearchRequest
  · subst h3
    unfold decOp at h ⊢
    simp only [Facts.opSearchRequest, Facts.opBindRequest, Facts.opBindResponse, Facts.opUnbindRequest,
      Nat.reduceEqDiff, ↓reduceIte] at h ⊢
    refine bind_congr_noRec h (fun ⟨base, c1⟩ _ h => ?_)
    refine bind_congr_noRec h (fun ⟨scope, c2⟩ _ h => ?_)
    simp only at h ⊢
    split
    · rfl
    rename_i hsc
    rw [if_neg hsc] at h
    refine bind_congr_noRec h (fun ⟨deref, c3⟩ _ h => ?_)
    simp only at h ⊢
    split
    · rfl
    rename_i hdr
    rw [if_neg hdr] at h
    refine bind_congr_noRec h (fun ⟨sl, c4⟩ _ h => ?_)
    refine bind_congr_noRec h (fun ⟨tl, c5⟩ _ h => ?_)
    refine bind_congr_noRec h (fun ⟨ty, c6⟩ _ h => ?_)
    simp only at h ⊢
    rw [decFilter_depth regs d d' c6 hd (noRec_of_bind h)]
  · unfold decOp
    simp only [if_neg h3]

theorem decContents_depth (regs : Regs) (d d' : Nat) (c : Bytes) (hd : d ≤ d')
    (h : NoRec (decContents regs d c)) : decContents regs d' c = decContents regs d c := by
  unfold decContents at h ⊢
  refine bind_congr_noRec h (fun ⟨id, m1⟩ _ h => ?_)
  refine bind_congr_noRec h (fun hdr _ h => ?_)
  simp only at h ⊢
  split
  · rfl
  rename_i hc
  rw [if_neg hc] at h
  split
  · rfl
  rename_i hk
  rw [if_neg hk] at h
  refine bind_congr_noRec h (fun ⟨opc, m2⟩ _ h => ?_)
  refine bind_congr_noRec h (fun ⟨controls, respName⟩ _ h => ?_)
  simp only at h ⊢
  rw [decOp_depth regs d d' _ _ hd (noRec_of_bind h)]

theorem decMsg_depth (regs : Regs) (d d' : Nat) (bs : Bytes) (hd : d ≤ d')
    (h : NoRec (decMsg regs d bs)) : decMsg regs d' bs = decMsg regs d bs := by
  unfold decMsg at h ⊢
  split
  · rfl
  · rename_i c rest he
    rw [he] at h
    simp only at h
    have : NoRec (decContents regs d c) := by
      intro hc; rw [hc] at h; exact h rfl
    rw [decContents_depth regs d d' c hd this]

theorem parseLoop_depth (regs : Regs) (d d' : Nat) (hd : d ≤ d') : ∀ (n : Nat) (bs : Bytes),
    NoRec (parseLoop regs d n bs) → parseLoop regs d' n bs = parseLoop regs d n bs := by
  intro n
  induction n with
  | zero => intro bs _; rfl
  | succ n ih =>
    intro bs h
    simp only [parseLoop] at h ⊢
    split
    · rfl
    rename_i hne
    rw [if_neg hne] at h
    have hm : NoRec (decMsg regs d bs) := by
      intro hc; rw [hc] at h; exact h rfl
    rw [decMsg_depth regs d d' bs hd hm]
    cases hdm : decMsg regs d bs with
    | error e => cases e <;> rfl
    | ok p =>
      obtain ⟨m, r⟩ := p
      rw [hdm] at h
      simp only at h ⊢
      have hr : NoRec (parseLoop regs d n r) := by
        intro hc; rw [hc] at h; exact h rfl
      rw [ih r hr]

/-- unless the smaller budget is exhausted, `receive` does not depend on the depth budget -/
theorem recv_depth (d d' : Nat) (s : Sess) (chunk : Bytes) (hd : d ≤ d')
    (h : parseLoop s.regs d (s.residue ++ chunk).length (s.residue ++ chunk) ≠ .error .recursion) :
    recv d' s chunk = recv d s chunk := by
  have := parseLoop_depth s.regs d d' hd _ _ h
  simp only [recv, this]

end Verif.Proofs.C05More
