/-
`data_to_send`, `_send` (base, client, server), `_validate_outgoing_message`, `unbind`:
generated text = hand model.
-/
import Verif.Proofs.SessionGenBase

namespace Verif.Proofs.SessionGen

open Verif Verif.PyRtS Verif.SessionGen

/-- result of a sending method, from the model's (session, accepted?) -/
def sendRes (v : Int) (id : Int) (p : Sess × Bool) : Res St Int :=
  (if p.2 then .ok id else .error .ldapError, concS v p.1)

/-! ### `data_to_send` -/

theorem data_to_send_eq (r : Role) (regs : Regs) (st : St) (amount : Option Int) :
    LDAPSession_data_to_send st amount
      = (.ok (match (step (absS r regs st) (.drain amount)).2 with | .bytes b => b | _ => []),
         concS st.version (step (absS r regs st) (.drain amount)).1) := by
  rcases st with ⟨state, v, ob, outs, srch, ib, mc⟩
  cases amount with
  | none => simp [LDAPSession_data_to_send, step, PyRt.sliceTo, PyRt.sliceFrom, clampIndex_len, concS, absS]
  | some a => simp [LDAPSession_data_to_send, step, PyRt.sliceTo, PyRt.sliceFrom, clampIndex_eq, concS, absS]

/-! ### `LDAPSession._send` with the `_validate_outgoing_message` hook -/

theorem binding_cond (m : Msg) :
    ((!(isInstance m [.UnbindRequest, .BindRequest, .BindResponse]))
      && (!((isInstance m [.ExtendedResponse]) && ((extRespName m) == some ExtendedOperations_LDAP_NOTICE_OF_DISCONNECTION))))
      = !allowedWhileBinding m.op := by
  rw [← allowed_eq, Bool.not_or]

theorem client_base_send_eq (regs : Regs) (st : St) (m : Msg) :
    LDAPClient_LDAPSession_send st m = sendRes st.version m.id (sendBase (absS .client regs st) m) := by
  unfold LDAPClient_LDAPSession_send
  simp only [binding_cond, LDAPSession_validate_outgoing_message, Res.bind_ok]
  rcases st with ⟨state, v, ob, outs, srch, ib, mc⟩
  cases state <;> simp [sendBase, sendRes, absS, concS, absState, concState]
  cases allowedWhileBinding m.op <;> simp

theorem server_base_send_eq (regs : Regs) (st : St) (m : Msg) :
    LDAPServer_LDAPSession_send st m = sendRes st.version m.id (sendBase (absS .server regs st) m) := by
  unfold LDAPServer_LDAPSession_send
  simp only [binding_cond, LDAPServer_validate_outgoing_message, isUnbind_eq, setContains]
  rcases st with ⟨state, v, ob, outs, srch, ib, mc⟩
  cases state <;> simp [sendBase, sendRes, absS, concS, absState, concState]
  · by_cases h : m.op.isUnbind = false ∧ ¬m.id ∈ outs <;> simp [h]
  · cases allowedWhileBinding m.op <;> simp
    by_cases h : m.op.isUnbind = false ∧ ¬m.id ∈ outs <;> simp [h]
  · by_cases h : m.op.isUnbind = false ∧ ¬m.id ∈ outs <;> simp [h]

/-! ### `LDAPClient._send` -/

/-- result of a client sending method, from the model's (session, assigned id?) -/
def sendResOpt (v : Int) (p : Sess × Option Int) : Res St Int :=
  (match p.2 with | some i => .ok i | none => .error .ldapError, concS v p.1)

theorem client_send_unbind (regs : Regs) (st : St) (m : Msg) (h : m.op.isUnbind = true) :
    LDAPClient_send st m = sendRes st.version m.id (sendBase (absS .client regs st) m) := by
  unfold LDAPClient_send
  rw [isUnbind_eq, h]
  simp [client_base_send_eq regs]

theorem client_send_eq (regs : Regs) (st : St) (m : Msg) (h : m.op.isUnbind = false) :
    LDAPClient_send st m = sendResOpt st.version (clientSend (absS .client regs st) m.op m.controls) := by
  unfold LDAPClient_send
  rw [isUnbind_eq, h]
  simp only [Bool.false_eq_true, if_false, client_base_send_eq regs]
  have key : ∀ p : Sess × Bool,
      (Res.bind (sendRes st.version st.message_counter p) fun _ self =>
        ((.ok st.message_counter,
          { ({ self with message_counter := self.message_counter + 1 } : St) with
            outstanding_requests := setAdd self.outstanding_requests st.message_counter }) : Res St Int))
      = sendResOpt st.version
          (if p.2 then ({ p.1 with counter := p.1.counter + 1,
                                   outstanding := setInsert st.message_counter p.1.outstanding },
                        some st.message_counter)
           else (p.1, none)) := by
    intro ⟨s1, ok⟩
    cases ok <;> simp [sendRes, sendResOpt, concS, setAdd, setInsert]
  exact key _

/-! ### `LDAPServer._send` -/

theorem sendBase_role (s : Sess) (m : Msg) : (sendBase s m).1.role = s.role := by
  unfold sendBase; repeat' split
  all_goals first | rfl | (dsimp only; split <;> rfl)

theorem sendBase_regs (s : Sess) (m : Msg) : (sendBase s m).1.regs = s.regs := by
  unfold sendBase; repeat' split
  all_goals first | rfl | (dsimp only; split <;> rfl)

theorem sendBase_server_accept {s s1 : Sess} {m : Msg} (hr : s.role = .server) (hu : m.op.isUnbind = false)
    (h : sendBase s m = (s1, true)) : s1.outstanding.contains m.id = true := by
  unfold sendBase at h
  simp only [hr, hu] at h
  repeat' split at h
  all_goals simp at h
  all_goals (obtain ⟨rfl⟩ := h; simp_all)

theorem server_send_eq (regs : Regs) (st : St) (m : Msg) (h : m.op.isUnbind = false) :
    LDAPServer_send st m = sendRes st.version m.id (serverSend (absS .server regs st) m) := by
  unfold LDAPServer_send
  rw [server_base_send_eq regs]
  unfold serverSend sendRes
  rcases hsb : sendBase (absS .server regs st) m with ⟨s1, ok⟩
  cases ok
  · simp
  · have hc := sendBase_server_accept (by rfl) h hsb
    rcases m with ⟨i, op, cs⟩
    cases op <;> simp_all [isInstance, classOf, setRemove, Res.lift, concS, setErase, Op.isUnbind]

/-- `LDAPServer._send` of the UnbindRequest (what `unbind` hands over): nothing is removed -/
theorem server_send_unbind (regs : Regs) (st : St) (m : Msg) (h : m.op.isUnbind = true) :
    LDAPServer_send st m = sendRes st.version m.id (sendBase (absS .server regs st) m) := by
  unfold LDAPServer_send
  rw [server_base_send_eq regs]
  unfold sendRes
  rcases m with ⟨i, op, cs⟩
  cases op <;> simp_all [Op.isUnbind]
  cases (sendBase (absS .server regs st) ⟨i, .unbind, cs⟩).2 <;> simp [isInstance, classOf]

end Verif.Proofs.SessionGen
