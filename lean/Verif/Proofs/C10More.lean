/-
Proofs for Props/C10More.lean: acceptance theorems (C08/C10) and the ghost characterisation
of a server's outstanding requests.  Built on the case summaries of Proofs/SessionStep.lean.
-/
import Verif.Spec.C10More
import Verif.Proofs.Session

namespace Verif.Proofs.C10More
open Verif Verif.Proofs Verif.C10More
set_option linter.unusedSimpArgs false
set_option linter.unusedVariables false

/-! ### call kinds: the spec-level classifiers agree with the ones of the step summaries -/

theorem isClientReq_eq (c : Call) : isClientReq c = isRequestCall c := by
  cases c <;> rfl

theorem isBindCall_eq (c : Call) : isBindCall c = isBindRequest c := by
  cases c <;> rfl

theorem isFinalCall_eq (c : Call) : isFinalCall c = isFinalResponse c := by
  cases c <;> rfl

theorem isResponseCall_iff (c : Call) : isResponseCall c = true ↔ ∃ id, c.respId = some id := by
  cases c <;> simp [isResponseCall, Call.respId]

/-- the binding gate of `_send`, seen from the response call -/
theorem allowed_resp (s : Sess) (c : Call) (m : Msg) (id : Int) (hid : c.respId = some id)
    (hm : msgOf s c = some m) : allowedWhileBinding m.op = responseAllowedWhileBinding c := by
  cases c <;> simp [Call.respId] at hid <;> simp [msgOf] at hm <;> subst hm
  case bindResponse => rfl
  case extendedResponse id' name value code mdn diag controls =>
    cases name <;> simp [allowedWhileBinding, Op.isNotice, responseAllowedWhileBinding, isNoticeCall]
  all_goals rfl

/-- the binding gate of `_send`, seen from the request call -/
theorem allowed_req (s : Sess) (c : Call) (m : Msg) (hc : isClientReq c = true)
    (hm : msgOf s c = some m) : allowedWhileBinding m.op = requestAllowedWhileBinding c := by
  cases c <;> simp [isClientReq] at hc <;> simp [msgOf] at hm <;> subst hm <;> rfl

/-! ### 1. server responses -/

theorem response_accepted_iff (s : Sess) (c : Call) (id : Int) (hrole : s.role = .server)
    (hid : c.respId = some id) :
    (step s c).2.accepted = true ↔
      s.state ≠ .closed ∧ (s.state = .binding → responseAllowedWhileBinding c = true) ∧
        id ∈ s.outstanding := by
  obtain ⟨m, hm, _, _, h⟩ := step_serverResp s c id hid hrole
  have hal := allowed_resp s c m id hid hm
  rcases h with ⟨h, h'⟩ | ⟨h, h1, h2, h3⟩ | ⟨h1, h2, h3, h⟩
  · constructor
    · intro ha; simp [h, Outcome.accepted] at ha
    · rintro ⟨a, b, _⟩
      rcases h' with h' | ⟨h', h''⟩
      · exact absurd h' a
      · rw [hal, b h'] at h''; simp at h''
  · constructor
    · intro ha; simp [h, Outcome.accepted] at ha
    · rintro ⟨_, _, d⟩; exact absurd d h3
  · constructor
    · intro _; exact ⟨h1, fun hb => hal ▸ h2 hb, h3⟩
    · intro _; simp [h, Outcome.accepted]

theorem response_accepted_effect (s : Sess) (c : Call) (id : Int) (hrole : s.role = .server)
    (hid : c.respId = some id) (ha : (step s c).2.accepted = true) :
    (step s c).2 = .sent id ∧
    ∃ m, msgOf s c = some m ∧ m.id = id ∧ (step s c).1.out = s.out ++ encMsg m ∧
      (∀ i, i ∈ (step s c).1.outstanding ↔
        i ∈ s.outstanding ∧ ¬(isFinalResponse c = true ∧ i = id)) := by
  obtain ⟨m, hm, hmid, _, h⟩ := step_serverResp s c id hid hrole
  rcases h with ⟨h, h'⟩ | ⟨h, h1, h2, h3⟩ | ⟨h1, h2, h3, h⟩
  · simp [h, Outcome.accepted] at ha
  · simp [h, Outcome.accepted] at ha
  · refine ⟨by simp [h], m, hm, hmid, by simp [h], ?_⟩
    intro i
    rw [h, isFinalCall_eq]
    by_cases hf : isFinalResponse c = true
    · simp [hf, mem_setErase]
    · simp [hf]

theorem response_refused_effect (s : Sess) (c : Call) (id : Int) (hrole : s.role = .server)
    (hid : c.respId = some id) (ha : (step s c).2.accepted = false) :
    (step s c).2 = .ldapError ∧
    (step s c).1 =
      { s with state := if s.state = .beforeOpen then .opened else s.state } := by
  obtain ⟨m, hm, hmid, _, h⟩ := step_serverResp s c id hid hrole
  rcases h with ⟨h, h'⟩ | ⟨h, h1, h2, h3⟩ | ⟨h1, h2, h3, h⟩
  · refine ⟨by simp [h], ?_⟩
    rw [h]
    rcases h' with h' | ⟨h', _⟩ <;> (cases s; simp_all)
  · refine ⟨by simp [h], ?_⟩
    rw [h, openUp_eq, openUp_state]
  · simp [h, Outcome.accepted] at ha

/-! ### 2. client requests and unbind -/

theorem client_call_accepted_iff (s : Sess) (c : Call) (hrole : s.role = .client)
    (hc : isRequestCall c = true) :
    (step s c).2.accepted = true ↔
      s.state ≠ .closed ∧ (s.state = .binding → isBindRequest c = true) ∧
        (isBindRequest c = true → s.outstanding = []) := by
  have hc' : isClientReq c = true := by rw [isClientReq_eq]; exact hc
  obtain ⟨m, hm, _, h⟩ := step_clientReq s c hc' hrole
  have hal := allowed_req s c m hc' hm
  simp only [requestAllowedWhileBinding] at hal
  rw [isBindCall_eq] at h
  rcases h with ⟨h, h'⟩ | ⟨h1, h2, h3, h⟩
  · constructor
    · intro ha; simp [h, Outcome.accepted] at ha
    · rintro ⟨a, b, d⟩
      rcases h' with h' | ⟨h', h''⟩ | ⟨h', h''⟩
      · exact absurd h' a
      · rw [hal, b h'] at h''; simp at h''
      · exact absurd (d h') h''
  · constructor
    · intro _; exact ⟨h1, fun hb => hal ▸ h2 hb, h3⟩
    · intro _; simp [h, Outcome.accepted]

theorem client_request_accepted (s : Sess) (c : Call) (hrole : s.role = .client)
    (hc : isRequestCall c = true) (hs : s.state ≠ .closed)
    (hb : s.state = .binding → isBindRequest c = true)
    (ho : isBindRequest c = true → s.outstanding = []) :
    (step s c).2 = .sent s.counter ∧
    (step s c).1.counter = s.counter + 1 ∧
    (∀ i, i ∈ (step s c).1.outstanding ↔ i = s.counter ∨ i ∈ s.outstanding) ∧
    (step s c).1.state = (if isBindRequest c then .binding
                          else if s.state = .beforeOpen then .opened else s.state) ∧
    ∃ m, msgOf s c = some m ∧ m.id = s.counter ∧ (step s c).1.out = s.out ++ encMsg m := by
  have hc' : isClientReq c = true := by rw [isClientReq_eq]; exact hc
  have hacc := (client_call_accepted_iff s c hrole hc).2 ⟨hs, hb, ho⟩
  obtain ⟨m, hm, hmid, h⟩ := step_clientReq s c hc' hrole
  rw [isBindCall_eq] at h
  rcases h with ⟨h, h'⟩ | ⟨h1, h2, h3, h⟩
  · simp [h, Outcome.accepted] at hacc
  · refine ⟨by simp [h], by simp [h], ?_, ?_, m, hm, hmid, by simp [h]⟩
    · intro i; rw [h]; exact mem_setInsert
    · rw [h, openUp_state]

theorem client_request_refused (s : Sess) (c : Call) (hrole : s.role = .client)
    (hc : isRequestCall c = true) (ha : (step s c).2.accepted = false) :
    step s c = (s, .ldapError) := by
  have hc' : isClientReq c = true := by rw [isClientReq_eq]; exact hc
  obtain ⟨m, hm, hmid, h⟩ := step_clientReq s c hc' hrole
  rcases h with ⟨h, h'⟩ | ⟨h1, h2, h3, h⟩
  · exact h
  · simp [h, Outcome.accepted] at ha

theorem client_bind_accepted (s : Sess) (dn : Bytes) (cred : Cred) (cs : List Control)
    (hrole : s.role = .client) (hs : s.state ≠ .closed) (ho : s.outstanding = []) :
    (step s (.bind dn cred cs)).2 = .sent s.counter ∧ (step s (.bind dn cred cs)).1.state = .binding := by
  have h := client_request_accepted s (.bind dn cred cs) hrole rfl hs (fun _ => rfl) (fun _ => ho)
  exact ⟨h.1, by simpa [isBindRequest] using h.2.2.2.1⟩

theorem unbind_accepted_iff (s : Sess) :
    (step s .unbind).2.accepted = true ↔ s.state ≠ .closed := by
  rcases step_unbind s with ⟨h, h'⟩ | ⟨h, h'⟩
  · simp [h, h', Outcome.accepted]
  · simp [h, h', Outcome.accepted]

theorem unbind_accepted_effect (s : Sess) (hs : s.state ≠ .closed) :
    (step s .unbind).2 = .unit ∧ (step s .unbind).1.state = .closed ∧
      (step s .unbind).1.out = s.out ++ encMsg ⟨0, .unbind, []⟩ ∧ (step s .unbind).1.outstanding = [] := by
  rcases step_unbind s with ⟨h, h'⟩ | ⟨h, h'⟩
  · exact absurd h' hs
  · simp [h, unbindMsg]

theorem send_wrong_role (s : Sess) (c : Call)
    (h : (isRequestCall c = true ∧ s.role = .server) ∨ (isResponseCall c = true ∧ s.role = .client)) :
    step s c = (s, .notApplicable) := by
  rcases h with ⟨hc, hr⟩ | ⟨hc, hr⟩
  · exact step_clientReq_wrong_role s c (by rw [isClientReq_eq]; exact hc) hr
  · obtain ⟨id, hid⟩ := (isResponseCall_iff c).1 hc
    exact step_serverResp_wrong_role s c (by simp [hid]) hr

/-! ### 3. history-level characterisation of a server's outstanding set -/

theorem opens_of_isRequest {op : Op} (h : op.isRequest = true) (hu : op.isUnbind = false) :
    opensOperation op = true := by
  cases op <;> simp_all [Op.isRequest, Op.isUnbind, opensOperation, opTag, Facts.requestOps,
    Facts.opBindRequest, Facts.opBindResponse, Facts.opUnbindRequest, Facts.opSearchRequest,
    Facts.opSearchResultEntry, Facts.opSearchResultDone, Facts.opSearchResultReference,
    Facts.opExtendedRequest, Facts.opExtendedResponse]

/-- what an accepted delivery does to a server's outstanding set -/
theorem processLoop_server_outstanding (ms : List Msg) : ∀ s s2 : Sess, s.role = .server →
    processLoop s ms = .ok s2 →
    ∀ i, i ∈ s2.outstanding ↔ i ∈ s.outstanding ∨ ∃ m ∈ ms, m.id = i ∧ opensOperation m.op = true := by
  induction ms with
  | nil =>
    intro s s2 _ h i
    simp only [processLoop, ProcResult.ok.injEq] at h
    subst h
    simp
  | cons m ms ih =>
    intro s s2 hr h i
    rw [processLoop_cons] at h
    by_cases hn : m.op.isNotice = true
    · simp [hn] at h
    by_cases hu : m.op.isUnbind = true
    · simp [hn, hu] at h
    simp only [hn, hu, hr, if_false, Bool.false_eq_true] at h
    cases hsp : serverProcess s m with
    | none => simp [hsp] at h
    | some s1 =>
      simp only [hsp] at h
      have hr1 : s1.role = .server := (serverProcess_frame hsp).1.trans hr
      have := ih s1 s2 hr1 h i
      rw [this]
      rw [serverProcess_eq] at hsp
      split at hsp
      next hcnd =>
        simp only [Option.some.injEq] at hsp
        have ho : s1.outstanding = setInsert m.id s.outstanding := by rw [← hsp]
        have hop := opens_of_isRequest hcnd.1 (by simpa using hu)
        rw [ho, mem_setInsert]
        constructor
        · rintro ((rfl | h1) | ⟨m', hm', h2⟩)
          · exact Or.inr ⟨m, by simp, rfl, hop⟩
          · exact Or.inl h1
          · exact Or.inr ⟨m', by simp [hm'], h2⟩
        · rintro (h1 | ⟨m', hm', h2, h3⟩)
          · exact Or.inl (Or.inr h1)
          · rcases List.mem_cons.1 hm' with rfl | hm''
            · exact Or.inl (Or.inl h2.symm)
            · exact Or.inr ⟨m', hm'', h2, h3⟩
      next => simp at hsp

/-! #### facts about single observations -/

theorem not_delivers_of_not_msgs {c : Call} {o : Outcome} (h : ∀ ms, o ≠ .msgs ms) (i : Int) :
    ¬Delivers (c, o) i := by
  rintro ⟨chunk, ms, he, _⟩
  simp only [Prod.mk.injEq] at he
  exact h ms he.2

theorem not_retires_of_refused {c : Call} {o : Outcome} (h : o.accepted = false) (i : Int) :
    ¬Retires (c, o) i := by
  rintro ⟨_, _, ha⟩
  simp [h] at ha

theorem not_retires_of_no_id {c : Call} {o : Outcome} (h : c.respId = none) (i : Int) :
    ¬Retires (c, o) i := by
  rintro ⟨_, hi, _⟩
  simp [h] at hi

theorem retires_iff {c : Call} {id : Int} (hid : c.respId = some id) (i : Int) :
    Retires (c, Outcome.sent id) i ↔ isFinalResponse c = true ∧ i = id := by
  unfold Retires
  simp only [hid, Outcome.accepted, Option.some.injEq, and_true]
  constructor <;> rintro ⟨a, b⟩ <;> exact ⟨a, b.symm⟩

theorem inert_obs (c : Call) (o : Outcome) (hd : ∀ ms, o ≠ .msgs ms)
    (hr : o.accepted = false ∨ c.respId = none) (i : Int) :
    ¬Delivers (c, o) i ∧ ¬Retires (c, o) i := by
  refine ⟨not_delivers_of_not_msgs hd i, ?_⟩
  rcases hr with hr | hr
  · exact not_retires_of_refused hr i
  · exact not_retires_of_no_id hr i

theorem step_drain_shape (s : Sess) (a : Option Int) :
    ∃ b, (step s (.drain a)).2 = .bytes b ∧ (step s (.drain a)).1.state = s.state ∧
      (step s (.drain a)).1.outstanding = s.outstanding := ⟨_, rfl, rfl, rfl⟩

theorem step_register_shape (s : Sess) (k : RegKind) :
    ((step s (.register k)).2 = .unit ∨ (step s (.register k)).2 = .valueError) ∧
      (step s (.register k)).1.state = s.state ∧
      (step s (.register k)).1.outstanding = s.outstanding := by
  cases k <;> simp only [step] <;> split <;> simp

/-- one call on a closed server session changes nothing that matters -/
theorem closed_step (s : Sess) (c : Call) (hrole : s.role = .server) (hs : s.state = .closed) :
    (step s c).1.state = .closed ∧ (step s c).1.outstanding = s.outstanding ∧
      ∀ i, ¬Delivers (c, (step s c).2) i ∧ ¬Retires (c, (step s c).2) i := by
  by_cases hsend : c.isSend = true
  · rcases isSend_cases c hsend with rfl | hc | hc
    · rcases step_unbind s with ⟨h, _⟩ | ⟨h, h'⟩
      · rw [h]
        exact ⟨hs, rfl, fun i => ⟨not_delivers_of_not_msgs (by simp) i, not_retires_of_refused rfl i⟩⟩
      · exact absurd hs h'
    · rw [step_clientReq_wrong_role s c hc hrole]
      exact ⟨hs, rfl, fun i => ⟨not_delivers_of_not_msgs (by simp) i, not_retires_of_refused rfl i⟩⟩
    · obtain ⟨id, hid⟩ := Option.isSome_iff_exists.1 hc
      obtain ⟨m, _, _, _, ⟨h, _⟩ | ⟨h, h1, _⟩ | ⟨h1, _⟩⟩ := step_serverResp s c id hid hrole
      · rw [h]
        exact ⟨hs, rfl, fun i => ⟨not_delivers_of_not_msgs (by simp) i, not_retires_of_refused rfl i⟩⟩
      · exact absurd hs h1
      · exact absurd hs h1
  · cases c <;> simp [Call.isSend] at hsend
    case receive chunk =>
      rcases recv_cases defaultDepth s chunk with ⟨_, h⟩ | ⟨h', _⟩ | ⟨h', _⟩
      · have h2 : step s (.receive chunk) = (s, .protocolError (notificationFor s.role false false)) := h
        rw [h2]
        exact ⟨hs, rfl, inert_obs _ _ (by simp) (Or.inl rfl)⟩
      · exact absurd hs h'
      · exact absurd hs h'
    case drain a =>
      obtain ⟨b, ho, hst, hou⟩ := step_drain_shape s a
      rw [ho, hst, hou]
      exact ⟨hs, rfl, inert_obs _ _ (by simp) (Or.inl rfl)⟩
    case register k =>
      obtain ⟨ho, hst, hou⟩ := step_register_shape s k
      rw [hst, hou]
      refine ⟨hs, rfl, ?_⟩
      rcases ho with ho | ho <;> rw [ho] <;> exact inert_obs _ _ (by simp) (Or.inr rfl)

/-- one call on a live server session: when it closes, and what happens to the
    outstanding set, in terms of the observation `(c, outcome)` only -/
theorem live_step (s : Sess) (c : Call) (hrole : s.role = .server) (hs : s.state ≠ .closed) :
    ((step s c).1.state = .closed ↔ terminates (c, (step s c).2) = true) ∧
    (abandonsAll (c, (step s c).2) = true → (step s c).1.outstanding = []) ∧
    (abandonsAll (c, (step s c).2) = false → ∀ i, i ∈ (step s c).1.outstanding ↔
        (i ∈ s.outstanding ∧ ¬Retires (c, (step s c).2) i) ∨ Delivers (c, (step s c).2) i) := by
  by_cases hsend : c.isSend = true
  · rcases isSend_cases c hsend with rfl | hc | hc
    · rcases step_unbind s with ⟨h, h'⟩ | ⟨h, _⟩
      · exact absurd h' hs
      · rw [h]
        refine ⟨by simp [terminates, acceptedUnbind, Outcome.accepted], fun _ => rfl, ?_⟩
        simp [abandonsAll, acceptedUnbind, Outcome.accepted]
    · rw [step_clientReq_wrong_role s c hc hrole]
      have hnu : acceptedUnbind (c, Outcome.notApplicable) = false := by
        cases c <;> simp [isClientReq] at hc <;> rfl
      have hnp : raisedProtocolError (c, Outcome.notApplicable) = false := by
        cases c <;> rfl
      refine ⟨by simp [terminates, hnu, hnp, Outcome.accepted, hs], by simp [abandonsAll, hnu, hnp], ?_⟩
      intro _ i
      have h1 := not_delivers_of_not_msgs (c := c) (o := .notApplicable) (by simp) i
      have h2 := not_retires_of_refused (c := c) (o := .notApplicable) rfl i
      simp [h1, h2]
    · obtain ⟨id, hid⟩ := Option.isSome_iff_exists.1 hc
      have hnu : ∀ o, acceptedUnbind (c, o) = false := by
        intro o; cases c <;> simp [Call.respId] at hid <;> rfl
      have hnp : ∀ o, raisedProtocolError (c, o) = false := by
        intro o; cases c <;> simp [Call.respId] at hid <;> rfl
      obtain ⟨m, _, _, _, ⟨h, h'⟩ | ⟨h, h1, _⟩ | ⟨h1, h2, h3, h⟩⟩ := step_serverResp s c id hid hrole
      · rw [h]
        refine ⟨by simp [terminates, hnu, hnp, Outcome.accepted, hs], by simp [abandonsAll, hnu, hnp], ?_⟩
        intro _ i
        have d := not_delivers_of_not_msgs (c := c) (o := .ldapError) (by simp) i
        have r := not_retires_of_refused (c := c) (o := .ldapError) rfl i
        simp [d, r]
      · rw [h]
        have hst : (openUp s).state ≠ .closed := by
          rw [openUp_state]; split <;> simp_all
        refine ⟨by simp [terminates, hnu, hnp, Outcome.accepted, hst],
          by simp [abandonsAll, hnu, hnp], ?_⟩
        intro _ i
        have d := not_delivers_of_not_msgs (c := c) (o := .ldapError) (by simp) i
        have r := not_retires_of_refused (c := c) (o := .ldapError) rfl i
        simp [d, r, (openUp_frame s)]
      · rw [h]
        have hst : (openUp s).state ≠ .closed := by
          rw [openUp_state]; split <;> simp_all
        refine ⟨?_, by simp [abandonsAll, hnu, hnp], ?_⟩
        · simp only [terminates, hnu, hnp, Outcome.accepted, Bool.false_or, Bool.and_true]
          cases c <;> simp [Call.respId] at hid <;> simp [respState, isNoticeCall, hst]
          case bindResponse => split <;> simp [hst]
        · intro _ i
          have d := not_delivers_of_not_msgs (c := c) (o := .sent id) (by simp) i
          rw [retires_iff hid, isFinalCall_eq]
          by_cases hf : isFinalResponse c = true
          · simp [d, hf, mem_setErase]
          · simp [d, hf]
  · cases c <;> simp [Call.isSend] at hsend
    case receive chunk =>
      have hnu : ∀ o, acceptedUnbind (Call.receive chunk, o) = false := fun _ => rfl
      have hnn : isNoticeCall (Call.receive chunk) = false := rfl
      rcases recv_cases defaultDepth s chunk with ⟨h', _⟩ | ⟨_, e, _, h⟩ | ⟨_, ms, rest, _, h⟩
      · exact absurd h' hs
      · simp only [step, h]
        exact ⟨by simp [terminates, raisedProtocolError, closeSess],
          fun _ => by simp [closeSess], by simp [abandonsAll, raisedProtocolError]⟩
      · have hs0 : ({ s with residue := rest } : Sess).state ≠ .closed := hs
        have hr0 : ({ s with residue := rest } : Sess).role = .server := hrole
        obtain ⟨p1, p2⟩ := processLoop_server ms { s with residue := rest } hr0 hs0
        rcases h with ⟨s2, hl, h⟩ | ⟨s2, u, n, hl, h⟩ | ⟨s2, hl, h⟩
        · simp only [step, h]
          have hst := (p1 s2 hl).1
          refine ⟨by simp [terminates, hnu, hnn, raisedProtocolError, hst], by
            simp [abandonsAll, hnu, raisedProtocolError], ?_⟩
          intro _ i
          rw [processLoop_server_outstanding ms _ s2 hr0 hl i]
          have r := not_retires_of_no_id (c := .receive chunk) (o := .msgs ms) rfl i
          simp only [r, not_false_eq_true, and_true]
          constructor
          · rintro (a | ⟨m, hm, h1, h2⟩)
            · exact Or.inl a
            · exact Or.inr ⟨chunk, ms, rfl, m, hm, h1, h2⟩
          · rintro (a | ⟨chunk', ms', he, m, hm, h1, h2⟩)
            · exact Or.inl a
            · simp only [Prod.mk.injEq, Call.receive.injEq, Outcome.msgs.injEq] at he
              obtain ⟨_, rfl⟩ := he
              exact Or.inr ⟨m, hm, h1, h2⟩
        · simp only [step, h]
          exact ⟨by simp [terminates, raisedProtocolError, closeSess],
            fun _ => by simp [closeSess], by simp [abandonsAll, raisedProtocolError]⟩
        · exact absurd hl (p2 s2)
    case drain a =>
      obtain ⟨b, ho, hst, hou⟩ := step_drain_shape s a
      rw [ho, hst, hou]
      refine ⟨by simp [terminates, acceptedUnbind, raisedProtocolError, isNoticeCall, hs, Outcome.accepted],
        by simp [abandonsAll, acceptedUnbind, raisedProtocolError], ?_⟩
      intro _ i
      obtain ⟨d, r⟩ := inert_obs (.drain a) (.bytes b) (by simp) (Or.inl rfl) i
      simp [d, r]
    case register k =>
      obtain ⟨ho, hst, hou⟩ := step_register_shape s k
      rw [hst, hou]
      rcases ho with ho | ho <;> rw [ho] <;>
      · refine ⟨by simp [terminates, acceptedUnbind, raisedProtocolError, isNoticeCall, hs, Outcome.accepted],
          by simp [abandonsAll, acceptedUnbind, raisedProtocolError], ?_⟩
        intro _ i
        first
          | (obtain ⟨d, r⟩ := inert_obs (.register k) .unit (by simp) (Or.inr rfl) i
             simp [d, r])
          | (obtain ⟨d, r⟩ := inert_obs (.register k) .valueError (by simp) (Or.inr rfl) i
             simp [d, r])

/-! #### structure of the history predicates -/

theorem openIn_nil (i : Int) : ¬OpenIn [] i := by
  rintro ⟨pre, e, post, h, _⟩
  cases pre <;> simp at h

theorem openIn_cons (e : Obs) (h : List Obs) (i : Int) :
    OpenIn (e :: h) i ↔ (Delivers e i ∧ ∀ e' ∈ h, ¬Retires e' i) ∨ OpenIn h i := by
  constructor
  · rintro ⟨pre, e0, post, heq, hd, hn⟩
    cases pre with
    | nil =>
      simp only [List.nil_append, List.cons.injEq] at heq
      obtain ⟨rfl, rfl⟩ := heq
      exact Or.inl ⟨hd, hn⟩
    | cons a pre' =>
      simp only [List.cons_append, List.cons.injEq] at heq
      obtain ⟨rfl, rfl⟩ := heq
      exact Or.inr ⟨pre', e0, post, rfl, hd, hn⟩
  · rintro (⟨hd, hn⟩ | ⟨pre, e0, post, rfl, hd, hn⟩)
    · exact ⟨[], e, h, rfl, hd, hn⟩
    · exact ⟨e :: pre, e0, post, rfl, hd, hn⟩

theorem abandoned_cons (e : Obs) (h : List Obs) :
    Abandoned (e :: h) ↔ if terminates e = true then abandonsAll e = true else Abandoned h := by
  unfold Abandoned
  by_cases ht : terminates e = true
  · simp [List.find?_cons, ht]
  · simp [List.find?_cons, ht]

theorem not_abandoned_nil : ¬Abandoned [] := by
  rintro ⟨e, h, _⟩
  simp at h

theorem terminates_of_abandonsAll {e : Obs} (h : abandonsAll e = true) : terminates e = true := by
  simp only [abandonsAll, Bool.or_eq_true] at h
  simp only [terminates, Bool.or_eq_true]
  exact Or.inl h

theorem observed_cons (c : Call) (cs : List Call) (o : Outcome) (os : List Outcome) :
    observed (c :: cs) (o :: os) = (c, o) :: observed cs os := rfl

theorem run_cons (s : Sess) (c : Call) (cs : List Call) :
    run s (c :: cs) = ((run (step s c).1 cs).1, (step s c).2 :: (run (step s c).1 cs).2) := rfl

/-! #### histories -/

/-- from a closed server session nothing moves, nothing is delivered, nothing is retired -/
theorem closed_run (cs : List Call) : ∀ s : Sess, s.role = .server → s.state = .closed →
    (run s cs).1.state = .closed ∧ (run s cs).1.outstanding = s.outstanding ∧
      ∀ e ∈ observed cs (run s cs).2, ∀ i, ¬Delivers e i ∧ ¬Retires e i := by
  induction cs with
  | nil => intro s _ hs; exact ⟨hs, rfl, by simp [observed, run]⟩
  | cons c cs ih =>
    intro s hr hs
    obtain ⟨a1, a2, a3⟩ := closed_step s c hr hs
    obtain ⟨b1, b2, b3⟩ := ih (step s c).1 ((step_role s c).trans hr) a1
    rw [run_cons]
    refine ⟨b1, b2.trans a2, ?_⟩
    intro e he
    simp only [observed_cons, List.mem_cons] at he
    rcases he with rfl | he
    · exact a3
    · exact b3 e he

/-- the general form of the characterisation, from any live server state -/
theorem live_run (cs : List Call) : ∀ s : Sess, s.role = .server → s.state ≠ .closed →
    ((run s cs).1.state = .closed ↔ ∃ e ∈ observed cs (run s cs).2, terminates e = true) ∧
    ∀ i, i ∈ (run s cs).1.outstanding ↔
      ((i ∈ s.outstanding ∧ ∀ e ∈ observed cs (run s cs).2, ¬Retires e i) ∨
          OpenIn (observed cs (run s cs).2) i) ∧
        ¬Abandoned (observed cs (run s cs).2) := by
  induction cs with
  | nil =>
    intro s _ hs
    refine ⟨by simp [run, observed, hs], ?_⟩
    intro i
    have h1 := openIn_nil i
    have h2 := not_abandoned_nil
    simp only [run, observed, List.zip_nil_right] at h1 h2 ⊢
    simp [h1, h2]
  | cons c cs ih =>
    intro s hr hs
    obtain ⟨l1, l2, l3⟩ := live_step s c hr hs
    have hr1 : (step s c).1.role = .server := (step_role s c).trans hr
    rw [run_cons]
    simp only [observed_cons]
    by_cases ht : terminates (c, (step s c).2) = true
    · -- the session closes here; the rest of the history acts on a closed session
      have hcl := l1.2 ht
      obtain ⟨b1, b2, b3⟩ := closed_run cs (step s c).1 hr1 hcl
      refine ⟨⟨fun _ => ⟨_, List.mem_cons_self, ht⟩, fun _ => b1⟩, ?_⟩
      intro i
      rw [b2, abandoned_cons, if_pos ht, openIn_cons]
      by_cases hab : abandonsAll (c, (step s c).2) = true
      · simp [l2 hab, hab]
      · have hab' : abandonsAll (c, (step s c).2) = false := by simpa using hab
        rw [l3 hab' i]
        have hno : ¬OpenIn (observed cs (run (step s c).1 cs).2) i := by
          rintro ⟨pre, e0, post, heq, hd, _⟩
          exact (b3 e0 (by rw [heq]; simp) i).1 hd
        have hnr : ∀ e ∈ observed cs (run (step s c).1 cs).2, ¬Retires e i := fun e he => (b3 e he i).2
        simp only [List.mem_cons, forall_eq_or_imp, hab, hno, or_false, not_false_eq_true, and_true,
          Bool.false_eq_true]
        constructor
        · rintro (⟨a, b⟩ | d)
          · exact Or.inl ⟨a, b, hnr⟩
          · exact Or.inr ⟨d, hnr⟩
        · rintro (⟨a, b, _⟩ | ⟨d, _⟩)
          · exact Or.inl ⟨a, b⟩
          · exact Or.inr d
    · have hncl : (step s c).1.state ≠ .closed := fun h => ht (l1.1 h)
      have hab' : abandonsAll (c, (step s c).2) = false := by
        cases hab : abandonsAll (c, (step s c).2) with
        | false => rfl
        | true => exact absurd (terminates_of_abandonsAll hab) ht
      obtain ⟨i1, i2⟩ := ih (step s c).1 hr1 hncl
      refine ⟨?_, ?_⟩
      · rw [i1]
        constructor
        · rintro ⟨e, he, h⟩; exact ⟨e, List.mem_cons_of_mem _ he, h⟩
        · rintro ⟨e, he, h⟩
          rcases List.mem_cons.1 he with rfl | he
          · exact absurd h ht
          · exact ⟨e, he, h⟩
      · intro i
        rw [i2 i, abandoned_cons, if_neg ht, openIn_cons, l3 hab' i]
        simp only [List.mem_cons, forall_eq_or_imp]
        constructor
        · rintro ⟨(⟨a | d, hn⟩ | ho), hna⟩
          · exact ⟨Or.inl ⟨a.1, a.2, hn⟩, hna⟩
          · exact ⟨Or.inr (Or.inl ⟨d, hn⟩), hna⟩
          · exact ⟨Or.inr (Or.inr ho), hna⟩
        · rintro ⟨(⟨a, b, hn⟩ | ⟨d, hn⟩ | ho), hna⟩
          · exact ⟨Or.inl ⟨Or.inl ⟨a, b⟩, hn⟩, hna⟩
          · exact ⟨Or.inl ⟨Or.inr d, hn⟩, hna⟩
          · exact ⟨Or.inr ho, hna⟩

theorem server_outstanding_char (cs : List Call) (i : Int) :
    i ∈ (run (Sess.init .server) cs).1.outstanding ↔
      OpenIn (observed cs (run (Sess.init .server) cs).2) i ∧
        ¬Abandoned (observed cs (run (Sess.init .server) cs).2) := by
  have h := (live_run cs (Sess.init .server) rfl (by simp [Sess.init])).2 i
  rw [h]
  simp [Sess.init]

theorem server_closed_iff_terminated (cs : List Call) :
    (run (Sess.init .server) cs).1.state = .closed ↔
      ∃ e ∈ observed cs (run (Sess.init .server) cs).2, terminates e = true :=
  (live_run cs (Sess.init .server) rfl (by simp [Sess.init])).1

theorem abandoned_terminated {h : List Obs} (ha : Abandoned h) : ∃ e ∈ h, terminates e = true := by
  obtain ⟨e, hf, _⟩ := ha
  exact ⟨e, List.mem_of_find?_eq_some hf, List.find?_some hf⟩

theorem server_outstanding_char_live (cs : List Call) (i : Int)
    (hs : (run (Sess.init .server) cs).1.state ≠ .closed) :
    i ∈ (run (Sess.init .server) cs).1.outstanding ↔
      OpenIn (observed cs (run (Sess.init .server) cs).2) i := by
  rw [server_outstanding_char]
  have : ¬Abandoned (observed cs (run (Sess.init .server) cs).2) := fun ha =>
    hs ((server_closed_iff_terminated cs).2 (abandoned_terminated ha))
  simp [this]

/-- acceptance of a response call after a history, with "outstanding" replaced by its
    history-level meaning -/
theorem response_accepted_history_iff (cs : List Call) (c : Call) (id : Int)
    (hid : c.respId = some id) :
    (step (run (Sess.init .server) cs).1 c).2.accepted = true ↔
      (run (Sess.init .server) cs).1.state ≠ .closed ∧
      ((run (Sess.init .server) cs).1.state = .binding → responseAllowedWhileBinding c = true) ∧
      OpenIn (observed cs (run (Sess.init .server) cs).2) id := by
  have hrole : (run (Sess.init .server) cs).1.role = .server := by
    have : ∀ (cs : List Call) (s : Sess), (run s cs).1.role = s.role := by
      intro cs
      induction cs with
      | nil => intro s; rfl
      | cons c cs ih => intro s; rw [run_cons]; exact (ih _).trans (step_role s c)
    exact this cs _
  rw [response_accepted_iff _ c id hrole hid]
  constructor
  · rintro ⟨a, b, d⟩
    exact ⟨a, b, (server_outstanding_char_live cs id a).1 d⟩
  · rintro ⟨a, b, d⟩
    exact ⟨a, b, (server_outstanding_char_live cs id a).2 d⟩

/-! ### the id a client hands out next, from the history -/

theorem run_role (cs : List Call) : ∀ s : Sess, (run s cs).1.role = s.role := by
  induction cs with
  | nil => intro s; rfl
  | cons c cs ih => intro s; rw [run_cons]; exact (ih _).trans (step_role s c)

/-- the counter of a client is its start value plus the number of ids handed out -/
theorem run_counter (cs : List Call) : ∀ s : Sess, s.role = .client →
    (run s cs).1.counter = s.counter + ((issuedIds s cs).length : Int) := by
  induction cs with
  | nil => intro s _; simp [run, issuedIds]
  | cons c cs ih =>
    intro s hr
    have hr1 : (step s c).1.role = .client := (step_role s c).trans hr
    rw [run_cons]
    simp only
    rw [ih _ hr1]
    by_cases hc : isClientReq c = true
    · obtain ⟨m, _, _, ⟨h, _⟩ | ⟨_, _, _, h⟩⟩ := step_clientReq s c hc hr
      · rw [issuedIds_cons_not_sent s c cs (by simp [h]), h]
      · rw [issuedIds_cons_sent s c cs s.counter hc (by rw [h]), h]
        simp only [List.length_cons]
        omega
    · have hc' : isClientReq c = false := by simpa using hc
      rw [issuedIds_cons_other s c cs hc', step_counter_other s c hr hc']

theorem client_next_id (cs : List Call) (c : Call) (hc : isRequestCall c = true)
    (ha : (step (run (Sess.init .client) cs).1 c).2.accepted = true) :
    (step (run (Sess.init .client) cs).1 c).2 =
      .sent (Facts.firstMessageId + ((issuedIds (Sess.init .client) cs).length : Int)) := by
  have hrole : (run (Sess.init .client) cs).1.role = .client := run_role cs _
  obtain ⟨a, b, d⟩ := (client_call_accepted_iff _ c hrole hc).1 ha
  rw [(client_request_accepted _ c hrole hc a b d).1, run_counter cs _ rfl]
  rfl

end Verif.Proofs.C10More
