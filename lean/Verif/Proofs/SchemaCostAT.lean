/-
C18 (schema post-processing), part 5: the SYNTAX block of `AttributeTypeDescription.from_string`
(`strip`, `re.match(NOIDLEN_MATCH, …)`, the two groups, `int(…)`, the final `strip`) and the
post-processing of the attribute type.
-/
import Verif.Proofs.SchemaCostTop

namespace Verif.Proofs.SchemaCost
open Verif Verif.Schema Verif.SchemaCost

theorem reCharge2_eq (K l : Nat) : reCharge2 K l = K * sq (l + 1) := by
  simp only [reCharge2, sq, Nat.pow_two]

theorem reCharge2_mono (K : Nat) {a b : Nat} (h : a ≤ b) : reCharge2 K a ≤ reCharge2 K b := by
  rw [reCharge2_eq, reCharge2_eq]
  exact Nat.mul_le_mul_left K (sq_mono (Nat.add_le_add_right h 1))

/-- both groups of `NOIDLEN_MATCH` are pieces of the text -/
theorem noidlenMatch_le {s v l : Str} (h : noidlenMatch s = some (v, l)) :
    v.length ≤ s.length ∧ l.length ≤ s.length := by
  unfold noidlenMatch at h
  cases hn : numericoid s with
  | none => rw [hn] at h; simp at h
  | some r =>
    rw [hn] at h
    have hr := numericoid_mono s r hn
    match r, h, hr with
    | [], h, _ => simp at h
    | c :: r1, h, hr =>
      simp only at h
      split at h
      · cases hnum : number r1 with
        | none => rw [hnum] at h; simp at h
        | some r3 =>
          rw [hnum] at h
          match r3, h with
          | [], h => simp at h
          | c2 :: r2, h =>
            simp only at h
            split at h
            · simp only [Option.some.injEq, Prod.mk.injEq] at h
              obtain ⟨rfl, rfl⟩ := h
              have := consumed_le s (c :: r1)
              have := consumed_le r1 (c2 :: r2)
              simp only [List.length_cons] at hr
              omega
            · simp at h
      · simp at h

theorem syntaxS_fst (K2 : Nat) (syn : Option Str) :
    (syntaxS K2 syn).1 =
      (match syn with
        | none => (none, none)
        | some raw =>
          if raw.isEmpty then (none, none) else
          let st := stripChars [QUOTE] raw
          match noidlenMatch st with
          | some (v, l) => (some (stripChars [QUOTE] v), some (digitsVal l))
          | none => (if st.isEmpty then none else some (stripChars [QUOTE] st), none)) := by
  cases syn with
  | none => rfl
  | some raw =>
    simp only [syntaxS]
    split
    · rfl
    · simp only [tick_fst]
      cases noidlenMatch (stripChars [QUOTE] raw) with
      | none => rfl
      | some p => obtain ⟨v, l⟩ := p; rfl

theorem syntaxS_snd_le (K2 n : Nat) (syn : Option Str) (h : glen syn ≤ n) :
    (syntaxS K2 syn).2 ≤ 4 * n + 4 + sq n + reCharge2 K2 n := by
  cases syn with
  | none => simp [syntaxS]
  | some raw =>
    simp only [glen] at h
    simp only [syntaxS]
    split
    · simp
    · simp only [tick_snd]
      have hst := stripChars_le [QUOTE] raw
      have hre := reCharge2_mono K2 (Nat.le_trans hst h)
      cases hm : noidlenMatch (stripChars [QUOTE] raw) with
      | none =>
        simp only [tick_snd, ret_snd]
        split <;> omega
      | some p =>
        obtain ⟨v, l⟩ := p
        simp only [tick_snd, ret_snd]
        have ⟨hv, hl⟩ := noidlenMatch_le hm
        have : l.length * l.length ≤ sq n := sq_mono (by omega)
        omega

theorem postATS_fst (K2 n : Nat) (g : ATGroups) : (postATS K2 n g).1 = postAT g := by
  simp only [postATS, postAT, tick_fst, parseExtsS_fst]
  cases parseExts (g.extensions.getD []) with
  | none => rfl
  | some exts => simp only [ret_fst, parseNamesS_fst, parseQdOptS_fst, syntaxS_fst]; rfl

theorem postATS_snd_le (K2 n : Nat) (g : ATGroups) (h : ATLe n g) :
    (postATS K2 n g).2 ≤ 42 * n + 22 + sq n + 21 * sq (n + 1) + reCharge2 K2 n := by
  obtain ⟨h1, h2, h3, h4, h5, h6, h7, h8, h9, h10⟩ := h
  have e : (postATS K2 n g).2 =
      (glen g.oid + glen g.name + glen g.desc + flagLen n g.obsolete + glen g.sup + glen g.equality
        + glen g.ordering + glen g.substr + glen g.syn + flagLen n g.singleValue + flagLen n g.collective
        + flagLen n g.noUserMod + glen g.usage + glen g.extensions + glen g.usage)
      + ((syntaxS K2 g.syn).2 + (parseNamesS g.name).2 + (parseQdOptS g.desc).2
        + (parseExtsS (g.extensions.getD [])).2) := by
    simp only [postATS, tick_snd]
    cases (parseExtsS (g.extensions.getD [])).1 <;> simp only [ret_snd, Nat.add_zero]
  rw [e]
  have := flagLen_le n g.obsolete
  have := flagLen_le n g.singleValue
  have := flagLen_le n g.collective
  have := flagLen_le n g.noUserMod
  have := syntaxS_snd_le K2 n g.syn h8
  have := parseNamesS_snd_le g.name
  have := parseQdOptS_snd_le g.desc
  have := exts_budget h10
  omega

end Verif.Proofs.SchemaCost
