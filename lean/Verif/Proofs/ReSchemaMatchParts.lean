/-
Tie between the schema patterns and the scanner of `Model/Schema.lean`, part 2: every shared
sub-expression (`ReSchemaBase.lean` names them) is deterministic in the sense of `Det`
(`ReSchemaMatchBase.lean`), with the corresponding scanner function of `Model/Schema.lean`.

Core Lean only.
-/
import Verif.Model.Schema
import Verif.Proofs.ReSchemaBase
import Verif.Proofs.ReSchemaMatchBase

set_option linter.unusedSimpArgs false
set_option linter.unusedVariables false

namespace Verif.Proofs.SchemaTie
open Verif Verif.Re Verif.Proofs.ReCost Verif.Proofs.Small Verif.Proofs.SchemaRe

/-! ### classes against the scanner's character tests -/

theorem inCls_single (k c : Nat) : inCls [(k, k)] c = decide (c = k) := by
  rw [Bool.eq_iff_iff]; simp [inCls]; omega

theorem inCls_space : inCls cSpace = (fun c => c == Schema.SPC) := by
  funext c; rw [Bool.eq_iff_iff]; simp [inCls, cSpace, Schema.SPC]; omega

theorem inCls_digit : inCls cDigit = Schema.isDigit := by
  funext c; rw [Bool.eq_iff_iff]; simp [inCls, cDigit, Schema.isDigit]

theorem inCls_alpha : inCls cAlpha = Schema.isAlpha := by
  funext c; rw [Bool.eq_iff_iff]; simp [inCls, cAlpha, Schema.isAlpha]

theorem inCls_anh : inCls cAnh = Schema.isKeyChar := by
  funext c; rw [Bool.eq_iff_iff]
  simp [inCls, cAnh, Schema.isKeyChar, Schema.isAlpha, Schema.isDigit, Schema.HYPHEN]
  omega

theorem inCls_xc : inCls cXC = (fun x => Schema.isAlpha x || x == Schema.HYPHEN || x == Schema.USCORE) := by
  funext c; rw [Bool.eq_iff_iff]
  simp [inCls, cXC, Schema.isAlpha, Schema.HYPHEN, Schema.USCORE]
  omega

theorem inCls_d19 (c : Nat) : inCls cD19 c = (Schema.isDigit c && decide (c ≠ 48)) := by
  rw [Bool.eq_iff_iff]; simp [inCls, cD19, Schema.isDigit]; omega

theorem clsScan_cons (ivs) (c : Nat) (r : List Nat) : clsScan ivs (c :: r) = if inCls ivs c then some r else none := rfl
theorem clsScan_nil (ivs) : clsScan ivs [] = none := rfl

theorem clsScan_single (k : Nat) (s : List Nat) :
    clsScan [(k, k)] s = match s with
      | c :: r => if c = k then some r else none
      | [] => none := by
  cases s with
  | nil => rfl
  | cons c r => simp [clsScan, inCls_single]

theorem clsScan_eq_none {ivs} {s : List Nat} (h : startsIn ivs s = false) : clsScan ivs s = none := by
  cases s with
  | nil => rfl
  | cons c r => simp at h; simp [clsScan, h]

theorem clsScan_ne_none {ivs} {s : List Nat} (h : clsScan ivs s ≠ none) : startsIn ivs s = true := by
  cases hs : startsIn ivs s with
  | true => rfl
  | false => exact absurd (clsScan_eq_none hs) h

/-! ### class repetitions -/

theorem dropWhile_suffix (p : Nat → Bool) (s : List Nat) : s.dropWhile p <:+ s := List.dropWhile_suffix p

/-- `[ivs]*` followed by something that does not start in the class -/
theorem Det.starCls (ivs) {P : List Nat → Bool} (hP : ∀ t, P t = true → startsIn ivs t = false) :
    Det (Re.star (Re.cls ivs)) P (fun s => some (s.dropWhile (inCls ivs))) := by
  refine ⟨fun s hv => ?_, fun s t h => by cases h; exact dropWhile_suffix _ _⟩
  show (runs (Re.star (Re.cls ivs)) s).filter P = [s.dropWhile (inCls ivs)].filter P
  clear hv
  induction s with
  | nil => rw [runs_star_cls_nil]; rfl
  | cons c r ih =>
    rw [runs_star_cls_cons, List.dropWhile_cons]
    cases hc : inCls ivs c with
    | true =>
      have hp : P (c :: r) = false := by
        cases hpc : P (c :: r) with
        | false => rfl
        | true => have := hP _ hpc; simp [hc] at this
      simp [hp]
      simpa using ih
    | false => simp

theorem startsIn_dropWhile (ivs) (s : List Nat) : startsIn ivs (s.dropWhile (inCls ivs)) = false := by
  induction s with
  | nil => rfl
  | cons c r ih =>
    rw [List.dropWhile_cons]
    cases hc : inCls ivs c with
    | true => simpa using ih
    | false => simp [hc]

/-! ### `WSP`, `SP` -/

theorem wsp_eq (s : List Nat) : Schema.wsp s = s.dropWhile (inCls cSpace) := by
  rw [inCls_space]; rfl

theorem wsp_det {P : List Nat → Bool} (hP : ∀ t, P t = true → S t = false) :
    Det SchemaRe.wsp P (fun s => some (Schema.wsp s)) :=
  (Det.starCls cSpace hP).congr (fun s => by rw [wsp_eq])

theorem wsp_suffix (s : List Nat) : Schema.wsp s <:+ s := by rw [wsp_eq]; exact dropWhile_suffix _ _

theorem wsp_NS (s : List Nat) : S (Schema.wsp s) = false := by rw [wsp_eq]; exact startsIn_dropWhile _ _

theorem sp1_eq (s : List Nat) : Schema.sp1 s = (clsScan cSpace s).bind (fun r => some (Schema.wsp r)) := by
  cases s with
  | nil => rfl
  | cons c r =>
    simp only [Schema.sp1, clsScan, inCls_space]
    by_cases h : c = Schema.SPC <;> simp [h]

theorem sp_det {P : List Nat → Bool} (hP : ∀ t, P t = true → S t = false) : Det SchemaRe.sp P Schema.sp1 :=
  (Det.cat_top (Det.cls cSpace top) (wsp_det hP)).congr (fun s => (sp1_eq s).symm)

theorem sp1_lt : Lt Schema.sp1 := by
  intro s t h
  rw [sp1_eq] at h
  cases hc : clsScan cSpace s with
  | none => simp [hc] at h
  | some r =>
    simp [hc] at h
    have := clsScan_lt hc
    have := (wsp_suffix r).length_le
    rw [← h]; omega

theorem sp1_NS {s t : List Nat} (h : Schema.sp1 s = some t) : S t = false := by
  rw [sp1_eq] at h
  cases hc : clsScan cSpace s with
  | none => simp [hc] at h
  | some r => simp [hc] at h; rw [← h]; exact wsp_NS r

theorem sp1_eq_none {s : List Nat} (h : S s = false) : Schema.sp1 s = none := by
  rw [sp1_eq, clsScan_eq_none h]; rfl

/-! ### literals -/

theorem lit_nil (s : List Nat) : Schema.lit [] s = some s := by simp [Schema.lit]

theorem lit_cons (c : Nat) (cs s : List Nat) :
    Schema.lit (c :: cs) s = (clsScan [(c, c)] s).bind (Schema.lit cs) := by
  cases s with
  | nil => simp [Schema.lit, clsScan]
  | cons x r =>
    simp only [Schema.lit, clsScan, inCls_single, List.isPrefixOf]
    by_cases h : x = c
    · subst h; simp [Schema.lit]
    · have : ¬ c = x := fun h' => h h'.symm
      simp [h, this]

theorem lit_suf (w : List Nat) : Suf (Schema.lit w) := by
  intro s t h
  unfold Schema.lit at h
  split at h
  · cases h; exact List.drop_suffix _ _
  · cases h

/-- a keyword followed by `z` -/
theorem kwCat_det {z : Re} {P : List Nat → Bool} {sz : Scan} (hz : Det z P sz) :
    ∀ w, Det (kwCat w z) P (fun s => (Schema.lit w s).bind sz)
  | [] => hz.congr (fun s => by rw [lit_nil]; rfl)
  | c :: cs =>
    (Det.cat_top (Det.cls [(c, c)] top) (kwCat_det hz cs)).congr (fun s => by
      rw [lit_cons]
      cases clsScan [(c, c)] s <;> rfl)

/-- a bare keyword -/
theorem kw_det (P : List Nat → Bool) : ∀ w, Det (kw w) P (Schema.lit w)
  | [] => (Det.eps P).congr (fun s => (lit_nil s).symm)
  | [c] => (Det.cls [(c, c)] P).congr (fun s => by
      rw [lit_cons]
      cases h : clsScan [(c, c)] s with
      | none => rfl
      | some t => simp [lit_nil])
  | c :: c' :: cs =>
    (Det.cat_top (Det.cls [(c, c)] top) (kw_det P (c' :: cs))).congr (fun s => by rw [lit_cons])

/-! ### NUMBER -/

theorem drop_length_takeWhile (p : Nat → Bool) (s : List Nat) : s.drop (s.takeWhile p).length = s.dropWhile p := by
  induction s with
  | nil => rfl
  | cons c r ih =>
    rw [List.takeWhile_cons, List.dropWhile_cons]
    cases p c with
    | true => simpa using ih
    | false => simp

/-- `Schema.number` by cases on the first two characters -/
def numberF : Scan
  | [] => none
  | c :: r =>
    if Schema.isDigit c then
      (if startsIn cDigit r then (if c = 48 then none else some (r.dropWhile Schema.isDigit)) else some r)
    else none

theorem number_eq (s : List Nat) : Schema.number s = numberF s := by
  cases s with
  | nil => rfl
  | cons c r =>
    unfold Schema.number numberF
    simp only [List.takeWhile_cons]
    cases hc : Schema.isDigit c with
    | false => simp
    | true =>
      cases r with
      | nil => simp
      | cons d r' =>
        simp only [List.takeWhile_cons, startsIn_cons, inCls_digit]
        cases hd : Schema.isDigit d with
        | false => simp
        | true =>
          simp only [if_true]
          by_cases h48 : c = 48
          · simp [h48]
          · simp only [h48, if_false, List.length_cons, List.drop_succ_cons, Option.some.injEq]
            rw [List.dropWhile_cons, hd]
            simp only [if_true]
            exact drop_length_takeWhile _ _

theorem number_det {P : List Nat → Bool} (hP : ∀ t, P t = true → startsIn cDigit t = false) :
    Det Small.number P Schema.number := by
  have hb := Det.cat_top (Det.cls cD19 top) (Det.cat_top (Det.cls cDigit top) (Det.starCls cDigit hP))
  have hsuf : Suf numberF := by
    intro s t h
    cases s with
    | nil => simp [numberF] at h
    | cons c r =>
      simp only [numberF] at h
      split at h
      · split at h
        · split at h
          · cases h
          · cases h; exact (dropWhile_suffix _ _).trans (List.suffix_cons _ _)
        · cases h; exact List.suffix_cons _ _
      · cases h
  refine (Det.alt_of (Det.cls cDigit P) hb hsuf (fun s => ?_)).congr (fun s => (number_eq s).symm)
  cases s with
  | nil => simp [clsScan, numberF]
  | cons c r =>
    simp only [clsScan_cons, numberF, inCls_d19, ← inCls_digit]
    cases hc : inCls cDigit c with
    | false => simp
    | true =>
      cases hr : startsIn cDigit r with
      | false =>
        have : clsScan cDigit r = none := clsScan_eq_none hr
        by_cases h48 : c = 48
        · simp [h48]
        · simp [h48, this]
      | true =>
        have hp : P r = false := by
          cases hpr : P r with
          | false => rfl
          | true => have := hP _ hpr; simp [hr] at this
        cases r with
        | nil => simp at hr
        | cons d r' =>
          simp at hr
          by_cases h48 : c = 48
          · simp [h48, hp]
          · simp [h48, hp, clsScan_cons, hr, List.dropWhile_cons]

theorem number_lt : Lt Schema.number := by
  intro s t h
  rw [number_eq] at h
  cases s with
  | nil => simp [numberF] at h
  | cons c r =>
    simp only [numberF] at h
    split at h
    · split at h
      · split at h
        · cases h
        · cases h
          have := (dropWhile_suffix Schema.isDigit r).length_le
          simp; omega
      · cases h; simp
    · cases h

theorem number_eq_none {s : List Nat} (h : startsIn cDigit s = false) : Schema.number s = none := by
  rw [number_eq]
  cases s with
  | nil => rfl
  | cons c r =>
    simp [inCls_digit] at h
    simp [numberF, h]

/-! ### NUMERICOID -/

/-- `\.NUMBER` -/
def dotStep : Scan := fun s => (clsScan cDot s).bind Schema.number

theorem dotStep_det {P : List Nat → Bool} (hP : ∀ t, P t = true → startsIn cDigit t = false) :
    Det noidDotNumber P dotStep :=
  Det.cat_top (Det.cls cDot top) (number_det hP)

theorem dotStep_lt : Lt dotStep := by
  intro s t h
  unfold dotStep at h
  cases hc : clsScan cDot s with
  | none => simp [hc] at h
  | some r =>
    simp [hc] at h
    have := clsScan_lt hc
    have := number_lt r t h
    omega

theorem dotStep_eq_none {s : List Nat} (h : startsIn cDot s = false) : dotStep s = none := by
  unfold dotStep; rw [clsScan_eq_none h]; rfl

theorem arcs_eq : ∀ n s, Schema.arcs n s = iter dotStep n s
  | 0, s => rfl
  | n+1, s => by
    cases s with
    | nil => simp [Schema.arcs, iter, dotStep, clsScan]
    | cons c r =>
      simp only [Schema.arcs, iter, dotStep, clsScan, inCls_single, Schema.DOT, cDot]
      by_cases hc : c = 46
      · simp only [hc, if_true, decide_true, Option.bind_some]
        cases hn : Schema.number r with
        | none => rfl
        | some r' => exact arcs_eq n r'
      · simp [hc]

/-- `(\.NUMBER)*` -/
theorem dotStar_det {P : List Nat → Bool} (h1 : ∀ t, P t = true → startsIn cDigit t = false)
    (h2 : ∀ t, P t = true → startsIn cDot t = false) :
    Det (Re.star noidDotNumber) P (fun s => some (iter dotStep s.length s)) := by
  refine Det.star noDigit (dotStep_det notStartsIn_self_false) dotStep_lt (fun t ht => ?_) (fun s hs => ?_)
  · have hd : startsIn cDigit t = true := by simpa [notStartsIn] using ht
    refine filter_star_of_nil (noidDotNumber_dead.fails t (digit_dot.starts t hd)) ?_
    cases hp : P t with
    | false => rfl
    | true => have := h1 t hp; simp [hd] at this
  · exact dotStep_eq_none (h2 s hs)

/-- `(\.NUMBER)+` -/
def dotPlus : Scan := fun s => (dotStep s).bind (fun u => some (iter dotStep u.length u))

theorem dotPlus_det {P : List Nat → Bool} (h1 : ∀ t, P t = true → startsIn cDigit t = false)
    (h2 : ∀ t, P t = true → startsIn cDot t = false) : Det noidDotNumbers P dotPlus := by
  refine Det.cat noDigit (dotStep_det notStartsIn_self_false) (dotStar_det h1 h2) (fun t ht => ?_)
  have hd : startsIn cDigit t = true := by simpa [notStartsIn] using ht
  refine filter_star_of_nil (noidDotNumber_dead.fails t (digit_dot.starts t hd)) ?_
  cases hp : P t with
  | false => rfl
  | true => have := h1 t hp; simp [hd] at this

theorem numericoid_eq (s : List Nat) : Schema.numericoid s = (Schema.number s).bind dotPlus := by
  unfold Schema.numericoid
  cases hn : Schema.number s with
  | none => rfl
  | some r =>
    have hlt := number_lt s r hn
    simp only [arcs_eq, Option.bind_some, dotPlus]
    exact iter_plus dotStep_lt s.length r (by omega)

theorem numericoid_det {P : List Nat → Bool} (h1 : ∀ t, P t = true → startsIn cDigit t = false)
    (h2 : ∀ t, P t = true → startsIn cDot t = false) : Det SchemaRe.numericoid P Schema.numericoid := by
  refine (Det.cat noDigit (number_det notStartsIn_self_false) (dotPlus_det h1 h2) (fun t ht => ?_)).congr
    (fun s => (numericoid_eq s).symm)
  have hd : startsIn cDigit t = true := by simpa [notStartsIn] using ht
  exact filter_nil_of_fails noidDotNumbers_dead.fails P t ht

theorem numericoid_lt : Lt Schema.numericoid := by
  intro s t h
  rw [numericoid_eq] at h
  cases hn : Schema.number s with
  | none => simp [hn] at h
  | some r =>
    have := number_lt s r hn
    have := (dotPlus_det (P := fun _ => false) (fun _ h => by simp at h) (fun _ h => by simp at h)).suf r t
      (by simpa [hn] using h)
    have := this.length_le
    omega

theorem numericoid_eq_none {s : List Nat} (h : startsIn cDigit s = false) : Schema.numericoid s = none := by
  rw [numericoid_eq, number_eq_none h]; rfl

/-! ### DESCR, OID -/

theorem descr_eq (s : List Nat) :
    Schema.descr s = (clsScan cAlpha s).bind (fun r => some (r.dropWhile (inCls cAnh))) := by
  cases s with
  | nil => rfl
  | cons c r =>
    simp only [Schema.descr, clsScan_cons, inCls_alpha, inCls_anh]
    cases Schema.isAlpha c <;> rfl

theorem descr_det {P : List Nat → Bool} (hP : ∀ t, P t = true → startsIn cAnh t = false) :
    Det SchemaRe.descr P Schema.descr :=
  (Det.cat_top (Det.cls cAlpha top) (Det.starCls cAnh hP)).congr (fun s => (descr_eq s).symm)

theorem descr_lt : Lt Schema.descr := by
  intro s t h
  rw [descr_eq] at h
  cases hc : clsScan cAlpha s with
  | none => simp [hc] at h
  | some r =>
    simp [hc] at h
    have := clsScan_lt hc
    have := (dropWhile_suffix (inCls cAnh) r).length_le
    rw [← h]; omega

theorem descr_eq_none {s : List Nat} (h : startsIn cAlpha s = false) : Schema.descr s = none := by
  rw [descr_eq, clsScan_eq_none h]; rfl

theorem descr_ne_none {s : List Nat} (h : Schema.descr s ≠ none) : startsIn cAlpha s = true := by
  cases hs : startsIn cAlpha s with
  | true => rfl
  | false => exact absurd (descr_eq_none hs) h

theorem oid_eq (s : List Nat) : Schema.oid s = (Schema.descr s).or (Schema.numericoid s) := by
  unfold Schema.oid
  cases Schema.descr s <;> rfl

theorem noKey_anh : ∀ t, noKey t = true → startsIn cAnh t = false := noKey_starts_false anh_sub_key
theorem noKey_digit : ∀ t, noKey t = true → startsIn cDigit t = false := noKey_starts_false digit_sub_key
theorem noKey_dot : ∀ t, noKey t = true → startsIn cDot t = false := noKey_starts_false dot_sub_key

theorem oid_det {P : List Nat → Bool} (hP : ∀ t, P t = true → noKey t = true) : Det SchemaRe.oid P Schema.oid := by
  refine (Det.alt (descr_det (fun t ht => noKey_anh t (hP t ht)))
    (numericoid_det (fun t ht => noKey_digit t (hP t ht)) (fun t ht => noKey_dot t (hP t ht)))
    (fun s hs => ?_)).congr (fun s => (oid_eq s).symm)
  rw [numericoid_eq_none (alpha_digit.starts s (descr_ne_none hs))]; rfl

theorem oid_lt : Lt Schema.oid := by
  intro s t h
  rw [oid_eq] at h
  cases hd : Schema.descr s with
  | none => simp [hd] at h; exact numericoid_lt s t h
  | some r => simp [hd] at h; subst h; exact descr_lt s r hd

theorem oid_eq_none {s : List Nat} (h1 : startsIn cAlpha s = false) (h2 : startsIn cDigit s = false) :
    Schema.oid s = none := by
  rw [oid_eq, descr_eq_none h1, numericoid_eq_none h2]; rfl

/-! ### OIDS -/

/-- `WSP \$ WSP OID` -/
def dolStep : Scan := fun s => (clsScan cDol (Schema.wsp s)).bind (fun r => Schema.oid (Schema.wsp r))

theorem dolStep_det : Det dolOid noKey dolStep := by
  refine (Det.cat (startsIn cDol) (wsp_det dol_space.starts)
    (Det.cat_top (Det.cls cDol top) (Det.cat NS (wsp_det notStartsIn_self_false) (oid_det (fun _ h => h))
      (filter_nil_of_fails oid_dead.fails _)))
    (filter_nil_of_fails dolTail_dead.fails _)).congr (fun s => ?_)
  simp only [dolStep, Option.bind_some]

theorem dolStep_lt : Lt dolStep := by
  intro s t h
  unfold dolStep at h
  cases hc : clsScan cDol (Schema.wsp s) with
  | none => simp [hc] at h
  | some r =>
    simp [hc] at h
    have := clsScan_lt hc
    have := (wsp_suffix s).length_le
    have := (wsp_suffix r).length_le
    have := oid_lt _ t h
    omega

theorem dollarItems_eq : ∀ n s, Schema.dollarItems n s = iter dolStep n s
  | 0, s => rfl
  | n+1, s => by
    simp only [Schema.dollarItems, iter, dolStep]
    cases hw : Schema.wsp s with
    | nil => rfl
    | cons c r =>
      simp only [clsScan_cons, cDol, inCls_single, Schema.DOLLAR]
      by_cases hc : c = 36
      · simp only [hc, if_true, decide_true, Option.bind_some]
        cases ho : Schema.oid (Schema.wsp r) with
        | none => rfl
        | some r' => exact dollarItems_eq n r'
      · simp [hc]

/-- the position reaches `)` after its leading spaces -/
abbrev PC : List Nat → Bool := pastIn cSpace cRP

theorem PC_eq (s : List Nat) : PC s = startsIn cRP (Schema.wsp s) := by rw [wsp_eq]; rfl

theorem dolStar_det : Det (Re.star dolOid) PC (fun s => some (iter dolStep s.length s)) := by
  refine Det.star noKey dolStep_det dolStep_lt (fun t ht => ?_) (fun s hs => ?_)
  · exact filter_star_of_nil (dolOid_dead.fails t ht) (pastIn_false_of key_space key_rp t ht)
  · unfold dolStep
    rw [PC_eq] at hs
    rw [clsScan_eq_none (rp_dol.starts _ hs)]; rfl

/-- `OID (WSP \$ WSP OID)*` -/
def oidListScan : Scan := fun s => (Schema.oid s).bind (fun r => some (iter dolStep r.length r))

theorem oidList_det : Det oidList PC oidListScan :=
  Det.cat noKey (oid_det (fun _ h => h)) dolStar_det
    (fun t ht => filter_star_of_nil (dolOid_dead.fails t ht) (pastIn_false_of key_space key_rp t ht))

/-- `WSP \)` -/
def closeScan : Scan := fun s => clsScan cRP (Schema.wsp s)

theorem closeP_det (P : List Nat → Bool) : Det closeP P closeScan :=
  Det.cat (startsIn cRP) (wsp_det rp_space.starts) (Det.cls cRP P) (filter_nil_of_fails (Fails.cls cRP) _)

theorem closeScan_eq (s : List Nat) :
    closeScan s = match Schema.wsp s with
      | c :: r => if c = Schema.RP then some r else none
      | [] => none := by
  unfold closeScan
  cases Schema.wsp s with
  | nil => rfl
  | cons c r =>
    simp only [clsScan_cons, cRP, inCls_single, Schema.RP]
    by_cases h : c = 41 <;> simp [h]

def oidsParenScan : Scan := fun s =>
  (clsScan cLP s).bind (fun r => (oidListScan (Schema.wsp r)).bind closeScan)

theorem oidsParen_det (P : List Nat → Bool) : Det oidsParen P oidsParenScan :=
  (Det.cat_top (Det.cls cLP top)
    (Det.cat NS (wsp_det notStartsIn_self_false) (Det.cat PC oidList_det (closeP_det P)
      (filter_nil_of_fails closeP_fails _)) (filter_nil_of_fails oidListClose_dead.fails _))).congr
    (fun s => rfl)

theorem lp_alpha : Disj cLP cAlpha := by cls_arith
theorem lp_digit : Disj cLP cDigit := by cls_arith

theorem oids_eq (s : List Nat) : Schema.oids s = (Schema.oid s).or (oidsParenScan s) := by
  cases s with
  | nil => rfl
  | cons c r =>
    simp only [Schema.oids, oidsParenScan, clsScan_cons, cLP, inCls_single, Schema.LP]
    by_cases hc : c = 40
    · subst hc
      have h0 : Schema.oid (40 :: r) = none := oid_eq_none (by rfl) (by rfl)
      simp only [if_true, decide_true, h0, Option.none_or, Option.bind_some, oidListScan]
      cases ho : Schema.oid (Schema.wsp r) with
      | none => rfl
      | some r1 =>
        have h1 := oid_lt _ r1 ho
        have h2 := (wsp_suffix r).length_le
        simp only [Option.bind_some, dollarItems_eq, closeScan_eq]
        rw [iter_fuel dolStep_lt (40 :: r).length r1.length r1 (by simp; omega) (Nat.le_refl _)]
        rfl
    · simp only [hc, if_false, decide_false, Option.bind_none, Option.or_none]
      cases Schema.oid (c :: r) <;> rfl

theorem oid_ne_none {s : List Nat} (h : Schema.oid s ≠ none) : startsIn cLP s = false := by
  cases hs : startsIn cLP s with
  | false => rfl
  | true => exact absurd (oid_eq_none (lp_alpha.starts s hs) (lp_digit.starts s hs)) h

theorem oids_det {P : List Nat → Bool} (hP : ∀ t, P t = true → noKey t = true) : Det SchemaRe.oids P Schema.oids := by
  refine (Det.alt (oid_det hP) (oidsParen_det P) (fun s hs => ?_)).congr (fun s => (oids_eq s).symm)
  unfold oidsParenScan
  rw [clsScan_eq_none (oid_ne_none hs)]; rfl

/-! ### quoted items and their lists (QDESCRS, QDSTRINGS) -/

/-- `th r` is "one quoted item, then `r`"; `core` scans the inside of the quotes -/
structure QDet (th : Re → Re) (core : Scan) : Prop where
  item : QItem th
  coreSuf : Suf core
  det : ∀ {r : Re} {P : List Nat → Bool} {sr : Scan}, Det r P sr → Fails r (startsIn cQuote) →
    Det (th r) P (fun s => (clsScan cQuote s).bind (fun t => (core t).bind sr))

/-- `'…'` -/
def itemScan (core : Scan) : Scan := fun s => (clsScan cQuote s).bind (fun t => (core t).bind (clsScan cQuote))
/-- `SP '…'` -/
def spItemStep (core : Scan) : Scan := fun s => (Schema.sp1 s).bind (itemScan core)
/-- `'…' (SP '…')* WSP` -/
def listWspScan (core : Scan) : Scan := fun s =>
  (itemScan core s).bind (fun v => some (Schema.wsp (iter (spItemStep core) v.length v)))
/-- `(list WSP)? \)` -/
def bodyScan (core : Scan) : Scan := fun s => ((listWspScan core s).or (some s)).bind (clsScan cRP)
/-- `\( WSP (list WSP)? \)` -/
def parenScan (core : Scan) : Scan := fun s => (clsScan cLP s).bind (fun r => bodyScan core (Schema.wsp r))
def valsScan (core : Scan) : Scan := fun s => (itemScan core s).or (parenScan core s)

theorem itemScan_ne_none {core : Scan} {s : List Nat} (h : itemScan core s ≠ none) : startsIn cQuote s = true := by
  apply clsScan_ne_none (ivs := cQuote)
  intro hc; apply h; unfold itemScan; rw [hc]; rfl

theorem sp1_wsp {s t : List Nat} (h : Schema.sp1 s = some t) : Schema.wsp s = t := by
  cases s with
  | nil => simp [Schema.sp1] at h
  | cons c r =>
    simp only [Schema.sp1] at h
    split at h
    · rename_i hc
      cases h
      subst hc
      rfl
    · cases h

theorem filter_wsp_of_not_PC {t : List Nat} (ht : PC t = false) : (runs SchemaRe.wsp t).filter (startsIn cRP) = [] := by
  rw [List.filter_eq_nil_iff]
  intro u hu hs
  have := pastIn_of_mem_star rp_space hu hs
  have ht' : pastIn cSpace cRP t = false := ht
  rw [ht'] at this; cases this

section
variable {th : Re → Re} {core : Scan} (h : QDet th core)
include h

theorem QDet.item_det (P : List Nat → Bool) : Det (qItem th) P (itemScan core) :=
  h.det (Det.cls cQuote P) (Fails.cls cQuote)

theorem QDet.itemSuf : Suf (itemScan core) := (h.item_det top).suf

theorem QDet.spItem_det : Det (Re.cat sp (qItem th)) top (spItemStep core) :=
  Det.cat NS (sp_det notStartsIn_self_false) (h.item_det top) (filter_nil_of_fails (qItem_dead_NS h.item).fails _)

theorem QDet.spItemStep_lt : Lt (spItemStep core) := by
  intro s t ht
  unfold spItemStep at ht
  cases hs : Schema.sp1 s with
  | none => simp [hs] at ht
  | some u =>
    simp [hs] at ht
    have := sp1_lt s u hs
    have := (h.itemSuf u t ht).length_le
    omega

theorem QDet.more_det : Det (qMore th) PC (fun s => some (iter (spItemStep core) s.length s)) := by
  refine Det.star top h.spItem_det h.spItemStep_lt (fun t ht => by simp at ht) (fun s hs => ?_)
  unfold spItemStep
  cases hsp : Schema.sp1 s with
  | none => rfl
  | some t =>
    rw [PC_eq, sp1_wsp hsp] at hs
    simp only [Option.bind_some, itemScan]
    rw [clsScan_eq_none (rp_quote.starts t hs)]; rfl

theorem QDet.listWsp_det : Det (Re.cat (qList th) SchemaRe.wsp) (startsIn cRP) (listWspScan core) := by
  refine (Det.cat PC (h.det (Det.cat_top (Det.cls cQuote top) h.more_det) qRest_dead.fails)
    (wsp_det rp_space.starts) (fun t ht => filter_wsp_of_not_PC ht)).congr (fun s => ?_)
  simp only [listWspScan, itemScan]
  cases clsScan cQuote s with
  | none => rfl
  | some t =>
    simp only [Option.bind_some]
    cases core t with
    | none => rfl
    | some u =>
      simp only [Option.bind_some]
      cases clsScan cQuote u <;> rfl

theorem QDet.body_det (P : List Nat → Bool) : Det (qBody th) P (bodyScan core) := by
  refine Det.cat (startsIn cRP) (Det.alt h.listWsp_det (Det.eps _) (fun s hs => ?_)) (Det.cls cRP P)
    (filter_nil_of_fails (Fails.cls cRP) _)
  have hq : startsIn cQuote s = true := by
    apply itemScan_ne_none (core := core)
    intro hc; apply hs; unfold listWspScan; rw [hc]; rfl
  have : startsIn cRP s = false := by
    cases hr : startsIn cRP s with
    | false => rfl
    | true => have := rp_quote.starts s hr; rw [hq] at this; cases this
  simp [this]

theorem QDet.paren_det (P : List Nat → Bool) : Det (qParen th) P (parenScan core) :=
  (Det.cat_top (Det.cls cLP top) (Det.cat NS (wsp_det notStartsIn_self_false) (h.body_det P)
    (filter_nil_of_fails (qBody_dead h.item).fails _))).congr (fun s => rfl)

theorem QDet.vals_det (P : List Nat → Bool) : Det (qVals th) P (valsScan core) := by
  refine Det.alt (h.item_det P) (h.paren_det P) (fun s hs => ?_)
  unfold parenScan
  rw [clsScan_eq_none (quote_lp.starts s (itemScan_ne_none hs))]; rfl

omit h in
theorem spItems_eq (item : Scan) : ∀ n s, Schema.spItems item n s = iter (fun s => (Schema.sp1 s).bind item) n s
  | 0, s => rfl
  | n+1, s => by
    simp only [Schema.spItems, iter]
    cases Schema.sp1 s with
    | none => rfl
    | some r =>
      simp only [Option.bind_some]
      cases item r with
      | none => rfl
      | some r' => exact spItems_eq item n r'

/-- `Schema.itemOrList` is the scanner of `'…' | \( WSP (list WSP)? \)` -/
theorem QDet.itemOrList_eq (item : Scan) (hi : ∀ s, item s = itemScan core s) (s : List Nat) :
    Schema.itemOrList item s = valsScan core s := by
  have hfun : item = itemScan core := funext hi
  subst hfun
  cases s with
  | nil => rfl
  | cons c r =>
    simp only [Schema.itemOrList, valsScan, parenScan, clsScan_cons, cLP, inCls_single, Schema.LP]
    by_cases hc : c = 40
    · subst hc
      have h0 : itemScan core (40 :: r) = none := by
        unfold itemScan; rw [clsScan_eq_none (by rfl)]; rfl
      simp only [if_true, decide_true, h0, Option.none_or, Option.bind_some, bodyScan, listWspScan]
      cases hit : itemScan core (Schema.wsp r) with
      | none =>
        simp only [Option.bind_none, Option.none_or, Option.bind_some]
        cases Schema.wsp r with
        | nil => rfl
        | cons c2 r3 =>
          simp only [clsScan_cons, cRP, inCls_single, Schema.RP]
          by_cases h2 : c2 = 41 <;> simp [h2]
      | some r' =>
        have h1 := (h.itemSuf _ r' hit).length_le
        have h2 := (wsp_suffix r).length_le
        simp only [Option.bind_some, Option.some_or, spItems_eq]
        show (match Schema.wsp (iter (spItemStep core) (40 :: r).length r') with
          | c2 :: r3 => if c2 = Schema.RP then some r3 else none
          | [] => none) = _
        rw [iter_fuel h.spItemStep_lt (40 :: r).length r'.length r' (by simp; omega) (Nat.le_refl _)]
        cases Schema.wsp (iter (spItemStep core) r'.length r') with
        | nil => rfl
        | cons c2 r3 =>
          simp only [clsScan_cons, cRP, inCls_single, Schema.RP]
          by_cases h2 : c2 = 41 <;> simp [h2]
    · simp [hc]

theorem QDet.itemOrList_det (item : Scan) (hi : ∀ s, item s = itemScan core s) (P : List Nat → Bool) :
    Det (qVals th) P (Schema.itemOrList item) :=
  (h.vals_det P).congr (fun s => (h.itemOrList_eq item hi s).symm)

end

end Verif.Proofs.SchemaTie
