/-
Layer (a) of C03: the library's TLV writer (`packTLV`) applied to a generic tree, and the proof
that the independent strict parser of `Spec/Tlv.lean` reads the tree back.  Core Lean only.
-/
import Verif.Spec.Tlv
import Verif.Proofs.BerHeader

namespace Verif.Proofs

open Verif

/-- largest content length whose length octets are still octets (`packLen` writes
    `0x80 + k` with `k` the number of base-256 digits, and `0xFF` is reserved) -/
def lenBound : Nat := 256 ^ 126

theorem lenBound_eq : lenBound = 256 ^ 126 := rfl

end Verif.Proofs

namespace Verif

mutual
/-- the library's writer applied to a tree -/
def Tlv.enc : Tlv → Bytes
  | .prim cls num c => packTLV ⟨cls, false, num⟩ c
  | .cons cls num kids => packTLV ⟨cls, true, num⟩ (Tlv.encList kids)
def Tlv.encList : List Tlv → Bytes
  | [] => []
  | t :: ts => Tlv.enc t ++ Tlv.encList ts
end

mutual
/-- trees whose identifiers fit the single-octet form (all of RFC 4511 does) -/
def Tlv.Ok : Tlv → Prop
  | .prim cls num _ => cls < 4 ∧ num < 31
  | .cons cls num kids => cls < 4 ∧ num < 31 ∧ Tlv.OkList kids
def Tlv.OkList : List Tlv → Prop
  | [] => True
  | t :: ts => Tlv.Ok t ∧ Tlv.OkList ts
end

/-- length of the contents octets of the outermost element -/
def Tlv.contentLen : Tlv → Nat
  | .prim _ _ c => c.length
  | .cons _ _ kids => (Tlv.encList kids).length

end Verif

namespace Verif.Proofs

/-! ### header -/

theorem strictBe_digits (ds rest : Bytes) (acc : Nat) (hb : IsBytes ds) :
    strictBe ds.length (ds ++ rest) acc = some (beVal 256 ds acc, rest) := by
  induction ds generalizing acc with
  | nil => simp [strictBe, beVal]
  | cons d ds ih =>
    obtain ⟨hd, hds⟩ := isBytes_cons.1 hb
    simp only [List.length_cons, List.cons_append, strictBe, hd, ↓reduceIte, beVal]
    exact ih _ hds

theorem digits256_length_pos (n : Nat) (hn : n ≠ 0) : 1 ≤ (digits256 (n + 1) n).length := by
  simp [digits256, hn]

theorem packLen_length_pos (n : Nat) : 1 ≤ (packLen n).length := by
  unfold packLen; split <;> simp

theorem packHeader_length (cls : Nat) (cons : Bool) (num n : Nat) (hn : num < 31) :
    2 ≤ (packHeader ⟨cls, cons, num⟩ n).length := by
  have := packLen_length_pos n
  simp only [packHeader, packTag, hn, ↓reduceIte, List.length_append, List.length_cons,
    List.length_nil]
  omega

theorem strictHeader_packHeader (cls : Nat) (cons : Bool) (num n : Nat) (rest : Bytes)
    (hc : cls < 4) (hnum : num < 31) (hn : n < lenBound) :
    strictHeader (packHeader ⟨cls, cons, num⟩ n ++ rest) = some (cls, cons, num, n, rest) := by
  obtain ⟨e1, e2, e3⟩ := id_decode cls cons num hc (by omega)
  have hlt : ¬ 256 ≤ cls * 64 + (if cons = true then 32 else 0) + num := by
    cases cons <;> simp <;> omega
  simp only [packHeader, packTag, hnum, ↓reduceIte, List.cons_append, List.nil_append,
    strictHeader, hlt, e1, e2, e3]
  unfold packLen
  by_cases h128 : n < 128
  · simp [h128]
  · obtain ⟨hv, hb⟩ := digits256_spec (n + 1) n (by omega)
    have hpos := digits256_length_pos n (by omega)
    have hle := digits256_length (n + 1) n 126 hn
    have hb' : IsBytes (digits256 (n + 1) n).reverse := isBytes_reverse.2 hb
    have hbe := strictBe_digits (digits256 (n + 1) n).reverse rest 0 hb'
    rw [beVal_eq_beNat, beNat_reverse, hv, List.length_reverse] at hbe
    simp only [h128, ↓reduceIte, List.cons_append, List.length_reverse]
    have a1 : ¬ (digits256 (n + 1) n).length + 128 < 128 := by omega
    have a2 : ¬ ((digits256 (n + 1) n).length + 128 = 128 ∨
        255 ≤ (digits256 (n + 1) n).length + 128) := by omega
    simp only [a1, a2, ↓reduceIte, Nat.add_sub_cancel, hbe]

/-- the converse for oversized lengths: the strict parser refuses the header -/
theorem digits256_length_ge : ∀ (fuel n k : Nat), n ≤ fuel → 256 ^ k ≤ n →
    k + 1 ≤ (digits256 fuel n).length := by
  intro fuel; induction fuel with
  | zero =>
    intro n k h hk
    have : 0 < 256 ^ k := Nat.pow_pos (by omega)
    omega
  | succ f ih =>
    intro n k h hk
    have hpos : 0 < 256 ^ k := Nat.pow_pos (by omega)
    have h0 : n ≠ 0 := by omega
    simp only [digits256, h0, ↓reduceIte, List.length_cons]
    cases k with
    | zero => omega
    | succ j =>
      rw [Nat.pow_succ] at hk
      have : 256 ^ j ≤ n / 256 := by
        generalize 256 ^ j = P at hk ⊢; omega
      have := ih (n / 256) j (by omega) this
      omega

theorem strictHeader_packHeader_huge (cls : Nat) (cons : Bool) (num n : Nat) (rest : Bytes)
    (hc : cls < 4) (hnum : num < 31) (hn : lenBound ≤ n) :
    strictHeader (packHeader ⟨cls, cons, num⟩ n ++ rest) = none := by
  obtain ⟨e1, e2, e3⟩ := id_decode cls cons num hc (by omega)
  have hlt : ¬ 256 ≤ cls * 64 + (if cons = true then 32 else 0) + num := by
    cases cons <;> simp <;> omega
  have hge := digits256_length_ge (n + 1) n 126 (by omega) hn
  have h128 : ¬ n < 128 := by
    intro h; have : (128 : Nat) ≤ lenBound := by decide
    omega
  simp only [packHeader, packTag, hnum, ↓reduceIte, List.cons_append, List.nil_append,
    strictHeader, hlt, e1, e2, e3, packLen, h128, List.length_reverse]
  have a1 : ¬ (digits256 (n + 1) n).length + 128 < 128 := by omega
  have a2 : ((digits256 (n + 1) n).length + 128 = 128 ∨
      255 ≤ (digits256 (n + 1) n).length + 128) := by omega
  simp only [a1, a2, ↓reduceIte]

/-! ### trees -/

theorem enc_length_ge : ∀ t : Tlv, t.Ok → 2 ≤ (Tlv.enc t).length
  | .prim cls num c, h => by
    have := packHeader_length cls false num c.length h.2
    simp only [Tlv.enc, packTLV, List.length_append]; omega
  | .cons cls num kids, h => by
    have := packHeader_length cls true num (Tlv.encList kids).length h.2.1
    simp only [Tlv.enc, packTLV, List.length_append]; omega

theorem contentLen_le (t : Tlv) : t.contentLen ≤ (Tlv.enc t).length := by
  cases t <;> simp only [Tlv.contentLen, Tlv.enc, packTLV, List.length_append] <;> omega

mutual
theorem strictParse_enc : ∀ (t : Tlv) (fuel : Nat) (rest : Bytes), t.Ok →
    t.contentLen < lenBound → (Tlv.enc t).length ≤ fuel →
    strictParse fuel (Tlv.enc t ++ rest) = some (t, rest)
  | .prim cls num c, fuel, rest, hok, hb, hf => by
    have h2 := enc_length_ge _ hok
    obtain ⟨f, rfl⟩ : ∃ f, fuel = f + 1 := ⟨fuel - 1, by omega⟩
    simp only [Tlv.contentLen] at hb
    have hh := strictHeader_packHeader cls false num c.length (c ++ rest) hok.1 hok.2 hb
    simp only [Tlv.enc, packTLV, List.append_assoc, strictParse, hh]
    simp
  | .cons cls num kids, fuel, rest, hok, hb, hf => by
    have h2 := enc_length_ge _ hok
    obtain ⟨f, rfl⟩ : ∃ f, fuel = f + 1 := ⟨fuel - 1, by omega⟩
    have hl := packHeader_length cls true num (Tlv.encList kids).length hok.2.1
    simp only [Tlv.enc, packTLV, List.length_append] at hf
    simp only [Tlv.contentLen] at hb
    have hh := strictHeader_packHeader cls true num (Tlv.encList kids).length
      (Tlv.encList kids ++ rest) hok.1 hok.2.1 hb
    have ih := strictParseList_enc kids f hok.2.2 (by omega) (by omega)
    simp only [Tlv.enc, packTLV, List.append_assoc, strictParse, hh]
    simp [ih]
theorem strictParseList_enc : ∀ (l : List Tlv) (fuel : Nat), Tlv.OkList l →
    (Tlv.encList l).length < lenBound → (Tlv.encList l).length + 1 ≤ fuel →
    strictParseList fuel (Tlv.encList l) = some l
  | [], fuel, _, _, _ => by
    cases fuel <;> simp [Tlv.encList, strictParseList]
  | t :: ts, fuel, hok, hb, hf => by
    have h2 := enc_length_ge t hok.1
    obtain ⟨f, rfl⟩ : ∃ f, fuel = f + 1 := ⟨fuel - 1, by omega⟩
    simp only [Tlv.encList, List.length_append] at hb hf
    have hcl := contentLen_le t
    have i1 := strictParse_enc t f (Tlv.encList ts) hok.1 (by omega) (by omega)
    have i2 := strictParseList_enc ts f hok.2 (by omega) (by omega)
    have hne : (Tlv.enc t ++ Tlv.encList ts).isEmpty = false := by
      cases h : Tlv.enc t with
      | nil => rw [h] at h2; simp at h2
      | cons => rfl
    simp only [Tlv.encList, strictParseList, hne, i1, i2]
    simp
end

theorem strictParseAll_enc (t : Tlv) (hok : t.Ok) (hb : t.contentLen < lenBound) :
    strictParseAll (Tlv.enc t) = some t := by
  have := strictParse_enc t ((Tlv.enc t).length + 1) [] hok hb (by omega)
  rw [List.append_nil] at this
  simp [strictParseAll, this]

/-- an oversized outermost element is refused -/
theorem strictParseAll_huge (cls : Nat) (cons : Bool) (num : Nat) (c : Bytes)
    (hc : cls < 4) (hnum : num < 31) (hn : lenBound ≤ c.length) :
    strictParseAll (packTLV ⟨cls, cons, num⟩ c) = none := by
  have hh := strictHeader_packHeader_huge cls cons num c.length c hc hnum hn
  simp [strictParseAll, packTLV, strictParse, hh]

/-! ### encoding of lists -/

theorem encList_append (a b : List Tlv) :
    Tlv.encList (a ++ b) = Tlv.encList a ++ Tlv.encList b := by
  induction a with
  | nil => simp [Tlv.encList]
  | cons t ts ih => simp [Tlv.encList, ih]

theorem encList_map {α} (f : α → Tlv) (l : List α) :
    Tlv.encList (l.map f) = (l.map fun x => Tlv.enc (f x)).flatten := by
  induction l with
  | nil => simp [Tlv.encList]
  | cons t ts ih => simp [Tlv.encList, ih]

theorem enc_length_mem (t : Tlv) (l : List Tlv) (h : t ∈ l) :
    (Tlv.enc t).length ≤ (Tlv.encList l).length := by
  induction l with
  | nil => cases h
  | cons x xs ih =>
    simp only [Tlv.encList, List.length_append]
    rcases List.mem_cons.1 h with rfl | h'
    · omega
    · have := ih h'; omega

theorem okList_append (a b : List Tlv) :
    Tlv.OkList (a ++ b) ↔ Tlv.OkList a ∧ Tlv.OkList b := by
  induction a with
  | nil => simp [Tlv.OkList]
  | cons t ts ih => simp [Tlv.OkList, ih, and_assoc]

theorem okList_map {α} (f : α → Tlv) (l : List α) (h : ∀ x, Tlv.Ok (f x)) :
    Tlv.OkList (l.map f) := by
  induction l with
  | nil => simp [Tlv.OkList]
  | cons t ts ih => simp [Tlv.OkList, ih, h]

theorem okList_map' {α} (f : α → Tlv) (l : List α) (h : ∀ x ∈ l, Tlv.Ok (f x)) :
    Tlv.OkList (l.map f) := by
  induction l with
  | nil => simp [Tlv.OkList]
  | cons t ts ih =>
    simp only [List.map_cons, Tlv.OkList]
    exact ⟨h t (by simp), ih fun x hx => h x (by simp [hx])⟩

end Verif.Proofs
