/-
RFC 4515 grammar vs. the parser, part 1: the lexical layer.  Attribute descriptions and OIDs
of the grammar match the library's attribute pattern; `ValEnc` texts unescape to the value
they denote; substring texts split into their components; extensible-match headers.
-/
import Verif.Spec.Rfc4515
import Verif.Proofs.FilterRoundTrip

namespace Verif.Proofs.FilterGrammar
open Verif Verif.Rfc4515 Verif.Proofs

/-! ### character classes -/

theorem keyCh_eq (c : Nat) : isKeyCh c = isKeyChar c := by
  simp [isKeyCh, isKeyChar, isLeadKeyChar, isAlpha, isDigit, cHyphen]

theorem lead_eq (c : Nat) : isLeadKeyChar c = isAlpha c := rfl

/-- the text of the options: `;opt` for each option -/
def optsText (opts : List Bytes) : Bytes := (opts.map (fun o => 59 :: o)).flatten

theorem optsText_nil : optsText [] = [] := rfl
theorem optsText_cons (o : Bytes) (os : List Bytes) : optsText (o :: os) = 59 :: (o ++ optsText os) := by
  simp [optsText]

/-- a string that is empty or starts with `c` -/
def StartsWith (c : Nat) (l : Bytes) : Prop := l = [] ∨ ∃ r, l = c :: r

theorem optsText_starts (opts : List Bytes) : StartsWith 59 (optsText opts) := by
  cases opts with
  | nil => exact Or.inl rfl
  | cons o os => exact Or.inr ⟨_, optsText_cons o os⟩

theorem dropWhile_starts {p : Nat → Bool} {c : Nat} {l : Bytes} (hc : p c = false) (h : StartsWith c l) :
    l.dropWhile p = l := by
  rcases h with rfl | ⟨r, rfl⟩
  · rfl
  · rw [List.dropWhile_cons_of_neg (by simp [hc])]

theorem optsText_length (opts : List Bytes) : opts.length ≤ (optsText opts).length := by
  induction opts with
  | nil => simp [optsText]
  | cons o os ih => rw [optsText_cons]; simp only [List.length_cons, List.length_append]; omega

theorem scanOptions_optsText (opts : List Bytes)
    (h : ∀ o ∈ opts, o ≠ [] ∧ ∀ x ∈ o, isKeyCh x = true) (fuel : Nat) (hf : opts.length ≤ fuel) :
    scanOptions fuel (optsText opts) = true := by
  induction opts generalizing fuel with
  | nil => cases fuel <;> simp [optsText, scanOptions]
  | cons o os ih =>
    obtain ⟨fuel, rfl⟩ : ∃ k, fuel = k + 1 := ⟨fuel - 1, by simp at hf; omega⟩
    have ho := h o (by simp)
    have hdrop : (o ++ optsText os).dropWhile isKeyChar = optsText os := by
      rw [List.dropWhile_append_of_pos (fun a ha => by rw [← keyCh_eq]; exact ho.2 a ha)]
      exact dropWhile_starts (by decide) (optsText_starts os)
    have hpos : 0 < o.length := List.length_pos_iff.2 ho.1
    rw [optsText_cons, scanOptions, if_pos (show (59 : Nat) = cSemi from rfl)]
    simp only [hdrop]
    rw [if_pos (by simp only [List.length_append]; omega)]
    exact ih (fun x hx => h x (List.mem_cons_of_mem _ hx)) fuel (by simp at hf; omega)

/-! ### numbers and numeric OIDs -/

theorem isNumber_cases {a : Bytes} (h : IsNumber a) :
    (∃ c, a = [c] ∧ 48 ≤ c ∧ c ≤ 57) ∨
      (∃ c r, a = c :: r ∧ r ≠ [] ∧ 49 ≤ c ∧ c ≤ 57 ∧ ∀ x ∈ r, 48 ≤ x ∧ x ≤ 57) := by
  match a, h with
  | [c], h => exact Or.inl ⟨c, rfl, h⟩
  | c :: d :: r, h => exact Or.inr ⟨c, d :: r, rfl, by simp, h⟩

theorem isNumber_ne_nil {a : Bytes} (h : IsNumber a) : a ≠ [] := by
  rintro rfl; exact h

theorem isNumber_digits {a : Bytes} (h : IsNumber a) : ∀ x ∈ a, isDigit x = true := by
  rcases isNumber_cases h with ⟨c, rfl, h1, h2⟩ | ⟨c, r, rfl, _, h1, h2, h3⟩
  · intro x hx; simp only [List.mem_singleton] at hx; subst hx; simp [isDigit, h1, h2]
  · intro x hx
    rcases List.mem_cons.1 hx with rfl | hx
    · simp [isDigit, h2]; omega
    · have := h3 x hx; simp [isDigit, this.1, this.2]

/-- a string that is empty or starts with a non-digit -/
def NoDigitHead (l : Bytes) : Prop := l = [] ∨ ∃ c r, l = c :: r ∧ isDigit c = false

theorem dropWhile_noDigit {l : Bytes} (h : NoDigitHead l) : l.dropWhile isDigit = l := by
  rcases h with rfl | ⟨c, r, rfl, hc⟩
  · rfl
  · rw [List.dropWhile_cons_of_neg (by simp [hc])]

theorem scanNumber_number {a : Bytes} (h : IsNumber a) (rest : Bytes) (hr : NoDigitHead rest) :
    scanNumber (a ++ rest) = some rest := by
  rcases isNumber_cases h with ⟨c, rfl, h1, h2⟩ | ⟨c, r, rfl, _, h1, h2, h3⟩
  · simp only [List.singleton_append, scanNumber]
    by_cases h0 : c = 48
    · rw [if_pos h0]
    · rw [if_neg h0, if_pos ⟨by omega, h2⟩, dropWhile_noDigit hr]
  · simp only [List.cons_append, scanNumber]
    rw [if_neg (by omega), if_pos ⟨h1, h2⟩,
      List.dropWhile_append_of_pos (fun x hx => by have := h3 x hx; simp [isDigit, this.1, this.2]),
      dropWhile_noDigit hr]

/-- `.arc` for each further arc -/
def arcsTail (arcs : List Bytes) : Bytes := (arcs.map (fun a => 46 :: a)).flatten

theorem arcsTail_cons (a : Bytes) (as : List Bytes) : arcsTail (a :: as) = 46 :: (a ++ arcsTail as) := by
  simp [arcsTail]

theorem joinWith_dot (a : Bytes) (as : List Bytes) : joinWith [46] (a :: as) = a ++ arcsTail as := by
  induction as generalizing a with
  | nil => simp [joinWith, arcsTail]
  | cons b bs ih => rw [joinWith_cons_cons, ih b, arcsTail_cons]; simp

theorem noDigit_of_starts {c : Nat} (hc : isDigit c = false) {l : Bytes} (h : StartsWith c l) : NoDigitHead l := by
  rcases h with rfl | ⟨r, rfl⟩
  · exact Or.inl rfl
  · exact Or.inr ⟨c, r, rfl, hc⟩

theorem noDigit_arcs_opts (arcs : List Bytes) (rest : Bytes) (hr : StartsWith 59 rest) :
    NoDigitHead (arcsTail arcs ++ rest) := by
  cases arcs with
  | nil => simpa [arcsTail] using noDigit_of_starts (by decide) hr
  | cons a as => rw [arcsTail_cons]; exact Or.inr ⟨46, _, rfl, by decide⟩

theorem scanArcs_stop (fuel : Nat) (rest : Bytes) (hr : StartsWith 59 rest) : scanArcs fuel rest = rest := by
  rcases hr with rfl | ⟨r, rfl⟩
  · cases fuel <;> rfl
  · cases fuel with
    | zero => rfl
    | succ n => rw [scanArcs, if_neg (by decide)]

theorem scanArcs_arcs (arcs : List Bytes) (h : ∀ a ∈ arcs, IsNumber a) (rest : Bytes) (hr : StartsWith 59 rest)
    (fuel : Nat) (hf : arcs.length ≤ fuel) : scanArcs fuel (arcsTail arcs ++ rest) = rest := by
  induction arcs generalizing fuel with
  | nil => simpa [arcsTail] using scanArcs_stop fuel rest hr
  | cons a as ih =>
    obtain ⟨fuel, rfl⟩ : ∃ k, fuel = k + 1 := ⟨fuel - 1, by simp at hf; omega⟩
    rw [arcsTail_cons, List.cons_append, scanArcs, if_pos (show (46 : Nat) = cDot from rfl), List.append_assoc,
      scanNumber_number (h a (by simp)) _ (noDigit_arcs_opts as rest hr)]
    exact ih (fun x hx => h x (List.mem_cons_of_mem _ hx)) fuel (by simp at hf; omega)

theorem arcsTail_length (arcs : List Bytes) : arcs.length ≤ (arcsTail arcs).length := by
  induction arcs with
  | nil => simp [arcsTail]
  | cons o os ih => rw [arcsTail_cons]; simp only [List.length_cons, List.length_append]; omega

/-! ### attribute descriptions match the library's pattern -/

theorem validAttr_descr (d : Bytes) (hd : IsDescr d) (opts : List Bytes)
    (ho : ∀ o ∈ opts, o ≠ [] ∧ ∀ x ∈ o, isKeyCh x = true) : validAttr (d ++ optsText opts) = true := by
  cases d with
  | nil => exact absurd hd id
  | cons c r =>
    have hdrop : (r ++ optsText opts).dropWhile isKeyChar = optsText opts := by
      rw [List.dropWhile_append_of_pos (fun a ha => by rw [← keyCh_eq]; exact hd.2 a ha)]
      exact dropWhile_starts (by decide) (optsText_starts opts)
    rw [List.cons_append, validAttr, if_pos (by rw [← lead_eq]; exact hd.1), hdrop]
    exact scanOptions_optsText opts ho _ (by
      have := optsText_length opts
      simp only [List.length_cons, List.length_append]; omega)

theorem validAttr_numeric (arcs : List Bytes) (ha : IsNumericOid arcs) (opts : List Bytes)
    (ho : ∀ o ∈ opts, o ≠ [] ∧ ∀ x ∈ o, isKeyCh x = true) :
    validAttr (joinWith [46] arcs ++ optsText opts) = true := by
  obtain ⟨hlen, hnum⟩ := ha
  cases arcs with
  | nil => simp at hlen
  | cons a as =>
    have hna := hnum a (by simp)
    have has : ∀ x ∈ as, IsNumber x := fun x hx => hnum x (List.mem_cons_of_mem _ hx)
    have hscan := scanNumber_number hna (arcsTail as ++ optsText opts)
      (noDigit_arcs_opts as _ (optsText_starts opts))
    rw [joinWith_dot, List.append_assoc]
    obtain ⟨c, r, rfl⟩ : ∃ c r, a = c :: r := by
      cases a with
      | nil => exact absurd rfl (isNumber_ne_nil hna)
      | cons c r => exact ⟨c, r, rfl⟩
    have hdig : isDigit c = true := isNumber_digits hna c (by simp)
    have hnal : isAlpha c = false := by
      simp only [isDigit, Bool.and_eq_true, decide_eq_true_eq] at hdig
      simp [isAlpha]; omega
    have hl1 := arcsTail_length as
    have hl2 := optsText_length opts
    rw [List.cons_append] at hscan ⊢
    rw [validAttr, hnal]
    simp only [Bool.false_eq_true, if_false, hscan]
    rw [scanArcs_arcs as has _ (optsText_starts opts) _ (by
      simp only [List.length_cons, List.length_append]; omega)]
    exact scanOptions_optsText opts ho _ (by
      simp only [List.length_cons, List.length_append]; omega)

theorem validAttr_attrDesc {a : Bytes} (h : IsAttrDesc a) : validAttr a = true := by
  obtain ⟨oid, opts, hoid, ho⟩ := h
  cases hoid with
  | descr d hd => exact validAttr_descr _ hd opts ho
  | numeric arcs ha => exact validAttr_numeric arcs ha opts ho

theorem isAttrDesc_of_oid {r : Bytes} (h : IsOid r) : IsAttrDesc r := by
  have := IsAttrDesc.mk r [] h (by simp)
  simpa using this

theorem validAttr_oid {r : Bytes} (h : IsOid r) : validAttr r = true :=
  validAttr_attrDesc (isAttrDesc_of_oid h)

/-! ### text: ASCII strings are valid UTF-8 -/

theorem validUtf8_ascii (a : Bytes) (h : ∀ c ∈ a, c < 128) : validUtf8 a = true := by
  induction a with
  | nil => rfl
  | cons c r ih =>
    have hc : c < 128 := h c (by simp)
    have := ih (fun x hx => h x (List.mem_cons_of_mem _ hx))
    unfold validUtf8
    rw [if_pos hc]; exact this

theorem isText_of_validAttr {a : Bytes} (h : validAttr a = true) : IsText a :=
  validUtf8_ascii a (fun c hc => by have := attrChar_facts (validAttr_chars h c hc); omega)

/-! ### the word `dn` -/

theorem lowerAscii_eq_100 {x : Nat} (h : lowerAscii x = 100) : x = 100 ∨ x = 68 := by
  unfold lowerAscii at h; split at h <;> omega

theorem lowerAscii_eq_110 {x : Nat} (h : lowerAscii x = 110) : x = 110 ∨ x = 78 := by
  unfold lowerAscii at h; split at h <;> omega

theorem isDnWord_iff (w : Bytes) : IsDnWord w ↔ w.map lowerAscii = [100, 110] := by
  constructor
  · rintro (rfl | rfl | rfl | rfl) <;> decide
  · intro h
    match w, h with
    | [x, y], h =>
      simp only [List.map_cons, List.map_nil, List.cons.injEq, and_true] at h
      rcases lowerAscii_eq_100 h.1 with rfl | rfl <;> rcases lowerAscii_eq_110 h.2 with rfl | rfl <;>
        simp [IsDnWord]
    | [], h => simp at h
    | [_], h => simp at h
    | _ :: _ :: _ :: _, h => simp at h

theorem dnWord_chars {w : Bytes} (h : IsDnWord w) : ∀ c ∈ w, attrChar c := by
  rcases h with rfl | rfl | rfl | rfl <;> intro c hc <;>
    simp only [List.mem_cons, List.not_mem_nil, or_false] at hc <;>
    rcases hc with rfl | rfl <;> exact Or.inl (by decide)

/-! ### `valueencoding` -/

theorem isHex_facts {h : Nat} (hh : isHex h = true) :
    h < 128 ∧ h ≠ cNewline ∧ h ≠ cRParen ∧ h ≠ cStar := by
  simp only [isHex, isDigit, Bool.or_eq_true, Bool.and_eq_true, decide_eq_true_eq] at hh
  simp only [cNewline, cRParen, cStar]
  omega

theorem valEnc_unescape {v t : Bytes} (h : ValEnc v t) : ∀ fuel, t.length < fuel → unescape fuel t = some v := by
  induction h with
  | nil => intro fuel _; cases fuel <;> rfl
  | raw b v t _ _ _ _ _ h92 _ ih =>
    intro fuel hf
    obtain ⟨fuel, rfl⟩ : ∃ k, fuel = k + 1 := ⟨fuel - 1, by omega⟩
    simp only [unescape]
    rw [if_neg (show ¬ b = cBackslash from h92), ih fuel (by simp at hf; omega)]
    rfl
  | esc h1 h2 v t hh1 hh2 _ ih =>
    intro fuel hf
    obtain ⟨fuel, rfl⟩ : ∃ k, fuel = k + 1 := ⟨fuel - 1, by omega⟩
    simp only [unescape]
    rw [if_pos (show (92 : Nat) = cBackslash from rfl)]
    rw [if_pos ⟨(isHex_facts hh1).2.1, (isHex_facts hh2).2.1, hh1, hh2⟩, ih fuel (by simp at hf; omega)]
    rfl

theorem valEnc_unescape_len {v t : Bytes} (h : ValEnc v t) : unescape (t.length + 1) t = some v :=
  valEnc_unescape h _ (Nat.lt_succ_self _)

theorem valEnc_chars {v t : Bytes} (h : ValEnc v t) : ∀ c ∈ t, c < 256 ∧ c ≠ cRParen ∧ c ≠ cStar := by
  induction h with
  | nil => intro c hc; simp at hc
  | raw b v t hlt _ _ h41 h42 _ _ ih =>
    intro c hc
    rcases List.mem_cons.1 hc with rfl | hc
    · exact ⟨hlt, h41, h42⟩
    · exact ih c hc
  | esc h1 h2 v t hh1 hh2 _ ih =>
    intro c hc
    simp only [List.mem_cons] at hc
    rcases hc with rfl | rfl | rfl | hc
    · decide
    · have := isHex_facts hh1; exact ⟨by omega, this.2.2.1, this.2.2.2⟩
    · have := isHex_facts hh2; exact ⟨by omega, this.2.2.1, this.2.2.2⟩
    · exact ih c hc

theorem valEnc_no_rparen {v t : Bytes} (h : ValEnc v t) : cRParen ∉ t :=
  fun hc => (valEnc_chars h _ hc).2.1 rfl

theorem valEnc_no_star {v t : Bytes} (h : ValEnc v t) : cStar ∉ t :=
  fun hc => (valEnc_chars h _ hc).2.2 rfl

theorem valEnc_text_ne_nil {v t : Bytes} (h : ValEnc v t) (hv : v ≠ []) : t ≠ [] := by
  cases h with
  | nil => exact absurd rfl hv
  | raw => simp
  | esc => simp

/-! ### substrings -/

/-- the `foldr` that `substringsValue` runs over the middle parts -/
def midsFold (mids : List Bytes) : Option (List Bytes) :=
  mids.foldr (fun v acc =>
    match acc with
    | none => none
    | some l => if v.isEmpty then none else (unescape (v.length + 1) v).map (· :: l)) (some [])

theorem midsFold_cons (t : Bytes) (ts : List Bytes) (v : Bytes) (vs : List Bytes) (hne : t ≠ [])
    (hu : unescape (t.length + 1) t = some v) (h : midsFold ts = some vs) :
    midsFold (t :: ts) = some (v :: vs) := by
  unfold midsFold at h ⊢
  rw [List.foldr_cons, h]
  simp [hne, hu]

/-- the `any` part splits on `*` into the component texts, whatever precedes and follows -/
theorem anyEnc_split {vs : List Bytes} {tany : Bytes} (h : AnyEnc vs tany) :
    ∃ ts : List Bytes, midsFold ts = some vs ∧ cRParen ∉ tany ∧
      ∀ pre tf : Bytes, cStar ∉ pre → cStar ∉ tf →
        splitOn cStar (pre ++ tany ++ tf) = pre :: (ts ++ [tf]) := by
  induction h with
  | nil =>
    refine ⟨[], rfl, by decide, ?_⟩
    intro pre tf hp hf
    show splitOn cStar (pre ++ [cStar] ++ tf) = _
    rw [List.append_assoc, List.singleton_append, splitOn_append cStar pre tf hp, splitOn_single cStar tf hf]
    rfl
  | cons v t vs ts' hv hvt _ ih =>
    obtain ⟨ts, hfold, hnr, hsplit⟩ := ih
    refine ⟨t :: ts, midsFold_cons t ts v vs (valEnc_text_ne_nil hvt hv) (valEnc_unescape_len hvt) hfold, ?_, ?_⟩
    · intro hc
      simp only [List.mem_append, List.mem_singleton] at hc
      rcases hc with (hc | hc) | hc
      · exact absurd hc (by decide)
      · exact valEnc_no_rparen hvt hc
      · exact hnr hc
    · intro pre tf hp hf
      have e : pre ++ ([42] ++ t ++ ts') ++ tf = pre ++ cStar :: (t ++ ts' ++ tf) := by
        simp [cStar]
      rw [e, splitOn_append cStar pre _ hp, hsplit t tf (valEnc_no_star hvt) hf]
      rfl

theorem anyEnc_head {vs : List Bytes} {tany : Bytes} (h : AnyEnc vs tany) : ∃ r, tany = cStar :: r := by
  cases h with
  | nil => exact ⟨[], rfl⟩
  | cons => exact ⟨_, rfl⟩

theorem anyEnc_single {vs : List Bytes} (h : AnyEnc vs [cStar]) : vs = [] := by
  generalize he : [cStar] = s at h
  cases h with
  | nil => rfl
  | cons v t vs ts hv hvt hts =>
    obtain ⟨r, rfl⟩ := anyEnc_head hts
    simp at he

theorem optEnc_chars {o : Option Bytes} {t : Bytes} (h : OptEnc o t) : cStar ∉ t ∧ cRParen ∉ t := by
  cases h with
  | none => simp
  | some v t _ hvt => exact ⟨valEnc_no_star hvt, valEnc_no_rparen hvt⟩

theorem optEnc_part {o : Option Bytes} {t : Bytes} (h : OptEnc o t) :
    (if t.isEmpty then some none else (unescape (t.length + 1) t).map some) = some o := by
  cases h with
  | none => rfl
  | some v t hv hvt =>
    have := valEnc_text_ne_nil hvt hv
    simp [this, valEnc_unescape_len hvt]

theorem optEnc_nil_iff {o : Option Bytes} {t : Bytes} (h : OptEnc o t) : t = [] ↔ o.isSome = false := by
  cases h with
  | none => simp
  | some v t hv hvt => simp [valEnc_text_ne_nil hvt hv]

theorem substr_value {i f : Option Bytes} {any : List Bytes} {ti tany tf : Bytes}
    (hi : OptEnc i ti) (ha : AnyEnc any tany) (hf : OptEnc f tf)
    (hsome : i.isSome = true ∨ any ≠ [] ∨ f.isSome = true) :
    substringsValue (ti ++ tany ++ tf) = some (i, any, f) ∧
      (ti ++ tany ++ tf).contains cStar = true ∧ cRParen ∉ ti ++ tany ++ tf ∧
      ti ++ tany ++ tf ≠ [cStar] := by
  obtain ⟨ts, hfold, hnr, hsplit⟩ := anyEnc_split ha
  have hs := hsplit ti tf (optEnc_chars hi).1 (optEnc_chars hf).1
  refine ⟨?_, ?_, ?_, ?_⟩
  · rw [substringsValue_of_split _ ti tf ts hs, optEnc_part hi, optEnc_part hf]
    have : List.foldr (fun v acc =>
        match acc with
        | none => none
        | some l => if v.isEmpty then none else (unescape (v.length + 1) v).map (· :: l)) (some []) ts
          = some any := hfold
    erw [this]
  · obtain ⟨r, rfl⟩ := anyEnc_head ha
    simp
  · intro hc
    simp only [List.mem_append] at hc
    rcases hc with (hc | hc) | hc
    · exact (optEnc_chars hi).2 hc
    · exact hnr hc
    · exact (optEnc_chars hf).2 hc
  · intro he
    obtain ⟨r, rfl⟩ := anyEnc_head ha
    have hti : ti = [] := by
      cases ti with
      | nil => rfl
      | cons c t => simp at he
    subst hti
    simp only [List.nil_append, List.cons_append, List.cons.injEq, true_and, List.append_eq_nil_iff] at he
    obtain ⟨rfl, rfl⟩ := he
    have h1 := (optEnc_nil_iff hi).1 rfl
    have h2 := (optEnc_nil_iff hf).1 rfl
    have h3 := anyEnc_single ha
    rcases hsome with h | h | h
    · rw [h1] at h; exact absurd h (by decide)
    · exact h h3
    · rw [h2] at h; exact absurd h (by decide)

/-! ### extensible-match headers -/

theorem extHeader_parts (header h0 dnw : Bytes) (dn : Bool) (rule : Option Bytes)
    (hsplit : splitOn cColon header = h0 :: ((if dn then [dnw] else []) ++ rule.toList))
    (h0ok : h0 = [] ∨ validAttr h0 = true)
    (hdn : dn = true → dnw.map lowerAscii = [100, 110])
    (hr : ∀ r, rule = some r → validAttr r = true ∧ (dn = false → r.map lowerAscii ≠ [100, 110])) :
    extHeader header = some (if h0.isEmpty then none else some h0, dn, rule) := by
  unfold extHeader
  rw [hsplit]
  have hok : (h0.isEmpty || validAttr h0) = true := by
    rcases h0ok with rfl | h
    · rfl
    · simp [h]
  cases dn with
  | true =>
    have := hdn rfl
    cases rule with
    | none => simp [hok, this]
    | some r => simp [hok, this, (hr r rfl).1]
  | false =>
    cases rule with
    | none => simp [hok]
    | some r =>
      have h2 := (hr r rfl).2 rfl
      simp [hok, h2, (hr r rfl).1]

end Verif.Proofs.FilterGrammar
