/-
Tie of the generated `_unpack_filter_extensible_header` and `_unpack_filter_substrings_value`
(`Verif.FilterGen`) to the hand model's `extHeader` and `substringsValue`.
-/
import Verif.Proofs.FilterGenBase

namespace Verif.Proofs.FilterGen

open Verif Verif.FilterRt Verif.FilterGen
open Verif.Proofs.FilterTotal (dnSplit extRest extHeader_eq splitOn_ne_nil)

/-! ### `_unpack_filter_extensible_header` -/

theorem unpack_filter_extensible_header_eq (header : Bytes) (off len : Int) :
    unpack_filter_extensible_header header off len = orSyntax off len (extHeader header) := by
  rw [extHeader_eq]
  unfold unpack_filter_extensible_header
  simp only [pySplit_eq]
  have hne := splitOn_ne_nil cColon header
  simp only [cColon] at hne ⊢
  cases hs : splitOn 58 header with
  | nil => exact absurd hs hne
  | cons h0 rest =>
    simp only [getItemL_zero, bind_ok, popFront]
    have hva : ∀ a : Bytes, (validAttr a = true) ∨ (validAttr a = false) := by
      intro a; cases validAttr a <;> simp
    by_cases he : h0 = []
    · subst he
      rcases rest with _ | ⟨d, r⟩
      · simp [dnSplit, extRest, orSyntax]
      · by_cases hd : d.map lowerAscii = [100, 110]
        · rcases r with _ | ⟨a, _ | ⟨b, t⟩⟩
          · simp [dnSplit, extRest, orSyntax, getItemL_zero, strLower_eq, hd]
          · rcases hva a with ha | ha <;>
              simp [dnSplit, extRest, orSyntax, getItemL_zero, strLower_eq, hd, ha]
          · rcases hva a with ha | ha <;>
              simp [dnSplit, extRest, orSyntax, getItemL_zero, strLower_eq, hd, ha]
        · rcases r with _ | ⟨b, t⟩
          · rcases hva d with ha | ha <;>
              simp [dnSplit, extRest, orSyntax, getItemL_zero, strLower_eq, hd, ha]
          · rcases hva d with ha | ha <;>
              simp [dnSplit, extRest, orSyntax, getItemL_zero, strLower_eq, hd, ha]
    · rcases hva h0 with hv | hv
      · rcases rest with _ | ⟨d, r⟩
        · simp [dnSplit, extRest, orSyntax, he, hv]
        · by_cases hd : d.map lowerAscii = [100, 110]
          · rcases r with _ | ⟨a, _ | ⟨b, t⟩⟩
            · simp [dnSplit, extRest, orSyntax, getItemL_zero, strLower_eq, hd, he, hv]
            · rcases hva a with ha | ha <;>
                simp [dnSplit, extRest, orSyntax, getItemL_zero, strLower_eq, hd, ha, he, hv]
            · rcases hva a with ha | ha <;>
                simp [dnSplit, extRest, orSyntax, getItemL_zero, strLower_eq, hd, ha, he, hv]
          · rcases r with _ | ⟨b, t⟩
            · rcases hva d with ha | ha <;>
                simp [dnSplit, extRest, orSyntax, getItemL_zero, strLower_eq, hd, ha, he, hv]
            · rcases hva d with ha | ha <;>
                simp [dnSplit, extRest, orSyntax, getItemL_zero, strLower_eq, hd, ha, he, hv]
      · simp [orSyntax, he, hv]

/-! ### `_unpack_filter_substrings_value` -/

/-- the model's fold over the middle parts -/
def midsFold (mids : List Bytes) : Option (List Bytes) :=
  mids.foldr (fun v acc =>
    match acc with
    | none => none
    | some l => if v.isEmpty then none else (unescape (v.length + 1) v).map (· :: l)) (some [])

/-- the model's treatment of the first / last part -/
def optPart (v : Bytes) : Option (Option Bytes) :=
  if v.isEmpty then some none else (unescape (v.length + 1) v).map some

theorem midsFold_cons (x : Bytes) (m : List Bytes) :
    midsFold (x :: m) = match midsFold m with
      | none => none
      | some l => if x.isEmpty then none else (unescape (x.length + 1) x).map (· :: l) := rfl

theorem substringsValue_eq (raw f y : Bytes) (t : List Bytes) (hs : splitOn cStar raw = f :: y :: t) :
    substringsValue raw =
      match optPart f, midsFold (y :: t).dropLast, optPart ((y :: t).getLast (by simp)) with
      | some f, some ms, some l => some (f, ms, l)
      | _, _, _ => none := by
  unfold substringsValue
  rw [hs]
  simp only [FilterTotal.getLast!_eq (y :: t) (by simp)]
  rfl

theorem splitOn_single_no_sep (sep : Nat) : ∀ (l x : Bytes), splitOn sep l = [x] → sep ∉ l := by
  intro l
  induction l with
  | nil => intro _ _; simp
  | cons b r ih =>
    intro x h
    simp only [splitOn] at h
    cases hs : splitOn sep r with
    | nil => exact absurd hs (splitOn_ne_nil sep r)
    | cons x' xs =>
      rw [hs] at h
      simp only at h
      by_cases hb : b = sep
      · rw [if_pos hb] at h; simp at h
      · rw [if_neg hb] at h
        simp only [List.cons.injEq] at h
        obtain ⟨_, hxs⟩ := h
        subst hxs
        have := ih x' hs
        simp only [List.mem_cons, not_or]
        exact ⟨fun e => hb e.symm, this⟩

/-- the loop on the parts after the first one -/
theorem for1_rest (off len : Int) (vs : List Bytes) :
    ∀ (rest : List Bytes) (hne : rest ≠ []) (idx : Int) (first : Option Bytes) (values : List Bytes),
      0 < idx → (vs.length : Int) = idx + rest.length →
      unpack_filter_substrings_value_for1 off len vs rest idx first none values =
        match midsFold rest.dropLast, optPart (rest.getLast hne) with
        | some ms, some l => .ok (first, l, values ++ ms)
        | _, _ => .error (.syntax off len) := by
  intro rest
  induction rest with
  | nil => intro hne; exact absurd rfl hne
  | cons x r ih =>
    intro hne idx first values hidx hlen
    have h0 : ¬ idx = 0 := by omega
    rcases r with _ | ⟨y, t⟩
    · -- the last part
      have hl : idx = FilterRt.len vs - 1 := by simp only [len_eq, List.length_cons, List.length_nil] at hlen ⊢; omega
      rw [unpack_filter_substrings_value_for1]
      simp only [if_neg h0, if_pos hl, unpack_filter_value_eq, List.dropLast_singleton, List.getLast_singleton]
      by_cases hx : x = []
      · subst hx
        simp [unpack_filter_substrings_value_for1, midsFold, optPart]
      · cases hu : unescape (x.length + 1) x <;>
          simp [unpack_filter_substrings_value_for1, midsFold, optPart, hx, hu, orSyntax]
    · -- a middle part
      have hl : ¬ idx = FilterRt.len vs - 1 := by
        simp only [len_eq, List.length_cons] at hlen ⊢; omega
      rw [unpack_filter_substrings_value_for1]
      simp only [if_neg h0, if_neg hl, unpack_filter_value_eq, List.dropLast_cons_cons, List.getLast_cons_cons,
        midsFold_cons]
      have hlen' : (vs.length : Int) = (idx + 1) + ((y :: t).length : Nat) := by
        simp only [List.length_cons] at hlen ⊢; omega
      by_cases hx : x = []
      · subst hx
        cases midsFold (y :: t).dropLast <;> simp
      · cases hu : unescape (x.length + 1) x with
        | none => cases midsFold (y :: t).dropLast <;> simp [hx, orSyntax]
        | some u =>
          have := ih (by simp) (idx + 1) first (values ++ [u]) (by omega) hlen'
          simp only [hx, ne_eq, not_false_eq_true, if_true, orSyntax, bind_ok]
          rw [this]
          cases midsFold (y :: t).dropLast with
          | none => simp
          | some ms =>
            cases optPart ((y :: t).getLast (by simp)) <;> simp [hx]

theorem unpack_filter_substrings_value_eq (raw : Bytes) (off len : Int) (h : cStar ∈ raw) :
    unpack_filter_substrings_value raw off len = orSyntax off len (substringsValue raw) := by
  unfold unpack_filter_substrings_value
  simp only [pySplit_eq]
  have hc : (42 : Nat) = cStar := rfl
  rw [hc]
  cases hs : splitOn cStar raw with
  | nil => exact absurd hs (splitOn_ne_nil cStar raw)
  | cons f rest =>
    rcases rest with _ | ⟨y, t⟩
    · exact absurd h (splitOn_single_no_sep cStar raw f hs)
    · rw [substringsValue_eq raw f y t hs, unpack_filter_substrings_value_for1]
      simp only [if_true, unpack_filter_value_eq]
      have hrest := fun first => for1_rest off len (f :: y :: t) (y :: t) (by simp) (0 + 1) first []
        (by omega) (by simp only [List.length_cons]; omega)
      generalize optPart ((y :: t).getLast (by simp)) = ol at hrest ⊢
      generalize midsFold (y :: t).dropLast = om at hrest ⊢
      by_cases hf : f = []
      · subst hf
        simp only [ne_eq, not_true_eq_false, if_false, bind_ok, hrest, optPart, List.isEmpty_nil, if_true]
        rcases om with _ | ms <;> rcases ol with _ | l <;> simp [orSyntax]
      · cases hu : unescape (f.length + 1) f with
        | none => simp [hf, orSyntax, optPart, hu]
        | some u =>
          simp only [ne_eq, hf, not_false_eq_true, if_true, orSyntax, bind_ok, hrest, optPart]
          rcases om with _ | ms <;> rcases ol with _ | l <;> simp [hf, hu]

end Verif.Proofs.FilterGen
