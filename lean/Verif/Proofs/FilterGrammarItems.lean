/-
RFC 4515 grammar vs. the parser, part 2: one parenthesised item with its decoration spaces —
the simple items through `unpackSimple`, the loops of `filterLoop` / `complexLoop`.
-/
import Verif.Proofs.FilterGrammarBase

namespace Verif.Proofs.FilterGrammar
open Verif Verif.Rfc4515 Verif.Proofs

/-! ### spaces -/

theorem length_sp (k : Nat) : (sp k).length = k := by simp [sp]

theorem sp_succ (k : Nat) : sp (k + 1) = cSpace :: sp k := by simp [sp, List.replicate_succ, cSpace]

theorem getD_sp (cur A rest : Bytes) (k j n : Nat) (hcur : cur = A ++ (sp k ++ rest)) (hn : n = A.length + j)
    (hj : j < k) : cur.getD n 0 = cSpace := by
  subst hcur hn
  simp [List.getD_eq_getElem?_getD, List.getElem?_append_right, sp, List.getElem?_append_left, hj, cSpace]

/-! ### `filterLoop` / `complexLoop` skip spaces -/

theorem filterLoop_spaces (uf : Bytes → Nat → Except FErr (Filter × Nat)) (cur : Bytes) (off : Nat)
    (p : Option Nat) (q : Option Filter) : ∀ (k fuel read : Nat),
    (∀ j, j < k → cur.getD (read + j) 0 = cSpace) → read + k ≤ cur.length →
    filterLoop uf cur off (fuel + k) ⟨read, p, q⟩ = filterLoop uf cur off fuel ⟨read + k, p, q⟩
  | 0, _, _, _, _ => rfl
  | k + 1, fuel, read, h, hl => by
    have h0 := h 0 (by omega)
    simp only [Nat.add_zero] at h0
    have ih := filterLoop_spaces uf cur off p q k fuel (read + 1)
      (fun j hj => by rw [show read + 1 + j = read + (j + 1) by omega]; exact h (j + 1) (by omega)) (by omega)
    rw [show fuel + (k + 1) = (fuel + k) + 1 by omega, filterLoop]
    simp only [h0]
    rw [if_neg (by omega), if_pos trivial, ih, show read + 1 + k = read + (k + 1) by omega]

theorem complexLoop_spaces (uf : Bytes → Nat → Except FErr (Filter × Nat)) (cur : Bytes) (off : Nat)
    (fs : List Filter) : ∀ (k fuel read : Nat),
    (∀ j, j < k → cur.getD (read + j) 0 = cSpace) → read + k ≤ cur.length →
    complexLoop uf cur off (fuel + k) read fs = complexLoop uf cur off fuel (read + k) fs
  | 0, _, _, _, _ => rfl
  | k + 1, fuel, read, h, hl => by
    have h0 := h 0 (by omega)
    simp only [Nat.add_zero] at h0
    have ih := complexLoop_spaces uf cur off fs k fuel (read + 1)
      (fun j hj => by rw [show read + 1 + j = read + (j + 1) by omega]; exact h (j + 1) (by omega)) (by omega)
    rw [show fuel + (k + 1) = (fuel + k) + 1 by omega, complexLoop]
    simp only [h0]
    rw [if_neg (by omega), if_pos trivial, ih, show read + 1 + k = read + (k + 1) by omega]

/-! ### `filterLoop` on one parenthesised item preceded by `k` spaces -/

theorem unpackFilter_paren_sp (d k : Nat) (c0 : Nat) (inner tail : Bytes)
    (off : Nat) (f : Filter) (h1 : c0 ≠ cSpace) (h2 : c0 ≠ cRParen) (h3 : c0 ≠ cLParen)
    (hitem : (if c0 = cBang ∨ c0 = cAmp ∨ c0 = cPipe
        then unpackComplex (unpackFilter d) (c0 :: inner ++ cRParen :: tail) (off + (1 + k))
        else unpackSimple (c0 :: inner ++ cRParen :: tail) (off + (1 + k))) = .ok (f, (c0 :: inner).length)) :
    unpackFilter (d + 1) (cLParen :: (sp k ++ (c0 :: inner ++ cRParen :: tail))) off =
      .ok (f, 1 + k + (c0 :: inner).length + 1) := by
  generalize hcur : cLParen :: (sp k ++ (c0 :: inner ++ cRParen :: tail)) = cur
  have hlen : cur.length = (((inner.length + tail.length) + 1 + 1) + k) + 1 := by
    rw [← hcur]; simp only [List.length_cons, List.length_append, length_sp]; omega
  have hopen : cur.getD 0 0 = cLParen := by rw [← hcur]; rfl
  have hsp : ∀ j, j < k → cur.getD (0 + 1 + j) 0 = cSpace := fun j hj =>
    getD_sp cur [cLParen] _ k j _ (by rw [← hcur]; rfl) (by simp) hj
  have hcur2 : cur = (cLParen :: sp k) ++ (c0 :: inner ++ cRParen :: tail) := by rw [← hcur]; simp
  have hread : 0 + 1 + k = (cLParen :: sp k).length := by simp [length_sp]; omega
  have hc0 : cur.getD (0 + 1 + k) 0 = c0 := by
    rw [hread, hcur2]; exact getD_pre (cLParen :: sp k) c0 (inner ++ cRParen :: tail)
  have hdrop : cur.drop (0 + 1 + k) = c0 :: inner ++ cRParen :: tail := by
    rw [hread, hcur2, List.drop_left]
  have hcur3 : cur = (cLParen :: sp k ++ c0 :: inner) ++ cRParen :: tail := by rw [← hcur]; simp
  have hread3 : 0 + 1 + k + (c0 :: inner).length = (cLParen :: sp k ++ c0 :: inner).length := by
    simp [length_sp]; omega
  have hclose : cur.getD (0 + 1 + k + (c0 :: inner).length) 0 = cRParen := by
    rw [hread3, hcur3]; exact getD_pre _ cRParen _
  have hitem' : (if c0 = cBang ∨ c0 = cAmp ∨ c0 = cPipe
        then unpackComplex (unpackFilter d) (cur.drop (0 + 1 + k)) (off + (0 + 1 + k))
        else unpackSimple (cur.drop (0 + 1 + k)) (off + (0 + 1 + k))) = .ok (f, (c0 :: inner).length) := by
    rw [hdrop, show 0 + 1 + k = 1 + k by omega]; exact hitem
  rw [unpackFilter, hlen,
    filterLoop_open _ _ _ _ 0 (by omega) hopen,
    filterLoop_spaces _ _ _ _ _ k _ (0 + 1) hsp (by omega),
    filterLoop_item _ _ _ _ (0 + 1 + k) 0 c0 f (c0 :: inner).length (by omega) hc0 h1 h2 h3 hitem',
    filterLoop_close _ _ _ _ _ _ _ (by simp only [List.length_cons]; omega) hclose]

/-! ### `simpleRest` for a value given by `ValEnc` -/

theorem simpleRest_ge' (a raw v : Bytes) (off len : Nat) (ha : validAttr a = true)
    (hu : unescape (raw.length + 1) raw = some v) :
    simpleRest (a ++ [cGt]) raw off len = .ok (.ge a v, (a ++ [cGt]).length + 1 + raw.length) := by
  have hne := validAttr_ne_nil ha
  unfold simpleRest
  simp only [getD_last, hu]
  simp [cGt, cColon, cLt, cTilde, hne, ha]

theorem simpleRest_le' (a raw v : Bytes) (off len : Nat) (ha : validAttr a = true)
    (hu : unescape (raw.length + 1) raw = some v) :
    simpleRest (a ++ [cLt]) raw off len = .ok (.le a v, (a ++ [cLt]).length + 1 + raw.length) := by
  have hne := validAttr_ne_nil ha
  unfold simpleRest
  simp only [getD_last, hu]
  simp [cGt, cColon, cLt, cTilde, hne, ha]

theorem simpleRest_approx' (a raw v : Bytes) (off len : Nat) (ha : validAttr a = true)
    (hu : unescape (raw.length + 1) raw = some v) :
    simpleRest (a ++ [cTilde]) raw off len = .ok (.approx a v, (a ++ [cTilde]).length + 1 + raw.length) := by
  have hne := validAttr_ne_nil ha
  unfold simpleRest
  simp only [getD_last, hu]
  simp [cGt, cColon, cLt, cTilde, hne, ha]

theorem simpleRest_ext' (h raw v : Bytes) (off len : Nat) (rule attr : Option Bytes) (dn : Bool) (hne : h ≠ [])
    (hh : extHeader h = some (attr, dn, rule)) (hu : unescape (raw.length + 1) raw = some v) :
    simpleRest (h ++ [cColon]) raw off len =
      .ok (.ext rule attr v dn, (h ++ [cColon]).length + 1 + raw.length) := by
  unfold simpleRest
  simp only [getD_last, hu]
  simp [hne, hh]

theorem simpleRest_eq' (a raw v : Bytes) (off len : Nat) (ha : validAttr a = true)
    (hu : unescape (raw.length + 1) raw = some v) (hns : cStar ∉ raw) :
    simpleRest a raw off len = .ok (.eq a v, a.length + 1 + raw.length) := by
  have hnt := not_typed ha
  have hns : raw.contains cStar = false := by simpa using hns
  unfold simpleRest
  simp only [hnt, false_and, if_false, List.take_length, ha, hns, hu]
  simp only [not_or] at hnt
  rw [if_neg hnt.1, if_neg hnt.2.1, if_neg hnt.2.2.1, if_neg hnt.2.2.2]
  simp

theorem simpleRest_substr' (a raw : Bytes) (i : Option Bytes) (any : List Bytes) (f : Option Bytes)
    (off len : Nat) (ha : validAttr a = true) (hsv : substringsValue raw = some (i, any, f))
    (hstar : raw.contains cStar = true) (hne : raw ≠ [cStar]) :
    simpleRest a raw off len = .ok (.substr a i any f, a.length + 1 + raw.length) := by
  have hnt := not_typed ha
  unfold simpleRest
  simp only [hnt, false_and, if_false, List.take_length, ha, hstar, hne, hsv]
  simp

/-! ### a simple item parses, with any number of spaces after the parenthesis and any tail -/

/-- the parser reads the sentence `t` (followed by anything) as `f`, consuming exactly `t` -/
def Parses (f : Filter) (t : Bytes) : Prop :=
  ∀ (d : Nat) (tail : Bytes) (off : Nat), Filter.depth f ≤ d → unpackFilter d (t ++ tail) off = .ok (f, t.length)

theorem simple_parses (f : Filter) (hdr raw : Bytes) (hdep : Filter.depth f = 1) (hne : hdr ≠ [])
    (hchars : ∀ c ∈ hdr, hdrChar c) (h2 : cRParen ∉ raw)
    (hrest : ∀ off len, simpleRest hdr raw off len = .ok (f, hdr.length + 1 + raw.length))
    (k : Nat) (t : Bytes) (ht : t = [40] ++ sp k ++ hdr ++ [61] ++ raw ++ [41]) : Parses f t := by
  intro d tail off hd
  obtain ⟨d, rfl⟩ : ∃ d', d = d' + 1 := ⟨d - 1, by omega⟩
  cases hdr with
  | nil => exact absurd rfl hne
  | cons c0 hr =>
    have hf := hdrChar_facts (hchars c0 (by simp))
    have h1 : cEq ∉ c0 :: hr := fun h => (hdrChar_facts (hchars _ h)).2.2.1 rfl
    have hshape : t ++ tail = cLParen :: (sp k ++ (c0 :: (hr ++ cEq :: raw) ++ cRParen :: tail)) := by
      subst ht; simp [cLParen, cEq, cRParen]
    have hlen : t.length = 1 + k + (c0 :: (hr ++ cEq :: raw)).length + 1 := by
      subst ht; simp [length_sp]; omega
    rw [hshape, hlen]
    apply unpackFilter_paren_sp d k c0 (hr ++ cEq :: raw) tail off f hf.2.2.2.1 hf.2.2.2.2.1 hf.2.2.2.2.2.1
    rw [if_neg (by simp [hf.2.2.2.2.2.2.1, hf.2.2.2.2.2.2.2.1, hf.2.2.2.2.2.2.2.2])]
    have e : c0 :: (hr ++ cEq :: raw) ++ cRParen :: tail = (c0 :: hr) ++ cEq :: (raw ++ cRParen :: tail) := by
      simp
    rw [e, unpackSimple_core (c0 :: hr) raw tail _ h1 hne h2, hrest]
    simp only [List.length_cons, List.length_append]
    congr 2
    omega

theorem attr_hdrChars {a : Bytes} (ha : validAttr a = true) : ∀ c ∈ a, hdrChar c := hdrChars_attr ha

theorem parses_eq (a v t : Bytes) (k : Nat) (ha : IsAttrDesc a) (hv : ValEnc v t) :
    Parses (.eq a v) ([40] ++ sp k ++ a ++ [61] ++ t ++ [41]) :=
  have hva := validAttr_attrDesc ha
  simple_parses _ a t rfl (validAttr_ne_nil hva) (hdrChars_attr hva) (valEnc_no_rparen hv)
    (fun off len => simpleRest_eq' a t v off len hva (valEnc_unescape_len hv) (valEnc_no_star hv)) k _ rfl

theorem parses_ge (a v t : Bytes) (k : Nat) (ha : IsAttrDesc a) (hv : ValEnc v t) :
    Parses (.ge a v) ([40] ++ sp k ++ a ++ [62, 61] ++ t ++ [41]) :=
  have hva := validAttr_attrDesc ha
  simple_parses _ (a ++ [cGt]) t rfl (by simp) (hdrChars_attr_op hva _ (by simp)) (valEnc_no_rparen hv)
    (fun off len => simpleRest_ge' a t v off len hva (valEnc_unescape_len hv)) k _ (by simp [cGt])

theorem parses_le (a v t : Bytes) (k : Nat) (ha : IsAttrDesc a) (hv : ValEnc v t) :
    Parses (.le a v) ([40] ++ sp k ++ a ++ [60, 61] ++ t ++ [41]) :=
  have hva := validAttr_attrDesc ha
  simple_parses _ (a ++ [cLt]) t rfl (by simp) (hdrChars_attr_op hva _ (by simp)) (valEnc_no_rparen hv)
    (fun off len => simpleRest_le' a t v off len hva (valEnc_unescape_len hv)) k _ (by simp [cLt])

theorem parses_approx (a v t : Bytes) (k : Nat) (ha : IsAttrDesc a) (hv : ValEnc v t) :
    Parses (.approx a v) ([40] ++ sp k ++ a ++ [126, 61] ++ t ++ [41]) :=
  have hva := validAttr_attrDesc ha
  simple_parses _ (a ++ [cTilde]) t rfl (by simp) (hdrChars_attr_op hva _ (by simp)) (valEnc_no_rparen hv)
    (fun off len => simpleRest_approx' a t v off len hva (valEnc_unescape_len hv)) k _ (by simp [cTilde])

theorem parses_present (a : Bytes) (k : Nat) (ha : IsAttrDesc a) :
    Parses (.present a) ([40] ++ sp k ++ a ++ [61, 42, 41]) :=
  have hva := validAttr_attrDesc ha
  simple_parses _ a [cStar] rfl (validAttr_ne_nil hva) (hdrChars_attr hva) (by decide)
    (fun off len => simpleRest_present a off len hva) k _ (by simp [cStar])

theorem parses_substr (a : Bytes) (i : Option Bytes) (any : List Bytes) (f : Option Bytes)
    (ti tany tf : Bytes) (k : Nat) (ha : IsAttrDesc a) (hi : OptEnc i ti) (hany : AnyEnc any tany)
    (hf : OptEnc f tf) (hsome : i.isSome = true ∨ any ≠ [] ∨ f.isSome = true) :
    Parses (.substr a i any f) ([40] ++ sp k ++ a ++ [61] ++ ti ++ tany ++ tf ++ [41]) :=
  have hva := validAttr_attrDesc ha
  have hs := substr_value hi hany hf hsome
  simple_parses _ a (ti ++ tany ++ tf) rfl (validAttr_ne_nil hva) (hdrChars_attr hva) hs.2.2.1
    (fun off len => simpleRest_substr' a _ i any f off len hva hs.1 hs.2.1 hs.2.2.2) k _ (by simp)

/-! ### extensible match -/

/-- the colon-separated parts of an extensible-match header -/
def hdrParts (h0 dnw : Bytes) (dn : Bool) (rule : Option Bytes) : List Bytes :=
  h0 :: ((if dn then [dnw] else []) ++ rule.toList)

theorem parses_ext (h0 dnw : Bytes) (dn : Bool) (rule : Option Bytes) (v t : Bytes) (k : Nat)
    (h0ok : h0 = [] ∨ validAttr h0 = true) (hdn : dn = true → IsDnWord dnw)
    (hr : ∀ r, rule = some r → IsOid r ∧ (dn = false → ¬ IsDnWord r))
    (hsome : h0 ≠ [] ∨ rule.isSome = true) (hv : ValEnc v t) (s : Bytes)
    (hs : s = [40] ++ sp k ++ joinWith [58] (hdrParts h0 dnw dn rule) ++ [58, 61] ++ t ++ [41]) :
    Parses (.ext rule (if h0.isEmpty then none else some h0) v dn) s := by
  have hparts : ∀ x ∈ hdrParts h0 dnw dn rule, ∀ c ∈ x, attrChar c := by
    intro x hx c hc
    simp only [hdrParts, List.mem_cons, List.mem_append] at hx
    rcases hx with rfl | hx | hx
    · rcases h0ok with rfl | h
      · simp at hc
      · exact validAttr_chars h c hc
    · cases dn with
      | false => simp at hx
      | true =>
        simp only [if_true, List.mem_singleton] at hx
        rw [hx] at hc; exact dnWord_chars (hdn rfl) c hc
    · cases rule with
      | none => simp at hx
      | some r =>
        simp only [Option.toList_some, List.mem_singleton] at hx
        rw [hx] at hc; exact validAttr_chars (validAttr_oid (hr r rfl).1) c hc
  have hsplit : splitOn cColon (joinWith [cColon] (hdrParts h0 dnw dn rule)) = hdrParts h0 dnw dn rule :=
    splitOn_joinWith _ _ (by simp [hdrParts]) fun x hx hc =>
      (attrChar_facts (hparts x hx _ hc)).2.2.2.2.2.1 rfl
  have hh := extHeader_parts _ h0 dnw dn rule hsplit h0ok
    (fun h => (isDnWord_iff dnw).1 (hdn h))
    (fun r hrr => ⟨validAttr_oid (hr r hrr).1, fun hd hm => (hr r hrr).2 hd ((isDnWord_iff r).2 hm)⟩)
  have hne : joinWith [cColon] (hdrParts h0 dnw dn rule) ≠ [] := by
    intro h
    rw [h] at hsplit
    have : hdrParts h0 dnw dn rule = [[]] := by rw [← hsplit]; rfl
    simp only [hdrParts, List.cons.injEq, List.append_eq_nil_iff] at this
    obtain ⟨rfl, _, h3⟩ := this
    rcases hsome with h | h
    · exact h rfl
    · cases rule with
      | none => simp at h
      | some r => simp at h3
  have hchars : ∀ c ∈ joinWith [cColon] (hdrParts h0 dnw dn rule) ++ [cColon], hdrChar c := by
    intro c hc
    rcases List.mem_append.1 hc with h | h
    · rcases mem_joinWith h with h | ⟨x, hx, hcx⟩
      · simp only [List.mem_singleton] at h; exact Or.inr (Or.inl h)
      · exact Or.inl (hparts x hx c hcx)
    · simp only [List.mem_singleton] at h; exact Or.inr (Or.inl h)
  exact simple_parses _ (joinWith [cColon] (hdrParts h0 dnw dn rule) ++ [cColon]) t rfl (by simp) hchars
    (valEnc_no_rparen hv)
    (fun off len => simpleRest_ext' _ t v off len rule _ dn hne hh (valEnc_unescape_len hv)) k s
    (by rw [hs]; simp [cColon])

theorem isAttrDesc_ne_nil {a : Bytes} (h : IsAttrDesc a) : a ≠ [] := validAttr_ne_nil (validAttr_attrDesc h)

theorem parses_extAttr (a : Bytes) (dn : Bool) (dnw : Bytes) (rule : Option Bytes) (v t : Bytes) (k : Nat)
    (ha : IsAttrDesc a) (hdn : dn = true → IsDnWord dnw)
    (hr : match rule with | none => True | some r => IsOid r ∧ (dn = false → ¬IsDnWord r)) (hv : ValEnc v t) :
    Parses (.ext rule (some a) v dn)
      ([40] ++ sp k ++ a ++ (if dn then [58] ++ dnw else []) ++
        (match rule with | none => [] | some r => [58] ++ r) ++ [58, 61] ++ t ++ [41]) := by
  have hne := isAttrDesc_ne_nil ha
  have h := parses_ext a dnw dn rule v t k (Or.inr (validAttr_attrDesc ha)) hdn
    (fun r hrr => by subst hrr; exact hr) (Or.inl hne) hv _ rfl
  have he : (if a.isEmpty then none else some a) = some a := by simp [hne]
  rw [he] at h
  have hj : joinWith [58] (hdrParts a dnw dn rule) =
      a ++ (if dn then [58] ++ dnw else []) ++ (match rule with | none => [] | some r => [58] ++ r) := by
    cases dn <;> cases rule <;> simp [hdrParts, joinWith]
  rw [hj] at h
  simpa only [List.append_assoc] using h

theorem parses_extRule (dn : Bool) (dnw r v t : Bytes) (k : Nat)
    (hdn : dn = true → IsDnWord dnw) (hr : IsOid r) (hnd : dn = false → ¬IsDnWord r) (hv : ValEnc v t) :
    Parses (.ext (some r) none v dn)
      ([40] ++ sp k ++ (if dn then [58] ++ dnw else []) ++ [58] ++ r ++ [58, 61] ++ t ++ [41]) := by
  have h := parses_ext [] dnw dn (some r) v t k (Or.inl rfl) hdn
    (fun r' hrr => by cases hrr; exact ⟨hr, hnd⟩) (Or.inr rfl) hv _ rfl
  have hj : joinWith [58] (hdrParts [] dnw dn (some r)) = (if dn then [58] ++ dnw else []) ++ [58] ++ r := by
    cases dn <;> simp [hdrParts, joinWith]
  rw [hj] at h
  simpa using h

end Verif.Proofs.FilterGrammar
