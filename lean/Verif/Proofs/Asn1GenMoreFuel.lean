/-
Tie proofs with fuel hypotheses in terms of SIZES (number of digits the loops write), not values:
`_pack_asn1_octet_number`, the `while length:` loop of `_pack_asn1`, `_pack_asn1` itself.
Statements exported in `Props/TiesAsn1More.lean`.
-/
import Verif.Proofs.Asn1GenCompose

namespace Verif.Proofs.Asn1Gen

open Verif Verif.PyRt Verif.Asn1Gen

/-! ### digit counts of the hand model -/

theorem digits128_succ (n : Nat) (h0 : n ≠ 0) :
    digits128 (n + 1) n = n % 128 :: digits128 (n / 128 + 1) (n / 128) := by
  show (if n = 0 then [] else n % 128 :: digits128 n (n / 128)) = _
  rw [if_neg h0, digits128_fuel n (n / 128 + 1) (n / 128) (by omega) (by omega)]

theorem digits256_succ (n : Nat) (h0 : n ≠ 0) :
    digits256 (n + 1) n = n % 256 :: digits256 (n / 256 + 1) (n / 256) := by
  show (if n = 0 then [] else n % 256 :: digits256 n (n / 256)) = _
  rw [if_neg h0, digits256_fuel n (n / 256 + 1) (n / 256) (by omega) (by omega)]

theorem digits128_length : ∀ (fuel n k : Nat), n < 128 ^ k → (digits128 fuel n).length ≤ k := by
  intro fuel; induction fuel with
  | zero => intro n k _; simp [digits128]
  | succ f ih =>
    intro n k h
    simp only [digits128]
    by_cases h0 : n = 0
    · subst h0; simp
    · simp only [h0, ↓reduceIte, List.length_cons]
      cases k with
      | zero => simp at h; omega
      | succ j =>
        rw [Nat.pow_succ] at h
        have : n / 128 < 128 ^ j := by
          generalize 128 ^ j = P at h ⊢; omega
        have := ih (n / 128) j this
        omega

theorem packOctetNumber_length (n : Nat) :
    (packOctetNumber n).length = (digits128 (n + 1) n).length := by
  simp only [packOctetNumber]
  split <;> rename_i h <;> rw [h] <;> simp

/-- the number of octets of `_pack_asn1_octet_number(n)` is at most `k` when `n < 128 ^ k` -/
theorem packOctetNumber_length_le (n k : Nat) (h : n < 128 ^ k) : (packOctetNumber n).length ≤ k := by
  rw [packOctetNumber_length]; exact digits128_length _ n k h

/-- … and at most `⌊log2 n⌋ / 7 + 1` -/
theorem packOctetNumber_length_le_log2 (n : Nat) : (packOctetNumber n).length ≤ Nat.log2 n / 7 + 1 := by
  apply packOctetNumber_length_le
  have h1 : n < 2 ^ (Nat.log2 n + 1) := Nat.lt_log2_self
  have h2 : 2 ^ (Nat.log2 n + 1) ≤ 2 ^ (7 * (Nat.log2 n / 7 + 1)) :=
    Nat.pow_le_pow_right (by omega) (by omega)
  have h3 : (128 : Nat) ^ (Nat.log2 n / 7 + 1) = 2 ^ (7 * (Nat.log2 n / 7 + 1)) := by
    rw [Nat.pow_mul]
  omega

theorem packLen_length (n : Nat) :
    (packLen n).length = if n < 128 then 1 else (digits256 (n + 1) n).length + 1 := by
  simp only [packLen]
  split <;> simp

/-! ### `_pack_asn1_octet_number`: fuel above the number of octets written -/

theorem pack_octet_loop_tail_sz : ∀ (fuel m : Nat) (acc : List Nat),
    (digits128 (m + 1) m).length < fuel → acc ≠ [] →
    pack_asn1_octet_number_while1 fuel acc (m : Int)
      = .ok (acc ++ (digits128 (m + 1) m).map (· + 128), 0) := by
  intro fuel; induction fuel with
  | zero => intro m acc h; omega
  | succ f ih =>
    intro m acc h hacc
    rw [pack_asn1_octet_number_while1]
    by_cases h0 : m = 0
    · subst h0; simp [digits128]
    · have hne : (m : Int) ≠ 0 := by omega
      have hlen : len acc ≠ 0 := by
        cases acc with
        | nil => exact absurd rfl hacc
        | cons a t => simp [len]; omega
      rw [digits128_succ m h0] at h ⊢
      simp only [List.length_cons] at h
      simp only [hne, ne_eq, not_false_eq_true, ↓reduceIte, hlen, pyAnd_127, pyShr_7,
        pyOr_128_low (m % 128) (by omega), baAppend_nat _ (m % 128 + 128) (by omega), bind_ok]
      rw [ih (m / 128) _ (by omega) (by simp)]
      simp

theorem pack_asn1_octet_number_sz (fuel n : Nat) (h : (packOctetNumber n).length < fuel) :
    pack_asn1_octet_number fuel (n : Int) = .ok (packOctetNumber n) := by
  rw [packOctetNumber_length] at h
  cases fuel with
  | zero => omega
  | succ f =>
    simp only [pack_asn1_octet_number, pack_asn1_octet_number_while1]
    by_cases h0 : n = 0
    · subst h0; simp [packOctetNumber, digits128]
    · have hne : (n : Int) ≠ 0 := by omega
      rw [digits128_succ n h0] at h
      simp only [List.length_cons] at h
      simp only [hne, ne_eq, not_false_eq_true, ↓reduceIte, len, List.length_nil, pyAnd_127, pyShr_7,
        baAppend_nat _ (n % 128) (by omega), bind_ok, Int.natCast_zero, not_true_eq_false]
      rw [pack_octet_loop_tail_sz f (n / 128) _ (by omega) (by simp)]
      simp only [bind_ok, packOctetNumber]
      rw [digits128_succ n h0]
      simp

/-! ### the `while length:` loop of `_pack_asn1` -/

theorem pack_len_loop_sz : ∀ (fuel m : Nat) (acc : List Nat), (digits256 (m + 1) m).length < fuel →
    pack_asn1_while1 fuel acc (m : Int) = .ok (acc ++ digits256 (m + 1) m, 0) := by
  intro fuel; induction fuel with
  | zero => intro m acc h; omega
  | succ f ih =>
    intro m acc h
    rw [pack_asn1_while1]
    by_cases h0 : m = 0
    · subst h0; simp [digits256]
    · have hne : (m : Int) ≠ 0 := by omega
      rw [digits256_succ m h0] at h ⊢
      simp only [List.length_cons] at h
      simp only [hne, ne_eq, not_false_eq_true, ↓reduceIte, pyAnd_255, pyShr_8,
        baAppend_nat _ (m % 256) (by omega), bind_ok]
      rw [ih (m / 256) _ (by omega)]
      simp

/-! ### `_pack_asn1` -/

/-- sharp form: the tag-number loop only runs for `num ≥ 31`, the length loop only for
    `content.length ≥ 128`; each needs fuel above the number of octets IT writes -/
theorem pack_asn1_sz (fuel cls num : Nat) (cons : Bool) (content : List Nat)
    (hc : cls ≤ 3) (hnum : num < 31 ∨ (packOctetNumber num).length < fuel)
    (hlenf : content.length < 128 ∨ (packLen content.length).length ≤ fuel)
    (hlen : content.length < 256 ^ 127) :
    pack_asn1 fuel (cls : Int) cons (num : Int) content = .ok (packTLV ⟨cls, cons, num⟩ content) := by
  have hcls : ¬ (((cls : Int) < 0) ∨ ((cls : Int) > 3)) := by omega
  simp only [pack_asn1, hcls, ↓reduceIte, id_or cls cons hc]
  have hq : cls * 2 + (if cons then 1 else 0) < 8 := by cases cons <;> simp <;> omega
  generalize hqd : cls * 2 + (if cons = true then 1 else 0) = q at hq
  have hid : cls * 64 + (if cons = true then 32 else 0) = 32 * q := by
    subst hqd; cases cons <;> simp <;> omega
  have htag : (if (num : Int) < 31 then
        (do let b ← baAppend [] (pyOr ((32 * q : Nat) : Int) (num : Int))
            Except.ok (pyOr ((32 * q : Nat) : Int) (num : Int), b) : Except Err (Int × List Nat))
      else
        (do let b ← baAppend [] (pyOr ((32 * q : Nat) : Int) 31)
            let t ← pack_asn1_octet_number fuel (num : Int)
            Except.ok (pyOr ((32 * q : Nat) : Int) 31, b ++ t)))
      = .ok ((if num < 31 then ((32 * q + num : Nat) : Int) else ((32 * q + 31 : Nat) : Int)),
             packTag ⟨cls, cons, num⟩) := by
    by_cases hn : num < 31
    · have : (num : Int) < 31 := by omega
      simp only [this, hn, ↓reduceIte, id_or_low q num (by omega),
        baAppend_nat [] (32 * q + num) (by omega), bind_ok, packTag, hid, List.nil_append]
    · have : ¬ ((num : Int) < 31) := by omega
      have hnum' : (packOctetNumber num).length < fuel := hnum.resolve_left hn
      simp only [this, hn, ↓reduceIte, id_or_31 q,
        baAppend_nat [] (32 * q + 31) (by omega), bind_ok, packTag, hid, List.nil_append,
        pack_asn1_octet_number_sz fuel num hnum', List.cons_append]
  simp only [htag, bind_ok]
  rw [len_eq, packTLV, packHeader]
  generalize content.length = n at hlenf hlen ⊢
  by_cases hs : n < 128
  · have : (n : Int) < 128 := by omega
    simp only [this, ↓reduceIte, baAppend_nat _ n (by omega), bind_ok, packLen, hs,
      List.append_assoc]
  · have : ¬ ((n : Int) < 128) := by omega
    have hlf : (digits256 (n + 1) n).length < fuel := by
      have h := hlenf.resolve_left hs
      rw [packLen_length, if_neg hs] at h; omega
    have hdl : (digits256 (n + 1) n).length < 128 := by
      have := digits256_length (n + 1) n 127 hlen; omega
    simp only [this, ↓reduceIte, pack_len_loop_sz fuel n [] hlf, bind_ok, List.nil_append, len_eq,
      List.length_reverse, pyOr_128_low _ hdl,
      baAppend_nat _ _ (show (digits256 (n + 1) n).length + 128 < 256 by omega),
      packLen, hs, List.append_assoc, List.singleton_append]

theorem pack_asn1_ofTag_sz (fuel : Nat) (t : Tag) (content : List Nat)
    (hc : t.cls ≤ 3) (hnum : t.num < 31 ∨ (packOctetNumber t.num).length < fuel)
    (hlenf : content.length < 128 ∨ (packLen content.length).length ≤ fuel)
    (hlen : content.length < 256 ^ 127) :
    pack_asn1 fuel (ofTag t).tag_class (ofTag t).is_constructed (ofTag t).tag_number content
      = .ok (packTLV t content) := by
  cases t with
  | mk cls cons num => exact pack_asn1_sz fuel cls num cons content hc hnum hlenf hlen

/-- `(packLen n).length ≤ k + 1` when `n < 256 ^ k` -/
theorem packLen_length_le (n k : Nat) (h : n < 256 ^ k) : (packLen n).length ≤ k + 1 := by
  rw [packLen_length]
  split
  · omega
  · have := digits256_length (n + 1) n k h; omega

/-- a number has at most as many base-256 digits as its value -/
theorem digits256_length_le_self : ∀ (fuel n : Nat), (digits256 fuel n).length ≤ n := by
  intro fuel; induction fuel with
  | zero => intro n; simp [digits256]
  | succ f ih =>
    intro n
    simp only [digits256]
    by_cases h0 : n = 0
    · subst h0; simp
    · simp only [h0, ↓reduceIte, List.length_cons]
      have := ih (n / 256); omega

/-- the length octets are never more than the content is long (for `n ≥ 1`) -/
theorem packLen_length_le_self (n : Nat) (h : 1 ≤ n) : (packLen n).length ≤ n := by
  rw [packLen_length]
  split
  · omega
  · rename_i hs
    have h0 : n ≠ 0 := by omega
    rw [digits256_succ n h0]
    have := digits256_length_le_self (n / 256 + 1) (n / 256)
    simp only [List.length_cons]; omega

/-! ### the bound is exact: with less fuel the generated loop reports fuel exhaustion -/

theorem pack_octet_loop_exhaust : ∀ (fuel m : Nat) (acc : List Nat),
    fuel ≤ (digits128 (m + 1) m).length →
    pack_asn1_octet_number_while1 fuel acc (m : Int) = .error fuelError := by
  intro fuel; induction fuel with
  | zero => intro m acc _; rfl
  | succ f ih =>
    intro m acc h
    rw [pack_asn1_octet_number_while1]
    have h0 : m ≠ 0 := by
      intro h0; subst h0; simp [digits128] at h
    have hne : (m : Int) ≠ 0 := by omega
    rw [digits128_succ m h0] at h
    simp only [List.length_cons] at h
    simp only [hne, ne_eq, not_false_eq_true, ↓reduceIte, pyAnd_127, pyShr_7]
    by_cases hl : len acc = 0
    · simp only [hl, not_true_eq_false, ↓reduceIte, baAppend_nat _ (m % 128) (by omega), bind_ok]
      exact ih _ _ (by omega)
    · simp only [hl, not_false_eq_true, ↓reduceIte, pyOr_128_low (m % 128) (by omega),
        baAppend_nat _ (m % 128 + 128) (by omega), bind_ok]
      exact ih _ _ (by omega)

theorem pack_asn1_octet_number_exhaust (fuel n : Nat) (h : fuel ≤ (packOctetNumber n).length) :
    pack_asn1_octet_number fuel (n : Int) = .error fuelError := by
  rw [packOctetNumber_length] at h
  simp only [pack_asn1_octet_number, pack_octet_loop_exhaust fuel n [] h, bind_error]

end Verif.Proofs.Asn1Gen
