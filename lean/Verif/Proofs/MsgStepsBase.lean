/-
C18 / BER decoding steps, part 1: the counting monad `S`, a small budget logic for it (`Spec`),
the potential `pot`, and the arithmetic of the big-integer loops.  Core Lean only.

`Spec x B Q`: started with a budget of `B` steps, `x` either returns `a` having left `Q a` of the
budget unspent, or raises having overdrawn the budget by at most `D`.
-/
import Verif.Model.MsgSteps

namespace Verif.Proofs.MsgSteps
open Verif Verif.MsgSteps

/-! ### projections of the monad operations -/

@[simp] theorem res_pure {α : Type} (a : α) : (pure a : S α).res = .ok a := rfl
@[simp] theorem steps_pure {α : Type} (a : α) : (pure a : S α).steps = 0 := rfl
@[simp] theorem res_tick {α : Type} (n : Nat) (x : S α) : (tick n x).res = x.res := rfl
@[simp] theorem steps_tick {α : Type} (n : Nat) (x : S α) : (tick n x).steps = n + x.steps := rfl
@[simp] theorem res_fail {α : Type} (e : Err) : (fail e : S α).res = .error e := rfl
@[simp] theorem steps_fail {α : Type} (e : Err) : (fail e : S α).steps = 0 := rfl
@[simp] theorem res_free {α : Type} (x : S α) : (free x).res = x.res := rfl
@[simp] theorem steps_free {α : Type} (x : S α) : (free x).steps = 0 := rfl
@[simp] theorem res_lift {α : Type} (x : Except Err α) (n : Nat) : (lift x n).res = x := rfl
@[simp] theorem steps_lift {α : Type} (x : Except Err α) (n : Nat) : (lift x n).steps = n := rfl

theorem bind_ok {α β : Type} {x : S α} {f : α → S β} {a : α} (h : x.res = .ok a) :
    (x >>= f) = ⟨(f a).res, x.steps + (f a).steps⟩ := by
  show S.bind' x f = _
  unfold S.bind'
  rw [h]

theorem bind_err {α β : Type} {x : S α} {f : α → S β} {e : Err} (h : x.res = .error e) :
    (x >>= f) = ⟨.error e, x.steps⟩ := by
  show S.bind' x f = _
  unfold S.bind'
  rw [h]

/-- the result of a bind is the bind of the results -/
theorem bind_res_congr {α β : Type} {x : S α} {f : α → S β} {y : Except Err α}
    {g : α → Except Err β} (hx : x.res = y) (hf : ∀ a, (f a).res = g a) :
    (x >>= f).res = (y >>= g) := by
  subst hx
  cases h : x.res with
  | error e => rw [bind_err h]; rfl
  | ok a => rw [bind_ok h]; exact hf a

/-! ### budgets -/

/-- by how much a raising computation may overdraw its budget -/
def D : Nat := 4

def Spec {α : Type} (x : S α) (B : Nat) (Q : α → Nat) : Prop :=
  match x.res with
  | .ok a => x.steps + Q a ≤ B
  | .error _ => x.steps ≤ B + D

theorem Spec.ok {α : Type} {x : S α} {B : Nat} {Q : α → Nat} (h : Spec x B Q) {a : α}
    (ha : x.res = .ok a) : x.steps + Q a ≤ B := by
  unfold Spec at h; rw [ha] at h; exact h

theorem Spec.total {α : Type} {x : S α} {B : Nat} {Q : α → Nat} (h : Spec x B Q) :
    x.steps ≤ B + D := by
  unfold Spec at h
  cases hx : x.res with
  | error e => rw [hx] at h; exact h
  | ok a => rw [hx] at h; simp only at h; omega

theorem Spec.bind {α β : Type} {x : S α} {f : α → S β} {B Bx : Nat} {Q : α → Nat} {R : β → Nat}
    (hx : Spec x Bx Q) (hB : Bx ≤ B)
    (hf : ∀ a, x.res = .ok a → Spec (f a) (Q a + (B - Bx)) R) : Spec (x >>= f) B R := by
  cases h : x.res with
  | error e =>
    rw [bind_err h]
    have := hx.total
    unfold Spec; simp only; omega
  | ok a =>
    rw [bind_ok h]
    have h1 := hx.ok h
    have h2 := hf a h
    unfold Spec at h2 ⊢
    simp only
    cases h3 : (f a).res with
    | error e => rw [h3] at h2; simp only at h2 ⊢; omega
    | ok b => rw [h3] at h2; simp only at h2 ⊢; omega

theorem Spec.tick {α : Type} {x : S α} {n B : Nat} {Q : α → Nat}
    (hn : n ≤ B) (h : Spec x (B - n) Q) : Spec (tick n x) B Q := by
  unfold Spec at h ⊢
  simp only [res_tick, steps_tick]
  cases hx : x.res with
  | error e => rw [hx] at h; simp only at h ⊢; omega
  | ok a => rw [hx] at h; simp only at h ⊢; omega

theorem Spec.pure {α : Type} {a : α} {B : Nat} {Q : α → Nat} (h : Q a ≤ B) :
    Spec (pure a : S α) B Q := by
  unfold Spec; simp only [res_pure, steps_pure]; omega

theorem Spec.fail {α : Type} {e : Err} {B : Nat} {Q : α → Nat} : Spec (fail e : S α) B Q := by
  unfold Spec; simp only [res_fail, steps_fail]; omega

theorem Spec.lift {α : Type} {x : Except Err α} {n B : Nat} {Q : α → Nat}
    (hn : n ≤ B) (h : ∀ a, x = .ok a → n + Q a ≤ B) : Spec (lift x n) B Q := by
  unfold Spec; simp only [res_lift, steps_lift]
  cases hx : x with
  | error e => simp only; omega
  | ok a => exact h a hx

theorem Spec.mono {α : Type} {x : S α} {B B' : Nat} {Q Q' : α → Nat} (h : Spec x B Q)
    (hB : B ≤ B') (hQ : ∀ a, x.res = .ok a → Q' a ≤ Q a) : Spec x B' Q' := by
  unfold Spec at h ⊢
  cases hx : x.res with
  | error e => rw [hx] at h; simp only at h ⊢; omega
  | ok a => rw [hx] at h; have := hQ a hx; simp only at h ⊢; omega

/-! ### the potential -/

/-- `A` steps per octet, and `3·W` per pair of octets of one big-integer run -/
def pot (A W m : Nat) : Nat := A * m + 3 * (W * m * m)

theorem sq_superadd (W a b : Nat) : W * a * a + W * b * b ≤ W * (a + b) * (a + b) := by
  simp only [Nat.mul_add, Nat.add_mul]
  omega

theorem sq_mono (W : Nat) {a b : Nat} (h : a ≤ b) : W * a * a ≤ W * b * b :=
  Nat.mul_le_mul (Nat.mul_le_mul_left W h) h

theorem pot_superadd (A W a b : Nat) : pot A W a + pot A W b ≤ pot A W (a + b) := by
  unfold pot
  have := sq_superadd W a b
  rw [Nat.mul_add]
  omega

theorem pot_mono (A W : Nat) {a b : Nat} (h : a ≤ b) : pot A W a ≤ pot A W b := by
  unfold pot
  have := sq_mono W h
  have := Nat.mul_le_mul_left A h
  omega

/-- the linear part: `c·m ≤ pot A W m` for every numeral `c ≤ A` -/
theorem pot_ge (A W m c : Nat) (h : c ≤ A) : c * m + 3 * (W * m * m) ≤ pot A W m := by
  unfold pot
  have := Nat.mul_le_mul_right m h
  omega

theorem pot_succ (A W m : Nat) : pot A W m + m ≤ pot (A + 1) W m := by
  unfold pot
  rw [Nat.add_mul]
  omega

theorem pot_zero (A W : Nat) : pot A W 0 = 0 := by simp [pot]

theorem pot_W0 (A m : Nat) : pot A 0 m = A * m := by simp [pot]

/-! ### the big-integer loops -/

theorem accSteps_le (W : Nat) : ∀ n idx, accSteps W n idx ≤ n + W * n * (idx + n) := by
  intro n
  induction n with
  | zero => intro idx; simp [accSteps]
  | succ n ih =>
    intro idx
    have := ih (idx + 1)
    simp only [accSteps]
    have e1 : W * (n + 1) * (idx + (n + 1)) = W * n * (idx + 1 + n) + W * (idx + (n + 1)) := by
      rw [Nat.mul_add W n 1, Nat.add_mul, Nat.mul_one]
      congr 2
      omega
    have e2 : W * (idx + (n + 1)) = W * idx + W * (n + 1) := Nat.mul_add _ _ _
    omega

theorem accSteps_le0 (W n : Nat) : accSteps W n 0 ≤ n + W * n * n := by
  have := accSteps_le W n 0
  simpa using this

theorem accSteps_mono (W : Nat) : ∀ n m idx, n ≤ m → accSteps W n idx ≤ accSteps W m idx := by
  intro n
  induction n with
  | zero => intro m idx _; simp [accSteps]
  | succ n ih =>
    intro m idx h
    cases m with
    | zero => omega
    | succ m =>
      have := ih m (idx + 1) (by omega)
      simp only [accSteps]
      omega

end Verif.Proofs.MsgSteps
