/-
C18 (schema post-processing), part 3: `_parse_extensions`.  The hand-written splitter copies the
remainder of the text in every iteration (`lstrip`, `split(…, 1)`, `[1:]` on a `str`), so its steps
are QUADRATIC in the text: at most `21·(len+1)²` for the `while value:` loop.  The budget is the
potential `21·(len+1)²` of the text still to be split: an iteration costs at most `21·(len+1)`
and leaves a strictly shorter text, and `21·(L+1) + 21·L² ≤ 21·(L+1)²`.
-/
import Verif.Proofs.SchemaCostBase

namespace Verif.Proofs.SchemaCost
open Verif Verif.Schema Verif.SchemaCost

/-! ### `_extract_qdstring` -/

theorem extractQdS_fst (s : Str) : (extractQdS s).1 = extractQd s := by
  unfold extractQdS extractQd
  cases h : split1 QUOTE (s.drop 1) with
  | none => rfl
  | some p =>
    obtain ⟨e, rem⟩ := p
    simp only [tick_fst, ret_fst, Option.map_some, parseQdS_fst]

theorem extractQdS_snd_le (s : Str) : (extractQdS s).2 ≤ 18 * s.length + 14 := by
  unfold extractQdS
  cases h : split1 QUOTE (s.drop 1) with
  | none =>
    simp only [tick_snd, ret_snd, List.length_drop]; omega
  | some p =>
    obtain ⟨e, rem⟩ := p
    have h1 := split1_len h
    have h2 := parseQdS_snd_le e
    simp only [List.length_drop] at h1
    simp only [tick_snd, ret_snd, List.length_drop]; omega

/-- what `_extract_qdstring` leaves is strictly shorter than what it was given -/
theorem extractQd_lt {s e rem : Str} (h : extractQd s = some (e, rem)) : rem.length < s.length := by
  unfold extractQd at h
  cases hs : split1 QUOTE (s.drop 1) with
  | none => rw [hs] at h; simp at h
  | some p =>
    obtain ⟨e', rem'⟩ := p
    rw [hs] at h
    simp only [Option.map_some, Option.some.injEq, Prod.mk.injEq] at h
    obtain ⟨_, rfl⟩ := h
    have h1 := split1_len hs
    have h2 := lstripSp_le rem'
    simp only [List.length_drop] at h1
    omega

/-! ### the inner loop -/

theorem extListLoopS_fst : ∀ (fuel : Nat) (rem : Str) (acc : List Str),
    (extListLoopS fuel rem acc).1 = extListLoop fuel rem acc := by
  intro fuel
  induction fuel with
  | zero => intro rem acc; rfl
  | succ fuel ih =>
    intro rem acc
    simp only [extListLoopS, extListLoop, tick_fst]
    split
    · rfl
    · simp only [tick_fst, extractQdS_fst]
      cases extractQd rem with
      | none => rfl
      | some p =>
        obtain ⟨e, rem'⟩ := p
        simp only [tick_fst, ih]

/-- length of the text the inner loop hands back -/
def olen : Option (List Str × Str) → Nat
  | none => 0
  | some (_, r) => r.length

/-- a successful inner loop stops in front of a `)` -/
theorem extListLoop_pos : ∀ (fuel : Nat) (rem : Str) (acc es : List Str) (r : Str),
    extListLoop fuel rem acc = some (es, r) → 1 ≤ r.length := by
  intro fuel
  induction fuel with
  | zero => intro rem acc es r h; simp [extListLoop] at h
  | succ fuel ih =>
    intro rem acc es r h
    simp only [extListLoop] at h
    split at h
    · rename_i hsw
      simp only [Option.some.injEq, Prod.mk.injEq] at h
      obtain ⟨_, rfl⟩ := h
      match rem, hsw with
      | [], hsw => simp [startsWith, List.isPrefixOf] at hsw
      | c :: t, _ => simp
    · cases he : extractQd rem with
      | none => rw [he] at h; simp at h
      | some p =>
        obtain ⟨e, rem'⟩ := p
        rw [he] at h
        exact ih _ _ _ _ h

/-- potential form: the steps of the inner loop plus the budget of what it hands back are within
    the budget of what it was given -/
theorem extListLoopS_snd : ∀ (fuel : Nat) (rem : Str) (acc : List Str),
    (extListLoopS fuel rem acc).2 + 21 * sq (olen (extListLoop fuel rem acc)) ≤ 21 * sq (rem.length + 1) := by
  intro fuel
  induction fuel with
  | zero => intro rem acc; simp [extListLoopS, extListLoop, olen, sq]
  | succ fuel ih =>
    intro rem acc
    simp only [extListLoopS, extListLoop, tick_snd]
    have hs := sq_succ rem.length
    split
    · simp only [ret_snd, olen]; omega
    · simp only [tick_snd, extractQdS_fst]
      have hx := extractQdS_snd_le rem
      cases he : extractQd rem with
      | none =>
        have h0 : sq 0 = 0 := rfl
        simp only [ret_snd, olen, h0]; omega
      | some p =>
        obtain ⟨e, rem'⟩ := p
        simp only [tick_snd]
        have hlt := extractQd_lt he
        have hm : sq (rem'.length + 1) ≤ sq rem.length := sq_mono hlt
        have := ih rem' (acc ++ [e])
        omega

/-! ### the `while value:` loop -/

theorem parseExtLoopS_fst : ∀ (fuel : Nat) (v : Str) (acc : List (Str × List Str)),
    (parseExtLoopS fuel v acc).1 = parseExtLoop fuel v acc := by
  intro fuel
  induction fuel with
  | zero => intro v acc; rfl
  | succ fuel ih =>
    intro v acc
    simp only [parseExtLoopS, parseExtLoop]
    split
    · rfl
    · simp only [tick_fst]
      cases split1 SPC (lstripSp v) with
      | none => rfl
      | some p =>
        obtain ⟨key0, rem0⟩ := p
        simp only [tick_fst]
        split
        · simp only [tick_fst, extListLoopS_fst]
          cases extListLoop ((lstripSp rem0).length + 1) (lstripSp (List.drop 1 (lstripSp rem0))) [] with
          | none => rfl
          | some q =>
            obtain ⟨entries, rem⟩ := q
            simp only [tick_fst, ih]
        · simp only [tick_fst, extractQdS_fst]
          cases extractQd (lstripSp rem0) with
          | none => rfl
          | some q =>
            obtain ⟨e, v'⟩ := q
            simp only [tick_fst, ih]

theorem parseExtLoopS_snd : ∀ (fuel : Nat) (v : Str) (acc : List (Str × List Str)),
    (parseExtLoopS fuel v acc).2 ≤ 21 * sq (v.length + 1) := by
  intro fuel
  induction fuel with
  | zero => intro v acc; simp [parseExtLoopS]
  | succ fuel ih =>
    intro v acc
    simp only [parseExtLoopS]
    split
    · simp
    · simp only [tick_snd]
      have hs := sq_succ v.length
      have hl := lstripSp_le v
      cases hsp : split1 SPC (lstripSp v) with
      | none => simp only [ret_snd]; omega
      | some p =>
        obtain ⟨key0, rem0⟩ := p
        simp only [tick_snd]
        have h1 := split1_len hsp
        have hr := lstripSp_le rem0
        have hk : (key0.drop 2).length ≤ key0.length := by simp only [List.length_drop]; omega
        split
        · -- `( 'v' … )`
          simp only [tick_snd, extListLoopS_fst]
          have hin := extListLoopS_snd ((lstripSp rem0).length + 1) (lstripSp (List.drop 1 (lstripSp rem0))) []
          have hd : (lstripSp (List.drop 1 (lstripSp rem0))).length + 1 ≤ v.length := by
            have := lstripSp_le (List.drop 1 (lstripSp rem0))
            simp only [List.length_drop] at this ⊢
            omega
          have hm := sq_mono hd
          cases hex : extListLoop ((lstripSp rem0).length + 1) (lstripSp (List.drop 1 (lstripSp rem0))) [] with
          | none =>
            simp only [ret_snd]
            simp only [hex, olen] at hin
            simp only [List.length_drop] at *
            omega
          | some q =>
            obtain ⟨entries, rem⟩ := q
            simp only [tick_snd]
            simp only [hex, olen] at hin
            have hpos := extListLoop_pos _ _ _ _ _ hex
            have hrec := ih (rem.drop 1) (dictSet acc (key0.drop 2) entries)
            have he : (rem.drop 1).length + 1 = rem.length := by simp only [List.length_drop]; omega
            rw [he] at hrec
            have hrl : sq rem.length ≤ sq v.length := by
              have a1 : sq rem.length ≤ sq ((lstripSp (List.drop 1 (lstripSp rem0))).length + 1) := by
                have := sq_succ (lstripSp (List.drop 1 (lstripSp rem0))).length
                omega
              omega
            have hrl' : rem.length ≤ v.length := by
              by_cases hc : rem.length ≤ v.length
              · exact hc
              · have : sq (v.length + 1) ≤ sq rem.length := sq_mono (by omega)
                omega
            simp only [List.length_drop] at *
            omega
        · -- `'v'`
          simp only [tick_snd, extractQdS_fst]
          have hx := extractQdS_snd_le (lstripSp rem0)
          cases hex : extractQd (lstripSp rem0) with
          | none => simp only [ret_snd]; omega
          | some q =>
            obtain ⟨e, v'⟩ := q
            simp only [tick_snd]
            have hlt := extractQd_lt hex
            have hrec := ih v' (dictSet acc (key0.drop 2) [e])
            have hm : sq (v'.length + 1) ≤ sq v.length := sq_mono (by omega)
            omega

/-! ### `_parse_extensions` -/

theorem parseExtsS_fst (v : Str) : (parseExtsS v).1 = parseExts v := by
  unfold parseExtsS parseExts
  split
  · rfl
  · simp only [tick_fst, parseExtLoopS_fst]

theorem parseExtsS_snd_le (v : Str) : (parseExtsS v).2 ≤ (v.length + 1) + 21 * sq (v.length + 1) := by
  unfold parseExtsS
  split
  · simp
  · simp only [tick_snd]
    have := parseExtLoopS_snd ((lstripSp v).length + 1) (lstripSp v) []
    have := sq_mono (Nat.add_le_add_right (lstripSp_le v) 1)
    omega

end Verif.Proofs.SchemaCost
