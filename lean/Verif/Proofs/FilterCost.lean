/-
C18 (continued) — the counting filter parser (`Model/FilterCost.lean`) computes the parser's result
(`counting_same_result`) and makes at most one call per input byte plus one (`calls_linear`).

Invariant for the bound (`UfB`): a successful `unpackFilterC` that consumed `n` bytes made at most `n`
calls (and `n ≤` slice length); a failing one made at most `slice length + 1` calls.  Inside
`complexLoopC` the accumulator satisfies `k ≤ read`; inside `filterLoopC` it satisfies
`k ≤ read + slack st`, where the slack is 1 until a `(` or a filter has been consumed.
-/
import Verif.Model.FilterCost
import Verif.Proofs.FilterTotalSimple

namespace Verif.Proofs.FilterCostP
open Verif Verif.FilterCost

/-! ### 1. the counting parser returns the parser's result -/

def Refines (ufC : Bytes → Nat → R × Nat) (uf : Bytes → Nat → Except FErr (Filter × Nat)) : Prop :=
  ∀ b o, (ufC b o).1 = uf b o

theorem complexLoopC_fst {ufC : Bytes → Nat → R × Nat} {uf : Bytes → Nat → Except FErr (Filter × Nat)}
    (hu : Refines ufC uf) (cur : Bytes) (off : Nat) :
    ∀ fuel read fs k, (complexLoopC ufC cur off fuel read fs k).1 = complexLoop uf cur off fuel read fs := by
  intro fuel
  induction fuel with
  | zero => intro read fs k; simp only [complexLoopC, complexLoop]
  | succ fuel ih =>
    intro read fs k
    simp only [complexLoopC, complexLoop]
    split
    · rfl
    · split
      · exact ih _ _ _
      · split
        · split
          · rfl
          · have h := hu ((cur.drop read).take (cur.length - read - 1)) (off + read)
            generalize ufC ((cur.drop read).take (cur.length - read - 1)) (off + read) = p at h
            obtain ⟨r, n⟩ := p
            simp only at h
            rw [← h]
            match r with
            | .error e => rfl
            | .ok (f, m) => exact ih _ _ _
        · split
          · rfl
          · rfl

theorem unpackComplexC_fst {ufC : Bytes → Nat → R × Nat} {uf : Bytes → Nat → Except FErr (Filter × Nat)}
    (hu : Refines ufC uf) (cur : Bytes) (off : Nat) :
    (unpackComplexC ufC cur off).1 = unpackComplex uf cur off := by
  have h := complexLoopC_fst hu cur off cur.length 1 [] 1
  unfold unpackComplexC unpackComplex
  generalize complexLoopC ufC cur off cur.length 1 [] 1 = p at h
  obtain ⟨r, k⟩ := p
  simp only at h
  rw [← h]
  match r with
  | .error e => rfl
  | .ok ([], read) => rfl
  | .ok (f0 :: fs, read) =>
    simp only
    split
    · rfl
    · split <;> rfl

theorem filterLoopC_fst {ufC : Bytes → Nat → R × Nat} {uf : Bytes → Nat → Except FErr (Filter × Nat)}
    (hu : Refines ufC uf) (cur : Bytes) (off : Nat) :
    ∀ fuel st k, (filterLoopC ufC cur off fuel st k).1 = filterLoop uf cur off fuel st := by
  intro fuel
  induction fuel with
  | zero => intro st k; simp only [filterLoopC, filterLoop]
  | succ fuel ih =>
    intro st k
    simp only [filterLoopC, filterLoop]
    split
    · rfl
    · split
      · exact ih _ _
      · split
        · split <;> (rename_i hq; simp only [hq])
        · split
          · split
            · rfl
            · by_cases hc : cur.getD st.read 0 = cBang ∨ cur.getD st.read 0 = cAmp ∨ cur.getD st.read 0 = cPipe
              · simp only [if_pos hc]
                have h := unpackComplexC_fst hu (cur.drop st.read) (off + st.read)
                generalize unpackComplexC ufC (cur.drop st.read) (off + st.read) = p at h
                obtain ⟨r, n⟩ := p
                simp only at h
                rw [← h]
                match r with
                | .error e => rfl
                | .ok (f, m) => exact ih _ _
              · simp only [if_neg hc]
                generalize unpackSimple (cur.drop st.read) (off + st.read) = r
                match r with
                | .error e => rfl
                | .ok (f, m) => exact ih _ _
          · split
            · exact ih _ _
            · generalize unpackSimple (cur.drop st.read) (off + st.read) = r
              match r with
              | .error e => rfl
              | .ok (f, m) => rfl

theorem unpackFilterC_fst : ∀ depth, Refines (unpackFilterC depth) (unpackFilter depth) := by
  intro depth
  induction depth with
  | zero => intro b o; rfl
  | succ depth ih =>
    intro cur off
    have h := filterLoopC_fst ih cur off cur.length ⟨0, none, none⟩ 1
    simp only [unpackFilterC, unpackFilter]
    generalize filterLoopC (unpackFilterC depth) cur off cur.length ⟨0, none, none⟩ 1 = p at h
    obtain ⟨r, k⟩ := p
    simp only at h
    rw [← h]
    match r with
    | .error e => rfl
    | .ok ⟨rd, par, psd⟩ => cases par <;> cases psd <;> rfl

theorem counting_same_result (depth : Nat) (s : List Nat) :
    (FilterCost.parseFilterTextC depth s).1 = parseFilterText depth s := by
  have h := unpackFilterC_fst depth (utf8Encode (pyStrip s)) 0
  unfold parseFilterTextC parseFilterText
  simp only
  generalize unpackFilterC depth (utf8Encode (pyStrip s)) 0 = p at h
  obtain ⟨r, k⟩ := p
  simp only at h
  rw [← h]
  match r with
  | .error .recursion => rfl
  | .error (.syntax _ _) => rfl
  | .error .fuel => rfl
  | .ok (f, n) => rfl

/-! ### 2. at most one call per byte, plus one -/

/-- contract of a counting filter parser on a slice of length `len` -/
def ResB (len : Nat) : R × Nat → Prop
  | (.ok (_, n), c) => c ≤ n ∧ n ≤ len
  | (.error _, c) => c ≤ len + 1

def UfB (ufC : Bytes → Nat → R × Nat) : Prop := ∀ cur off, ResB cur.length (ufC cur off)

/-- `_unpack_complex_filter`: a failing call is even paid by the slice alone -/
def ResC (len : Nat) : R × Nat → Prop
  | (.ok (_, n), c) => c ≤ n ∧ n ≤ len
  | (.error _, c) => c ≤ len

def CLoopB (len : Nat) : Except FErr (List Filter × Nat) × Nat → Prop
  | (.ok (_, r), c) => c ≤ r ∧ r ≤ len
  | (.error _, c) => c ≤ len

theorem simple_bound (cur : Bytes) (off : Nat) :
    match unpackSimple cur off with
    | .ok (_, n) => 2 ≤ n ∧ n ≤ cur.length
    | .error _ => True := by
  have h := Verif.Proofs.FilterTotal.unpackSimple_ok cur off
  generalize unpackSimple cur off = r at h
  match r, h with
  | .ok (f, n), h => exact ⟨h.1, h.2.1⟩
  | .error _, _ => trivial

theorem complexLoopC_bound {ufC : Bytes → Nat → R × Nat} (hu : UfB ufC) (cur : Bytes) (off : Nat) :
    ∀ fuel read fs k, read ≤ cur.length → k ≤ read →
      CLoopB cur.length (complexLoopC ufC cur off fuel read fs k) := by
  intro fuel
  induction fuel with
  | zero =>
    intro read fs k hr hk
    simp only [complexLoopC]
    split
    · simp only [CLoopB]; omega
    · simp only [CLoopB]; omega
  | succ fuel ih =>
    intro read fs k hr hk
    simp only [complexLoopC]
    split
    · simp only [CLoopB]; omega
    · rename_i hlt
      split
      · exact ih _ _ _ (by omega) (by omega)
      · split
        · split
          · simp only [CLoopB]; omega
          · have h := hu ((cur.drop read).take (cur.length - read - 1)) (off + read)
            have hlen : ((cur.drop read).take (cur.length - read - 1)).length = cur.length - read - 1 := by
              rw [List.length_take, List.length_drop]; omega
            rw [hlen] at h
            generalize ufC ((cur.drop read).take (cur.length - read - 1)) (off + read) = p at h
            match p, h with
            | (.error e, n), h => simp only [ResB] at h; simp only [CLoopB]; omega
            | (.ok (f, m), n), h =>
              simp only [ResB] at h
              exact ih _ _ _ (by omega) (by omega)
        · split
          · simp only [CLoopB]; omega
          · simp only [CLoopB]; omega

theorem unpackComplexC_bound {ufC : Bytes → Nat → R × Nat} (hu : UfB ufC) (cur : Bytes) (off : Nat)
    (hlen : 1 ≤ cur.length) : ResC cur.length (unpackComplexC ufC cur off) := by
  have h := complexLoopC_bound hu cur off cur.length 1 [] 1 hlen (Nat.le_refl _)
  unfold unpackComplexC
  generalize complexLoopC ufC cur off cur.length 1 [] 1 = p at h
  match p, h with
  | (.error e, k), h => exact h
  | (.ok ([], read), k), h => simp only [CLoopB] at h; simp only [ResC]; omega
  | (.ok (f0 :: fs, read), k), h =>
    simp only
    split
    · exact h
    · split <;> exact h

/-- slack of `filterLoopC`'s accumulator: the call of `_unpack_filter` itself is paid by the `(` or,
    for a bare simple filter, by the second byte of that filter -/
def slack (st : FLoop) : Nat := if st.parens.isSome ∨ st.parsed.isSome then 0 else 1

def FLoopB (len : Nat) : Except FErr FLoop × Nat → Prop
  | (.ok st, c) => c ≤ st.read + slack st ∧ st.read ≤ len
  | (.error _, c) => c ≤ len + 1

theorem filterLoopC_bound {ufC : Bytes → Nat → R × Nat} (hu : UfB ufC) (cur : Bytes) (off : Nat) :
    ∀ fuel st k, st.read ≤ cur.length → k ≤ st.read + slack st →
      FLoopB cur.length (filterLoopC ufC cur off fuel st k) := by
  intro fuel
  induction fuel with
  | zero =>
    intro st k hr hk
    simp only [filterLoopC]
    split
    · exact ⟨hk, hr⟩
    · have : slack st ≤ 1 := by unfold slack; split <;> omega
      simp only [FLoopB]; omega
  | succ fuel ih =>
    intro st k hr hk
    have hs1 : slack st ≤ 1 := by unfold slack; split <;> omega
    simp only [filterLoopC]
    split
    · exact ⟨hk, hr⟩
    · rename_i hlt
      have hdl : (cur.drop st.read).length = cur.length - st.read := List.length_drop
      split
      · refine ih _ _ (by simp only; omega) ?_
        have : slack { st with read := st.read + 1 } = slack st := rfl
        simp only [this]; omega
      · split
        · split
          · simp only [FLoopB]; omega
          · rename_i p hp
            have h0 : slack st = 0 := by simp [slack, hp]
            simp only [FLoopB]; omega
        · split
          · rename_i hpar
            have h0 : slack st = 0 := by simp [slack, hpar]
            split
            · simp only [FLoopB]; omega
            · by_cases hc : cur.getD st.read 0 = cBang ∨ cur.getD st.read 0 = cAmp ∨ cur.getD st.read 0 = cPipe
              · simp only [if_pos hc]
                have h := unpackComplexC_bound hu (cur.drop st.read) (off + st.read) (by omega)
                rw [hdl] at h
                generalize unpackComplexC ufC (cur.drop st.read) (off + st.read) = p at h
                match p, h with
                | (.error e, n), h => simp only [ResC] at h; simp only [FLoopB]; omega
                | (.ok (f, m), n), h =>
                  simp only [ResC] at h
                  refine ih _ _ (by simp only; omega) ?_
                  have : slack { st with parsed := some f, read := st.read + m } = 0 := by simp [slack]
                  simp only [this]; omega
              · simp only [if_neg hc]
                have h := simple_bound (cur.drop st.read) (off + st.read)
                rw [hdl] at h
                generalize unpackSimple (cur.drop st.read) (off + st.read) = r at h
                match r, h with
                | .error e, _ => simp only [FLoopB]; omega
                | .ok (f, m), h =>
                  simp only at h
                  refine ih _ _ (by simp only; omega) ?_
                  have : slack { st with parsed := some f, read := st.read + m } = 0 := by simp [slack]
                  simp only [this]; omega
          · split
            · refine ih _ _ (by simp only; omega) ?_
              have : slack { st with parens := some st.read, read := st.read + 1 } = 0 := by simp [slack]
              simp only [this]; omega
            · have h := simple_bound (cur.drop st.read) (off + st.read)
              rw [hdl] at h
              generalize unpackSimple (cur.drop st.read) (off + st.read) = r at h
              match r, h with
              | .error e, _ => simp only [FLoopB]; omega
              | .ok (f, m), h =>
                simp only at h
                have : slack { st with parsed := some f, read := st.read + m } = 0 := by simp [slack]
                simp only [FLoopB, this]; omega

theorem unpackFilterC_bound : ∀ depth, UfB (unpackFilterC depth) := by
  intro depth
  induction depth with
  | zero => intro cur off; simp only [unpackFilterC, ResB]; omega
  | succ depth ih =>
    intro cur off
    have h := filterLoopC_bound ih cur off cur.length ⟨0, none, none⟩ 1 (Nat.zero_le _) (by simp [slack])
    simp only [unpackFilterC]
    generalize filterLoopC (unpackFilterC depth) cur off cur.length ⟨0, none, none⟩ 1 = p at h
    match p, h with
    | (.error e, k), h => exact h
    | (.ok ⟨rd, some p, psd⟩, k), h =>
      simp only [FLoopB, slack] at h
      simp only [ResB]
      simp at h
      omega
    | (.ok ⟨rd, none, none⟩, k), h =>
      simp only [FLoopB, slack] at h
      simp only [ResB]
      simp at h
      omega
    | (.ok ⟨rd, none, some f⟩, k), h =>
      simp only [FLoopB, slack] at h
      simp only [ResB]
      simp at h
      omega

theorem calls_linear (depth : Nat) (s : List Nat) :
    (FilterCost.parseFilterTextC depth s).2 ≤ (utf8Encode (pyStrip s)).length + 1 := by
  have h := unpackFilterC_bound depth (utf8Encode (pyStrip s)) 0
  unfold parseFilterTextC
  simp only
  generalize unpackFilterC depth (utf8Encode (pyStrip s)) 0 = p at h
  match p, h with
  | (.error .recursion, k), h => exact h
  | (.error (.syntax _ _), k), h => exact h
  | (.error .fuel, k), h => exact h
  | (.ok (f, n), k), h => simp only [ResB] at h; simp only; omega

end Verif.Proofs.FilterCostP
