/-
C18 (schema post-processing), part 6: the three `from_string` functions, statements in the form
exported by `Props/C18Schema.lean`.
-/
import Verif.Proofs.SchemaCostAT

namespace Verif.Proofs.SchemaCost
open Verif Verif.Schema Verif.SchemaCost

/-! ### same result -/

theorem parseOCSK_fst (K : Nat) (s : Str) : (parseOCSK K s).1 = parseOC s := by
  rw [Proofs.parseOC_eq_match]
  simp only [parseOCSK, tick_fst]
  cases matchOC s with
  | none => rfl
  | some g => simp only [postOCS_fst]

theorem parseATSK_fst (K K2 : Nat) (s : Str) : (parseATSK K K2 s).1 = parseAT s := by
  rw [Proofs.parseAT_eq_match]
  simp only [parseATSK, tick_fst]
  cases matchAT s with
  | none => rfl
  | some g => simp only [postATS_fst]

theorem parseDCRSK_fst (K : Nat) (s : Str) : (parseDCRSK K s).1 = parseDCR s := by
  rw [Proofs.parseDCR_eq_match]
  simp only [parseDCRSK, tick_fst]
  cases matchDCR s with
  | none => rfl
  | some g => simp only [postDCRS_fst]

/-! ### steps -/

theorem parseOCSK_snd (K : Nat) (s : Str) :
    (parseOCSK K s).2 ≤ reCharge3 K s.length + (51 * s.length + 36 + 21 * sq (s.length + 1)) := by
  simp only [parseOCSK, tick_snd]
  cases h : matchOC s with
  | none => simp only [ret_snd]; omega
  | some g =>
    have := postOCS_snd_le s.length g (matchOC_le h)
    simp only
    omega

theorem parseATSK_snd (K K2 : Nat) (s : Str) :
    (parseATSK K K2 s).2 ≤ reCharge3 K s.length + reCharge2 K2 s.length
      + (42 * s.length + 22 + sq s.length + 21 * sq (s.length + 1)) := by
  simp only [parseATSK, tick_snd]
  cases h : matchAT s with
  | none => simp only [ret_snd]; omega
  | some g =>
    have := postATS_snd_le K2 s.length g (matchAT_le h)
    simp only
    omega

theorem parseDCRSK_snd (K : Nat) (s : Str) :
    (parseDCRSK K s).2 ≤ reCharge3 K s.length + (56 * s.length + 42 + 21 * sq (s.length + 1)) := by
  simp only [parseDCRSK, tick_snd]
  cases h : matchDCR s with
  | none => simp only [ret_snd]; omega
  | some g =>
    have := postDCRS_snd_le s.length g (matchDCR_le h)
    simp only
    omega

/-! ### in powers of `n + 1` -/

theorem pow_chain (n : Nat) : n + 1 ≤ (n + 1) ^ 2 ∧ (n + 1) ^ 2 ≤ (n + 1) ^ 3 := by
  constructor
  · calc n + 1 = (n + 1) ^ 1 := (Nat.pow_one _).symm
      _ ≤ (n + 1) ^ 2 := Nat.pow_le_pow_right (by omega) (by omega)
  · exact Nat.pow_le_pow_right (by omega) (by omega)

theorem oc_own (s : Str) : (parseOCSK 0 s).2 ≤ 51 * (s.length + 1) + 21 * (s.length + 1) ^ 2 := by
  have h := parseOCSK_snd 0 s
  simp only [reCharge3, Nat.zero_mul, sq_eq] at h
  omega

theorem oc_own' (s : Str) : (parseOCSK 0 s).2 ≤ 72 * (s.length + 1) ^ 2 := by
  have := oc_own s
  have := (pow_chain s.length).1
  omega

theorem oc_total_K (K : Nat) (s : Str) :
    (parseOCSK K s).2 ≤ K * (s.length + 1) ^ 3 + 51 * (s.length + 1) + 21 * (s.length + 1) ^ 2 := by
  have h := parseOCSK_snd K s
  simp only [reCharge3, sq_eq] at h
  omega

theorem oc_total (s : Str) : (parseOCS s).2 ≤ 2301723 * (s.length + 1) ^ 3 := by
  have h := oc_total_K ocK s
  have ⟨h1, h2⟩ := pow_chain s.length
  simp only [ocK] at h
  unfold parseOCS
  simp only [ocK]
  omega

theorem at_own (s : Str) : (parseATSK 0 0 s).2 ≤ 42 * (s.length + 1) + 22 * (s.length + 1) ^ 2 := by
  have h := parseATSK_snd 0 0 s
  have := sq_mono (Nat.le_add_right s.length 1)
  simp only [reCharge3, reCharge2, Nat.zero_mul, sq_eq] at h this
  omega

theorem at_own' (s : Str) : (parseATSK 0 0 s).2 ≤ 64 * (s.length + 1) ^ 2 := by
  have := at_own s
  have := (pow_chain s.length).1
  omega

theorem at_total_K (K K2 : Nat) (s : Str) :
    (parseATSK K K2 s).2 ≤ K * (s.length + 1) ^ 3 + K2 * (s.length + 1) ^ 2
      + 42 * (s.length + 1) + 22 * (s.length + 1) ^ 2 := by
  have h := parseATSK_snd K K2 s
  have := sq_mono (Nat.le_add_right s.length 1)
  simp only [reCharge3, reCharge2, sq_eq] at h this
  omega

theorem at_total (s : Str) : (parseATS s).2 ≤ 10935246 * (s.length + 1) ^ 3 := by
  have h := at_total_K atK noidlenK s
  have ⟨h1, h2⟩ := pow_chain s.length
  simp only [atK, noidlenK] at h
  unfold parseATS
  simp only [atK, noidlenK]
  omega

theorem dcr_own (s : Str) : (parseDCRSK 0 s).2 ≤ 56 * (s.length + 1) + 21 * (s.length + 1) ^ 2 := by
  have h := parseDCRSK_snd 0 s
  simp only [reCharge3, Nat.zero_mul, sq_eq] at h
  omega

theorem dcr_own' (s : Str) : (parseDCRSK 0 s).2 ≤ 77 * (s.length + 1) ^ 2 := by
  have := dcr_own s
  have := (pow_chain s.length).1
  omega

theorem dcr_total_K (K : Nat) (s : Str) :
    (parseDCRSK K s).2 ≤ K * (s.length + 1) ^ 3 + 56 * (s.length + 1) + 21 * (s.length + 1) ^ 2 := by
  have h := parseDCRSK_snd K s
  simp only [reCharge3, sq_eq] at h
  omega

theorem dcr_total (s : Str) : (parseDCRS s).2 ≤ 1883624 * (s.length + 1) ^ 3 := by
  have h := dcr_total_K dcrK s
  have ⟨h1, h2⟩ := pow_chain s.length
  simp only [dcrK] at h
  unfold parseDCRS
  simp only [dcrK]
  omega

/-! ### the parts on their own -/

theorem parseExtsS_quadratic (v : Str) : (parseExtsS v).2 ≤ 22 * (v.length + 1) ^ 2 := by
  have h := parseExtsS_snd_le v
  have := (pow_chain v.length).1
  simp only [sq_eq] at h
  omega

end Verif.Proofs.SchemaCost
