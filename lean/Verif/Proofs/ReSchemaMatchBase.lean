/-
Tie between the capture-aware backtracking semantics (`Model/ReCap.lean`) and deterministic
scanners, part 1: generic facts.

* `runsGF_fst`    : forgetting the captures of `runsGF` gives `runsF`;
* `erase`         : dropping the `group` nodes does not change `runsF`;
* `RG r s c`      : `runsGF` at the canonical fuel `s.length`, with exact unfolding equations;
* `FS r s c`      : the first success (`re.match`);
* `Det a P scan`  : of the results of the group-free expression `a`, the ones at a position
                    satisfying `P` are exactly the result of the deterministic `scan` (if that
                    satisfies `P`) — the exact form of `Sparse1` of the cost library;
* rules for `cat`, `alt`, `cls`, `star` in that calculus.

Core Lean only.
-/
import Verif.Model.ReCap
import Verif.Proofs.ReCostExtra

set_option linter.unusedSimpArgs false
set_option linter.unusedVariables false

namespace Verif.Proofs.SchemaTie
open Verif Verif.Re Verif.Proofs.ReCost

/-! ### list helpers -/

theorem flatMap_filter_dead {α β} (l : List α) (Q : α → Bool) (g : α → List β)
    (h : ∀ x ∈ l, Q x = false → g x = []) : l.flatMap g = (l.filter Q).flatMap g := by
  induction l with
  | nil => rfl
  | cons a l ih =>
    have ih' := ih (fun x hx => h x (by simp [hx]))
    cases hq : Q a with
    | false => simp [List.filter_cons, hq, h a (by simp) hq, ih']
    | true => simp [List.filter_cons, hq, ih']

theorem findSome_filter_dead {α β} (l : List α) (Q : α → Bool) (g : α → Option β)
    (h : ∀ x ∈ l, Q x = false → g x = none) : l.findSome? g = (l.filter Q).findSome? g := by
  induction l with
  | nil => rfl
  | cons a l ih =>
    have ih' := ih (fun x hx => h x (by simp [hx]))
    cases hq : Q a with
    | false => simp [List.filter_cons, hq, List.findSome?_cons, h a (by simp) hq, ih']
    | true => simp [List.filter_cons, hq, List.findSome?_cons, ih']

/-! ### `runsGF` and `runsF` -/

theorem runsGF_fst (f : Nat) (r : Re) (s : List Nat) (c : Caps) :
    (runsGF f r s c).map Prod.fst = runsF f r s := by
  fun_induction runsGF f r s c with
  | case1 => simp [runsF]
  | case2 _ c ivs x r h => simp [runsF, h]
  | case3 _ c ivs x r h => simp [runsF, h]
  | case4 => simp [runsF]
  | case5 f a b s c ihb iha =>
    rw [runsF, ← iha, List.map_flatMap, List.flatMap_map]
    apply flatMap_congr'
    intro p hp
    exact ihb p
  | case6 f a b s c iha ihb => rw [runsF, List.map_append, iha, ihb]
  | case7 => simp [runsF]
  | case8 f a s c ihs iha =>
    rw [runsF, ← iha, List.map_append, List.map_flatMap, List.filter_map, List.flatMap_map]
    congr 1
    apply flatMap_congr'
    intro p hp
    exact ihs p
  | case9 f id a s c ih => rw [runsF, ← ih, List.map_map]; rfl
  | case10 _ s c h => simp [runsF, h]
  | case11 _ s c h => simp [runsF, h]
  | case12 _ s c h => rw [runsF, if_pos h]; rfl
  | case13 _ s c h => rw [runsF, if_neg h]; rfl
  | case14 => simp [runsF]

theorem runsGF_length_le {f r s c p} (h : p ∈ runsGF f r s c) : p.1.length ≤ s.length := by
  have : p.1 ∈ (runsGF f r s c).map Prod.fst := List.mem_map_of_mem h
  rw [runsGF_fst] at this
  exact runsF_length_le this

/-- dropping the capturing groups -/
def erase : Re → Re
  | .cat a b => .cat (erase a) (erase b)
  | .alt a b => .alt (erase a) (erase b)
  | .star a => .star (erase a)
  | .group _ a => erase a
  | .eps => .eps
  | .cls ivs => .cls ivs
  | .eos => .eos
  | .eosNl => .eosNl
  | .unsupported => .unsupported

theorem runsF_erase (f : Nat) (r : Re) (s : List Nat) : runsF f (erase r) s = runsF f r s := by
  fun_induction runsF f r s with
  | case1 => simp [erase, runsF]
  | case2 _ ivs c r h => simp [erase, runsF, h]
  | case3 _ ivs c r h => simp [erase, runsF, h]
  | case4 => simp [erase, runsF]
  | case5 f a b s ihb iha =>
    rw [erase, runsF, iha]
    apply flatMap_congr'
    intro t ht
    exact ihb t
  | case6 f a b s iha ihb => rw [erase, runsF, iha, ihb]
  | case7 => simp [erase, runsF]
  | case8 f a s ihs iha =>
    rw [erase, runsF, iha]
    congr 1
    apply flatMap_congr'
    intro t ht
    exact ihs t
  | case9 f id a s ih => rw [erase, ih]
  | case10 _ s h => simp [erase, runsF, h]
  | case11 _ s h => simp [erase, runsF, h]
  | case12 _ s h => rw [erase, runsF, if_pos h]
  | case13 _ s h => rw [erase, runsF, if_neg h]
  | case14 => simp [erase, runsF]

theorem runs_erase (r : Re) (s : List Nat) : runs (erase r) s = runs r s := runsF_erase _ r s

/-! ### fuel irrelevance -/

theorem filterG_lt_nil (l : List (List Nat × Caps)) (s : List Nat) (h : s.length = 0) :
    l.filter (fun p => decide (p.1.length < s.length)) = [] := by
  apply List.filter_eq_nil_iff.mpr; intro t _; simp [h]

theorem runsGF_fuel (f : Nat) (r : Re) (s : List Nat) (c : Caps) :
    ∀ g, s.length ≤ f → s.length ≤ g → runsGF f r s c = runsGF g r s c := by
  fun_induction runsGF f r s c with
  | case1 => intros; simp [runsGF]
  | case2 _ c ivs x r h => intros; simp [runsGF, h]
  | case3 _ c ivs x r h => intros; simp [runsGF, h]
  | case4 => intros; simp [runsGF]
  | case5 f a b s c ihb iha =>
    intro g hf hg
    rw [runsGF, ← iha g hf hg]
    apply flatMap_congr'
    intro p hp
    have := runsGF_length_le hp
    exact ihb p g (by omega) (by omega)
  | case6 f a b s c iha ihb =>
    intro g hf hg
    rw [runsGF, iha g hf hg, ihb g hf hg]
  | case7 a s c =>
    intro g hf _
    have h0 : s.length = 0 := by omega
    cases g with
    | zero => simp [runsGF]
    | succ g => simp [runsGF, filterG_lt_nil _ s h0]
  | case8 f a s c ihs iha =>
    intro g hf hg
    cases g with
    | zero =>
      have h0 : s.length = 0 := by omega
      simp [runsGF, filterG_lt_nil _ s h0]
    | succ g =>
      rw [runsGF, ← iha (g+1) hf hg]
      congr 1
      apply flatMap_congr'
      intro p hp
      have hlt : p.1.length < s.length := by simpa using (List.mem_filter.mp hp).2
      exact ihs p g (by omega) (by omega)
  | case9 f id a s c ih => intro g hf hg; rw [runsGF, ih g hf hg]
  | case10 _ s c h => intros; simp [runsGF, h]
  | case11 _ s c h => intros; simp [runsGF, h]
  | case12 _ s c h => intros; rw [runsGF, if_pos h]
  | case13 _ s c h => intros; rw [runsGF, if_neg h]
  | case14 => intros; simp [runsGF]

/-! ### `RG`: captures at the canonical fuel -/

def RG (r : Re) (s : List Nat) (c : Caps) : List (List Nat × Caps) := runsGF s.length r s c

theorem runsG_eq_RG (r : Re) (s : List Nat) : runsG r s = RG r s [] := rfl

theorem runsGF_eq_RG {f : Nat} (r : Re) {s : List Nat} (c : Caps) (h : s.length ≤ f) : runsGF f r s c = RG r s c :=
  runsGF_fuel f r s c s.length h (Nat.le_refl _)

theorem RG_fst (r : Re) (s : List Nat) (c : Caps) : (RG r s c).map Prod.fst = runs r s := runsGF_fst _ r s c

theorem RG_length_le {r s c p} (h : p ∈ RG r s c) : p.1.length ≤ s.length := runsGF_length_le h

@[simp] theorem RG_eps (s : List Nat) (c : Caps) : RG eps s c = [(s, c)] := by simp [RG, runsGF]
@[simp] theorem RG_cls_nil (ivs) (c : Caps) : RG (cls ivs) [] c = [] := by simp [RG, runsGF]
@[simp] theorem RG_cls_cons (ivs) (x : Nat) (r : List Nat) (c : Caps) :
    RG (cls ivs) (x :: r) c = if inCls ivs x then [(r, c)] else [] := by simp [RG, runsGF]
theorem RG_group (id : Nat) (a : Re) (s : List Nat) (c : Caps) :
    RG (group id a) s c = (RG a s c).map (fun p => (p.1, (id, eaten s p.1) :: p.2)) := by
  rw [RG, runsGF]; rfl
theorem RG_alt (a b : Re) (s : List Nat) (c : Caps) : RG (alt a b) s c = RG a s c ++ RG b s c := by
  rw [RG, runsGF]; rfl
theorem RG_cat (a b : Re) (s : List Nat) (c : Caps) :
    RG (cat a b) s c = (RG a s c).flatMap (fun p => RG b p.1 p.2) := by
  rw [RG, runsGF]
  apply flatMap_congr'
  intro p hp
  exact runsGF_eq_RG b p.2 (runsGF_length_le hp)

/-- an expression without `group` nodes -/
def plain : Re → Bool
  | .cat a b => plain a && plain b
  | .alt a b => plain a && plain b
  | .star a => plain a
  | .group _ _ => false
  | _ => true

theorem runsGF_plain (f : Nat) (r : Re) (s : List Nat) (c : Caps) (h : plain r = true) :
    runsGF f r s c = (runsF f r s).map (fun t => (t, c)) := by
  fun_induction runsGF f r s c with
  | case1 => simp [runsF]
  | case2 _ c ivs x r hx => simp [runsF, hx]
  | case3 _ c ivs x r hx => simp [runsF, hx]
  | case4 => simp [runsF]
  | case5 f a b s c ihb iha =>
    simp only [plain, Bool.and_eq_true] at h
    rw [runsF, iha h.1, List.flatMap_map, List.map_flatMap]
    apply flatMap_congr'
    intro t ht
    exact ihb (t, c) h.2
  | case6 f a b s c iha ihb =>
    simp only [plain, Bool.and_eq_true] at h
    rw [runsF, iha h.1, ihb h.2, List.map_append]
  | case7 => simp [runsF]
  | case8 f a s c ihs iha =>
    simp only [plain] at h
    rw [runsF, iha h, List.map_append, List.map_flatMap, List.filter_map, List.flatMap_map]
    congr 1
    apply flatMap_congr'
    intro t ht
    exact ihs (t, c) h
  | case9 f id a s c ih => simp [plain] at h
  | case10 _ s c hs => simp [runsF, hs]
  | case11 _ s c hs => simp [runsF, hs]
  | case12 _ s c hs => rw [runsF, if_pos hs]; rfl
  | case13 _ s c hs => rw [runsF, if_neg hs]; rfl
  | case14 => simp [runsF]

theorem RG_plain {r : Re} (h : plain r = true) (s : List Nat) (c : Caps) :
    RG r s c = (runs r s).map (fun t => (t, c)) := runsGF_plain _ r s c h

/-! ### the captures of a result extend the incoming captures by groups of the expression -/

/-- every capture added by `r` has an id satisfying `I` -/
def idsIn (I : Nat → Bool) : Re → Bool
  | .cat a b => idsIn I a && idsIn I b
  | .alt a b => idsIn I a && idsIn I b
  | .star a => idsIn I a
  | .group id a => I id && idsIn I a
  | _ => true

theorem runsGF_caps (I : Nat → Bool) (f : Nat) (r : Re) (s : List Nat) (c : Caps) (h : idsIn I r = true) :
    ∀ p ∈ runsGF f r s c, ∃ xs : Caps, p.2 = xs ++ c ∧ ∀ q ∈ xs, I q.1 = true := by
  fun_induction runsGF f r s c with
  | case1 s c => intro p hp; simp at hp; exact ⟨[], by simp [hp]⟩
  | case2 _ c ivs x r hx => intro p hp; simp at hp; exact ⟨[], by simp [hp]⟩
  | case3 _ c ivs x r hx => simp
  | case4 => simp
  | case5 f a b s c ihb iha =>
    simp only [idsIn, Bool.and_eq_true] at h
    intro p hp
    rw [List.mem_flatMap] at hp
    obtain ⟨q, hq, hp⟩ := hp
    obtain ⟨xs, hxs, hI⟩ := iha h.1 q hq
    obtain ⟨ys, hys, hJ⟩ := ihb q h.2 p hp
    refine ⟨ys ++ xs, by rw [hys, hxs, List.append_assoc], ?_⟩
    intro z hz
    rw [List.mem_append] at hz
    cases hz with
    | inl hz => exact hJ z hz
    | inr hz => exact hI z hz
  | case6 f a b s c iha ihb =>
    simp only [idsIn, Bool.and_eq_true] at h
    intro p hp
    rw [List.mem_append] at hp
    cases hp with
    | inl hp => exact iha h.1 p hp
    | inr hp => exact ihb h.2 p hp
  | case7 a s c => intro p hp; simp at hp; exact ⟨[], by simp [hp]⟩
  | case8 f a s c ihs iha =>
    simp only [idsIn] at h
    intro p hp
    rw [List.mem_append] at hp
    cases hp with
    | inl hp =>
      rw [List.mem_flatMap] at hp
      obtain ⟨q, hq, hp⟩ := hp
      obtain ⟨xs, hxs, hI⟩ := iha h q (List.mem_filter.mp hq).1
      obtain ⟨ys, hys, hJ⟩ := ihs q h p hp
      refine ⟨ys ++ xs, by rw [hys, hxs, List.append_assoc], ?_⟩
      intro z hz
      rw [List.mem_append] at hz
      cases hz with
      | inl hz => exact hJ z hz
      | inr hz => exact hI z hz
    | inr hp => simp at hp; exact ⟨[], by simp [hp]⟩
  | case9 f id a s c ih =>
    simp only [idsIn, Bool.and_eq_true] at h
    intro p hp
    rw [List.mem_map] at hp
    obtain ⟨q, hq, rfl⟩ := hp
    obtain ⟨xs, hxs, hI⟩ := ih h.2 q hq
    refine ⟨(id, eaten s q.1) :: xs, by simp [hxs], ?_⟩
    intro z hz
    rw [List.mem_cons] at hz
    cases hz with
    | inl hz => rw [hz]; exact h.1
    | inr hz => exact hI z hz
  | case10 _ s c hs => intro p hp; simp at hp; exact ⟨[], by simp [hp]⟩
  | case11 _ s c hs => simp
  | case12 _ s c hs => intro p hp; simp at hp; exact ⟨[], by simp [hp]⟩
  | case13 _ s c hs => intro p hp; simp at hp
  | case14 => simp

theorem RG_caps (I : Nat → Bool) {r : Re} (h : idsIn I r = true) (s : List Nat) (c : Caps) :
    ∀ p ∈ RG r s c, ∃ xs : Caps, p.2 = xs ++ c ∧ ∀ q ∈ xs, I q.1 = true := runsGF_caps I _ r s c h

/-! ### first success -/

/-- `re.match` from a position with incoming captures -/
def FS (r : Re) (s : List Nat) (c : Caps) : Option (List Nat × Caps) := (RG r s c).head?

theorem matchG_eq_FS (r : Re) (s : List Nat) : matchG r s = FS r s [] := rfl

theorem FS_cat (a b : Re) (s : List Nat) (c : Caps) :
    FS (cat a b) s c = (RG a s c).findSome? (fun p => FS b p.1 p.2) := by
  rw [FS, RG_cat, List.head?_flatMap]; rfl

theorem RG_nil_of_runs_nil {r : Re} {s : List Nat} (c : Caps) (h : runs r s = []) : RG r s c = [] := by
  have := RG_fst r s c
  rw [h] at this
  exact List.map_eq_nil_iff.mp this

theorem FS_none_of_runs_nil {r : Re} {s : List Nat} (c : Caps) (h : runs r s = []) : FS r s c = none := by
  rw [FS, RG_nil_of_runs_nil c h]; rfl

/-! ### valid strings (every element a code point) -/

def Valid (s : List Nat) : Prop := ∀ c ∈ s, c < 0x110000

theorem Valid.suffix {s t : List Nat} (h : Valid s) (ht : t <:+ s) : Valid t :=
  fun c hc => h c (ht.subset hc)

theorem Valid.of_mem_runs {a : Re} {s t : List Nat} (h : Valid s) (ht : t ∈ runs a s) : Valid t :=
  h.suffix (mem_runs_suffix ht)

theorem Valid.of_mem_RG {a : Re} {s : List Nat} {c : Caps} {p : List Nat × Caps} (h : Valid s) (hp : p ∈ RG a s c) :
    Valid p.1 := by
  have : p.1 ∈ (RG a s c).map Prod.fst := List.mem_map_of_mem hp
  rw [RG_fst] at this
  exact h.of_mem_runs this

theorem Valid.tail {c : Nat} {s : List Nat} (h : Valid (c :: s)) : Valid s := h.suffix (List.suffix_cons _ _)

theorem Valid.head {c : Nat} {s : List Nat} (h : Valid (c :: s)) : c < 0x110000 := h c (by simp)

/-! ### `Det`: the results at `P` positions are the scanner's -/

abbrev Scan := List Nat → Option (List Nat)

/-- a scanner that returns suffixes of its input -/
def Suf (scan : Scan) : Prop := ∀ s t, scan s = some t → t <:+ s

structure Det (a : Re) (P : List Nat → Bool) (scan : Scan) : Prop where
  eq : ∀ s, Valid s → (runs a s).filter P = (scan s).toList.filter P
  suf : Suf scan

abbrev top : List Nat → Bool := fun _ => true

theorem Det.congr {a : Re} {P : List Nat → Bool} {s1 s2 : Scan} (h : Det a P s1) (he : ∀ s, s1 s = s2 s) :
    Det a P s2 := by
  have : s1 = s2 := funext he
  rw [← this]; exact h

theorem Det.congr_valid {a : Re} {P : List Nat → Bool} {s1 s2 : Scan} (h : Det a P s1)
    (he : ∀ s, Valid s → s1 s = s2 s) (hs : Suf s2) : Det a P s2 :=
  ⟨fun s hv => by rw [← he s hv]; exact h.eq s hv, hs⟩

theorem filter_filter_of_imp {α} (l : List α) (P P' : α → Bool) (hp : ∀ t, P' t = true → P t = true) :
    (l.filter P).filter P' = l.filter P' := by
  rw [List.filter_filter]
  apply List.filter_congr
  intro t _
  cases h' : P' t with
  | false => simp
  | true => simp [hp t h']

theorem Det.mono {a : Re} {P P' : List Nat → Bool} {scan : Scan} (h : Det a P scan)
    (hp : ∀ t, P' t = true → P t = true) : Det a P' scan := by
  refine ⟨fun s hv => ?_, h.suf⟩
  rw [← filter_filter_of_imp _ P P' hp, h.eq s hv, filter_filter_of_imp _ P P' hp]

/-- the result of a `Det` expression under `top` -/
theorem Det.runs_top {a : Re} {scan : Scan} (h : Det a top scan) (s : List Nat) (hv : Valid s) :
    runs a s = (scan s).toList := by
  have := h.eq s hv
  rwa [List.filter_eq_self.mpr (fun _ _ => rfl), List.filter_eq_self.mpr (fun _ _ => rfl)] at this

def clsScan (ivs : List (Nat × Nat)) : Scan
  | c :: r => if inCls ivs c then some r else none
  | [] => none

theorem clsScan_suf (ivs) : Suf (clsScan ivs) := by
  intro s t h
  cases s with
  | nil => simp [clsScan] at h
  | cons c r =>
    rw [clsScan] at h
    split at h
    · cases h; exact List.suffix_cons _ _
    · cases h

theorem clsScan_lt {ivs} {s t : List Nat} (h : clsScan ivs s = some t) : t.length < s.length := by
  cases s with
  | nil => simp [clsScan] at h
  | cons c r =>
    rw [clsScan] at h
    split at h
    · cases h; simp
    · cases h

theorem Suf.bind {sa sb : Scan} (ha : Suf sa) (hb : Suf sb) : Suf (fun s => (sa s).bind sb) := by
  intro s t h
  cases hs : sa s with
  | none => simp [hs] at h
  | some u =>
    simp [hs] at h
    exact (hb u t h).trans (ha s u hs)

theorem Suf.or {sa sb : Scan} (ha : Suf sa) (hb : Suf sb) : Suf (fun s => (sa s).or (sb s)) := by
  intro s t h
  cases hs : sa s with
  | none => simp [hs] at h; exact hb s t h
  | some u => simp [hs] at h; subst h; exact ha s u hs

theorem suf_some : Suf Option.some := by
  intro s t h; cases h; exact List.suffix_refl _

theorem Suf.length_le {scan : Scan} (h : Suf scan) {s t : List Nat} (ht : scan s = some t) : t.length ≤ s.length :=
  (h s t ht).length_le

theorem Det.cls (ivs) (P : List Nat → Bool) : Det (Re.cls ivs) P (clsScan ivs) := by
  refine ⟨fun s _ => ?_, clsScan_suf ivs⟩
  cases s with
  | nil => simp [clsScan]
  | cons c r =>
    rw [runs_cls_cons, clsScan]
    split <;> rfl

theorem Det.eps (P : List Nat → Bool) : Det Re.eps P some :=
  ⟨fun s _ => by rw [runs_eps]; rfl, suf_some⟩

theorem Det.group {a : Re} {P : List Nat → Bool} {scan : Scan} (h : Det a P scan) (id : Nat) :
    Det (Re.group id a) P scan :=
  ⟨fun s hv => by rw [runs_group]; exact h.eq s hv, h.suf⟩

/-- sequence: `b` cannot reach a `P` position from outside `Q` -/
theorem Det.cat (Q : List Nat → Bool) {a b : Re} {P : List Nat → Bool} {sa sb : Scan} (ha : Det a Q sa)
    (hb : Det b P sb) (hd : ∀ t, Q t = false → (runs b t).filter P = []) :
    Det (Re.cat a b) P (fun s => (sa s).bind sb) := by
  refine ⟨fun s hv => ?_, ha.suf.bind hb.suf⟩
  rw [runs_cat, List.filter_flatMap, flatMap_filter_dead _ Q _ (fun t _ hq => hd t hq), ha.eq s hv]
  show _ = (((sa s).bind sb).toList).filter P
  cases hs : sa s with
  | none => rfl
  | some t =>
    have hvt : Valid t := hv.suffix (ha.suf s t hs)
    cases hq : Q t with
    | true => simp [hq, hb.eq t hvt]
    | false =>
      have h1 := hd t hq
      rw [hb.eq t hvt] at h1
      simp [hq, h1]

/-- sequence after an expression with at most one result -/
theorem Det.cat_top {a b : Re} {P : List Nat → Bool} {sa sb : Scan} (ha : Det a top sa) (hb : Det b P sb) :
    Det (Re.cat a b) P (fun s => (sa s).bind sb) :=
  Det.cat top ha hb (fun t ht => by simp at ht)

theorem filter_nil_of_fails {b : Re} {Q : List Nat → Bool} (h : Fails b Q) (P : List Nat → Bool) :
    ∀ t, Q t = false → (runs b t).filter P = [] := by
  intro t ht; rw [h t ht]; rfl

/-- alternatives, general form -/
theorem Det.alt_of {a b : Re} {P : List Nat → Bool} {sa sb scan : Scan} (ha : Det a P sa) (hb : Det b P sb)
    (hs : Suf scan)
    (hx : ∀ s, (sa s).toList.filter P ++ (sb s).toList.filter P = (scan s).toList.filter P) :
    Det (Re.alt a b) P scan := by
  refine ⟨fun s hv => ?_, hs⟩
  rw [runs_alt, List.filter_append, ha.eq s hv, hb.eq s hv, hx s]

/-- alternatives: when the first one has a result the second one has none at a `P` position -/
theorem Det.alt {a b : Re} {P : List Nat → Bool} {sa sb : Scan} (ha : Det a P sa) (hb : Det b P sb)
    (hx : ∀ s, sa s ≠ none → (sb s).toList.filter P = []) : Det (Re.alt a b) P (fun s => (sa s).or (sb s)) := by
  refine Det.alt_of ha hb (ha.suf.or hb.suf) (fun s => ?_)
  show _ = (((sa s).or (sb s)).toList).filter P
  cases hs : sa s with
  | none => simp
  | some t =>
    have := hx s (by simp [hs])
    simp [this]

/-- iterate a step function as long as it succeeds -/
def iter (sx : Scan) : Nat → List Nat → List Nat
  | 0, s => s
  | n+1, s =>
    match sx s with
    | some t => iter sx n t
    | none => s

theorem iter_none {sx : Scan} {s : List Nat} (h : sx s = none) : ∀ n, iter sx n s = s
  | 0 => rfl
  | n+1 => by rw [iter, h]

theorem iter_some {sx : Scan} {s t : List Nat} (h : sx s = some t) (n : Nat) : iter sx (n+1) s = iter sx n t := by
  rw [iter, h]

/-- a step function that consumes at least one character -/
def Lt (sx : Scan) : Prop := ∀ s t, sx s = some t → t.length < s.length

theorem iter_fuel {sx : Scan} (hlen : Lt sx) :
    ∀ n m s, s.length ≤ n → s.length ≤ m → iter sx n s = iter sx m s := by
  intro n
  induction n with
  | zero =>
    intro m s hs _
    have : s = [] := List.eq_nil_of_length_eq_zero (by omega)
    subst this
    cases hx : sx [] with
    | none => rw [iter_none hx, iter_none hx]
    | some t => have := hlen _ t hx; simp at this
  | succ n ih =>
    intro m s hs hm
    cases hx : sx s with
    | none => rw [iter_none hx, iter_none hx]
    | some t =>
      have := hlen s t hx
      cases m with
      | zero => omega
      | succ m => rw [iter_some hx, iter_some hx]; exact ih m t (by omega) (by omega)

theorem iter_suffix {sx : Scan} (hs : Suf sx) : ∀ n s, iter sx n s <:+ s := by
  intro n
  induction n with
  | zero => intro s; exact List.suffix_refl _
  | succ n ih =>
    intro s
    cases hx : sx s with
    | none => rw [iter_none hx]; exact List.suffix_refl _
    | some t => rw [iter_some hx]; exact (ih t).trans (hs s t hx)

theorem iter_suf {sx : Scan} (hs : Suf sx) : Suf (fun s => some (iter sx s.length s)) := by
  intro s t h; cases h; exact iter_suffix hs _ _

theorem iter_length_le {sx : Scan} (hlen : Lt sx) : ∀ n s, (iter sx n s).length ≤ s.length := by
  intro n
  induction n with
  | zero => intro s; exact Nat.le_refl _
  | succ n ih =>
    intro s
    cases hx : sx s with
    | none => rw [iter_none hx]; exact Nat.le_refl _
    | some t => rw [iter_some hx]; have := hlen s t hx; have := ih t; omega

/-- "one or more": the check `r'.length < s.length` of the scanners -/
theorem iter_plus {sx : Scan} (hlen : Lt sx) (n : Nat) (s : List Nat) (hn : s.length ≤ n) :
    (if (iter sx n s).length < s.length then some (iter sx n s) else none) =
      (sx s).bind (fun u => some (iter sx u.length u)) := by
  cases hx : sx s with
  | none => rw [iter_none hx]; simp
  | some u =>
    have hlt := hlen s u hx
    cases n with
    | zero => omega
    | succ n =>
      rw [iter_some hx, iter_fuel hlen n u.length u (by omega) (Nat.le_refl _)]
      have := iter_length_le hlen u.length u
      simp; omega

theorem filter_star_of_nil {x : Re} {P : List Nat → Bool} {t : List Nat} (h : runs x t = []) (hp : P t = false) :
    (runs (Re.star x) t).filter P = [] := by
  rw [runs_star_of_nil h]; simp [hp]

/-- greedy repetition of a deterministic step -/
theorem Det.star (Q : List Nat → Bool) {x : Re} {P : List Nat → Bool} {sx : Scan} (hx : Det x Q sx)
    (hlen : Lt sx)
    (h1 : ∀ t, Q t = false → (runs (Re.star x) t).filter P = [])
    (h2 : ∀ s, P s = true → sx s = none) :
    Det (Re.star x) P (fun s => some (iter sx s.length s)) := by
  have key : ∀ n s, s.length ≤ n → Valid s → (runs (Re.star x) s).filter P = [iter sx n s].filter P := by
    intro n
    induction n with
    | zero =>
      intro s hs _
      have : s = [] := List.eq_nil_of_length_eq_zero (by omega)
      subst this
      rw [runs_star_nil, iter]
    | succ n ih =>
      intro s hs hv
      rw [runs_star, List.filter_append, List.filter_flatMap,
        flatMap_filter_dead _ Q _ (fun t _ hq => h1 t hq), List.filter_filter]
      have hQ : (runs x s).filter (fun t => Q t && decide (t.length < s.length)) =
          ((runs x s).filter Q).filter (fun t => decide (t.length < s.length)) := by
        rw [List.filter_filter]
        apply List.filter_congr
        intro t _
        exact Bool.and_comm _ _
      rw [hQ, hx.eq s hv]
      cases hsx : sx s with
      | none =>
        rw [iter_none hsx]
        simp
      | some t =>
        rw [iter_some hsx]
        have hlt := hlen s t hsx
        have hvt : Valid t := hv.suffix (hx.suf s t hsx)
        have hps : P s = false := by
          cases hp : P s with
          | false => rfl
          | true => have := h2 s hp; rw [hsx] at this; cases this
        cases hq : Q t with
        | true =>
          simp [hq, hlt, hps]
          exact ih t (by omega) hvt
        | false =>
          have h3 := h1 t hq
          rw [ih t (by omega) hvt] at h3
          simp [hq, hps]
          simpa using h3
  exact ⟨fun s hv => key s.length s (Nat.le_refl _) hv, iter_suf hx.suf⟩

/-! ### `DetG`: the same with captures -/

abbrev ScanG := List Nat → Caps → Option (List Nat × Caps)

def SufG (scan : ScanG) : Prop := ∀ s c p, scan s c = some p → p.1 <:+ s

structure DetG (a : Re) (P : List Nat → Bool) (scan : ScanG) : Prop where
  eq : ∀ s c, Valid s → (RG a s c).filter (fun p => P p.1) = (scan s c).toList.filter (fun p => P p.1)
  suf : SufG scan

theorem DetG.congr {a : Re} {P : List Nat → Bool} {s1 s2 : ScanG} (h : DetG a P s1) (he : ∀ s c, s1 s c = s2 s c) :
    DetG a P s2 := by
  have : s1 = s2 := funext fun s => funext fun c => he s c
  rw [← this]; exact h

theorem Det.toG {a : Re} {P : List Nat → Bool} {scan : Scan} (h : Det a P scan) (hp : plain a = true) :
    DetG a P (fun s c => (scan s).map (fun t => (t, c))) := by
  refine ⟨fun s c hv => ?_, fun s c p hsp => ?_⟩
  · rw [RG_plain hp, List.filter_map]
    have : ((fun p : List Nat × Caps => P p.1) ∘ fun t => (t, c)) = P := rfl
    rw [this, h.eq s hv]
    show _ = (((scan s).map (fun t => (t, c))).toList).filter (fun p => P p.1)
    cases hs : scan s with
    | none => rfl
    | some t => cases hP : P t <;> simp [hP]
  · cases hs : scan s with
    | none => simp [hs] at hsp
    | some t => simp [hs] at hsp; subst hsp; exact h.suf s t hs

theorem DetG.group {a : Re} {P : List Nat → Bool} {scan : ScanG} (h : DetG a P scan) (id : Nat) :
    DetG (Re.group id a) P (fun s c => (scan s c).map (fun p => (p.1, (id, eaten s p.1) :: p.2))) := by
  refine ⟨fun s c hv => ?_, fun s c p hsp => ?_⟩
  · rw [RG_group, List.filter_map]
    have : ((fun p : List Nat × Caps => P p.1) ∘ fun p => (p.1, (id, eaten s p.1) :: p.2)) =
        (fun p : List Nat × Caps => P p.1) := rfl
    rw [this, h.eq s c hv]
    show _ = (((scan s c).map (fun p => (p.1, (id, eaten s p.1) :: p.2))).toList).filter (fun p => P p.1)
    cases hs : scan s c with
    | none => rfl
    | some t => cases hP : P t.1 <;> simp [hP]
  · cases hs : scan s c with
    | none => simp [hs] at hsp
    | some t => simp [hs] at hsp; subst hsp; exact h.suf s c t hs

theorem filterG_nil {b : Re} {P : List Nat → Bool} {t : List Nat} (c : Caps) (h : (runs b t).filter P = []) :
    (RG b t c).filter (fun p => P p.1) = [] := by
  have h1 : ((RG b t c).filter (fun p => P p.1)).map Prod.fst = (runs b t).filter P := by
    rw [← RG_fst b t c, List.filter_map]; rfl
  rw [h] at h1
  exact List.map_eq_nil_iff.mp h1

theorem DetG.cat (Q : List Nat → Bool) {a b : Re} {P : List Nat → Bool} {sa sb : ScanG} (ha : DetG a Q sa)
    (hb : DetG b P sb) (hd : ∀ t, Q t = false → (runs b t).filter P = []) :
    DetG (Re.cat a b) P (fun s c => (sa s c).bind (fun p => sb p.1 p.2)) := by
  refine ⟨fun s c hv => ?_, fun s c p hsp => ?_⟩
  · rw [RG_cat, List.filter_flatMap,
      flatMap_filter_dead _ (fun p => Q p.1) _ (fun p _ hq => filterG_nil p.2 (hd p.1 hq)), ha.eq s c hv]
    show _ = (((sa s c).bind (fun p => sb p.1 p.2)).toList).filter (fun p => P p.1)
    cases hs : sa s c with
    | none => rfl
    | some p =>
      have hvp : Valid p.1 := hv.suffix (ha.suf s c p hs)
      cases hq : Q p.1 with
      | true => simp [hq, hb.eq p.1 p.2 hvp]
      | false =>
        have h1 := filterG_nil (P := P) p.2 (hd p.1 hq)
        rw [hb.eq p.1 p.2 hvp] at h1
        simp [hq, h1]
  · cases hs : sa s c with
    | none => simp [hs] at hsp
    | some q => simp [hs] at hsp; exact (hb.suf q.1 q.2 p hsp).trans (ha.suf s c q hs)

theorem DetG.cat_top {a b : Re} {P : List Nat → Bool} {sa sb : ScanG} (ha : DetG a top sa) (hb : DetG b P sb) :
    DetG (Re.cat a b) P (fun s c => (sa s c).bind (fun p => sb p.1 p.2)) :=
  DetG.cat top ha hb (fun t ht => by simp at ht)

theorem DetG.alt {a b : Re} {P : List Nat → Bool} {sa sb : ScanG} (ha : DetG a P sa) (hb : DetG b P sb)
    (hx : ∀ s c, sa s c ≠ none → (sb s c).toList.filter (fun p => P p.1) = []) :
    DetG (Re.alt a b) P (fun s c => (sa s c).or (sb s c)) := by
  refine ⟨fun s c hv => ?_, fun s c p hsp => ?_⟩
  · rw [RG_alt, List.filter_append, ha.eq s c hv, hb.eq s c hv]
    show _ = (((sa s c).or (sb s c)).toList).filter (fun p => P p.1)
    cases hs : sa s c with
    | none => simp
    | some t =>
      have := hx s c (by simp [hs])
      simp [this]
  · cases hs : sa s c with
    | none => simp [hs] at hsp; exact hb.suf s c p hsp
    | some q => simp [hs] at hsp; subst hsp; exact ha.suf s c q hs

/-- the whole match of a deterministic expression -/
theorem FS_detG {a : Re} {sa : ScanG} (ha : DetG a top sa) (s : List Nat) (c : Caps) (hv : Valid s) :
    FS a s c = sa s c := by
  have := ha.eq s c hv
  rw [List.filter_eq_self.mpr (fun _ _ => rfl), List.filter_eq_self.mpr (fun _ _ => rfl)] at this
  rw [FS, this]
  cases sa s c <;> rfl

/-! ### first success of a sequence with a deterministic head -/

theorem FS_cat_detG {a k : Re} {P : List Nat → Bool} {sa : ScanG} (ha : DetG a P sa) (hk : Fails k P)
    (s : List Nat) (c : Caps) (hv : Valid s) : FS (Re.cat a k) s c = (sa s c).bind (fun p => FS k p.1 p.2) := by
  rw [FS_cat, findSome_filter_dead _ (fun p => P p.1) _ (fun p _ hp => FS_none_of_runs_nil p.2 (hk p.1 hp)),
    ha.eq s c hv]
  cases hs : sa s c with
  | none => rfl
  | some p =>
    cases hp : P p.1 with
    | true => simp [hp]
    | false => simp [hp, FS_none_of_runs_nil p.2 (hk p.1 hp)]

/-- an optional group `(Y)?` followed by `k`: if the scanner of `Y` succeeds the group is taken
    for good, because `k` is dead at the position where `Y` started -/
theorem FS_opt_detG {y k : Re} {P : List Nat → Bool} {sy : ScanG} (hy : DetG y P sy) (hk : Fails k P)
    (s : List Nat) (c : Caps) (hv : Valid s) (hdead : sy s c ≠ none → runs k s = []) :
    FS (Re.cat (Re.alt y Re.eps) k) s c = match sy s c with
      | some p => FS k p.1 p.2
      | none => FS k s c := by
  rw [FS_cat, RG_alt, List.findSome?_append, RG_eps,
    findSome_filter_dead _ (fun p => P p.1) _ (fun p _ hp => FS_none_of_runs_nil p.2 (hk p.1 hp)), hy.eq s c hv]
  cases hs : sy s c with
  | none => simp [List.findSome?_cons]; cases FS k s c <;> rfl
  | some p =>
    have hd := FS_none_of_runs_nil c (hdead (by simp [hs]))
    cases hp : P p.1 with
    | true => simp [hp, List.findSome?_cons, hd]; cases FS k p.1 p.2 <;> rfl
    | false => simp [hp, List.findSome?_cons, hd, FS_none_of_runs_nil p.2 (hk p.1 hp)]

end Verif.Proofs.SchemaTie
