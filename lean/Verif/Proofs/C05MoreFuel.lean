/-
C05 (second batch), part 1: fuel.  Every fuel-taking loop of the BER decoder
(`loopMany`, `decSubstrLoop`, `decExtLoop`, `decOptLoop`, `decEnvelopeLoop`; `parseLoop` is in
`RecvFrame.parseLoop_fuel`) returns the same result for every fuel that is at least the input
length, because each iteration consumes at least the two octets of a header.  Also: a successful
element decoder returns exactly what follows the element at the head of its input (`*_rest`).
Core Lean only.
-/
import Verif.Spec.C05More
import Verif.Proofs.DecodeCost
import Verif.Proofs.RecvFrame

namespace Verif.Proofs.C05More
open Verif Verif.C05More Verif.Proofs Verif.Proofs.DecodeCostP

theorem bind_congr_ok {α β : Type} {x : Except Err α} {f g : α → Except Err β}
    (h : ∀ a, x = .ok a → f a = g a) : (x >>= f) = (x >>= g) := by
  cases x with
  | error e => rfl
  | ok a => exact h a rfl

theorem loopMany_fuel {α : Type} (dec1 : Bytes → Except Err (α × Bytes)) (hp : Progress dec1) :
    ∀ (n m : Nat) (bs : Bytes), bs.length ≤ n → bs.length ≤ m →
      loopMany dec1 n bs = loopMany dec1 m bs := by
  intro n
  induction n with
  | zero =>
    intro m bs h0 _
    have : bs = [] := List.eq_nil_of_length_eq_zero (by omega)
    subst this
    cases m <;> simp [loopMany]
  | succ n ih =>
    intro m bs hn hm
    cases m with
    | zero =>
      have : bs = [] := List.eq_nil_of_length_eq_zero (by omega)
      subst this
      simp [loopMany]
    | succ m =>
      simp only [loopMany]
      refine ite_congr rfl (fun _ => rfl) (fun _ => ?_)
      refine bind_congr_ok fun ⟨x, r⟩ hx => ?_
      have := hp _ _ _ hx
      simp only
      rw [ih m r (by omega) (by omega)]

theorem readOctets_shorter (e : Option Tag) (bs v r : Bytes) (h : readOctets e bs = .ok (v, r)) :
    r.length + 2 ≤ bs.length := (readTLV_shorter e bs v r h).1

theorem readBool_shorter (e : Option Tag) (bs : Bytes) (b : Bool) (r : Bytes)
    (h : readBool e bs = .ok (b, r)) : r.length + 2 ≤ bs.length := by
  unfold readBool at h
  cases h1 : readTLV e bs with
  | error err => rw [h1] at h; cases h
  | ok p =>
    obtain ⟨c, r'⟩ := p
    rw [h1] at h
    simp only [Except.ok.injEq, Prod.mk.injEq] at h
    obtain ⟨_, rfl⟩ := h
    exact (readTLV_shorter e bs c r' h1).1

theorem readInt_shorter (e : Option Tag) (bs : Bytes) (v : Int) (r : Bytes)
    (h : readInt e bs = .ok (v, r)) : r.length + 2 ≤ bs.length := by
  unfold readInt at h
  cases h1 : readTLV e bs with
  | error err => rw [h1] at h; cases h
  | ok p =>
    obtain ⟨c, r'⟩ := p
    rw [h1] at h
    simp only at h
    cases h2 : readIntContent c with
    | error err => rw [h2] at h; cases h
    | ok v' =>
      rw [h2] at h
      simp only [Except.ok.injEq, Prod.mk.injEq] at h
      obtain ⟨_, rfl⟩ := h
      exact (readTLV_shorter e bs c r' h1).1

theorem skipValue_shorter (bs r : Bytes) (h : skipValue bs = .ok r) : r.length + 2 ≤ bs.length := by
  unfold skipValue at h
  cases h1 : readHeader bs with
  | error err => rw [h1] at h; cases h
  | ok hd =>
    rw [h1] at h
    simp only [Except.ok.injEq] at h
    subst h
    have := readHeader_hlen_bounds bs hd h1
    simp only [List.length_drop]
    omega

theorem decSubstrLoop_fuel : ∀ (n m : Nat) (bs : Bytes) (acc : SubstrAcc), bs.length ≤ n → bs.length ≤ m →
    decSubstrLoop n bs acc = decSubstrLoop m bs acc := by
  intro n
  induction n with
  | zero =>
    intro m bs acc h0 _
    have : bs = [] := List.eq_nil_of_length_eq_zero (by omega)
    subst this
    cases m <;> simp [decSubstrLoop]
  | succ n ih =>
    intro m bs acc hn hm
    cases m with
    | zero =>
      have : bs = [] := List.eq_nil_of_length_eq_zero (by omega)
      subst this
      simp [decSubstrLoop]
    | succ m =>
      simp only [decSubstrLoop]
      refine ite_congr rfl (fun _ => rfl) (fun _ => ?_)
      refine bind_congr_ok fun h _ => ?_
      refine ite_congr rfl (fun _ => ?_) (fun _ => ?_)
      · refine ite_congr rfl (fun _ => rfl) (fun _ => ?_)
        refine bind_congr_ok fun ⟨v, r⟩ hx => ?_
        have := readOctets_shorter _ _ _ _ hx
        exact ih m r _ (by omega) (by omega)
      refine ite_congr rfl (fun _ => ?_) (fun _ => ?_)
      · refine bind_congr_ok fun ⟨v, r⟩ hx => ?_
        have := readOctets_shorter _ _ _ _ hx
        exact ih m r _ (by omega) (by omega)
      refine ite_congr rfl (fun _ => ?_) (fun _ => ?_)
      · refine ite_congr rfl (fun _ => rfl) (fun _ => ?_)
        refine bind_congr_ok fun ⟨v, r⟩ hx => ?_
        have := readOctets_shorter _ _ _ _ hx
        exact ih m r _ (by omega) (by omega)
      · refine bind_congr_ok fun r hx => ?_
        have := skipValue_shorter _ _ hx
        exact ih m r _ (by omega) (by omega)

theorem decExtLoop_fuel : ∀ (n m : Nat) (bs : Bytes) (acc : ExtAcc), bs.length ≤ n → bs.length ≤ m →
    decExtLoop n bs acc = decExtLoop m bs acc := by
  intro n
  induction n with
  | zero =>
    intro m bs acc h0 _
    have : bs = [] := List.eq_nil_of_length_eq_zero (by omega)
    subst this
    cases m <;> simp [decExtLoop]
  | succ n ih =>
    intro m bs acc hn hm
    cases m with
    | zero =>
      have : bs = [] := List.eq_nil_of_length_eq_zero (by omega)
      subst this
      simp [decExtLoop]
    | succ m =>
      simp only [decExtLoop]
      refine ite_congr rfl (fun _ => rfl) (fun _ => ?_)
      refine bind_congr_ok fun h _ => ?_
      refine ite_congr rfl (fun _ => ?_) (fun _ => ?_)
      · refine bind_congr_ok fun ⟨v, r⟩ hx => ?_
        have := readText_shorter _ _ _ _ hx
        exact ih m r _ (by omega) (by omega)
      refine ite_congr rfl (fun _ => ?_) (fun _ => ?_)
      · refine bind_congr_ok fun ⟨v, r⟩ hx => ?_
        have := readText_shorter _ _ _ _ hx
        exact ih m r _ (by omega) (by omega)
      refine ite_congr rfl (fun _ => ?_) (fun _ => ?_)
      · refine bind_congr_ok fun ⟨v, r⟩ hx => ?_
        have := readOctets_shorter _ _ _ _ hx
        exact ih m r _ (by omega) (by omega)
      refine ite_congr rfl (fun _ => ?_) (fun _ => ?_)
      · refine bind_congr_ok fun ⟨v, r⟩ hx => ?_
        have := readBool_shorter _ _ _ _ hx
        exact ih m r _ (by omega) (by omega)
      · refine bind_congr_ok fun r hx => ?_
        have := skipValue_shorter _ _ hx
        exact ih m r _ (by omega) (by omega)

theorem decOptLoop_fuel (n1 : Nat) (text1 : Bool) (n2 : Option Nat) :
    ∀ (n m : Nat) (bs : Bytes) (a b : Option Bytes), bs.length ≤ n → bs.length ≤ m →
    decOptLoop n1 text1 n2 n bs a b = decOptLoop n1 text1 n2 m bs a b := by
  intro n
  induction n with
  | zero =>
    intro m bs a b h0 _
    have : bs = [] := List.eq_nil_of_length_eq_zero (by omega)
    subst this
    cases m <;> simp [decOptLoop]
  | succ n ih =>
    intro m bs a b hn hm
    cases m with
    | zero =>
      have : bs = [] := List.eq_nil_of_length_eq_zero (by omega)
      subst this
      simp [decOptLoop]
    | succ m =>
      simp only [decOptLoop]
      refine ite_congr rfl (fun _ => rfl) (fun _ => ?_)
      refine bind_congr_ok fun h _ => ?_
      refine ite_congr rfl (fun _ => ?_) (fun _ => ?_)
      · refine bind_congr_ok fun ⟨v, r⟩ hx => ?_
        have : r.length + 2 ≤ bs.length := by
          cases text1
          · exact readOctets_shorter _ _ _ _ hx
          · exact readText_shorter _ _ _ _ hx
        exact ih m r _ _ (by omega) (by omega)
      refine ite_congr rfl (fun _ => ?_) (fun _ => ?_)
      · refine bind_congr_ok fun ⟨v, r⟩ hx => ?_
        have := readOctets_shorter _ _ _ _ hx
        exact ih m r _ _ (by omega) (by omega)
      · refine bind_congr_ok fun r hx => ?_
        have := skipValue_shorter _ _ hx
        exact ih m r _ _ (by omega) (by omega)

theorem decEnvelopeLoop_fuel (regs : Regs) :
    ∀ (n m : Nat) (bs : Bytes) (cs : List Control) (rn : Option Bytes), bs.length ≤ n → bs.length ≤ m →
    decEnvelopeLoop regs n bs cs rn = decEnvelopeLoop regs m bs cs rn := by
  intro n
  induction n with
  | zero =>
    intro m bs cs rn h0 _
    have : bs = [] := List.eq_nil_of_length_eq_zero (by omega)
    subst this
    cases m <;> simp [decEnvelopeLoop]
  | succ n ih =>
    intro m bs cs rn hn hm
    cases m with
    | zero =>
      have : bs = [] := List.eq_nil_of_length_eq_zero (by omega)
      subst this
      simp [decEnvelopeLoop]
    | succ m =>
      simp only [decEnvelopeLoop]
      refine ite_congr rfl (fun _ => rfl) (fun _ => ?_)
      refine bind_congr_ok fun h _ => ?_
      refine ite_congr rfl (fun _ => ?_) (fun _ => ?_)
      · refine bind_congr_ok fun ⟨c, r⟩ hx => ?_
        have := (readTLV_shorter _ _ _ _ hx).1
        refine bind_congr_ok fun more _ => ?_
        exact ih m r _ _ (by omega) (by omega)
      refine ite_congr rfl (fun _ => ?_) (fun _ => ?_)
      · refine bind_congr_ok fun ⟨v, r⟩ hx => ?_
        have := readText_shorter _ _ _ _ hx
        exact ih m r _ _ (by omega) (by omega)
      · refine bind_congr_ok fun r hx => ?_
        have := skipValue_shorter _ _ hx
        exact ih m r _ _ (by omega) (by omega)

theorem snd_of_bind {α β : Type} {rest : Bytes} {x : Except Err α} {f : α → Except Err (β × Bytes)}
    (h : ∀ a y, f a = .ok y → y.2 = rest) {y : β × Bytes} (hy : (x >>= f) = .ok y) : y.2 = rest := by
  obtain ⟨a, _, ha⟩ := bind_ok hy
  exact h a y ha

theorem decControl_rest (regs : Regs) (bs : Bytes) (x : Control) (r : Bytes)
    (h : decControl regs bs = .ok (x, r)) : ∃ c, readTLV (some tSeq) bs = .ok (c, r) := by
  unfold decControl at h
  obtain ⟨⟨c, rest⟩, h1, h⟩ := bind_ok h
  refine ⟨c, ?_⟩
  rw [h1]
  suffices hs : ((x, r) : Control × Bytes).2 = rest by simp only at hs; rw [hs]
  revert h
  generalize ((x, r) : Control × Bytes) = y
  intro h
  refine snd_of_bind (fun ⟨t, c1⟩ y h => ?_) h
  refine snd_of_bind (fun ⟨crit, c2, fresh⟩ y h => ?_) h
  refine snd_of_bind (fun value y h => ?_) h
  simp only at h
  split at h
  · refine snd_of_bind (fun ⟨size, cookie⟩ y h => ?_) h
    simp only [pure, Except.pure, Except.ok.injEq] at h
    rw [← h]
  split at h
  · simp only [pure, Except.pure, Except.ok.injEq] at h
    rw [← h]
  split at h
  · simp only [pure, Except.pure, Except.ok.injEq] at h
    rw [← h]
  split at h
  · split at h
    · simp only [pure, Except.pure, Except.ok.injEq] at h
      rw [← h]
    · cases h
  · simp only [pure, Except.pure, Except.ok.injEq] at h
    rw [← h]

theorem readTLV_none_of (e : Option Tag) (bs : Bytes) (p : Bytes × Bytes) (h : readTLV e bs = .ok p) :
    readTLV none bs = .ok p := by
  obtain ⟨c, r⟩ := p
  obtain ⟨hd, hh, _, hle, hc, hr⟩ := readTLV_ok e bs c r h
  rw [readTLV_eq, hh]
  simp only [tagBad, Bool.false_eq_true, ↓reduceIte]
  rw [if_neg (by omega), ← hc, ← hr]

theorem readText_rest (e : Option Tag) (bs t r : Bytes) (h : readText e bs = .ok (t, r)) :
    ∃ c, readTLV e bs = .ok (c, r) := by
  unfold readText at h
  cases h1 : readTLV e bs with
  | error err => rw [h1] at h; cases h
  | ok p =>
    obtain ⟨c, r'⟩ := p
    rw [h1] at h
    simp only at h
    cases h2 : decodeText c with
    | error err => rw [h2] at h; cases h
    | ok t' =>
      rw [h2] at h
      simp only [Except.ok.injEq, Prod.mk.injEq] at h
      obtain ⟨_, rfl⟩ := h
      exact ⟨c, rfl⟩

theorem decAva_rest (n : Nat) (bs : Bytes) (av : Bytes × Bytes) (r : Bytes)
    (h : decAva n bs = .ok (av, r)) : ∃ c, readTLV (some (tagCtx n true)) bs = .ok (c, r) := by
  unfold decAva at h
  obtain ⟨⟨c, rest⟩, h1, h⟩ := bind_ok h
  obtain ⟨⟨a, c1⟩, _, h⟩ := bind_ok h
  obtain ⟨⟨v, c2⟩, _, h⟩ := bind_ok h
  simp only [pure, Except.pure, Except.ok.injEq, Prod.mk.injEq] at h
  obtain ⟨_, rfl⟩ := h
  exact ⟨c, h1⟩

theorem decAttr_rest (bs : Bytes) (x : Bytes × List Bytes) (r : Bytes)
    (h : decAttr bs = .ok (x, r)) : ∃ c, readTLV (some tSeq) bs = .ok (c, r) := by
  unfold decAttr at h
  obtain ⟨⟨c, rest⟩, h1, h⟩ := bind_ok h
  obtain ⟨⟨a, c1⟩, _, h⟩ := bind_ok h
  obtain ⟨⟨v, c2⟩, _, h⟩ := bind_ok h
  obtain ⟨vals, _, h⟩ := bind_ok h
  simp only [pure, Except.pure, Except.ok.injEq, Prod.mk.injEq] at h
  obtain ⟨_, rfl⟩ := h
  exact ⟨c, h1⟩

/-- a successful `decFilter` consumes exactly the element at the head of its input -/
theorem decFilter_rest (regs : Regs) (d : Nat) (bs : Bytes) (f : Filter) (rest : Bytes)
    (hr : decFilter regs d bs = .ok (f, rest)) : ∃ c, readTLV none bs = .ok (c, rest) := by
  cases d with
  | zero => cases hr
  | succ d =>
    unfold decFilter at hr
    obtain ⟨h, hh, hr⟩ := bind_ok hr
    by_cases hc : h.tag.cls ≠ 2
    · rw [if_pos hc] at hr; cases hr
    rw [if_neg hc] at hr
    by_cases h0 : h.tag.num = Facts.filterAnd
    · rw [if_pos h0] at hr
      obtain ⟨⟨c, r⟩, h1, hr⟩ := bind_ok hr
      obtain ⟨fs, h2, hr⟩ := bind_ok hr
      simp only [pure, Except.pure, Except.ok.injEq, Prod.mk.injEq] at hr
      obtain ⟨_, rfl⟩ := hr
      exact ⟨c, readTLV_none_of _ _ _ h1⟩
    rw [if_neg h0] at hr
    by_cases h1 : h.tag.num = Facts.filterOr
    · rw [if_pos h1] at hr
      obtain ⟨⟨c, r⟩, h1, hr⟩ := bind_ok hr
      obtain ⟨fs, h2, hr⟩ := bind_ok hr
      simp only [pure, Except.pure, Except.ok.injEq, Prod.mk.injEq] at hr
      obtain ⟨_, rfl⟩ := hr
      exact ⟨c, readTLV_none_of _ _ _ h1⟩
    rw [if_neg h1] at hr
    by_cases h2 : h.tag.num = Facts.filterNot
    · rw [if_pos h2] at hr
      obtain ⟨⟨c, r⟩, h1, hr⟩ := bind_ok hr
      obtain ⟨⟨g, r'⟩, h2, hr⟩ := bind_ok hr
      simp only [pure, Except.pure, Except.ok.injEq, Prod.mk.injEq] at hr
      obtain ⟨_, rfl⟩ := hr
      exact ⟨c, readTLV_none_of _ _ _ h1⟩
    rw [if_neg h2] at hr
    by_cases h3 : h.tag.num = Facts.filterEq
    · rw [if_pos h3] at hr
      obtain ⟨⟨⟨a, v⟩, r⟩, h1, hr⟩ := bind_ok hr
      simp only [pure, Except.pure, Except.ok.injEq, Prod.mk.injEq] at hr
      obtain ⟨_, rfl⟩ := hr
      obtain ⟨c, hc⟩ := decAva_rest _ _ _ _ h1
      exact ⟨c, readTLV_none_of _ _ _ hc⟩
    rw [if_neg h3] at hr
    by_cases h4 : h.tag.num = Facts.filterSubstr
    · rw [if_pos h4] at hr
      obtain ⟨⟨c, r⟩, h1, hr⟩ := bind_ok hr
      obtain ⟨⟨a, c1⟩, h2, hr⟩ := bind_ok hr
      obtain ⟨⟨sc, r'⟩, h3, hr⟩ := bind_ok hr
      obtain ⟨acc, h4, hr⟩ := bind_ok hr
      simp only [pure, Except.pure, Except.ok.injEq, Prod.mk.injEq] at hr
      obtain ⟨_, rfl⟩ := hr
      exact ⟨c, readTLV_none_of _ _ _ h1⟩
    rw [if_neg h4] at hr
    by_cases h5 : h.tag.num = Facts.filterGe
    · rw [if_pos h5] at hr
      obtain ⟨⟨⟨a, v⟩, r⟩, h1, hr⟩ := bind_ok hr
      simp only [pure, Except.pure, Except.ok.injEq, Prod.mk.injEq] at hr
      obtain ⟨_, rfl⟩ := hr
      obtain ⟨c, hc⟩ := decAva_rest _ _ _ _ h1
      exact ⟨c, readTLV_none_of _ _ _ hc⟩
    rw [if_neg h5] at hr
    by_cases h6 : h.tag.num = Facts.filterLe
    · rw [if_pos h6] at hr
      obtain ⟨⟨⟨a, v⟩, r⟩, h1, hr⟩ := bind_ok hr
      simp only [pure, Except.pure, Except.ok.injEq, Prod.mk.injEq] at hr
      obtain ⟨_, rfl⟩ := hr
      obtain ⟨c, hc⟩ := decAva_rest _ _ _ _ h1
      exact ⟨c, readTLV_none_of _ _ _ hc⟩
    rw [if_neg h6] at hr
    by_cases h7 : h.tag.num = Facts.filterPresent
    · rw [if_pos h7] at hr
      obtain ⟨⟨a, r⟩, h1, hr⟩ := bind_ok hr
      simp only [pure, Except.pure, Except.ok.injEq, Prod.mk.injEq] at hr
      obtain ⟨_, rfl⟩ := hr
      obtain ⟨c, hc⟩ := readText_rest _ _ _ _ h1
      exact ⟨c, readTLV_none_of _ _ _ hc⟩
    rw [if_neg h7] at hr
    by_cases h8 : h.tag.num = Facts.filterApprox
    · rw [if_pos h8] at hr
      obtain ⟨⟨⟨a, v⟩, r⟩, h1, hr⟩ := bind_ok hr
      simp only [pure, Except.pure, Except.ok.injEq, Prod.mk.injEq] at hr
      obtain ⟨_, rfl⟩ := hr
      obtain ⟨c, hc⟩ := decAva_rest _ _ _ _ h1
      exact ⟨c, readTLV_none_of _ _ _ hc⟩
    rw [if_neg h8] at hr
    by_cases h9 : h.tag.num = Facts.filterExt
    · rw [if_pos h9] at hr
      obtain ⟨⟨c, r⟩, h1, hr⟩ := bind_ok hr
      obtain ⟨acc, h4, hr⟩ := bind_ok hr
      simp only [pure, Except.pure, Except.ok.injEq, Prod.mk.injEq] at hr
      obtain ⟨_, rfl⟩ := hr
      exact ⟨c, readTLV_none_of _ _ _ h1⟩
    rw [if_neg h9] at hr
    by_cases h10 : regs.filter = true ∧ h.tag.num = Facts.customFilterId
    · rw [if_pos h10] at hr
      obtain ⟨⟨a, r⟩, h1, hr⟩ := bind_ok hr
      simp only [pure, Except.pure, Except.ok.injEq, Prod.mk.injEq] at hr
      obtain ⟨_, rfl⟩ := hr
      obtain ⟨c, hc⟩ := readText_rest _ _ _ _ h1
      exact ⟨c, readTLV_none_of _ _ _ hc⟩
    rw [if_neg h10] at hr
    cases hr

/-! ### the writers' digit loops -/

theorem digits256_fuel : ∀ (f g n : Nat), n ≤ f → n ≤ g → digits256 f n = digits256 g n := by
  intro f
  induction f with
  | zero =>
    intro g n hf _
    have : n = 0 := by omega
    subst this
    cases g <;> simp [digits256]
  | succ f ih =>
    intro g n hf hg
    cases g with
    | zero =>
      have : n = 0 := by omega
      subst this
      simp [digits256]
    | succ g =>
      simp only [digits256]
      split
      · rfl
      · rw [ih g (n / 256) (by omega) (by omega)]

theorem digits128_fuel : ∀ (f g n : Nat), n ≤ f → n ≤ g → digits128 f n = digits128 g n := by
  intro f
  induction f with
  | zero =>
    intro g n hf _
    have : n = 0 := by omega
    subst this
    cases g <;> simp [digits128]
  | succ f ih =>
    intro g n hf hg
    cases g with
    | zero =>
      have : n = 0 := by omega
      subst this
      simp [digits128]
    | succ g =>
      simp only [digits128]
      split
      · rfl
      · rw [ih g (n / 128) (by omega) (by omega)]

theorem intEmit_fuel (neg : Bool) (limit : Nat) : ∀ (f g v : Nat), v ≤ f → v ≤ g →
    intEmit neg limit f v = intEmit neg limit g v := by
  intro f
  induction f with
  | zero =>
    intro g v hf _
    have : v = 0 := by omega
    subst this
    cases g <;> simp [intEmit]
  | succ f ih =>
    intro g v hf hg
    cases g with
    | zero =>
      have : v = 0 := by omega
      subst this
      simp [intEmit]
    | succ g =>
      simp only [intEmit]
      split
      · rw [ih g (v / 256) (by omega) (by omega)]
      · rfl

/-- the fuel-free digit function of the specification is what the writer's loop computes -/
theorem digits256_eq_be256 : ∀ (f n : Nat), n ≤ f → (digits256 f n).reverse = be256 n := by
  intro f
  induction f with
  | zero =>
    intro n h
    have : n = 0 := by omega
    subst this
    rw [be256]; simp [digits256]
  | succ f ih =>
    intro n h
    rw [be256]
    simp only [digits256]
    split
    · rfl
    · rw [List.reverse_cons, ih (n / 256) (by omega)]

theorem packLen_eq_derLen (n : Nat) : packLen n = derLen n := by
  unfold packLen derLen
  split
  · rfl
  · simp only [digits256_eq_be256 (n + 1) n (by omega), Nat.add_comm]

end Verif.Proofs.C05More
