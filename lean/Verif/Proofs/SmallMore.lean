/-
Proofs for Props/SmallMore.lean, parts C19 and C01 and the C18 `no_unsupported` check (the
explicit C18 coefficients are in SmallMoreRe*.lean).  Core Lean only.
-/
import Verif.Spec.SmallMore
import Verif.Generated.Regexes
import Verif.Proofs.RoundTrip
import Verif.Proofs.Isolation

namespace Verif.Proofs.SmallMore
open Verif Verif.Proofs

set_option linter.unusedSimpArgs false

/-! ## C18: the regenerated patterns contain no `unsupported` node

By kernel evaluation of the decidable statement: nothing about the particular patterns is used. -/

theorem no_unsupported : ∀ p ∈ Regexes.allPatterns, p.2.hasUnsupported = false := by decide +kernel

theorem no_unsupported_groups : ∀ p ∈ Regexes.allGroupPatterns, p.2.1.hasUnsupported = false := by
  decide +kernel

/-! ## C19: registration -/

theorem register_outcome_fresh (s : Sess) (k : RegKind) (h : s.regs.get k = false) :
    (step s (.register k)).2 = .unit := by
  cases k <;> simp only [Regs.get] at h <;> simp [step, h]

theorem register_outcome_dup (s : Sess) (k : RegKind) (h : s.regs.get k = true) :
    (step s (.register k)).2 = .valueError ∧ (step s (.register k)).1 = s := by
  cases k <;> simp only [Regs.get] at h <;> simp [step, h]

theorem register_flag (s : Sess) (k : RegKind) : (step s (.register k)).1.regs.get k = true := by
  cases k <;> simp only [step] <;> split <;> simp_all [Regs.get]

theorem register_other (s : Sess) (k j : RegKind) (h : j ≠ k) :
    (step s (.register k)).1.regs.get j = s.regs.get j := by
  cases k <;> cases j <;> simp only [step] <;> split <;> simp_all [Regs.get]

/-! ### each decoder looks at its own flag only -/

theorem decFilter_congr (regs regs' : Regs) (h : regs.filter = regs'.filter) :
    ∀ (d : Nat) (bs : Bytes), decFilter regs d bs = decFilter regs' d bs := by
  intro d
  induction d with
  | zero => intro bs; rfl
  | succ d ih =>
    intro bs
    have hf : decFilter regs d = decFilter regs' d := funext ih
    simp only [decFilter, hf, h]

theorem decCred_congr (regs regs' : Regs) (h : regs.auth = regs'.auth) (bs : Bytes) :
    decCred regs bs = decCred regs' bs := by
  simp only [decCred, h]

theorem decControl_congr (regs regs' : Regs) (h : regs.control = regs'.control) (bs : Bytes) :
    decControl regs bs = decControl regs' bs := by
  simp only [decControl, h]

theorem decFilter_custom_unreg (regs : Regs) (h : regs.filter = false) (v rest : Bytes) (depth : Nat) :
    decFilter regs (depth + 1) (encFilter (.custom v) ++ rest) = .error .notImpl := by
  rw [decFilter_congr regs {} h]; exact decFilter_custom_unregistered v rest depth

theorem decCred_custom_unreg (regs : Regs) (h : regs.auth = false) (v rest : Bytes) :
    decCred regs (encCred (.custom v) ++ rest) = .error .notImpl := by
  rw [decCred_congr regs {} h]; exact decCred_custom_unregistered v rest

theorem decControl_custom_unreg (regs : Regs) (h : regs.control = false) (crit : Bool) (data : Bytes)
    (raw : Option Bytes) (rest : Bytes) :
    decControl regs (encControl (.custom crit data raw) ++ rest)
      = .ok (.generic Facts.oidCustomControl crit (some (Facts.customControlMagic ++ data)), rest) := by
  rw [decControl_congr regs {} h]; exact decControl_custom_unregistered crit data raw rest

/-! ### a filter that contains a custom filter does not decode in an unregistered session -/

/-- reading a written attribute-value assertion either fails or stops exactly after it -/
theorem decAva_shape (n : Nat) (c rest : Bytes) :
    (∃ e, decAva n (packTLV (tagCtx n true) c ++ rest) = .error e) ∨
      (∃ x, decAva n (packTLV (tagCtx n true) c ++ rest) = .ok (x, rest)) := by
  simp only [decAva, readTLV_some _ _ _ (readable_ctx _ true), bind, Except.bind]
  cases readText (some tOctets) c with
  | error e => left; exact ⟨_, rfl⟩
  | ok p =>
    simp only
    cases readOctets (some tOctets) p.2 with
    | error e => left; exact ⟨_, rfl⟩
    | ok q => right; exact ⟨_, rfl⟩

theorem readText_shape (t : Tag) (c rest : Bytes) (h : Readable t) :
    (∃ e, readText (some t) (packTLV t c ++ rest) = .error e) ∨
      (∃ x, readText (some t) (packTLV t c ++ rest) = .ok (x, rest)) := by
  simp only [readText, readTLV_some _ _ _ h]
  cases decodeText c with
  | error e => left; exact ⟨_, rfl⟩
  | ok x => right; exact ⟨_, rfl⟩

/-- decoding a written filter either fails or stops exactly after it -/
theorem decFilter_enc_shape (regs : Regs) (f : Filter) (d : Nat) (rest : Bytes) :
    (∃ e, decFilter regs d (encFilter f ++ rest) = .error e) ∨
      (∃ x, decFilter regs d (encFilter f ++ rest) = .ok (x, rest)) := by
  cases d with
  | zero => left; exact ⟨_, rfl⟩
  | succ d =>
    cases f with
    | and fs =>
      rw [encFilter, decFilter_and_head]
      simp only [readTLV_some _ _ _ (readable_ctx _ true), bind, Except.bind]
      split
      · left; exact ⟨_, rfl⟩
      · right; exact ⟨_, rfl⟩
    | or fs =>
      rw [encFilter, decFilter_or_head]
      simp only [readTLV_some _ _ _ (readable_ctx _ true), bind, Except.bind]
      split
      · left; exact ⟨_, rfl⟩
      · right; exact ⟨_, rfl⟩
    | not f =>
      rw [encFilter, decFilter_not_head]
      simp only [readTLV_some _ _ _ (readable_ctx _ true), bind, Except.bind]
      split
      · left; exact ⟨_, rfl⟩
      · right; exact ⟨_, rfl⟩
    | eq a v =>
      rw [encFilter, decFilter_eq_head]
      rcases decAva_shape _ (packOctets a ++ packOctets v) rest with ⟨e, he⟩ | ⟨x, hx⟩
      · left; rw [he]; exact ⟨_, rfl⟩
      · right; rw [hx]; exact ⟨_, rfl⟩
    | ge a v =>
      rw [encFilter, decFilter_ge_head]
      rcases decAva_shape _ (packOctets a ++ packOctets v) rest with ⟨e, he⟩ | ⟨x, hx⟩
      · left; rw [he]; exact ⟨_, rfl⟩
      · right; rw [hx]; exact ⟨_, rfl⟩
    | le a v =>
      rw [encFilter, decFilter_le_head]
      rcases decAva_shape _ (packOctets a ++ packOctets v) rest with ⟨e, he⟩ | ⟨x, hx⟩
      · left; rw [he]; exact ⟨_, rfl⟩
      · right; rw [hx]; exact ⟨_, rfl⟩
    | approx a v =>
      rw [encFilter, decFilter_approx_head]
      rcases decAva_shape _ (packOctets a ++ packOctets v) rest with ⟨e, he⟩ | ⟨x, hx⟩
      · left; rw [he]; exact ⟨_, rfl⟩
      · right; rw [hx]; exact ⟨_, rfl⟩
    | substr a i any fin =>
      rw [encFilter, decFilter_substr_head]
      simp only [readTLV_some _ _ _ (readable_ctx _ true), bind, Except.bind]
      split
      · left; exact ⟨_, rfl⟩
      · split
        · left; exact ⟨_, rfl⟩
        · split
          · left; exact ⟨_, rfl⟩
          · right; exact ⟨_, rfl⟩
    | present a =>
      rw [encFilter, packOctets_eq, decFilter_present_head]
      rcases readText_shape _ a rest (readable_ctx _ false) with ⟨e, he⟩ | ⟨x, hx⟩
      · left; rw [he]; exact ⟨_, rfl⟩
      · right; rw [hx]; exact ⟨_, rfl⟩
    | ext rule attr v dn =>
      rw [encFilter, decFilter_ext_head]
      simp only [readTLV_some _ _ _ (readable_ctx _ true), bind, Except.bind]
      split
      · left; exact ⟨_, rfl⟩
      · right; exact ⟨_, rfl⟩
    | custom v =>
      cases hr : regs.filter with
      | false => left; exact ⟨_, decFilter_custom_unreg regs hr v rest d⟩
      | true =>
        rw [encFilter, packOctets_eq, decFilter_custom_head _ _ _ _ hr]
        rcases readText_shape _ v rest (readable_ctx _ false) with ⟨e, he⟩ | ⟨x, hx⟩
        · left; rw [he]; exact ⟨_, rfl⟩
        · right; rw [hx]; exact ⟨_, rfl⟩

theorem encFilters_ne_nil_of_any {fs : List Filter} (h : Filter.anyCustom fs = true) : encFilters fs ≠ [] := by
  cases fs with
  | nil => simp [Filter.anyCustom] at h
  | cons f fs =>
    intro hn
    simp only [encFilters, List.append_eq_nil_iff] at hn
    exact encFilter_ne_nil f hn.1

mutual
theorem decFilter_hasCustom (regs : Regs) (hr : regs.filter = false) :
    ∀ (f : Filter) (d : Nat) (rest : Bytes), f.hasCustom = true →
      ∃ e, decFilter regs d (encFilter f ++ rest) = .error e
  | _, 0, _, _ => ⟨_, rfl⟩
  | .custom v, d + 1, rest, _ => ⟨_, decFilter_custom_unreg regs hr v rest d⟩
  | .not f, d + 1, rest, h => by
    simp only [Filter.hasCustom] at h
    obtain ⟨e, he⟩ := decFilter_hasCustom regs hr f d [] h
    rw [List.append_nil] at he
    rw [encFilter, decFilter_not_head]
    simp only [readTLV_some _ _ _ (readable_ctx _ true), bind, Except.bind, he]
    exact ⟨_, rfl⟩
  | .and fs, d + 1, rest, h => by
    simp only [Filter.hasCustom] at h
    obtain ⟨e, he⟩ := loopFilters_anyCustom regs hr fs d (encFilters fs).length h
    rw [encFilter, decFilter_and_head]
    simp only [readTLV_some _ _ _ (readable_ctx _ true), bind, Except.bind, he]
    exact ⟨_, rfl⟩
  | .or fs, d + 1, rest, h => by
    simp only [Filter.hasCustom] at h
    obtain ⟨e, he⟩ := loopFilters_anyCustom regs hr fs d (encFilters fs).length h
    rw [encFilter, decFilter_or_head]
    simp only [readTLV_some _ _ _ (readable_ctx _ true), bind, Except.bind, he]
    exact ⟨_, rfl⟩
  | .eq .., _ + 1, _, h | .ge .., _ + 1, _, h | .le .., _ + 1, _, h | .approx .., _ + 1, _, h
  | .present .., _ + 1, _, h | .substr .., _ + 1, _, h | .ext .., _ + 1, _, h => by
    simp [Filter.hasCustom] at h
theorem loopFilters_anyCustom (regs : Regs) (hr : regs.filter = false) :
    ∀ (fs : List Filter) (d fuel : Nat), Filter.anyCustom fs = true →
      ∃ e, loopMany (decFilter regs d) fuel (encFilters fs) = .error e
  | [], _, _, h => by simp [Filter.anyCustom] at h
  | f :: fs, d, fuel, h => by
    have hne : (encFilters (f :: fs)).isEmpty = false := by
      have := encFilters_ne_nil_of_any h
      cases h' : encFilters (f :: fs) <;> simp_all
    cases fuel with
    | zero => simp only [loopMany, hne]; exact ⟨_, rfl⟩
    | succ fuel =>
      simp only [loopMany, hne, Bool.false_eq_true, ↓reduceIte, bind, Except.bind]
      simp only [encFilters]
      rcases decFilter_enc_shape regs f d (encFilters fs) with ⟨e, he⟩ | ⟨x, hx⟩
      · rw [he]; exact ⟨_, rfl⟩
      · rw [hx]
        simp only [Filter.anyCustom, Bool.or_eq_true] at h
        rcases h with h | h
        · obtain ⟨e, he⟩ := decFilter_hasCustom regs hr f d (encFilters fs) h
          rw [he] at hx; cases hx
        · obtain ⟨e, he⟩ := loopFilters_anyCustom regs hr fs d fuel h
          simp only [he]; exact ⟨_, rfl⟩
end

/-! ### the operation, the message, the receive call -/

theorem decOp_customFilter (regs : Regs) (hr : regs.filter = false) (depth : Nat) (op : Op)
    (h : op.hasCustomFilter = true) : ∃ e, decOp regs depth (opTag op) (encOp op) = .error e := by
  have hn := opNumbers_distinct
  simp only [List.pairwise_cons, List.mem_cons, List.not_mem_nil, or_false, forall_eq_or_imp,
    forall_eq] at hn
  cases op with
  | searchReq b sc dr sl tl ty f attrs =>
    simp only [Op.hasCustomFilter] at h
    obtain ⟨e, he⟩ := decFilter_hasCustom regs hr f depth (packTLV tSeq (encTexts attrs)) h
    simp only [decOp, opTag, encOp, hn, ↓reduceIte, packInt_eq, packEnum_eq, packOctets_eq,
      packBool_eq, List.append_assoc, readOctets_some _ _ _ readable_tOctets,
      readInt_some _ _ _ readable_tEnum, readInt_some _ _ _ readable_tInt,
      readBool_some _ _ _ readable_tBool, he, bind, Except.bind]
    split
    · exact ⟨_, rfl⟩
    · split
      · exact ⟨_, rfl⟩
      · exact ⟨_, rfl⟩
  | _ => simp [Op.hasCustomFilter] at h

theorem decOp_customCred (regs : Regs) (hr : regs.auth = false) (depth : Nat) (op : Op)
    (h : op.hasCustomCred = true) : ∃ e, decOp regs depth (opTag op) (encOp op) = .error e := by
  have hn := opNumbers_distinct
  simp only [List.pairwise_cons, List.mem_cons, List.not_mem_nil, or_false, forall_eq_or_imp,
    forall_eq] at hn
  cases op with
  | bindReq v n c =>
    cases c with
    | custom cv =>
      have hc := decCred_custom_unreg regs hr cv []
      rw [List.append_nil] at hc
      simp only [decOp, opTag, encOp, hn, ↓reduceIte, packInt_eq, packOctets_eq, List.append_assoc,
        readInt_some _ _ _ readable_tInt, bind, Except.bind]
      rcases readText_shape tOctets n (encCred (.custom cv)) readable_tOctets with ⟨e, he⟩ | ⟨x, hx⟩
      · rw [he]; exact ⟨_, rfl⟩
      · rw [hx]
        simp only [hc]
        exact ⟨_, rfl⟩
    | _ => simp [Op.hasCustomCred] at h
  | _ => simp [Op.hasCustomCred] at h

/-- a message whose operation does not decode does not decode (whatever its controls are), and
    the error is not "more data needed" -/
theorem decMsg_of_decOp_error (regs : Regs) (depth : Nat) (m : Msg) (rest : Bytes)
    (h : ∃ e, decOp regs depth (opTag m.op) (encOp m.op) = .error e) :
    ∃ e, e ≠ Err.notEnough ∧ decMsg regs depth (encMsg m ++ rest) = .error e := by
  obtain ⟨e, he⟩ := h
  have hc : ∃ e', decContents regs depth
      (packInt m.id ++ packTLV (tagApp (opTag m.op) true) (encOp m.op)
        ++ (if m.controls.isEmpty then [] else
              packTLV (tagCtx 0 true) (m.controls.map encControl).flatten)) = .error e' := by
    simp only [decContents, packInt_eq, List.append_assoc, readInt_some _ _ _ readable_tInt,
      readHeader_packTLV _ _ _ (readable_app _ true), readTLV_none _ _ _ (readable_app _ true),
      tagApp_cls, tagApp_num, knownOp_opTag, he, bind, Except.bind]
    simp only [ne_eq, not_true_eq_false, ↓reduceIte, Bool.not_true, Bool.false_eq_true]
    split
    · exact ⟨_, rfl⟩
    · exact ⟨_, rfl⟩
  obtain ⟨e', he'⟩ := hc
  simp only [decMsg, encMsg, readTLV_some _ _ _ readable_tSeq, he']
  cases e' with
  | notEnough => exact ⟨.valueError, by decide, rfl⟩
  | valueError => exact ⟨.valueError, by decide, rfl⟩
  | notImpl => exact ⟨.notImpl, by decide, rfl⟩
  | recursion => exact ⟨.recursion, by decide, rfl⟩

theorem encMsg_ne_nil (m : Msg) : encMsg m ≠ [] := packTLV_ne_nil _ _

/-- `receive` on a buffer that starts with a message that does not decode: ProtocolError, the
    session is closed -/
theorem recv_of_decMsg_error (depth : Nat) (s : Sess) (chunk : Bytes) (m : Msg) (tail : Bytes)
    (hs : s.state ≠ .closed) (hbuf : s.residue ++ chunk = encMsg m ++ tail)
    (h : ∃ e, e ≠ Err.notEnough ∧ decMsg s.regs depth (encMsg m ++ tail) = .error e) :
    recv depth s chunk
      = (closeSess { s with residue := s.residue ++ chunk },
          .protocolError (notificationFor s.role false false)) := by
  obtain ⟨e, hne, he⟩ := h
  have hlen : (encMsg m ++ tail).length = (encMsg m ++ tail).length - 1 + 1 := by
    have := packTLV_length tSeq (packInt m.id ++ packTLV (tagApp (opTag m.op) true) (encOp m.op)
        ++ (if m.controls.isEmpty then [] else
              packTLV (tagCtx 0 true) (m.controls.map encControl).flatten))
    have h2 : 2 ≤ (encMsg m).length := this
    rw [List.length_append]; omega
  have hemp : (encMsg m ++ tail).isEmpty = false := by
    have := encMsg_ne_nil m
    cases h' : encMsg m <;> simp_all
  have hp : ∃ e', parseLoop s.regs depth (encMsg m ++ tail).length (encMsg m ++ tail) = .error e' := by
    rw [hlen]
    simp only [parseLoop, hemp, Bool.false_eq_true, ↓reduceIte, he]
    cases e with
    | notEnough => exact absurd rfl hne
    | valueError => exact ⟨_, rfl⟩
    | notImpl => exact ⟨_, rfl⟩
    | recursion => exact ⟨_, rfl⟩
  obtain ⟨e', he'⟩ := hp
  simp only [recv, hs, ↓reduceIte, hbuf, he']

/-! ## C01: controls as the receiver sees them -/

theorem ctlDispatch_eq (regs : Regs) (oid : Bytes) (crit : Bool) (value : Option Bytes) (rest : Bytes) :
    ctlDispatch regs oid crit value rest =
      (match receivedControl regs oid crit value with
       | .ok c => .ok (c, rest)
       | .error e => .error e) := by
  unfold ctlDispatch receivedControl
  by_cases h1 : oid = Facts.oidPaged
  · simp only [h1, ↓reduceIte, bind, Except.bind]
    cases decPagedValue (value.getD []) with
    | error e => rfl
    | ok x => rfl
  · simp only [h1, ↓reduceIte]
    by_cases h2 : oid = Facts.oidShowDeactivated
    · simp only [h2, ↓reduceIte]; rfl
    · simp only [h2, ↓reduceIte]
      by_cases h3 : oid = Facts.oidShowDeleted
      · simp only [h3, ↓reduceIte]; rfl
      · simp only [h3, ↓reduceIte]
        by_cases h4 : regs.control = true ∧ oid = Facts.oidCustomControl
        · simp only [h4, and_self, ↓reduceIte]
          split <;> rfl
        · simp only [h4, ↓reduceIte]; rfl

theorem controlOid_text_of_typed (c : Control) (h : ∀ oid crit v, c ≠ .generic oid crit v) :
    IsText (controlOid c) := by
  cases c with
  | generic oid crit v => exact absurd rfl (h oid crit v)
  | paged => exact oidPaged_text
  | showDeleted => exact oidShowDeleted_text
  | showDeactivated => exact oidShowDeactivated_text
  | custom => exact oidCustomControl_text

/-- the decoder's result on ANY written control is the receiver's reading of its wire triple -/
theorem decControl_received (regs : Regs) (c : Control) (rest : Bytes) (h : IsText (controlOid c)) :
    decControl regs (encControl c ++ rest) =
      (match Control.received regs c with
       | .ok c' => .ok (c', rest)
       | .error e => .error e) := by
  rw [encControl, decControl_fields _ _ _ _ _ h, ctlDispatch_eq]; rfl

/-- on the domain of C01 the receiver's reading is `fillRawControl` -/
theorem received_of_WF (regs : Regs) (c : Control) (h : c.WF regs) :
    Control.received regs c = .ok (fillRawControl c) := by
  have ht : IsText (controlOid c) := by
    cases c with
    | generic oid crit v => exact h.1
    | paged => exact oidPaged_text
    | showDeleted => exact oidShowDeleted_text
    | showDeactivated => exact oidShowDeactivated_text
    | custom => exact oidCustomControl_text
  have h1 := decControl_received regs c [] ht
  rw [decControl_enc regs c [] h] at h1
  cases hr : Control.received regs c with
  | error e => rw [hr] at h1; cases h1
  | ok c' => rw [hr] at h1; cases h1; rfl

theorem loopMany_controls (regs : Regs) (cs : List Control) (h : ∀ c ∈ cs, IsText (controlOid c)) :
    ∀ fuel, ((cs.map encControl).flatten).length ≤ fuel →
      loopMany (decControl regs) fuel (cs.map encControl).flatten = receivedControls regs cs := by
  induction cs with
  | nil => intro fuel _; cases fuel <;> simp [loopMany, receivedControls]
  | cons c cs ih =>
    intro fuel hf
    simp only [List.map_cons, List.flatten_cons, List.length_append] at hf ⊢
    have h2 := packTLV_length tSeq (packOctets (controlOid c) ++ (if controlCrit c then packBool true else [])
      ++ optBytes tOctets (controlValue c))
    have h2' : 2 ≤ (encControl c).length := h2
    cases fuel with
    | zero => omega
    | succ fuel =>
      have hne' : (encControl c ++ (cs.map encControl).flatten).isEmpty = false := by
        have := encControl_ne_nil c
        cases h' : encControl c <;> simp_all
      simp only [loopMany, hne', Bool.false_eq_true, ↓reduceIte,
        decControl_received regs c _ (h c (by simp)), bind, Except.bind, receivedControls]
      cases Control.received regs c with
      | error e => rfl
      | ok c' =>
        simp only
        rw [ih (fun y hy => h y (by simp [hy])) fuel (by omega)]
        cases receivedControls regs cs with
        | error e => rfl
        | ok cs' => rfl

theorem decEnvelope_received (regs : Regs) (cs : List Control) (h : ∀ c ∈ cs, IsText (controlOid c))
    (fuel : Nat)
    (hf : (if cs.isEmpty then [] else
      packTLV (tagCtx 0 true) (cs.map encControl).flatten).length ≤ fuel) :
    decEnvelopeLoop regs fuel
      (if cs.isEmpty then [] else packTLV (tagCtx 0 true) (cs.map encControl).flatten) [] none
      = (match receivedControls regs cs with
         | .ok cs' => .ok (cs', none)
         | .error e => .error e) := by
  by_cases he : cs.isEmpty = true
  · have : cs = [] := by simpa using he
    subst this
    simp [decEnvelopeLoop_nil, receivedControls]
  · simp only [he, Bool.false_eq_true, ↓reduceIte] at hf ⊢
    have := packTLV_length (tagCtx 0 true) (cs.map encControl).flatten
    cases fuel with
    | zero => omega
    | succ fuel =>
      simp only [decEnvelopeLoop, packTLV_isEmpty, Bool.false_eq_true, ↓reduceIte,
        readHeader_packTLV' _ _ (readable_ctx 0 true), readTLV_none' _ _ (readable_ctx 0 true),
        bind, Except.bind, tagCtx_cls, tagCtx_num, and_self,
        loopMany_controls regs cs h _ (Nat.le_refl _)]
      cases receivedControls regs cs with
      | error e => rfl
      | ok cs' => simp only [decEnvelopeLoop_nil, List.nil_append]

theorem decContents_received (regs : Regs) (m : Msg) (depth : Nat) (h : m.WFLoose regs)
    (hd : m.op.filterDepth < depth) :
    decContents regs depth
      (packInt m.id ++ packTLV (tagApp (opTag m.op) true) (encOp m.op)
        ++ (if m.controls.isEmpty then [] else
              packTLV (tagCtx 0 true) (m.controls.map encControl).flatten))
      = (match receivedControls regs m.controls with
         | .ok cs => .ok ⟨m.id, m.op, cs⟩
         | .error e => .error e) := by
  obtain ⟨id, op, controls⟩ := m
  obtain ⟨hop, hcs⟩ := h
  simp only at hop hcs hd
  simp only [decContents, packInt_eq, List.append_assoc, readInt_some _ _ _ readable_tInt,
    readHeader_packTLV _ _ _ (readable_app _ true), readTLV_none _ _ _ (readable_app _ true),
    tagApp_cls, tagApp_num, knownOp_opTag, decEnvelope_received regs controls hcs _ (Nat.le_refl _),
    decOp_enc regs depth op hop hd, bind, Except.bind]
  simp only [ne_eq, not_true_eq_false, ↓reduceIte, Bool.not_true, Bool.false_eq_true]
  cases receivedControls regs controls with
  | error e => rfl
  | ok cs => cases op <;> rfl

/-- C01 without the cut on generic controls -/
theorem decMsg_received (regs : Regs) (m : Msg) (rest : Bytes) (depth : Nat) (h : m.WFLoose regs)
    (hd : m.op.filterDepth < depth) :
    decMsg regs depth (encMsg m ++ rest) =
      (match receivedControls regs m.controls with
       | .ok cs => .ok (⟨m.id, m.op, cs⟩, rest)
       | .error .notEnough => .error .valueError
       | .error e => .error e) := by
  simp only [decMsg, encMsg, readTLV_some _ _ _ readable_tSeq, decContents_received regs m depth h hd]
  cases receivedControls regs m.controls with
  | error e => cases e <;> rfl
  | ok cs => rfl

/-! ### what the receiver's reading preserves, and the individual known OIDs -/

theorem receivedControl_wire (regs : Regs) (oid : Bytes) (crit : Bool) (value : Option Bytes) (c' : Control)
    (h : receivedControl regs oid crit value = .ok c') :
    controlOid c' = oid ∧ controlCrit c' = crit ∧ c'.valueAttr = value := by
  unfold receivedControl at h
  by_cases h1 : oid = Facts.oidPaged
  · simp only [h1, ↓reduceIte] at h
    cases hp : decPagedValue (value.getD []) with
    | error e => rw [hp] at h; cases h
    | ok x =>
      obtain ⟨sz, ck⟩ := x
      rw [hp] at h
      cases h
      exact ⟨h1.symm, rfl, rfl⟩
  · simp only [h1, ↓reduceIte] at h
    by_cases h2 : oid = Facts.oidShowDeactivated
    · simp only [h2, ↓reduceIte] at h; cases h; exact ⟨h2.symm, rfl, rfl⟩
    · simp only [h2, ↓reduceIte] at h
      by_cases h3 : oid = Facts.oidShowDeleted
      · simp only [h3, ↓reduceIte] at h; cases h; exact ⟨h3.symm, rfl, rfl⟩
      · simp only [h3, ↓reduceIte] at h
        by_cases h4 : regs.control = true ∧ oid = Facts.oidCustomControl
        · simp only [h4, and_self, ↓reduceIte] at h
          split at h
          · cases h; exact ⟨h4.2.symm, rfl, rfl⟩
          · cases h
        · simp only [h4, ↓reduceIte] at h; cases h; exact ⟨rfl, rfl, rfl⟩

theorem received_wire (regs : Regs) (c c' : Control) (h : Control.received regs c = .ok c') :
    controlOid c' = controlOid c ∧ controlCrit c' = controlCrit c ∧ c'.valueAttr = controlValue c :=
  receivedControl_wire regs _ _ _ c' h

theorem received_generic_paged_ok (regs : Regs) (crit : Bool) (value : Option Bytes) (size : Int)
    (cookie : Bytes) (h : decPagedValue (value.getD []) = .ok (size, cookie)) :
    Control.received regs (.generic Facts.oidPaged crit value) = .ok (.paged crit size cookie value) := by
  simp only [Control.received, receivedControl, controlOid, controlCrit, controlValue, ↓reduceIte, h]

theorem received_generic_paged_error (regs : Regs) (crit : Bool) (value : Option Bytes) (e : Err)
    (h : decPagedValue (value.getD []) = .error e) :
    Control.received regs (.generic Facts.oidPaged crit value) = .error e := by
  simp only [Control.received, receivedControl, controlOid, controlCrit, controlValue, ↓reduceIte, h]

theorem received_generic_paged_canonical (regs : Regs) (crit : Bool) (size : Int) (cookie : Bytes) :
    Control.received regs (.generic Facts.oidPaged crit (some (pagedValue size cookie)))
      = .ok (fillRawControl (.paged crit size cookie none)) :=
  received_generic_paged_ok regs crit _ size cookie (decPagedValue_enc size cookie)

theorem received_generic_showDeleted (regs : Regs) (crit : Bool) (value : Option Bytes) :
    Control.received regs (.generic Facts.oidShowDeleted crit value) = .ok (.showDeleted crit value) := by
  have hd := oids_distinct
  simp only [List.pairwise_cons, List.mem_cons, List.not_mem_nil, or_false, forall_eq_or_imp,
    forall_eq] at hd
  simp only [Control.received, receivedControl, controlOid, controlCrit, controlValue, hd, ↓reduceIte]

theorem received_generic_showDeactivated (regs : Regs) (crit : Bool) (value : Option Bytes) :
    Control.received regs (.generic Facts.oidShowDeactivated crit value)
      = .ok (.showDeactivated crit value) := by
  have hd := oids_distinct
  simp only [List.pairwise_cons, List.mem_cons, List.not_mem_nil, or_false, forall_eq_or_imp,
    forall_eq] at hd
  simp only [Control.received, receivedControl, controlOid, controlCrit, controlValue, hd, ↓reduceIte]

theorem received_generic_custom (regs : Regs) (hr : regs.control = true) (crit : Bool) (value : Option Bytes) :
    Control.received regs (.generic Facts.oidCustomControl crit value) =
      if Facts.customControlMagic.isPrefixOf (value.getD []) then
        .ok (.custom crit ((value.getD []).drop Facts.customControlMagic.length) value)
      else .error .valueError := by
  have hd := oids_distinct
  simp only [List.pairwise_cons, List.mem_cons, List.not_mem_nil, or_false, forall_eq_or_imp,
    forall_eq] at hd
  simp only [Control.received, receivedControl, controlOid, controlCrit, controlValue, hd, hr, and_self,
    ↓reduceIte]
  by_cases hp : Facts.customControlMagic.isPrefixOf (value.getD []) = true <;> simp only [hp, ↓reduceIte] <;> rfl

theorem received_custom_unreg (regs : Regs) (hr : regs.control = false) (crit : Bool) (data : Bytes)
    (raw : Option Bytes) :
    Control.received regs (.custom crit data raw)
      = .ok (.generic Facts.oidCustomControl crit (some (Facts.customControlMagic ++ data))) := by
  have hd := oids_distinct
  simp only [List.pairwise_cons, List.mem_cons, List.not_mem_nil, or_false, forall_eq_or_imp,
    forall_eq] at hd
  simp only [Control.received, receivedControl, controlOid, controlCrit, controlValue, hd, hr,
    Bool.false_eq_true, false_and, ↓reduceIte]

theorem receivedControls_of_WF (regs : Regs) (cs : List Control) (h : ∀ c ∈ cs, c.WF regs) :
    receivedControls regs cs = .ok (cs.map fillRawControl) := by
  induction cs with
  | nil => rfl
  | cons c cs ih =>
    simp only [receivedControls, received_of_WF regs c (h c (by simp)),
      ih (fun y hy => h y (by simp [hy])), List.map_cons]

theorem receivedControls_error (regs : Regs) (pre : List Control) (c : Control) (post : List Control)
    (e : Err) (hpre : ∀ x ∈ pre, x.WF regs) (hc : Control.received regs c = .error e) :
    receivedControls regs (pre ++ c :: post) = .error e := by
  induction pre with
  | nil => simp only [List.nil_append, receivedControls, hc]
  | cons x pre ih =>
    simp only [List.cons_append, receivedControls, received_of_WF regs x (hpre x (by simp)),
      ih (fun y hy => hpre y (by simp [hy]))]

theorem controlOid_text_of_WF (regs : Regs) (c : Control) (h : c.WF regs) : IsText (controlOid c) := by
  cases c with
  | generic oid crit v => exact h.1
  | paged => exact oidPaged_text
  | showDeleted => exact oidShowDeleted_text
  | showDeactivated => exact oidShowDeactivated_text
  | custom => exact oidCustomControl_text

theorem WFLoose_of_WF (regs : Regs) (m : Msg) (h : m.WF regs) : m.WFLoose regs :=
  ⟨h.1, fun c hc => controlOid_text_of_WF regs c (h.2 c hc)⟩

/-- the witness of the audit: paged-results OID, no value -/
theorem decMsg_generic_paged_bad (regs : Regs) (m : Msg) (rest : Bytes) (depth : Nat)
    (pre post : List Control) (crit : Bool) (value : Option Bytes) (e : Err)
    (hop : Op.WF regs m.op) (hd : m.op.filterDepth < depth)
    (hcs : m.controls = pre ++ .generic Facts.oidPaged crit value :: post)
    (hpre : ∀ x ∈ pre, x.WF regs) (hpost : ∀ x ∈ post, IsText (controlOid x))
    (hv : decPagedValue (value.getD []) = .error e) :
    decMsg regs depth (encMsg m ++ rest) = .error (if e = .notEnough then .valueError else e) := by
  have hl : m.WFLoose regs := by
    refine ⟨hop, fun c hc => ?_⟩
    rw [hcs, List.mem_append, List.mem_cons] at hc
    rcases hc with hc | rfl | hc
    · exact controlOid_text_of_WF regs c (hpre c hc)
    · exact oidPaged_text
    · exact hpost c hc
  rw [decMsg_received regs m rest depth hl hd, hcs,
    receivedControls_error regs pre _ post e hpre (received_generic_paged_error regs crit value e hv)]
  cases e <;> rfl

theorem decPagedValue_nil : decPagedValue [] = .error .notEnough := by decide

end Verif.Proofs.SmallMore
