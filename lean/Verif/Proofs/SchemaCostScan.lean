/-
C18 (schema post-processing), part 1: the scanner never returns a position beyond its input, so
every named group of a match is at most as long as the input.
-/
import Verif.Model.SchemaCost

namespace Verif.Proofs.SchemaCost
open Verif Verif.Schema Verif.SchemaCost

/-- a scanner whose result is never longer than its input -/
def Mono (f : Str → Option Str) : Prop := ∀ s r, f s = some r → r.length ≤ s.length

theorem dropWhile_le (p : Nat → Bool) (s : Str) : (s.dropWhile p).length ≤ s.length := by
  have := congrArg List.length (List.takeWhile_append_dropWhile (p := p) (l := s))
  simp only [List.length_append] at this
  omega

theorem takeWhile_le (p : Nat → Bool) (s : Str) : (s.takeWhile p).length ≤ s.length := by
  have := congrArg List.length (List.takeWhile_append_dropWhile (p := p) (l := s))
  simp only [List.length_append] at this
  omega

theorem wsp_le (s : Str) : (wsp s).length ≤ s.length := dropWhile_le _ s

theorem lstripSp_le (s : Str) : (lstripSp s).length ≤ s.length := dropWhile_le _ s

theorem sp1_lt {s r : Str} (h : sp1 s = some r) : r.length < s.length := by
  match s with
  | [] => simp [sp1] at h
  | c :: t =>
    simp only [sp1] at h
    split at h
    · have := wsp_le t
      simp only [Option.some.injEq] at h
      subst h
      simp only [List.length_cons]; omega
    · exact absurd h (by simp)

theorem sp1_mono : Mono sp1 := fun _ _ h => Nat.le_of_lt (sp1_lt h)

theorem lit_mono (w : Str) : Mono (lit w) := by
  intro s r h
  unfold lit at h
  split at h
  · simp only [Option.some.injEq] at h
    subst h
    simp only [List.length_drop]; omega
  · exact absurd h (by simp)

theorem number_mono : Mono number := by
  intro s r h
  unfold number at h
  simp only at h
  split at h
  · exact absurd h (by simp)
  · simp only [Option.some.injEq] at h
    subst h; simp only [List.length_drop]; omega
  · split at h
    · exact absurd h (by simp)
    · simp only [Option.some.injEq] at h
      subst h; simp only [List.length_drop]; omega

theorem arcs_le : ∀ (fuel : Nat) (s : Str), (arcs fuel s).length ≤ s.length := by
  intro fuel
  induction fuel with
  | zero => intro s; simp [arcs]
  | succ fuel ih =>
    intro s
    match s with
    | [] => simp [arcs]
    | c :: r =>
      simp only [arcs]
      split
      · cases hn : number r with
        | none => simp
        | some r' =>
          have := number_mono r r' hn
          have := ih r'
          simp only [List.length_cons]; omega
      · simp

theorem numericoid_mono : Mono numericoid := by
  intro s r h
  unfold numericoid at h
  cases hn : number s with
  | none => rw [hn] at h; exact absurd h (by simp)
  | some r1 =>
    rw [hn] at h
    simp only at h
    split at h
    · simp only [Option.some.injEq] at h
      subst h
      have := number_mono s r1 hn
      have := arcs_le s.length r1
      omega
    · exact absurd h (by simp)

theorem descr_mono : Mono descr := by
  intro s r h
  match s with
  | [] => simp [descr] at h
  | c :: t =>
    simp only [descr] at h
    split at h
    · simp only [Option.some.injEq] at h
      subst h
      have := dropWhile_le isKeyChar t
      simp only [List.length_cons]; omega
    · exact absurd h (by simp)

theorem oid_mono : Mono oid := by
  intro s r h
  unfold oid at h
  cases hd : descr s with
  | some r' => rw [hd] at h; simp only [Option.some.injEq] at h; subst h; exact descr_mono s _ hd
  | none => rw [hd] at h; exact numericoid_mono s r h

theorem qdescr_mono : Mono qdescr := by
  intro s r h
  match s with
  | [] => simp [qdescr] at h
  | c :: t =>
    simp only [qdescr] at h
    split at h
    · cases hd : descr t with
      | none => rw [hd] at h; exact absurd h (by simp)
      | some r' =>
        rw [hd] at h
        have := descr_mono t r' hd
        match r', h with
        | c2 :: r2, h =>
          simp only at h
          split at h
          · simp only [Option.some.injEq] at h
            subst h
            simp only [List.length_cons] at *; omega
          · exact absurd h (by simp)
    · exact absurd h (by simp)

theorem spItems_le {item : Str → Option Str} (hi : Mono item) :
    ∀ (fuel : Nat) (s : Str), (spItems item fuel s).length ≤ s.length := by
  intro fuel
  induction fuel with
  | zero => intro s; simp [spItems]
  | succ fuel ih =>
    intro s
    simp only [spItems]
    cases h1 : sp1 s with
    | none => simp
    | some r =>
      simp only
      cases h2 : item r with
      | none => simp
      | some r' =>
        simp only
        have := sp1_lt h1
        have := hi r r' h2
        have := ih r'
        omega

theorem itemOrList_mono {item : Str → Option Str} (hi : Mono item) : Mono (itemOrList item) := by
  intro s r h
  match s with
  | [] => simp [itemOrList] at h
  | c :: t =>
    simp only [itemOrList] at h
    split at h
    · have hw := wsp_le t
      have fin : ∀ (r2 : Str), r2.length ≤ t.length →
          (match r2 with
            | c2 :: r3 => if c2 = RP then some r3 else none
            | [] => none) = some r → r.length ≤ (c :: t).length := by
        intro r2 h2 h
        match r2, h with
        | [], h => exact absurd h (by simp)
        | c2 :: r3, h =>
          by_cases hc : c2 = RP
          · simp only [hc, if_true, Option.some.injEq] at h
            subst h
            simp only [List.length_cons] at *; omega
          · simp only [hc, if_false] at h
            exact absurd h (by simp)
      cases hit : item (wsp t) with
      | none => rw [hit] at h; exact fin _ hw h
      | some r' =>
        rw [hit] at h
        refine fin _ ?_ h
        show (wsp (spItems item (c :: t).length r')).length ≤ t.length
        have := hi _ _ hit
        have := spItems_le hi (c :: t).length r'
        have := wsp_le (spItems item (c :: t).length r')
        omega
    · exact hi _ _ h

theorem dollarItems_le : ∀ (fuel : Nat) (s : Str), (dollarItems fuel s).length ≤ s.length := by
  intro fuel
  induction fuel with
  | zero => intro s; simp [dollarItems]
  | succ fuel ih =>
    intro s
    simp only [dollarItems]
    have hw := wsp_le s
    generalize wsp s = w at hw
    match w with
    | [] => simp
    | c :: r =>
      simp only
      split
      · cases ho : oid (wsp r) with
        | none => simp
        | some r' =>
          simp only
          have := oid_mono _ _ ho
          have := wsp_le r
          have := ih r'
          simp only [List.length_cons] at hw
          omega
      · simp

theorem oids_mono : Mono oids := by
  intro s r h
  match s with
  | [] => simp [oids] at h
  | c :: t =>
    simp only [oids] at h
    split at h
    · cases ho : oid (wsp t) with
      | none => rw [ho] at h; exact absurd h (by simp)
      | some r1 =>
        rw [ho] at h
        simp only at h
        have := oid_mono _ _ ho
        have := wsp_le t
        have := dollarItems_le (c :: t).length r1
        have h2 := wsp_le (dollarItems (c :: t).length r1)
        generalize wsp (dollarItems (c :: t).length r1) = w at h h2
        match w, h with
        | c2 :: r3, h =>
          simp only at h
          split at h
          · simp only [Option.some.injEq] at h
            subst h
            simp only [List.length_cons] at *; omega
          · exact absurd h (by simp)
    · exact oid_mono _ _ h

theorem dstringItems_le : ∀ (fuel : Nat) (s : Str), (dstringItems fuel s).length ≤ s.length := by
  intro fuel
  induction fuel with
  | zero => intro s; simp [dstringItems]
  | succ fuel ih =>
    intro s
    match s with
    | [] => simp [dstringItems]
    | c :: r =>
      simp only [dstringItems]
      split
      · simp
      · split
        · match r with
          | [] => simp
          | [_] => simp
          | a :: b :: r' =>
            simp only
            split
            · have := ih r'; simp only [List.length_cons]; omega
            · simp
        · have := ih r; simp only [List.length_cons]; omega

theorem qdstring_mono : Mono qdstring := by
  intro s r h
  match s with
  | [] => simp [qdstring] at h
  | c :: t =>
    simp only [qdstring] at h
    split at h
    · skip
      split at h
      · have h2 := dstringItems_le t.length t
        generalize dstringItems t.length t = w at h h2
        match w, h with
        | c2 :: r2, h =>
          simp only at h
          split at h
          · simp only [Option.some.injEq] at h
            subst h
            simp only [List.length_cons] at *; omega
          · exact absurd h (by simp)
      · exact absurd h (by simp)
    · exact absurd h (by simp)

theorem noidlen_mono : Mono noidlen := by
  intro s r h
  unfold noidlen at h
  cases hn : numericoid s with
  | none => rw [hn] at h; exact absurd h (by simp)
  | some r1 =>
    rw [hn] at h
    have h1 := numericoid_mono s r1 hn
    simp only at h
    match r1, h, h1 with
    | [], h, h1 => simp only [Option.some.injEq] at h; subst h; exact h1
    | c :: r2, h, h1 =>
      simp only at h
      split at h
      · cases hnum : number r2 with
        | none => rw [hnum] at h; simp only [Option.some.injEq] at h; subst h; exact h1
        | some r3 =>
          rw [hnum] at h
          have := number_mono r2 r3 hnum
          match r3, h with
          | [], h => simp only [Option.some.injEq] at h; subst h; exact h1
          | c2 :: r4, h =>
            simp only at h
            split at h
            · simp only [Option.some.injEq] at h; subst h
              simp only [List.length_cons] at *; omega
            · simp only [Option.some.injEq] at h; subst h; exact h1
      · simp only [Option.some.injEq] at h; subst h; exact h1

theorem syntaxBody_mono : Mono syntaxBody := by
  intro s r h
  unfold syntaxBody at h
  cases hn : noidlen s with
  | some r' => rw [hn] at h; simp only [Option.some.injEq] at h; subst h; exact noidlen_mono s _ hn
  | none => rw [hn] at h; exact qdstring_mono s r h

theorem usageBody_mono : Mono usageBody := by
  intro s r h
  unfold usageBody at h
  cases hf : List.find? (fun a => (ofString a).isPrefixOf s)
      ["userApplications", "directoryOperation", "distributedOperation", "dSAOperation"] with
  | none => rw [hf] at h; exact absurd h (by simp)
  | some a =>
    rw [hf] at h
    simp only [Option.map_some, Option.some.injEq] at h
    subst h
    simp only [List.length_drop]; omega

/-! ### the optional groups -/

theorem consumed_le (s rest : Str) : (consumed s rest).length ≤ s.length := by
  unfold consumed
  have := List.length_take_le (s.length - rest.length) s
  omega

theorem kwStart_le {kw : String} {s r : Str}
    (h : ((sp1 s).bind (lit (ofString kw)) |>.bind sp1) = some r) : r.length ≤ s.length := by
  cases h1 : sp1 s with
  | none => rw [h1] at h; exact absurd h (by simp)
  | some r1 =>
    rw [h1] at h
    simp only [Option.bind_some] at h
    cases h2 : lit (ofString kw) r1 with
    | none => rw [h2] at h; exact absurd h (by simp)
    | some r2 =>
      rw [h2] at h
      simp only [Option.bind_some] at h
      have := sp1_lt h1
      have := lit_mono _ _ _ h2
      have := sp1_lt h
      omega

theorem optKw_le {body : Str → Option Str} (hb : Mono body) (kw : String) (s : Str) :
    glen (optKw kw body s).1 ≤ s.length ∧ (optKw kw body s).2.length ≤ s.length := by
  unfold optKw
  cases h : ((sp1 s).bind (lit (ofString kw)) |>.bind sp1) with
  | none => simp [glen]
  | some r =>
    simp only
    have hr := kwStart_le h
    cases hbr : body r with
    | none => simp [glen]
    | some r' =>
      simp only [glen]
      have := hb r r' hbr
      have := consumed_le r r'
      omega

theorem optFlag_le (kw : String) (s : Str) : (optFlag kw s).2.length ≤ s.length := by
  unfold optFlag
  cases h1 : sp1 s with
  | none => simp
  | some r1 =>
    simp only [Option.bind_some]
    cases h2 : lit (ofString kw) r1 with
    | none => simp
    | some r2 =>
      simp only
      have := sp1_lt h1
      have := lit_mono _ _ _ h2
      omega

theorem ofString_length (a : String) : (ofString a).length = a.length := by
  simp [ofString, String.length]

theorem optWord_le (alts : List String) (s : Str) :
    glen (optWord alts s).1 ≤ s.length ∧ (optWord alts s).2.length ≤ s.length := by
  unfold optWord
  cases h1 : sp1 s with
  | none => simp [glen]
  | some r =>
    simp only
    have hr := sp1_lt h1
    cases hf : alts.find? (fun a => (ofString a).isPrefixOf r) with
    | none => simp [glen]
    | some a =>
      simp only [glen]
      have hp := List.find?_some hf
      simp only [List.isPrefixOf_iff_prefix] at hp
      have := hp.length_le
      simp only [List.length_drop]
      omega

theorem head_le {s oidT r0 : Str} (h : head s = some (oidT, r0)) :
    oidT.length ≤ s.length ∧ r0.length ≤ s.length := by
  match s with
  | [] => simp [head] at h
  | c :: t =>
    simp only [head] at h
    split at h
    · skip
      cases hn : numericoid (wsp t) with
      | none => rw [hn] at h; exact absurd h (by simp)
      | some r2 =>
        rw [hn] at h
        simp only [Option.some.injEq, Prod.mk.injEq] at h
        obtain ⟨rfl, rfl⟩ := h
        have := numericoid_mono _ _ hn
        have := wsp_le t
        have := consumed_le (wsp t) r2
        simp only [List.length_cons]
        omega
    · exact absurd h (by simp)

theorem tail_le {s extT : Str} (h : Schema.tail s = some extT) : extT.length ≤ s.length := by
  unfold Schema.tail at h
  simp only at h
  split at h
  · split at h
    · simp only [Option.some.injEq] at h
      subst h
      exact consumed_le _ _
    · exact absurd h (by simp)
  · exact absurd h (by simp)

end Verif.Proofs.SchemaCost
