/-
`_process_incoming_message` (client, server) and the processing loop / closing logic of `receive`:
generated text = hand model.
-/
import Verif.Proofs.SessionGenSend

namespace Verif.Proofs.SessionGen

open Verif Verif.PyRtS Verif.SessionGen

/-! ### `LDAPClient._process_incoming_message` -/

/-- the generated outcome for the model's `none` = ProtocolError (fields untouched),
    `some (s, true)` = KeyError of `set.remove`, `some (s, false)` = returned -/
def procResC (v : Int) (st : St) : Option (Sess × Bool) → Res St Unit
  | none => (.error (.protocolError none none), st)
  | some (s, true) => (.error .keyError, concS v s)
  | some (s, false) => (.ok (), concS v s)

theorem client_process_eq (regs : Regs) (st : St) (m : Msg) :
    LDAPClient_process_incoming_message st m
      = procResC st.version st (clientProcess (absS .client regs st) m) := by
  rcases st with ⟨state, v, ob, outs, srch, ib, mc⟩
  rcases m with ⟨i, op, cs⟩
  unfold LDAPClient_process_incoming_message clientProcess
  by_cases hs : i ∈ srch <;> by_cases ho : i ∈ outs <;> cases op <;>
    simp [hs, ho, isInstance, classOf, Response_classes, Op.isResponse, opTag, Facts.responseOps,
      Facts.opBindRequest, Facts.opBindResponse, Facts.opUnbindRequest, Facts.opSearchRequest,
      Facts.opSearchResultEntry, Facts.opSearchResultDone, Facts.opSearchResultReference,
      Facts.opExtendedRequest, Facts.opExtendedResponse,
      setContains, setRemove, Res.lift, LDAPSession_process_incoming_message, procResC, absS, concS,
      setErase, msgResult, sasl_eq]
  all_goals (split <;> simp)
  all_goals exact (concState_absState _).symm

/-! ### `LDAPServer._process_incoming_message` -/

def procResS (v : Int) (st : St) : Option Sess → Res St Unit
  | none => (.error (.protocolError none none), st)
  | some s => (.ok (), concS v s)

theorem server_process_eq (regs : Regs) (st : St) (m : Msg) :
    LDAPServer_process_incoming_message st m
      = procResS st.version st (serverProcess (absS .server regs st) m) := by
  rcases st with ⟨state, v, ob, outs, srch, ib, mc⟩
  rcases m with ⟨i, op, cs⟩
  unfold LDAPServer_process_incoming_message serverProcess
  cases state <;> cases op <;>
    simp [isInstance, classOf, Request_classes, Op.isRequest, opTag, Facts.requestOps,
      Facts.opBindRequest, Facts.opBindResponse, Facts.opUnbindRequest, Facts.opSearchRequest,
      Facts.opSearchResultEntry, Facts.opSearchResultDone, Facts.opSearchResultReference,
      Facts.opExtendedRequest, Facts.opExtendedResponse,
      LDAPSession_process_incoming_message, procResS, absS, concS, setAdd, setInsert, absState, concState]
  all_goals (split <;> simp)

/-! ### the `for msg in incoming_msgs:` loop of `receive` -/

theorem absS_concS' {r : Role} {regs : Regs} (v : Int) {s : Sess} (hr : s.role = r) (hg : s.regs = regs) :
    absS r regs (concS v s) = s := by
  subst hr hg; exact absS_concS v s

theorem clientProcess_frame {s s1 : Sess} {m : Msg} {b : Bool} (h : clientProcess s m = some (s1, b)) :
    s1.role = s.role ∧ s1.regs = s.regs := by
  have key : (clientProcess s m).map (fun p => (p.1.role, p.1.regs))
      = (clientProcess s m).map (fun _ => (s.role, s.regs)) := by
    rcases s with ⟨role, state, out, outs, srch, ctr, res, regs⟩
    rcases m with ⟨i, op, cs⟩
    unfold clientProcess
    by_cases hs : i ∈ srch <;> by_cases ho : i ∈ outs <;> cases op <;>
      simp [hs, ho, Op.isResponse, opTag, Facts.responseOps,
        Facts.opBindRequest, Facts.opBindResponse, Facts.opUnbindRequest, Facts.opSearchRequest,
        Facts.opSearchResultEntry, Facts.opSearchResultDone, Facts.opSearchResultReference,
        Facts.opExtendedRequest, Facts.opExtendedResponse, setErase]
    all_goals (split <;> simp)
  rw [h] at key
  simpa using key

theorem serverProcess_frame {s s1 : Sess} {m : Msg} (h : serverProcess s m = some s1) :
    s1.role = s.role ∧ s1.regs = s.regs := by
  have key : (serverProcess s m).map (fun p => (p.role, p.regs))
      = (serverProcess s m).map (fun _ => (s.role, s.regs)) := by
    rcases s with ⟨role, state, out, outs, srch, ctr, res, regs⟩
    rcases m with ⟨i, op, cs⟩
    unfold serverProcess
    cases op <;>
      simp [Op.isRequest, opTag, Facts.requestOps,
        Facts.opBindRequest, Facts.opBindResponse, Facts.opUnbindRequest, Facts.opSearchRequest,
        Facts.opSearchResultEntry, Facts.opSearchResultDone, Facts.opSearchResultReference,
        Facts.opExtendedRequest, Facts.opExtendedResponse, setInsert]
    all_goals (split <;> simp)
  rw [h] at key
  simpa using key

/-- the message a `ProtocolError` raised by the loop carries as `.request`: the NoticeOfDisconnection /
    UnbindRequest that stopped the loop, `None` when `_process_incoming_message` raised (the model's
    `processLoop` keeps only the two flags `requestIsUnbind`, `requestIsNotice`) -/
def offender : Sess → List Msg → Option Msg
  | _, [] => none
  | s, m :: ms =>
    if m.op.isNotice then some m
    else if m.op.isUnbind then some m
    else
      match s.role with
      | .client =>
        match clientProcess s m with
        | some (s1, false) => offender s1 ms
        | _ => none
      | .server =>
        match serverProcess s m with
        | some s1 => offender s1 ms
        | none => none

/-- the generated loop result for a result of the model's `processLoop` -/
def loopRes (v : Int) (req : Option Msg) : ProcResult → Res St Unit
  | .ok s => (.ok (), concS v s)
  | .protoErr s _ _ => (.error (.protocolError req none), concS v s)
  | .keyErr s => (.error .keyError, concS v s)

theorem client_loop_eq (regs : Regs) : ∀ (ms : List Msg) (st : St),
    LDAPClient_LDAPSession_receive_for1 ms st
      = loopRes st.version (offender (absS .client regs st) ms) (processLoop (absS .client regs st) ms) := by
  intro ms
  induction ms with
  | nil => intro st; simp [LDAPClient_LDAPSession_receive_for1, processLoop, loopRes]
  | cons m ms ih =>
    intro st
    rw [LDAPClient_LDAPSession_receive_for1, notice_eq, isUnbind_eq, processLoop, offender]
    by_cases hn : m.op.isNotice = true
    · simp [hn, loopRes]
    · by_cases hu : m.op.isUnbind = true
      · simp [hn, hu, loopRes]
      · simp only [hn, hu, if_false, Bool.false_eq_true, absS_role, client_process_eq regs]
        cases hp : clientProcess (absS .client regs st) m with
        | none => simp [procResC, loopRes]
        | some p =>
          rcases p with ⟨s1, b⟩
          cases b
          · obtain ⟨hr, hg⟩ := clientProcess_frame hp
            simp only [procResC, Res.bind_ok]
            rw [ih, absS_concS' _ (by simpa using hr) (by simpa using hg)]
            rfl
          · simp [procResC, loopRes]

theorem server_loop_eq (regs : Regs) : ∀ (ms : List Msg) (st : St),
    LDAPServer_LDAPSession_receive_for1 ms st
      = loopRes st.version (offender (absS .server regs st) ms) (processLoop (absS .server regs st) ms) := by
  intro ms
  induction ms with
  | nil => intro st; simp [LDAPServer_LDAPSession_receive_for1, processLoop, loopRes]
  | cons m ms ih =>
    intro st
    rw [LDAPServer_LDAPSession_receive_for1, notice_eq, isUnbind_eq, processLoop, offender]
    by_cases hn : m.op.isNotice = true
    · simp [hn, loopRes]
    · by_cases hu : m.op.isUnbind = true
      · simp [hn, hu, loopRes]
      · simp only [hn, hu, if_false, Bool.false_eq_true, absS_role, server_process_eq regs]
        cases hp : serverProcess (absS .server regs st) m with
        | none => simp [procResS, loopRes]
        | some s1 =>
          obtain ⟨hr, hg⟩ := serverProcess_frame hp
          simp only [procResS, Res.bind_ok]
          rw [ih, absS_concS' _ (by simpa using hr) (by simpa using hg)]
          rfl

end Verif.Proofs.SessionGen
