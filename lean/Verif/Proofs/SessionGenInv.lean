/-
The id sets (`_outstanding_requests`, `_search_requests`) are lists without duplicates: preserved by every
`step` of the model, hence (through the step ties) by every generated public method.
-/
import Verif.Proofs.SessionGenStepRecv

set_option linter.unusedSimpArgs false

namespace Verif.Proofs.SessionGen

open Verif Verif.PyRtS Verif.SessionGen

def SetsNodup (s : Sess) : Prop := s.outstanding.Nodup ∧ s.searches.Nodup

theorem setInsert_nodup {x : Int} {l : List Int} (h : l.Nodup) : (setInsert x l).Nodup := by
  unfold setInsert
  split
  · exact h
  · rename_i hc
    have hx : x ∉ l := by simpa using hc
    rw [List.Nodup, List.pairwise_append]
    refine ⟨h, List.pairwise_singleton _ _, ?_⟩
    intro a ha b hb
    have : b = x := by simpa using hb
    subst this
    intro hab; subst hab; exact hx ha

theorem setErase_nodup {x : Int} {l : List Int} (h : l.Nodup) : (setErase x l).Nodup :=
  List.Pairwise.filter _ h

theorem sendBase_sets (s : Sess) (m : Msg) :
    (sendBase s m).1.outstanding = s.outstanding ∧ (sendBase s m).1.searches = s.searches := by
  unfold sendBase; repeat' split
  all_goals first | exact ⟨rfl, rfl⟩ | (dsimp only; split <;> exact ⟨rfl, rfl⟩)

theorem clientSend_nodup (s : Sess) (op : Op) (cs : List Control) (h : SetsNodup s) :
    SetsNodup (clientSend s op cs).1 := by
  obtain ⟨e1, e2⟩ := sendBase_sets s ⟨s.counter, op, cs⟩
  rw [clientSend_unfold]
  split
  · exact ⟨setInsert_nodup (e1 ▸ h.1), e2 ▸ h.2⟩
  · exact ⟨e1 ▸ h.1, e2 ▸ h.2⟩

theorem serverSend_nodup (s : Sess) (m : Msg) (h : SetsNodup s) : SetsNodup (serverSend s m).1 := by
  obtain ⟨e1, e2⟩ := sendBase_sets s m
  rw [serverSend_unfold]
  split
  · split
    · exact ⟨e1 ▸ h.1, e2 ▸ h.2⟩
    · exact ⟨e1 ▸ h.1, e2 ▸ h.2⟩
    · exact ⟨setErase_nodup (e1 ▸ h.1), e2 ▸ h.2⟩
  · exact ⟨e1 ▸ h.1, e2 ▸ h.2⟩

theorem clientProcess_nodup {s s1 : Sess} {m : Msg} {b : Bool} (hp : clientProcess s m = some (s1, b))
    (h : SetsNodup s) : SetsNodup s1 := by
  have key : (clientProcess s m).map (fun p =>
        decide (p.1.outstanding = s.outstanding ∨ p.1.outstanding = setErase m.id s.outstanding)
        && decide (p.1.searches = s.searches ∨ p.1.searches = setErase m.id s.searches))
      = (clientProcess s m).map (fun _ => true) := by
    rcases s with ⟨role, state, out, outs, srch, ctr, res, regs⟩
    rcases m with ⟨i, op, cs⟩
    unfold clientProcess
    by_cases hs : i ∈ srch <;> by_cases ho : i ∈ outs <;> cases op <;>
      simp [hs, ho, Op.isResponse, opTag, Facts.responseOps,
        Facts.opBindRequest, Facts.opBindResponse, Facts.opUnbindRequest, Facts.opSearchRequest,
        Facts.opSearchResultEntry, Facts.opSearchResultDone, Facts.opSearchResultReference,
        Facts.opExtendedRequest, Facts.opExtendedResponse]
    all_goals (split <;> simp)
  rw [hp] at key
  simp at key
  obtain ⟨k1, k2⟩ := key
  refine ⟨?_, ?_⟩
  · rcases k1 with k | k <;> rw [k]
    · exact h.1
    · exact setErase_nodup h.1
  · rcases k2 with k | k <;> rw [k]
    · exact h.2
    · exact setErase_nodup h.2

theorem serverProcess_nodup {s s1 : Sess} {m : Msg} (hp : serverProcess s m = some s1)
    (h : SetsNodup s) : SetsNodup s1 := by
  have key : (serverProcess s m).map (fun p =>
        decide (p.outstanding = setInsert m.id s.outstanding)
        && decide (p.searches = s.searches ∨ p.searches = setInsert m.id s.searches))
      = (serverProcess s m).map (fun _ => true) := by
    rcases s with ⟨role, state, out, outs, srch, ctr, res, regs⟩
    rcases m with ⟨i, op, cs⟩
    unfold serverProcess
    cases op <;>
      simp [Op.isRequest, opTag, Facts.requestOps,
        Facts.opBindRequest, Facts.opBindResponse, Facts.opUnbindRequest, Facts.opSearchRequest,
        Facts.opSearchResultEntry, Facts.opSearchResultDone, Facts.opSearchResultReference,
        Facts.opExtendedRequest, Facts.opExtendedResponse]
    all_goals (split <;> simp)
  rw [hp] at key
  simp at key
  obtain ⟨k1, k2⟩ := key
  refine ⟨?_, ?_⟩
  · rw [k1]; exact setInsert_nodup h.1
  · rcases k2 with k | k <;> rw [k]
    · exact h.2
    · exact setInsert_nodup h.2

theorem processLoop_nodup : ∀ (ms : List Msg) (s : Sess), SetsNodup s →
    match processLoop s ms with
    | .ok s2 => SetsNodup s2
    | .keyErr s2 => SetsNodup s2
    | .protoErr s2 _ _ => SetsNodup s2 := by
  intro ms
  induction ms with
  | nil => intro s h; simpa [processLoop] using h
  | cons m ms ih =>
    intro s h
    rw [processLoop]
    by_cases hn : m.op.isNotice = true
    · simpa [hn] using h
    · by_cases hu : m.op.isUnbind = true
      · simpa [hn, hu] using h
      · simp only [hn, hu, if_false]
        cases hr : s.role with
        | client =>
          simp only []
          cases hp : clientProcess s m with
          | none => simpa using h
          | some p =>
            rcases p with ⟨s1, b⟩
            have h1 := clientProcess_nodup hp h
            cases b
            · exact ih s1 h1
            · simpa using h1
        | server =>
          simp only []
          cases hp : serverProcess s m with
          | none => simpa using h
          | some s1 => exact ih s1 (serverProcess_nodup hp h)

theorem recv_nodup (depth : Nat) (s : Sess) (chunk : Bytes) (h : SetsNodup s) :
    SetsNodup (recv depth s chunk).1 := by
  unfold recv
  split
  · exact h
  · dsimp only
    cases hpl : parseLoop s.regs depth (s.residue ++ chunk).length (s.residue ++ chunk) with
    | error e => exact ⟨List.nodup_nil, h.2⟩
    | ok p =>
      rcases p with ⟨ms, rest⟩
      dsimp only
      have := processLoop_nodup ms { s with residue := rest } h
      cases hpr : processLoop { s with residue := rest } ms <;> rw [hpr] at this <;> dsimp only at this ⊢
      · exact this
      · exact ⟨List.nodup_nil, this.2⟩
      · exact this

theorem step_nodup (s : Sess) (c : Call) (h : SetsNodup s) : SetsNodup (step s c).1 := by
  cases c with
  | receive chunk => exact recv_nodup _ s chunk h
  | drain amount => exact h
  | register k => cases k <;> (dsimp only [step]; split <;> exact h)
  | unbind =>
    dsimp only [step]
    obtain ⟨e1, e2⟩ := sendBase_sets s unbindMsg
    by_cases hok : (sendBase s unbindMsg).2 = true
    · simp only [hok, if_true]; exact ⟨List.nodup_nil, e2 ▸ h.2⟩
    · simp only [hok, if_false]; exact ⟨e1 ▸ h.1, e2 ▸ h.2⟩
  | bind dn cred controls =>
    dsimp only [step]
    split; exact h
    split; exact h
    have := clientSend_nodup s (.bindReq Facts.ldapVersion dn cred) controls h
    split <;> rename_i hcs <;> rw [hcs] at this <;> exact this
  | search base scope deref sl tl ty filter attrs controls =>
    dsimp only [step]
    split; exact h
    have := clientSend_nodup s
      (.searchReq base scope deref sl tl ty (filter.getD (.present Facts.defaultSearchAttr)) attrs) controls h
    split <;> rename_i hcs <;> rw [hcs] at this
    · exact ⟨this.1, setInsert_nodup this.2⟩
    · exact this
  | extended name value controls =>
    dsimp only [step]
    split; exact h
    have := clientSend_nodup s (.extReq name value) controls h
    split <;> rename_i hcs <;> rw [hcs] at this <;> exact this
  | bindResponse id sasl code mdn diag controls =>
    dsimp only [step]
    split; exact h
    have := serverSend_nodup s ⟨id, .bindResp (mkResult code mdn diag) sasl, controls⟩ h
    split <;> rename_i hcs <;> rw [hcs] at this
    · split <;> exact this
    · exact this
  | extendedResponse id name value code mdn diag controls =>
    dsimp only [step]
    split; exact h
    have := serverSend_nodup s ⟨id, .extResp (mkResult code mdn diag) name value, controls⟩ h
    split <;> rename_i hcs <;> rw [hcs] at this
    · split <;> exact this
    · exact this
  | entry id name attrs controls =>
    dsimp only [step]
    split; exact h
    have := serverSend_nodup s ⟨id, .searchEntry name attrs, controls⟩ h
    split <;> rename_i hcs <;> rw [hcs] at this <;> exact this
  | reference id uris controls =>
    dsimp only [step]
    split; exact h
    have := serverSend_nodup s ⟨id, .searchRef uris, controls⟩ h
    split <;> rename_i hcs <;> rw [hcs] at this <;> exact this
  | done id code mdn diag controls =>
    dsimp only [step]
    split; exact h
    have := serverSend_nodup s ⟨id, .searchDone (mkResult code mdn diag), controls⟩ h
    split <;> rename_i hcs <;> rw [hcs] at this
    · exact ⟨this.1, setErase_nodup this.2⟩
    · exact this

theorem nodup_transfer {α : Type} (r : Role) (regs : Regs) (f : α → Outcome) (x : Res St α) (st : St) (c : Call)
    (htie : absRes r regs f x = step (absS r regs st) c)
    (h : st.outstanding_requests.Nodup ∧ st.search_requests.Nodup) :
    x.2.outstanding_requests.Nodup ∧ x.2.search_requests.Nodup := by
  have := step_nodup (absS r regs st) c h
  rw [← htie] at this
  exact this

end Verif.Proofs.SessionGen
