/-
Lemmas about the runtime `Verif.FilterRt` on the values that occur in the tie proofs of
`Props/TiesFilter.lean` (natural numbers seen as Python ints, octet lists), and the fixed casts
between the hand model's results (`FErr`, `Nat`) and the generated code's (`GErr`, `Int`).
-/
import Verif.Generated.FilterGen
import Verif.Proofs.FilterTotal
import Verif.Proofs.Asn1GenBase

namespace Verif.Proofs.FilterGen

open Verif Verif.FilterRt

/-! ### casts -/

/-- model error ↦ generated-code error (offsets and lengths as Python ints) -/
def ofFErr : FErr → GErr
  | .syntax o l => .syntax (o : Int) (l : Int)
  | .recursion => .recursion
  | .fuel => .fuel

/-- model result `(filter, octets read : Nat)` ↦ generated-code result -/
def castRes : Except FErr (Filter × Nat) → Except GErr (Filter × Int)
  | .ok (f, n) => .ok (f, (n : Int))
  | .error e => .error (ofFErr e)

/-- `none` of a model helper = the `FilterSyntaxError(offset, length)` of its caller's arguments -/
def orSyntax {α : Type} (off len : Int) : Option α → Except GErr α
  | none => .error (.syntax off len)
  | some a => .ok a

@[simp] theorem castRes_ok (f : Filter) (n : Nat) : castRes (.ok (f, n)) = .ok (f, (n : Int)) := rfl
@[simp] theorem castRes_syntax (o l : Nat) :
    castRes (.error (.syntax o l)) = .error (.syntax (o : Int) (l : Int)) := rfl

/-! ### runtime on naturals -/

theorem len_eq {α : Type} (l : List α) : len l = (l.length : Int) := rfl

theorem getItem_nat (l : List Nat) (k : Nat) (h : k < l.length) :
    getItem l (k : Int) = .ok ((l.getD k 0 : Nat) : Int) := by
  simp [getItem, Asn1Gen.normIndex_nat _ _ h]

theorem getItemL_zero {α : Type} (x : α) (r : List α) : getItemL (x :: r) 0 = .ok x := by
  have : normIndex (r.length + 1) (0 : Int) = some 0 := Asn1Gen.normIndex_nat _ 0 (by omega)
  simp [getItemL, this]

theorem slice_nat (l : List Nat) (a n : Nat) :
    slice l (a : Int) ((a : Int) + (n : Int)) = (l.drop a).take n := by
  have e : ((a : Int) + (n : Int)) = ((a + n : Nat) : Int) := by omega
  rw [e]
  simp only [PyRt.slice, Asn1Gen.clampIndex_nat]
  by_cases h : a + n ≤ l.length
  · rw [Nat.min_eq_left h, Nat.min_eq_left (by omega)]
    congr 1; omega
  · by_cases h' : a ≤ l.length
    · rw [Nat.min_eq_right (by omega), Nat.min_eq_left h']
      apply List.ext_getElem?
      intro i
      simp only [List.getElem?_take, List.getElem?_drop]
      by_cases hi : i < l.length - a
      · rw [if_pos hi, if_pos (by omega)]
      · rw [if_neg hi]
        split
        · rw [List.getElem?_eq_none (by omega)]
        · rfl
    · rw [Nat.min_eq_right (by omega), Nat.min_eq_right (by omega)]
      simp [List.drop_of_length_le (Nat.le_of_lt (Nat.lt_of_not_le h'))]

theorem sliceTo_nat (l : List Nat) (k : Nat) : sliceTo l (k : Int) = l.take k := Asn1Gen.sliceTo_nat l k

theorem rangeLen_zero (n : Nat) : rangeLen 0 (n : Int) = n := by simp [PyRt.rangeLen]

theorem pySplit_eq (sep : Nat) : ∀ l : List Nat, pySplit sep l = splitOn sep l := by
  intro l
  induction l with
  | nil => rfl
  | cons b r ih =>
    simp only [pySplit, splitOn, ih]
    have hne := FilterTotal.splitOn_ne_nil sep r
    cases hs : splitOn sep r with
    | nil => exact absurd hs hne
    | cons x xs => by_cases hb : b = sep <;> simp [hb]

theorem strLower_eq (s : List Nat) : strLower s = s.map lowerAscii := rfl

theorem unpack_filter_value_eq (v : Bytes) (off len : Int) :
    unpack_filter_value v off len = orSyntax off len (unescape (v.length + 1) v) := by
  unfold unpack_filter_value orSyntax
  cases unescape (v.length + 1) v <;> rfl

/-- the window `view[offset : offset + length]` of a call whose window lies inside the view -/
theorem window_length (view : Bytes) (off len : Nat) (h : off + len ≤ view.length) :
    ((view.drop off).take len).length = len := by
  simp only [List.length_take, List.length_drop]; omega

end Verif.Proofs.FilterGen
