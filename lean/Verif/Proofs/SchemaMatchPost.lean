/- `from_string` = match, then post-processing -/
import Verif.Model.SchemaMatch
namespace Verif.Proofs
open Verif Verif.Schema
theorem parseOC_eq_match (s : Str) :
    parseOC s = match matchOC s with | none => .error .valueError | some g => postOC g := by
  unfold parseOC matchOC postOC
  cases head s with
  | none => rfl
  | some p =>
    obtain ⟨oidT, r0⟩ := p
    dsimp only
    generalize tail _ = t
    cases t with
    | none => rfl
    | some e =>
      dsimp only [Option.getD]
      cases parseExts e <;> rfl
theorem parseDCR_eq_match (s : Str) :
    parseDCR s = match matchDCR s with | none => .error .valueError | some g => postDCR g := by
  unfold parseDCR matchDCR postDCR
  cases head s with
  | none => rfl
  | some p =>
    obtain ⟨oidT, r0⟩ := p
    dsimp only
    generalize tail _ = t
    cases t with
    | none => rfl
    | some e =>
      dsimp only [Option.getD]
      cases parseExts e <;> rfl
theorem parseAT_eq_match (s : Str) :
    parseAT s = match matchAT s with | none => .error .valueError | some g => postAT g := by
  unfold parseAT matchAT postAT usageBody
  cases head s with
  | none => rfl
  | some p =>
    obtain ⟨oidT, r0⟩ := p
    dsimp only
    generalize tail _ = t
    cases t with
    | none => rfl
    | some e =>
      dsimp only [Option.getD]
      cases parseExts e <;> rfl
end Verif.Proofs
