/-
C11, additions (part 3): the notice of disconnection in joint histories.
  * under message id 0 the server session refuses to send it (`notice_id0_refused`);
  * sent under the id of an open request it terminates both sides (`notice_termination`).
-/
import Verif.Proofs.C11MoreRun

namespace Verif.Proofs.C11More
open Verif Verif.Joint Verif.Proofs Verif.Proofs.JointP
set_option linter.unusedSimpArgs false
set_option linter.unusedVariables false

/-! ### id 0 is never outstanding at the server -/

theorem zero_not_out_of_book {y : Sys} {cst : SState} {cout csr : List Int} {RC : List Sig}
    (B : Book cst cout csr y.c.counter y.s.state y.s.outstanding RC (y.gotS.map sig) (y.sentS.map sig)
      (y.gotC.map sig))
    (hsub : ∀ m ∈ RC, m ∈ y.sentC.map sig)
    (ids : ∀ m ∈ y.sentC, m.op.isUnbind = false → 1 ≤ m.id) : (0 : Int) ∉ y.s.outstanding := by
  intro h0
  obtain ⟨⟨m, hm, hm0⟩, _⟩ := (B.sOut 0).1 h0
  have hmRC := B.gs_sub m hm
  obtain ⟨M, hM, hMs⟩ := List.mem_map.1 (hsub m hmRC)
  have hreq := (B.req m hmRC).1
  have hnu : M.op.isUnbind = false := by
    have : M.op = m.2 := by rw [← hMs]; rfl
    rw [this]; exact isReq3_not_unbind hreq
  have := ids M hM hnu
  have hid : M.id = m.1 := by rw [← hMs]; rfl
  omega

theorem zero_not_outstanding {depth : Nat} {y : Sys} (h : JInv2 depth y) : (0 : Int) ∉ y.s.outstanding := by
  by_cases hu : unbindSent y
  · obtain ⟨_, _, RC, hRC, hsrv⟩ := h.phase hu
    rcases hsrv with ⟨_, h3⟩ | ⟨cst, cout, csr, hB⟩
    · rw [h3]; simp
    · exact zero_not_out_of_book hB (fun m hm => by rw [hRC]; exact List.mem_append_left _ hm) h.ids
  · exact zero_not_out_of_book (h.bookY hu) (fun m hm => hm) h.ids

theorem notice_allowed (r : LdapResult) (v : Option Bytes) :
    allowedWhileBinding (.extResp r (some Facts.oidNotice) v) = true := by
  simp [allowedWhileBinding, Op.isNotice]

theorem notice_id0_refused (depth : Nat) (sts : List JStep) (h : AdmissibleRun depth {} sts)
    (value : Option Bytes) (code : Int) (mdn diag : Bytes) (ctl : List Control) :
    let y := (jrun depth {} sts).1
    let r := jstep depth y (.callS (noticeCall 0 value code mdn diag ctl))
    r.2 = .ldapError ∧ r.1.s.out = y.s.out ∧ r.1.sentS = y.sentS ∧ r.1.toC = y.toC ∧
      r.1.s.outstanding = y.s.outstanding ∧
      r.1.s.state = (if y.s.state = .beforeOpen then .opened else y.s.state) ∧ r.1.c = y.c := by
  intro y
  have hi : JInv2 depth y := reach h
  have h0 := zero_not_outstanding hi
  obtain ⟨m, hm, hmid, _, hcase⟩ :=
    step_serverResp y.s (noticeCall 0 value code mdn diag ctl) 0 rfl hi.base.sRole
  intro r
  have hr : r = _ := jstep_callS depth y (noticeCall 0 value code mdn diag ctl)
  rw [hr]
  rcases hcase with ⟨hst, hwhy⟩ | ⟨hst, _⟩ | ⟨_, _, hin, _⟩
  · rw [hst]
    refine ⟨rfl, rfl, by simp [sentMsg, Outcome.accepted], rfl, rfl, ?_, rfl⟩
    rcases hwhy with hc | ⟨hb, _⟩
    · simp [hc]
    · simp [hb]
  · rw [hst]
    obtain ⟨_, f2, f3, _⟩ := openUp_frame y.s
    exact ⟨rfl, f2, by simp [sentMsg, Outcome.accepted], rfl, f3, openUp_state y.s, rfl⟩
  · exact absurd hin h0

/-! ### the notice under the id of an open request -/

theorem jrun_three (depth : Nat) (y : Sys) {a b c : JStep} {y1 y2 y3 : Sys} {o1 o2 o3 : Outcome}
    (h1 : jstep depth y a = (y1, o1)) (h2 : jstep depth y1 b = (y2, o2)) (h3 : jstep depth y2 c = (y3, o3)) :
    jrun depth y [a, b, c] = (y3, [o1, o2, o3]) := by
  simp [jrun, h1, h2, h3]

theorem fillRaw_isNotice (N : Msg) : (fillRaw N).op.isNotice = N.op.isNotice := rfl

/-- the client is handed everything still in flight followed by a notice -/
theorem client_recv_notice {depth : Nat} {y : Sys} (hi : JInv2 depth y) (hnu : ¬unbindSent y)
    (N : Msg) (hN : N.op.isNotice = true) (hw : N.WF {}) (hd : N.op.filterDepth < depth) :
    ∃ c', recv depth y.c (y.toC ++ (y.s.out ++ encMsg N)) = (closeSess c', .protocolError .none) := by
  have hB := hi.bookY hnu
  have hc : y.c.state ≠ .closed := hB.cOpen
  obtain ⟨pending, _, he0⟩ := hi.base.chanC hc
  obtain ⟨p, hp, he⟩ := (hi.base.chanC.send N hw hd) hc
  have hpe : p = pending ++ [fillRaw N] := by
    rw [List.map_append, he0, List.append_assoc] at he
    exact (List.append_cancel_left he).symm
  subst hpe
  have hp' : parseLoop y.c.regs depth (y.c.residue ++ (y.toC ++ (y.s.out ++ encMsg N))).length
      (y.c.residue ++ (y.toC ++ (y.s.out ++ encMsg N))) = .ok (pending ++ [fillRaw N], []) := by
    rw [hi.base.cRegs, ← List.append_assoc]; exact hp
  have hrecv := recv_of_parse depth y.c _ _ _ hc hp'
  have hRS : y.sentS.map sig = y.gotC.map sig ++ pending.map sig ++ [] := by
    have := congrArg (List.map sig) he0
    rw [map_sig_fillRaw] at this
    rw [this]; simp
  obtain ⟨c', hl, _, _⟩ := client_loop pending { y.c with residue := [] } _ _ hi.base.cRole rfl hB hRS
  have hl2 : processLoop { y.c with residue := [] } (pending ++ [fillRaw N]) = .protoErr c' false true := by
    rw [processLoop_append _ _ _ _ hl, processLoop_cons, fillRaw_isNotice, hN]
    rfl
  rw [hl2] at hrecv
  simp only at hrecv
  refine ⟨c', ?_⟩
  rw [hrecv, hi.base.cRole]
  rfl

theorem notice_termination (depth : Nat) (sts : List JStep) (h : AdmissibleRun depth {} sts)
    (i : Int) (req : Op) (value : Option Bytes) (code : Int) (mdn diag : Bytes) (ctl : List Control) (k : Nat)
    (hnu : ¬unbindSent (jrun depth {} sts).1)
    (hopen : openRequest (jrun depth {} sts).1 i = some req)
    (hwf : CallWF depth (jrun depth {} sts).1.s (noticeCall i value code mdn diag ctl))
    (hk : (jrun depth {} sts).1.toC.length + (jrun depth {} sts).1.s.out.length +
            (encMsg (noticeOf i value code mdn diag ctl)).length ≤ k) :
    let y := (jrun depth {} sts).1
    let r := jrun depth y [.callS (noticeCall i value code mdn diag ctl), .flushS none, .deliverC k]
    r.2 = [.sent i, .bytes (y.s.out ++ encMsg (noticeOf i value code mdn diag ctl)), .protocolError .none] ∧
      r.1.c.state = .closed ∧ r.1.s.state = .closed ∧ r.1.c.outstanding = [] ∧
      r.1.toC = [] ∧ r.1.s.out = [] ∧ r.1.gotC = y.gotC ∧
      r.1.sentS = y.sentS ++ [noticeOf i value code mdn diag ctl] ∧
      (∀ o ∈ (jrun depth {} sts).2, Outcome.fine o) := by
  intro y
  have hi : JInv2 depth y := reach h
  have hB := hi.bookY hnu
  obtain ⟨M, hMmem, hMid, _, hna⟩ := openRequest_some hopen
  have hin : i ∈ y.s.outstanding := (hB.sOut i).2 ⟨⟨sig M, List.mem_map.2 ⟨M, hMmem, rfl⟩, hMid⟩, hna⟩
  have hwf' : Msg.WF {} (noticeOf i value code mdn diag ctl) ∧
      (noticeOf i value code mdn diag ctl).op.filterDepth < depth := hwf
  obtain ⟨c', hrc⟩ := client_recv_notice hi hnu (noticeOf i value code mdn diag ctl)
    (by simp [noticeOf, Op.isNotice]) hwf'.1 hwf'.2
  obtain ⟨m, hm, _, _, hcase⟩ :=
    step_serverResp y.s (noticeCall i value code mdn diag ctl) i rfl hi.base.sRole
  have hmN : m = noticeOf i value code mdn diag ctl := by
    simp only [noticeCall, msgOf, Option.some.injEq] at hm
    exact hm.symm
  subst hmN
  have hstep : step y.s (noticeCall i value code mdn diag ctl) =
      ({ y.s with state := .closed, out := y.s.out ++ encMsg (noticeOf i value code mdn diag ctl),
                  outstanding := setErase i y.s.outstanding }, .sent i) := by
    rcases hcase with ⟨_, hwhy⟩ | ⟨_, _, _, hni⟩ | ⟨_, _, _, hst⟩
    · rcases hwhy with hc | ⟨_, hb⟩
      · exact absurd hc hB.sOpen
      · rw [noticeOf, notice_allowed] at hb; cases hb
    · exact absurd hin hni
    · rw [hst]
      simp [noticeCall, respState, Proofs.isFinalCall, isDoneCall]
  have hfine : ∀ o ∈ (jrun depth {} sts).2, Outcome.fine o := by
    intro o ho
    rcases no_protocol_error_of_steps depth sts h o ho with g | g | g | ⟨g, _⟩
    · exact Or.inl g
    · exact Or.inr (Or.inl g)
    · exact Or.inr (Or.inr g)
    · exact absurd g hnu
  have e1 : jstep depth y (.callS (noticeCall i value code mdn diag ctl)) =
      ({ y with s := { y.s with state := .closed,
                                out := y.s.out ++ encMsg (noticeOf i value code mdn diag ctl),
                                outstanding := setErase i y.s.outstanding },
                sentS := y.sentS ++ [noticeOf i value code mdn diag ctl] }, .sent i) := by
    rw [jstep_callS, hstep]
    simp [sentMsg, noticeCall, Call.isSend, Outcome.accepted, msgOf, noticeOf]
  have e2 := jstep_flushS depth
      { y with s := { y.s with state := .closed,
                                out := y.s.out ++ encMsg (noticeOf i value code mdn diag ctl),
                                outstanding := setErase i y.s.outstanding },
                sentS := y.sentS ++ [noticeOf i value code mdn diag ctl] } none
  simp only [step, List.drop_length, List.take_length, drainedOf] at e2
  have e3 := jstep_deliverC depth
      { y with s := { y.s with state := .closed, out := [],
                                outstanding := setErase i y.s.outstanding },
                toC := y.toC ++ (y.s.out ++ encMsg (noticeOf i value code mdn diag ctl)),
                sentS := y.sentS ++ [noticeOf i value code mdn diag ctl] } k
  have hlen : (y.toC ++ (y.s.out ++ encMsg (noticeOf i value code mdn diag ctl))).length ≤ k := by
    have hk' : y.toC.length + y.s.out.length +
        (encMsg (noticeOf i value code mdn diag ctl)).length ≤ k := hk
    simp only [List.length_append]; omega
  simp only [List.take_of_length_le hlen, List.drop_of_length_le hlen, hrc, msgsOf, List.append_nil] at e3
  intro r
  have hr : r = _ := jrun_three depth y e1 e2 e3
  rw [hr]
  exact ⟨rfl, rfl, rfl, rfl, rfl, rfl, rfl, rfl, hfine⟩

/-- the id-0 notice as bytes the server application writes to the transport itself (the payload
    the server session attaches to a `ProtocolError`) -/
theorem unsolicited_notice_termination (depth : Nat) (sts : List JStep) (h : AdmissibleRun depth {} sts)
    (diag : Bytes) (k : Nat)
    (hnu : ¬unbindSent (jrun depth {} sts).1)
    (hwf : Msg.WF {} (noticeMsg diag)) (hd : 0 < depth)
    (hk : (jrun depth {} sts).1.toC.length + (jrun depth {} sts).1.s.out.length +
            (encMsg (noticeMsg diag)).length ≤ k) :
    let y := (jrun depth {} sts).1
    let y1 := (jstep depth y (.flushS none)).1
    let y2 : Sys := { y1 with toC := y1.toC ++ encMsg (noticeMsg diag) }
    let r := jstep depth y2 (.deliverC k)
    r.2 = .protocolError .none ∧ r.1.c.state = .closed ∧ r.1.c.outstanding = [] ∧
      r.1.toC = [] ∧ r.1.gotC = y.gotC ∧ r.1.s.state = y.s.state := by
  intro y
  have hi : JInv2 depth y := reach h
  obtain ⟨c', hrc⟩ := client_recv_notice hi hnu (noticeMsg diag)
    (by simp [noticeMsg, Op.isNotice]) hwf (by simpa [noticeMsg, Op.filterDepth] using hd)
  have e1 := jstep_flushS depth y none
  simp only [step, List.drop_length, List.take_length, drainedOf] at e1
  intro y1
  have hy1 : y1 = _ := congrArg Prod.fst e1
  intro y2
  have e3 := jstep_deliverC depth y2 k
  have htoC : y2.toC = y.toC ++ (y.s.out ++ encMsg (noticeMsg diag)) := by
    show y1.toC ++ _ = _
    rw [hy1]; simp [List.append_assoc]
  have hc2 : y2.c = y.c := by
    show y1.c = _
    rw [hy1]
  have hs2 : y2.s.state = y.s.state := by
    show y1.s.state = _
    rw [hy1]
  have hg2 : y2.gotC = y.gotC := by
    show y1.gotC = _
    rw [hy1]
  have hlen : y2.toC.length ≤ k := by
    have hk' : y.toC.length + y.s.out.length + (encMsg (noticeMsg diag)).length ≤ k := hk
    rw [htoC]; simp only [List.length_append]; omega
  rw [List.take_of_length_le hlen, List.drop_of_length_le hlen, hc2, htoC, hrc] at e3
  intro r
  have hr : r = _ := e3
  rw [hr]
  exact ⟨rfl, rfl, rfl, rfl, by simp [msgsOf, hg2], hs2⟩

end Verif.Proofs.C11More
